(* C06 -- extension round: the metric half of Horton's theorem for the breadth-first candidates of the model.
   Every simple cycle is a GF(2) sum of candidates none of which is longer than the cycle (horton_property),
   hence mcb_ref is a MINIMUM cycle basis. *)
From Coq Require Import ZArith List Bool Lia Permutation Sorted.
From Model Require Import PyBase Graph Rings.
From Proofs Require Import RingsProofs RingsMcb RingsRank RingsExt RingsDim RingsFund RingsMin.
Import ListNotations.
Open Scope Z_scope.

(* ================= A. the breadth-first tree: prefix closed, duplicate free, 1-Lipschitz ================= *)
Definition plen (e : Z * list Z) : nat := length (snd e).

Section Tree.
Variable g : graph.
Hypothesis W : gwf g.
Variable v : Z.

Definition pref_ok (t : list (Z * list Z)) : Prop :=
  forall x p, In (x, p) t -> (x = v /\ p = [v]) \/ exists p', p = p' ++ [x] /\ p' <> [] /\ In (last p' 0, p') t.
Definition closed_at (t : list (Z * list Z)) (u : Z) (pu : list Z) : Prop :=
  forall y, In y (gnbrs g u) -> exists py, In (y, py) t /\ (length py <= length pu + 1)%nat.

Record binv (queue seen : list (Z * list Z)) : Prop := {
  b_sub : incl queue seen;
  b_sorted : StronglySorted (fun a b => (plen a <= plen b)%nat) queue;
  b_bound : forall h rest, queue = h :: rest -> forall e, In e seen -> (plen e <= plen h + 1)%nat;
  b_closed : forall u pu, In (u, pu) seen -> In (u, pu) queue \/ closed_at seen u pu;
  b_nodup : NoDup (keys seen);
  b_pref : pref_ok seen;
  b_last : forall x p, In (x, p) seen -> last p 0 = x /\ p <> [] }.

(* one sweep over the neighbours of the dequeued atom *)
Lemma tvisit_fold_new path l : forall q sn, NoDup (keys sn) ->
  exists new, fold_left (tvisit path) l (q, sn) = (q ++ new, sn ++ new) /\
    (forall e, In e new -> exists i, In i l /\ e = (i, path ++ [i]) /\ ~ In i (keys sn)) /\
    (forall y, In y l -> In y (keys (sn ++ new))) /\ NoDup (keys (sn ++ new)).
Proof.
  induction l as [|i l IH]; intros q sn N.
  - exists []. rewrite !app_nil_r. repeat split; [intros e [] | intros y [] | exact N].
  - cbn [fold_left]. destruct (zmem i (keys sn)) eqn:E.
    + replace (tvisit path (q, sn) i) with (q, sn) by (unfold tvisit; cbn [snd]; rewrite E; reflexivity).
      destruct (IH q sn N) as [new [Ef [A [B C]]]]. exists new. split; [exact Ef|]. split; [|split; [|exact C]].
      * intros e He. destruct (A e He) as [j [Hj X]]. exists j. split; [right; exact Hj | exact X].
      * intros y [Hy|Hy]; [subst; rewrite keys_app; apply in_or_app; left; apply zmem_In; exact E | apply B; exact Hy].
    + replace (tvisit path (q, sn) i) with (q ++ [(i, path ++ [i])], sn ++ [(i, path ++ [i])]) by (unfold tvisit; cbn [fst snd]; rewrite E; reflexivity).
      assert (Ni : ~ In i (keys sn)) by (intros X; apply zmem_In in X; congruence).
      assert (N' : NoDup (keys (sn ++ [(i, path ++ [i])]))).
      { rewrite keys_app. cbn. apply NoDup_app_disjoint; [exact N | constructor; [intros [] | constructor]|]. intros x Hx [Hy|[]]. subst. contradiction. }
      destruct (IH (q ++ [(i, path ++ [i])]) (sn ++ [(i, path ++ [i])]) N') as [new [Ef [A [B C]]]].
      exists ((i, path ++ [i]) :: new). rewrite Ef, <- !app_assoc. cbn [app]. rewrite <- app_assoc in C. cbn [app] in C.
      assert (B' : forall y, In y l -> In y (keys (sn ++ (i, path ++ [i]) :: new))) by (intros y Hy; specialize (B y Hy); rewrite <- app_assoc in B; exact B).
      split; [reflexivity|]. split; [|split; [|exact C]].
      * intros e [He|He]; [subst; exists i; split; [left; reflexivity | split; [reflexivity | exact Ni]]|].
        destruct (A e He) as [j [Hj [X Y]]]. exists j. split; [right; exact Hj|]. split; [exact X|]. intros Z0. apply Y. rewrite keys_app. apply in_or_app. left. exact Z0.
      * intros y [Hy|Hy]; [subst; rewrite !keys_app; apply in_or_app; right; left; reflexivity | apply B'; exact Hy].
Qed.

Lemma In_keys_pair (t : list (Z * list Z)) x : In x (keys t) -> exists p, In (x, p) t.
Proof. apply In_keys_entry. Qed.

Lemma binv_step cur path rest seen : binv ((cur, path) :: rest) seen ->
  let r := fold_left (tvisit path) (gnbrs g cur) (rest, seen) in binv (fst r) (snd r).
Proof.
  intros [Sub Sorted Bound Closed Nd Pref Last]. destruct (tvisit_fold_new path (gnbrs g cur) rest seen Nd) as [new [Ef [A [B C]]]].
  cbn zeta. rewrite Ef. cbn [fst snd].
  assert (Hcur : In (cur, path) seen) by (apply Sub; left; reflexivity).
  destruct (Last cur path Hcur) as [Lc Nc].
  assert (PL : forall e, In e new -> plen e = S (length path)).
  { intros e He. destruct (A e He) as [i [_ [Ee _]]]. subst e. unfold plen. cbn [snd]. rewrite app_length. cbn. lia. }
  assert (BoundAll : forall e, In e seen -> (plen e <= length path + 1)%nat) by (intros e He; apply (Bound (cur, path) rest eq_refl e He)).
  inversion Sorted as [|? ? SortedRest HdLe]; subst. rewrite Forall_forall in HdLe.
  constructor.
  - intros e He. apply in_app_or in He. apply in_or_app. destruct He as [He|He]; [left; apply Sub; right; exact He | right; exact He].
  - (* rest ++ new sorted *)
    assert (SN : StronglySorted (fun a b => (plen a <= plen b)%nat) new).
    { clear - PL. induction new as [|e new IH]; [constructor|]. constructor; [apply IH; intros x Hx; apply PL; right; exact Hx|].
      apply Forall_forall. intros x Hx. rewrite (PL e (or_introl eq_refl)), (PL x (or_intror Hx)). lia. }
    assert (RB : forall e, In e rest -> (plen e <= length path + 1)%nat) by (intros e He; apply BoundAll; apply Sub; right; exact He).
    clear - SortedRest SN PL RB. induction rest as [|h rest IH]; [exact SN|]. inversion SortedRest as [|? ? S1 H1]; subst. cbn [app]. constructor.
    + apply IH; [exact S1 | intros e He; apply RB; right; exact He].
    + apply Forall_forall. intros x Hx. apply in_app_or in Hx. destruct Hx as [Hx|Hx]; [rewrite Forall_forall in H1; apply H1; exact Hx|].
      rewrite (PL x Hx). specialize (RB h (or_introl eq_refl)). lia.
  - (* bound relative to the new head *)
    intros h rest' Eq e He. assert (Hh : (length path <= plen h)%nat).
    { destruct rest as [|h0 rest0]; cbn [app] in Eq.
      - destruct new as [|n0 new0]; [discriminate|]. inversion Eq; subst. rewrite (PL h (or_introl eq_refl)). lia.
      - inversion Eq; subst. apply (HdLe h). left. reflexivity. }
    apply in_app_or in He. destruct He as [He|He]; [specialize (BoundAll e He); lia | rewrite (PL e He); lia].
  - (* closure *)
    intros u pu Hu. apply in_app_or in Hu. destruct Hu as [Hu|Hu].
    + destruct (Closed u pu Hu) as [[Hq|Hq]|Hc].
      * inversion Hq; subst u pu. right. intros y Hy. specialize (B y Hy). apply In_keys_pair in B. destruct B as [py Hpy]. exists py. split; [exact Hpy|].
        apply in_app_or in Hpy. destruct Hpy as [Hpy|Hpy]; [specialize (BoundAll _ Hpy); unfold plen in BoundAll; cbn in BoundAll; lia|].
        specialize (PL _ Hpy). unfold plen in PL. cbn in PL. lia.
      * left. apply in_or_app. left. exact Hq.
      * right. intros y Hy. destruct (Hc y Hy) as [py [H1 H2]]. exists py. split; [apply in_or_app; left; exact H1 | exact H2].
    + left. apply in_or_app. right. exact Hu.
  - exact C.
  - intros x p Hx. apply in_app_or in Hx. destruct Hx as [Hx|Hx].
    + destruct (Pref x p Hx) as [X|[p' [E1 [E2 E3]]]]; [left; exact X | right; exists p'; split; [exact E1 | split; [exact E2 | apply in_or_app; left; exact E3]]].
    + destruct (A _ Hx) as [i [_ [Ee _]]]. inversion Ee; subst x p. right. exists path. split; [reflexivity|]. split; [exact Nc|].
      apply in_or_app. left. exact Hcur.
  - intros x p Hx. apply in_app_or in Hx. destruct Hx as [Hx|Hx]; [apply (Last x p Hx)|].
    destruct (A _ Hx) as [i [_ [Ee _]]]. inversion Ee; subst x p. split; [apply last_last | destruct path; discriminate].
Qed.

Definition fin_tree (t : list (Z * list Z)) : Prop :=
  NoDup (keys t) /\ pref_ok t /\ (forall x p, In (x, p) t -> last p 0 = x /\ p <> []) /\ forall u pu, In (u, pu) t -> closed_at t u pu.

Lemma bfs_tree_fin fuel : forall queue seen, binv queue seen -> (mu g (keys queue) (keys seen) <= fuel)%nat ->
  fin_tree (bfs_tree fuel g queue seen).
Proof.
  assert (Done : forall seen, binv [] seen -> fin_tree seen).
  { intros seen [_ _ _ Closed Nd Pref Last]. split; [exact Nd|]. split; [exact Pref|]. split; [exact Last|].
    intros u pu Hu. destruct (Closed u pu Hu) as [[]|Hc]. exact Hc. }
  induction fuel as [|f IH]; intros queue seen Inv M.
  - destruct queue as [|h rest]; [apply Done; exact Inv | unfold mu in M; cbn in M; lia].
  - cbn [bfs_tree]. destruct queue as [|[cur path] rest]; [apply Done; exact Inv|].
    pose proof (binv_step cur path rest seen Inv) as Inv'. cbn zeta in Inv'.
    apply IH; [exact Inv'|].
    pose proof (tvisit_fold_keys path (gnbrs g cur) rest seen) as TK. cbn zeta in TK.
    assert (Hcur : In (cur, path) seen) by (apply (b_sub _ _ Inv); left; reflexivity).
    assert (Kc : forall y, In y (gnbrs g cur) -> In y (keys g)) by (intros y Hy; apply (gwf_closed g cur y W Hy)).
    pose proof (visit_fold g (gnbrs g cur) (keys rest) (keys seen) Kc) as VF. cbn zeta in VF. rewrite <- TK in VF. cbn [fst snd] in VF.
    destruct VF as [_ [_ [_ [_ [_ [_ [_ A8]]]]]]]. unfold mu in *. cbn [keys map length] in M. fold (keys rest) in M. lia.
Qed.

Hypothesis Kv : In v (keys g).

Lemma sp_tree_fin : fin_tree (sp_tree g v) /\ In (v, [v]) (sp_tree g v).
Proof.
  assert (I0 : binv [(v, [v])] [(v, [v])]).
  { constructor.
    - intros e He. exact He.
    - constructor; [constructor | constructor].
    - intros h rest Eq e [He|[]]. inversion Eq; subst. lia.
    - intros u pu [Hu|[]]. left. left. exact Hu.
    - cbn. constructor; [intros [] | constructor].
    - intros x p [Hx|[]]. inversion Hx; subst. left. tauto.
    - intros x p [Hx|[]]. inversion Hx; subst. split; [reflexivity | discriminate]. }
  split.
  - unfold sp_tree. apply bfs_tree_fin; [exact I0|]. unfold mu. cbn [keys map fst length].
    assert (U : (length (unseen g [v]) < length (unseen g []))%nat) by (apply (unseen_add g [] v Kv); intros []).
    assert (L : (length (unseen g []) <= length g)%nat).
    { unfold unseen. pose proof (filter_len_le (fun x => negb (zmem x [])) (keys g)). unfold keys in *. rewrite map_length in *. lia. }
    lia.
  - (* the root entry is never removed: the tree only grows *)
    assert (Grow : forall fuel queue seen e, In e seen -> In e (bfs_tree fuel g queue seen)).
    { induction fuel as [|f IH]; intros queue seen e He; [exact He|]. cbn [bfs_tree]. destruct queue as [|[cur path] rest]; [exact He|].
      apply IH. clear IH. generalize rest. revert He. generalize seen. induction (gnbrs g cur) as [|i l IHl]; intros sn He q; [exact He|].
      cbn [fold_left]. unfold tvisit at 2. cbn [fst snd]. destruct (zmem i (keys sn)); [apply IHl; exact He | apply IHl; apply in_or_app; left; exact He]. }
    apply Grow. left. reflexivity.
Qed.

End Tree.

Lemma seq_pairs_app_l l1 : forall l2 c d, In (c, d) (seq_pairs l1) -> In (c, d) (seq_pairs (l1 ++ l2)).
Proof.
  induction l1 as [|a l1 IH]; intros l2 c d H; [destruct H|]. destruct l1 as [|b l1']; [destruct H|].
  change ((a :: b :: l1') ++ l2) with (a :: b :: (l1' ++ l2)). cbn [seq_pairs] in H |- *. destruct H as [H|H]; [left; exact H | right; apply (IH l2 c d H)].
Qed.

(* ================= B. consequences: stored paths are shortest, prefixes are stored paths ================= *)
Section TreeFacts.
Variable g : graph.
Hypothesis W : gwf g.
Variable v : Z.
Hypothesis Kv : In v (keys g).
Let T := sp_tree g v.

Lemma T_fin : fin_tree g v T.
Proof. apply (sp_tree_fin g W v Kv). Qed.

Lemma T_root : In (v, [v]) T.
Proof. apply (sp_tree_fin g W v Kv). Qed.

Lemma T_zget x p : In (x, p) T -> zget T x = Some p.
Proof. intros H. destruct T_fin as [N _]. apply zget_In_NoDup; assumption. Qed.

Lemma T_unique x p p' : In (x, p) T -> In (x, p') T -> p = p'.
Proof. intros H1 H2. apply T_zget in H1. apply T_zget in H2. congruence. Qed.

Lemma T_good x p : In (x, p) T -> good g v T (x, p).
Proof. intros H. pose proof (sp_tree_good g v) as G. rewrite Forall_forall in G. apply G. exact H. Qed.

(* no walk from the root is shorter than the stored path *)
Lemma T_shortest w : w <> [] -> hd 0 w = v -> walk g w -> exists p, In (last w 0, p) T /\ (length p <= length w)%nat.
Proof.
  induction w as [|x w IH] using rev_ind; intros NE Hd Wk; [congruence|]. rewrite last_last. destruct w as [|a w'].
  - cbn in Hd. subst x. exists [v]. split; [apply T_root | cbn; lia].
  - destruct IH as [pu [Hu Lu]]; [discriminate | exact Hd | intros c d H; apply Wk; apply seq_pairs_app_l; exact H |].
    destruct T_fin as [_ [_ [_ Cl]]]. assert (Adj : In x (gnbrs g (last (a :: w') 0))).
    { apply Wk. assert (NEw : a :: w' <> []) by discriminate. destruct (exists_last NEw) as [l' [z E]]. rewrite E, last_last. rewrite <- app_assoc. cbn [app]. apply seq_pairs_mid. }
    destruct (Cl _ _ Hu x Adj) as [px [Hx Lx]]. exists px. split; [exact Hx|]. rewrite app_length. cbn [length] in Lu |- *. lia.
Qed.

(* every non-empty prefix of a stored path is the stored path of its last atom *)
Lemma T_prefix n : forall x p q r, length r = n -> In (x, p) T -> p = q ++ r -> q <> [] -> In (last q 0, q) T.
Proof.
  induction n as [|n IH]; intros x p q r L H E NE.
  - destruct r; [|discriminate]. rewrite app_nil_r in E. subst q. destruct T_fin as [_ [_ [La _]]]. destruct (La x p H) as [Lx _]. rewrite Lx. exact H.
  - destruct T_fin as [_ [Pf [La _]]]. destruct (Pf x p H) as [[Ex Ep]|[p' [E1 [E2 E3]]]].
    + rewrite Ep in E. apply (f_equal (@length Z)) in E. rewrite app_length, L in E. cbn in E. destruct q; [congruence | cbn in E; lia].
    + assert (NEr : r <> []) by (destruct r; [discriminate | discriminate]). destruct (exists_last NEr) as [r' [z Er]]. subst r.
      rewrite E1 in E. rewrite app_assoc in E. apply app_inj_tail in E. destruct E as [E _]. rewrite app_length in L. cbn in L.
      apply (IH (last p' 0) p' q r'); [lia | exact E3 | exact E | exact NE].
Qed.

End TreeFacts.

(* longest common prefix *)
Fixpoint lcp (a b : list Z) : list Z * (list Z * list Z) :=
  match a, b with
  | x :: a', y :: b' => if x =? y then let r := lcp a' b' in (x :: fst r, snd r) else ([], (a, b))
  | _, _ => ([], (a, b))
  end.

Lemma lcp_spec a : forall b, let r := lcp a b in
  a = fst r ++ fst (snd r) /\ b = fst r ++ snd (snd r) /\
  (fst (snd r) = [] \/ snd (snd r) = [] \/ hd 0 (fst (snd r)) <> hd 0 (snd (snd r))).
Proof.
  induction a as [|x a IH]; intros b; cbn [lcp]; [cbn; tauto|]. destruct b as [|y b]; [cbn; tauto|].
  destruct (Z.eqb_spec x y) as [E|E].
  - subst y. specialize (IH b). cbn zeta in IH. destruct IH as [A [B C]]. cbn [fst snd app]. rewrite <- A, <- B. tauto.
  - cbn [fst snd app hd]. tauto.
Qed.

(* ================= C. edge functions of pair lists, additive ================= *)
Definition eind (p e : Z * Z) : bool := edge_eqb (norm_edge p) e.
Definition pxor (l : list (Z * Z)) : efun := fun e => xfold (map (fun p => eind p e) l).

Lemma pxor_app l1 l2 e : pxor (l1 ++ l2) e = xorb (pxor l1 e) (pxor l2 e).
Proof. unfold pxor. rewrite map_app. apply xfold_app. Qed.

Lemma pxor_cons p l e : pxor (p :: l) e = xorb (eind p e) (pxor l e).
Proof. reflexivity. Qed.

Lemma norm_edge_swap p : norm_edge (swap p) = norm_edge p.
Proof. destruct p as [x y]. unfold swap, norm_edge. cbn [fst snd]. destruct (Z.ltb_spec y x), (Z.ltb_spec x y); try reflexivity; try lia. f_equal; lia. Qed.

Lemma eind_swap p e : eind (swap p) e = eind p e.
Proof. unfold eind. rewrite norm_edge_swap. reflexivity. Qed.

Lemma pxor_rev_swap l e : pxor (rev (map swap l)) e = pxor l e.
Proof.
  unfold pxor. rewrite <- (xfold_perm _ _ (Permutation_map _ (Permutation_rev (map swap l)))). rewrite map_map. f_equal. apply map_ext. intros p. apply eind_swap.
Qed.

Lemma seq_pairs_cons2 z r : r <> [] -> seq_pairs (z :: r) = (z, hd 0 r) :: seq_pairs r.
Proof. destruct r; [congruence | reflexivity]. Qed.

Lemma seq_pairs_app_ne a : forall b, a <> [] -> b <> [] -> seq_pairs (a ++ b) = seq_pairs a ++ (last a 0, hd 0 b) :: seq_pairs b.
Proof.
  induction a as [|x a IH]; intros b Na Nb; [congruence|]. destruct a as [|y a'].
  - cbn [app last seq_pairs]. apply seq_pairs_cons2. exact Nb.
  - change ((x :: y :: a') ++ b) with (x :: y :: (a' ++ b)). change (last (x :: y :: a') 0) with (last (y :: a') 0).
    change (seq_pairs (x :: y :: a' ++ b)) with ((x, y) :: seq_pairs ((y :: a') ++ b)).
    change (seq_pairs (x :: y :: a')) with ((x, y) :: seq_pairs (y :: a')).
    rewrite (IH b) by (try discriminate; exact Nb). reflexivity.
Qed.

Lemma seq_pairs_prefix q r : q <> [] -> seq_pairs (q ++ r) = seq_pairs q ++ seq_pairs (last q 0 :: r).
Proof.
  intros Nq. destruct r as [|a r']; [rewrite app_nil_r; cbn; rewrite app_nil_r; reflexivity|].
  rewrite seq_pairs_app_ne by (try exact Nq; discriminate). reflexivity.
Qed.

Lemma seq_pairs_rev p : seq_pairs (rev p) = rev (map swap (seq_pairs p)).
Proof.
  induction p as [|x p IH]; [reflexivity|]. destruct p as [|y p']; [reflexivity|].
  change (rev (x :: y :: p')) with (rev (y :: p') ++ [x]).
  assert (NE : rev (y :: p') <> []) by (cbn [rev]; destruct (rev p'); discriminate).
  rewrite seq_pairs_app_ne by (try exact NE; discriminate). rewrite IH, last_rev. cbn [hd seq_pairs].
  change (seq_pairs (x :: y :: p')) with ((x, y) :: seq_pairs (y :: p')). cbn [map rev]. reflexivity.
Qed.

Lemma map_fst_seq_pairs l : forall z, map fst (seq_pairs (l ++ [z])) = l.
Proof. induction l as [|a l IH]; intros z; [reflexivity|]. destruct l as [|b l']; [reflexivity|]. cbn [app seq_pairs map fst]. f_equal. apply (IH z). Qed.

Lemma map_snd_seq_pairs l : forall z, map snd (seq_pairs (z :: l)) = l.
Proof. induction l as [|a l IH]; intros z; [reflexivity|]. cbn [seq_pairs map snd]. f_equal. apply IH. Qed.

Lemma existsb_xfold {A} (f : A -> bool) l :
  (forall l1 p l2, l = l1 ++ p :: l2 -> f p = true -> forall x, In x (l1 ++ l2) -> f x = false) -> existsb f l = xfold (map f l).
Proof.
  intros U. destruct (existsb f l) eqn:E.
  - apply existsb_exists in E. destruct E as [p [Hp Fp]]. destruct (in_split p l Hp) as [l1 [l2 El]]. pose proof (U l1 p l2 El Fp) as Z0. subst l.
    rewrite map_app, xfold_app. cbn [map]. unfold xfold at 2. cbn [fold_right]. fold (xfold (map f l2)).
    rewrite (xfold_all_false (map f l1)), (xfold_all_false (map f l2)), Fp; [reflexivity | |];
      intros x Hx; apply in_map_iff in Hx; destruct Hx as [a [Ea Ha]]; subst x; apply Z0; apply in_or_app; tauto.
  - symmetry. apply xfold_all_false. intros x Hx. apply in_map_iff in Hx. destruct Hx as [a [Ea Ha]]. subst x.
    destruct (f a) eqn:Fa; [|reflexivity]. assert (existsb f l = true) by (apply existsb_exists; exists a; tauto). congruence.
Qed.

(* for a simple cycle the (existential) ring_has_edge is the (additive) pxor of its pairs *)
Lemma rhe_pxor r e : NoDup r -> (3 <= length r)%nat -> ring_has_edge r e = pxor (ring_pairs r) e.
Proof.
  intros N L. unfold ring_has_edge, pxor. apply (existsb_xfold (fun p => eind p e)).
  intros l1 p l2 El Fp x Hx. destruct (eind x e) eqn:Fx; [|reflexivity]. exfalso.
  assert (Nf : NoDup (map fst (ring_pairs r))).
  { destruct r as [|h t]; [cbn in L; lia|]. unfold ring_pairs. rewrite map_fst_seq_pairs. exact N. }
  assert (Nrp : NoDup (ring_pairs r)) by (apply (NoDup_map_inv fst); exact Nf).
  assert (Hp : In p (ring_pairs r)) by (rewrite El; apply in_elt).
  assert (Hx' : In x (ring_pairs r)) by (rewrite El; apply in_app_or in Hx; apply in_or_app; cbn; tauto).
  assert (Npx : p <> x) by (intros E0; subst x; rewrite El in Nrp; apply NoDup_remove_2 in Nrp; contradiction).
  unfold eind, edge_eqb in Fp, Fx. apply andb_prop in Fp, Fx. destruct Fp as [P1 P2]. destruct Fx as [X1 X2]. apply Z.eqb_eq in P1, P2, X1, X2.
  destruct p as [a b], x as [c d]. unfold norm_edge in *. cbn [fst snd] in *.
  assert (Sw : a = d /\ b = c).
  { destruct (Z.ltb_spec a b), (Z.ltb_spec c d); cbn [fst snd] in *; subst; try (exfalso; apply Npx; f_equal; lia); split; lia. }
  destruct Sw; subst c d.
  (* (a,b) and (b,a) are both pairs of the ring: the two ring neighbours of b coincide *)
  assert (Ib : In b r) by (apply (In_ring_pairs_In r a b Hp)).
  destruct (cycle_two_neighbours r b N L Ib) as [p0 [q0 [Npq [H1 H2]]]].
  rewrite (ring_pairs_inj r p0 a b N H1 Hp) in Npq. rewrite (ring_pairs_fun r b q0 a N H2 Hx') in Npq. congruence.
Qed.

(* ================= D. the cycle closed by a bond between two atoms of one breadth-first tree ================= *)
Lemma last_app_cons (q r : list Z) : q <> [] -> last (q ++ r) 0 = last (last q 0 :: r) 0.
Proof.
  intros Nq. destruct r as [|a r']; [rewrite app_nil_r; reflexivity|]. rewrite (last_app_ne q (a :: r') 0) by discriminate. reflexivity.
Qed.

Lemma small_ring_zero z0 (rx0 ry0 : list Z) x0 y0 e : last (z0 :: rx0) 0 = x0 -> last (z0 :: ry0) 0 = y0 -> x0 <> y0 ->
  (1 + length rx0 + length ry0 <= 2)%nat -> pxor (seq_pairs (z0 :: rx0) ++ (x0, y0) :: seq_pairs (rev (z0 :: ry0))) e = false.
Proof.
  intros Lx Ly Ne L. destruct rx0 as [|a [|a' rx']]; destruct ry0 as [|b [|b' ry']]; cbn [length] in L; try lia.
  - cbn in Lx, Ly. subst. unfold pxor. cbn [seq_pairs rev app map xfold fold_right].
    rewrite <- (eind_swap (y0, x0)). unfold swap. cbn [fst snd]. destruct (eind (x0, y0) e); reflexivity.
  - cbn in Lx, Ly. subst. unfold pxor. cbn [seq_pairs rev app map xfold fold_right].
    rewrite <- (eind_swap (x0, y0)). unfold swap. cbn [fst snd]. destruct (eind (y0, x0) e); reflexivity.
Qed.

Section TreeCycle.
Variable g : graph.
Hypothesis W : gwf g.
Variable v : Z.
Hypothesis Kv : In v (keys g).
Let T := sp_tree g v.
Variables x y : Z.
Variables px py : list Z.
Hypothesis Hx : In (x, px) T.
Hypothesis Hy : In (y, py) T.
Hypothesis Adj : In y (gnbrs g x).

Let q := fst (lcp px py).
Let rx := fst (snd (lcp px py)).
Let ry := snd (snd (lcp px py)).
Let z := last q 0.
Definition tc_ring : ring := (z :: rx) ++ rev ry.

Lemma tc_px : px = q ++ rx. Proof. apply (lcp_spec px py). Qed.
Lemma tc_py : py = q ++ ry. Proof. apply (lcp_spec px py). Qed.

Lemma tc_q_ne : q <> [].
Proof.
  destruct (T_good g v x px Hx) as [H1 _ H3 _ _ _]. destruct (T_good g v y py Hy) as [G1 _ G3 _ _ _]. cbn [fst snd] in *.
  unfold q. destruct px as [|a px']; [congruence|]. destruct py as [|b py']; [congruence|]. cbn [hd] in H1, G1. subst a b.
  cbn [lcp]. rewrite Z.eqb_refl. cbn [fst]. discriminate.
Qed.

Lemma tc_last_x : last (z :: rx) 0 = x.
Proof. destruct (T_good g v x px Hx) as [_ H2 _ _ _ _]. cbn [fst snd] in H2. rewrite <- H2, tc_px at 1. symmetry. apply last_app_cons. apply tc_q_ne. Qed.
Lemma tc_last_y : last (z :: ry) 0 = y.
Proof. destruct (T_good g v y py Hy) as [_ H2 _ _ _ _]. cbn [fst snd] in H2. rewrite <- H2, tc_py at 1. symmetry. apply last_app_cons. apply tc_q_ne. Qed.

Lemma tc_disjoint w : In w rx -> ~ In w ry.
Proof.
  intros I1 I2. destruct (in_split w rx I1) as [a1 [a2 E1]]. destruct (in_split w ry I2) as [b1 [b2 E2]].
  assert (Nq := tc_q_ne).
  assert (P1 : In (w, q ++ a1 ++ [w]) T).
  { assert (X : In (last (q ++ a1 ++ [w]) 0, q ++ a1 ++ [w]) T).
    { apply (T_prefix g W v Kv (length a2) x px (q ++ a1 ++ [w]) a2 eq_refl Hx); [rewrite tc_px, E1, <- !app_assoc; reflexivity | destruct q; [congruence | discriminate]]. }
    rewrite app_assoc, last_last in X. rewrite <- app_assoc in X. exact X. }
  assert (P2 : In (w, q ++ b1 ++ [w]) T).
  { assert (X : In (last (q ++ b1 ++ [w]) 0, q ++ b1 ++ [w]) T).
    { apply (T_prefix g W v Kv (length b2) y py (q ++ b1 ++ [w]) b2 eq_refl Hy); [rewrite tc_py, E2, <- !app_assoc; reflexivity | destruct q; [congruence | discriminate]]. }
    rewrite app_assoc, last_last in X. rewrite <- app_assoc in X. exact X. }
  pose proof (T_unique g W v Kv w _ _ P1 P2) as E. apply app_inv_head in E. apply app_inj_tail in E. destruct E as [E _]. subst b1.
  destruct (lcp_spec px py) as [_ [_ C]]. cbn zeta in C. fold rx ry in C. rewrite E1, E2 in C.
  destruct C as [C|[C|C]]; [destruct a1; discriminate | destruct a1; discriminate | destruct a1; cbn in C; congruence].
Qed.

Lemma tc_nodup_x : NoDup (z :: rx).
Proof.
  destruct (T_good g v x px Hx) as [_ _ _ _ H5 _]. cbn [snd] in H5. rewrite tc_px in H5. destruct (exists_last tc_q_ne) as [q' [z' E]].
  unfold z. rewrite E, last_last. rewrite E, <- app_assoc in H5. cbn [app] in H5. apply NoDup_app_inv in H5. tauto.
Qed.
Lemma tc_nodup_y : NoDup (z :: ry).
Proof.
  destruct (T_good g v y py Hy) as [_ _ _ _ H5 _]. cbn [snd] in H5. rewrite tc_py in H5. destruct (exists_last tc_q_ne) as [q' [z' E]].
  unfold z. rewrite E, last_last. rewrite E, <- app_assoc in H5. cbn [app] in H5. apply NoDup_app_inv in H5. tauto.
Qed.

Lemma tc_walk_x a b : In (a, b) (seq_pairs (z :: rx)) -> In b (gnbrs g a).
Proof.
  intros H. destruct (T_good g v x px Hx) as [_ _ _ H4 _ _]. cbn [snd] in H4. apply H4. rewrite tc_px, (seq_pairs_prefix q rx tc_q_ne). apply in_or_app. right. exact H.
Qed.
Lemma tc_walk_y a b : In (a, b) (seq_pairs (z :: ry)) -> In b (gnbrs g a).
Proof.
  intros H. destruct (T_good g v y py Hy) as [_ _ _ H4 _ _]. cbn [snd] in H4. apply H4. rewrite tc_py, (seq_pairs_prefix q ry tc_q_ne). apply in_or_app. right. exact H.
Qed.

Lemma tc_ring_pairs : ring_pairs tc_ring = seq_pairs (z :: rx) ++ (x, y) :: seq_pairs (rev (z :: ry)).
Proof.
  assert (E : tc_ring ++ [z] = (z :: rx) ++ rev (z :: ry)) by (unfold tc_ring; cbn [rev]; rewrite <- app_assoc; reflexivity).
  change (ring_pairs tc_ring) with (seq_pairs (tc_ring ++ [z])). rewrite E.
  rewrite seq_pairs_app_ne; [| discriminate | cbn [rev]; destruct (rev ry); discriminate].
  rewrite hd_rev, tc_last_x, tc_last_y. reflexivity.
Qed.

(* the edge function of the glued ring is  path(x) + path(y) + the bond x-y *)
Lemma tc_pxor e : pxor (ring_pairs tc_ring) e = xorb (xorb (pxor (seq_pairs px) e) (pxor (seq_pairs py) e)) (eind (x, y) e).
Proof.
  rewrite tc_ring_pairs, pxor_app, pxor_cons, seq_pairs_rev, pxor_rev_swap.
  rewrite tc_px at 1. rewrite tc_py at 1. rewrite !(seq_pairs_prefix q _ tc_q_ne), !pxor_app. fold z.
  destruct (pxor (seq_pairs q) e), (pxor (seq_pairs (z :: rx)) e), (pxor (seq_pairs (z :: ry)) e), (eind (x, y) e); reflexivity.
Qed.

Lemma tc_length : length tc_ring = (1 + length rx + length ry)%nat.
Proof. unfold tc_ring. rewrite app_length, rev_length. cbn. lia. Qed.

Lemma tc_xy_ne : x <> y.
Proof. apply (proj1 (gwf_gnbrs g)) in W. destruct W as [_ Wg]. destruct (Wg x (adjacent_key g x y Adj)) as [_ H]. destruct (H y Adj) as [Ne _]. congruence. Qed.

(* a simple cycle as soon as it has three atoms *)
Lemma tc_cycle : (3 <= length tc_ring)%nat -> is_cycle g tc_ring.
Proof.
  intros L. split; [exact L|]. split.
  - unfold tc_ring. apply NoDup_app_disjoint; [apply tc_nodup_x | apply (Permutation_NoDup (Permutation_rev ry)); pose proof tc_nodup_y as N; inversion N; assumption|].
    intros w H1 H2. apply in_rev in H2. destruct H1 as [H1|H1]; [subst w; pose proof tc_nodup_y as N; inversion N; contradiction | apply (tc_disjoint w H1 H2)].
  - intros a b H. rewrite tc_ring_pairs in H. apply in_app_or in H. assert (One : In b (gnbrs g a)).
    { destruct H as [H|[H|H]]; [apply tc_walk_x; exact H | inversion H; subst; exact Adj|].
      rewrite seq_pairs_rev in H. apply in_rev in H. apply in_map_iff in H. destruct H as [[c d] [E H]]. unfold swap in E. cbn in E. inversion E; subst.
      apply (gwf_sym g b a W). apply tc_walk_y. exact H. }
    split; [exact One | apply (gwf_sym g a b W One)].
Qed.

(* with fewer atoms the sum vanishes: x-y is a bond of the tree *)
Lemma tc_small e : (length tc_ring <= 2)%nat -> pxor (ring_pairs tc_ring) e = false.
Proof.
  intros L. rewrite tc_length in L. rewrite tc_ring_pairs. apply small_ring_zero; [apply tc_last_x | apply tc_last_y | apply tc_xy_ne | exact L].
Qed.

End TreeCycle.

(* ================= E. sums of candidates ================= *)
Definition csum (cs : list ring) : efun := fun e => xfold (map (fun c => ring_has_edge c e) cs).
Definition fspan (g : graph) (L : nat) (f : efun) : Prop :=
  exists cs, (forall c, In c cs -> In c (mcb_candidates g) /\ (length c <= L)%nat) /\ forall e, f e = csum cs e.

Lemma fspan_zero g L f : (forall e, f e = false) -> fspan g L f.
Proof. intros H. exists []. split; [intros c [] | intros e; rewrite H; reflexivity]. Qed.

Lemma fspan_xor g L f h k : fspan g L f -> fspan g L h -> (forall e, k e = xorb (f e) (h e)) -> fspan g L k.
Proof.
  intros [c1 [A1 B1]] [c2 [A2 B2]] E. exists (c1 ++ c2). split.
  - intros c Hc. apply in_app_or in Hc. destruct Hc; [apply A1 | apply A2]; assumption.
  - intros e. rewrite E, B1, B2. unfold csum. rewrite map_app, xfold_app. reflexivity.
Qed.

Lemma fspan_mono g L L' f : (L <= L')%nat -> fspan g L f -> fspan g L' f.
Proof. intros Le [cs [A B]]. exists cs. split; [intros c Hc; destruct (A c Hc); split; [assumption | lia] | exact B]. Qed.

Lemma fspan_ext g L f h : (forall e, h e = f e) -> fspan g L f -> fspan g L h.
Proof. intros E [cs [A B]]. exists cs. split; [exact A | intros e; rewrite E; apply B]. Qed.

Lemma fspan_xfold {A} g L (F : A -> efun) l : (forall a, In a l -> fspan g L (F a)) -> fspan g L (fun e => xfold (map (fun a => F a e) l)).
Proof.
  induction l as [|a l IH]; intros H; [apply fspan_zero; reflexivity|].
  apply (fspan_xor g L (F a) (fun e => xfold (map (fun a0 => F a0 e) l))); [apply H; left; reflexivity | apply IH; intros b Hb; apply H; right; exact Hb | reflexivity].
Qed.

(* ---------- the glued ring of an oriented bond is a candidate, or smaller and handled by induction ---------- *)
Section PairSpan.
Variable g : graph.
Hypothesis W : gwf g.
Variable v : Z.
Hypothesis Kv : In v (keys g).
Let T := sp_tree g v.
Variable n : nat.
Hypothesis IHn : forall c, is_cycle g c -> (length c < n)%nat -> fspan g (length c) (fun e => ring_has_edge c e).

Lemma pair_fspan_lt x y px py : In (x, px) T -> In (y, py) T -> In y (gnbrs g x) -> x < y -> (length px + length py <= n + 1)%nat ->
  fspan g n (fun e => xorb (xorb (pxor (seq_pairs px) e) (pxor (seq_pairs py) e)) (eind (x, y) e)).
Proof.
  intros Hx Hy Adj Lt Len. set (D := tc_ring px py).
  apply (fspan_ext g n (fun e => pxor (ring_pairs D) e)); [intros e; symmetry; apply (tc_pxor g v x y px py Hx Hy)|].
  destruct (Nat.le_gt_cases (length D) 2) as [Small|Big].
  - apply fspan_zero. intros e. eapply tc_small; eauto.
  - assert (Cyc : is_cycle g D) by (eapply tc_cycle; eauto; fold D; lia). destruct Cyc as [L3 [Nd Ad]] eqn:EC.
    apply (fspan_ext g n (fun e => ring_has_edge D e)); [intros e; symmetry; apply rhe_pxor; assumption|].
    pose proof (tc_px px py) as Epx. pose proof (tc_py px py) as Epy. pose proof (tc_length px py) as LD. fold D in LD.
    pose proof (tc_q_ne g v x y px py Hx Hy) as Nq.
    set (q := fst (lcp px py)) in *. set (rx := fst (snd (lcp px py))) in *. set (ry := snd (snd (lcp px py))) in *.
    assert (Lpx : length px = (length q + length rx)%nat) by (rewrite Epx at 1; apply app_length).
    assert (Lpy : length py = (length q + length ry)%nat) by (rewrite Epy at 1; apply app_length).
    destruct q as [|z0 [|z1 q']] eqn:Eq; [congruence | |].
    + (* the common prefix is the root alone: a Horton candidate *)
      exists [D]. split; [|intros e; unfold csum; cbn; rewrite xorb_false_r; reflexivity].
      intros c [Hc|[]]. subst c. split; [|cbn [length] in Lpx, Lpy; lia].
      assert (Ez : z0 = v).
      { destruct (T_good g v x px Hx) as [H1 _ _ _ _ _]. cbn [snd] in H1. rewrite Epx in H1. cbn in H1. exact H1. }
      subst z0. unfold mcb_candidates. apply in_or_app. left. unfold horton_candidates. apply in_flat_map. exists v. split; [exact Kv|].
      unfold horton_from. apply in_flat_map. exists (x, y). pose proof W as [Nk _]. split.
      * apply (In_edges_gnbrs g x y Nk). split; [apply (adjacent_key g x y Adj)|]. tauto.
      * cbn [fst snd]. unfold T in Hx, Hy. rewrite (T_zget g W v Kv x px Hx), (T_zget g W v Kv y py Hy).
        assert (Tx : tl px = rx) by (rewrite Epx; reflexivity). assert (Ty : tl py = ry) by (rewrite Epy; reflexivity). rewrite Tx, Ty.
        assert (Dj : disjoint_z rx ry = true) by (apply disjoint_z_spec; intros w Hw; eapply tc_disjoint; eauto).
        rewrite Dj. cbn [andb]. replace (Nat.leb 3 (length px + length ry)) with true by (symmetry; apply Nat.leb_le; cbn [length] in Lpx; lia).
        left. unfold D, tc_ring. fold q rx ry. rewrite Eq. cbn [last]. rewrite Epx. reflexivity.
    + (* a longer common prefix: the glued ring is strictly smaller *)
      cbn [length] in Lpx, Lpy. apply (fspan_mono g (length D) n); [lia|]. apply IHn; [split; [exact L3 | split; assumption] | lia].
Qed.

(* any orientation *)
Lemma pair_fspan x y px py : In (x, px) T -> In (y, py) T -> In y (gnbrs g x) -> (length px + length py <= n + 1)%nat ->
  fspan g n (fun e => xorb (xorb (pxor (seq_pairs px) e) (pxor (seq_pairs py) e)) (eind (x, y) e)).
Proof.
  intros Hx Hy Adj Len. destruct (Z.lt_trichotomy x y) as [Lt|[Eq|Gt]].
  - apply pair_fspan_lt; assumption.
  - exfalso. subst y. apply (proj1 (gwf_gnbrs g)) in W. destruct W as [_ Wg]. destruct (Wg x (adjacent_key g x x Adj)) as [_ H]. destruct (H x Adj) as [Ne _]. congruence.
  - apply (fspan_ext g n (fun e => xorb (xorb (pxor (seq_pairs py) e) (pxor (seq_pairs px) e)) (eind (y, x) e))).
    + intros e. rewrite <- (eind_swap (y, x)). unfold swap. cbn [fst snd]. destruct (pxor (seq_pairs px) e), (pxor (seq_pairs py) e); reflexivity.
    + apply pair_fspan_lt; [exact Hy | exact Hx | apply (gwf_sym g x y W Adj) | lia | lia].
Qed.

End PairSpan.

(* ================= F. every simple cycle is a sum of not-longer candidates ================= *)
Lemma seq_pairs_split l : forall x y, In (x, y) (seq_pairs l) -> exists a b, l = a ++ x :: y :: b.
Proof.
  induction l as [|h l IH]; intros x y H; [destruct H|]. destruct l as [|k l']; [destruct H|]. cbn [seq_pairs] in H. destruct H as [H|H].
  - inversion H; subst. exists [], l'. reflexivity.
  - destruct (IH x y H) as [a [b E]]. exists (h :: a), b. rewrite E. reflexivity.
Qed.

Lemma seq_pairs_app_r l1 : forall l2 c d, In (c, d) (seq_pairs l2) -> In (c, d) (seq_pairs (l1 ++ l2)).
Proof.
  induction l1 as [|a l1 IH]; intros l2 c d H; [exact H|]. cbn [app]. specialize (IH l2 c d H). destruct (l1 ++ l2) as [|b t] eqn:E; [destruct IH|].
  cbn [seq_pairs]. right. exact IH.
Qed.

Section Main.
Variable g : graph.
Hypothesis W : gwf g.

Definition path_of (v x : Z) : list Z := match zget (sp_tree g v) x with Some p => p | None => [] end.

Lemma telescoping (v : Z) (C : ring) e : C <> [] ->
  pxor (ring_pairs C) e =
  xfold (map (fun pr : Z * Z => xorb (xorb (pxor (seq_pairs (path_of v (fst pr))) e) (pxor (seq_pairs (path_of v (snd pr))) e)) (eind pr e)) (ring_pairs C)).
Proof.
  intros NE. set (pi := fun x : Z => pxor (seq_pairs (path_of v x)) e).
  rewrite (xfold_xor (fun pr : Z * Z => xorb (pi (fst pr)) (pi (snd pr))) (fun pr => eind pr e)).
  rewrite (xfold_xor (fun pr : Z * Z => pi (fst pr)) (fun pr => pi (snd pr))).
  assert (A : xfold (map (fun pr : Z * Z => pi (fst pr)) (ring_pairs C)) = xfold (map pi C)).
  { rewrite <- (map_map fst pi). destruct C as [|h t]; [congruence|]. unfold ring_pairs. rewrite map_fst_seq_pairs. reflexivity. }
  assert (B : xfold (map (fun pr : Z * Z => pi (snd pr)) (ring_pairs C)) = xfold (map pi C)).
  { rewrite <- (map_map snd pi). destruct C as [|h t]; [congruence|]. unfold ring_pairs. cbn [app]. rewrite map_snd_seq_pairs.
    apply xfold_perm. apply Permutation_map. apply Permutation_sym. apply Permutation_cons_append. }
  rewrite A, B, xorb_nilpotent, xorb_false_l. reflexivity.
Qed.

Theorem horton_fspan n : forall C, is_cycle g C -> length C = n -> fspan g n (fun e => ring_has_edge C e).
Proof.
  induction n as [n IH] using lt_wf_ind. intros C Cyc Ln. pose proof Cyc as [L3 [Nd Ad]].
  destruct C as [|v t] eqn:EC; [cbn in L3; lia|]. rewrite <- EC in *.
  assert (Kv : In v (keys g)).
  { destruct (cycle_two_neighbours C v Nd L3) as [p [q0 [_ [Hp _]]]]; [rewrite EC; left; reflexivity|]. destruct (Ad p v Hp) as [_ X]. apply (adjacent_key g v p X). }
  assert (IHn : forall c, is_cycle g c -> (length c < n)%nat -> fspan g (length c) (fun e => ring_has_edge c e)) by (intros c Hc Lc; apply (IH (length c) Lc c Hc eq_refl)).
  apply (fspan_ext g n (fun e => pxor (ring_pairs C) e)); [intros e; apply rhe_pxor; assumption|].
  apply (fspan_ext g n (fun e => xfold (map (fun pr : Z * Z => xorb (xorb (pxor (seq_pairs (path_of v (fst pr))) e) (pxor (seq_pairs (path_of v (snd pr))) e)) (eind pr e)) (ring_pairs C))));
    [intros e; apply telescoping; rewrite EC; discriminate|].
  apply (fspan_xfold g n (fun (pr : Z * Z) e => xorb (xorb (pxor (seq_pairs (path_of v (fst pr))) e) (pxor (seq_pairs (path_of v (snd pr))) e)) (eind pr e))).
  intros [x y] Hxy. cbn [fst snd].
  assert (AdjSym : forall a b, In (a, b) (ring_pairs C) -> In b (gnbrs g a) /\ In a (gnbrs g b)) by (intros a b H; apply (Ad a b H)).
  (* split the ring at the pair *)
  assert (RP : ring_pairs C = seq_pairs (C ++ [v])) by (rewrite EC; reflexivity).
  pose proof Hxy as Hs. rewrite RP in Hs. apply seq_pairs_split in Hs. destruct Hs as [a [b Es]].
  (* walk to x: a ++ [x] *)
  assert (Wx : exists px, In (x, px) (sp_tree g v) /\ (length px <= length a + 1)%nat).
  { destruct (T_shortest g W v Kv (a ++ [x])) as [px [Hpx Lpx]].
    - destruct a; discriminate.
    - destruct a as [|a0 a']; [cbn; assert (X : hd 0 (C ++ [v]) = hd 0 ([] ++ x :: y :: b)) by (rewrite Es; reflexivity); rewrite EC in X; cbn in X; congruence|].
      assert (X : hd 0 (C ++ [v]) = hd 0 ((a0 :: a') ++ x :: y :: b)) by (rewrite Es; reflexivity). rewrite EC in X. cbn in X |- *. congruence.
    - intros c d H. apply (AdjSym c d). rewrite RP, Es. replace (a ++ x :: y :: b) with ((a ++ [x]) ++ y :: b) by (rewrite <- app_assoc; reflexivity).
      apply seq_pairs_app_l. exact H.
    - rewrite last_last in Hpx. exists px. split; [exact Hpx | rewrite app_length in Lpx; cbn in Lpx; lia]. }
  (* walk to y, backwards: rev (y :: b) (which ends ... starts with v) *)
  assert (Wy : exists py, In (y, py) (sp_tree g v) /\ (length py <= length b + 1)%nat).
  { destruct (T_shortest g W v Kv (rev (y :: b))) as [py [Hpy Lpy]].
    - cbn [rev]. destruct (rev b); discriminate.
    - rewrite hd_rev. assert (X : last (C ++ [v]) 0 = last (a ++ x :: y :: b) 0) by (rewrite Es; reflexivity). rewrite last_last in X.
      rewrite (last_app_ne a (x :: y :: b) 0) in X by discriminate. change (last (x :: y :: b) 0) with (last (y :: b) 0) in X. congruence.
    - intros c d H. rewrite seq_pairs_rev in H. apply in_rev in H. apply in_map_iff in H. destruct H as [[c' d'] [E H]]. unfold swap in E. cbn in E. inversion E; subst.
      apply (AdjSym d c). rewrite RP, Es. replace (a ++ x :: y :: b) with ((a ++ [x]) ++ y :: b) by (rewrite <- app_assoc; reflexivity).
      apply seq_pairs_app_r. exact H.
    - rewrite last_rev in Hpy. cbn [hd] in Hpy. exists py. split; [exact Hpy | rewrite rev_length in Lpy; cbn in Lpy; lia]. }
  destruct Wx as [px [Hpx Lpx]]. destruct Wy as [py [Hpy Lpy]].
  assert (Lab : (length a + length b + 2 = n + 1)%nat).
  { assert (X : length (C ++ [v]) = length (a ++ x :: y :: b)) by (rewrite Es; reflexivity). rewrite !app_length in X. cbn [length] in X. lia. }
  unfold path_of. rewrite (T_zget g W v Kv x px Hpx), (T_zget g W v Kv y py Hpy).
  apply (pair_fspan g W v Kv n IHn x y px py Hpx Hpy); [apply (AdjSym x y Hxy) | lia].
Qed.

(* ---------- from sums of edge functions to the span of ring vectors ---------- *)
Lemma csum_span X cs : (forall c, In c cs -> In c X) ->
  exists sel, length sel = length (map (ring_vec g) X) /\ forall i, comb_bit sel (map (ring_vec g) X) i = xfold (map (fun c => bit (ring_vec g c) i) cs).
Proof.
  induction cs as [|c cs IH]; intros H.
  - exists (repeat false (length (map (ring_vec g) X))). split; [apply repeat_length | intros i; rewrite comb_bit_falses; reflexivity].
  - destruct IH as [s [Ls Hs]]; [intros c0 H0; apply H; right; exact H0|].
    assert (Sc : span (map (ring_vec g) X) (ring_vec g c)).
    { destruct (in_split c X (H c (or_introl eq_refl))) as [l1 [l2 E]]. rewrite E, map_app. cbn [map]. apply span_app_r. apply span_head. }
    destruct Sc as [sc [Lc Hc]]. exists (xsel sc s). split; [rewrite xsel_length; lia|]. intros i.
    rewrite comb_bit_xsel by lia. rewrite <- Hc, Hs. reflexivity.
Qed.

Theorem horton_property_holds : horton_property g.
Proof.
  intros C Cyc. unfold small_span. destruct (horton_fspan (length C) C Cyc eq_refl) as [cs [A B]].
  set (X := filter (le_len (length C)) (sort_by_len (mcb_candidates g))).
  assert (HX : forall c, In c cs -> In c X).
  { intros c Hc. destruct (A c Hc) as [A1 A2]. apply filter_In. split; [apply sort_by_len_In; exact A1 | unfold le_len; apply Nat.leb_le; exact A2]. }
  destruct (csum_span X cs HX) as [sel [Ls Hs]]. exists sel. split; [exact Ls|]. intros i. rewrite Hs.
  destruct (Nat.lt_ge_cases i (length (edges g))) as [Lt|Ge].
  - assert (Bit : forall r, bit (ring_vec g r) i = ring_has_edge r (nth i (edges g) (0, 0))).
    { intros r. unfold bit, ring_vec. rewrite (nth_indep _ false (ring_has_edge r (0, 0))) by (rewrite map_length; exact Lt). apply map_nth. }
    rewrite Bit, B. unfold csum. f_equal. apply map_ext. intros c. symmetry. apply Bit.
  - rewrite bit_beyond by (unfold ring_vec; rewrite map_length; exact Ge). symmetry. apply xfold_all_false.
    intros b Hb. apply in_map_iff in Hb. destruct Hb as [c [Eb _]]. subst b. apply bit_beyond. unfold ring_vec. rewrite map_length. exact Ge.
Qed.

(* mcb_ref has minimum total size among ALL cycle bases *)
Theorem mcb_ref_minimum rs : is_cycle_basis g rs = true -> total_size (mcb_ref g) <= total_size rs.
Proof. apply (mcb_ref_minimum_partial g W horton_property_holds). Qed.

End Main.

(* what the check evaluates per molecule: an accepted ring list with the total size of mcb_ref is a MINIMUM cycle basis *)
Theorem minimum_certificate g rs : is_cycle_basis g rs = true -> total_size rs = total_size (mcb_ref g) ->
  forall rs', is_cycle_basis g rs' = true -> total_size rs <= total_size rs'.
Proof.
  intros H E rs' H'. pose proof (basis_checker_sound g rs H) as [W _]. rewrite E. apply (mcb_ref_minimum g W rs' H').
Qed.

(* non-vacuity: the dense cage again - the recorded implementation output is rejected, mcb_ref is accepted with total 21,
   and every accepted ring list of the cage has total size >= 21 *)
Example ex_minimum : is_cycle_basis cage_7_12 (mcb_ref cage_7_12) = true /\ total_size (mcb_ref cage_7_12) = 21 /\
  forall rs, is_cycle_basis cage_7_12 rs = true -> 21 <= total_size rs.
Proof.
  split; [vm_compute; reflexivity|]. split; [vm_compute; reflexivity|]. intros rs H.
  assert (W : gwf cage_7_12) by (apply gwf_b_sound; vm_compute; reflexivity).
  pose proof (mcb_ref_minimum cage_7_12 W rs H) as M. assert (E : total_size (mcb_ref cage_7_12) = 21) by (vm_compute; reflexivity). rewrite E in M. exact M.
Qed.
