(* C01, extension: the remap() theorem for strings with stereo marks with the registries COMPUTED by the registry model of C12
   (Model.StereoRegistry, read-only): no hypothesis about the registries of the renumbered molecule is left. *)
From Coq Require Import ZArith List String Bool Lia.
From Model Require Import PyBase PyHash Graph Morgan Stereo StereoRegistry Writer.
From Proofs Require Import MorganProofs WriterInvProofs WriterStereoExt StereoRegistryProofs.
Import ListNotations.
Open Scope Z_scope.

(* the seven registries the writer reads *)
Definition stabs_of_reg (r : registries) : stabs :=
  mkStabs (r_sg_th r) (r_sg_al r) (r_al_terminals r) (r_sg_ct r) (r_ct_centers r) (r_ct_terminals r) (r_ct_counterpart r).

Lemma rn_mol_ren s g : rn_mol s g = ren_mol s g.
Proof. reflexivity. Qed.

Lemma stabs_of_rn_reg s r : stabs_of_reg (rn_reg s r) = ren_tabs s (stabs_of_reg r).
Proof.
  unfold stabs_of_reg, rn_reg, ren_tabs. cbn [r_sg_th r_sg_al r_al_terminals r_sg_ct r_ct_centers r_ct_terminals r_ct_counterpart
                                               t_tetra t_allenes t_allene_term t_sct t_ctc t_ctt t_ctcp].
  f_equal; apply map_ext; intros [k v]; cbn [fst snd]; unfold rn_zz, ren_pairv; try reflexivity;
    try (destruct v as [[[a b] c] d]; reflexivity).
Qed.

(* smiles_invariant_discrete with stereo marks under remap(): the registries of both sides are the ones the registry model
   computes from the molecule (fs / fd = the element tables is_forming_single_bonds / is_forming_double_bonds, any tables) *)
Theorem smiles_invariant_discrete_remap_registries (fs fd : Z -> bool) (g : mol) (s w w' tb tb' : Z -> Z) (o : opts) (r : registries) :
  wf_mol g = true -> (forall x y, s x = s y -> x = y) -> s 0 = 0 -> inj_on (ids g) w -> (forall n, In n (ids g) -> w' (s n) = w n) ->
  o_mapping o = false -> registries_of fs fd g = Ok r ->
  exists r', registries_of fs fd (ren_mol s g) = Ok r' /\
             smiles_text (ren_mol s g) w' tb' o (stabs_of_reg r') = map_order s (smiles_text g w tb o (stabs_of_reg r)).
Proof.
  intros Hwf Hs H0 Hw Hr Hmp Hreg. exists (rn_reg s r). split.
  - rewrite <- rn_mol_ren, (registries_rn s Hs fs fd g), Hreg. reflexivity.
  - rewrite stabs_of_rn_reg. apply smiles_invariant_discrete_remap; assumption.
Qed.
