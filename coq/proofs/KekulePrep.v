(* C05 -- __prepare_rings on a well-drawn molecule: its result satisfies `drawn` (the side condition of kekule_chain) *)
From Coq Require Import ZArith List Bool Lia Permutation.
From Model Require Import PyBase Graph Kekule.
From Proofs Require Import KekuleProofs KekuleSound KekuleLink.
Import ListNotations.
Open Scope Z_scope.

(* ---------------- zget / scan_ord ---------------- *)
Lemma zget_notin {V : Type} (d : list (Z * V)) n : ~ In n (keys d) -> zget d n = None.
Proof.
  induction d as [|[k v] r IH]; simpl; intros H; [reflexivity|]. destruct (n =? k) eqn:E.
  - apply Z.eqb_eq in E. exfalso. apply H. left. symmetry. exact E.
  - apply IH. intros I. apply H. right. exact I.
Qed.
Lemma zget_in_nodup {V : Type} (d : list (Z * V)) n v : NoDup (keys d) -> In (n, v) d -> zget d n = Some v.
Proof.
  induction d as [|[k w] r IH]; simpl; intros ND I; [contradiction|]. inversion ND as [|? ? NI ND']. subst. destruct I as [I|I].
  - injection I as E1 E2. subst. rewrite Z.eqb_refl. reflexivity.
  - destruct (n =? k) eqn:E; [|apply IH; assumption]. apply Z.eqb_eq in E. subst. exfalso. apply NI. apply in_map_iff. exists (k, v). auto.
Qed.

Definition so_row (o : Z) (nl : Z * nbl) : Z * list Z := (fst nl, keys (filter (ord_is o) (snd nl))).
Definition so_ne (nl : Z * list Z) : bool := match snd nl with [] => false | _ => true end.
Lemma scan_ord_eq g o : scan_ord g o = filter so_ne (map (so_row o) (m_adj g)).
Proof. reflexivity. Qed.

Lemma so_keys_in o : forall L n, In n (keys (filter so_ne (map (so_row o) L))) -> In n (keys L).
Proof.
  intros L n I. apply in_map_iff in I. destruct I as ([k ks] & E & I). simpl in E. subst k. apply filter_In in I. destruct I as [I _].
  apply in_map_iff in I. destruct I as ([k l] & E & I). injection E as E1 E2. subst. apply in_map_iff. exists (n, l). auto.
Qed.
Lemma so_keys_nodup o : forall L, NoDup (keys L) -> NoDup (keys (filter so_ne (map (so_row o) L))).
Proof.
  induction L as [|[k l] r IH]; simpl; intros ND; [constructor|]. inversion ND as [|? ? NI ND']. subst.
  destruct (so_ne (so_row o (k, l))); simpl; auto. constructor; auto. intros I. apply NI. apply (so_keys_in o). exact I.
Qed.
Lemma so_zget o : forall L n l, NoDup (keys L) -> In (n, l) L ->
  zget (filter so_ne (map (so_row o) L)) n = match keys (filter (ord_is o) l) with [] => None | ks => Some ks end.
Proof.
  induction L as [|[k l0] r IH]; simpl; intros n l ND I; [contradiction|]. inversion ND as [|? ? NI ND']. subst. destruct I as [I|I].
  - injection I as E1 E2. subst. unfold so_ne, so_row at 1. simpl. destruct (keys (filter (ord_is o) l)) eqn:K.
    + apply zget_notin. intros J. apply NI. apply (so_keys_in o). exact J.
    + simpl. rewrite Z.eqb_refl. rewrite ?K. reflexivity.
  - assert (N : n <> k) by (intros E; subst; apply NI; apply in_map_iff; exists (k, l); auto).
    destruct (so_ne (so_row o (k, l0))); simpl; [|apply IH; assumption]. apply Z.eqb_neq in N. rewrite N. apply IH; assumption.
Qed.
Lemma al_get_scan g o n l : NoDup (keys (m_adj g)) -> In (n, l) (m_adj g) -> al_get (scan_ord g o) n = keys (filter (ord_is o) l).
Proof. intros ND I. unfold al_get. rewrite scan_ord_eq, (so_zget o _ n l ND I). destruct (keys (filter (ord_is o) l)); reflexivity. Qed.
Lemma keys_filter_nil o l : keys (filter (ord_is o) l) = [] <-> has_ord o l = false.
Proof.
  unfold has_ord. induction l as [|x r IH]; simpl; [tauto|]. destruct (ord_is o x); simpl; [split; discriminate | exact IH].
Qed.
Lemma al_has_scan g o n l : NoDup (keys (m_adj g)) -> In (n, l) (m_adj g) -> al_has (scan_ord g o) n = has_ord o l.
Proof.
  intros ND I. unfold al_has. rewrite scan_ord_eq, (so_zget o _ n l ND I). destruct (keys (filter (ord_is o) l)) eqn:K.
  - symmetry. apply keys_filter_nil. exact K.
  - destruct (has_ord o l) eqn:H; [reflexivity|]. apply keys_filter_nil in H. congruence.
Qed.
Lemma scan_in g o n ks : In (n, ks) (scan_ord g o) -> exists l, In (n, l) (m_adj g) /\ ks = keys (filter (ord_is o) l) /\ ks <> [].
Proof.
  rewrite scan_ord_eq. intros I. apply filter_In in I. destruct I as [I NE]. apply in_map_iff in I. destruct I as ([k l] & E & I).
  injection E as E1 E2. subst. exists l. split; [exact I|]. split; [reflexivity|]. unfold so_ne in NE. simpl in NE. intros Z. rewrite Z in NE. discriminate.
Qed.
Lemma zmem_keys_filter o : forall (l : nbl) m b, NoDup (keys l) -> In (m, b) l -> zmem m (keys (filter (ord_is o) l)) = ord_is o (m, b).
Proof.
  induction l as [|[k c] r IH]; simpl; intros m b ND I; [contradiction|]. inversion ND as [|? ? NI ND']. subst. destruct I as [I|I].
  - injection I as E1 E2. subst. destruct (ord_is o (m, b)) eqn:O.
    + simpl. rewrite Z.eqb_refl. reflexivity.
    + apply zmem_false. intros J. apply NI. apply in_map_iff in J. destruct J as ([k' c'] & E & J). simpl in E. subst. apply filter_In in J.
      apply in_map_iff. exists (m, c'). tauto.
  - assert (N : m <> k) by (intros E; subst; apply NI; apply in_map_iff; exists (k, b); auto).
    destruct (ord_is o (k, c)); simpl; [|apply IH; assumption]. apply Z.eqb_neq in N. rewrite N. simpl. apply IH; assumption.
Qed.

(* ---------------- the SSSR loop adds nothing when every ring of the SSSR inside the skeleton has aromatic bonds only ---------------- *)
Definition ring_drawn (rings0 : adjl) (r : list Z) : bool :=
  negb (forallb (fun x => al_has rings0 x) r) ||
  match r with
  | [] => true
  | n :: _ => zmem n (al_get rings0 (last r n)) && forallb (fun nm => zmem (fst nm) (al_get rings0 (snd nm))) (zip_next r)
  end.

Lemma pair_step_keep s n m : zmem n (al_get (p_rings s) m) = true ->
  p_rings (pair_step s n m) = p_rings s /\ p_dbl (pair_step s n m) = p_dbl s.
Proof. intros H. unfold pair_step. rewrite H. simpl. destruct (zmem m (al_get (p_copy s) n)); simpl; auto. Qed.

Lemma ring_step_keep rings0 dbl0 s r : p_rings s = rings0 -> p_dbl s = dbl0 -> ring_drawn rings0 r = true ->
  p_rings (ring_step s r) = rings0 /\ p_dbl (ring_step s r) = dbl0.
Proof.
  intros R D H. unfold ring_step. rewrite R. unfold ring_drawn in H. destruct (forallb (fun x => al_has rings0 x) r); [|auto]. simpl in H.
  destruct r as [|n r']; [auto|]. apply andb_true_iff in H. destruct H as [H1 H2].
  assert (G : forall ps s0, p_rings s0 = rings0 -> p_dbl s0 = dbl0 -> forallb (fun nm => zmem (fst nm) (al_get rings0 (snd nm))) ps = true ->
              p_rings (fold_left (fun s nm => pair_step s (fst nm) (snd nm)) ps s0) = rings0 /\
              p_dbl (fold_left (fun s nm => pair_step s (fst nm) (snd nm)) ps s0) = dbl0).
  { induction ps as [|[a b] ps IH]; simpl; intros s0 R0 D0 F; [auto|]. apply andb_true_iff in F. destruct F as [F1 F2].
    destruct (pair_step_keep s0 a b) as [A B]; [rewrite R0; exact F1|]. apply IH; [rewrite A | rewrite B |]; assumption. }
  destruct (pair_step_keep s n (last (n :: r') n)) as [A B]; [rewrite R; exact H1|]. apply G; [rewrite A | rewrite B |]; assumption.
Qed.

Lemma sssr_keep rings0 dbl0 : forall sssr s, p_rings s = rings0 -> p_dbl s = dbl0 -> forallb (ring_drawn rings0) sssr = true ->
  p_rings (fold_left ring_step sssr s) = rings0 /\ p_dbl (fold_left ring_step sssr s) = dbl0.
Proof.
  induction sssr as [|r rs IH]; simpl; intros s R D F; [auto|]. apply andb_true_iff in F. destruct F as [F1 F2].
  destruct (ring_step_keep rings0 dbl0 s r R D F1) as [A B]. apply IH; assumption.
Qed.

(* ---------------- "fix invalid smiles": nothing is set to single -> the skeleton is unchanged ---------------- *)
Lemma unring_inner n : forall ms sn rg sg,
  let '(sn', rg', sg') := fold_left (fun st' m => let '(sn, rg, sg) := st' in
                                  if zmem m sn then st' else (sn, al_remove (al_remove rg n m) m n, sg ++ [(n, m)])) ms (sn, rg, sg) in
  exists ex, sg' = sg ++ ex /\ (ex = [] -> rg' = rg).
Proof.
  induction ms as [|m ms IH]; simpl; intros sn rg sg.
  - exists []. rewrite app_nil_r. auto.
  - destruct (zmem m sn).
    + apply IH.
    + specialize (IH sn (al_remove (al_remove rg n m) m n) (sg ++ [(n, m)])).
      revert IH. destruct (fold_left _ ms _) as [[sn' rg'] sg']. cbv beta iota. intros [ex [E K0]]. exists ((n, m) :: ex). rewrite <- app_assoc in E. split; [exact E | discriminate].
Qed.
Lemma unring_step_mono st nl : let '(_, rg, sg) := st in let '(_, rg', sg') := unring_step st nl in
  exists ex, sg' = sg ++ ex /\ (ex = [] -> rg' = rg).
Proof.
  destruct st as [[sn rg] sg]. unfold unring_step. destruct (snd nl) as [|m0 ms0] eqn:S.
  - exists []. rewrite app_nil_r. auto.
  - pose proof (unring_inner (fst nl) (m0 :: ms0) (fst nl :: sn) rg sg) as H. revert H. destruct (fold_left _ (m0 :: ms0) _) as [[sn' rg'] sg']. cbv beta iota. intros H. exact H.
Qed.
Lemma unring_mono : forall copy st, let '(_, rg, sg) := st in let '(_, rg', sg') := fold_left unring_step copy st in
  exists ex, sg' = sg ++ ex /\ (ex = [] -> rg' = rg).
Proof.
  induction copy as [|nl c IH]; intros [[sn rg] sg]; cbn [fold_left].
  - exists []. rewrite app_nil_r. auto.
  - pose proof (unring_step_mono (sn, rg, sg) nl) as H. cbv beta iota in H. revert H. destruct (unring_step (sn, rg, sg) nl) as [[sn1 rg1] sg1]. cbv beta iota. intros H.
    specialize (IH (sn1, rg1, sg1)). cbv beta iota in IH. revert IH. destruct (fold_left unring_step c (sn1, rg1, sg1)) as [[sn2 rg2] sg2]. cbv beta iota. intros IH.
    destruct H as (e1 & E1 & K1). destruct IH as (e2 & E2 & K2). cbv beta iota. exists (e1 ++ e2). split; [rewrite E2, E1, app_assoc; reflexivity|].
    intros Z. apply app_eq_nil in Z. destruct Z as [Z1 Z2]. rewrite (K2 Z2). apply K1. exact Z1.
Qed.

(* ---------------- the atom loop ---------------- *)
Lemma zmem_snoc n l k : zmem n (l ++ [k]) = zmem n l || (n =? k).
Proof. unfold zmem. rewrite existsb_app. simpl. rewrite orb_false_r. reflexivity. Qed.

Lemma classify_indb_true num chg rad nb h p d : classify_atom num chg rad nb h true = Ok (p, d) -> d = true.
Proof.
  unfold classify_atom, by_hydrogens, IAR. intros H.
  repeat match type of H with
         | (if ?c then _ else _) = _ => destruct c
         | match ?c with _ => _ end = _ => destruct c
         end; try discriminate; injection H as H1 H2; subst; try reflexivity; auto using orb_true_r.
Qed.

Definition cls (g : mol) (qdb : list Z) (n : Z) : pyres (bool * bool) :=
  match atom_of g n with
  | None => Err KeyError
  | Some a => classify_atom (a_num a) (a_chg a) (a_rad a) (neighbors (nbrs g n)) (a_h a) (zmem n qdb)
  end.

Lemma atom_loop_spec g qdb : forall ks pyr db pyr' db', NoDup ks -> atom_loop g ks qdb pyr db = Ok (pyr', db') ->
  forall n, (In n ks -> exists p d, cls g qdb n = Ok (p, d) /\ zmem n pyr' = zmem n pyr || p /\ zmem n db' = zmem n db || (d && negb (zmem n qdb))) /\
            (~ In n ks -> zmem n pyr' = zmem n pyr /\ zmem n db' = zmem n db).
Proof.
  induction ks as [|k r IH]; intros pyr db pyr' db' ND E n; simpl in E.
  - injection E as E1 E2. subst. split; [intros []|auto].
  - inversion ND as [|? ? NI ND']. subst. destruct (atom_of g k) as [a|] eqn:A; [|discriminate].
    destruct (classify_atom _ _ _ _ _ _) as [[p d]|] eqn:C; [|discriminate].
    destruct (IH _ _ _ _ ND' E n) as [I1 I2]. split.
    + intros [K|K].
      * subst k. destruct (I2 NI) as [P D]. exists p, d. unfold cls. rewrite A, C. split; [reflexivity|]. rewrite P, D. split.
        -- destruct p; [rewrite zmem_snoc, Z.eqb_refl; reflexivity | rewrite orb_false_r; reflexivity].
        -- destruct (d && negb (zmem n qdb)); [rewrite zmem_snoc, Z.eqb_refl; reflexivity | rewrite orb_false_r; reflexivity].
      * destruct (I1 K) as (p' & d' & C' & P & D). exists p', d'. split; [exact C'|]. rewrite P, D.
        assert (N : (n =? k) = false) by (apply Z.eqb_neq; intros Z; subst; contradiction). split.
        -- destruct p; [rewrite zmem_snoc, N, orb_false_r|]; reflexivity.
        -- destruct (d && negb (zmem k qdb)); [rewrite zmem_snoc, N, orb_false_r|]; reflexivity.
    + intros K. assert (N : (n =? k) = false) by (apply Z.eqb_neq; intros Z; subst; apply K; left; reflexivity).
      destruct I2 as [P D]; [intros J; apply K; right; exact J|]. rewrite P, D. split.
      * destruct p; [rewrite zmem_snoc, N, orb_false_r|]; reflexivity.
      * destruct (d && negb (zmem k qdb)); [rewrite zmem_snoc, N, orb_false_r|]; reflexivity.
Qed.

(* ---------------- the molecule graph is a simple symmetric adjacency ---------------- *)
Definition graph_ok (g : mol) : bool :=
  nodup_z (keys (m_adj g)) &&
  forallb (fun nl => nodup_z (keys (snd nl)) && negb (zmem (fst nl) (keys (snd nl))) &&
                     forallb (fun mb => match bond_of g (fst mb) (fst nl) with
                                        | Some b' => b_ord b' =? b_ord (snd mb)
                                        | None => false end) (snd nl)) (m_adj g).
Definition sssr_drawn (g : mol) (sssr : list (list Z)) : bool := forallb (ring_drawn (scan_ord g 4)) sssr.

Section Prep.
Variable g : mol.
Hypothesis G : graph_ok g = true.

Lemma g_nodup : NoDup (keys (m_adj g)).
Proof. unfold graph_ok in G. apply andb_true_iff in G. apply nodup_z_NoDup. tauto. Qed.
Lemma g_row n l : In (n, l) (m_adj g) -> NoDup (keys l) /\ ~ In n (keys l) /\
  (forall m b, In (m, b) l -> exists lm b', In (m, lm) (m_adj g) /\ In (n, b') lm /\ b_ord b' = b_ord b).
Proof.
  intros I. unfold graph_ok in G. apply andb_true_iff in G. destruct G as [_ A]. rewrite forallb_forall in A. specialize (A _ I). simpl in A.
  rewrite !andb_true_iff in A. destruct A as [[A1 A2] A3]. split; [apply nodup_z_NoDup; exact A1|]. split.
  - apply negb_true_iff in A2. apply zmem_false. exact A2.
  - intros m b J. rewrite forallb_forall in A3. specialize (A3 _ J). simpl in A3. unfold bond_of, nbrs in A3.
    destruct (zget (m_adj g) m) as [lm|] eqn:Z1; [|simpl in A3; discriminate]. destruct (zget lm n) as [b'|] eqn:Z2; [|discriminate].
    exists lm, b'. split; [apply zget_In; exact Z1|]. split; [apply zget_In; exact Z2|]. apply Z.eqb_eq. exact A3.
Qed.
Lemma g_row_unique n l l' : In (n, l) (m_adj g) -> In (n, l') (m_adj g) -> l = l'.
Proof. intros I J. pose proof (zget_in_nodup _ _ _ g_nodup I) as A. pose proof (zget_in_nodup _ _ _ g_nodup J) as B. congruence. Qed.
Lemma g_nbrs n l : In (n, l) (m_adj g) -> nbrs g n = l.
Proof. intros I. unfold nbrs. rewrite (zget_in_nodup _ _ _ g_nodup I). reflexivity. Qed.

Lemma sym_of_scan : rings_sym (scan_ord g 4) = true.
Proof.
  unfold rings_sym. apply andb_true_iff. split.
  - assert (ND := so_keys_nodup 4 _ g_nodup). rewrite <- scan_ord_eq in ND. clear - ND.
    induction (keys (scan_ord g 4)) as [|x r IH]; simpl; [reflexivity|]. inversion ND as [|? ? NI ND']. subst. apply andb_true_iff. split; [|apply IH; exact ND'].
    apply negb_true_iff. apply zmem_false. exact NI.
  - apply forallb_forall. intros [n ks] I. simpl. destruct (scan_in _ _ _ _ I) as (l & R & E & _). subst ks.
    destruct (g_row _ _ R) as (_ & NS & SY). apply andb_true_iff. split.
    + apply negb_true_iff. apply zmem_false. intros J. apply NS. apply in_map_iff in J. destruct J as ([m b] & E & J). apply filter_In in J.
      apply in_map_iff. exists (m, b). tauto.
    + apply forallb_forall. intros m J. apply in_map_iff in J. destruct J as ([m' b] & E & J). simpl in E. subst m'. apply filter_In in J. destruct J as [J O].
      destruct (SY _ _ J) as (lm & b' & RM & JN & EO). rewrite (al_get_scan g 4 m lm g_nodup RM). apply zmem_true. apply in_map_iff. exists (n, b').
      split; [reflexivity|]. apply filter_In. split; [exact JN|]. unfold ord_is in *. simpl in *. rewrite EO. exact O.
Qed.

Lemma arom_has l : arom_deg l <> 0 -> has_ord 4 l = true.
Proof.
  unfold arom_deg, has_ord. induction l as [|x r IH]; simpl; [intros H; contradiction|]. destruct (ord_is 4 x); [reflexivity|]. simpl. exact IH.
Qed.

Lemma drawn_of_scan db pyr :
  (forall n l, In (n, l) (m_adj g) -> arom_deg l <> 0 ->
     exists p d, atom_class g n l = Ok (p, d) /\ d = zmem n db /\ (d = true \/ p = zmem n pyr)) ->
  drawn g (scan_ord g 4) db pyr = true.
Proof.
  intros H. unfold drawn. apply forallb_forall. intros [n l] I. simpl. destruct (g_row _ _ I) as (ND & _ & _).
  rewrite (al_get_scan g 4 n l g_nodup I). rewrite !andb_true_iff. split; [split; [split|]|].
  - clear - ND. induction (keys l) as [|x r IH]; simpl; [reflexivity|]. inversion ND as [|? ? NI ND']. subst. apply andb_true_iff. split; [|apply IH; exact ND'].
    apply negb_true_iff. apply zmem_false. exact NI.
  - apply forallb_forall. intros [m b] J. simpl. rewrite (zmem_keys_filter 4 l m b ND J). apply eqb_reflx.
  - apply forallb_forall. intros m J. apply zmem_true. apply in_map_iff in J. destruct J as ([m' b] & E & J). apply filter_In in J.
    apply in_map_iff. exists (m', b). tauto.
  - destruct (arom_deg l =? 0) eqn:AD; [reflexivity|]. apply Z.eqb_neq in AD. destruct (H _ _ I AD) as (p & d & AC & Ed & Ep). rewrite AC.
    rewrite (al_has_scan g 4 n l g_nodup I), (arom_has _ AD). simpl. apply andb_true_iff. split.
    + rewrite Ed. apply eqb_reflx.
    + destruct Ep as [Ep|Ep]; [rewrite Ep; reflexivity|]. rewrite Ep, eqb_reflx. apply orb_true_r.
Qed.

(* __prepare_rings on a well-drawn molecule *)
Theorem prepare_rings_drawn_sec sssr p : sssr_drawn g sssr = true -> prepare_rings g sssr = Ok p -> r_singled p = [] ->
  r_rings p = scan_ord g 4 /\ rings_sym (r_rings p) = true /\ drawn g (r_rings p) (r_double p) (r_pyrroles p) = true.
Proof.
  intros S E Sg. pose proof sym_of_scan as SYM. unfold prepare_rings in E. destruct (scan_ord g 4) as [|x0 r0] eqn:S4.
  - injection E as E. subst p. simpl. split; [reflexivity|]. split; [reflexivity|]. rewrite <- S4. apply drawn_of_scan.
    intros n l I AD. exfalso. apply arom_has in AD. rewrite <- (al_has_scan g 4 n l g_nodup I), S4 in AD. discriminate.
  - rewrite <- S4 in *.
    destruct (existsb _ (triple_bonded g)) eqn:T3; [discriminate|].
    unfold sssr_drawn in S.
    destruct (sssr_keep (scan_ord g 4) (scan_ord g 2) sssr (mkPrs (scan_ord g 4) (scan_ord g 4) (scan_ord g 2)) eq_refl eq_refl S) as [KR KD].
    set (s := fold_left ring_step sssr (mkPrs (scan_ord g 4) (scan_ord g 4) (scan_ord g 2))) in *.
    pose proof (unring_mono (p_copy s) ([], p_rings s, [])) as UM. cbv beta iota in UM. revert UM E.
    destruct (fold_left unring_step (p_copy s) ([], p_rings s, [])) as [[seen rings] singled]. cbv beta iota. intros UM E.
    destruct (existsb _ rings) eqn:D23; [discriminate|].
    match type of E with (if ?c then _ else _) = _ => destruct c eqn:Q2; [discriminate|] end.
    match type of E with (if ?c then _ else _) = _ => destruct c eqn:Q3; [discriminate|] end.
    match type of E with context [atom_loop g (keys rings) ?q [] ?q] => set (qdb := q) in * end.
    destruct (atom_loop g (keys rings) qdb [] qdb) as [[pyr db]|] eqn:L; [|discriminate].
    injection E as E. subst p. simpl in *. destruct UM as (ex & EX & KX). simpl in EX. subst ex. specialize (KX Sg). rewrite KR in KX. subst rings.
    split; [reflexivity|]. split; [exact SYM|]. apply drawn_of_scan. intros n l I AD.
    assert (H4 := arom_has _ AD).
    assert (NK : NoDup (keys (scan_ord g 4))) by (rewrite scan_ord_eq; apply so_keys_nodup; exact g_nodup).
    assert (HK : al_has (scan_ord g 4) n = true) by (rewrite (al_has_scan g 4 n l g_nodup I); exact H4).
    assert (IK : In n (keys (scan_ord g 4))).
    { unfold al_has in HK. destruct (zget (scan_ord g 4) n) as [ks|] eqn:Z; [|discriminate]. apply zget_In in Z. apply in_map_iff. exists (n, ks). auto. }
    destruct (atom_loop_spec g qdb _ _ _ _ _ NK L n) as [SP _]. destruct (SP IK) as (p & d & C & P & D). simpl in P.
    (* n in qdb <-> it has a double bond *)
    assert (Q : zmem n qdb = has_ord 2 l).
    { destruct (has_ord 2 l) eqn:H2.
      - apply zmem_true. unfold qdb. rewrite KD. pose proof (so_zget 2 _ n l g_nodup I) as Z. rewrite <- scan_ord_eq in Z.
        destruct (keys (filter (ord_is 2) l)) as [|k0 ks0] eqn:K; [apply keys_filter_nil in K; congruence|].
        apply zget_In in Z. apply in_map_iff. exists (n, k0 :: ks0). split; [reflexivity|]. apply filter_In. split; [exact Z|]. simpl. exact HK.
      - apply zmem_false. intros J. unfold qdb in J. rewrite KD in J. apply in_map_iff in J. destruct J as ([n' ks] & E & J). simpl in E. subst n'.
        apply filter_In in J. destruct J as [J _]. destruct (scan_in _ _ _ _ J) as (l' & R & E & NE). rewrite (g_row_unique _ _ _ R I) in E.
        apply NE. rewrite E. apply keys_filter_nil. exact H2. }
    unfold cls in C. destruct (atom_of g n) as [a|] eqn:A; [|discriminate]. rewrite (g_nbrs _ _ I), Q in C.
    exists p, d. split; [|split].
    + unfold atom_class. rewrite A.
      destruct (has_ord 3 l) eqn:H3.
      { exfalso. rewrite <- not_true_iff_false in T3. apply T3. apply existsb_exists. exists n. split; [|exact HK].
        unfold triple_bonded. apply in_map_iff. exists (n, l). split; [reflexivity|]. apply filter_In. split; [exact I | exact H3]. }
      destruct (has_ord 2 l) eqn:H2; [|exact C]. simpl.
      assert (QK : quinone_ok (a_num a) (a_chg a) = true).
      { destruct (quinone_ok (a_num a) (a_chg a)) eqn:QQ; [reflexivity|]. exfalso. rewrite <- not_true_iff_false in Q3. apply Q3.
        apply existsb_exists. exists n. split; [apply zmem_true; exact Q|]. rewrite A, QQ. reflexivity. }
      rewrite QK. simpl. exact C.
    + rewrite D, Q. destruct (has_ord 2 l) eqn:H2.
      * rewrite (classify_indb_true _ _ _ _ _ _ _ C). reflexivity.
      * simpl. rewrite andb_true_r. reflexivity.
    + right. rewrite P. reflexivity.
Qed.
End Prep.

Theorem prepare_rings_drawn : forall g sssr p,
  graph_ok g = true -> sssr_drawn g sssr = true -> prepare_rings g sssr = Ok p -> r_singled p = [] ->
  r_rings p = scan_ord g 4 /\ rings_sym (r_rings p) = true /\ drawn g (r_rings p) (r_double p) (r_pyrroles p) = true.
Proof. intros g sssr p G. exact (prepare_rings_drawn_sec g G sssr p). Qed.
Print Assumptions prepare_rings_drawn.

(* ---------------- the whole chain from the molecule: prepare_rings, the component searches, the relation ---------------- *)
Definition chain_hyp2 (g : mol) (sssr : list (list Z)) (p : prep) (comps : list (adjl * list Z * list Z)) : bool :=
  graph_ok g && sssr_drawn g sssr && (match r_singled p with [] => true | _ => false end) &&
  split_ok (r_rings p) (map (fun c => fst (fst c)) comps) &&
  forallb (fun c => let '(R, dbi, pyri) := c in rings_wf2 R dbi pyri && comp_agree (r_double p) (r_pyrroles p) R dbi pyri) comps.

Theorem kekule_prepare_chain : forall g sssr p (comps : list (adjl * list Z * list Z * list kentry)),
  prepare_rings g sssr = Ok p -> chain_hyp2 g sssr p (map fst comps) = true ->
  (forall R dbi pyri f, In (R, dbi, pyri, f) comps ->
     exists db_start bs maxy fuel ys r c, (dbi <> [] -> In db_start dbi) /\
       kekule_component R dbi db_start pyri bs maxy fuel = Ok (ys, r, c) /\ In f ys) ->
  kekule_rel_core g (apply_form g (concat (map snd comps))) = true.
Proof.
  intros g sssr p comps E H K. unfold chain_hyp2 in H. rewrite !andb_true_iff in H. destruct H as [[[[A B] C] D] F].
  assert (Sg : r_singled p = []) by (destruct (r_singled p); [reflexivity | discriminate]).
  destruct (prepare_rings_drawn g sssr p A B E Sg) as (_ & SY & DR).
  apply (kekule_chain g (r_rings p) (r_double p) (r_pyrroles p) comps); [|exact K].
  unfold chain_hyp. rewrite SY, DR, D, F. reflexivity.
Qed.
Print Assumptions kekule_prepare_chain.

Definition chain2_of (g : mol) (sssr : list (list Z)) : bool :=
  match prepare_rings g sssr with
  | Ok p => chain_hyp2 g sssr p [(r_rings p, r_double p, r_pyrroles p)]
  | Err _ => false
  end.
Theorem kekule_prepare_chain_examples :
  chain2_of benzene_a [[1; 2; 3; 4; 5; 6]] = true /\ chain2_of pyrrole_a [[1; 2; 3; 4; 5]] = true /\
  chain2_of pyridine_a [[1; 2; 3; 4; 5; 6]] = true /\ chain2_of quinone_a [[1; 2; 3; 4; 5; 6]] = true /\
  (* one ring bond of benzene written single: the SSSR ring inside the skeleton has a non-aromatic bond *)
  chain2_of (ring [cH; cH; cH; cH; cH; cH] [4; 4; 4; 1; 4; 4]) [[1; 2; 3; 4; 5; 6]] = false.
Proof. vm_compute. repeat split; reflexivity. Qed.
