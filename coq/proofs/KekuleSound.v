(* C05 -- soundness of the search model kekule_component (the code after fix ad376fe): every form it yields for well-formed
   arguments is a perfect matching of exactly the atoms that need a double bond.  The proof is a lineage invariant over the
   explicit stack and its fork snapshots: a configuration (path, pending list) keeps
     - only skeleton bonds, pairwise different (path and pending together),
     - every pending bond leaving a visited atom and - unless it closes the ring to the start atom or is the stale closure
       item of a pyrrole-type atom that went on with one neighbour - entering an unvisited one; every item that leaves an
       atom with a stale item comes later in the list (is popped earlier),
     - all but the last pending item single and without cut mark,
     - every visited atom complete (all its bonds placed or pending) with exactly the number of double bonds of its class,
   and every snapshot below the top is a configuration for the path prefix its cut mark names. *)
From Coq Require Import ZArith List Bool Lia Permutation.
From Model Require Import PyBase Graph Kekule.
From Proofs Require Import KekuleProofs.
Import ListNotations.
Open Scope Z_scope.

(* ---------------- undirected bonds ---------------- *)
Lemma bond_key_sym a b : bond_key a b = bond_key b a.
Proof. unfold bond_key. destruct (a <=? b) eqn:E1, (b <=? a) eqn:E2; try reflexivity.
  - apply Z.leb_le in E1. apply Z.leb_le in E2. assert (a = b) by lia. subst. reflexivity.
  - apply Z.leb_gt in E1. apply Z.leb_gt in E2. lia. Qed.

Lemma bond_key_eq a b c d : bond_key a b = bond_key c d <-> (a = c /\ b = d) \/ (a = d /\ b = c).
Proof.
  unfold bond_key. destruct (a <=? b) eqn:E1, (c <=? d) eqn:E2; split; intros H;
    try (injection H as H1 H2; subst; auto);
    try (destruct H as [[H1 H2]|[H1 H2]]; subst; try reflexivity;
         try (apply Z.leb_le in E1); try (apply Z.leb_le in E2); try (apply Z.leb_gt in E1); try (apply Z.leb_gt in E2);
         try (assert (c = d) by lia; subst; reflexivity); try (assert (a = b) by lia; subst; reflexivity); try lia).
Qed.

Lemma zpair_eqb_eq x y : zpair_eqb x y = true <-> x = y.
Proof. unfold zpair_eqb. destruct x, y. simpl. rewrite andb_true_iff, !Z.eqb_eq. split; [intros [A B]; subst; auto | intros H; injection H; auto]. Qed.

Lemma existsb_zpair k l : existsb (zpair_eqb k) l = true <-> In k l.
Proof. rewrite existsb_exists. split; [intros [x [I E]]; apply zpair_eqb_eq in E; subst; auto | intros I; exists k; split; auto; apply zpair_eqb_eq; auto]. Qed.

Lemma countb_app {A : Type} (f : A -> bool) l l' : countb f (l ++ l') = countb f l + countb f l'.
Proof. induction l as [|x r IH]; simpl; [lia | rewrite IH; lia]. Qed.

Lemma countb_NoDup_one k l : NoDup l -> In k l -> countb (zpair_eqb k) l = 1.
Proof.
  induction l as [|x r IH]; intros N I; [contradiction|]. inversion N; subst. simpl.
  destruct (zpair_eqb k x) eqn:E.
  - apply zpair_eqb_eq in E. subst x. assert (Z0 : countb (zpair_eqb k) r = 0).
    { apply countb_zero. apply forallb_forall. intros y Hy. destruct (zpair_eqb k y) eqn:E'; auto. apply zpair_eqb_eq in E'. subst. contradiction. }
    lia.
  - destruct I as [I|I]; [subst; rewrite (proj2 (zpair_eqb_eq k k) eq_refl) in E; discriminate|]. rewrite (IH H2 I). lia.
Qed.

Lemma zmem_true x l : zmem x l = true <-> In x l.
Proof. apply zmem_In. Qed.
Lemma zmem_false x l : zmem x l = false <-> ~ In x l.
Proof. rewrite <- zmem_In. destruct (zmem x l); split; intros; try discriminate; auto. exfalso; auto. Qed.

Lemma nodup_z_NoDup l : nodup_z l = true -> NoDup l.
Proof. induction l as [|x r IH]; simpl; intros H; constructor; apply andb_true_iff in H; destruct H as [H1 H2]; auto.
  apply negb_true_iff in H1. apply zmem_false in H1. exact H1. Qed.

Lemma countb_le1 {A B : Type} (f : A -> bool) (g : A -> B) (k : B) : forall l, NoDup (map g l) ->
  (forall x, In x l -> f x = true -> g x = k) -> countb f l <= 1.
Proof.
  induction l as [|x r IH]; intros N H; simpl; [lia|]. inversion N as [|? ? NI NR]; subst.
  destruct (f x) eqn:Fx.
  - assert (Z0 : countb f r = 0).
    { apply countb_zero. apply forallb_forall. intros y Hy. apply negb_true_iff. destruct (f y) eqn:Fy; auto. exfalso. apply NI.
      rewrite (H x (or_introl eq_refl) Fx), <- (H y (or_intror Hy) Fy). apply in_map. exact Hy. }
    lia.
  - assert (IHr := IH NR (fun y Hy => H y (or_intror Hy))). lia.
Qed.

Lemma countb_ge1 {A : Type} (f : A -> bool) l x : In x l -> f x = true -> 1 <= countb f l.
Proof.
  induction l as [|y r IH]; intros I F; [contradiction|]. simpl. pose proof (countb_nonneg f r).
  destruct I as [I|I]; [subst; rewrite F; lia | specialize (IH I F); destruct (f y); lia].
Qed.



(* ---------------- the list operations of the loop body, as permutations ---------------- *)
Lemma option_eqb_Z_true a b : option_eqb Z.eqb a b = true <-> a = b.
Proof. split; [apply option_eqb_Z_eq | intros; subst; apply option_eqb_Z_refl]. Qed.

Lemma kitem_eqb_eq x y : kitem_eqb x y = true <-> x = y.
Proof.
  destruct x as [[[a b] c] d], y as [[[a' b'] c'] d']. unfold kitem_eqb.
  rewrite !andb_true_iff, !Z.eqb_eq, option_eqb_Z_true. split.
  - intros [[[A B] C] D]. subst. reflexivity.
  - intros E. injection E as A B C D. subst. auto.
Qed.

Lemma remove_kitem_perm x : forall l l', remove_kitem x l = Some l' -> Permutation l (x :: l').
Proof.
  induction l as [|y r IH]; intros l' E; simpl in E; [discriminate|].
  destruct (kitem_eqb x y) eqn:K.
  - apply kitem_eqb_eq in K. subst y. injection E as E. subst. reflexivity.
  - destruct (remove_kitem x r) as [r'|] eqn:R; [|discriminate]. injection E as E. subst l'.
    etransitivity; [apply perm_skip; apply IH; reflexivity | apply perm_swap].
Qed.

Lemma remove_kitem_In x : forall l, In x l -> exists l', remove_kitem x l = Some l'.
Proof.
  induction l as [|y r IH]; intros I; [contradiction|]. simpl. destruct (kitem_eqb x y) eqn:K; [eauto|].
  destruct I as [I|I]; [subst; rewrite (proj2 (kitem_eqb_eq x x) eq_refl) in K; discriminate|].
  destruct (IH I) as [l' E]. rewrite E. simpl. eauto.
Qed.

Lemma remove_kitem_notin x : forall l, ~ In x l -> remove_kitem x l = None.
Proof.
  induction l as [|y r IH]; intros N; simpl; auto. destruct (kitem_eqb x y) eqn:K.
  - apply kitem_eqb_eq in K. subst. exfalso. apply N. left. reflexivity.
  - rewrite IH; auto. intros I. apply N. right. exact I.
Qed.

Definition cons_items' (v : Z) (Cl : list Z) : list kitem := map (fun c => ((v, c, 1, None) : kitem)) Cl.
Definition cl_entries' (v : Z) (Cl : list Z) : list kentry := map (fun c => ((c, v, 1) : kentry)) Cl.

Lemma do_closures_perm v : forall cl top path top' path', do_closures v cl top path = Ok (top', path') ->
  Permutation top (cons_items' v cl ++ top') /\ path' = path ++ cl_entries' v cl.
Proof.
  induction cl as [|c r IH]; intros top path top' path' E; simpl in E.
  - injection E as E1 E2. subst. split; [reflexivity | rewrite app_nil_r; reflexivity].
  - destruct (remove_kitem (v, c, 1, None) top) as [t1|] eqn:R; [|discriminate].
    destruct (IH _ _ _ _ E) as [P1 P2]. split.
    + simpl. etransitivity; [apply remove_kitem_perm; exact R|]. apply perm_skip. exact P1.
    + subst path'. simpl. rewrite <- app_assoc. reflexivity.
Qed.

(* when every closure item is pending, the soft variant is the strict one *)
Lemma soft_of_do v : forall cl top path r, do_closures v cl top path = Ok r -> soft_closures v cl top path = r.
Proof.
  induction cl as [|c cl IH]; intros top path r E; simpl in *.
  - injection E as E. auto.
  - destruct (remove_kitem (v, c, 1, None) top); [apply IH; exact E | discriminate].
Qed.

Lemma do_closures_total v : forall cl top path, NoDup cl -> (forall c, In c cl -> In ((v, c, 1, None) : kitem) top) ->
  exists r, do_closures v cl top path = Ok r.
Proof.
  induction cl as [|c cl IH]; intros top path N H; simpl; [eauto|]. inversion N as [|? ? NI NR]; subst.
  destruct (remove_kitem_In _ _ (H c (or_introl eq_refl))) as [t1 R]. rewrite R.
  apply IH; auto. intros c' Hc'. pose proof (remove_kitem_perm _ _ _ R) as PM.
  pose proof (Permutation_in _ PM (H c' (or_intror Hc'))) as I. destruct I as [I|I]; [|exact I].
  injection I as I. subst c'. contradiction.
Qed.

(* a front element that is no closure item stays in front *)
Lemma do_closures_front v c0 : fst (fst (fst c0)) <> v -> forall cl top path,
  do_closures v cl (c0 :: top) path =
  match do_closures v cl top path with Ok (t, p) => Ok (c0 :: t, p) | Err e => Err e end.
Proof.
  intros N. induction cl as [|c cl IH]; intros top path; [reflexivity|]. cbn [do_closures remove_kitem].
  destruct (kitem_eqb (v, c, 1, None) c0) eqn:K.
  - apply kitem_eqb_eq in K. subst c0. simpl in N. contradiction.
  - destruct (remove_kitem (v, c, 1, None) top); cbn [option_map]; [apply IH | reflexivity].
Qed.

(* ---------------- scan_nbrs ---------------- *)
Definition f_loop (start prev : Z) (w : Z) : bool := negb (w =? prev) && (w =? start).
Definition f_clo (start prev : Z) (path : list kentry) (w : Z) : bool := negb (w =? prev) && negb (w =? start) && in_path w path.
Definition f_for (start prev : Z) (path : list kentry) (w : Z) : bool := negb (w =? prev) && negb (w =? start) && negb (in_path w path).

Lemma scan_nbrs_spec rings start atom prev path :
  scan_nbrs rings start atom prev path =
  (if existsb (f_loop start prev) (al_get rings atom) then start else 0,
   filter (f_clo start prev path) (al_get rings atom), filter (f_for start prev path) (al_get rings atom)).
Proof.
  unfold scan_nbrs. generalize (al_get rings atom) as L. intros L.
  assert (G : forall l lp cl fs,
     fold_left (fun acc nx => let '(lp, cl, fs) := acc in
                           if nx =? prev then acc
                           else if nx =? start then (nx, cl, fs)
                           else if in_path nx path then (lp, cl ++ [nx], fs)
                           else (lp, cl, fs ++ [nx])) l (lp, cl, fs) =
     (if existsb (f_loop start prev) l then start else lp, cl ++ filter (f_clo start prev path) l, fs ++ filter (f_for start prev path) l)).
  { induction l as [|x r IH]; intros lp cl fs; simpl; [rewrite !app_nil_r; reflexivity|].
    unfold f_loop, f_clo, f_for at 1 2 3. fold (f_loop start prev) (f_clo start prev path) (f_for start prev path).
    destruct (x =? prev) eqn:E1; simpl; [apply IH|].
    destruct (x =? start) eqn:E2; simpl.
    - rewrite IH. apply Z.eqb_eq in E2. subst x. destruct (existsb (f_loop start prev) r); reflexivity.
    - destruct (in_path x path); simpl; rewrite IH, <- app_assoc; reflexivity. }
  rewrite G. reflexivity.
Qed.

Lemma in_path_In w path : in_path w path = true <-> In w (map (fun e : kentry => fst (fst e)) path).
Proof.
  unfold in_path. rewrite existsb_exists. split.
  - intros [e [He E]]. apply Z.eqb_eq in E. subst w. apply (in_map (fun e : kentry => fst (fst e))). exact He.
  - intros I. apply in_map_iff in I. destruct I as [e [E He]]. exists e. split; auto. apply Z.eqb_eq. exact E.
Qed.

(* sizes: the four classes partition the neighbour list *)
Lemma scan_partition_length (start prev : Z) (path : list kentry) : forall L : list Z,
  List.length L = (List.length (filter (fun w => Z.eqb w prev) L) + List.length (filter (f_loop start prev) L) +
                   List.length (filter (f_clo start prev path) L) + List.length (filter (f_for start prev path) L))%nat.
Proof.
  unfold f_loop, f_clo, f_for. induction L as [|x r IH]; simpl; auto.
  destruct (x =? prev), (x =? start), (in_path x path); simpl; lia.
Qed.

Lemma filter_eq_length_NoDup (p : Z) : forall L : list Z, NoDup L -> In p L -> List.length (filter (fun w => w =? p) L) = 1%nat.
Proof.
  induction L as [|x r IH]; intros N I; [contradiction|]. inversion N as [|? ? NI NR]; subst. simpl.
  destruct (x =? p) eqn:E.
  - apply Z.eqb_eq in E. subst x. simpl. f_equal.
    assert (Z0 : filter (fun w => w =? p) r = []).
    { clear - NI. induction r as [|y r IH]; simpl; auto. destruct (y =? p) eqn:E; [apply Z.eqb_eq in E; subst; exfalso; apply NI; left; reflexivity|].
      apply IH. intros I. apply NI. right. exact I. }
    rewrite Z0. reflexivity.
  - destruct I as [I|I]; [subst; rewrite Z.eqb_refl in E; discriminate | apply IH; auto].
Qed.


Section Sound.
Variables (rings : adjl) (dbr pyr : list Z) (s b0 : Z).

Definition adj (a b : Z) : Prop := In a (al_get rings b).
Arguments adj : simpl never.
Hypothesis Hsym : forall a b, adj a b -> adj b a.
Hypothesis Hirr : forall a, ~ adj a a.
Hypothesis Hdisj : forall v, In v pyr -> v <> s -> ~ In v dbr.

Definition closing_order : Z := if nonempty dbr then 1 else 2.
Definition okO (a p o : Z) : Prop := adj a p /\ (o = 1 \/ (o = 2 /\ ~ In a dbr /\ (~ In p dbr \/ p = s))).
Definition okE (e : kentry) : Prop := let '(a, p, o) := e in okO a p o.
Definition okI (x : kitem) : Prop := let '(n, f, o, _) := x in okO n f o.
Definition vset (P : list kentry) : list Z := map (fun e => fst (fst e)) P.
Definition ebond (e : kentry) : Z * Z := let '(a, p, _) := e in bond_key a p.
Definition ibond (x : kitem) : Z * Z := let '(n, f, _, _) := x in bond_key n f.
Definition bonds_of (P : list kentry) (L : list kitem) : list (Z * Z) := map ebond P ++ map ibond L.
Definition dE (v : Z) (e : kentry) : bool := let '(a, p, o) := e in (o =? 2) && ((a =? v) || (p =? v)).
Definition dI (v : Z) (x : kitem) : bool := let '(n, f, o, _) := x in (o =? 2) && ((n =? v) || (f =? v)).
Definition dcount (v : Z) (P : list kentry) (L : list kitem) : Z := countb (dE v) P + countb (dI v) L.
Definition need (v d : Z) : Prop := if zmem v dbr then d = 0 else if zmem v pyr then d <= 1 else d = 1.
Definition complete (v : Z) (P : list kentry) (L : list kitem) : Prop := forall w, adj w v -> In (bond_key v w) (bonds_of P L).
Definition nl_ok (x : kitem) : Prop := let '(n, f, o, c) := x in c = None /\ (o = 1 \/ n = s).
Definition bl_ok (L : list kitem) : Prop := forall L1 x, L = L1 ++ [x] -> Forall nl_ok L1.
Definition tgt (x : kitem) : Z := fst (fst (fst x)).
Definition frm (x : kitem) : Z := snd (fst (fst x)).
Definition start_ok (P : list kentry) (L : list kitem) : Prop :=
  match P with
  | [] => exists n c, L = [(n, s, b0, c)] /\ n <> s
  | (a, p, o) :: r => p = s /\ o = b0 /\ a <> s /\ (forall e, In e r -> snd (fst e) <> s) /\ (forall x, In x L -> frm x <> s)
  end.

(* an item that leads to an atom visited already: only a closure of a pyrrole-type atom that was left pending when the atom went
   on with a single neighbour; it is single, has no cut mark, the atom is not next to the start atom *)
Definition stale (P : list kentry) (x : kitem) : Prop :=
  let '(n, f, o, c) := x in In n (vset P) /\ In n pyr /\ o = 1 /\ c = None /\ ~ adj s n.
(* ... and every item that LEAVES such an atom comes later in the list (is popped earlier) *)
Fixpoint ordP (P : list kentry) (L : list kitem) : Prop :=
  match L with
  | [] => True
  | y :: r => (forall x, In x r -> In (tgt x) (vset P) -> tgt x <> s -> frm y <> tgt x) /\ ordP P r
  end.

Record Cfg (P : list kentry) (L : list kitem) : Prop := mkCfg {
  c_okP : Forall okE P;
  c_okL : Forall okI L;
  c_nd : NoDup (bonds_of P L);
  c_from : forall x, In x L -> In (frm x) (vset P) \/ frm x = s;
  c_tgt : forall x, In x L -> tgt x <> s -> ~ In (tgt x) (vset P) \/ stale P x;
  c_ord : ordP P L;
  c_cls : forall n f o c, In (n, f, o, c) L -> n = s -> o = closing_order;
  c_bl : bl_ok L;
  c_atoms : forall v, In v (vset P) -> v <> s -> complete v P L /\ need v (dcount v P L);
  c_prev : forall a p o, In (a, p, o) P -> In p (vset P) \/ p = s;
  c_clsP : forall a p o, In (a, p, o) P -> a = s -> o = closing_order;
  c_start : start_ok P L
}.

(* ---------- permutation helpers ---------- *)
Lemma countb_perm {A : Type} (f : A -> bool) l l' : Permutation l l' -> countb f l = countb f l'.
Proof. induction 1; simpl; try lia. Qed.

Lemma bl_ok_app A pushes : Forall nl_ok A -> bl_ok pushes -> bl_ok (A ++ pushes).
Proof.
  intros HA HB L1 x E.
  destruct pushes as [|q qs] using rev_ind.
  - rewrite app_nil_r in E. subst A. apply Forall_app in HA. tauto.
  - rewrite app_assoc in E. apply app_inj_tail in E. destruct E as [E1 E2]. subst.
    apply Forall_app. split; [exact HA | eapply HB; reflexivity].
Qed.

Lemma bl_ok_all L : Forall nl_ok L -> bl_ok L.
Proof. intros H L1 x E. subst. apply Forall_app in H. tauto. Qed.

Lemma bl_ok_pop L x : bl_ok (L ++ [x]) -> Forall nl_ok L.
Proof. intros H. eapply H. reflexivity. Qed.

Lemma vset_app P Q : vset (P ++ Q) = vset P ++ vset Q.
Proof. unfold vset. apply map_app. Qed.

Lemma In_vset a p o P : In (a, p, o) P -> In a (vset P).
Proof. intros H. unfold vset. apply in_map_iff. exists (a, p, o). auto. Qed.

Lemma bonds_entry_In P L k : In k (map ebond P) -> In k (bonds_of P L).
Proof. intros. unfold bonds_of. apply in_or_app. auto. Qed.
Lemma bonds_item_In P L k : In k (map ibond L) -> In k (bonds_of P L).
Proof. intros. unfold bonds_of. apply in_or_app. auto. Qed.



(* ---------- order-preserving sublists; the order clause ---------- *)
Inductive sub {A : Type} : list A -> list A -> Prop :=
| sub_nil : sub [] []
| sub_skip x l l' : sub l l' -> sub l (x :: l')
| sub_keep x l l' : sub l l' -> sub (x :: l) (x :: l').

Lemma sub_refl {A : Type} (l : list A) : sub l l.
Proof. induction l as [|a r IH]; [apply sub_nil | apply sub_keep; exact IH]. Qed.
Lemma sub_In {A : Type} (l l' : list A) x : sub l l' -> In x l -> In x l'.
Proof. induction 1; simpl; intros I; auto. destruct I as [I|I]; auto. Qed.
Lemma sub_app_l {A : Type} (l l' r : list A) : sub l l' -> sub (l ++ r) (l' ++ r).
Proof. induction 1; simpl; [apply sub_refl | apply sub_skip; auto | apply sub_keep; auto]. Qed.
Lemma sub_cons_front {A : Type} (a : A) (l l' : list A) : sub l l' -> sub (a :: l) (a :: l').
Proof. apply sub_keep. Qed.

Lemma remove_kitem_sub x : forall l l', remove_kitem x l = Some l' -> sub l' l.
Proof.
  induction l as [|y r IH]; intros l' E; cbn [remove_kitem] in E; [discriminate|].
  destruct (kitem_eqb x y); [injection E as E; subst; apply sub_skip; apply sub_refl|].
  destruct (remove_kitem x r) as [r'|]; [|discriminate]. cbn [option_map] in E. injection E as E. subst. apply sub_keep. auto.
Qed.

Lemma sub_trans {A : Type} (l1 l2 l3 : list A) : sub l1 l2 -> sub l2 l3 -> sub l1 l3.
Proof.
  intros H12 H23. revert l1 H12. induction H23; intros l1 H12.
  - exact H12.
  - apply sub_skip. auto.
  - inversion H12; subst; [apply sub_skip; auto | apply sub_keep; auto].
Qed.

Lemma do_closures_sub v : forall cl top path top' path', do_closures v cl top path = Ok (top', path') -> sub top' top.
Proof.
  induction cl as [|c r IH]; intros top path top' path' E; simpl in E.
  - injection E as E1 E2. subst. apply sub_refl.
  - destruct (remove_kitem (v, c, 1, None) top) as [t1|] eqn:R; [|discriminate].
    eapply sub_trans; [eapply IH; exact E | eapply remove_kitem_sub; exact R].
Qed.

Lemma ordP_sub P l l' : sub l l' -> ordP P l' -> ordP P l.
Proof.
  induction 1; simpl; auto.
  - intros [_ H']. auto.
  - intros [H1 H2]. split; auto. intros z Hz. apply H1. eapply sub_In; eauto.
Qed.

Lemma ordP_app P A B : ordP P (A ++ B) <->
  ordP P A /\ ordP P B /\ (forall y x, In y A -> In x B -> In (tgt x) (vset P) -> tgt x <> s -> frm y <> tgt x).
Proof.
  induction A as [|a r IH]; simpl.
  - split; [intros H; repeat split; auto; intros y x [] | intros [_ [H _]]; exact H].
  - rewrite IH. split.
    + intros [H1 [H2 [H3 H4]]]. repeat split; auto.
      * intros x Hx. apply H1. apply in_or_app. auto.
      * intros y x [Hy|Hy] Hx; [subst; apply H1; apply in_or_app; auto | apply H4; auto].
    + intros [[H1 H2] [H3 H4]]. repeat split; auto.
      intros x Hx. apply in_app_or in Hx. destruct Hx as [Hx|Hx]; [apply H1; auto | apply H4; auto].
Qed.

(* the visited set grows by atoms no item of the list leaves *)
Lemma ordP_grow P P' L : (forall u, In u (vset P') -> In u (vset P) \/ forall y, In y L -> frm y <> u) -> ordP P L -> ordP P' L.
Proof.
  intros H. induction L as [|y r IH]; simpl; auto. intros [H1 H2]. split.
  - intros x Hx Hv Hs. destruct (H _ Hv) as [A|A]; [apply H1; auto | apply A; left; reflexivity].
  - apply IH; auto. intros u Hu. destruct (H u Hu) as [A|A]; auto. right. intros z Hz. apply A. right. exact Hz.
Qed.

Lemma stale_grow P P' x : (forall u, In u (vset P) -> In u (vset P')) -> stale P x -> stale P' x.
Proof. destruct x as [[[n f] o] c]. simpl. intros H [A B]. split; auto. Qed.

Lemma NoDup_app_intro {A : Type} (l l' : list A) : NoDup l -> NoDup l' -> (forall x, In x l -> ~ In x l') -> NoDup (l ++ l').
Proof.
  induction l as [|a r IH]; intros N N' D; simpl; auto. inversion N as [|? ? NI NR]; subst. constructor.
  - intros I. apply in_app_or in I. destruct I as [I|I]; [contradiction | apply (D a); simpl; auto].
  - apply IH; auto. intros y Hy. apply D. simpl. auto.
Qed.

Lemma NoDup_app_remove_l {A : Type} (l l' : list A) : NoDup (l ++ l') -> NoDup l'.
Proof. induction l as [|a r IH]; simpl; auto. intros N. inversion N; auto. Qed.
Lemma NoDup_app_remove_r {A : Type} (l l' : list A) : NoDup (l ++ l') -> NoDup l.
Proof.
  induction l as [|a r IH]; simpl; intros N; [constructor|]. inversion N as [|? ? NI NR]; subst. constructor; auto.
  intros I. apply NI. apply in_or_app. auto.
Qed.

Lemma countb_0 {A : Type} (f : A -> bool) l : (forall x, In x l -> f x = false) -> countb f l = 0.
Proof. intros H. apply countb_zero. apply forallb_forall. intros x Hx. rewrite (H x Hx). reflexivity. Qed.

Definition cl_items (v : Z) (lp : bool) : list kitem := if lp then [((s, v, closing_order, None) : kitem)] else [].
Definition cons_items (v : Z) (Cl : list Z) : list kitem := map (fun c => ((v, c, 1, None) : kitem)) Cl.
Definition cl_entries (v : Z) (Cl : list Z) : list kentry := map (fun c => ((c, v, 1) : kentry)) Cl.

(* the centre of the proof: what processing a newly reached atom v does to a configuration *)
Lemma process_cfg P L v p o cx (lp : bool) Cl Ck Fs Lrem pushes :
  Cfg P (L ++ [(v, p, o, cx)]) -> v <> s -> ~ In v (vset P) ->
  (forall w, adj w v <-> w = p \/ (lp = true /\ w = s) \/ In w Cl \/ In w Ck \/ In w Fs) ->
  (lp = true -> s <> p) ->
  (forall c, In c Cl -> In c (vset P) /\ c <> s /\ c <> p) -> NoDup Cl ->
  (forall c, In c Ck -> In c (vset P) /\ c <> s /\ c <> p /\ In ((v, c, 1, None) : kitem) L /\ ~ In c Cl) ->
  (Ck <> [] -> In v pyr /\ lp = false /\ ~ adj s v) ->
  sub Lrem L ->
  (forall n, In n Fs -> ~ In n (vset P) /\ n <> s /\ n <> p) -> NoDup Fs ->
  Permutation L (cons_items v Cl ++ Lrem) ->
  Permutation (map tgt pushes) Fs -> (forall x, In x pushes -> frm x = v) ->
  Forall okI pushes -> bl_ok pushes ->
  need v ((if o =? 2 then 1 else 0) + (if lp && (closing_order =? 2) then 1 else 0) + countb (dI v) pushes) ->
  Cfg (P ++ (v, p, o) :: cl_entries v Cl) (cl_items v lp ++ Lrem ++ pushes).
Proof.
  intros C Vs F2 Nb Lps HCl NCl HCk HCkv SUB HFs NFs PL PT PF OKp BLp ND.
  set (x := ((v, p, o, cx) : kitem)) in *.
  assert (Ix : In x (L ++ [x])) by (apply in_or_app; right; left; reflexivity).
  assert (F1 : okO v p o) by (pose proof (c_okL _ _ C) as H; rewrite Forall_forall in H; apply (H x Ix)).
  assert (F3 : In p (vset P) \/ p = s) by (apply (c_from _ _ C x Ix)).
  assert (F4 : Forall nl_ok L) by (apply (bl_ok_pop _ _ (c_bl _ _ C))).
  assert (NDo : NoDup (bonds_of P (L ++ [x]))) by (apply (c_nd _ _ C)).
  assert (InL : forall y, In y L -> In y (L ++ [x])) by (intros; apply in_or_app; auto).
  assert (InRem : forall y, In y Lrem -> In y L).
  { intros y Hy. eapply Permutation_in; [apply Permutation_sym; exact PL | apply in_or_app; right; exact Hy]. }
  assert (NoS : forall y, In y L -> frm y <> s).
  { intros y Hy. pose proof (c_start _ _ C) as ST. unfold start_ok in ST. destruct P as [|[[a0 p0] o0] r0].
    - destruct ST as [n [c [E _]]]. destruct L as [|y0 L0]; [contradiction|]. destruct L0; simpl in E; discriminate E.
    - destruct ST as [_ [_ [_ [_ H]]]]. apply H. apply InL. exact Hy. }
  (* no entry of P touches v; an item of L touches v only as its target *)
  assert (Ev : forall a q oo, In (a, q, oo) P -> a <> v /\ q <> v).
  { intros a q oo H. split.
    - intros E. subst a. apply F2. eapply In_vset; eauto.
    - intros E. subst q. destruct (c_prev _ _ C _ _ _ H) as [H'|H']; [contradiction | congruence]. }
  assert (Iv : forall y, In y L -> frm y <> v).
  { intros y Hy E. destruct (c_from _ _ C y (InL y Hy)) as [H|H]; rewrite E in H; [contradiction | congruence]. }
  assert (Pn_adj : adj p v) by (apply Hsym; apply F1).
  (* K2: what is left in Lrem and leads to v is a kept closure *)
  assert (K2 : forall y, In y Lrem -> tgt y = v -> In (frm y) Ck).
  { intros [[[n f] oo] cc] Hy E. unfold tgt in E. simpl in E. subst n. unfold frm. simpl.
    assert (HyL := InRem _ Hy).
    assert (OKy : okO v f oo) by (pose proof (c_okL _ _ C) as H; rewrite Forall_forall in H; apply (H _ (InL _ HyL))).
    assert (Af : adj f v) by (apply Hsym; apply OKy).
    apply Nb in Af. destruct Af as [Af|[[_ Af]|[Af|[Af|Af]]]]; [exfalso | exfalso | exfalso | exact Af | exfalso].
    - subst f. (* same bond as x *)
      unfold bonds_of in NDo. apply NoDup_app_remove_l in NDo. rewrite map_app in NDo. simpl in NDo.
      apply NoDup_remove_2 in NDo. rewrite app_nil_r in NDo. apply NDo. apply in_map_iff. exists (v, p, oo, cc). split; [reflexivity | exact HyL].
    - subst f. apply (NoS _ HyL). reflexivity.
    - assert (NDL : NoDup (map ibond L)).
      { unfold bonds_of in NDo. apply NoDup_app_remove_l in NDo. rewrite map_app in NDo. apply NoDup_app_remove_r in NDo. exact NDo. }
      apply (Permutation_NoDup (Permutation_map ibond PL)) in NDL. rewrite map_app in NDL.
      assert (D : forall k, In k (map ibond (cons_items v Cl)) -> ~ In k (map ibond Lrem)).
      { clear - NDL. revert NDL. generalize (map ibond (cons_items v Cl)) as l1. generalize (map ibond Lrem) as l2.
        intros l2 l1. induction l1 as [|a r IH]; intros N k H; [contradiction|]. simpl in N. inversion N as [|? ? NI NR]; subst.
        destruct H as [H|H]; [subst; intros I; apply NI; apply in_or_app; auto | apply IH; auto]. }
      apply (D (bond_key v f)).
      + apply in_map_iff. exists (v, f, 1, None). split; [reflexivity|]. unfold cons_items. apply in_map_iff. exists f. auto.
      + apply in_map_iff. exists (v, f, oo, cc). auto.
    - destruct (HFs _ Af) as [A1 [A2 _]]. destruct (c_from _ _ C _ (InL _ HyL)) as [H|H]; unfold frm in H; simpl in H; contradiction. }
  assert (K3 : forall y, In y Lrem -> tgt y = v -> stale (P ++ (v, p, o) :: cl_entries v Cl) y).
  { intros [[[n f] oo] cc] Hy E. pose proof (K2 _ Hy E) as K. unfold tgt in E. unfold frm in K. simpl in E, K. subst n.
    assert (CK : Ck <> []) by (intros Z; rewrite Z in K; contradiction). destruct (HCkv CK) as [V1 [V2 V3]].
    rewrite Forall_forall in F4. specialize (F4 _ (InRem _ Hy)). simpl in F4. destruct F4 as [N1 [N2|N2]]; [|contradiction].
    simpl. repeat split; auto. rewrite vset_app. apply in_or_app. right. left. reflexivity. }
  (* membership in the new pending list *)
  assert (InNew : forall y, In y (cl_items v lp ++ Lrem ++ pushes) ->
            (lp = true /\ y = (s, v, closing_order, None)) \/ In y Lrem \/ In y pushes).
  { intros y Hy. apply in_app_or in Hy. destruct Hy as [Hy|Hy].
    - left. unfold cl_items in Hy. destruct lp; [destruct Hy as [Hy|[]]; auto | contradiction].
    - right. apply in_app_or in Hy. exact Hy. }
  assert (PushT : forall y, In y pushes -> In (tgt y) Fs).
  { intros y Hy. eapply Permutation_in; [exact PT | apply in_map; exact Hy]. }
  assert (VsetN : forall u, In u (vset (P ++ (v, p, o) :: cl_entries v Cl)) <-> In u (vset P) \/ u = v).
  { intros u. rewrite vset_app. simpl. rewrite in_app_iff. simpl. split.
    - intros [H|[H|H]]; auto. left. unfold vset, cl_entries in H. rewrite map_map in H. simpl in H. rewrite map_id in H. apply HCl. exact H.
    - intros [H|H]; auto. }
  assert (PB : Permutation (bonds_of (P ++ (v, p, o) :: cl_entries v Cl) (cl_items v lp ++ Lrem ++ pushes))
                             (bonds_of P (L ++ [x]) ++ (map ibond (cl_items v lp) ++ map ibond pushes))).
    { unfold bonds_of. rewrite !map_app. simpl. rewrite <- !app_assoc. apply Permutation_app_head.
      assert (E1 : map ebond (cl_entries v Cl) = map ibond (cons_items v Cl)).
      { unfold cl_entries, cons_items. rewrite !map_map. apply map_ext. intros c. simpl. apply bond_key_sym. }
      rewrite E1.
      transitivity ((map ibond (cons_items v Cl) ++ map ibond Lrem) ++ [bond_key v p] ++ map ibond (cl_items v lp) ++ map ibond pushes).
      - simpl. rewrite <- !app_assoc.
        change (bond_key v p :: map ibond (cons_items v Cl) ++ map ibond (cl_items v lp) ++ map ibond Lrem ++ map ibond pushes)
          with ([bond_key v p] ++ map ibond (cons_items v Cl) ++ map ibond (cl_items v lp) ++ map ibond Lrem ++ map ibond pushes).
        rewrite (app_assoc [bond_key v p]). etransitivity; [apply Permutation_app_tail; apply Permutation_app_comm|].
        rewrite <- app_assoc. apply Permutation_app_head. simpl.
        rewrite (app_assoc (map ibond (cl_items v lp))). etransitivity; [apply Permutation_cons_app; apply Permutation_app_tail; apply Permutation_app_comm|].
        rewrite <- !app_assoc. apply Permutation_app_head. apply Permutation_sym. apply Permutation_cons_app. reflexivity.
      - rewrite <- map_app. apply Permutation_app_tail. apply Permutation_map. apply Permutation_sym. exact PL. }
  constructor.
  - (* okP *) apply Forall_app. split; [apply (c_okP _ _ C)|]. constructor; [exact F1|].
    unfold cl_entries. apply Forall_forall. intros e He. apply in_map_iff in He. destruct He as [c [E Hc]]. subst e. change (okO c v 1).
    split; [|left; reflexivity]. apply (proj2 (Nb c)). right. right. left. exact Hc.
  - (* okL *) apply Forall_forall. intros y Hy. destruct (InNew _ Hy) as [[LP E]|[H|H]].
    + subst y. change (okO s v closing_order). split; [apply (proj2 (Nb s)); right; left; auto|].
      unfold closing_order. destruct (nonempty dbr) eqn:NE; [left; reflexivity|]. right. destruct dbr; [|discriminate]. repeat split; auto.
    + pose proof (c_okL _ _ C) as OK. rewrite Forall_forall in OK. apply OK. apply InL. apply InRem. exact H.
    + rewrite Forall_forall in OKp. apply OKp. exact H.
  - (* NoDup *)
    apply (Permutation_NoDup (Permutation_sym PB)). apply NoDup_app_intro; [exact NDo| |].
    + (* the new bonds are pairwise different *)
      assert (NP : NoDup (map ibond pushes)).
      { assert (E : map ibond pushes = map (fun n => bond_key n v) (map tgt pushes)).
        { rewrite map_map. apply map_ext_in. intros [[[n f] oo] cc] Hy. simpl. specialize (PF _ Hy). unfold frm in PF. simpl in PF. subst f. reflexivity. }
        rewrite E. apply (Permutation_NoDup (Permutation_map _ (Permutation_sym PT))).
        clear - NFs. induction Fs as [|a r IH]; simpl; constructor; inversion NFs; subst; auto.
        intros I. apply in_map_iff in I. destruct I as [b [E Hb]]. apply bond_key_eq in E. destruct E as [[E _]|[E1 E2]]; [subst; contradiction | subst; contradiction]. }
      unfold cl_items. destruct lp; simpl; [|exact NP]. constructor; [|exact NP].
      intros I. apply in_map_iff in I. destruct I as [[[[n f] oo] cc] [E Hy]]. simpl in E.
      pose proof (PF _ Hy) as Ef. unfold frm in Ef. simpl in Ef. subst f.
      apply bond_key_eq in E. destruct E as [[E _]|[E1 E2]].
      * subst n. destruct (HFs _ (PushT _ Hy)) as [_ [A _]]. unfold tgt in A. simpl in A. congruence.
      * subst n. apply (Hirr v). apply Nb. right. right. right. right. apply (PushT _ Hy).
    + (* ... and different from every old bond *)
      intros k Hk Hn.
      assert (NewV : exists w, k = bond_key w v /\ (w = s \/ In w Fs) /\ (w = s -> lp = true)).
      { apply in_app_or in Hn. destruct Hn as [Hn|Hn].
        - unfold cl_items in Hn. destruct lp; [|contradiction]. destruct Hn as [Hn|[]]. exists s. subst k. simpl. auto.
        - apply in_map_iff in Hn. destruct Hn as [[[[n f] oo] cc] [E Hy]]. pose proof (PF _ Hy) as Ef. unfold frm in Ef. simpl in Ef. subst f.
          exists n. subst k. split; [reflexivity|]. pose proof (PushT _ Hy) as T. unfold tgt in T. simpl in T. split; [right; exact T|].
          intros E. subst n. destruct (HFs _ T) as [_ [A _]]. congruence. }
      destruct NewV as [w [Ek [Hw Hlp]]]. subst k.
      unfold bonds_of in Hk. apply in_app_or in Hk. destruct Hk as [Hk|Hk].
      * apply in_map_iff in Hk. destruct Hk as [[[a q] oo] [E He]]. simpl in E. destruct (Ev _ _ _ He) as [A1 A2].
        apply bond_key_eq in E. destruct E as [[_ E]|[E _]]; congruence.
      * apply in_map_iff in Hk. destruct Hk as [[[[n f] oo] cc] [E Hy]]. simpl in E.
        apply in_app_or in Hy. destruct Hy as [Hy|[Hy|[]]].
        -- pose proof (Iv _ Hy) as A. unfold frm in A. simpl in A.
           apply bond_key_eq in E. destruct E as [[E1 E2]|[E1 E2]]; [congruence|]. subst n f.
           destruct (c_from _ _ C _ (InL _ Hy)) as [H|H]; unfold frm in H; simpl in H.
           ++ destruct Hw as [Hw|Hw]; [subst w; apply (NoS _ Hy); reflexivity | exact (proj1 (HFs _ Hw) H)].
           ++ subst w. apply (NoS _ Hy). reflexivity.
        -- injection Hy as E1 E2 E3 E4. subst n f oo cc.
           apply bond_key_eq in E. destruct E as [[E1 E2]|[E1 E2]].
           { subst w. destruct Hw as [Hw|Hw]; [congruence | apply (Hirr v); apply (proj2 (Nb v)); right; right; right; right; exact Hw]. }
           subst w.
           destruct Hw as [Hw|Hw]; [apply Lps; auto | exact (proj2 (proj2 (HFs _ Hw)) eq_refl)].
  - (* c_from *) intros y Hy. destruct (InNew _ Hy) as [[LP E]|[H|H]].
    + subst y. left. unfold frm. simpl. apply VsetN. right. reflexivity.
    + destruct (c_from _ _ C _ (InL _ (InRem _ H))) as [A|A]; [left; apply VsetN; left; exact A | right; exact A].
    + left. rewrite (PF _ H). apply VsetN. right. reflexivity.
  - (* c_tgt *) intros y Hy Ts. destruct (InNew _ Hy) as [[LP E]|[H|H]].
    + subst y. exfalso. apply Ts. reflexivity.
    + destruct (Z.eq_dec (tgt y) v) as [Ev'|Nv]; [right; apply K3; auto|].
      destruct (c_tgt _ _ C _ (InL _ (InRem _ H)) Ts) as [A|A].
      * left. intros I. apply VsetN in I. destruct I as [I|I]; contradiction.
      * right. eapply stale_grow; [|exact A]. intros u Hu. apply VsetN. left. exact Hu.
    + left. intros I. apply VsetN in I. pose proof (PushT _ H) as T. destruct I as [I|I]; [exact (proj1 (HFs _ T) I)|].
      rewrite I in T. apply (Hirr v). apply Nb. right. right. right. right. exact T.
  - (* c_ord *)
    assert (PushNV : forall z, In z pushes -> ~ In (tgt z) (vset (P ++ (v, p, o) :: cl_entries v Cl))).
    { intros z Hz I. apply VsetN in I. pose proof (PushT _ Hz) as T. destruct I as [I|I]; [exact (proj1 (HFs _ T) I)|].
      rewrite I in T. apply (Hirr v). apply Nb. right. right. right. right. exact T. }
    apply ordP_app. split; [|split].
    + unfold cl_items. destruct lp; simpl; auto.
    + apply ordP_app. split; [|split].
      * apply ordP_grow with (P := P).
        -- intros u Hu. apply VsetN in Hu. destruct Hu as [Hu|Hu]; [left; exact Hu | right]. subst u. intros y Hy. apply Iv. apply InRem. exact Hy.
        -- eapply ordP_sub; [exact SUB|]. pose proof (c_ord _ _ C) as O. apply ordP_app in O. apply O.
      * clear - PushNV. induction pushes as [|a r IH]; simpl; auto. split.
        -- intros z Hz Hv _. exfalso. apply (PushNV z (or_intror Hz)). exact Hv.
        -- apply IH. intros y Hy. apply PushNV. right. exact Hy.
      * intros y z Hy Hz Hv _. exfalso. apply (PushNV z Hz). exact Hv.
    + intros y z Hy Hz Hv Ts. unfold cl_items in Hy. destruct lp eqn:LPE; [|contradiction]. destruct Hy as [Hy|[]]. subst y. unfold frm. simpl.
      apply in_app_or in Hz. destruct Hz as [Hz|Hz]; [|exfalso; apply (PushNV z Hz); exact Hv].
      intros E. symmetry in E. pose proof (K2 _ Hz E) as K. assert (CK : Ck <> []) by (intros Z; rewrite Z in K; contradiction).
      destruct (HCkv CK) as [_ [V2 _]]. discriminate V2.
  - (* c_cls *) intros n f oo cc Hy E. destruct (InNew _ Hy) as [[LP E']|[H|H]].
    + injection E' as E1 E2 E3 E4. subst. reflexivity.
    + apply (c_cls _ _ C n f oo cc (InL _ (InRem _ H)) E).
    + pose proof (PushT _ H) as T. unfold tgt in T. simpl in T. subst n. destruct (HFs _ T) as [_ [A _]]. congruence.
  - (* c_bl *) rewrite app_assoc. apply bl_ok_app; [|exact BLp]. apply Forall_app. split.
    + unfold cl_items. destruct lp; constructor; [|constructor]. simpl. split; auto.
    + apply Forall_forall. intros y Hy. rewrite Forall_forall in F4. apply F4. apply InRem. exact Hy.
  - (* c_atoms *) intros u Hu Us. apply VsetN in Hu. destruct Hu as [Hu|Hu].
    + assert (Uv : u <> v) by (intros E; subst; contradiction).
      destruct (c_atoms _ _ C u Hu Us) as [Co Ne]. split.
      * intros w Hw. eapply Permutation_in; [apply Permutation_sym; exact PB|]. apply in_or_app. left. apply Co. exact Hw.
      * assert (E : dcount u (P ++ (v, p, o) :: cl_entries v Cl) (cl_items v lp ++ Lrem ++ pushes) = dcount u P (L ++ [x])); [|rewrite E; exact Ne].
        unfold dcount. rewrite !countb_app. rewrite (countb_perm (dI u) _ _ PL), countb_app. cbn [countb].
        assert (Z1 : countb (dE u) (cl_entries v Cl) = 0).
        { apply countb_0. intros e He. unfold cl_entries in He. apply in_map_iff in He. destruct He as [c [E _]]. subst e. reflexivity. }
        assert (Z2 : countb (dI u) (cons_items v Cl) = 0).
        { apply countb_0. intros e He. unfold cons_items in He. apply in_map_iff in He. destruct He as [c [E _]]. subst e. reflexivity. }
        assert (Z3 : countb (dI u) (cl_items v lp) = 0).
        { apply countb_0. intros e He. unfold cl_items in He. destruct lp; [|contradiction]. destruct He as [He|[]]. subst e. simpl.
          destruct (s =? u) eqn:E1; [apply Z.eqb_eq in E1; congruence|]. destruct (v =? u) eqn:E2; [apply Z.eqb_eq in E2; congruence|]. apply andb_false_r. }
        assert (Z4 : countb (dI u) pushes = 0).
        { apply countb_0. intros [[[n f] oo] cc] He. simpl. pose proof (PF _ He) as Ef. unfold frm in Ef. simpl in Ef. subst f.
          pose proof (PushT _ He) as T. unfold tgt in T. simpl in T.
          destruct (n =? u) eqn:E1; [apply Z.eqb_eq in E1; subst n; exfalso; exact (proj1 (HFs _ T) Hu)|].
          destruct (v =? u) eqn:E2; [apply Z.eqb_eq in E2; congruence|]. apply andb_false_r. }
        rewrite Z1, Z2, Z3, Z4. unfold x. simpl. lia.
    + subst u. split.
      * intros w Hw. apply Nb in Hw. destruct Hw as [Hw|[[LP Hw]|[Hw|[Hw|Hw]]]].
        -- subst w. apply bonds_entry_In. rewrite map_app. apply in_or_app. right. left. reflexivity.
        -- subst w. apply bonds_item_In. rewrite map_app. apply in_or_app. left. unfold cl_items. rewrite LP. left. simpl. apply bond_key_sym.
        -- apply bonds_entry_In. rewrite map_app. apply in_or_app. right. right. apply in_map_iff. exists (w, v, 1). split; [simpl; apply bond_key_sym|].
           unfold cl_entries. apply in_map_iff. exists w. auto.
        -- destruct (HCk _ Hw) as [_ [_ [_ [Pr NC]]]].
           assert (IR : In ((v, w, 1, None) : kitem) Lrem).
           { pose proof (Permutation_in _ PL Pr) as I. apply in_app_or in I. destruct I as [I|I]; [|exact I].
             unfold cons_items in I. apply in_map_iff in I. destruct I as [c [E Hc]]. injection E as E. subst c. contradiction. }
           apply bonds_item_In. rewrite !map_app. apply in_or_app. right. apply in_or_app. left.
           apply in_map_iff. exists (v, w, 1, None). split; [reflexivity | exact IR].
        -- apply bonds_item_In. rewrite !map_app. apply in_or_app. right. apply in_or_app. right.
           assert (T : In w (map tgt pushes)) by (eapply Permutation_in; [apply Permutation_sym; exact PT | exact Hw]).
           apply in_map_iff in T. destruct T as [[[[n f] oo] cc] [E He]]. unfold tgt in E. simpl in E. subst n.
           pose proof (PF _ He) as Ef. unfold frm in Ef. simpl in Ef. subst f.
           apply in_map_iff. exists (w, v, oo, cc). split; [simpl; apply bond_key_sym | exact He].
      * assert (E : dcount v (P ++ (v, p, o) :: cl_entries v Cl) (cl_items v lp ++ Lrem ++ pushes) =
                    (if o =? 2 then 1 else 0) + (if lp && (closing_order =? 2) then 1 else 0) + countb (dI v) pushes); [|rewrite E; exact ND].
        unfold dcount. rewrite !countb_app. cbn [countb].
        assert (Z0 : countb (dE v) P = 0).
        { apply countb_0. intros [[a q] oo] He. simpl. destruct (Ev _ _ _ He) as [A1 A2].
          destruct (a =? v) eqn:E1; [apply Z.eqb_eq in E1; congruence|]. destruct (q =? v) eqn:E2; [apply Z.eqb_eq in E2; congruence|]. apply andb_false_r. }
        assert (Z1 : countb (dE v) (cl_entries v Cl) = 0).
        { apply countb_0. intros e He. unfold cl_entries in He. apply in_map_iff in He. destruct He as [c [E _]]. subst e. reflexivity. }
        assert (Z3 : countb (dI v) Lrem = 0).
        { apply countb_0. intros [[[n f] oo] cc] He. simpl. pose proof (Iv _ (InRem _ He)) as A2. unfold frm in A2. simpl in A2.
          destruct (f =? v) eqn:E2; [apply Z.eqb_eq in E2; congruence|].
          destruct (n =? v) eqn:E1; [|apply andb_false_r]. apply Z.eqb_eq in E1. subst n.
          pose proof (K3 _ He eq_refl) as ST. simpl in ST. destruct ST as [_ [_ [O1 _]]]. subst oo. reflexivity. }
        assert (Z2 : countb (dI v) (cl_items v lp) = (if lp && (closing_order =? 2) then 1 else 0)).
        { unfold cl_items. destruct lp; simpl; [|reflexivity]. rewrite Z.eqb_refl, orb_true_r, andb_true_r. destruct (closing_order =? 2); reflexivity. }
        rewrite Z0, Z1, Z2, Z3. simpl. rewrite Z.eqb_refl. simpl. rewrite andb_true_r. destruct (o =? 2); lia.
  - (* c_prev *) intros a q oo H. apply in_app_or in H. destruct H as [H|[H|H]].
    + destruct (c_prev _ _ C _ _ _ H) as [A|A]; [left; apply VsetN; left; exact A | right; exact A].
    + injection H as E1 E2 E3. subst a q oo. destruct F3 as [A|A]; [left; apply VsetN; left; exact A | right; exact A].
    + unfold cl_entries in H. apply in_map_iff in H. destruct H as [c [E Hc]]. injection E as E1 E2 E3. subst. left. apply VsetN. right. reflexivity.
  - (* c_clsP *) intros a q oo H E. apply in_app_or in H. destruct H as [H|[H|H]].
    + apply (c_clsP _ _ C _ _ _ H E).
    + injection H as E1 E2 E3. subst. contradiction.
    + unfold cl_entries in H. apply in_map_iff in H. destruct H as [c [E' Hc]]. injection E' as E1 E2 E3. subst. destruct (HCl _ Hc) as [_ [A _]]. contradiction.
  - (* c_start *) pose proof (c_start _ _ C) as ST. unfold start_ok in *.
    assert (FromN : forall y, In y (cl_items v lp ++ Lrem ++ pushes) -> frm y <> s).
    { intros y Hy. destruct (InNew _ Hy) as [[LP E]|[H|H]]; [subst y; exact Vs | apply NoS; apply InRem; exact H | rewrite (PF _ H); exact Vs]. }
    destruct P as [|[[a0 p0] o0] r0]; simpl.
    + destruct ST as [n [c [E Hn]]]. destruct L as [|y0 L0]; [|destruct L0; simpl in E; discriminate E].
      simpl in E. injection E as E1 E2 E3 E4. subst. repeat split; auto.
      intros e He. unfold cl_entries in He. apply in_map_iff in He. destruct He as [c' [E _]]. subst e. simpl. exact Vs.
    + destruct ST as [S1 [S2 [S3 [S4 S5]]]]. repeat split; auto.
      intros e He. apply in_app_or in He. destruct He as [He|[He|He]].
      * apply S4. exact He.
      * subst e. simpl. apply (S5 x Ix).
      * unfold cl_entries in He. apply in_map_iff in He. destruct He as [c' [E _]]. subst e. simpl. exact Vs.
Qed.


(* ---------------- the neighbourhood of a newly reached atom ---------------- *)
Hypothesis Hnd : forall a, NoDup (al_get rings a).
Hypothesis Hdeg3 : forall a, (List.length (al_get rings a) <= 3)%nat.
Hypothesis Hdeg2 : forall a b, adj a b -> (2 <= List.length (al_get rings b))%nat.
Hypothesis Hs0 : s <> 0.

Record Mid (P : list kentry) (L : list kitem) (v p o : Z) (cx : option Z) (lpb : bool) (cl fs : list Z) : Prop := mkMid {
  m_cfg : Cfg P (L ++ [(v, p, o, cx)]);
  m_vs : v <> s;
  m_new : ~ In v (vset P);
  m_nb : forall w, adj w v <-> w = p \/ (lpb = true /\ w = s) \/ In w cl \/ In w fs;
  m_lps : lpb = true -> s <> p;
  m_cl : forall c, In c cl -> In c (vset P) /\ c <> s /\ c <> p;
  m_ncl : NoDup cl;
  m_fs : forall n, In n fs -> ~ In n (vset P) /\ n <> s /\ n <> p;
  m_nfs : NoDup fs;
  m_pres : forall c, In c cl -> In ((v, c, 1, None) : kitem) L;
  m_len : (1 + (if lpb then 1 else 0) + List.length cl + List.length fs = List.length (al_get rings v))%nat
}.

Lemma vset_snoc P v p o u : In u (vset (P ++ [(v, p, o)])) <-> In u (vset P) \/ u = v.
Proof. rewrite vset_app. simpl. rewrite in_app_iff. simpl. intuition. Qed.

Lemma scan_mid P L v p o cx lpz cl fs :
  Cfg P (L ++ [(v, p, o, cx)]) -> v <> s -> ~ In v (vset P) ->
  scan_nbrs rings s v p (P ++ [(v, p, o)]) = (lpz, cl, fs) ->
  Mid P L v p o cx (negb (lpz =? 0)) cl fs.
Proof.
  intros C Vs F2 SN. rewrite scan_nbrs_spec in SN. injection SN as SE1 SE2 SE3.
  set (L0 := al_get rings v) in *. set (P' := P ++ [(v, p, o)]) in *.
  set (x := ((v, p, o, cx) : kitem)) in *.
  assert (Ix : In x (L ++ [x])) by (apply in_or_app; right; left; reflexivity).
  assert (F1 : okO v p o) by (pose proof (c_okL _ _ C) as H; rewrite Forall_forall in H; apply (H x Ix)).
  assert (Pin : In p L0) by (apply Hsym; apply F1).
  assert (IP : forall w, in_path w P' = true <-> In w (vset P) \/ w = v).
  { intros w. rewrite in_path_In. apply vset_snoc. }
  assert (LPB : negb (lpz =? 0) = existsb (f_loop s p) L0).
  { rewrite <- SE1. destruct (existsb (f_loop s p) L0); [|reflexivity]. destruct (s =? 0) eqn:E; [apply Z.eqb_eq in E; contradiction | reflexivity]. }
  assert (LPI : negb (lpz =? 0) = true <-> In s L0 /\ s <> p).
  { rewrite LPB, existsb_exists. unfold f_loop. split.
    - intros [w [Hw E]]. apply andb_true_iff in E. destruct E as [A B]. apply Z.eqb_eq in B. subst w. apply negb_true_iff in A. apply Z.eqb_neq in A. auto.
    - intros [A B]. exists s. split; auto. rewrite Z.eqb_refl, andb_true_r. apply negb_true_iff. apply Z.eqb_neq. exact B. }
  assert (CLI : forall c, In c cl <-> In c L0 /\ c <> p /\ c <> s /\ in_path c P' = true).
  { intros c. rewrite <- SE2. rewrite filter_In. unfold f_clo. rewrite !andb_true_iff, !negb_true_iff, !Z.eqb_neq. tauto. }
  assert (FSI : forall c, In c fs <-> In c L0 /\ c <> p /\ c <> s /\ in_path c P' = false).
  { intros c. rewrite <- SE3. rewrite filter_In. unfold f_for. rewrite !andb_true_iff, !negb_true_iff, !Z.eqb_neq. tauto. }
  assert (HCl : forall c, In c cl -> In c (vset P) /\ c <> s /\ c <> p).
  { intros c Hc. apply CLI in Hc. destruct Hc as [A [B [D E]]]. apply IP in E. destruct E as [E|E]; [auto|]. subst c. exfalso. apply (Hirr v). exact A. }
  constructor; auto.
  - (* m_nb *) intros w. split.
    + intros Hw. change (In w L0) in Hw. destruct (Z.eq_dec w p) as [Ep|Np]; [auto|]. right.
      destruct (Z.eq_dec w s) as [Es|Ns]; [left; split; [apply LPI; subst; auto | exact Es]|]. right.
      destruct (in_path w P') eqn:IPw; [left; apply CLI; auto | right; apply FSI; auto].
    + intros [Hw|[[Hl Hw]|[Hw|Hw]]].
      * subst w. exact Pin.
      * subst w. apply LPI in Hl. apply Hl.
      * apply CLI in Hw. apply Hw.
      * apply FSI in Hw. apply Hw.
  - intros Hl. apply LPI in Hl. apply Hl.
  - rewrite <- SE2. apply NoDup_filter. apply Hnd.
  - intros n Hn. apply FSI in Hn. destruct Hn as [A [B [D E]]]. repeat split; auto. intros I. assert (T : in_path n P' = true) by (apply IP; auto). congruence.
  - rewrite <- SE3. apply NoDup_filter. apply Hnd.
  - (* m_pres *) intros c Hc. destruct (HCl c Hc) as [Hv [Hs Hp]]. apply CLI in Hc. destruct Hc as [A _].
    destruct (c_atoms _ _ C c Hv Hs) as [Co _]. assert (Avc : adj v c) by (apply Hsym; exact A).
    specialize (Co v Avc). unfold bonds_of in Co. apply in_app_or in Co. destruct Co as [Co|Co].
    + apply in_map_iff in Co. destruct Co as [[[a q] oo] [E He]]. simpl in E. exfalso.
      apply bond_key_eq in E. destruct E as [[E1 E2]|[E1 E2]].
      * subst q. destruct (c_prev _ _ C _ _ _ He) as [H|H]; [contradiction | congruence].
      * subst a. apply F2. eapply In_vset. exact He.
    + apply in_map_iff in Co. destruct Co as [[[[n f] oo] cc] [E Hy]]. simpl in E.
      apply in_app_or in Hy. destruct Hy as [Hy|[Hy|[]]].
      * assert (Fv : f <> v).
        { intros Ef. subst f. destruct (c_from _ _ C _ (in_or_app _ _ _ (or_introl Hy))) as [H|H]; unfold frm in H; simpl in H; [contradiction | congruence]. }
        apply bond_key_eq in E. destruct E as [[E1 E2]|[E1 E2]]; [congruence|]. subst n f.
        pose proof (bl_ok_pop _ _ (c_bl _ _ C)) as NL. rewrite Forall_forall in NL. specialize (NL _ Hy). simpl in NL.
        destruct NL as [N1 [N2|N2]]; [subst; exact Hy | contradiction].
      * injection Hy as E1 E2 E3 E4. subst n f. apply bond_key_eq in E. destruct E as [[E1 E2]|[E1 E2]]; congruence.
  - (* m_len *) pose proof (scan_partition_length s p P' L0) as PL. fold L0.
    rewrite (filter_eq_length_NoDup p L0 (Hnd v) Pin) in PL. rewrite SE2, SE3 in PL.
    assert (LL : List.length (filter (f_loop s p) L0) = if existsb (f_loop s p) L0 then 1%nat else 0%nat).
    { destruct (existsb (f_loop s p) L0) eqn:LB.
      - assert (AB : In s L0 /\ s <> p) by (apply LPI; exact LPB). destruct AB as [A B].
        assert (EF : filter (f_loop s p) L0 = filter (fun w => w =? s) L0).
        { apply filter_ext_in. intros w Hw. unfold f_loop. destruct (w =? s) eqn:Es; [|apply andb_false_r].
          apply Z.eqb_eq in Es. subst w. rewrite andb_true_r. apply negb_true_iff. apply Z.eqb_neq. exact B. }
        rewrite EF. apply filter_eq_length_NoDup; [apply Hnd | exact A].
      - clear - LB. induction L0 as [|y r IH]; simpl in *; auto. apply orb_false_elim in LB. destruct LB as [A B]. rewrite A. apply IH. exact B. }
    rewrite LL in PL. rewrite LPB. destruct (existsb (f_loop s p) L0); lia.
Qed.


(* ---------------- the stack of fork snapshots ---------------- *)
Lemma pop_last_snoc {A : Type} (l : list A) x : pop_last (l ++ [x]) = Some (x, l).
Proof. unfold pop_last. rewrite rev_app_distr. simpl. rewrite rev_involutive. reflexivity. Qed.

Lemma pop_last_inv {A : Type} (l : list A) x r : pop_last l = Some (x, r) -> l = r ++ [x].
Proof.
  unfold pop_last. intros E. destruct (rev l) as [|y t] eqn:R; [discriminate|]. injection E as E1 E2. subst.
  rewrite <- (rev_involutive l), R. reflexivity.
Qed.

Definition last_cut (L : list kitem) : option Z := match pop_last L with Some ((_, _, _, c), _) => c | None => None end.

Lemma last_cut_snoc L n f o c : last_cut (L ++ [(n, f, o, c)]) = c.
Proof. unfold last_cut. rewrite pop_last_snoc. reflexivity. Qed.

Fixpoint rest_ok (P : list kentry) (rest : list (list kitem)) : Prop :=
  match rest with
  | [] => True
  | L :: r => exists c, last_cut L = Some c /\ 0 <= c <= Z.of_nat (List.length P) /\
                        Cfg (firstn (Z.to_nat c) P) L /\ rest_ok (firstn (Z.to_nat c) P) r
  end.
Definition Stk (P : list kentry) (stack : list (list kitem)) : Prop :=
  match stack with [] => True | top :: rest => Cfg P top /\ rest_ok P rest end.

Lemma firstn_app_le {A : Type} (n : nat) (l l' : list A) : (n <= List.length l)%nat -> firstn n (l ++ l') = firstn n l.
Proof. intros H. rewrite firstn_app. replace (n - List.length l)%nat with 0%nat by lia. simpl. apply app_nil_r. Qed.

Lemma rest_ok_app P Q rest : rest_ok P rest -> rest_ok (P ++ Q) rest.
Proof.
  destruct rest as [|L r]; simpl; auto. intros [c [A [B [C D]]]]. exists c.
  assert (E : firstn (Z.to_nat c) (P ++ Q) = firstn (Z.to_nat c) P) by (apply firstn_app_le; lia).
  rewrite E. split; [exact A|]. split; [rewrite app_length, Nat2Z.inj_add; lia|]. split; assumption.
Qed.

Lemma rest_ok_self P L r : Cfg P L -> (exists c, last_cut L = Some c /\ c = Z.of_nat (List.length P)) -> rest_ok P r -> rest_ok P (L :: r).
Proof.
  intros C [c [A B]] R. simpl. exists c. subst c. rewrite Nat2Z.id, firstn_all. split; [exact A|]. split; [lia|]. split; assumption.
Qed.

(* `del stack[-1]` followed by the cut of the path *)
Lemma backtrack_stk P rest st pth : rest_ok P rest -> backtrack rest P = Ok (st, pth) -> Stk pth st.
Proof.
  unfold backtrack, cut_path. intros R E. destruct rest as [|L r].
  - injection E as E1 E2. subst. exact I.
  - simpl in R. destruct R as [c [A [B [C D]]]]. unfold last_cut in A.
    destruct (pop_last L) as [[[[[n f] o] cc] t]|]; [|discriminate]. subst cc.
    injection E as E1 E2. subst. simpl. auto.
Qed.

Lemma cut_stk P rest pth : rest_ok P rest -> cut_path rest P = Ok pth -> Stk pth rest.
Proof.
  intros R E. apply (backtrack_stk P rest rest pth R). unfold backtrack. rewrite E. reflexivity.
Qed.

(* the popped item leads back to the start atom: nothing is processed *)
Lemma closing_pop P L p o cx : Cfg P (L ++ [(s, p, o, cx)]) -> Cfg (P ++ [(s, p, o)]) L.
Proof.
  intros C. set (x := ((s, p, o, cx) : kitem)) in *.
  assert (Ix : In x (L ++ [x])) by (apply in_or_app; right; left; reflexivity).
  assert (InL : forall y, In y L -> In y (L ++ [x])) by (intros; apply in_or_app; auto).
  assert (PB : Permutation (bonds_of (P ++ [(s, p, o)]) L) (bonds_of P (L ++ [x]))).
  { unfold bonds_of. rewrite !map_app. simpl. rewrite <- !app_assoc. apply Permutation_app_head. apply Permutation_app_comm. }
  assert (VS : forall u, In u (vset (P ++ [(s, p, o)])) <-> In u (vset P) \/ u = s) by (intros; apply vset_snoc).
  constructor.
  - apply Forall_app. split; [apply (c_okP _ _ C)|]. constructor; [|constructor].
    pose proof (c_okL _ _ C) as H. rewrite Forall_forall in H. apply (H x Ix).
  - pose proof (c_okL _ _ C) as H. apply Forall_app in H. apply H.
  - apply (Permutation_NoDup (Permutation_sym PB)). apply (c_nd _ _ C).
  - intros y Hy. destruct (c_from _ _ C _ (InL _ Hy)) as [A|A]; [left; apply VS; auto | right; exact A].
  - intros y Hy Ts. destruct (c_tgt _ _ C _ (InL _ Hy) Ts) as [A|A].
    + left. intros I. apply VS in I. destruct I as [I|I]; contradiction.
    + right. eapply stale_grow; [|exact A]. intros u Hu. apply VS. left. exact Hu.
  - assert (NoS : forall y, In y L -> frm y <> s).
    { intros y Hy. pose proof (c_start _ _ C) as ST. unfold start_ok in ST. destruct P as [|[[a0 p0] o0] r0].
      - destruct ST as [n [c [E _]]]. destruct L as [|y0 L0]; [contradiction|]. destruct L0; simpl in E; discriminate E.
      - destruct ST as [_ [_ [_ [_ H]]]]. apply H. apply InL. exact Hy. }
    apply ordP_grow with (P := P).
    + intros u Hu. apply VS in Hu. destruct Hu as [Hu|Hu]; [left; exact Hu | right; subst u; exact NoS].
    + pose proof (c_ord _ _ C) as O. apply ordP_app in O. apply O.
  - intros n f oo cc Hy E. apply (c_cls _ _ C n f oo cc (InL _ Hy) E).
  - apply bl_ok_all. apply (bl_ok_pop _ _ (c_bl _ _ C)).
  - intros u Hu Us. apply VS in Hu. destruct Hu as [Hu|Hu]; [|contradiction].
    destruct (c_atoms _ _ C u Hu Us) as [Co Ne]. split.
    + intros w Hw. eapply Permutation_in; [apply Permutation_sym; exact PB | apply Co; exact Hw].
    + assert (E : dcount u (P ++ [(s, p, o)]) L = dcount u P (L ++ [x])); [|rewrite E; exact Ne].
      unfold dcount. rewrite !countb_app. unfold x. simpl. lia.
  - intros a q oo H. apply in_app_or in H. destruct H as [H|[H|[]]].
    + destruct (c_prev _ _ C _ _ _ H) as [A|A]; [left; apply VS; auto | right; exact A].
    + injection H as E1 E2 E3. subst. destruct (c_from _ _ C x Ix) as [A|A]; [left; apply VS; auto | right; exact A].
  - intros a q oo H E. apply in_app_or in H. destruct H as [H|[H|[]]].
    + apply (c_clsP _ _ C _ _ _ H E).
    + injection H as E1 E2 E3. subst. apply (c_cls _ _ C s q oo cx Ix eq_refl).
  - pose proof (c_start _ _ C) as ST. unfold start_ok in *. destruct P as [|[[a0 p0] o0] r0]; simpl.
    + destruct ST as [n [c [E Hn]]]. destruct L as [|y0 L0]; [|destruct L0; simpl in E; discriminate E].
      simpl in E. injection E as E1 E2 E3 E4. congruence.
    + destruct ST as [S1 [S2 [S3 [S4 S5]]]]. split; [exact S1|]. split; [exact S2|]. split; [exact S3|]. split.
      * intros e He. apply in_app_or in He. destruct He as [He|[He|[]]]; [apply S4; exact He|]. subst e. simpl. apply (S5 x Ix).
      * intros y Hy. apply S5. apply InL. exact Hy.
Qed.

(* a pending bond between two visited atoms is placed: the stale closure item of a pyrrole-type atom *)
Lemma move_cfg P L L' v w (e : kentry) :
  Cfg P L -> Permutation L (((v, w, 1, None) : kitem) :: L') -> sub L' L -> Forall nl_ok L' ->
  In v (vset P) -> v <> s -> (e = (v, w, 1) \/ e = (w, v, 1)) -> Cfg (P ++ [e]) L'.
Proof.
  intros C PM SB NL Vv Vs He. set (y := ((v, w, 1, None) : kitem)) in *.
  assert (Iy : In y L) by (eapply Permutation_in; [apply Permutation_sym; exact PM | left; reflexivity]).
  assert (InL : forall z, In z L' -> In z L) by (intros z Hz; eapply sub_In; eauto).
  assert (PN : P <> []) by (intros E0; subst P; contradiction).
  assert (NoS : forall z, In z L -> frm z <> s).
  { intros z Hz. pose proof (c_start _ _ C) as ST. unfold start_ok in ST. destruct P as [|[[a0 p0] o0] r0]; [contradiction|].
    destruct ST as [_ [_ [_ [_ H]]]]. apply H. exact Hz. }
  assert (Ww : In w (vset P)).
  { destruct (c_from _ _ C y Iy) as [A|A]; [exact A | exfalso; apply (NoS y Iy); exact A]. }
  assert (Ws : w <> s) by (apply (NoS y Iy)).
  assert (OKy : okO v w 1) by (pose proof (c_okL _ _ C) as H; rewrite Forall_forall in H; apply (H y Iy)).
  assert (EB : ebond e = ibond y) by (destruct He as [He|He]; subst e; simpl; [reflexivity | apply bond_key_sym]).
  assert (PB : Permutation (bonds_of (P ++ [e]) L') (bonds_of P L)).
  { unfold bonds_of. rewrite map_app. simpl. rewrite <- app_assoc. apply Permutation_app_head. simpl. rewrite EB.
    apply Permutation_sym. apply (Permutation_map ibond) in PM. exact PM. }
  assert (VS : forall u, In u (vset (P ++ [e])) <-> In u (vset P)).
  { intros u. rewrite vset_app, in_app_iff. simpl. split; [|auto]. intros [H|[H|[]]]; [exact H|]. destruct He as [He|He]; subst e u; simpl; assumption. }
  constructor.
  - apply Forall_app. split; [apply (c_okP _ _ C)|]. constructor; [|constructor].
    destruct He as [He|He]; subst e; [exact OKy|]. change (okO w v 1). split; [apply Hsym; apply OKy | left; reflexivity].
  - pose proof (c_okL _ _ C) as H. rewrite Forall_forall in *. intros z Hz. apply H. apply InL. exact Hz.
  - apply (Permutation_NoDup (Permutation_sym PB)). apply (c_nd _ _ C).
  - intros z Hz. destruct (c_from _ _ C _ (InL _ Hz)) as [A|A]; [left; apply VS; exact A | right; exact A].
  - intros z Hz Ts. destruct (c_tgt _ _ C _ (InL _ Hz) Ts) as [A|A].
    + left. intros I. apply VS in I. contradiction.
    + right. eapply stale_grow; [|exact A]. intros u Hu. apply VS. exact Hu.
  - apply ordP_grow with (P := P); [intros u Hu; left; apply VS; exact Hu|]. eapply ordP_sub; [exact SB | apply (c_ord _ _ C)].
  - intros n f oo cc Hz E. apply (c_cls _ _ C n f oo cc (InL _ Hz) E).
  - apply bl_ok_all. exact NL.
  - intros u Hu Us. apply VS in Hu. destruct (c_atoms _ _ C u Hu Us) as [Co Ne]. split.
    + intros x Hx. eapply Permutation_in; [apply Permutation_sym; exact PB | apply Co; exact Hx].
    + assert (E : dcount u (P ++ [e]) L' = dcount u P L); [|rewrite E; exact Ne].
      unfold dcount. rewrite countb_app. rewrite (countb_perm (dI u) _ _ PM). cbn [countb].
      assert (Z1 : (if dE u e then 1 else 0) = 0) by (destruct He as [He|He]; subst e; reflexivity).
      assert (Z2 : (if dI u y then 1 else 0) = 0) by reflexivity.
      rewrite Z1, Z2. lia.
  - intros a q oo H. apply in_app_or in H. destruct H as [H|[H|[]]].
    + destruct (c_prev _ _ C _ _ _ H) as [A|A]; [left; apply VS; exact A | right; exact A].
    + left. apply VS. destruct He as [He|He]; subst e; injection H as E1 E2 E3; subst; assumption.
  - intros a q oo H E. apply in_app_or in H. destruct H as [H|[H|[]]].
    + apply (c_clsP _ _ C _ _ _ H E).
    + exfalso. destruct He as [He|He]; subst e; injection H as E1 E2 E3; subst; contradiction.
  - pose proof (c_start _ _ C) as ST. unfold start_ok in *. destruct P as [|[[a0 p0] o0] r0]; [contradiction|]. simpl.
    destruct ST as [S1 [S2 [S3 [S4 S5]]]]. split; [exact S1|]. split; [exact S2|]. split; [exact S3|]. split.
    + intros x Hx. apply in_app_or in Hx. destruct Hx as [Hx|[Hx|[]]]; [apply S4; exact Hx|]. subst x.
      destruct He as [He|He]; subst e; simpl; assumption.
    + intros z Hz. apply S5. apply InL. exact Hz.
Qed.

(* closures are consumed from a list that may carry the closing item in front *)
Lemma do_closures_ctop v lpb cl L path top1 path1 : v <> s ->
  do_closures v cl (cl_items v lpb ++ L) path = Ok (top1, path1) ->
  exists t, top1 = cl_items v lpb ++ t /\ Permutation L (cons_items v cl ++ t) /\ sub t L /\ path1 = path ++ cl_entries v cl.
Proof.
  intros Vs E. unfold cl_items in *. destruct lpb; simpl in *.
  - rewrite do_closures_front in E by (simpl; congruence).
    destruct (do_closures v cl L path) as [[t pp]|] eqn:D; [|discriminate]. injection E as E1 E2. subst.
    destruct (do_closures_perm _ _ _ _ _ _ D) as [A B]. exists t. repeat split; auto. eapply do_closures_sub. exact D.
  - destruct (do_closures_perm _ _ _ _ _ _ E) as [A B]. exists top1. repeat split; auto. eapply do_closures_sub. exact E.
Qed.

Lemma do_closures_ctop_total v lpb cl L path : NoDup cl -> (forall c, In c cl -> In ((v, c, 1, None) : kitem) L) ->
  exists r, do_closures v cl (cl_items v lpb ++ L) path = Ok r.
Proof. intros N H. apply do_closures_total; auto. intros c Hc. apply in_or_app. right. apply H. exact Hc. Qed.


(* ---------------- the branches of `grow` ---------------- *)
Lemma mid_cfg P L v p o cx lpb cl fs t pushes : Mid P L v p o cx lpb cl fs ->
  Permutation L (cons_items v cl ++ t) -> sub t L ->
  Permutation (map tgt pushes) fs -> (forall x, In x pushes -> frm x = v) -> Forall okI pushes -> bl_ok pushes ->
  need v ((if o =? 2 then 1 else 0) + (if lpb && (closing_order =? 2) then 1 else 0) + countb (dI v) pushes) ->
  Cfg (P ++ (v, p, o) :: cl_entries v cl) ((cl_items v lpb ++ t) ++ pushes).
Proof.
  intros M PL SB PT PF OK BL ND. rewrite <- app_assoc.
  apply (process_cfg P L v p o cx lpb cl [] fs t pushes (m_cfg _ _ _ _ _ _ _ _ _ M) (m_vs _ _ _ _ _ _ _ _ _ M) (m_new _ _ _ _ _ _ _ _ _ M)); auto.
  - intros w. rewrite (m_nb _ _ _ _ _ _ _ _ _ M w). simpl. tauto.
  - apply (m_lps _ _ _ _ _ _ _ _ _ M).
  - apply (m_cl _ _ _ _ _ _ _ _ _ M).
  - apply (m_ncl _ _ _ _ _ _ _ _ _ M).
  - intros c [].
  - intros H. exfalso. apply H. reflexivity.
  - apply (m_fs _ _ _ _ _ _ _ _ _ M).
  - apply (m_nfs _ _ _ _ _ _ _ _ _ M).
Qed.

(* the closures of a pyrrole-type atom that goes on with a single neighbour stay pending *)
Lemma mid_cfg_keep P L v p o cx cl fs pushes : Mid P L v p o cx false cl fs -> In v pyr ->
  Permutation (map tgt pushes) fs -> (forall x, In x pushes -> frm x = v) -> Forall okI pushes -> bl_ok pushes ->
  need v ((if o =? 2 then 1 else 0) + 0 + countb (dI v) pushes) ->
  Cfg (P ++ [(v, p, o)]) ((cl_items v false ++ L) ++ pushes).
Proof.
  intros M PY PT PF OK BL ND. rewrite <- app_assoc.
  change (P ++ [(v, p, o)]) with (P ++ (v, p, o) :: cl_entries v []).
  pose proof (m_cfg _ _ _ _ _ _ _ _ _ M) as C.
  apply (process_cfg P L v p o cx false [] cl fs L pushes C (m_vs _ _ _ _ _ _ _ _ _ M) (m_new _ _ _ _ _ _ _ _ _ M)); auto.
  - intros w. rewrite (m_nb _ _ _ _ _ _ _ _ _ M w). simpl. tauto.
  - apply (m_lps _ _ _ _ _ _ _ _ _ M).
  - intros c [].
  - constructor.
  - intros c Hc. destruct (m_cl _ _ _ _ _ _ _ _ _ M c Hc) as [A [B D]]. repeat split; auto. apply (m_pres _ _ _ _ _ _ _ _ _ M c Hc).
  - intros NE. split; [exact PY|]. split; [reflexivity|]. intros AS.
    apply (m_nb _ _ _ _ _ _ _ _ _ M) in AS. destruct AS as [AS|[[AS _]|[AS|AS]]].
    + (* the previous atom is the start atom: then nothing is visited yet and there is no closure *)
      destruct cl as [|c0 cl0]; [apply NE; reflexivity|].
      destruct (m_cl _ _ _ _ _ _ _ _ _ M c0 (or_introl eq_refl)) as [A _].
      pose proof (c_start _ _ C) as ST. unfold start_ok in ST. destruct P as [|[[a0 p0] o0] r0]; [contradiction|].
      destruct ST as [_ [_ [_ [_ H]]]]. apply (H (v, p, o, cx)); [apply in_or_app; right; left; reflexivity | symmetry; exact AS].
    + discriminate AS.
    + destruct (m_cl _ _ _ _ _ _ _ _ _ M s AS) as [_ [A _]]. apply A. reflexivity.
    + destruct (m_fs _ _ _ _ _ _ _ _ _ M s AS) as [_ [A _]]. apply A. reflexivity.
  - apply sub_refl.
  - apply (m_fs _ _ _ _ _ _ _ _ _ M).
  - apply (m_nfs _ _ _ _ _ _ _ _ _ M).
Qed.

Lemma push_ok P L v p o cx lpb cl fs n oo cc : Mid P L v p o cx lpb cl fs -> In n fs ->
  (oo = 1 \/ (oo = 2 /\ zmem n dbr = false /\ zmem v dbr = false)) -> okI ((n, v, oo, cc) : kitem).
Proof.
  intros M Hn HO. change (okO n v oo). split; [apply (proj2 (m_nb _ _ _ _ _ _ _ _ _ M n)); auto|].
  destruct HO as [HO|[HO [A B]]]; [left; exact HO | right]. apply zmem_false in A. apply zmem_false in B. auto.
Qed.

Lemma bl_ok_nil : bl_ok [].
Proof. intros L1 x E. destruct L1; discriminate. Qed.
Lemma bl_ok_one x : bl_ok [x].
Proof. intros L1 y E. destruct L1 as [|a [|b r]]; simpl in E; try discriminate. constructor. Qed.
Lemma bl_ok_two a x : nl_ok a -> bl_ok [a; x].
Proof.
  intros H L1 y E. destruct L1 as [|a' [|b r]]; simpl in E; try discriminate.
  - injection E as E1 E2. subst. constructor; [exact H | constructor].
  - injection E as E1 E2 E3. destruct r; discriminate.
Qed.

Lemma last_cut_snoc2 A a n f o c : last_cut (A ++ [a; (n, f, o, c)]) = c.
Proof. change (A ++ [a; (n, f, o, c)]) with (A ++ [a] ++ [(n, f, o, c)]). rewrite app_assoc. apply last_cut_snoc. Qed.

Definition mode_ok (v o bond' : Z) (lpb : bool) (fs : list Z) : Prop :=
  (bond' = o /\ (lpb = true -> closing_order = 1 /\ (o = 1 -> fs <> [] \/ zmem v dbr = true \/ zmem v pyr = true))) \/
  (bond' = 2 /\ o = 1 /\ lpb = true /\ closing_order = 2).

Ltac t_pf := let y := fresh "y" in let H := fresh "H" in intros y H; simpl in H;
  repeat (destruct H as [H|H]; [subst y; reflexivity|]); contradiction.
Ltac t_ok M := repeat (constructor; [eapply push_ok; [exact M | simpl; tauto | first [left; reflexivity | right; repeat split; assumption]]|]); constructor.
Ltac t_need := unfold need; cbn [countb dI];
  repeat match goal with H : zmem _ _ = _ |- _ => rewrite H end;
  rewrite ?Z.eqb_refl, ?orb_true_r; simpl; try lia.

Lemma grow_stk P L v p o cx lpb cl fs rest bond' st pth :
  Mid P L v p o cx lpb cl fs -> rest_ok P rest -> mode_ok v o bond' lpb fs ->
  grow dbr pyr (cl_items v lpb ++ L) rest (P ++ [(v, p, o)]) v bond' cl fs = Ok (st, pth) ->
  Stk pth st.
Proof.
  intros M R MO G.
  pose proof (m_cfg _ _ _ _ _ _ _ _ _ M) as C. pose proof (m_vs _ _ _ _ _ _ _ _ _ M) as Vs.
  set (x := ((v, p, o, cx) : kitem)) in *.
  assert (F1 : okO v p o).
  { pose proof (c_okL _ _ C) as H. rewrite Forall_forall in H. apply (H x). apply in_or_app. right. left. reflexivity. }
  assert (O12 : o = 1 \/ (o = 2 /\ zmem v dbr = false)).
  { destruct F1 as [_ [H|[H [A _]]]]; [left; exact H | right; split; [exact H | apply zmem_false; exact A]]. }
  assert (R' : forall Q, rest_ok ((P ++ [(v, p, o)]) ++ Q) rest) by (intros Q; rewrite <- app_assoc; apply rest_ok_app; exact R).
  assert (R0 : rest_ok (P ++ [(v, p, o)]) rest) by (apply rest_ok_app; exact R).
  assert (PE : forall Cl, P ++ (v, p, o) :: cl_entries v Cl = (P ++ [(v, p, o)]) ++ cl_entries v Cl) by (intros; rewrite <- app_assoc; reflexivity).
  assert (PE0 : P ++ (v, p, o) :: cl_entries v [] = P ++ [(v, p, o)]) by reflexivity.
  assert (CO2 : closing_order = 2 -> forall u, zmem u dbr = false).
  { unfold closing_order. destruct dbr; simpl; [reflexivity | discriminate]. }
  assert (LEN := m_len _ _ _ _ _ _ _ _ _ M). pose proof (Hdeg3 v) as D3.
  unfold grow in G. unfold indb, inpyr in G.
  destruct ((bond' =? 2) || zmem v dbr) eqn:B0.
  - (* double bond arrived, or double_bonded atom: everything else single *)
    destruct (do_closures v cl (cl_items v lpb ++ L) (P ++ [(v, p, o)])) as [[top1 path1]|] eqn:DC; [|simpl in G; discriminate G].
    injection G as G1 G2. subst st pth.
    destruct (do_closures_ctop _ _ _ _ _ _ _ Vs DC) as [t [T1 [T2 [TS T3]]]]. subst top1 path1.
    cbn [Stk]. split; [|apply R'].
    rewrite <- PE. apply (mid_cfg P L v p o cx lpb cl fs t _ M T2 TS).
    + rewrite map_map. simpl. rewrite map_id. reflexivity.
    + intros y Hy. apply in_map_iff in Hy. destruct Hy as [n [E _]]. subst y. reflexivity.
    + apply Forall_forall. intros y Hy. apply in_map_iff in Hy. destruct Hy as [n [E Hn]]. subst y. eapply push_ok; eauto.
    + apply bl_ok_all. apply Forall_forall. intros y Hy. apply in_map_iff in Hy. destruct Hy as [n [E Hn]]. subst y. simpl. auto.
    + assert (Z0 : countb (dI v) (map (fun n : Z => ((n, v, 1, None) : kitem)) fs) = 0).
      { apply countb_0. intros y Hy. apply in_map_iff in Hy. destruct Hy as [n [E _]]. subst y. reflexivity. }
      rewrite Z0. unfold need. apply orb_true_iff in B0.
      destruct (zmem v dbr) eqn:IDB.
      * (* v in double_bonded: o = 1, closing (if any) single *)
        destruct O12 as [O1|[O2 A]]; [|discriminate]. subst o. simpl.
        destruct MO as [[_ MO]|[_ [_ [_ MO]]]]; [|rewrite (CO2 MO v) in IDB; discriminate].
        destruct lpb; simpl; [|lia]. destruct (MO eq_refl) as [CO _]. rewrite CO. simpl. lia.
      * destruct B0 as [B0|B0]; [|discriminate]. apply Z.eqb_eq in B0. subst bond'.
        assert (D1 : (if o =? 2 then 1 else 0) + (if lpb && (closing_order =? 2) then 1 else 0) + 0 = 1).
        { destruct MO as [[MO1 MO2]|[_ [MO1 [MO2 MO3]]]].
          - subst o. simpl. destruct lpb; simpl; [|lia]. destruct (MO2 eq_refl) as [CO _]. rewrite CO. simpl. lia.
          - subst o lpb. rewrite MO3. simpl. lia. }
        rewrite D1. destruct (zmem v pyr); lia.
  - (* single bond arrived at an atom that may take a double bond *)
    apply orb_false_elim in B0. destruct B0 as [B1 IDB].
    assert (MO' : bond' = o /\ o = 1 /\ (lpb = true -> closing_order = 1 /\ (fs <> [] \/ zmem v pyr = true))).
    { destruct MO as [[MO1 MO2]|[MO1 _]]; [|subst bond'; discriminate B1]. subst bond'.
      assert (O1 : o = 1) by (destruct O12 as [H|[H _]]; [exact H | subst o; discriminate B1]).
      split; [reflexivity|]. split; [exact O1|]. intros Hl. destruct (MO2 Hl) as [A B]. split; [exact A|].
      destruct (B O1) as [H|[H|H]]; auto. rewrite H in IDB. discriminate. }
    destruct MO' as [_ [O1 MO2]]. subst o.
    assert (CL0 : forall b : bool, (if lpb && (closing_order =? 2) then 1 else 0) = 0).
    { intros _. destruct lpb; simpl; auto. destruct (MO2 eq_refl) as [CO _]. rewrite CO. reflexivity. }
    assert (NoCons : Permutation L (cons_items v [] ++ L)) by reflexivity.
    destruct fs as [|n1 [|n2 [|n3 fs']]].
    + (* no unvisited neighbour *)
      destruct cl as [|c0 cl0].
      * injection G as G1 G2. subst st pth. cbn [Stk]. split; [|exact R0].
        rewrite <- PE0. rewrite <- (app_nil_r (cl_items v lpb ++ L)).
        assert (PY : zmem v pyr = true).
        { destruct lpb; [destruct (MO2 eq_refl) as [_ [H|H]]; [exfalso; apply H; reflexivity | exact H]|].
          exfalso. simpl in LEN. assert (A : adj p v) by (apply Hsym; apply F1). pose proof (Hdeg2 _ _ A). lia. }
        apply (mid_cfg P L v p 1 cx lpb [] [] L [] M NoCons (sub_refl L)); [reflexivity | t_pf | constructor | apply bl_ok_nil |].
        rewrite (CL0 true). t_need.
      * destruct (zmem v pyr) eqn:PY.
        -- destruct (do_closures_ctop_total v lpb (c0 :: cl0) L (P ++ [(v, p, 1)]) (m_ncl _ _ _ _ _ _ _ _ _ M) (m_pres _ _ _ _ _ _ _ _ _ M)) as [[top1 path1] DC].
           rewrite (soft_of_do _ _ _ _ _ DC) in G. injection G as G1 G2. subst st pth.
           destruct (do_closures_ctop _ _ _ _ _ _ _ Vs DC) as [t [T1 [T2 [TS T3]]]]. subst top1 path1.
           cbn [Stk]. split; [|apply R'].
           rewrite <- PE. rewrite <- (app_nil_r (cl_items v lpb ++ t)).
           apply (mid_cfg P L v p 1 cx lpb (c0 :: cl0) [] t [] M T2 TS); [reflexivity | t_pf | constructor | apply bl_ok_nil |].
           rewrite (CL0 true). t_need.
        -- eapply backtrack_stk; [exact R0 | exact G].
    + (* one unvisited neighbour *)
      assert (In1 : In n1 [n1]) by (left; reflexivity).
      destruct (zmem n1 dbr) eqn:D1.
      * destruct (zmem v pyr) eqn:PY; [|eapply backtrack_stk; [exact R0 | exact G]].
        assert (PYI : In v pyr) by (apply zmem_true; exact PY). simpl in LEN.
        injection G as G1 G2. subst st pth. cbn [Stk]. split; [|exact R0].
        destruct cl as [|c0 cl0].
        -- rewrite <- PE0. apply (mid_cfg P L v p 1 cx lpb [] [n1] L _ M NoCons (sub_refl L)); [reflexivity | t_pf | t_ok M | apply bl_ok_one |].
           rewrite (CL0 true). t_need.
        -- assert (LF : lpb = false) by (destruct lpb; [simpl in LEN; lia | reflexivity]). subst lpb.
           apply (mid_cfg_keep P L v p 1 cx (c0 :: cl0) [n1] _ M PYI); [reflexivity | t_pf | t_ok M | apply bl_ok_one |]. t_need.
      * destruct (zmem v pyr) eqn:PY.
        -- assert (PYI : In v pyr) by (apply zmem_true; exact PY). simpl in LEN.
           injection G as G1 G2. subst st pth. cbn [Stk].
           assert (C12 : Cfg (P ++ [(v, p, 1)]) ((cl_items v lpb ++ L) ++ [((n1, v, 2, None) : kitem)]) /\
                         Cfg (P ++ [(v, p, 1)]) ((cl_items v lpb ++ L) ++ [((n1, v, 1, Some (Z.of_nat (List.length (P ++ [(v, p, 1)])))) : kitem)])).
           { destruct cl as [|c0 cl0].
             - split; rewrite <- PE0; apply (mid_cfg P L v p 1 cx lpb [] [n1] L _ M NoCons (sub_refl L));
                 first [reflexivity | t_pf | t_ok M | apply bl_ok_one | (rewrite (CL0 true); t_need)].
             - assert (LF : lpb = false) by (destruct lpb; [simpl in LEN; lia | reflexivity]). subst lpb.
               split; apply (mid_cfg_keep P L v p 1 cx (c0 :: cl0) [n1] _ M PYI); first [reflexivity | t_pf | t_ok M | apply bl_ok_one | t_need]. }
           destruct C12 as [C1 C2].
           split; [exact C1|]. apply rest_ok_self; [exact C2 | | exact R0].
           eexists. split; [apply last_cut_snoc | reflexivity].
        -- (* plain ring atom: the double bond goes on, a closure stays single *)
           simpl in LEN.
           destruct cl as [|c0 cl0].
           ++ injection G as G1 G2. subst st pth. cbn [Stk]. split; [|exact R0].
              rewrite <- PE0. apply (mid_cfg P L v p 1 cx lpb [] [n1] L _ M NoCons (sub_refl L)); [reflexivity | t_pf | t_ok M | apply bl_ok_one |].
              rewrite (CL0 true). t_need.
           ++ assert (CE : cl0 = []) by (destruct cl0; [reflexivity | simpl in LEN; destruct lpb; lia]). subst cl0.
              destruct (remove_kitem (v, c0, 1, None) ((cl_items v lpb ++ L) ++ [((n1, v, 2, None) : kitem)])) as [top2|] eqn:RM; [|simpl in G; discriminate G].
              injection G as G1 G2. subst st pth.
              (* the removed item sits in the old part of the list *)
              destruct (do_closures_ctop_total v lpb [c0] L (P ++ [(v, p, 1)]) (m_ncl _ _ _ _ _ _ _ _ _ M) (m_pres _ _ _ _ _ _ _ _ _ M)) as [[top1 path1] DC].
              destruct (do_closures_ctop _ _ _ _ _ _ _ Vs DC) as [t [T1 [T2 [TS T3]]]]. subst top1 path1.
              simpl in DC. destruct (remove_kitem (v, c0, 1, None) (cl_items v lpb ++ L)) as [t1|] eqn:RM1; [|discriminate DC].
              injection DC as DC1. subst t1.
              assert (RM2 : remove_kitem (v, c0, 1, None) ((cl_items v lpb ++ L) ++ [((n1, v, 2, None) : kitem)]) = Some ((cl_items v lpb ++ t) ++ [((n1, v, 2, None) : kitem)])).
              { clear - RM1. revert RM1. generalize (cl_items v lpb ++ L) as A. generalize (cl_items v lpb ++ t) as A'.
                intros A' A. revert A'. induction A as [|a r IH]; intros A' E; cbn [remove_kitem] in E; [discriminate|].
                rewrite <- app_comm_cons. cbn [remove_kitem].
                destruct (kitem_eqb (v, c0, 1, None) a); [injection E as E; subst; reflexivity|].
                destruct (remove_kitem (v, c0, 1, None) r) as [r'|] eqn:RR; [|discriminate]. cbn [option_map] in E. injection E as E. subst A'.
                rewrite (IH r' eq_refl). reflexivity. }
              rewrite RM2 in RM. injection RM as RM. subst top2.
              cbn [Stk]. split; [|apply (R' [(c0, v, 1)])].
              change ((P ++ [(v, p, 1)]) ++ [(c0, v, 1)]) with ((P ++ [(v, p, 1)]) ++ cl_entries v [c0]). rewrite <- PE.
              apply (mid_cfg P L v p 1 cx lpb [c0] [n1] t _ M T2 TS); [reflexivity | t_pf | t_ok M | apply bl_ok_one |].
              rewrite (CL0 true). t_need.
    + (* fork: two unvisited neighbours, hence no closure and no closing bond *)
      simpl in LEN.
      assert (LF : lpb = false) by (destruct lpb; [lia | reflexivity]).
      assert (CE : cl = []) by (destruct cl; [reflexivity | simpl in LEN; destruct lpb; lia]). subst lpb cl.
      assert (FK : forall pushes, Permutation (map tgt pushes) [n1; n2] -> (forall y, In y pushes -> frm y = v) -> Forall okI pushes -> bl_ok pushes ->
                   need v (0 + 0 + countb (dI v) pushes) -> Cfg (P ++ [(v, p, 1)]) ((cl_items v false ++ L) ++ pushes)).
      { intros pushes A1 A2 A3 A4 A5. rewrite <- PE0. apply (mid_cfg P L v p 1 cx false [] [n1; n2] L pushes M NoCons (sub_refl L)); auto. }
      assert (NL1 : forall n, nl_ok ((n, v, 1, None) : kitem)) by (intros n; simpl; auto).
      assert (SW : Permutation [n2; n1] [n1; n2]) by apply perm_swap.
      assert (RS : forall base a n oo, Cfg (P ++ [(v, p, 1)]) (base ++ [a; (n, v, oo, Some (Z.of_nat (List.length (P ++ [(v, p, 1)]))))]) -> forall r, rest_ok (P ++ [(v, p, 1)]) r ->
                   rest_ok (P ++ [(v, p, 1)]) ((base ++ [a; ((n, v, oo, Some (Z.of_nat (List.length (P ++ [(v, p, 1)])))) : kitem)]) :: r)).
      { intros base a n oo Cb r Rr. apply rest_ok_self; [exact Cb | | exact Rr]. eexists. split; [apply last_cut_snoc2 | reflexivity]. }
      destruct (zmem n1 dbr) eqn:D1; [destruct (zmem n2 dbr) eqn:D2 | destruct (zmem n2 dbr) eqn:D2]; destruct (zmem v pyr) eqn:PY;
        try (eapply backtrack_stk; [exact R0 | exact G]); injection G as G1 G2; subst st pth; cbn [Stk].
      * split; [|exact R0]. apply FK; [reflexivity | t_pf | t_ok M | apply bl_ok_two; apply NL1 | t_need].
      * split; [|apply RS; [|exact R0]]; apply FK; first [reflexivity | t_pf | t_ok M | (apply bl_ok_two; apply NL1) | t_need].
      * split; [|exact R0]. apply FK; [reflexivity | t_pf | t_ok M | apply bl_ok_two; apply NL1 | t_need].
      * split; [|apply RS; [|exact R0]]; apply FK; first [reflexivity | exact SW | t_pf | t_ok M | (apply bl_ok_two; apply NL1) | t_need].
      * split; [|exact R0]. apply FK; [exact SW | t_pf | t_ok M | apply bl_ok_two; apply NL1 | t_need].
      * split; [|apply RS; [|apply RS; [|exact R0]]]; apply FK; first [reflexivity | exact SW | t_pf | t_ok M | (apply bl_ok_two; apply NL1) | t_need].
      * split; [|apply RS; [|exact R0]]; apply FK; first [reflexivity | exact SW | t_pf | t_ok M | (apply bl_ok_two; apply NL1) | t_need].
    + simpl in G. discriminate G.
Qed.


(* ---------------- a pyrrole-type atom reached a second time through its stale closure item ---------------- *)
Lemma sub_Forall {A : Type} (Q : A -> Prop) (l l' : list A) : sub l l' -> Forall Q l' -> Forall Q l.
Proof. intros S F. rewrite Forall_forall in *. intros x Hx. apply F. eapply sub_In; eauto. Qed.

Lemma sub_snoc {A : Type} (l : list A) x : sub l (l ++ [x]).
Proof. induction l as [|a r IH]; simpl; [apply sub_skip; apply sub_nil | apply sub_keep; exact IH]. Qed.

Lemma stale_pop P L v c o cx : Cfg P (L ++ [(v, c, o, cx)]) -> v <> s -> In v (vset P) ->
  o = 1 /\ cx = None /\ In v pyr /\ ~ adj s v /\ Cfg (P ++ [(v, c, 1)]) L /\ Forall nl_ok L /\ (forall y, In y L -> frm y <> v).
Proof.
  intros C Vs Vv. set (x := ((v, c, o, cx) : kitem)) in *.
  assert (Ix : In x (L ++ [x])) by (apply in_or_app; right; left; reflexivity).
  destruct (c_tgt _ _ C x Ix Vs) as [A|A]; [contradiction|]. simpl in A. destruct A as [_ [PY [O1 [CX NS]]]]. subst o cx.
  pose proof (bl_ok_pop _ _ (c_bl _ _ C)) as NL.
  split; [reflexivity|]. split; [reflexivity|]. split; [exact PY|]. split; [exact NS|]. split; [|split; [exact NL|]].
  - apply (move_cfg P (L ++ [x]) L v c (v, c, 1) C); auto.
    + apply Permutation_sym. apply Permutation_cons_append.
    + apply sub_snoc.
  - intros y Hy. pose proof (c_ord _ _ C) as O. apply ordP_app in O. destruct O as [_ [_ O]].
    apply (O y x Hy (or_introl eq_refl)); [exact Vv | exact Vs].
Qed.

Lemma soft_cfg v : forall cl L P L' P', Cfg P L -> Forall nl_ok L -> In v (vset P) -> v <> s ->
  soft_closures v cl L P = (L', P') -> Cfg P' L' /\ exists Q, P' = P ++ Q.
Proof.
  induction cl as [|c r IH]; intros L P L' P' C NL Vv Vs E; simpl in E.
  - injection E as E1 E2. subst. split; [exact C | exists []; rewrite app_nil_r; reflexivity].
  - destruct (remove_kitem (v, c, 1, None) L) as [t1|] eqn:R; [|eapply IH; eauto].
    pose proof (remove_kitem_perm _ _ _ R) as PM. pose proof (remove_kitem_sub _ _ _ R) as SB.
    assert (NL1 : Forall nl_ok t1) by (eapply sub_Forall; eauto).
    assert (C1 : Cfg (P ++ [(c, v, 1)]) t1) by (apply (move_cfg P L t1 v c (c, v, 1) C PM SB NL1 Vv Vs); right; reflexivity).
    assert (Vv1 : In v (vset (P ++ [(c, v, 1)]))) by (rewrite vset_app; apply in_or_app; left; exact Vv).
    destruct (IH _ _ _ _ C1 NL1 Vv1 Vs E) as [C2 [Q EQ]]. split; [exact C2|]. exists ((c, v, 1) :: Q). rewrite EQ, <- app_assoc. reflexivity.
Qed.

Lemma revisit_stk P L v c o cx rest lpz cl fs st' ys bf bs nv :
  Cfg P (L ++ [(v, c, o, cx)]) -> v <> s -> In v (vset P) -> rest_ok P rest ->
  scan_nbrs rings s v c (P ++ [(v, c, o)]) = (lpz, cl, fs) ->
  lpz = 0 /\
  (match grow dbr pyr L rest (P ++ [(v, c, o)]) v o cl fs with
   | Err e => Err e
   | Ok (stk, p) => Ok (mkK stk p bf bs nv, ([] : list (list kentry)))
   end = Ok (st', ys) ->
   Stk (k_path st') (k_stack st') /\ k_buffer st' = bf /\ ys = []).
Proof.
  intros C Vs Vv R SN.
  destruct (stale_pop _ _ _ _ _ _ C Vs Vv) as [O1 [CX [PY [NS [C1 [NL NF]]]]]]. subst o cx.
  rewrite scan_nbrs_spec in SN. injection SN as S1 S2 S3.
  set (P1 := P ++ [(v, c, 1)]) in *.
  assert (LZ : lpz = 0).
  { rewrite <- S1. destruct (existsb (f_loop s c) (al_get rings v)) eqn:EX; [|reflexivity]. exfalso.
    apply existsb_exists in EX. destruct EX as [w [Hw F]]. unfold f_loop in F. apply andb_true_iff in F. destruct F as [_ F]. apply Z.eqb_eq in F. subst w. apply NS. exact Hw. }
  assert (FS : fs = []).
  { rewrite <- S3. destruct (filter (f_for s c P1) (al_get rings v)) as [|w r] eqn:FL; [reflexivity|]. exfalso.
    assert (Iw : In w (filter (f_for s c P1) (al_get rings v))) by (rewrite FL; left; reflexivity).
    apply filter_In in Iw. destruct Iw as [Aw F]. unfold f_for in F. rewrite !andb_true_iff, !negb_true_iff in F. destruct F as [[Wc Ws] NP].
    apply Z.eqb_neq in Wc. apply Z.eqb_neq in Ws.
    assert (Vw : In w (vset P1)).
    { assert (Vv1 : In v (vset P1)) by (unfold P1; rewrite vset_app; apply in_or_app; left; exact Vv).
      destruct (c_atoms _ _ C1 v Vv1 Vs) as [Co _]. specialize (Co w Aw). unfold bonds_of in Co. apply in_app_or in Co. destruct Co as [Co|Co].
      - apply in_map_iff in Co. destruct Co as [[[a q] oo] [E' He]]. simpl in E'. apply bond_key_eq in E'. destruct E' as [[E1 E2]|[E1 E2]].
        + subst a q. destruct (c_prev _ _ C1 _ _ _ He) as [H|H]; [exact H | contradiction].
        + subst a q. eapply In_vset. exact He.
      - apply in_map_iff in Co. destruct Co as [[[[n f] oo] cc] [E' He]]. simpl in E'. apply bond_key_eq in E'. destruct E' as [[E1 E2]|[E1 E2]].
        + subst n f. destruct (c_from _ _ C1 _ He) as [H|H]; unfold frm in H; simpl in H; [exact H | contradiction].
        + subst n f. exfalso. apply (NF _ He). reflexivity. }
    apply in_path_In in Vw. unfold vset in Vw. congruence. }
  split; [exact LZ|]. intros E. clear S1 S3. subst lpz fs.
  unfold grow in E. unfold indb, inpyr in E. change (1 =? 2) with false in E. cbn [orb] in E.
  assert (ND : zmem v dbr = false) by (apply zmem_false; apply Hdisj; auto).
  rewrite ND in E.
  assert (R1 : forall Q, rest_ok (P1 ++ Q) rest) by (intros Q; unfold P1; rewrite <- app_assoc; apply rest_ok_app; exact R).
  destruct cl as [|c0 cl0].
  - injection E as E1 E2. subst st' ys. cbn [k_path k_stack k_buffer Stk]. split; [split; [exact C1|]|split; reflexivity]. rewrite <- (app_nil_r P1). apply R1.
  - rewrite (proj2 (zmem_true _ _) PY) in E.
    destruct (soft_closures v (c0 :: cl0) L P1) as [top1 path1] eqn:SC.
    injection E as E1 E2. subst st' ys. cbn [k_path k_stack k_buffer Stk].
    assert (Vv1 : In v (vset P1)) by (unfold P1; rewrite vset_app; apply in_or_app; left; exact Vv).
    destruct (soft_cfg v _ _ _ _ _ C1 NL Vv1 Vs SC) as [C2 [Q EQ]]. split; [split; [exact C2|]|split; reflexivity]. rewrite EQ. apply R1.
Qed.

(* ---------------- one iteration of the loop ---------------- *)
Variable size : Z.
Variable E' : list (Z * Z).                       (* the skeleton bonds *)
Hypothesis HE_nd : NoDup E'.
Hypothesis HE_len : Z.of_nat (List.length E') = size.
Hypothesis HE_in : forall a b, adj a b -> In (bond_key a b) E'.

Definition Good (y : list kentry) : Prop := (exists L, Cfg y L) /\ Z.of_nat (List.length y) = size.
Definition KInv (st : kstate) : Prop := Stk (k_path st) (k_stack st) /\ Forall Good (k_buffer st).

Lemma bonds_in_E P L : Cfg P L -> incl (bonds_of P L) E'.
Proof.
  intros C k Hk. unfold bonds_of in Hk. apply in_app_or in Hk. destruct Hk as [Hk|Hk]; apply in_map_iff in Hk.
  - destruct Hk as [[[a q] o] [E He]]. subst k. pose proof (c_okP _ _ C) as H. rewrite Forall_forall in H. apply HE_in. apply (H _ He).
  - destruct Hk as [[[[n f] o] c] [E He]]. subst k. pose proof (c_okL _ _ C) as H. rewrite Forall_forall in H. apply HE_in. apply (H _ He).
Qed.

(* when the path is complete the popped item led to the start atom *)
Lemma complete_pop_is_start P L v p o cx :
  Cfg P (L ++ [(v, p, o, cx)]) -> ~ In v (vset P) -> Z.of_nat (List.length (P ++ [(v, p, o)])) = size -> v = s.
Proof.
  intros C F2 LN. destruct (Z.eq_dec v s) as [E|Vs]; [exact E|]. exfalso.
  set (x := ((v, p, o, cx) : kitem)) in *.
  assert (Ix : In x (L ++ [x])) by (apply in_or_app; right; left; reflexivity).
  assert (F1 : okO v p o) by (pose proof (c_okL _ _ C) as H; rewrite Forall_forall in H; apply (H x Ix)).
  pose proof (c_nd _ _ C) as ND. pose proof (bonds_in_E _ _ C) as IN.
  pose proof (NoDup_incl_length ND IN) as LE.
  assert (LB : List.length (bonds_of P (L ++ [x])) = (List.length P + List.length L + 1)%nat).
  { unfold bonds_of. rewrite app_length, !map_length, app_length. simpl. lia. }
  rewrite app_length in LN. simpl in LN.
  assert (LE' : (List.length P + List.length L + 1 <= List.length E')%nat) by (rewrite <- LB; exact LE).
  assert (LL : List.length L = 0%nat) by lia.
  assert (COV : incl E' (bonds_of P (L ++ [x]))).
  { apply NoDup_length_incl; [exact ND | | exact IN]. rewrite LB. lia. }
  assert (L0 : L = []) by (destruct L; [reflexivity | discriminate LL]). subst L.
  (* a second neighbour of v *)
  assert (Apv : adj p v) by (apply Hsym; apply F1).
  pose proof (Hdeg2 _ _ Apv) as D2. pose proof (Hnd v) as NDv.
  assert (EW : exists w, adj w v /\ w <> p).
  { unfold adj in *. destruct (al_get rings v) as [|a [|b r]]; simpl in D2; try lia.
    destruct (Z.eq_dec a p) as [Ea|Na]; [|exists a; split; [left; reflexivity | exact Na]].
    exists b. split; [right; left; reflexivity|]. intros Eb. subst a b. inversion NDv as [|? ? NI _]. apply NI. left. reflexivity. }
  destruct EW as [w [Aw Nw]].
  assert (Kin : In (bond_key v w) (bonds_of P ([] ++ [x]))) by (apply COV; apply HE_in; apply Hsym; exact Aw).
  unfold bonds_of in Kin. simpl in Kin. apply in_app_or in Kin. destruct Kin as [Kin|[Kin|[]]].
  - apply in_map_iff in Kin. destruct Kin as [[[a q] oo] [E He]]. simpl in E. apply bond_key_eq in E. destruct E as [[E1 E2]|[E1 E2]].
    + subst a. apply F2. eapply In_vset. exact He.
    + subst q. destruct (c_prev _ _ C _ _ _ He) as [H|H]; [contradiction | congruence].
  - apply bond_key_eq in Kin. destruct Kin as [[_ E]|[E _]]; [congruence|]. subst w. apply (Hirr v). exact Aw.
Qed.

Lemma kstep_inv st st' ys :
  kstep rings dbr pyr s size st = Ok (st', ys) -> KInv st -> KInv st' /\ Forall Good ys.
Proof.
  unfold kstep, KInv. intros E [SK BF].
  destruct (k_stack st) as [|top0 rest] eqn:KS.
  - injection E as E1 E2. subst. rewrite KS. auto.
  - cbn [Stk] in SK. destruct SK as [C R].
    destruct (pop_last top0) as [[[[[atom prev] bond] cx] top]|] eqn:PL; [|discriminate E].
    apply pop_last_inv in PL. subst top0.
    set (path := k_path st ++ [(atom, prev, bond)]) in *.
    assert (Rp : rest_ok path rest) by (apply rest_ok_app; exact R).
    destruct (Z.of_nat (List.length path) =? size) eqn:SZ.
    + apply Z.eqb_eq in SZ.
      assert (GP : Good path).
      { destruct (Z.eq_dec atom s) as [AS|AS].
        - subst atom. split; [exists top; apply closing_pop with (cx := cx); exact C | exact SZ].
        - destruct (in_dec Z.eq_dec atom (vset (k_path st))) as [IV|NV].
          + destruct (stale_pop _ _ _ _ _ _ C AS IV) as [O1 [_ [_ [_ [C1 _]]]]]. subst bond. split; [exists top; exact C1 | exact SZ].
          + exfalso. apply AS. eapply complete_pop_is_start; [exact C | exact NV | exact SZ]. }
      assert (BA : Forall Good (k_buffer st ++ [path])) by (apply Forall_app; split; auto).
      destruct (nonempty pyr && negb (k_bsize st =? 0));
        [destruct (2 <=? countb (fun n => gsum n path =? 2) pyr); [destruct (Z.of_nat (List.length (k_buffer st)) =? k_bsize st)|]|];
        cbv beta iota zeta in E; destruct (cut_path rest path) as [pc|] eqn:CP; try (simpl in E; discriminate E);
        injection E as E1 E2; subst st' ys; cbn [k_path k_stack k_buffer];
        (split; [split; [eapply cut_stk; [exact Rp | exact CP] | auto] | auto]).
    + destruct (negb (atom =? s)) eqn:AS.
      * apply negb_true_iff in AS. apply Z.eqb_neq in AS.
        destruct (scan_nbrs rings s atom prev path) as [[lpz cl] fs] eqn:SN. cbv beta iota zeta in E.
        destruct (in_dec Z.eq_dec atom (vset (k_path st))) as [IV|NV].
        { (* second visit of a pyrrole-type atom through its stale closure item *)
          destruct (revisit_stk _ _ _ _ _ _ rest _ _ _ st' ys (k_buffer st) (k_bsize st) (k_never st) C AS IV R SN) as [LZ RV].
          subst lpz. change (negb (0 =? 0)) with false in E. cbv iota in E.
          destruct (RV E) as [SK' [BF' YS']]. rewrite BF', YS'. split; [split; [exact SK' | exact BF] | constructor]. }
        pose proof (scan_mid _ _ _ _ _ _ _ _ _ C AS NV SN) as M.
        assert (LPZ : negb (lpz =? 0) = true -> lpz = s).
        { rewrite scan_nbrs_spec in SN. injection SN as S1 _ _. rewrite <- S1. destruct (existsb _ _); [reflexivity | rewrite Z.eqb_refl; discriminate]. }
        assert (O12 : bond = 1 \/ bond = 2).
        { pose proof (c_okL _ _ C) as H. rewrite Forall_forall in H. assert (Ix0 : In ((atom, prev, bond, cx) : kitem) (top ++ [(atom, prev, bond, cx)])) by (apply in_or_app; right; left; reflexivity). specialize (H _ Ix0).
          destruct H as [_ [H|[H _]]]; auto. }
        assert (FIN : forall top' bond', top' = cl_items atom (negb (lpz =? 0)) ++ top -> mode_ok atom bond bond' (negb (lpz =? 0)) fs ->
                  match grow dbr pyr top' rest path atom bond' cl fs with
                  | Err e => Err e
                  | Ok (stk, p) => Ok (mkK stk p (k_buffer st) (k_bsize st) (k_never st), [])
                  end = Ok (st', ys) -> (Stk (k_path st') (k_stack st') /\ Forall Good (k_buffer st')) /\ Forall Good ys).
        { intros top' bond' ET MO EG. subst top'.
          destruct (grow dbr pyr (cl_items atom (negb (lpz =? 0)) ++ top) rest path atom bond' cl fs) as [[stk p]|] eqn:GR; [|discriminate EG].
          injection EG as E1 E2. subst st' ys. cbn [k_path k_stack k_buffer]. split; [split; [|exact BF] | constructor].
          eapply grow_stk; [exact M | exact R | exact MO | exact GR]. }
        assert (ABN : match backtrack rest path with
                      | Err e => Err e
                      | Ok (stk, p) => Ok (mkK stk p (k_buffer st) (k_bsize st) (k_never st), [])
                      end = Ok (st', ys) -> (Stk (k_path st') (k_stack st') /\ Forall Good (k_buffer st')) /\ Forall Good ys).
        { intros EG. destruct (backtrack rest path) as [[stk p]|] eqn:BT; [|discriminate EG].
          injection EG as E1 E2. subst st' ys. cbn [k_path k_stack k_buffer]. split; [split; [|exact BF] | constructor].
          eapply backtrack_stk; [exact Rp | exact BT]. }
        assert (CO1 : nonempty dbr = true -> closing_order = 1) by (intros H; unfold closing_order; rewrite H; reflexivity).
        assert (CO2 : nonempty dbr = false -> closing_order = 2) by (intros H; unfold closing_order; rewrite H; reflexivity).
        destruct (negb (lpz =? 0)) eqn:LP.
        -- rewrite (LPZ eq_refl) in E.
           destruct (bond =? 2) eqn:B2.
           ++ apply Z.eqb_eq in B2. destruct (nonempty dbr) eqn:NE; [|apply ABN; exact E].
              apply (FIN ((s, atom, 1, None) :: top) bond); [unfold cl_items; rewrite (CO1 eq_refl); reflexivity | | exact E].
              left. split; [reflexivity|]. intros _. split; [apply CO1; reflexivity|]. intros H. lia.
           ++ apply Z.eqb_neq in B2. assert (B1 : bond = 1) by (destruct O12; [assumption | contradiction]).
              destruct (nonempty dbr) eqn:NE.
              ** destruct (nonempty fs || indb dbr atom || inpyr pyr atom) eqn:CD; [|apply ABN; exact E].
                 apply (FIN ((s, atom, 1, None) :: top) bond); [unfold cl_items; rewrite (CO1 eq_refl); reflexivity | | exact E].
                 left. split; [reflexivity|]. intros _. split; [apply CO1; reflexivity|]. intros _.
                 apply orb_true_iff in CD. destruct CD as [CD|CD]; [apply orb_true_iff in CD; destruct CD as [CD|CD]|].
                 --- left. destruct fs; [discriminate | discriminate].
                 --- right. left. exact CD.
                 --- right. right. exact CD.
              ** apply (FIN ((s, atom, 2, None) :: top) 2); [unfold cl_items; rewrite (CO2 eq_refl); reflexivity | | exact E].
                 right. repeat split; auto.
        -- apply (FIN top bond); [reflexivity | | exact E]. left. split; [reflexivity|]. intros H. discriminate H.
      * apply negb_false_iff in AS. apply Z.eqb_eq in AS. subst atom.
        injection E as E1 E2. subst st' ys. cbn [k_path k_stack k_buffer Stk]. split; [split; [split|]|]; auto.
        apply closing_pop with (cx := cx). exact C.
Qed.


(* ---------------- the loop ---------------- *)
Lemma kloop_good : forall fuel maxy st acc ys r c,
  kloop rings dbr pyr s size fuel maxy st acc = Ok (ys, r, c) -> KInv st -> Forall Good acc -> Forall Good ys.
Proof.
  induction fuel as [|f IH]; intros maxy st acc ys r c E I A; simpl in E.
  - destruct (maxy <=? List.length acc)%nat; [injection E as E1 E2 E3; subst; apply firstn_Forall; exact A|].
    destruct (k_stack st); [|discriminate].
    destruct (k_never st); injection E as E1 E2 E3; subst; auto.
    apply firstn_Forall. apply Forall_app. split; [exact A | apply I].
  - destruct (maxy <=? List.length acc)%nat; [injection E as E1 E2 E3; subst; apply firstn_Forall; exact A|].
    destruct (k_stack st) eqn:KS.
    + destruct (k_never st); injection E as E1 E2 E3; subst; auto.
      apply firstn_Forall. apply Forall_app. split; [exact A | apply I].
    + destruct (kstep rings dbr pyr s size st) as [[st' ys']|] eqn:K; [|discriminate].
      destruct (kstep_inv _ _ _ K I) as [I' Y].
      eapply IH; eauto. apply Forall_app. split; assumption.
Qed.

(* ---------------- a complete configuration is a sound form ---------------- *)
Variable dbo : list Z.                                   (* double_bonded as given (dbr may contain the start atom in addition) *)
Hypothesis Hdb : forall n, n <> s -> zmem n dbr = zmem n dbo.
Hypothesis HE_skel : E' = skeleton_bonds rings.
Hypothesis Hkeys : forall n, In n (keys rings) -> exists w, adj w n.
Hypothesis Hmode :
  (b0 = 1 /\ closing_order = 1 /\ zmem s dbo = true) \/
  (b0 = 1 /\ closing_order = 2 /\ zmem s dbo = false /\ List.length (al_get rings s) = 2%nat) \/
  (b0 = 2 /\ closing_order = 1 /\ zmem s dbo = false).

Lemma good_full y L : Cfg y L -> Z.of_nat (List.length y) = size -> L = [] /\ incl E' (map ebond y).
Proof.
  intros C LN. pose proof (c_nd _ _ C) as ND. pose proof (bonds_in_E _ _ C) as IN.
  pose proof (NoDup_incl_length ND IN) as LE.
  assert (LB : List.length (bonds_of y L) = (List.length y + List.length L)%nat) by (unfold bonds_of; rewrite app_length, !map_length; reflexivity).
  assert (LL : List.length L = 0%nat) by lia.
  assert (L0 : L = []) by (destruct L; [reflexivity | discriminate LL]). subst L. split; [reflexivity|].
  assert (COV : incl E' (bonds_of y [])) by (apply NoDup_length_incl; [exact ND | rewrite LB; simpl; lia | exact IN]).
  unfold bonds_of in COV. simpl in COV. rewrite app_nil_r in COV. exact COV.
Qed.

Lemma dE_start_order y o' : (forall a q o, In (a, q, o) y -> (a = s \/ q = s) -> o = o') -> o' <> 2 -> countb (dE s) y = 0.
Proof.
  intros H N. apply countb_0. intros [[a q] o] He. simpl.
  destruct (o =? 2) eqn:O2; [|reflexivity]. apply Z.eqb_eq in O2. simpl.
  destruct (a =? s) eqn:A; [apply Z.eqb_eq in A; rewrite (H _ _ _ He (or_introl A)) in O2; contradiction|].
  destruct (q =? s) eqn:Q; [apply Z.eqb_eq in Q; rewrite (H _ _ _ He (or_intror Q)) in O2; contradiction | reflexivity].
Qed.

Theorem good_sound y : Good y -> form_sound rings dbo pyr y = true.
Proof.
  intros [[L C] LN]. destruct (good_full _ _ C LN) as [L0 COV]. subst L.
  pose proof (c_nd _ _ C) as ND. unfold bonds_of in ND. simpl in ND. rewrite app_nil_r in ND.
  assert (FB : form_bonds y = map ebond y) by (unfold form_bonds; apply map_ext; intros [[a q] o]; reflexivity).
  pose proof (c_okP _ _ C) as OKP. rewrite Forall_forall in OKP.
  unfold form_sound. rewrite !andb_true_iff. repeat split.
  - apply forallb_forall. intros k Hk. apply Z.eqb_eq. rewrite FB. apply countb_NoDup_one; [exact ND|]. apply COV. rewrite HE_skel. exact Hk.
  - apply forallb_forall. intros k Hk. apply existsb_zpair. rewrite <- HE_skel. rewrite FB in Hk.
    apply in_map_iff in Hk. destruct Hk as [[[a q] o] [E He]]. subst k. apply HE_in. apply (OKP _ He).
  - apply forallb_forall. intros [[a q] o] He. destruct (OKP _ He) as [_ [H|[H _]]]; subst o; reflexivity.
  - apply forallb_forall. intros [n ms] Hn. cbn [fst].
    assert (DA : doubles_at n y = dcount n y []) by (unfold doubles_at, dcount; simpl; rewrite Z.add_0_r; apply (f_equal (fun f => countb f y)); reflexivity).
    assert (Kn : In n (keys rings)) by (apply in_map_iff; exists (n, ms); auto).
    destruct (Z.eq_dec n s) as [Es|Ns].
    + (* the start atom *)
      subst n. rewrite DA. unfold dcount. simpl. rewrite Z.add_0_r.
      pose proof (c_start _ _ C) as ST. unfold start_ok in ST.
      destruct y as [|[[a0 p0] o0] r0].
      { exfalso. destruct (Hkeys _ Kn) as [w Aw]. pose proof (HE_in _ _ Aw) as I. apply COV in I. contradiction. }
      destruct ST as [S1 [S2 [S3 [S4 _]]]]. subst p0 o0.
      assert (CLS : forall a q o, In (a, q, o) ((a0, s, b0) :: r0) -> a = s -> o = closing_order) by (apply (c_clsP _ _ C)).
      assert (PRV : forall a q o, In (a, q, o) r0 -> q <> s) by (intros a q o He; apply (S4 _ He)).
      destruct Hmode as [[M1 [M2 M3]]|[[M1 [M2 [M3 M4]]]|[M1 [M2 M3]]]].
      * rewrite M3. apply Z.eqb_eq. apply (dE_start_order _ 1); [|lia].
        intros a q o He [A|Q]; [rewrite (CLS _ _ _ He A); exact M2|].
        destruct He as [He|He]; [injection He as E1 E2 E3; subst; exact M1 | exfalso; exact (PRV _ _ _ He Q)].
      * (* normal start: exactly one closing entry, of order 2 *)
        rewrite M3.
        match goal with |- context [countb (dE s) ?l] => assert (D1 : countb (dE s) l = 1) end.
        { cbn [countb dE]. rewrite M1. simpl.
          assert (A0 : adj a0 s) by (apply (OKP (a0, s, b0) (or_introl eq_refl))).
          (* the other neighbour of the start atom *)
          assert (EW : exists w, adj w s /\ w <> a0 /\ forall u, adj u s -> u = a0 \/ u = w).
          { unfold adj in *. pose proof (Hnd s) as NDs. destruct (al_get rings s) as [|x1 [|x2 [|x3 r]]]; simpl in M4; try discriminate M4.
            inversion NDs as [|? ? NI _]; subst. destruct A0 as [A0|[A0|[]]]; subst.
            - exists x2. split; [right; left; reflexivity|]. split; [intros E; subst; apply NI; left; reflexivity|]. intros u [U|[U|[]]]; auto.
            - exists x1. split; [left; reflexivity|]. split; [intros E; subst; apply NI; left; reflexivity|]. intros u [U|[U|[]]]; auto. }
          destruct EW as [w [Aw [Nw Only]]].
          assert (DEQ : forall e, In e r0 -> dE s e = (fst (fst e) =? s)).
          { intros [[a q] o] He. simpl. destruct (a =? s) eqn:A.
            - apply Z.eqb_eq in A. rewrite (CLS _ _ _ (or_intror He) A), M2. reflexivity.
            - destruct (q =? s) eqn:Q; [apply Z.eqb_eq in Q; exfalso; exact (PRV _ _ _ He Q) | apply andb_false_r]. }
          assert (CE : countb (dE s) r0 = countb (fun e : kentry => fst (fst e) =? s) r0).
          { clear - DEQ. induction r0 as [|e r IH]; simpl; auto. rewrite (DEQ e (or_introl eq_refl)), IH; auto. intros e' He'. apply DEQ. right. exact He'. }
          rewrite CE.
          assert (NDr : NoDup (map ebond r0)) by (simpl in ND; inversion ND; assumption).
          assert (NF : ~ In (bond_key a0 s) (map ebond r0)) by (simpl in ND; inversion ND; assumption).
          assert (UP : countb (fun e : kentry => fst (fst e) =? s) r0 <= 1).
          { apply (countb_le1 _ ebond (bond_key s w)); [exact NDr|]. intros [[a q] o] He F. simpl in F. apply Z.eqb_eq in F. subst a. simpl.
            assert (Aq : adj q s) by (apply Hsym; apply (OKP _ (or_intror He))).
            destruct (Only _ Aq) as [U|U]; [|subst; reflexivity]. subst q. exfalso. apply NF.
            apply in_map_iff. exists (s, a0, o). split; [simpl; apply bond_key_sym | exact He]. }
          assert (LO : 1 <= countb (fun e : kentry => fst (fst e) =? s) r0).
          { assert (I : In (bond_key w s) (map ebond ((a0, s, b0) :: r0))) by (apply COV; apply HE_in; exact Aw).
            simpl in I. destruct I as [I|I].
            - apply bond_key_eq in I. destruct I as [[I _]|[I1 I2]]; [congruence|]. subst. exfalso. apply (Hirr s). exact Aw.
            - apply in_map_iff in I. destruct I as [[[a q] o] [E He]]. simpl in E. apply bond_key_eq in E. destruct E as [[E1 E2]|[E1 E2]].
              + subst. exfalso. exact (PRV _ _ _ He eq_refl).
              + subst. apply (countb_ge1 _ _ (s, w, o) He). simpl. apply Z.eqb_refl. }
          lia. }
        rewrite D1. destruct (zmem s pyr); reflexivity.
      * rewrite M3. match goal with |- context [countb (dE s) ?l] => assert (D1 : countb (dE s) l = 1) end.
        { cbn [countb dE]. rewrite M1, (Z.eqb_refl s), orb_true_r. simpl.
          assert (Z0 : countb (dE s) r0 = 0).
          { apply (dE_start_order _ 1); [|lia]. intros a q o He [A|Q]; [rewrite (CLS _ _ _ (or_intror He) A); exact M2 | exfalso; exact (PRV _ _ _ He Q)]. }
          rewrite Z0. reflexivity. }
        rewrite D1. destruct (zmem s pyr); reflexivity.
    + (* any other atom has been processed *)
      assert (Vn : In n (vset y)).
      { destruct (Hkeys _ Kn) as [w Aw]. pose proof (HE_in _ _ Aw) as I. apply COV in I.
        apply in_map_iff in I. destruct I as [[[a q] o] [E He]]. simpl in E. apply bond_key_eq in E. destruct E as [[E1 E2]|[E1 E2]].
        - subst. destruct (c_prev _ _ C _ _ _ He) as [H|H]; [exact H | contradiction].
        - subst. eapply In_vset. exact He. }
      destruct (c_atoms _ _ C n Vn Ns) as [_ ND']. unfold need in ND'. rewrite (Hdb n Ns) in ND'. rewrite DA.
      destruct (zmem n dbo); [apply Z.eqb_eq; exact ND'|]. destruct (zmem n pyr); [apply Z.leb_le; exact ND' | apply Z.eqb_eq; exact ND'].
Qed.

End Sound.


(* ---------------- well-formed arguments, as booleans (evaluated by the check on every real component) ---------------- *)
Fixpoint nodup_p (l : list (Z * Z)) : bool :=
  match l with [] => true | x :: r => negb (existsb (zpair_eqb x) r) && nodup_p r end.
Definition ksize (rings : adjl) : Z := Z.of_nat (fold_right (fun nl s => (List.length (snd nl) + s)%nat) O rings) / 2.
Definition rings_wf2 (rings : adjl) (db pyr : list Z) : bool :=
  rings_wf rings db pyr && nodup_p (skeleton_bonds rings) && (Z.of_nat (List.length (skeleton_bonds rings)) =? ksize rings) &&
  forallb (fun nl => 0 <? fst nl) rings.

Lemma nodup_p_NoDup l : nodup_p l = true -> NoDup l.
Proof.
  induction l as [|x r IH]; simpl; intros H; constructor; apply andb_true_iff in H; destruct H as [A B]; auto.
  apply negb_true_iff in A. intros I. apply existsb_zpair in I. congruence.
Qed.

Lemma zget_In {V : Type} (d : list (Z * V)) k v : zget d k = Some v -> In (k, v) d.
Proof.
  induction d as [|[k' v'] r IH]; simpl; intros E; [discriminate|]. destruct (k =? k') eqn:K.
  - apply Z.eqb_eq in K. subst. injection E as E. subst. left. reflexivity.
  - right. apply IH. exact E.
Qed.

Lemma al_get_In rings n w : In w (al_get rings n) -> In (n, al_get rings n) rings.
Proof. unfold al_get. destruct (zget rings n) eqn:Z; [intros _; apply zget_In; exact Z | contradiction]. Qed.

Lemma al_get_key rings n : In n (keys rings) -> In (n, al_get rings n) rings.
Proof.
  unfold al_get, keys. induction rings as [|[k l] r IH]; simpl; intros I; [contradiction|]. destruct (n =? k) eqn:K.
  - apply Z.eqb_eq in K. subst. left. reflexivity.
  - destruct I as [I|I]; [subst; rewrite Z.eqb_refl in K; discriminate|]. right. apply IH. exact I.
Qed.

Lemma al_get_unique rings k l : NoDup (keys rings) -> In (k, l) rings -> al_get rings k = l.
Proof.
  unfold al_get, keys. induction rings as [|[k' l'] r IH]; simpl; intros N I; [contradiction|]. inversion N as [|? ? NI NR]; subst.
  destruct I as [I|I].
  - injection I as E1 E2. subst. rewrite Z.eqb_refl. reflexivity.
  - destruct (k =? k') eqn:K; [|apply IH; auto]. apply Z.eqb_eq in K. subst k'. exfalso. apply NI.
    apply in_map_iff. exists (k, l). auto.
Qed.

Section Facts.
Variables (rings : adjl) (db pyr : list Z).
Hypothesis WF : rings_wf2 rings db pyr = true.

Lemma wf_parts : rings_wf rings db pyr = true /\ NoDup (skeleton_bonds rings) /\ Z.of_nat (List.length (skeleton_bonds rings)) = ksize rings /\
  (forall n l, In (n, l) rings -> 0 < n).
Proof.
  unfold rings_wf2 in WF. rewrite !andb_true_iff in WF. destruct WF as [[[A B] C] D]. repeat split; auto.
  - apply nodup_p_NoDup. exact B.
  - apply Z.eqb_eq. exact C.
  - intros n l H. rewrite forallb_forall in D. specialize (D _ H). simpl in D. apply Z.ltb_lt. exact D.
Qed.

Lemma wf_entry n l : In (n, l) rings -> NoDup l /\ ~ In n l /\ (List.length l = 2 \/ List.length l = 3)%nat /\ (forall m, In m l -> In n (al_get rings m)).
Proof.
  destruct wf_parts as [A _]. unfold rings_wf in A. rewrite !andb_true_iff in A.
  destruct A as [[[[[[[_ A] _] _] _] _] _] _]. intros H. rewrite forallb_forall in A. specialize (A _ H). simpl in A.
  rewrite !andb_true_iff in A. destruct A as [[[A1 A2] A3] A4]. repeat split.
  - apply nodup_z_NoDup. exact A1.
  - apply zmem_false. apply negb_true_iff. exact A2.
  - apply orb_true_iff in A3. destruct A3 as [A3|A3]; apply Z.eqb_eq in A3; lia.
  - intros m Hm. rewrite forallb_forall in A4. apply zmem_true. apply A4. exact Hm.
Qed.

Lemma f_sym a b : adj rings a b -> adj rings b a.
Proof. unfold adj. intros H. destruct (wf_entry _ _ (al_get_In _ _ _ H)) as [_ [_ [_ S]]]. apply S. exact H. Qed.
Lemma f_irr a : ~ adj rings a a.
Proof. unfold adj. intros H. destruct (wf_entry _ _ (al_get_In _ _ _ H)) as [_ [N _]]. contradiction. Qed.
Lemma f_nd a : NoDup (al_get rings a).
Proof.
  destruct (al_get rings a) as [|w r] eqn:E; [constructor|]. rewrite <- E.
  assert (I : In w (al_get rings a)) by (rewrite E; left; reflexivity). apply (wf_entry _ _ (al_get_In _ _ _ I)).
Qed.
Lemma f_deg3 a : (List.length (al_get rings a) <= 3)%nat.
Proof.
  destruct (al_get rings a) as [|w r] eqn:E; [simpl; lia|]. rewrite <- E.
  assert (I : In w (al_get rings a)) by (rewrite E; left; reflexivity). destruct (wf_entry _ _ (al_get_In _ _ _ I)) as [_ [_ [L _]]]. lia.
Qed.
Lemma f_deg2 a b : adj rings a b -> (2 <= List.length (al_get rings b))%nat.
Proof. unfold adj. intros H. destruct (wf_entry _ _ (al_get_In _ _ _ H)) as [_ [_ [L _]]]. lia. Qed.
Lemma f_keys n : In n (keys rings) -> exists w, adj rings w n.
Proof.
  intros H. destruct (wf_entry _ _ (al_get_key _ _ H)) as [_ [_ [L _]]]. unfold adj.
  destruct (al_get rings n) as [|w r]; [simpl in L; lia | exists w; left; reflexivity].
Qed.
Lemma f_nodup_keys : NoDup (keys rings).
Proof.
  destruct wf_parts as [A _]. unfold rings_wf in A. rewrite !andb_true_iff in A.
  destruct A as [[[[[[[A _] _] _] _] _] _] _]. apply nodup_z_NoDup. exact A.
Qed.
Lemma f_key_pos n : In n (keys rings) -> n <> 0.
Proof. intros H. destruct wf_parts as [_ [_ [_ P]]]. specialize (P _ _ (al_get_key _ _ H)). lia. Qed.

Lemma f_disj v : In v pyr -> ~ In v db.
Proof.
  destruct wf_parts as [A _]. unfold rings_wf in A. rewrite !andb_true_iff in A. destruct A as [_ A]. rewrite forallb_forall in A.
  intros H I. specialize (A _ H). apply negb_true_iff in A. apply zmem_false in A. contradiction.
Qed.
Lemma f_skel a b : adj rings a b -> In (bond_key a b) (skeleton_bonds rings).
Proof.
  intros H. pose proof (f_sym _ _ H) as H'. assert (N : a <> b) by (intros E; subst; apply (f_irr b); exact H).
  assert (G : forall x y, x < y -> adj rings y x -> In (x, y) (skeleton_bonds rings)).
  { intros x y L A. unfold skeleton_bonds. apply in_flat_map. exists (x, al_get rings x). split; [apply (al_get_In _ _ _ A)|].
    simpl. apply in_map_iff. exists y. split; [reflexivity|]. apply filter_In. split; [exact A | apply Z.ltb_lt; exact L]. }
  unfold bond_key. destruct (a <=? b) eqn:E.
  - apply Z.leb_le in E. apply G; [lia | exact H'].
  - apply Z.leb_gt in E. apply G; [lia | exact H].
Qed.
End Facts.

(* ---------------- the initial configuration ---------------- *)
Section Init.
Variables (rings : adjl) (dbr pyr : list Z) (s b0 : Z).
Hypothesis Hirr : forall a, ~ adj rings a a.
Hypothesis Hb0 : b0 = 1 \/ (b0 = 2 /\ dbr = [s]).

Lemma init_cfg nx : adj rings nx s -> Cfg rings dbr pyr s b0 [] [((nx, s, b0, Some 0) : kitem)].
Proof.
  intros A. assert (N : nx <> s) by (intros E; subst; apply (Hirr s); exact A).
  constructor.
  - constructor.
  - constructor; [|constructor]. change (okO rings dbr s nx s b0). split; [exact A|].
    destruct Hb0 as [H|[H1 H2]]; [left; exact H | right]. split; [exact H1|]. split; [|right; reflexivity].
    rewrite H2. intros [I|[]]. congruence.
  - unfold bonds_of. simpl. constructor; [intros []| constructor].
  - intros x [H|[]]. subst x. right. reflexivity.
  - intros x [H|[]] T. subst x. left. intros [].
  - simpl. split; [intros x [] | exact I].
  - intros n f o c [H|[]] E. injection H as E1 E2 E3 E4. congruence.
  - intros L1 x E. destruct L1 as [|a [|b r]]; simpl in E; try discriminate. constructor.
  - intros v [].
  - intros a p o [].
  - intros a p o [].
  - unfold start_ok. exists nx, (Some 0). auto.
Qed.

Lemma init_rest l : (forall nx, In nx l -> adj rings nx s) ->
  rest_ok rings dbr pyr s b0 [] (map (fun nx => [((nx, s, b0, Some 0) : kitem)]) l).
Proof.
  induction l as [|a r IH]; intros H; simpl; auto. exists 0. split; [reflexivity|]. split; [simpl; lia|]. simpl. split.
  - apply init_cfg. apply H. left. reflexivity.
  - apply IH. intros nx Hn. apply H. right. exact Hn.
Qed.

Lemma init_stk l : (forall nx, In nx l -> adj rings nx s) ->
  Stk rings dbr pyr s b0 [] (map (fun nx => [((nx, s, b0, Some 0) : kitem)]) l).
Proof.
  destruct l as [|a r]; intros H; simpl; auto. split.
  - apply init_cfg. apply H. left. reflexivity.
  - apply init_rest. intros nx Hn. apply H. right. exact Hn.
Qed.
End Init.

(* ---------------- the theorem ---------------- *)
Theorem kekule_component_sound : forall rings db db_start pyr bs maxy fuel ys r c,
  rings_wf2 rings db pyr = true -> (db <> [] -> In db_start db) ->
  kekule_component rings db db_start pyr bs maxy fuel = Ok (ys, r, c) ->
  forallb (form_sound rings db pyr) ys = true.
Proof.
  intros rings db db_start pyr bs maxy fuel ys r c WF DS E.
  destruct (wf_parts _ _ _ WF) as [WF1 [ND [LEN POS]]]. pose proof (f_disj _ _ _ WF) as DISJ.
  pose proof (f_sym _ _ _ WF) as Hsym. pose proof (f_irr _ _ _ WF) as Hirr. pose proof (f_nd _ _ _ WF) as Hnd.
  pose proof (f_deg3 _ _ _ WF) as Hd3. pose proof (f_deg2 _ _ _ WF) as Hd2. pose proof (f_keys _ _ _ WF) as Hkeys.
  pose proof (f_skel _ _ _ WF) as Hskel.
  assert (DBK : forall n, In n db -> In n (keys rings)).
  { unfold rings_wf in WF1. rewrite !andb_true_iff in WF1. destruct WF1 as [[[_ A] _] _]. unfold subset_z in A. rewrite forallb_forall in A.
    intros n Hn. apply zmem_true. apply A. exact Hn. }
  unfold kekule_component in E. fold (ksize rings) in E.
  assert (RUN : forall dbr s b0 all_nbrs, In s (keys rings) -> (b0 = 1 \/ (b0 = 2 /\ dbr = [s])) ->
     (forall v, In v pyr -> v <> s -> ~ In v dbr) ->
     (forall n, n <> s -> zmem n dbr = zmem n db) ->
     ((b0 = 1 /\ closing_order dbr = 1 /\ zmem s db = true) \/
      (b0 = 1 /\ closing_order dbr = 2 /\ zmem s db = false /\ List.length (al_get rings s) = 2%nat) \/
      (b0 = 2 /\ closing_order dbr = 1 /\ zmem s db = false)) ->
     match al_get rings s with
     | [] => Err StopIteration
     | n0 :: more =>
         kloop rings dbr pyr s (ksize rings) fuel maxy
           (mkK (if all_nbrs : bool then rev (map (fun nx => [((nx, s, b0, Some 0) : kitem)]) (n0 :: more))
                 else [[((n0, s, b0, Some 0) : kitem)]]) [] [] bs true) []
     end = Ok (ys, r, c) -> forallb (form_sound rings db pyr) ys = true).
  { intros dbr s b0 alln SK HB HDJ HDB HM R. destruct (al_get rings s) as [|n0 more] eqn:AG; [discriminate R|].
    assert (ADJ : forall nx, In nx (n0 :: more) -> adj rings nx s) by (intros nx Hn; unfold adj; rewrite AG; exact Hn).
    assert (S0 : s <> 0) by (apply (f_key_pos _ _ _ WF); exact SK).
    assert (GOOD : Forall (Good rings dbr pyr s b0 (ksize rings)) ys).
    { eapply (kloop_good rings dbr pyr s b0 Hsym Hirr HDJ Hnd Hd3 Hd2 S0 (ksize rings) (skeleton_bonds rings) LEN Hskel); [exact R | | constructor].
      split; [|constructor]. cbn [k_path k_stack]. destruct alln.
      - rewrite <- map_rev. apply init_stk; auto. intros nx Hn. apply ADJ. apply in_rev. exact Hn.
      - apply (init_stk rings dbr pyr s b0 Hirr HB [n0]). intros nx [Hn|[]]. subst. apply ADJ. left. reflexivity. }
    apply forallb_forall. intros y Hy. rewrite Forall_forall in GOOD. rewrite <- AG in HM.
    apply (good_sound rings dbr pyr s b0 Hsym Hirr Hnd (ksize rings) (skeleton_bonds rings) ND LEN Hskel db HDB eq_refl Hkeys HM). apply GOOD. exact Hy. }
  destruct db as [|d0 db'].
  - destruct (find_start rings pyr true) as [z|] eqn:F1; [|destruct (find_start rings pyr false) as [z|] eqn:F2].
    + (* a two-neighbour atom outside pyrroles *)
      unfold find_start in F1. destruct (filter _ rings) as [|[k l] fr] eqn:FL; [discriminate|]. injection F1 as F1. subst z. simpl.
      assert (IK : In (k, l) (filter (fun nl => (Z.of_nat (List.length (snd nl)) =? 2) && (negb true || negb (zmem (fst nl) pyr))) rings)) by (rewrite FL; left; reflexivity).
      apply filter_In in IK. destruct IK as [IK1 IK2]. simpl in IK2. apply andb_true_iff in IK2. destruct IK2 as [L2 _]. apply Z.eqb_eq in L2.
      assert (KK : In k (keys rings)) by (apply in_map_iff; exists (k, l); auto).
      apply (RUN [] k 1 true KK (or_introl eq_refl) (fun v _ _ H => H) (fun n _ => eq_refl)); [|exact E].
      right. left. repeat split; auto.
      rewrite (al_get_unique _ _ _ (f_nodup_keys _ _ _ WF) IK1). simpl in L2. lia.
    + unfold find_start in F2. destruct (filter _ rings) as [|[k l] fr] eqn:FL; [discriminate|]. injection F2 as F2. subst z. simpl.
      assert (IK : In (k, l) (filter (fun nl => (Z.of_nat (List.length (snd nl)) =? 2) && (negb false || negb (zmem (fst nl) pyr))) rings)) by (rewrite FL; left; reflexivity).
      apply filter_In in IK. destruct IK as [IK1 IK2].
      assert (KK : In k (keys rings)) by (apply in_map_iff; exists (k, l); auto).
      apply (RUN [] k 1 true KK (or_introl eq_refl) (fun v _ _ H => H) (fun n _ => eq_refl)); [|exact E].
      right. left. repeat split; auto.
      simpl in IK2. apply andb_true_iff in IK2. destruct IK2 as [L2 _]. apply Z.eqb_eq in L2.
      rewrite (al_get_unique _ _ _ (f_nodup_keys _ _ _ WF) IK1). lia.
    + destruct rings as [|[k l] rr] eqn:RG; [discriminate E|]. rewrite <- RG in *.
      assert (KK : In k (keys rings)) by (rewrite RG; left; reflexivity).
      apply (RUN [k] k 2 true KK (or_intror (conj eq_refl eq_refl))); [| | |exact E].
      * intros v Hv Nv [I|[]]. congruence.
      * intros n Hn. simpl. destruct (n =? k) eqn:K; [apply Z.eqb_eq in K; contradiction | reflexivity].
      * right. right. repeat split; auto.
  - assert (SD : In db_start (d0 :: db')) by (apply DS; discriminate).
    apply (RUN (d0 :: db') db_start 1 false (DBK _ SD) (or_introl eq_refl) (fun v Hv _ => DISJ v Hv) (fun n _ => eq_refl)); [|exact E].
    left. repeat split; auto. apply zmem_true. exact SD.
Qed.

(* the hypotheses are satisfiable and the conclusion is not vacuous: benzene, the pyrrole skeleton, pyridine-type atoms, naphthalene
   with a pyridine-type atom, and the component on which the search was unsound before fix ad376fe (pyrrole-type atoms with
   three skeleton neighbours) *)
Definition former_witness : adjl := [(4, [2; 3; 7]); (1, [7; 3]); (5, [2; 6]); (6, [2; 3; 5]); (7, [4; 1]); (2, [4; 5; 6]); (3, [6; 4; 1])].
Definition naphthalene_adj : adjl :=
  [(1, [2; 10]); (2, [1; 3]); (3, [2; 4]); (4, [3; 5]); (5, [4; 6; 10]); (6, [5; 7]); (7, [6; 8]); (8, [7; 9]); (9, [8; 10]); (10, [9; 1; 5])].
Theorem kekule_component_sound_examples :
  rings_wf2 (ring_adj 6) [] [] = true /\ rings_wf2 (ring_adj 5) [1] [] = true /\ rings_wf2 (ring_adj 6) [] [1; 4] = true /\
  rings_wf2 naphthalene_adj [] [2] = true /\ rings_wf2 former_witness [6] [1; 3; 5; 7] = true /\
  match kekule_component naphthalene_adj [] 0 [2] 0 10 1000 with
  | Ok (ys, _, _) => (3 <=? List.length ys)%nat | Err _ => false end = true /\
  match kekule_component former_witness [6] 6 [1; 3; 5; 7] 7 10 1000 with
  | Ok (ys, _, _) => (1 <=? List.length ys)%nat && forallb (form_sound former_witness [6] [1; 3; 5; 7]) ys | Err _ => false end = true.
Proof. vm_compute. repeat split; reflexivity. Qed.
