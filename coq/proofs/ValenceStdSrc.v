(* C04 round 4 -- what Standardize.__standardize collects for recalculation, re-read from its source on every run (Gen.ValenceSrc,
   tools/gen_valence_src.py: the names added to hs UNCONDITIONALLY at the top of the atom_fix loop and of the bonds_fix loop, after
   their renumbering through `mapping`; everything the two loops assign to; the rule loop ends with `for n in hs: calc_implicit(n)`):
   the collected atoms contain the touched atoms of every edit of Proofs.ValenceEdits (EState = the writes of the atom_fix loop,
   EOrder = the writes of the bonds_fix loop), which is the hypothesis of edits_recalc_fresh. *)
From Coq Require Import ZArith List String Bool Lia.
From Model Require Import PyBase Graph PeriodicTable Valence ValenceArom.
From Gen Require Import Elements ValenceSrc.
From Proofs Require Import ValenceProofs ValenceExt ValenceImpl ValenceStd ValenceEdits.
Import ListNotations.
Open Scope Z_scope.

(* the atoms behind the names of the loop variables: n (atom_fix: the fixed atom; bonds_fix: first end), m (second end) *)
Definition atoms_named (l : list string) (n m : Z) : list Z :=
  flat_map (fun x => if String.eqb x "n" then [n] else if String.eqb x "m" then [m] else []) l.

Theorem std_engine_writes :
  src_std_afix_writes = ["a._charge"%string; "a._is_radical"%string] /\
  src_std_bfix_writes = ["b._order"%string; "bonds[m][n]"%string; "bonds[n][m]"%string].
Proof. split; reflexivity. Qed.

Theorem std_engine_collects_touched :
  (forall n c r, incl (touched (EState n c r)) (atoms_named src_std_afix_collects n 0)) /\
  (forall n m o, incl (touched (EOrder n m o)) (atoms_named src_std_bfix_collects n m)).
Proof.
  split; intros; intros x Hx; cbn in *; tauto.
Qed.
