(* C06 -- round 4 (was: search only): aromatic_rings is a sub-list of sssr, every member is a ring all of whose bonds are aromatic *)
From Coq Require Import ZArith List Bool.
From Model Require Import PyBase Graph Rings.
From Proofs Require Import RingsProofs RingsMcb.
Import ListNotations.
Open Scope Z_scope.

Theorem aromatic_rings_subset : forall g sssr l r, aromatic_rings g sssr = Ok l -> In r l -> In r sssr /\ is_arom g r = true.
Proof. intros g sssr l r H Hr. rewrite (aromatic_rings_spec g sssr l H) in Hr. apply filter_In in Hr. exact Hr. Qed.

Theorem aromatic_rings_length : forall g sssr l, aromatic_rings g sssr = Ok l -> (length l <= length sssr)%nat.
Proof.
  intros g sssr l H. rewrite (aromatic_rings_spec g sssr l H). clear H. induction sssr as [|x t IH]; cbn [filter length]; [apply le_n|].
  destruct (is_arom g x); cbn [length]; [apply le_n_S; exact IH | apply le_S; exact IH].
Qed.
