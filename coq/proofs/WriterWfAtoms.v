(* C02, writer_wellformed, part 1: every string _format_atom / _format_bond produces is one written token the tokenizer
   accepts (the per-token half of the stream checker [stream_ok] as a theorem instead of a per-output check). *)
From Coq Require Import ZArith List String Ascii Bool Lia.
From Model Require Import PyBase Graph PeriodicTable Stereo Writer.
From Gen Require Import Elements SmilesTables.
From Proofs Require Import WriterProofs WriterProofsAtom WriterProofsTokens WriterProofsStream.
Import ListNotations.
Open Scope Z_scope.

(* ---- strings without square brackets ---- *)
Definition nb (s : string) : bool := forallb no_bracket_char (list_ascii_of_string s).

Lemma nb_app a b : nb (a ++ b) = nb a && nb b.
Proof. unfold nb. rewrite list_ascii_app. apply forallb_app. Qed.

Lemma sapp_nil_r (s : string) : (s ++ "")%string = s.
Proof. induction s as [|c s IH]; cbn; [reflexivity | rewrite IH; reflexivity]. Qed.

Lemma strip_last_bracket_app : forall b, strip_last_bracket (b ++ "]") = Some b.
Proof.
  induction b as [|c b IH]; [reflexivity|].
  cbn [String.append strip_last_bracket]. destruct (b ++ "]")%string as [|c2 r] eqn:E.
  - destruct b; discriminate E.
  - rewrite IH. reflexivity.
Qed.

Lemma nb_iso_sweep : forallb (fun i => nb (str_Z i)) (zrange 1 1000) = true.
Proof. vm_compute. reflexivity. Qed.
Lemma nb_map_sweep : forallb (fun i => nb (str_Z i)) (zrange 0 10000) = true.
Proof. vm_compute. reflexivity. Qed.
Lemma nb_sym_sweep :
  forallb (fun e => nb (e_sym e) && nb (lower_string (e_sym e)) && nonempty (e_sym e) && nonempty (lower_string (e_sym e))) elements = true.
Proof. vm_compute. reflexivity. Qed.
Lemma nb_chg_sweep : forallb (fun cs => nb (snd cs)) charge_str = true.
Proof. vm_compute. reflexivity. Qed.

Lemma zget_In {V} (l : list (Z * V)) k v : zget l k = Some v -> In (k, v) l.
Proof.
  induction l as [|[a b] l IH]; cbn [zget]; [discriminate|].
  destruct (k =? a) eqn:E; intros H.
  - apply Z.eqb_eq in E. inversion H. subst. left. reflexivity.
  - right. apply IH. exact H.
Qed.

(* bare atoms: the organic subset, and its aromatic part in lower case *)
Lemma bare_sweep :
  forallb (fun s => match atom_token s with Some (WBare u) => String.eqb u s | _ => false end) organic_set = true /\
  forallb (fun s => implb (smem (lower_string s) aromatic_bracket_symbols)
                          (match atom_token (lower_string s) with Some (WArom u) => smem u arom_bare | _ => false end)) organic_set = true.
Proof. split; vm_compute; reflexivity. Qed.

Lemma smem_In x l : smem x l = true -> In x l.
Proof.
  unfold smem. intros H. apply existsb_exists in H. destruct H as [y [Hy He]]. apply String.eqb_eq in He. subst. exact Hy.
Qed.

(* ---- the hypothesis on the atoms of the molecule: the ranges of the reader's pattern (see C02_atom_token_roundtrip) ---- *)
Definition atom_writable (g : mol) (o : opts) (n : Z) : Prop :=
  forall a, atom_of g n = Some a ->
    exists e, In e elements /\ from_number (a_num a) = Some e /\
      (o_aromatic o = true -> hybridization g n = 4 -> smem (lower_string (e_sym e)) aromatic_bracket_symbols = true) /\
      iso_in_range (a_iso a) /\ h_in_range (a_h a) /\ (o_mapping o = true -> 0 <= n <= 9999).
Definition atoms_writable (g : mol) (o : opts) : Prop := forall n, atom_writable g o n.

Lemma h_str_nb h : h_in_range h -> nb (h_str h) = true.
Proof.
  destruct h as [x|]; [|reflexivity]. cbn. intros Hx.
  assert (Hc : x = 0 \/ x = 1 \/ x = 2 \/ x = 3 \/ x = 4) by lia.
  destruct Hc as [-> | [-> | [-> | [-> | ->]]]]; reflexivity.
Qed.

Theorem format_atom_token : forall g o tabs n adj s,
  format_atom g o tabs n adj = Ok s -> atom_writable g o n ->
  exists w, atom_token s = Some w /\ wtok_ok w = true.
Proof.
  intros g o tabs n adj s Hs Hw. unfold format_atom in Hs.
  destruct (atom_fields g o tabs n adj) as [f|] eqn:Hf; [|discriminate]. inversion Hs as [Hs']. clear Hs.
  unfold atom_fields in Hf. destruct (atom_of g n) as [a|] eqn:Ha; [|discriminate].
  destruct (Hw a Ha) as [e [He [Hnum [Harom [Hiso [Hh Hmap]]]]]].
  unfold symbol_of_num in Hf. rewrite Hnum in Hf. cbn [option_map] in Hf.
  destruct (stereo_mark g o tabs n adj a) as [st|] eqn:Est; [|discriminate].
  pose proof (stereo_mark_values _ _ _ _ _ _ _ Est) as Hst.
  set (chgr := if negb (a_chg a =? 0) && o_charges o
               then match zget charge_str (a_chg a) with Some s => Ok s | None => Err KeyError end
               else Ok EmptyString) in Hf.
  destruct chgr as [chg|] eqn:Echg; [|discriminate]. subst chgr.
  set (iso := match a_iso a with Some i => if i =? 0 then EmptyString else str_Z i | None => EmptyString end) in Hf.
  set (mapping := if o_mapping o then String ":"%char (str_Z n) else EmptyString) in Hf.
  set (sym := e_sym e) in Hf.
  set (sym' := if o_aromatic o && (hybridization g n =? 4) then lower_string sym else sym) in Hf.
  set (C1 := nonempty iso || nonempty st || nonempty chg || nonempty mapping || negb (smem sym organic_set) || a_rad a || o_hydrogens o) in Hf.
  set (brh := if C1 then (true, h_str (a_h a)) else _) in Hf.
  inversion Hf as [Hf']. clear Hf.
  (* facts about the pieces *)
  pose proof nb_sym_sweep as Hsw. rewrite forallb_forall in Hsw. specialize (Hsw e He).
  apply andb_true_iff in Hsw. destruct Hsw as [Hsw Hne2]. apply andb_true_iff in Hsw. destruct Hsw as [Hsw Hne1].
  apply andb_true_iff in Hsw. destruct Hsw as [Hnb1 Hnb2].
  assert (Hsym' : nb sym' = true /\ nonempty sym' = true).
  { unfold sym'. destruct (o_aromatic o && (hybridization g n =? 4)); split; assumption. }
  destruct Hsym' as [Hnbs Hnes].
  assert (Hnbiso : nb iso = true).
  { unfold iso. destruct (a_iso a) as [i|]; [|reflexivity]. cbn in Hiso. destruct (i =? 0) eqn:E; [reflexivity|].
    apply Z.eqb_neq in E. pose proof nb_iso_sweep as H. rewrite forallb_forall in H. apply H. apply zrange_In. lia. }
  assert (Hnbst : nb st = true) by (destruct Hst as [-> | [-> | ->]]; reflexivity).
  assert (Hnbchg : nb chg = true).
  { destruct (negb (a_chg a =? 0) && o_charges o); [|inversion Echg; reflexivity].
    destruct (zget charge_str (a_chg a)) as [cs|] eqn:Ez; [|discriminate]. inversion Echg. subst cs.
    pose proof nb_chg_sweep as H. rewrite forallb_forall in H. apply (H (a_chg a, chg)). apply zget_In. exact Ez. }
  assert (Hnbmap : nb mapping = true).
  { unfold mapping. destruct (o_mapping o) eqn:Em; [|reflexivity]. specialize (Hmap eq_refl).
    change (String ":"%char (str_Z n)) with (":" ++ str_Z n)%string. rewrite nb_app. cbn [andb].
    replace (nb ":") with true by reflexivity. cbn [andb].
    pose proof nb_map_sweep as H. rewrite forallb_forall in H. apply H. apply zrange_In. lia. }
  (* bracket or not *)
  assert (Hcase : (fst brh = true /\ nb (snd brh) = true) \/ (brh = (false, EmptyString) /\ C1 = false)).
  { unfold brh. destruct C1.
    - left. split; [reflexivity | apply h_str_nb; exact Hh].
    - repeat match goal with |- context [if ?c then (true, ?x) else _] => destruct c end;
        try (left; split; [reflexivity | cbn [snd]; try reflexivity; apply h_str_nb; exact Hh]).
      right. split; reflexivity. }
  destruct Hcase as [[Hbr Hnbh] | [Hbr HC1]].
  - (* written in brackets *)
    exists (WBracket (iso ++ sym' ++ st ++ snd brh ++ chg ++ mapping)%string). split.
    + try subst s. try subst f. unfold spell_atom. cbn [af_br af_iso af_sym af_st af_h af_chg af_map]. rewrite Hbr.
      unfold scat. cbn [String.concat]. cbn [String.append].
      unfold atom_token.
      replace (iso ++ sym' ++ st ++ snd brh ++ chg ++ mapping ++ "]")%string
        with ((iso ++ sym' ++ st ++ snd brh ++ chg ++ mapping) ++ "]")%string
        by (repeat rewrite sapp_assoc; reflexivity).
      rewrite strip_last_bracket_app. reflexivity.
    + cbn [wtok_ok].
      destruct (iso ++ sym' ++ st ++ snd brh ++ chg ++ mapping)%string as [|c0 r0] eqn:Eb.
      * exfalso. destruct iso; [|discriminate Eb]. cbn [String.append] in Eb. destruct sym'; [discriminate Hnes | discriminate Eb].
      * rewrite <- Eb. change (nb (iso ++ sym' ++ st ++ snd brh ++ chg ++ mapping) = true).
        repeat rewrite nb_app. rewrite Hnbiso, Hnbs, Hnbst, Hnbh, Hnbchg, Hnbmap. reflexivity.
  - (* written bare: everything else is empty and the symbol is in the organic subset *)
    unfold C1 in HC1. repeat (apply orb_false_iff in HC1; destruct HC1 as [HC1 ?]).
    assert (Hiso0 : iso = EmptyString) by (destruct iso; [reflexivity | discriminate]).
    assert (Hst0 : st = EmptyString) by (destruct st; [reflexivity | discriminate]).
    assert (Hchg0 : chg = EmptyString) by (destruct chg; [reflexivity | discriminate]).
    assert (Hmap0 : mapping = EmptyString) by (destruct mapping; [reflexivity | discriminate]).
    assert (Horg : smem sym organic_set = true) by (apply negb_false_iff; assumption).
    assert (Hs_eq : spell_atom (mkAF (fst brh) iso sym' st (snd brh) chg mapping) = sym').
    { unfold spell_atom. cbn [af_br af_iso af_sym af_st af_h af_chg af_map]. rewrite Hbr. cbn [fst snd].
      rewrite Hiso0, Hst0, Hchg0, Hmap0. unfold scat. cbn [String.concat]. cbn [String.append]. apply sapp_nil_r. }
    try subst s. try subst f. rewrite Hs_eq. destruct bare_sweep as [B1 B2]. rewrite forallb_forall in B1, B2.
    pose proof (smem_In _ _ Horg) as Hin.
    unfold sym'. destruct (o_aromatic o && (hybridization g n =? 4)) eqn:Ear.
    + apply andb_true_iff in Ear. destruct Ear as [E1 E2]. apply Z.eqb_eq in E2.
      specialize (Harom E1 E2). specialize (B2 sym Hin). fold sym in Harom. rewrite Harom in B2. cbn [implb] in B2.
      destruct (atom_token (lower_string sym)) as [[u|u|b0|o0|u0|c0| | | ]|]; try discriminate.
      exists (WArom u). split; [reflexivity | exact B2].
    + specialize (B1 sym Hin). destruct (atom_token sym) as [[u|u|b0|o0|u0|c0| | | ]|]; try discriminate.
      apply String.eqb_eq in B1. subst u. exists (WBare sym). split; [reflexivity | exact Horg].
Qed.

(* ---- bonds: whatever _format_bond returns is one of the eight bond spellings ---- *)
Theorem format_bond_token : forall g o ctm n m s, format_bond g o ctm n m = Ok s ->
  exists ts, bond_token s = Some ts /\ forallb wtok_ok ts = true /\ forallb after_open_ok ts = true.
Proof.
  intros g o ctm n m s H. unfold format_bond in H.
  assert (Hs : In s [""; "-"; "="; "#"; ":"; "~"; "/"; "\"]%string).
  { destruct (negb (o_bonds o)); [inversion H; cbn; auto 12|].
    destruct (bond_of g n m) as [b|]; [|discriminate].
    repeat match type of H with
    | (if ?c then _ else _) = _ => destruct c
    | (match ?x with _ => _ end) = _ => destruct x
    end; inversion H; cbn;
    repeat match goal with |- context [if ?c then _ else _] => destruct c end; auto 12. }
  cbn [In] in Hs.
  repeat (destruct Hs as [<- | Hs]; [eexists; split; [reflexivity | split; reflexivity]|]). destruct Hs.
Qed.
