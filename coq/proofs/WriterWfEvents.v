(* C02, writer_wellformed, part 5: the closure lists of ANY traversal satisfy wf_events (hypothesis of
   C02_closure_numbers_consistent), given that the flattened token list mentions no ring atom twice. *)
From Coq Require Import ZArith List Bool Lia Permutation.
From Model Require Import PyBase Graph Writer.
From Proofs Require Import WriterProofsClosures WriterWfAtoms WriterWfStream WriterWfDfs.
Import ListNotations.
Open Scope Z_scope.

Section SortPerm.
  Context {A : Type} (key : A -> list Z).
  Lemma insert_first_perm x : forall l, Permutation (insert_first key x l) (x :: l).
  Proof.
    induction l as [|y l IH]; cbn [insert_first]; [apply Permutation_refl|].
    destruct (zlist_ltb (key y) (key x)); [|apply Permutation_refl].
    eapply Permutation_trans; [apply perm_skip; exact IH | apply perm_swap].
  Qed.
  Lemma sort_by_perm : forall l, Permutation (sort_by key l) l.
  Proof.
    induction l as [|x l IH]; unfold sort_by in *; cbn [fold_right]; [apply Permutation_refl|].
    eapply Permutation_trans; [apply insert_first_perm | apply perm_skip; exact IH].
  Qed.
End SortPerm.

Lemma count_perm (l l' : list Z) c : Permutation l l' -> count_occ Z.eq_dec l c = count_occ Z.eq_dec l' c.
Proof. intros H. induction H; cbn [count_occ]; try destruct (Z.eq_dec _ c); try destruct (Z.eq_dec _ c); congruence. Qed.

Lemma sum_zero (f : Z -> nat) : (forall a, f a = O) -> forall L, fold_right (fun a acc => (f a + acc)%nat) O L = O.
Proof. intros H. induction L as [|a L IH]; cbn [fold_right]; [reflexivity | rewrite H, IH; reflexivity]. Qed.

Theorem traverse_wf_events : forall g w tb o all st t, loop_free g -> adj_sym g ->
  traverse g w tb o all st = Ok t ->
  forall smi open seen,
    let tokens := ds_tokens (tr_dfs t) in
    let ro := ring_positions tokens smi 0 in
    NoDup (map fst ro) -> (forall c, In c open -> In c seen) -> (forall c, In c seen -> c <= ws_cycle st) ->
    wf_events open seen (map (fun a => map snd (atom_closures tokens ro (fst a))) ro).
Proof.
  intros g w tb o all st t Hl Hs Ht smi open seen tokens ro Hnd Hos Hseen.
  pose proof (traverse_DI g w tb o all st t Hl Hs Ht) as I. fold tokens in I.
  set (f := fun a : Z => map snd (atom_closures tokens ro a)).
  assert (Hperm : forall a, Permutation (f a) (cyc tokens a)).
  { intros a. unfold f, cyc, atom_closures. apply Permutation_map. apply sort_by_perm. }
  assert (Hfn : forall a, NoDup (f a)).
  { intros a. apply (Permutation_NoDup (Permutation_sym (Hperm a))). apply (di_nodup _ _ _ I a). }
  replace (map (fun a : Z * Z => map snd (atom_closures tokens ro (fst a))) ro) with (map f (map fst ro))
    by (rewrite map_map; reflexivity).
  apply wf_events_of_counts.
  - apply Forall_forall. intros cs Hcs. apply in_map_iff in Hcs. destruct Hcs as [a [<- _]]. apply Hfn.
  - exact Hos.
  - intros c. rewrite count_concat_map.
    destruct (di_pair _ _ _ I c) as [Hno | [p [ch [Hd Hiff]]]].
    + rewrite (sum_zero (fun a => count_occ Z.eq_dec (f a) c)).
      * unfold status. destruct (in_dec Z.eq_dec c open); [lia|]. destruct (in_dec Z.eq_dec c seen); lia.
      * intros a. apply count_occ_not_In. intros Hin. apply (Hno a). apply (Permutation_in c (Hperm a) Hin).
    + assert (Hst : status open seen c = O).
      { assert (Hns : ~ In c seen).
        { intros Hin. assert (Hp : In c (cyc tokens p)) by (apply Hiff; left; reflexivity).
          unfold cyc in Hp. apply in_map_iff in Hp. destruct Hp as [[m c'] [E Hm]]. cbn in E. subst c'.
          destruct (di_tok _ _ _ I p m c Hm) as [_ Hb]. specialize (Hseen c Hin). lia. }
        unfold status. destruct (in_dec Z.eq_dec c open) as [Ho | _]; [exfalso; exact (Hns (Hos c Ho))|].
        destruct (in_dec Z.eq_dec c seen); [contradiction | reflexivity]. }
      rewrite Hst.
      pose proof (count_two f c p ch Hfn) as H2.
      assert (Hin : forall a, In c (f a) -> a = p \/ a = ch).
      { intros a Ha. apply Hiff. apply (Permutation_in c (Hperm a) Ha). }
      specialize (H2 Hin (map fst ro) Hnd).
      destruct (in_dec Z.eq_dec p (map fst ro)); destruct (in_dec Z.eq_dec ch (map fst ro)); destruct (Z.eq_dec p ch); lia.
Qed.
