(* C09 -- the public call since d9d8bf3 (second guard statement: ring sizes above 65 send the call to the reference path).
   The two public calls agree WITHOUT an upper bound on the ring sizes: inputs with a ring size above 65, in the molecule or in a
   non-AnyMetal query atom, take the reference path under both flags; all others satisfy the old hypotheses. *)
From Coq Require Import ZArith List Bool Lia.
From Model Require Import PyBase PeriodicTable IsoBits IsoBitsExt IsoBitsFuel IsoBitsGuard.
From Model Require Iso.
From Proofs Require Import IsoBitsProofs IsoBitsSearchProofs IsoBitsExtProofs IsoBitsFuelProofs IsoBitsRangeProofs.
Import ListNotations.
Open Scope Z_scope.

Lemma cap_rings_id l : existsb (fun r => 65 <? r) l = false -> cap_rings l = l.
Proof.
  unfold cap_rings. induction l as [|r l IH]; intros H; [reflexivity|].
  cbn [existsb] in H. apply orb_false_iff in H. destruct H as [H1 H2]. cbn [map]. rewrite IH by exact H2.
  apply Z.ltb_ge in H1. rewrite Z.min_l by exact H1. reflexivity.
Qed.

Lemma cap_mol_id rm : big_ring_mol rm = false -> cap_mol rm = rm.
Proof.
  unfold big_ring_mol, cap_mol. induction rm as [|a rm IH]; intros H; [reflexivity|].
  cbn [existsb] in H. apply orb_false_iff in H. destruct H as [H1 H2]. cbn [map]. rewrite IH by exact H2.
  unfold cap_atom. rewrite cap_rings_id by exact H1. destruct a as [n [? ? ? ? ? ? ? ? ?] nb]. reflexivity.
Qed.

Lemma cap_q_id q : negb (is_metal_q q) && existsb (fun r => 65 <? r) (qa_rings q) = false -> cap_q q = q.
Proof.
  destruct q as [n i x|x|l x|a b]; cbn [is_metal_q negb andb qa_rings cap_q]; intros H; try reflexivity;
    unfold cap_x; rewrite cap_rings_id by exact H; destruct x; reflexivity.
Qed.

Lemma cap_comps_id comps : big_ring_query comps = false -> cap_comps comps = comps.
Proof.
  unfold big_ring_query, cap_comps. induction comps as [|rq comps IH]; intros H; [reflexivity|].
  cbn [existsb] in H. apply orb_false_iff in H. destruct H as [H1 H2]. cbn [map]. rewrite IH by exact H2. f_equal.
  clear IH H2. induction rq as [|e rq IHr]; [reflexivity|].
  cbn [existsb] in H1. apply orb_false_iff in H1. destruct H1 as [He Hr]. cbn [map]. rewrite IHr by exact Hr.
  rewrite cap_q_id by exact He. destruct e. reflexivity.
Qed.

Lemma uses_mask_path2_false comps rm : uses_mask_path2 false comps rm = false.
Proof. reflexivity. Qed.

Lemma uses_mask_path2_true comps rm : uses_mask_path2 true comps rm = true ->
  has_unknown_h rm = false /\ big_ring_mol rm = false /\ big_ring_query comps = false.
Proof.
  unfold uses_mask_path2. cbn [andb]. intros H. apply andb_true_iff in H. destruct H as [H1 H2].
  apply negb_true_iff in H1, H2. apply orb_false_iff in H2. tauto.
Qed.

(* THE TWO PUBLIC CALLS since d9d8bf3.  Hypotheses: the query components and the molecule WITH RING SIZES ABOVE 65 REPLACED BY 65
   (cap_comps / cap_mol) are well formed and inside the representable range - i.e. everything the old theorem asked for except the
   upper bound 65 of the ring sizes, which the second guard statement now discharges. *)
Theorem public_get_mapping2_equiv stereo_ok comps rm tcomps flt scope fuel :
  Forall (fun rq => rq <> [] /\ wf_query rq /\ in_range_pair rq (cap_mol rm)) (cap_comps comps) ->
  (has_unknown_h rm = false -> wf_mol (cap_mol rm)) ->
  public_get_mapping2 stereo_ok true comps rm tcomps flt scope fuel =
  public_get_mapping2 stereo_ok false comps rm tcomps flt scope fuel.
Proof.
  intros Hc Hm. unfold public_get_mapping2. rewrite uses_mask_path2_false.
  destruct (uses_mask_path2 true comps rm) eqn:E; [|reflexivity].
  destruct (uses_mask_path2_true comps rm E) as [Hh [Hb1 Hb2]].
  rewrite (cap_mol_id rm Hb1) in Hc, Hm. rewrite (cap_comps_id comps Hb2) in Hc.
  apply public_get_mapping_equiv; assumption.
Qed.

(* a ring size above 65 anywhere: both flags are the reference path, no hypothesis at all *)
Theorem big_ring_takes_reference_path stereo_ok cython comps rm tcomps flt scope fuel :
  big_ring_mol rm || big_ring_query comps = true ->
  uses_mask_path2 cython comps rm = false /\
  public_get_mapping2 stereo_ok cython comps rm tcomps flt scope fuel = public_get_mapping stereo_ok false comps rm tcomps flt scope fuel.
Proof.
  intros H. assert (E : uses_mask_path2 cython comps rm = false).
  { unfold uses_mask_path2. rewrite H. cbn [negb]. apply andb_false_r. }
  split; [exact E|]. unfold public_get_mapping2. rewrite E. reflexivity.
Qed.

Theorem public_get_mapping2_equiv_fuel_free stereo_ok comps rm tcomps flt scope f1 f2 :
  Forall (fun rq => rq <> [] /\ wf_query rq /\ in_range_pair rq (cap_mol rm)) (cap_comps comps) ->
  (has_unknown_h rm = false -> wf_mol (cap_mol rm)) ->
  (public_fuel comps rm <= f1)%nat -> (public_fuel comps rm <= f2)%nat ->
  public_get_mapping2 stereo_ok true comps rm tcomps flt scope f1 =
  public_get_mapping2 stereo_ok false comps rm tcomps flt scope f2.
Proof.
  intros Hc Hm H1 H2. rewrite (public_get_mapping2_equiv stereo_ok comps rm tcomps flt scope f1 Hc Hm).
  unfold public_get_mapping2. apply public_get_mapping_fuel_irrelevant; assumption.
Qed.

(* non-vacuity, the repaired witnesses: [C;!R] against an atom of a 66-ring and [C;r66] against a chain atom - the hypotheses hold,
   the guard sends both flags to the reference path, and both public calls yield nothing (the component call alone still differs:
   ring_size_above_65_refuted) *)
Definition br_rm : list ratom := [mkRA 1 (set_rings (mkLA 6 None 0 false 0 1 (Some 4) 0 []) [66]) []].
Definition br_comps : list (list rqent) := [[mkRQ 1 0 (QElem 6 None (no_x [0])) None []]].
Definition br_rm2 : list ratom := [mkRA 1 (mkLA 6 None 0 false 0 1 (Some 4) 0 []) []].
Definition br_comps2 : list (list rqent) := [[mkRQ 1 0 (QElem 6 None (no_x [66])) None []]].
Theorem public_get_mapping2_example :
  public_hyps_ok (cap_comps br_comps) (cap_mol br_rm) = true /\ uses_mask_path2 true br_comps br_rm = false /\
  public_get_mapping2 (fun _ => true) true br_comps br_rm [[1]] true None 10 = [] /\
  public_get_mapping2 (fun _ => true) false br_comps br_rm [[1]] true None 10 = [] /\
  public_get_mapping (fun _ => true) true br_comps br_rm [[1]] true None 10 = [[(1, 1)]] /\
  public_hyps_ok (cap_comps br_comps2) (cap_mol br_rm2) = true /\ uses_mask_path2 true br_comps2 br_rm2 = false /\
  public_get_mapping2 (fun _ => true) true br_comps2 br_rm2 [[1]] true None 10 = [] /\
  public_get_mapping (fun _ => true) true br_comps2 br_rm2 [[1]] true None 10 = [[(1, 1)]] /\
  uses_mask_path2 true ex2_comps ex2_rm = true /\
  public_get_mapping2 (fun _ => true) true ex2_comps ex2_rm [[1; 2]; [3]] true None 100 = [[(1, 3); (2, 2)]].
Proof. vm_compute. repeat split; reflexivity. Qed.

(* the hypotheses as one boolean *)
Theorem public_get_mapping2_equiv_b stereo_ok comps rm tcomps flt scope fuel :
  public_hyps_ok (cap_comps comps) (cap_mol rm) = true ->
  public_get_mapping2 stereo_ok true comps rm tcomps flt scope fuel =
  public_get_mapping2 stereo_ok false comps rm tcomps flt scope fuel.
Proof.
  intros H. unfold public_get_mapping2. rewrite uses_mask_path2_false.
  destruct (uses_mask_path2 true comps rm) eqn:E; [|reflexivity].
  destruct (uses_mask_path2_true comps rm E) as [Hh [Hb1 Hb2]].
  rewrite (cap_mol_id rm Hb1), (cap_comps_id comps Hb2) in H.
  apply public_get_mapping_equiv_b. exact H.
Qed.
