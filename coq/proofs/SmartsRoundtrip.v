(* C08 -- query_roundtrip: printing a parsed bracket body in the documented canonical form
     [isotope]elements[@|@@][charge];D..;h..;r..|!R;x..;z..|a;M:map
   and parsing it back with the model of _query_parse gives the same record, for EVERY record of the documented subset
   (predicate canonical): induction over the digit strings, the four scans over clean prefixes, the OR lists. *)
From Coq Require Import ZArith List String Ascii Bool Lia.
From Gen Require Import Elements TokenTables SmartsTables.
From Model Require Import PyBase Graph PeriodicTable Tokenize Smarts Query.
Import ListNotations.
Open Scope Z_scope.

Definition hstep (acc : Z) (c : ascii) : Z := acc * 10 + digit_val c.

Lemma digit_char_ok d : 0 <= d <= 9 -> is_digit (digit_char d) = true /\ digit_val (digit_char d) = d.
Proof.
  intros H. assert (C : d = 0 \/ d = 1 \/ d = 2 \/ d = 3 \/ d = 4 \/ d = 5 \/ d = 6 \/ d = 7 \/ d = 8 \/ d = 9) by lia.
  destruct C as [->|[->|[->|[->|[->|[->|[->|[->|[->| ->]]]]]]]]]; vm_compute; split; reflexivity.
Qed.

Lemma fold_hstep_app ds c a0 : fold_left hstep (ds ++ [c]) a0 = fold_left hstep ds a0 * 10 + digit_val c.
Proof. rewrite fold_left_app. reflexivity. Qed.

Lemma digits_fuel_S k n acc : digits_fuel (S k) n acc =
  if n <? 10 then digit_char (n mod 10) :: acc else digits_fuel k (n / 10) (digit_char (n mod 10) :: acc).
Proof. reflexivity. Qed.

Lemma digits_fuel_spec k : forall n acc, 0 <= n < 10 * 2 ^ Z.of_nat k ->
  exists ds, digits_fuel (S k) n acc = (ds ++ acc)%list /\ forallb is_digit ds = true /\ ds <> [] /\
             (forall a0, fold_left hstep ds a0 = a0 * 10 ^ Z.of_nat (List.length ds) + n) /\
             (1 <= n -> exists c r, ds = c :: r /\ ceq c "0" = false).
Proof.
  induction k as [|k IH]; intros n acc Hn; rewrite digits_fuel_S; (destruct (n <? 10) eqn:E; [apply Z.ltb_lt in E|apply Z.ltb_ge in E]).
  1,3: (assert (Hm : n mod 10 = n) by (apply Z.mod_small; lia); rewrite Hm;
      destruct (digit_char_ok n ltac:(lia)) as [D1 D2];
      exists [digit_char n]; split; [reflexivity|]; split; [cbn; rewrite D1; reflexivity|]; split; [discriminate|]; split;
      [intros a0; cbn; unfold hstep; rewrite D2; lia
      |intros H1; exists (digit_char n), []; split; [reflexivity|];
        assert (C : n = 1 \/ n = 2 \/ n = 3 \/ n = 4 \/ n = 5 \/ n = 6 \/ n = 7 \/ n = 8 \/ n = 9) by lia;
        destruct C as [->|[->|[->|[->|[->|[->|[->|[->| ->]]]]]]]]; vm_compute; reflexivity]).
  - cbn in Hn. lia.
  - assert (Hq : 0 <= n / 10 < 10 * 2 ^ Z.of_nat k).
    { split; [apply Z.div_pos; lia|]. rewrite Nat2Z.inj_succ, Z.pow_succ_r in Hn by lia.
      assert (0 < 2 ^ Z.of_nat k) by (apply Z.pow_pos_nonneg; lia).
      apply Z.div_lt_upper_bound; lia. }
    destruct (IH (n / 10) (digit_char (n mod 10) :: acc) Hq) as [ds [E1 [E2 [E3 [E4 E5]]]]].
    pose proof (Z.mod_pos_bound n 10 ltac:(lia)) as Hm.
    destruct (digit_char_ok (n mod 10) ltac:(lia)) as [D1 D2].
    exists (ds ++ [digit_char (n mod 10)])%list. split; [rewrite E1, <- app_assoc; reflexivity|].
    split; [rewrite forallb_app, E2; cbn; rewrite D1; reflexivity|].
    split; [destruct ds; discriminate|]. split.
    + intros a0. rewrite fold_hstep_app, E4, D2, app_length. cbn [List.length].
      rewrite Nat.add_1_r, Nat2Z.inj_succ, Z.pow_succ_r by lia.
      pose proof (Z.div_mod n 10 ltac:(lia)). lia.
    + intros _. assert (H1 : 1 <= n / 10) by (apply Z.div_le_lower_bound; lia).
      destruct (E5 H1) as [c [r [-> Hc]]]. exists c, (r ++ [digit_char (n mod 10)])%list. split; [reflexivity | exact Hc].
Qed.

Lemma spell_nat_spec n : 0 <= n ->
  forallb is_digit (spell_nat n) = true /\ spell_nat n <> [] /\ horner (spell_nat n) = n /\
  (1 <= n -> exists c r, spell_nat n = c :: r /\ ceq c "0" = false).
Proof.
  intros H. unfold spell_nat.
  assert (Hb : 0 <= n < 10 * 2 ^ Z.of_nat (Z.to_nat (Z.log2 n))).
  { split; [exact H|]. rewrite Z2Nat.id by apply Z.log2_nonneg.
    destruct (Z.eq_dec n 0) as [->|Hn]; [cbn; lia|].
    pose proof (Z.log2_spec n ltac:(lia)) as L. rewrite Z.pow_succ_r in L by apply Z.log2_nonneg. lia. }
  destruct (digits_fuel_spec _ n [] Hb) as [ds [E1 [E2 [E3 [E4 E5]]]]].
  rewrite app_nil_r in E1. rewrite E1. split; [exact E2|]. split; [exact E3|]. split; [|exact E5].
  unfold horner. change (fun acc c => acc * 10 + digit_val c) with hstep. rewrite E4. lia.
Qed.

Lemma int_body_digits ds : forall acc prev, forallb is_digit ds = true -> (ds <> [] \/ prev = true) ->
  int_body ds acc prev = Some (fold_left hstep ds acc).
Proof.
  induction ds as [|c r IH]; intros acc prev Hd Hn.
  - destruct Hn as [Hn| ->]; [congruence | reflexivity].
  - cbn in Hd. apply andb_true_iff in Hd. destruct Hd as [Hc Hr]. cbn [int_body]. rewrite Hc.
    cbn [fold_left]. apply IH; [exact Hr | right; reflexivity].
Qed.

Lemma py_int_spell n : 0 <= n -> py_int (spell_nat n) = Some n.
Proof.
  intros H. destruct (spell_nat_spec n H) as [S1 [S2 [S3 _]]].
  destruct (spell_nat n) as [|c r] eqn:E; [congruence|].
  assert (Hc : is_digit c = true) by (cbn in S1; apply andb_true_iff in S1; tauto).
  unfold py_int.
  assert (G : int_body (c :: r) 0 false = Some n).
  { rewrite int_body_digits; [|exact S1 | left; discriminate]. unfold horner in S3.
    change (fun acc c => acc * 10 + digit_val c) with hstep in S3. rewrite S3. reflexivity. }
  destruct c as [[] [] [] [] [] [] [] []]; try exact G; vm_compute in Hc; discriminate.
Qed.

(* ---------------------------------------------------------------- scans over a prefix without trigger characters *)
Definition clean (f : ascii -> bool) (l : str) : Prop := forallb (fun c => negb (f c)) l = true.
Lemma clean_app f a b : clean f (a ++ b) <-> clean f a /\ clean f b.
Proof. unfold clean. rewrite forallb_app, andb_true_iff. tauto. Qed.
Lemma clean_cons f c l : clean f (c :: l) <-> f c = false /\ clean f l.
Proof. unfold clean. cbn. rewrite andb_true_iff, negb_true_iff. tauto. Qed.
Lemma clean_nil f : clean f []. Proof. reflexivity. Qed.

Lemma span_digits ds r : forallb is_digit ds = true -> match r with [] => True | c :: _ => is_digit c = false end ->
  span is_digit (ds ++ r) = (ds, r).
Proof.
  intros Hd Hr. induction ds as [|c ds IH]; cbn.
  - destruct r as [|c r]; [reflexivity|]. cbn. rewrite Hr. reflexivity.
  - cbn in Hd. apply andb_true_iff in Hd. destruct Hd as [Hc Hd]. rewrite Hc, (IH Hd). reflexivity.
Qed.

Lemma chg_search_prefix a r : clean is_sign a ->
  chg_search (a ++ r) = match chg_search r with Some (x, g, y) => Some ((a ++ x)%list, g, y) | None => None end.
Proof.
  induction a as [|c a IH]; intros H; cbn [app].
  - destruct (chg_search r) as [[[x g] y]|]; reflexivity.
  - apply clean_cons in H. destruct H as [Hc Ha]. cbn [chg_search]. rewrite Hc, (IH Ha).
    destruct (chg_search r) as [[[x g] y]|]; reflexivity.
Qed.
Lemma chg_search_none a : clean is_sign a -> chg_search a = None.
Proof. intros H. rewrite <- (app_nil_r a), chg_search_prefix by exact H. reflexivity. Qed.

Definition is_colon (c : ascii) : bool := ceq c ":".
Lemma mpp_search_prefix a r : clean is_colon a ->
  mpp_search (a ++ r) = match mpp_search r with Some (x, d) => Some ((a ++ x)%list, d) | None => None end.
Proof.
  induction a as [|c a IH]; intros H; cbn [app].
  - destruct (mpp_search r) as [[x d]|]; reflexivity.
  - apply clean_cons in H. destruct H as [Hc Ha]. cbn [mpp_search]. unfold is_colon in Hc. rewrite Hc, (IH Ha). cbn [andb].
    destruct (mpp_search r) as [[x d]|]; reflexivity.
Qed.
Lemma mpp_search_none a : clean is_colon a -> mpp_search a = None.
Proof. intros H. rewrite <- (app_nil_r a), mpp_search_prefix by exact H. reflexivity. Qed.

Definition is_at (c : ascii) : bool := ceq c "@".
Lemma str_search_prefix a r : clean is_at a ->
  str_search (a ++ r) = match str_search r with Some (x, g, y) => Some ((a ++ x)%list, g, y) | None => None end.
Proof.
  induction a as [|c a IH]; intros H; cbn [app].
  - destruct (str_search r) as [[[x g] y]|]; reflexivity.
  - apply clean_cons in H. destruct H as [Hc Ha]. cbn [str_search]. unfold is_at in Hc. rewrite Hc, (IH Ha).
    destruct (str_search r) as [[[x g] y]|]; reflexivity.
Qed.
Lemma str_search_none a : clean is_at a -> str_search a = None.
Proof. intros H. rewrite <- (app_nil_r a), str_search_prefix by exact H. reflexivity. Qed.

Lemma split_on_nonempty sep l : split_on sep l <> [].
Proof.
  induction l as [|c r IH]; cbn; [discriminate|].
  destruct (split_on sep r) as [|p ps]; [discriminate|]. destruct (ceq c sep); discriminate.
Qed.
Lemma split_on_prefix sep a r : clean (fun c => ceq c sep) a ->
  split_on sep (a ++ r) = match split_on sep r with p :: ps => (a ++ p)%list :: ps | [] => [] end.
Proof.
  induction a as [|c a IH]; intros H; cbn [app].
  - destruct (split_on sep r) eqn:E; [exfalso; eapply split_on_nonempty; eauto | reflexivity].
  - apply clean_cons in H. destruct H as [Hc Ha]. cbn [split_on]. rewrite (IH Ha).
    destruct (split_on sep r) as [|p ps] eqn:E; [exfalso; eapply split_on_nonempty; eauto|]. rewrite Hc. reflexivity.
Qed.
Lemma split_on_clean sep a : clean (fun c => ceq c sep) a -> split_on sep a = [a].
Proof. intros H. rewrite <- (app_nil_r a) at 1. rewrite split_on_prefix by exact H. cbn. rewrite app_nil_r. reflexivity. Qed.
Lemma split_on_sep sep a r : clean (fun c => ceq c sep) a -> split_on sep (a ++ sep :: r) = a :: split_on sep r.
Proof.
  intros H. rewrite split_on_prefix by exact H. cbn [split_on].
  destruct (split_on sep r) as [|p ps] eqn:E; [exfalso; eapply split_on_nonempty; eauto|].
  unfold ceq at 1. rewrite Ascii.eqb_refl. rewrite app_nil_r. reflexivity.
Qed.
Lemma split_join sep xs : xs <> [] -> Forall (clean (fun c => ceq c sep)) xs -> split_on sep (join sep xs) = xs.
Proof.
  induction xs as [|x r IH]; intros Hn Hc; [congruence|].
  inversion Hc as [|? ? Hx Hr]; subst. destruct r as [|y r'].
  - cbn. apply split_on_clean. exact Hx.
  - change (join sep (x :: y :: r')) with (x ++ sep :: join sep (y :: r'))%list.
    rewrite split_on_sep by exact Hx. rewrite IH; [reflexivity | discriminate | exact Hr].
Qed.
Lemma split_flat sep a ps : clean (fun c => ceq c sep) a -> Forall (clean (fun c => ceq c sep)) ps ->
  split_on sep (a ++ flat_map (fun s => sep :: s) ps) = a :: ps.
Proof.
  revert a. induction ps as [|p r IH]; intros a Ha Hp; cbn [flat_map].
  - rewrite app_nil_r. apply split_on_clean. exact Ha.
  - inversion Hp; subst. cbn [app]. rewrite split_on_sep by exact Ha. rewrite IH by assumption. reflexivity.
Qed.

(* ---------------------------------------------------------------- character classes of the spelled pieces *)
Definition is_semi (c : ascii) : bool := ceq c ";".
Definition is_comma (c : ascii) : bool := ceq c ",".
Definition safe (c : ascii) : bool := negb (is_sign c || is_colon c || is_at c || is_semi c).
Definition safe2 (c : ascii) : bool := safe c && negb (is_comma c).
Definition is_alpha (c : ascii) : bool := ((65 <=? ch c)%N && (ch c <=? 90)%N) || ((97 <=? ch c)%N && (ch c <=? 122)%N).

Lemma digit_facts c : is_digit c = true -> safe2 c = true.
Proof. destruct c as [[] [] [] [] [] [] [] []]; vm_compute; intros; try reflexivity; discriminate. Qed.
Lemma alpha_facts c : is_alpha c = true -> safe2 c = true /\ is_digit c = false /\ ceq c "#" = false.
Proof. destruct c as [[] [] [] [] [] [] [] []]; vm_compute; intros; try (repeat split; reflexivity); discriminate. Qed.

Lemma forallb_imp {A} (f g : A -> bool) l : (forall x, f x = true -> g x = true) -> forallb f l = true -> forallb g l = true.
Proof. intros H. induction l; cbn; [auto|]. rewrite !andb_true_iff. intros [H1 H2]. split; auto. Qed.

Lemma safe_clean l : forallb safe l = true -> clean is_sign l /\ clean is_colon l /\ clean is_at l /\ clean is_semi l.
Proof.
  intros H. unfold clean. repeat split; (eapply forallb_imp; [|exact H]); intros c; unfold safe;
    destruct (is_sign c), (is_colon c), (is_at c), (is_semi c); cbn; congruence.
Qed.
Lemma safe2_safe l : forallb safe2 l = true -> forallb safe l = true /\ clean is_comma l.
Proof.
  intros H. split; [|unfold clean]; (eapply forallb_imp; [|exact H]); intros c; unfold safe2; destruct (safe c), (is_comma c); cbn; congruence.
Qed.

Lemma spell_nat_safe2 n : 0 <= n -> forallb safe2 (spell_nat n) = true.
Proof. intros H. destruct (spell_nat_spec n H) as [S1 _]. eapply forallb_imp; [|exact S1]. apply digit_facts. Qed.

(* ---------------------------------------------------------------- elements *)
Definition elt_ok (e : elt) : Prop := match e with ENum n => 0 <= n | ESym s => s <> [] /\ forallb is_alpha s = true end.

Lemma spell_elt_facts e : elt_ok e ->
  forallb safe2 (spell_elt e) = true /\ parse_elt (spell_elt e) = Ok e /\
  exists c r, spell_elt e = c :: r /\ is_digit c = false.
Proof.
  destruct e as [n|s]; cbn [elt_ok spell_elt].
  - intros H. split; [cbn [forallb]; rewrite spell_nat_safe2 by exact H; reflexivity|]. split.
    + change (parse_elt ("#"%char :: spell_nat n)) with (match py_int (spell_nat n) with Some n0 => Ok (ENum n0) | None => Err ValueError end).
      rewrite py_int_spell by exact H. reflexivity.
    + exists "#"%char, (spell_nat n). split; reflexivity.
  - intros [Hn Ha]. destruct s as [|c r]; [congruence|]. cbn in Ha. apply andb_true_iff in Ha. destruct Ha as [Hc Hr].
    destruct (alpha_facts c Hc) as [F1 [F2 F3]]. split.
    + cbn. rewrite F1. eapply forallb_imp; [|exact Hr]. intros x Hx. apply (alpha_facts x Hx).
    + split; [|exists c, r; split; [reflexivity | exact F2]].
      unfold parse_elt. clear - F3. destruct c as [[] [] [] [] [] [] [] []]; try reflexivity. vm_compute in F3. discriminate.
Qed.

Lemma map_res_ok {A B} (f : A -> pyres B) (g : B -> A) l : (forall y, In y l -> f (g y) = Ok y) -> map_res f (map g l) = Ok l.
Proof.
  induction l as [|y r IH]; intros H; cbn; [reflexivity|].
  rewrite (H y (or_introl eq_refl)), IH; [reflexivity|]. intros z Hz. apply H. right. exact Hz.
Qed.

Lemma join_safe sep xs : Forall (fun x => forallb safe x = true) xs -> safe sep = true -> forallb safe (join sep xs) = true.
Proof.
  intros H Hs. induction H as [|x r Hx Hr IH]; [reflexivity|]. destruct r as [|y r'].
  - exact Hx.
  - change (join sep (x :: y :: r')) with (x ++ sep :: join sep (y :: r'))%list. rewrite forallb_app, Hx. cbn [forallb andb]. rewrite Hs. exact IH.
Qed.

Lemma elements_facts els : els <> [] -> Forall elt_ok els ->
  let E := join "," (map spell_elt els) in
  forallb safe E = true /\ split_on "," E = map spell_elt els /\ map_res parse_elt (map spell_elt els) = Ok els /\
  exists c r, E = c :: r /\ is_digit c = false.
Proof.
  intros Hn Hok E.
  assert (F : Forall (fun x => forallb safe2 x = true) (map spell_elt els)).
  { apply Forall_map. eapply Forall_impl; [|exact Hok]. intros e He. apply (spell_elt_facts e He). }
  split; [|split; [|split]].
  - apply join_safe; [|reflexivity]. eapply Forall_impl; [|exact F]. intros x Hx. apply (safe2_safe x Hx).
  - apply split_join; [destruct els; [congruence|discriminate]|]. eapply Forall_impl; [|exact F]. intros x Hx. apply (safe2_safe x Hx).
  - apply map_res_ok. intros e He. rewrite Forall_forall in Hok. apply (spell_elt_facts e (Hok e He)).
  - destruct els as [|e r]; [congruence|]. inversion Hok; subst. destruct (spell_elt_facts e H1) as [_ [_ [c [r' [Ec Hc]]]]].
    unfold E. cbn [map]. destruct (map spell_elt r) as [|y r'']; cbn [join]; rewrite Ec; [exists c, r' | exists c, (r' ++ ","%char :: join ","%char (y :: r''))%list]; split; auto.
Qed.

(* ---------------------------------------------------------------- one valued primitive *)
Definition vals_ok (l : list Z) : Prop := l <> [] /\ Forall (fun v => 0 <= v) l.
Definition piece (t : ascii) (v : Z) : str := t :: spell_nat v.

Lemma spell_prim_facts t vs : safe2 t = true -> vals_ok vs ->
  forallb safe (spell_prim t vs) = true /\ split_on "," (spell_prim t vs) = map (piece t) vs /\
  exists p', spell_prim t vs = t :: p'.
Proof.
  intros Ht [Hn Hv]. unfold spell_prim. fold (piece t).
  assert (F : Forall (fun x => forallb safe2 x = true) (map (piece t) vs)).
  { apply Forall_map. eapply Forall_impl; [|exact Hv]. intros v H. unfold piece. cbn [forallb]. rewrite Ht, spell_nat_safe2 by exact H. reflexivity. }
  split; [|split].
  - apply join_safe; [|reflexivity]. eapply Forall_impl; [|exact F]. intros x Hx. apply (safe2_safe x Hx).
  - apply split_join; [destruct vs; [congruence|discriminate]|]. eapply Forall_impl; [|exact F]. intros x Hx. apply (safe2_safe x Hx).
  - destruct vs as [|v [|v2 r2]]; [congruence| |]; [exists (spell_nat v); reflexivity|].
    exists (spell_nat v ++ ","%char :: join ","%char (map (piece t) (v2 :: r2)))%list. reflexivity.
Qed.

Lemma pieces_facts t vs : Forall (fun v => 0 <= v) vs ->
  existsb (fun x => str_eqb x []) (map (piece t) vs) = false /\
  first_chars_res (map (piece t) vs) = Ok (map (fun _ => t) vs) /\ all_same (map (fun _ : Z => t) vs) = true /\
  map_res (fun x => match py_int (tl x) with Some n => Ok n | None => Err IncorrectSmarts end) (map (piece t) vs) = Ok vs.
Proof.
  intros Hv. induction Hv as [|v r Hv Hr IH]; [repeat split; reflexivity|].
  destruct IH as [I1 [I2 [I3 I4]]]. cbn [map]. split; [|split; [|split]].
  - cbn [existsb]. rewrite I1. reflexivity.
  - unfold first_chars_res in *. cbn [map_res]. unfold piece at 1. rewrite I2. reflexivity.
  - destruct r as [|v2 r2]; [reflexivity|]. change (all_same (t :: t :: map (fun _ : Z => t) r2) = true). change (all_same (t :: map (fun _ : Z => t) r2) = true) in I3.
    cbn [all_same]. cbn [all_same] in I3. unfold ceq at 1. rewrite Ascii.eqb_refl. exact I3.
  - cbn [map_res]. unfold piece at 1. cbn [tl]. rewrite py_int_spell by exact Hv. rewrite I4. reflexivity.
Qed.

(* the result of prim_step on a spelled valued primitive, with the field updates written out *)
Definition set_prim (out : parsed) (t : ascii) (vs : list Z) : parsed :=
  if ceq t "D" then mkParsed (p_isotope out) (p_charge out) (p_mapping out) (p_stereo out) (p_element out) (Some vs) (p_h out) (p_rings out) (p_het out) (p_hyb out) (p_masked out)
  else if ceq t "h" then mkParsed (p_isotope out) (p_charge out) (p_mapping out) (p_stereo out) (p_element out) (p_nb out) (Some vs) (p_rings out) (p_het out) (p_hyb out) (p_masked out)
  else if ceq t "r" then mkParsed (p_isotope out) (p_charge out) (p_mapping out) (p_stereo out) (p_element out) (p_nb out) (p_h out) (Some (IList vs)) (p_het out) (p_hyb out) (p_masked out)
  else if ceq t "x" then mkParsed (p_isotope out) (p_charge out) (p_mapping out) (p_stereo out) (p_element out) (p_nb out) (p_h out) (p_rings out) (Some vs) (p_hyb out) (p_masked out)
  else mkParsed (p_isotope out) (p_charge out) (p_mapping out) (p_stereo out) (p_element out) (p_nb out) (p_h out) (p_rings out) (p_het out) (Some (IList vs)) (p_masked out).

Lemma prim_step_spelled t vs out : In t ["D"; "h"; "r"; "x"; "z"]%char -> vals_ok vs ->
  prim_step out (spell_prim t vs) = Ok (set_prim out t vs).
Proof.
  intros Ht Hv.
  assert (T : safe2 t = true /\ prim_letter t = true /\ ceq t "a" = false /\ ceq t "A" = false /\ ceq t "!" = false /\ ceq t "M" = false).
  { cbn in Ht. destruct Ht as [<-|[<-|[<-|[<-|[<-|[]]]]]]; vm_compute; repeat split; reflexivity. }
  destruct T as [T1 [T2 [T3 [T4 [T5 T6]]]]].
  destruct (spell_prim_facts t vs T1 Hv) as [_ [S2 [p' S3]]].
  destruct (pieces_facts t vs (proj2 Hv)) as [P1 [P2 [P3 P4]]].
  unfold prim_step. rewrite S2, P1. rewrite S3.
  change (str_eqb (t :: p') []) with false.
  assert (X : forall c r, ceq t c = false -> str_eqb (t :: p') (c :: r) = false).
  { intros c r H. unfold str_eqb. cbn [list_eqb]. unfold ceq in H. rewrite H. reflexivity. }
  rewrite !X by assumption. cbv zeta.
  destruct vs as [|v r]; [destruct Hv; congruence|].
  cbn [map] in *.
  destruct (negb (Nat.eqb (List.length (piece t v :: map (piece t) r)) 1)).
  - rewrite P2. cbv beta iota. rewrite P3. cbn [negb andb]. unfold piece at 1. cbv beta iota. rewrite T2. cbn [negb]. rewrite P4. unfold set_prim.
    destruct (ceq t "D"); [reflexivity|]. destruct (ceq t "h"); [reflexivity|]. destruct (ceq t "r"); [reflexivity|]. destruct (ceq t "x"); reflexivity.
  - cbn [andb]. unfold piece at 1. cbv beta iota. rewrite T2. cbn [negb]. rewrite P4. unfold set_prim.
    destruct (ceq t "D"); [reflexivity|]. destruct (ceq t "h"); [reflexivity|]. destruct (ceq t "r"); [reflexivity|]. destruct (ceq t "x"); reflexivity.
Qed.

(* ---------------------------------------------------------------- the primitive list *)
Definition canonical (p : parsed) : Prop :=
  (match p_isotope p with Some i => 0 <= i | None => True end) /\
  (match p_charge p with Some c => In c [1; 2; 3; 4; -1; -2; -3; -4] | None => True end) /\
  (match p_mapping p with Some m => 1 <= m | None => True end) /\
  p_element p <> [] /\ Forall elt_ok (p_element p) /\
  (match p_nb p with Some l => vals_ok l | None => True end) /\
  (match p_h p with Some l => vals_ok l | None => True end) /\
  (match p_het p with Some l => vals_ok l | None => True end) /\
  (match p_rings p with None => True | Some (IInt v) => v = 0 | Some (IList l) => vals_ok l end) /\
  (match p_hyb p with None => True | Some (IInt v) => v = 4 | Some (IList l) => vals_ok l end).

Definition prims_of (p : parsed) : list str :=
  (opt_prim "D" (p_nb p) ++ opt_prim "h" (p_h p) ++
   (match p_rings p with Some (IInt _) => [["!"%char; "R"%char]] | Some (IList vs) => [spell_prim "r" vs] | None => [] end) ++
   opt_prim "x" (p_het p) ++
   (match p_hyb p with Some (IInt _) => [["a"%char]] | Some (IList vs) => [spell_prim "z" vs] | None => [] end) ++
   (if p_masked p then [["M"%char]] else []))%list.

Lemma prim_loop_app out a b : prim_loop out (a ++ b) = match prim_loop out a with Ok o => prim_loop o b | Err e => Err e end.
Proof.
  revert out. induction a as [|x r IH]; intros out; cbn [app prim_loop]; [reflexivity|].
  destruct (prim_step out x); [apply IH | reflexivity].
Qed.

Lemma step_opt t o out rest : In t ["D"; "h"; "x"]%char -> match o with Some l => vals_ok l | None => True end ->
  prim_loop out (opt_prim t o ++ rest) = prim_loop (match o with Some l => set_prim out t l | None => out end) rest.
Proof.
  intros Ht Ho. destruct o as [l|]; [|reflexivity]. unfold opt_prim. cbn [app prim_loop].
  rewrite prim_step_spelled; [reflexivity | cbn in *; tauto | exact Ho].
Qed.

Definition set_rings0 (out : parsed) : parsed :=
  mkParsed (p_isotope out) (p_charge out) (p_mapping out) (p_stereo out) (p_element out) (p_nb out) (p_h out) (Some (IInt 0)) (p_het out) (p_hyb out) (p_masked out).
Definition set_arom (out : parsed) : parsed :=
  mkParsed (p_isotope out) (p_charge out) (p_mapping out) (p_stereo out) (p_element out) (p_nb out) (p_h out) (p_rings out) (p_het out) (Some (IInt 4)) (p_masked out).
Definition set_masked (out : parsed) : parsed :=
  mkParsed (p_isotope out) (p_charge out) (p_mapping out) (p_stereo out) (p_element out) (p_nb out) (p_h out) (p_rings out) (p_het out) (p_hyb out) true.

Lemma step_rings o out rest : match o with None => True | Some (IInt v) => v = 0 | Some (IList l) => vals_ok l end ->
  prim_loop out ((match o with Some (IInt _) => [["!"%char; "R"%char]] | Some (IList vs) => [spell_prim "r" vs] | None => [] end) ++ rest)
  = prim_loop (match o with None => out | Some (IInt _) => set_rings0 out | Some (IList l) => set_prim out "r" l end) rest.
Proof.
  intros Ho. destruct o as [[v|l]|]; [reflexivity| |reflexivity]. cbn [app prim_loop].
  rewrite prim_step_spelled; [reflexivity | cbn; tauto | exact Ho].
Qed.
Lemma step_hyb o out rest : match o with None => True | Some (IInt v) => v = 4 | Some (IList l) => vals_ok l end ->
  prim_loop out ((match o with Some (IInt _) => [["a"%char]] | Some (IList vs) => [spell_prim "z" vs] | None => [] end) ++ rest)
  = prim_loop (match o with None => out | Some (IInt _) => set_arom out | Some (IList l) => set_prim out "z" l end) rest.
Proof.
  intros Ho. destruct o as [[v|l]|]; [reflexivity| |reflexivity]. cbn [app prim_loop].
  rewrite prim_step_spelled; [reflexivity | cbn; tauto | exact Ho].
Qed.
Lemma step_masked (m : bool) out : prim_loop out (if m then [["M"%char]] else []) = Ok (if m then set_masked out else out).
Proof. destruct m; reflexivity. Qed.

Lemma prim_loop_spelled p : canonical p ->
  prim_loop (mkParsed (p_isotope p) (p_charge p) (p_mapping p) (p_stereo p) (p_element p) None None None None None false) (prims_of p) = Ok p.
Proof.
  intros [_ [_ [_ [_ [_ [C1 [C2 [C3 [C4 C5]]]]]]]]]. unfold prims_of.
  rewrite step_opt by (cbn; tauto || exact C1).
  rewrite step_opt by (cbn; tauto || exact C2).
  rewrite step_rings by exact C4.
  rewrite step_opt by (cbn; tauto || exact C3).
  rewrite step_hyb by exact C5.
  rewrite step_masked.
  destruct p as [iso chg mp st els nb h rings het hyb msk]. cbn [p_isotope p_charge p_mapping p_stereo p_element p_nb p_h p_rings p_het p_hyb p_masked] in *.
  destruct nb, h, rings as [[v|lr]|], het, hyb as [[vh|lh]|], msk; subst; reflexivity.
Qed.

Lemma prims_safe p : canonical p -> Forall (fun x => forallb safe x = true) (prims_of p).
Proof.
  intros [_ [_ [_ [_ [_ [C1 [C2 [C3 [C4 C5]]]]]]]]]. unfold prims_of, opt_prim.
  assert (S : forall t vs, In t ["D"; "h"; "r"; "x"; "z"]%char -> vals_ok vs -> forallb safe (spell_prim t vs) = true).
  { intros t vs Ht Hv. apply spell_prim_facts; [|exact Hv]. cbn in Ht. destruct Ht as [<-|[<-|[<-|[<-|[<-|[]]]]]]; reflexivity. }
  apply Forall_app. split.
  { destruct (p_nb p); [constructor; [apply S; [cbn; tauto | exact C1]|constructor]|constructor]. }
  apply Forall_app. split.
  { destruct (p_h p); [constructor; [apply S; [cbn; tauto | exact C2]|constructor]|constructor]. }
  apply Forall_app. split.
  { destruct (p_rings p) as [[v|l]|]; [constructor; [reflexivity|constructor] | constructor; [apply S; [cbn; tauto | exact C4]|constructor] | constructor]. }
  apply Forall_app. split.
  { destruct (p_het p); [constructor; [apply S; [cbn; tauto | exact C3]|constructor]|constructor]. }
  apply Forall_app. split.
  { destruct (p_hyb p) as [[v|l]|]; [constructor; [reflexivity|constructor] | constructor; [apply S; [cbn; tauto | exact C5]|constructor] | constructor]. }
  destruct (p_masked p); [constructor; [reflexivity|constructor]|constructor].
Qed.

(* ---------------------------------------------------------------- the four scans on a spelled body *)
Definition iso_text (o : option Z) : str := match o with Some i => spell_nat i | None => [] end.
Lemma stage_iso o R c r : R = c :: r -> is_digit c = false -> match o with Some i => 0 <= i | None => True end ->
  span is_digit (iso_text o ++ R) = (iso_text o, R) /\
  match iso_text o with [] => None | _ => Some (horner (iso_text o)) end = o /\
  match iso_text o return str with [] => (iso_text o ++ R)%list | _ => R end = R.
Proof.
  intros -> Hc Ho. destruct o as [i|]; cbn [iso_text].
  - destruct (spell_nat_spec i Ho) as [S1 [S2 [S3 _]]]. split; [apply span_digits; [exact S1 | exact Hc]|].
    destruct (spell_nat i) eqn:E; [congruence|]. rewrite S3. split; reflexivity.
  - split; [|split; reflexivity]. cbn. rewrite Hc. reflexivity.
Qed.

Definition chg_text (o : option Z) : str := match o with Some c => spell_charge c | None => [] end.
Definition next_ok (l : str) : Prop := match l with [] => True | d :: _ => is_chg2 d = false end.
Lemma stage_chg o rest : match o with Some c => In c [1; 2; 3; 4; -1; -2; -3; -4] | None => True end -> clean is_sign rest -> next_ok rest ->
  match chg_search (chg_text o ++ rest) with
  | None => o = None
  | Some (a, g, b) => a = [] /\ b = rest /\ charge_dict g = o /\ o <> None
  end.
Proof.
  intros Ho Hr Hn. destruct o as [c|]; cbn [chg_text].
  - cbn in Ho. destruct Ho as [<-|[<-|[<-|[<-|[<-|[<-|[<-|[<-|[]]]]]]]]]; cbn [spell_charge app chg_search];
      try (cbn; repeat split; (reflexivity || discriminate));
      (destruct rest as [|d r']; [cbn; repeat split; (reflexivity || discriminate)|]; cbn in Hn; cbn [chg_search is_sign]; cbn; rewrite Hn; repeat split; (reflexivity || discriminate)).
  - cbn [app]. rewrite chg_search_none by exact Hr. reflexivity.
Qed.

Definition map_text (o : option Z) : str := match o with Some m => ":"%char :: spell_nat m | None => [] end.
Lemma stage_map o pre : match o with Some m => 1 <= m | None => True end -> clean is_colon pre ->
  match mpp_search (pre ++ map_text o) with
  | None => o = None /\ map_text o = []
  | Some (a, d) => a = pre /\ Some (horner d) = o
  end.
Proof.
  intros Ho Hp. rewrite mpp_search_prefix by exact Hp. destruct o as [m|]; cbn [map_text].
  - destruct (spell_nat_spec m ltac:(lia)) as [S1 [S2 [S3 S4]]]. destruct (S4 Ho) as [c [r [E Hc]]].
    cbn [mpp_search]. assert (H : mpp_here (spell_nat m) = true).
    { rewrite E in *. cbn [mpp_here]. cbn [forallb] in S1. apply andb_true_iff in S1. destruct S1 as [S1a S1b]. rewrite S1a, Hc, S1b. reflexivity. }
    rewrite H. change (ceq ":" ":") with true. cbn [andb]. rewrite app_nil_r, S3. split; reflexivity.
  - cbn. split; reflexivity.
Qed.

Definition st_text (o : option bool) : str := match o with Some true => ["@"%char] | Some false => ["@"%char; "@"%char] | None => [] end.
Definition semi_or_nil (l : str) : Prop := match l with [] => True | d :: _ => d = ";"%char end.
Lemma stage_st o pre rest : clean is_at pre -> clean is_at rest -> semi_or_nil rest ->
  match str_search (pre ++ st_text o ++ rest) with
  | None => o = None
  | Some (a, g, b) => a = pre /\ b = rest /\ Some (str_eqb g ["@"%char]) = o
  end.
Proof.
  intros Hp Hr Hs. rewrite str_search_prefix by exact Hp. destruct o as [[]|]; cbn [st_text app].
  - destruct rest as [|d r']; [cbn; rewrite app_nil_r; repeat split; reflexivity|]. cbn in Hs. subst d.
    cbn. rewrite app_nil_r. repeat split; reflexivity.
  - cbn. rewrite app_nil_r. repeat split; reflexivity.
  - rewrite str_search_none by exact Hr. reflexivity.
Qed.

Lemma flat_clean f ps : f ";"%char = false -> Forall (clean f) ps -> clean f (flat_map (fun s => ";"%char :: s) ps).
Proof.
  intros Hf H. induction H as [|x r Hx Hr IH]; [reflexivity|]. cbn [flat_map]. apply clean_cons. split; [exact Hf|].
  apply clean_app. split; assumption.
Qed.
Lemma flat_head ps : semi_or_nil (flat_map (fun s => ";"%char :: s) ps).
Proof. destruct ps; cbn; auto. Qed.

Lemma map_text_clean o : match o with Some m => 1 <= m | None => True end -> clean is_sign (map_text o) /\ clean is_at (map_text o).
Proof.
  destruct o as [m|]; cbn [map_text]; intros H; [|split; reflexivity].
  destruct (safe2_safe _ (spell_nat_safe2 m ltac:(lia))) as [S _]. destruct (safe_clean _ S) as [A [_ [B _]]].
  split; apply clean_cons; split; try reflexivity; assumption.
Qed.

Theorem query_roundtrip p : canonical p -> query_parse (spell_query p) = Ok p.
Proof.
  intros Hc. pose proof (prims_safe p Hc) as PS. pose proof (prim_loop_spelled p Hc) as PL.
  destruct Hc as [C_iso [C_chg [C_map [C_ne [C_els _]]]]].
  destruct (elements_facts (p_element p) C_ne C_els) as [E1 [E2 [E3 [c0 [r0 [E4 E5]]]]]].
  change (spell_query p) with (iso_text (p_isotope p) ++ join "," (map spell_elt (p_element p)) ++ st_text (p_stereo p) ++
                               chg_text (p_charge p) ++ flat_map (fun s => ";"%char :: s) (prims_of p) ++ map_text (p_mapping p))%list.
  set (E := join "," (map spell_elt (p_element p))) in *.
  set (P := flat_map (fun s => ";"%char :: s) (prims_of p)).
  set (St := st_text (p_stereo p)). set (C := chg_text (p_charge p)). set (M := map_text (p_mapping p)).
  destruct (safe_clean E E1) as [Es [Ec [Ea Ese]]].
  assert (PSs : Forall (clean is_sign) (prims_of p) /\ Forall (clean is_colon) (prims_of p) /\ Forall (clean is_at) (prims_of p) /\
                Forall (clean is_semi) (prims_of p)).
  { repeat split; (eapply Forall_impl; [|exact PS]); intros x Hx; apply (safe_clean x Hx). }
  destruct PSs as [Ps [Pc [Pa Pse]]].
  assert (Pcs : clean is_sign P) by (apply flat_clean; [reflexivity | exact Ps]).
  assert (Pcc : clean is_colon P) by (apply flat_clean; [reflexivity | exact Pc]).
  assert (Pca : clean is_at P) by (apply flat_clean; [reflexivity | exact Pa]).
  assert (Ph : semi_or_nil P) by apply flat_head.
  assert (Sts : clean is_sign St /\ clean is_colon St) by (unfold St; destruct (p_stereo p) as [[]|]; split; reflexivity).
  destruct (map_text_clean (p_mapping p) C_map) as [Ms Ma]. fold M in Ms, Ma.
  assert (Nx : next_ok (P ++ M)).
  { unfold next_ok. destruct P as [|d P']; [|cbn in Ph; subst d; reflexivity]. unfold M. destruct (p_mapping p); reflexivity. }
  (* isotope *)
  unfold query_parse.
  destruct (stage_iso (p_isotope p) (E ++ St ++ C ++ P ++ M) c0 (r0 ++ St ++ C ++ P ++ M) ltac:(rewrite E4; reflexivity) E5 C_iso) as [A1 [A2 A3]].
  rewrite A1. cbv beta iota zeta. rewrite A2, A3.
  (* charge *)
  replace (E ++ St ++ C ++ P ++ M)%list with ((E ++ St) ++ C ++ (P ++ M))%list by (rewrite <- !app_assoc; reflexivity).
  rewrite chg_search_prefix by (apply clean_app; split; [exact Es | exact (proj1 Sts)]).
  pose proof (stage_chg (p_charge p) (P ++ M) C_chg ltac:(apply clean_app; split; assumption) Nx) as B. fold C in B.
  assert (T2 : forall ch X, ch = p_charge p -> X = (E ++ St ++ P ++ M)%list ->
    (let '(mapping, t3) := match mpp_search X with Some (a, d) => (Some (horner d), a) | None => (None, X) end in
     let '(stereo, t4) := match str_search t3 with Some (a, g, b) => (Some (str_eqb g ["@"%char]), (a ++ b)%list) | None => (None, t3) end in
     match split_on ";" t4 with
     | [] => Err IncorrectSmarts
     | e0 :: prims => if str_eqb e0 [] then Err IncorrectSmarts
                      else match map_res parse_elt (split_on "," e0) with
                           | Err e => Err e
                           | Ok els => prim_loop (mkParsed (p_isotope p) ch mapping stereo els None None None None None false) prims
                           end
     end) = Ok p).
  { intros ch X -> ->.
    replace (E ++ St ++ P ++ M)%list with ((E ++ St ++ P) ++ M)%list by (rewrite <- !app_assoc; reflexivity).
    pose proof (stage_map (p_mapping p) (E ++ St ++ P) C_map ltac:(repeat (apply clean_app; split); [exact Ec | exact (proj2 Sts) | exact Pcc])) as D.
    fold M in D.
    assert (T3 : forall mp Y, mp = p_mapping p -> Y = (E ++ St ++ P)%list ->
      (let '(stereo, t4) := match str_search Y with Some (a, g, b) => (Some (str_eqb g ["@"%char]), (a ++ b)%list) | None => (None, Y) end in
       match split_on ";" t4 with
       | [] => Err IncorrectSmarts
       | e0 :: prims => if str_eqb e0 [] then Err IncorrectSmarts
                        else match map_res parse_elt (split_on "," e0) with
                             | Err e => Err e
                             | Ok els => prim_loop (mkParsed (p_isotope p) (p_charge p) mp stereo els None None None None None false) prims
                             end
       end) = Ok p).
    { intros mp Y -> ->.
      pose proof (stage_st (p_stereo p) E P Ea Pca Ph) as F. fold St in F.
      assert (T4 : forall st Z, st = p_stereo p -> Z = (E ++ P)%list ->
        match split_on ";" Z with
        | [] => Err IncorrectSmarts
        | e0 :: prims => if str_eqb e0 [] then Err IncorrectSmarts
                         else match map_res parse_elt (split_on "," e0) with
                              | Err e => Err e
                              | Ok els => prim_loop (mkParsed (p_isotope p) (p_charge p) (p_mapping p) st els None None None None None false) prims
                              end
        end = Ok p).
      { intros st Z -> ->. unfold P. rewrite split_flat by assumption. rewrite E4 at 1. change (str_eqb (c0 :: r0) []) with false. cbv iota.
        rewrite E2, E3. exact PL. }
      destruct (str_search (E ++ St ++ P)) as [[[a g] b]|].
      - destruct F as [-> [-> F3]]. apply T4; [exact F3 | reflexivity].
      - unfold St. rewrite F. cbn [st_text app]. apply T4; [symmetry; exact F | reflexivity]. }
    destruct (mpp_search ((E ++ St ++ P) ++ M)) as [[a d]|].
    - destruct D as [-> D2]. apply T3; [exact D2 | reflexivity].
    - destruct D as [D1 D2]. rewrite D2, app_nil_r. apply T3; [symmetry; exact D1 | reflexivity]. }
  destruct (chg_search (C ++ P ++ M)) as [[[a g] b]|].
  - destruct B as [-> [-> [B3 B4]]]. rewrite B3. destruct (p_charge p) as [c|] eqn:Ech; [|congruence]. cbv beta iota.
    rewrite app_nil_r. apply T2; [first [reflexivity | symmetry; exact Ech] | rewrite <- !app_assoc; reflexivity].
  - cbv beta iota. apply T2; [symmetry; exact B | unfold C; rewrite B; cbn [chg_text app]; rewrite <- !app_assoc; reflexivity].
Qed.

(* non-vacuity: a record with every field set is canonical; its spelling *)
Definition rt_example : parsed :=
  mkParsed (Some 13) (Some 1) (Some 7) (Some true) [ESym (s2l "C"); ENum 7] (Some [1; 2]) (Some [0]) (Some (IList [5; 6])) (Some [1])
           (Some (IList [1; 2])) true.
Theorem query_roundtrip_example :
  canonical rt_example /\ spell_query rt_example = s2l "13C,#7@+;D1,D2;h0;r5,r6;x1;z1,z2;M:7".
Proof.
  split; [|vm_compute; reflexivity].
  unfold canonical, rt_example, vals_ok. cbn [p_isotope p_charge p_mapping p_element p_nb p_h p_het p_rings p_hyb].
  repeat split; try lia; try discriminate; try (cbn; tauto); repeat constructor; try lia; try discriminate; try reflexivity.
Qed.
