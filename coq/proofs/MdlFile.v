(* C11: whole files.  Composition of the record framing (MdlFraming), the metadata theorems (MdlMeta) and - in MdlFileMol.v - the
   block theorems: reading the text of a multi-record SD file record by record.
   Part 1 (this file): generic in the MOL block: a record is (lines of the MOL block ending with the "M  END" line, dictionary). *)
From Coq Require Import ZArith List String Ascii Bool Lia.
From Model Require Import PyBase Mdl.
From Gen Require Import MdlTables.
From Proofs Require Import MdlProofs MdlFraming MdlFramingExt MdlMeta.
Import ListNotations.
Open Scope Z_scope.
Local Notation length := List.length.
Local Notation concat := List.concat.

(* ------------------------------------------------------------------------------------------------ *)
(** * small facts *)

Lemma nl_not_in_lit (p : str) : forallb (fun c => negb (Ascii.eqb c nl)) p = true -> ~ In nl p.
Proof.
  intros H Hin. rewrite forallb_forall in H. specialize (H nl Hin). rewrite ascii_eqb_refl in H. discriminate.
Qed.
Lemma startswith_add_nl (p l : str) : forallb (fun c => negb (Ascii.eqb c nl)) p = true -> startswith p (add_nl l) = startswith p l.
Proof. intros H. unfold add_nl. apply startswith_app_nl. apply nl_not_in_lit. exact H. Qed.
Lemma is_delim_add_nl l : is_delim (add_nl l) = is_delim l.
Proof. unfold is_delim. apply startswith_add_nl. reflexivity. Qed.
Lemma is_mend_add_nl l : is_mend (add_nl l) = is_mend l.
Proof. unfold is_mend. apply startswith_add_nl. reflexivity. Qed.

Lemma Forall_map_iff {X Y} (f : X -> Y) (P : Y -> Prop) l : Forall P (map f l) <-> Forall (fun x => P (f x)) l.
Proof. apply Forall_map. Qed.

(* the lines-level form of the metadata theorem *)
Lemma sdf_meta_lines_roundtrip esc entries : Forall (sdf_entry_ok esc) entries ->
  sdf_read_metadata (map add_nl (concat (map (sdf_entry_lines esc) entries))) = sdf_meta_spec esc entries.
Proof. intros H. unfold sdf_read_metadata, sdf_meta_spec. rewrite sdf_entries_fold by exact H. reflexivity. Qed.
Lemma rdf_meta_lines_roundtrip entries : Forall rdf_entry_ok entries ->
  rdf_read_metadata (map add_nl (concat (map rdf_entry_lines entries))) = meta_spec entries.
Proof. intros H. unfold rdf_read_metadata, meta_spec. rewrite rdf_entries_fold by exact H. reflexivity. Qed.

(* key lines and the blank line of an entry never look like a record delimiter *)
Lemma sdf_entry_lines_not_delim esc e :
  Forall (fun l => is_delim l = false) (snd e) -> Forall (fun l => is_delim l = false) (sdf_entry_lines esc e).
Proof.
  intros H. unfold sdf_entry_lines. constructor; [reflexivity|]. apply Forall_app. split; [exact H | repeat constructor].
Qed.

(* ------------------------------------------------------------------------------------------------ *)
(** * SD files, generic in the MOL block *)

Section SdfFile.
  Variable A : Type.
  Variable build_mol : parsed3 -> pyres A.
  Variable buffer_size : nat.
  Variable esc : list (string * string).        (* SDFWrite.escape_map / ESDFWrite.escape_map *)

  (* a record: the lines of the MOL block without its last line, the "M  END" line, the dictionary as entries *)
  Record frec := mk_frec { fr_mol : list str; fr_end : str; fr_entries : list (str * list str) }.
  Definition frec_lines (r : frec) : list str :=
    fr_mol r ++ fr_end r :: concat (map (sdf_entry_lines esc) (fr_entries r)).
  (* the text SDFWrite emits for the record, given the lines of the MOL block *)
  Definition frec_text (r : frec) : str :=
    text_of_lines (fr_mol r ++ [fr_end r]) ++ sdf_meta_text esc (meta_of (fr_entries r)) ++ L "$$$$" ++ [nl].

  Record frec_ok (r : frec) : Prop := {
    fo_mend : Forall (fun l => is_mend l = false) (fr_mol r);
    fo_end : is_mend (fr_end r) = true;
    fo_delim : Forall (fun l => is_delim l = false) (fr_mol r);
    fo_entries : Forall (sdf_entry_ok esc) (fr_entries r);
    fo_values : Forall (fun e => Forall (fun l => is_delim l = false) (snd e)) (fr_entries r);
    fo_size : (length (frec_lines r) <= buffer_size)%nat;
    fo_nl : Forall (fun l => ~ In nl l) (fr_mol r ++ [fr_end r]) }.

  Definition frec_result (r : frec) : record_result A :=
    match dispatch_mol A build_mol (map add_nl (fr_mol r ++ [fr_end r])) with
    | Err x => inr (Py x)
    | Ok mol => inl (mol, sdf_meta_spec esc (fr_entries r))
    end.

  Lemma frec_lines_not_delim r : frec_ok r -> Forall (fun l => is_delim l = false) (frec_lines r).
  Proof.
    intros H. unfold frec_lines. apply Forall_app. split; [apply (fo_delim r H)|]. constructor.
    - pose proof (fo_end r H) as He. unfold is_mend in He. apply startswith_true in He. destruct He as [x ->]. reflexivity.
    - apply Forall_concat. apply Forall_map. pose proof (fo_values r H) as Hv.
      eapply Forall_impl; [|exact Hv]. intros e. apply sdf_entry_lines_not_delim.
  Qed.

  Lemma frec_one r : frec_ok r -> sdf_one A build_mol true (map add_nl (frec_lines r)) = frec_result r.
  Proof.
    intros H. unfold frec_lines, frec_result. rewrite map_app. cbn [map].
    rewrite sdf_record_split.
    - rewrite map_app. cbn [map]. rewrite sdf_meta_lines_roundtrip by apply (fo_entries r H). reflexivity.
    - apply Forall_map. eapply Forall_impl; [|apply (fo_mend r H)]. intros l Hl. cbv beta. rewrite is_mend_add_nl. exact Hl.
    - rewrite is_mend_add_nl. apply (fo_end r H).
  Qed.

  Lemma frec_text_lines r : frec_ok r -> frec_text r = text_of_lines (frec_lines r ++ [L "$$$$"]).
  Proof.
    intros H. unfold frec_text, frec_lines. rewrite sdf_meta_text_lines by apply (fo_entries r H).
    replace (fr_mol r ++ fr_end r :: concat (map (sdf_entry_lines esc) (fr_entries r)))
      with ((fr_mol r ++ [fr_end r]) ++ concat (map (sdf_entry_lines esc) (fr_entries r))) by (rewrite <- app_assoc; reflexivity).
    rewrite !text_of_lines_app. rewrite <- !app_assoc. f_equal.
  Qed.

  Lemma frec_lines_no_nl r : frec_ok r -> Forall (fun l => ~ In nl l) (frec_lines r ++ [L "$$$$"]).
  Proof.
    intros H. unfold frec_lines. rewrite <- app_assoc. cbn [app].
    pose proof (fo_nl r H) as Hn. apply Forall_app in Hn. destruct Hn as [Hn1 Hn2]. inversion Hn2; subst.
    apply Forall_app. split; [exact Hn1|]. constructor; [assumption|]. apply Forall_app. split.
    - apply Forall_concat. apply Forall_map. eapply Forall_impl; [|apply (fo_entries r H)]. intros e. apply sdf_entry_lines_no_nl.
    - repeat constructor. apply nl_not_in_lit. reflexivity.
  Qed.

  (* the text of the file = the lines of the records with their delimiters *)
  Definition file_text (recs : list frec) : str := concat (map frec_text recs).
  Lemma file_text_lines recs : Forall frec_ok recs ->
    readlines (file_text recs) = sdf_file (map (fun r => (map add_nl (frec_lines r), add_nl (L "$$$$"))) recs) [].
  Proof.
    intros H. unfold file_text.
    assert (E : concat (map frec_text recs) = text_of_lines (concat (map (fun r => frec_lines r ++ [L "$$$$"]) recs))).
    { induction H as [|r recs Hr _ IH]; [reflexivity|]. cbn [map concat]. rewrite text_of_lines_app, IH, frec_text_lines by exact Hr. reflexivity. }
    rewrite E. rewrite readlines_text_of_lines.
    - unfold sdf_file. rewrite app_nil_r. clear. induction recs as [|r recs IH]; [reflexivity|].
      cbn [map concat fst snd]. rewrite map_app, IH. rewrite map_app. cbn [map]. reflexivity.
    - apply Forall_concat. apply Forall_map. eapply Forall_impl; [|exact H]. intros r. apply frec_lines_no_nl.
  Qed.

  (* sdf_file_roundtrip (generic in the MOL block): reading the text SDFWrite produced for a list of records yields, record by
     record, what the block parser + builder make of the MOL block, together with the normalised dictionary *)
  Theorem sdf_file_roundtrip_generic recs : Forall frec_ok recs ->
    sdf_read A build_mol buffer_size (readlines (file_text recs)) = collect A (map frec_result recs ++ [inr EOFError]).
  Proof.
    intros H. rewrite file_text_lines by exact H. rewrite sdf_framing.
    - unfold sdf_results. rewrite !map_map. cbn [fst sdf_one]. f_equal. f_equal.
      apply map_ext_in. intros r Hin. rewrite Forall_forall in H. apply frec_one. apply H. exact Hin.
    - apply Forall_map. eapply Forall_impl; [|exact H]. intros r Hr. cbn [fst snd]. split.
      + split.
        * apply Forall_map. eapply Forall_impl; [|apply (frec_lines_not_delim r Hr)]. intros l Hl. cbv beta. rewrite is_delim_add_nl. exact Hl.
        * rewrite map_length. apply (fo_size r Hr).
      + reflexivity.
    - split; [constructor | cbn [length]; lia].
  Qed.
End SdfFile.

(* ------------------------------------------------------------------------------------------------ *)
(** * RD files, generic in the structure block (a MOL block or a $RXN block) *)

Lemma is_fmt_add_nl l : is_fmt (add_nl l) = is_fmt l.
Proof. unfold is_fmt. rewrite !startswith_add_nl by reflexivity. reflexivity. Qed.
Lemma is_dtype_add_nl l : is_dtype (add_nl l) = is_dtype l.
Proof. unfold is_dtype. apply startswith_add_nl. reflexivity. Qed.

Lemma rdf_entry_lines_not_fmt e : snd e <> [] ->
  Forall (fun l => is_fmt l = false) (tl (snd e)) -> Forall (fun l => is_fmt l = false) (rdf_entry_lines e).
Proof.
  intros Hne H. unfold rdf_entry_lines. destruct (snd e) as [|l0 ls]; [contradiction|]. cbn [tl] in H.
  constructor; [reflexivity|]. constructor; [reflexivity | exact H].
Qed.

Section RdfFile.
  Variable A : Type.
  Variable build_mol : parsed3 -> pyres A.
  Variable build_rxn : rparsed -> pyres A.
  Variable buffer_size : nat.

  (* a record: its format line ("$MFMT" / "$RFMT"), the lines of the structure, the dictionary as entries *)
  Record rrec := mk_rrec { rr_fmt : str; rr_struct : list str; rr_entries : list (str * list str) }.
  Definition rrec_lines (r : rrec) : list str := rr_struct r ++ concat (map rdf_entry_lines (rr_entries r)).
  Definition rrec_text (r : rrec) : str :=
    rr_fmt r ++ [nl] ++ text_of_lines (rr_struct r) ++ rdf_meta_text (meta_of (rr_entries r)).

  Record rrec_ok (hlen : nat) (r : rrec) : Prop := {
    ro_fmt : is_fmt (rr_fmt r) = true;
    ro_fmt_nl : ~ In nl (rr_fmt r);
    ro_struct_fmt : Forall (fun l => is_fmt l = false) (rr_struct r);
    ro_struct_dtype : Forall (fun l => is_dtype l = false) (rr_struct r);
    ro_struct_ne : rr_struct r <> [];
    ro_struct_nl : Forall (fun l => ~ In nl l) (rr_struct r);
    ro_entries : Forall rdf_entry_ok (rr_entries r);
    ro_values : Forall (fun e => Forall (fun l => is_fmt l = false) (tl (snd e))) (rr_entries r);
    ro_size : (S hlen + length (rrec_lines r) < buffer_size)%nat }.

  Definition rrec_result (r : rrec) : record_result A :=
    match rdf_dispatch A build_mol build_rxn (map add_nl (rrec_lines r)) with
    | Err x => inr (Py x)
    | Ok obj => inl (obj, meta_spec (rr_entries r))
    end.

  Lemma rrec_lines_not_fmt h r : rrec_ok h r -> Forall (fun l => is_fmt l = false) (rrec_lines r).
  Proof.
    intros H. unfold rrec_lines. apply Forall_app. split; [apply (ro_struct_fmt h r H)|].
    apply Forall_concat. apply Forall_map.
    pose proof (ro_values h r H) as Hv. pose proof (ro_entries h r H) as He.
    rewrite Forall_forall in *. intros e Hin. apply rdf_entry_lines_not_fmt; [|apply Hv; exact Hin].
    destruct (He e Hin) as [_ [_ [Hne _]]]. exact Hne.
  Qed.

  Lemma rrec_one h r : rrec_ok h r -> rdf_one A build_mol build_rxn (map add_nl (rrec_lines r)) = rrec_result r.
  Proof.
    intros H. unfold rrec_result.
    assert (Hs : Forall (fun l => is_dtype l = false) (map add_nl (rr_struct r))).
    { apply Forall_map. eapply Forall_impl; [|apply (ro_struct_dtype h r H)]. intros l Hl. cbv beta. rewrite is_dtype_add_nl. exact Hl. }
    assert (Hne : map add_nl (rr_struct r) <> []) by (pose proof (ro_struct_ne h r H); destruct (rr_struct r); [contradiction | discriminate]).
    unfold rrec_lines. destruct (rr_entries r) as [|e es] eqn:Ee.
    - (* no metadata at all *)
      cbn [map concat]. rewrite app_nil_r. unfold rdf_one. destruct (map add_nl (rr_struct r)) as [|x xs] eqn:Ex; [contradiction|].
      cbv zeta. rewrite mscan_none by exact Hs. cbn [falsy]. reflexivity.
    - pose proof (ro_entries h r H) as He. rewrite Ee in He. inversion He as [|? ? He1 He2]; subst.
      destruct e as [k ls]. destruct He1 as [Hk1 [Hk2 [Hk3 [Hk4 Hk5]]]]. cbn [fst snd] in *.
      destruct ls as [|l0 ls]; [contradiction|].
      rewrite map_app. cbn [map concat]. unfold rdf_entry_lines at 1. cbn [fst snd app map].
      rewrite rdf_record_split; [| exact Hs | rewrite is_dtype_add_nl; reflexivity | exact Hne].
      assert (E : add_nl (L "$DTYPE " ++ k) :: add_nl (L "$DATUM " ++ l0) :: map add_nl (ls ++ concat (map rdf_entry_lines es)) =
                  map add_nl (concat (map rdf_entry_lines ((k, l0 :: ls) :: es)))).
      { cbn [map concat]. unfold rdf_entry_lines at 2. cbn [fst snd app map]. reflexivity. }
      cbn [app] in E |- *. rewrite E. rewrite rdf_meta_lines_roundtrip; [reflexivity|].
      constructor; [|exact He2]. repeat split; assumption.
  Qed.

  Lemma rrec_text_lines h r : rrec_ok h r -> rrec_text r = text_of_lines (rr_fmt r :: rrec_lines r).
  Proof.
    intros H. unfold rrec_text, rrec_lines. rewrite rdf_meta_text_lines by apply (ro_entries h r H).
    change (text_of_lines (rr_fmt r :: rr_struct r ++ concat (map rdf_entry_lines (rr_entries r))))
      with (add_nl (rr_fmt r) ++ text_of_lines (rr_struct r ++ concat (map rdf_entry_lines (rr_entries r)))).
    rewrite text_of_lines_app. unfold add_nl. rewrite <- !app_assoc. reflexivity.
  Qed.

  Lemma rrec_lines_no_nl h r : rrec_ok h r -> Forall (fun l => ~ In nl l) (rr_fmt r :: rrec_lines r).
  Proof.
    intros H. constructor; [apply (ro_fmt_nl h r H)|]. unfold rrec_lines. apply Forall_app. split; [apply (ro_struct_nl h r H)|].
    apply Forall_concat. apply Forall_map. eapply Forall_impl; [|apply (ro_entries h r H)]. intros e. apply rdf_entry_lines_no_nl.
  Qed.

  (* the text of the file: header lines (what RDFWrite writes first: "$RDFILE 1", "$DATM ..."), then the records *)
  Definition rdfile_text (header : list str) (recs : list rrec) : str := text_of_lines header ++ concat (map rrec_text recs).
  Lemma rdfile_text_lines header recs : Forall (fun l => ~ In nl l) header -> Forall (rrec_ok (length header)) recs ->
    readlines (rdfile_text header recs) =
    rdf_file (map add_nl header) (map (fun r => (add_nl (rr_fmt r), map add_nl (rrec_lines r))) recs).
  Proof.
    intros Hh H. unfold rdfile_text.
    assert (E : concat (map rrec_text recs) = text_of_lines (concat (map (fun r => rr_fmt r :: rrec_lines r) recs))).
    { induction H as [|r recs Hr _ IH]; [reflexivity|]. cbn [map concat]. rewrite text_of_lines_app, IH, (rrec_text_lines _ _ Hr). reflexivity. }
    rewrite E, <- text_of_lines_app. rewrite readlines_text_of_lines.
    - unfold rdf_file, rdf_tail. rewrite map_app. f_equal. clear. induction recs as [|r recs IH]; [reflexivity|].
      cbn [map concat fst snd]. rewrite map_app, IH. reflexivity.
    - apply Forall_app. split; [exact Hh|]. apply Forall_concat. apply Forall_map. eapply Forall_impl; [|exact H]. intros r. apply rrec_lines_no_nl.
  Qed.

  Theorem rdf_file_roundtrip_generic header recs :
    Forall (fun l => ~ In nl l /\ is_fmt l = false /\ startswith (L "$RXN") l = false) header ->
    Forall (rrec_ok (length header)) recs ->
    rdf_read A build_mol build_rxn buffer_size (readlines (rdfile_text header recs)) = collect A (map rrec_result recs).
  Proof.
    intros Hh H. rewrite rdfile_text_lines; [| eapply Forall_impl; [|exact Hh]; intros l [X _]; exact X | exact H].
    rewrite rdf_framing.
    - rewrite !map_map. cbn [snd]. f_equal. apply map_ext_in. intros r Hin. rewrite Forall_forall in H. apply (rrec_one (length header)). apply H. exact Hin.
    - apply Forall_map. eapply Forall_impl; [|exact Hh]. intros l [_ [H1 H2]]. cbv beta. rewrite is_fmt_add_nl. split; [exact H1|].
      rewrite startswith_add_nl by reflexivity. exact H2.
    - apply Forall_map. eapply Forall_impl; [|exact H]. intros r Hr. cbn [fst snd]. rewrite map_length. split; [|split].
      + rewrite is_fmt_add_nl. apply (ro_fmt _ r Hr).
      + split.
        * apply Forall_map. eapply Forall_impl; [|apply (rrec_lines_not_fmt _ r Hr)]. intros l Hl. cbv beta. rewrite is_fmt_add_nl. exact Hl.
        * rewrite map_length. apply (ro_size _ r Hr).
      + pose proof (ro_struct_ne _ r Hr) as Hne. unfold rrec_lines. destruct (rr_struct r); [contradiction | discriminate].
  Qed.
End RdfFile.
