(* C02, writer_wellformed, part 7: the closure numbering of EVERY run of the writer on a well-formed molecule is consistent:
   the hypothesis wf_events of C02_closure_numbers_consistent holds for every component (WriterWfTree), so the invariant
   "no number in use is handed out, open cycles keep their numbers, all numbers in 1..99" is carried through all components
   of Smiles._smiles. *)
From Coq Require Import ZArith List Bool Lia Permutation.
From Model Require Import PyBase Graph Stereo Writer.
From Gen Require Import SmilesTables.
From Proofs Require Import WriterProofsClosures WriterWfAtoms WriterWfStream WriterWfDfs WriterWfEvents WriterWfTree.
Import ListNotations.
Open Scope Z_scope.

(* C02_closure_numbers_consistent with the cycles seen afterwards bounded by the ones processed *)
Lemma cnc_seen (good : Z -> Prop) tokens ro : forall todo casted heap open seen casted' heap',
  Inv good casted heap open seen -> NoDup open ->
  wf_events open seen (map (fun a => map snd (atom_closures tokens ro (fst a))) todo) ->
  number_atoms tokens ro todo casted heap = Ok (casted', heap') ->
  exists open' seen', Inv good casted' heap' open' seen' /\ NoDup open' /\
    (forall c, In c seen' -> In c seen \/ In c (concat (map (fun a => map snd (atom_closures tokens ro (fst a))) todo))).
Proof.
  induction todo as [|[a p] todo IH]; intros casted heap open seen casted' heap' I Hno Hwf Hrun.
  - cbn in Hrun. inversion Hrun. subst. exists open, seen. split; [exact I|]. split; [exact Hno|]. intros c Hc. left. exact Hc.
  - cbn [number_atoms] in Hrun. cbn [map fst] in Hwf. cbn [wf_events] in Hwf. destruct Hwf as [Hnd [Hcl Hwf]].
    fold (atom_closures tokens ro a) in Hrun.
    destruct (number_closures (atom_closures tokens ro a) casted heap []) as [[[c1 h1] rel]|e] eqn:En; [|discriminate].
    destruct (atom_no_clash good _ _ _ _ _ _ _ _ I Hno Hnd Hcl En) as [_ [_ [I1 Hno1]]].
    destruct (IH _ _ _ _ _ _ I1 Hno1 Hwf Hrun) as [open' [seen' [I' [Hno' Hs']]]].
    exists open', seen'. split; [exact I'|]. split; [exact Hno'|].
    intros c Hc. cbn [map concat fst]. destruct (Hs' c Hc) as [H | H].
    + apply in_app_or in H. destruct H as [H | H]; [left; exact H|].
      right. apply in_or_app. left. unfold opening in H. apply filter_In in H. apply H.
    + right. apply in_or_app. right. exact H.
Qed.

Section Run.
  Variable g : mol.
  Variable w tb : Z -> Z.
  Variable o : opts.
  Variable tabs : stabs.
  Hypothesis Hl : loop_free g.
  Hypothesis Hs : adj_sym g.

  Definition events_of (t : traversal) (smi : list tok) : list (list Z) :=
    let tokens := ds_tokens (tr_dfs t) in
    let ro := ring_positions tokens smi 0 in
    map (fun a => map snd (atom_closures tokens ro (fst a))) ro.

  Definition CInv (st : wstate) : Prop :=
    exists open seen, Inv rng (ws_casted st) (ws_heap st) open seen /\ NoDup open /\ (forall c, In c seen -> c <= ws_cycle st).

  Theorem component_closure_numbers : forall all st st' open seen,
    Inv rng (ws_casted st) (ws_heap st) open seen -> NoDup open -> (forall c, In c seen -> c <= ws_cycle st) ->
    component g w tb o tabs all st = Ok st' ->
    exists t smi, traverse g w tb o all st = Ok t /\ flatten g t = Ok smi /\
                  wf_events open seen (events_of t smi) /\ CInv st'.
  Proof.
    intros all st st' open seen I Hno Hseen H. unfold component in H.
    destruct (traverse g w tb o all st) as [t|] eqn:Et; [|discriminate].
    destruct (flatten g t) as [smi|] eqn:Ef; [|discriminate].
    exists t, smi. split; [first [exact Et | reflexivity]|]. split; [first [exact Ef | reflexivity]|].
    assert (Hos : forall c, In c open -> In c seen).
    { intros c Hc. apply (inv_seen _ _ _ _ _ I). apply (inv_dom _ _ _ _ _ I). exact Hc. }
    pose proof (traverse_wf_events_full g w tb o all st t smi open seen Hl Hs Et Ef Hos Hseen) as Hwf.
    split; [exact Hwf|].
    set (d := tr_dfs t) in *. set (ro := ring_positions (ds_tokens d) smi 0) in *.
    destruct (number_atoms (ds_tokens d) ro ro (ws_casted st) (ws_heap st)) as [[casted heap]|] eqn:En; [|discriminate].
    destruct (order_neighbours smi casted (ds_edges d) (ds_tokens d) (ds_visited d)) as [tokens' visited'].
    destruct (emit _ _ _ _ _ _ _) as [[[out ord] vb]|]; [|discriminate].
    inversion H. subst st'. clear H.
    destruct (cnc_seen rng _ _ _ _ _ _ _ _ _ I Hno Hwf En) as [open' [seen' [I' [Hno' Hs']]]].
    exists open', seen'. cbn [ws_casted ws_heap ws_cycle]. split; [exact I'|]. split; [exact Hno'|].
    pose proof (traverse_DI g w tb o all st t Hl Hs Et) as DIt. fold d in DIt.
    intros c Hc. destruct (Hs' c Hc) as [Hc1 | Hc1].
    - specialize (Hseen c Hc1). pose proof (di_cycle _ _ _ DIt). lia.
    - apply in_concat in Hc1. destruct Hc1 as [l [Hl1 Hc2]]. apply in_map_iff in Hl1. destruct Hl1 as [a [<- _]].
      apply in_map_iff in Hc2. destruct Hc2 as [[m c'] [E Hm]]. cbn in E. subst c'.
      unfold atom_closures in Hm. apply In_sort_by in Hm. destruct (di_tok _ _ _ DIt _ _ _ Hm) as [_ Hb]. lia.
  Qed.

  Lemma components_CInv all : forall fuel st st', CInv st -> components g w tb o tabs fuel all st = Ok st' -> CInv st'.
  Proof.
    induction fuel as [|fuel IH]; intros st st' [open [seen [I [Hno Hseen]]]] H; cbn [components] in H; [discriminate|].
    destruct (component g w tb o tabs all st) as [st1|] eqn:Ec; [|discriminate].
    destruct (component_closure_numbers all st st1 open seen I Hno Hseen Ec) as [t [smi [_ [_ [_ C1]]]]].
    destruct (ws_atoms st1); [inversion H; subst; exact C1 | apply (IH st1 st' C1 H)].
  Qed.

  Lemma init_CInv : CInv (init_state g).
  Proof.
    exists [], []. split; [exact initial_inv|]. split; [constructor | intros c []].
  Qed.
End Run.

(* every component of every run: the closure lists satisfy wf_events for the cycles open / seen so far, so
   C02_closure_numbers_atom applies at every atom that carries closures; the numbers stay in 1..99 *)
Theorem writer_closure_numbers : forall g w tb o tabs, wf_mol g = true ->
  forall fuel st st', CInv (init_state g) /\
    (CInv st -> components g w tb o tabs fuel (ids g) st = Ok st' -> CInv st') /\
    (forall open seen, Inv rng (ws_casted st) (ws_heap st) open seen -> NoDup open -> (forall c, In c seen -> c <= ws_cycle st) ->
       component g w tb o tabs (ids g) st = Ok st' ->
       exists t smi, traverse g w tb o (ids g) st = Ok t /\ flatten g t = Ok smi /\ wf_events open seen (events_of t smi) /\ CInv st').
Proof.
  intros g w tb o tabs Hwf fuel st st'. destruct (wf_mol_graph g Hwf) as [Hl Hs]. split; [apply init_CInv|]. split.
  - apply components_CInv; assumption.
  - intros open seen. apply component_closure_numbers; assumption.
Qed.
