(* C14 round 3: the executable matcher specification (Model.StandardizeMatch.brute_matches) satisfies, for ALL molecules and ring
   oracles, the matcher hypothesis match_ok of the conservation theorems -- so those theorems hold for the engine with this
   matcher without any assumption about the matcher. *)
From Coq Require Import ZArith List String Bool Lia.
From Model Require Import PyBase Graph PeriodicTable Standardize StandardizeMatch.
From Gen Require Import Elements StdRules.
From Proofs Require Import StandardizeProofs.
Import ListNotations.
Open Scope Z_scope.

(* table obligation: pattern bonds join two different pattern atoms *)
Definition bonds_wf (r : rule) : bool :=
  forallb (fun x => zmem (pb_n x) (pattern_ids r) && zmem (pb_m x) (pattern_ids r) && negb (pb_n x =? pb_m x)) (r_bonds r).
(* table obligation: an any-metal pattern atom has no charge constraint (AnyMetal.__eq__ does not compare charges) *)
Definition pmetal_unconstrained (r : rule) : bool :=
  forallb (fun a => match pa_kind a, pa_chg a with PMetal, Some _ => false | _, _ => true end) (r_atoms r).
Lemma table_bonds_wf_b : forallb (fun r => bonds_wf r && pmetal_unconstrained r) all_rules = true.
Proof. vm_compute. reflexivity. Qed.

Lemma NoDup_app_snoc {A} (l : list A) x : NoDup l -> ~ In x l -> NoDup (l ++ [x]).
Proof.
  induction l as [|y l IH]; intros Hnd Hx; cbn [app]; [constructor; [intros []|constructor]|].
  inversion Hnd as [|? ? Hy Hnd']; subst. constructor.
  - intros Hin. apply in_app_or in Hin. destruct Hin as [Hin | [-> | []]]; [exact (Hy Hin)|]. apply Hx. left. reflexivity.
  - apply IH; [exact Hnd'|]. intros Hin. apply Hx. right. exact Hin.
Qed.

Lemma in_two {A} (a b : A) l : In a l -> In b l -> a <> b ->
  (exists pre post, l = pre ++ a :: post /\ In b pre) \/ (exists pre post, l = pre ++ b :: post /\ In a pre).
Proof.
  induction l as [|x l IH]; intros Ha Hb Hab; [destruct Ha|].
  destruct Ha as [-> | Ha], Hb as [-> | Hb].
  - contradiction.
  - right. destruct (in_split _ _ Hb) as [l1 [l2 ->]]. exists (a :: l1), l2. split; [reflexivity|left; reflexivity].
  - left. destruct (in_split _ _ Ha) as [l1 [l2 ->]]. exists (b :: l1), l2. split; [reflexivity|left; reflexivity].
  - destruct (IH Ha Hb Hab) as [[pre [post [-> Hin]]] | [pre [post [-> Hin]]]].
    + left. exists (x :: pre), post. split; [reflexivity|right; exact Hin].
    + right. exists (x :: pre), post. split; [reflexivity|right; exact Hin].
Qed.

Lemma map_inj_in {A B} (f : A -> B) l x y : NoDup (map f l) -> In x l -> In y l -> f x = f y -> x = y.
Proof.
  induction l as [|z l IH]; intros Hnd Hx Hy Hf; [destruct Hx|]. cbn [map] in Hnd. inversion Hnd as [|? ? Hz Hnd']; subst.
  destruct Hx as [-> | Hx], Hy as [-> | Hy].
  - reflexivity.
  - exfalso. apply Hz. rewrite Hf. apply in_map. exact Hy.
  - exfalso. apply Hz. rewrite <- Hf. apply in_map. exact Hx.
  - exact (IH Hnd' Hx Hy Hf).
Qed.

Section Sound.
  Variable rings : Z -> list Z.
  Variable r : rule.
  Variable g : mol.

  Lemma atom_match_facts pa n : atom_match rings g pa n = true ->
    exists x, atom_of g n = Some x /\
      (forall c, pa_chg pa = Some c -> pa_kind pa <> PMetal -> a_chg x = c) /\
      (forall nums, pa_kind pa = PElem nums -> zmem (a_num x) nums = true) /\
      (pa_kind pa = PMetal -> is_metal (a_num x) = true).
  Proof.
    unfold atom_match. destruct (atom_of g n) as [x|]; [|discriminate]. intros H. exists x. split; [reflexivity|].
    destruct (pa_kind pa) as [nums| |] eqn:Ek.
    - destruct (zmem (a_num x) nums) eqn:E1; [|discriminate].
      destruct (pa_chg pa) as [c|] eqn:Ec.
      + destruct (a_chg x =? c) eqn:E2; [|discriminate]. apply Z.eqb_eq in E2.
        repeat split; try discriminate; intros; congruence.
      + repeat split; try discriminate; intros; congruence.
    - destruct (pa_chg pa) as [c|] eqn:Ec.
      + destruct (a_chg x =? c) eqn:E2; [|discriminate]. apply Z.eqb_eq in E2.
        repeat split; try discriminate; intros; congruence.
      + repeat split; try discriminate; intros; congruence.
    - destruct (is_metal (a_num x)) eqn:E1; [|discriminate]. repeat split; try discriminate; intros; congruence.
  Qed.

  (* the invariant of the enumeration *)
  Definition pairs_ok (acc : mapping) : Prop :=
    forall pre p n post, acc = pre ++ (p, n) :: post -> forall q m, In (q, m) pre -> pair_ok r g p n q m = true.
  Record minv (acc : mapping) : Prop := mkMinv {
    mi_vals : NoDup (values acc);
    mi_atoms : forall p n, In (p, n) acc -> exists pa, In pa (r_atoms r) /\ pa_id pa = p /\ atom_match rings g pa n = true;
    mi_pairs : pairs_ok acc }.

  Lemma pair_ok_neq p n q m : pair_ok r g p n q m = true -> n <> m.
  Proof. unfold pair_ok. destruct (n =? m) eqn:E; [discriminate|]. intros _. apply Z.eqb_neq. exact E. Qed.

  Lemma minv_nil : minv [].
  Proof.
    constructor; [constructor|intros p n []|].
    intros pre p n post H. destruct pre; discriminate.
  Qed.

  Lemma minv_snoc acc pa n : minv acc -> In pa (r_atoms r) -> atom_match rings g pa n = true ->
    forallb (fun qm => pair_ok r g (pa_id pa) n (fst qm) (snd qm)) acc = true -> minv (acc ++ [(pa_id pa, n)]).
  Proof.
    intros [Hv Ha Hp] Hin Hm Hall. rewrite forallb_forall in Hall. constructor.
    - unfold values in *. rewrite map_app. cbn [map snd]. apply NoDup_app_snoc; [exact Hv|].
      intros Hn. apply in_map_iff in Hn. destruct Hn as [[q m] [Hq Hqm]]. cbn [snd] in Hq. subst m.
      specialize (Hall (q, n) Hqm). cbn [fst snd] in Hall. exact (pair_ok_neq _ _ _ _ Hall eq_refl).
    - intros p k Hk. apply in_app_or in Hk. destruct Hk as [Hk | [Hk | []]]; [exact (Ha p k Hk)|].
      inversion Hk; subst. exists pa. auto.
    - intros pre p k post Heq q m Hqm.
      destruct post as [|y post].
      + apply app_inj_tail in Heq. destruct Heq as [-> Heq]. inversion Heq; subst.
        specialize (Hall (q, m) Hqm). exact Hall.
      + assert (Hacc : acc = pre ++ (p, k) :: removelast (y :: post)).
        { assert (Hne : (p, k) :: y :: post <> []) by discriminate.
          pose proof (f_equal (@removelast _) Heq) as Hr. rewrite removelast_last in Hr.
          rewrite removelast_app in Hr by discriminate. cbn [removelast] in Hr. exact Hr. }
        exact (Hp pre p k _ Hacc q m Hqm).
  Qed.

  Lemma extend_inv : forall todo acc mp, (forall pa, In pa todo -> In pa (r_atoms r)) ->
    In mp (extend rings r g todo acc) -> minv acc -> minv mp /\ keys mp = keys acc ++ map pa_id todo.
  Proof.
    induction todo as [|pa todo IH]; intros acc mp Hsub Hin Hinv; cbn [extend] in Hin.
    - destruct Hin as [<- | []]. split; [exact Hinv|]. cbn [map]. rewrite app_nil_r. reflexivity.
    - apply in_flat_map in Hin. destruct Hin as [n [_ Hin]].
      destruct (atom_match rings g pa n) eqn:Em; [|destruct Hin].
      destruct (forallb (fun qm => pair_ok r g (pa_id pa) n (fst qm) (snd qm)) acc) eqn:Ef; [|destruct Hin].
      destruct (IH _ _ (fun x Hx => Hsub x (or_intror Hx)) Hin (minv_snoc acc pa n Hinv (Hsub pa (or_introl eq_refl)) Em Ef)) as [H1 H2].
      split; [exact H1|]. rewrite H2. unfold keys. rewrite map_app. cbn [map fst]. rewrite <- app_assoc. reflexivity.
  Qed.

  Lemma bond_adjacent n m b : bond_of g n m = Some b -> adjacent g n m = true.
  Proof.
    unfold bond_of, adjacent, nbr_ids. intros H. apply zmem_In. apply zget_In in H. unfold keys. apply (in_map fst) in H. exact H.
  Qed.

  Lemma pair_ok_bond p n q m : pair_ok r g p n q m = true -> pbond_between r p q <> None ->
    adjacent g n m = true /\ adjacent g m n = true.
  Proof.
    unfold pair_ok. destruct (n =? m); [discriminate|]. intros H Hb.
    destruct (pbond_between r p q) as [pb|]; [|contradiction].
    destruct (bond_of g n m) as [b|] eqn:E1; [|discriminate]. destruct (bond_of g m n) as [b'|] eqn:E2; [|discriminate].
    split; [exact (bond_adjacent _ _ _ E1)|exact (bond_adjacent _ _ _ E2)].
  Qed.

  Lemma pbond_between_some x : In x (r_bonds r) -> pbond_between r (pb_n x) (pb_m x) <> None /\ pbond_between r (pb_m x) (pb_n x) <> None.
  Proof.
    intros Hx. unfold pbond_between. split.
    - destruct (find _ (r_bonds r)) eqn:E; [discriminate|]. exfalso. pose proof (find_none _ _ E x Hx) as H. cbn beta in H.
      rewrite !Z.eqb_refl in H. discriminate.
    - destruct (find _ (r_bonds r)) eqn:E; [discriminate|]. exfalso. pose proof (find_none _ _ E x Hx) as H. cbn beta in H.
      rewrite !Z.eqb_refl in H. cbn in H. rewrite orb_true_r in H. discriminate.
  Qed.

  Theorem brute_sound mp : nodup_z (pattern_ids r) = true -> bonds_wf r = true -> pmetal_unconstrained r = true ->
    In mp (brute_matches rings 0 0 r g) -> match_ok r g mp = true.
  Proof.
    intros Hids Hbw Hpm Hin. unfold brute_matches in Hin.
    destruct (extend_inv (r_atoms r) [] mp (fun pa H => H) Hin minv_nil) as [[Hv Ha Hp] Hk]. cbn [keys map app] in Hk.
    fold (pattern_ids r) in Hk. pose proof (nodup_z_NoDup _ Hids) as Hnd.
    assert (Hget : forall p, In p (pattern_ids r) -> exists n, zget mp p = Some n /\ In (p, n) mp).
    { intros p Hp'. rewrite <- Hk in Hp'. destruct (zget_some_of_key mp p Hp') as [n Hn]. exists n. split; [exact Hn|exact (zget_In _ _ _ Hn)]. }
    unfold match_ok. rewrite !andb_true_iff. repeat split.
    - clear - Hv. induction (values mp) as [|x l IH]; [reflexivity|]. inversion Hv as [|? ? Hx Hv']; subst. cbn [nodup_z].
      apply andb_true_iff. split; [|exact (IH Hv')]. apply negb_true_iff. destruct (zmem x l) eqn:E; [|reflexivity].
      apply zmem_In in E. contradiction.
    - rewrite Hk. exact Hids.
    - apply forallb_forall. intros a Hain. unfold patom_ok.
      destruct (Hget (pa_id a) (in_map pa_id _ _ Hain)) as [n [Hn Hinn]]. rewrite Hn.
      destruct (Ha _ _ Hinn) as [pa [Hpa [Hid Hm]]].
      assert (pa = a) by (exact (map_inj_in pa_id (r_atoms r) pa a Hnd Hpa Hain Hid)). subst pa.
      destruct (atom_match_facts a n Hm) as [x [Hx [Hc [He Hme]]]]. rewrite Hx. apply andb_true_iff. split.
      + destruct (pa_chg a) as [c|] eqn:Ec; [|reflexivity]. destruct (pa_kind a) eqn:Ek.
        * apply Z.eqb_eq. apply (Hc c eq_refl). discriminate.
        * apply Z.eqb_eq. apply (Hc c eq_refl). discriminate.
        * (* AnyMetal with a charge constraint: excluded by the table obligation *)
          exfalso. unfold pmetal_unconstrained in Hpm. rewrite forallb_forall in Hpm. specialize (Hpm a Hain).
          rewrite Ek, Ec in Hpm. discriminate.
      + destruct (pa_kind a) eqn:Ek; [exact (He _ eq_refl)|reflexivity|exact (Hme eq_refl)].
    - apply forallb_forall. intros x Hx.
      unfold bonds_wf in Hbw. rewrite forallb_forall in Hbw. specialize (Hbw x Hx). rewrite !andb_true_iff in Hbw.
      destruct Hbw as [[Hp1 Hp2] Hne]. apply zmem_In in Hp1, Hp2. apply negb_true_iff in Hne. apply Z.eqb_neq in Hne.
      destruct (Hget _ Hp1) as [n [Hn Hin1]]. destruct (Hget _ Hp2) as [m [Hm Hin2]]. rewrite Hn, Hm.
      destruct (pbond_between_some x Hx) as [Hb1 Hb2].
      assert (Hneq : (pb_n x, n) <> (pb_m x, m)) by (intros H; inversion H; contradiction).
      destruct (in_two _ _ mp Hin1 Hin2 Hneq) as [[pre [post [Heq Hpre]]] | [pre [post [Heq Hpre]]]].
      + destruct (pair_ok_bond _ _ _ _ (Hp pre _ _ post Heq _ _ Hpre) Hb1) as [A B]. rewrite A, B. reflexivity.
      + destruct (pair_ok_bond _ _ _ _ (Hp pre _ _ post Heq _ _ Hpre) Hb2) as [A B]. rewrite A, B. reflexivity.
  Qed.
End Sound.

Lemma rule_ok_nodup_ids r : rule_ok r = true -> nodup_z (pattern_ids r) = true.
Proof.
  intros H. destruct (rule_ok_parts r H) as [_ [_ [Hn _]]]. unfold names_ok in Hn. rewrite !andb_true_iff in Hn. tauto.
Qed.

(* the matcher specification satisfies the matcher hypothesis of the conservation theorems, for every molecule and ring oracle *)
Theorem spec_matcher_sound rings : matcher_sound (spec_matches rings) all_rules.
Proof.
  intros stage ridx r g mp Hr Hin.
  pose proof (table_sweep _ table_bonds_wf_b r Hr) as Hb. cbn beta in Hb. apply andb_true_iff in Hb. destruct Hb as [Hb1 Hb2].
  exact (brute_sound (rings g) r g mp (rule_ok_nodup_ids r (table_rule_ok r Hr)) Hb1 Hb2 Hin).
Qed.

Lemma valid_matcher_sound rings : matcher_sound (valid_matches rings) all_rules.
Proof.
  intros stage ridx r g mp Hr Hin. unfold valid_matches in Hin. destruct (centre_invalid r); [destruct Hin|].
  exact (spec_matcher_sound rings stage ridx r g mp Hr Hin).
Qed.
Lemma valid_matcher_respects rings : respects_valence (valid_matches rings).
Proof. intros stage ridx r g Hr Hc. unfold valid_matches. rewrite Hc. reflexivity. Qed.

(* NO matcher hypothesis left: for EVERY molecule with distinct atom numbers, every ring-size function and every hydrogen
   calculator, the four-pass sequence of standardize() over the real tables with the specified matcher (unbalanced rules off)
   never fails and conserves atoms, elements, isotopes, adjacency and net charge *)
Theorem engine_conserves rings calc_h fix_taut g : NoDup (ids g) ->
  exists g' log fixed,
    standardize_passes (valid_matches rings) calc_h double_rules single_rules metal_rules fix_taut g = Ok (g', log, fixed) /\ conserved g g'.
Proof.
  intros Hnd. exact (standardize_real_conserves (valid_matches rings) calc_h fix_taut g (valid_matcher_sound rings) (valid_matcher_respects rings) Hnd).
Qed.

(* non-vacuity: the engine does something: nitromethane spelled C-N(=O)=O is converted *)
Theorem engine_example :
  exists g' log fixed,
    standardize_passes (valid_matches rings_bf) calc_h double_rules single_rules metal_rules true (recalc calc_h nitro_mol (ids nitro_mol)) = Ok (g', log, fixed) /\
    List.length log = 1%nat /\ charge_of g' 2 = Some 1 /\ total_charge g' = 0 /\
    (charge_of g' 3 = Some (-1) \/ charge_of g' 4 = Some (-1)).
Proof. eexists _, _, _. split; [vm_compute; reflexivity|]. vm_compute. repeat split; try reflexivity. left. reflexivity. Qed.
