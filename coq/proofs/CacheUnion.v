(* C13 -- union (in place and copying) keeps the world invariant: the merged molecule is built from fresh copies only. *)
From Coq Require Import ZArith List Bool Lia.
From Model Require Import PyBase Cache.
From Proofs Require Import CacheProofs CacheWf CacheCopy CacheCoh CacheWorld.
Import ListNotations.
Open Scope Z_scope.

Lemma zupdate_app {V} (b : list (Z * V)) : forall a, NoDup (keys b) -> (forall k, In k (keys b) -> ~ In k (keys a)) -> zupdate a b = a ++ b.
Proof.
  unfold zupdate. induction b as [|[k v] t IH]; intros a N D; cbn [fold_left]; [now rewrite app_nil_r|]. cbn [fst snd].
  cbn in N. inversion N as [|? ? Hk Nt]; subst. rewrite (zset_notin_app a k v) by (apply D; now left).
  rewrite IH; [now rewrite <- app_assoc | exact Nt|]. intros x Hx. rewrite keys_app. cbn. intros Hi. apply in_app_or in Hi.
  destruct Hi as [Hi|[E|[]]]; [exact (D x (or_intror Hx) Hi) | subst x; contradiction].
Qed.
Lemma NoDup_app_disj {A} (a b : list A) : NoDup a -> NoDup b -> (forall x, In x b -> ~ In x a) -> NoDup (a ++ b).
Proof.
  induction a as [|x a IH]; cbn; intros Na Nb D; [exact Nb|]. inversion Na; subst. constructor.
  - intros Hi. apply in_app_or in Hi. destruct Hi as [Hi|Hi]; [contradiction | exact (D x Hi (or_introl eq_refl))].
  - apply IH; auto. intros y Hy Hi. exact (D y Hy (or_intror Hi)).
Qed.

Lemma wfa_union h a1 adj1 a2 adj2 :
  wfa h a1 adj1 -> wfa h a2 adj2 -> (forall k, In k (keys a2) -> ~ In k (keys a1)) -> wfa h (a1 ++ a2) (adj1 ++ adj2).
Proof.
  intros W1 W2 D. pose proof W1 as W10. pose proof W2 as W20.
  destruct W1 as [K1 [N1 R1] S1 L1 V1 T1]. destruct W2 as [K2 [N2 R2] S2 L2 V2 T2].
  assert (forall x y, aslot (adj1 ++ adj2) x y = match zget adj1 x with Some rw => zget rw y | None => aslot adj2 x y end) as A.
  { intros x y. unfold aslot. rewrite zget_app. now destruct (zget adj1 x). }
  assert (forall x, In x (keys adj2) -> zget adj1 x = None) as D'.
  { intros x Hx. apply zget_None_keys. rewrite K1. apply D. now rewrite <- K2. }
  constructor.
  - rewrite !keys_app. now rewrite K1, K2.
  - split.
    + rewrite keys_app. apply NoDup_app_disj; auto. intros x Hx. rewrite K1. apply D. now rewrite <- K2.
    + intros n rw. rewrite zget_app. destruct (zget adj1 n) eqn:E; [intros H; inversion H; subst; eapply R1; eauto | apply R2].
  - intros x y r. rewrite !A. destruct (zget adj1 x) as [rw|] eqn:Ex.
    + intros H. assert (aslot adj1 x y = Some r) as S by (unfold aslot; now rewrite Ex). apply S1 in S.
      unfold aslot in S. destruct (zget adj1 y); [exact S | discriminate].
    + intros H. pose proof (S2 _ _ _ H) as S. rewrite (D' y); [exact S|]. eapply aslot_key_l; eauto.
  - intros x. rewrite A. destruct (zget adj1 x) as [rw|] eqn:Ex; [|apply L2]. specialize (L1 x). unfold aslot in L1. now rewrite Ex in L1.
  - intros r. rewrite arefs_app. intros H. apply in_app_or in H. destruct H; auto.
  - intros r. rewrite arefs_app. intros H. apply in_app_or in H. destruct H; auto.
Qed.

(* ---- the renumbering of the copy of `other` *)
Lemma remap_spec mp h o : match remap mp h o with (h', o', e) =>
  h' = h /\ ((e = Some ValueError /\ o' = o) \/
             (e = None /\ o_atoms o' = rn_atoms (mg mp) (o_atoms o) /\ o_adj o' = rn_adj (mg mp) (o_adj o) /\ o_backup o' = o_backup o /\ o_cache o' = [])) end.
Proof.
  unfold remap. destruct (negb (nodup_z (map snd mp)) || existsb _ (keys (o_atoms o))); [cbn; auto|].
  unfold flush, ok. cbn beta iota. split; [reflexivity|]. right. simpo. rewrite filter_kept_ff. repeat split.
Qed.
Lemma zget_combine (ks vs : list Z) n : length vs = length ks -> In n ks -> exists v, zget (combine ks vs) n = Some v /\ In v vs.
Proof.
  revert vs. induction ks as [|k t IH]; intros vs L H; [destruct H|]. destruct vs as [|v vs]; [discriminate|]. cbn.
  destruct (Z.eqb_spec n k); [exists v; split; auto; now left|]. destruct H as [H|H]; [congruence|].
  destruct (IH vs) as [w [A B]]; auto. exists w. split; [exact A | now right].
Qed.
Lemma zrange_from_length s n : length (zrange_from s n) = n.
Proof. revert s. induction n; cbn; intros; [reflexivity | now rewrite IHn]. Qed.

(* replacing the current molecule by one whose bond objects are its own or fresh *)
Lemma W_replace_cur h h2 o o' others :
  W (mkS h o others) -> hext h h2 -> U h2 o' -> o_backup o' = o_backup o ->
  (forall r, In r (arefs (o_adj o')) -> In r (arefs (o_adj o)) \/ h_next h <= r) -> W (mkS h2 o' others).
Proof.
  unfold W. cbn [s_heap]. rewrite !units_cons. intros [F P] X Uo' Bk Rf. rewrite (shadow_same o o' Bk).
  set (R := shadow o ++ flat_map units_of others) in *. inversion F as [|? ? Uo FR]; subst. destruct P as [P1 P2].
  rewrite Forall_forall in FR. split.
  - constructor; [exact Uo'|]. rewrite Forall_forall. intros y Hy. eapply hext_U; eauto.
  - split; [|exact P2]. intros y Hy r H1 H2. apply Rf in H1. destruct H1 as [H1|H1]; [eapply P1; eauto|].
    pose proof (U_lt _ _ _ (FR y Hy) H2). lia.
Qed.

Lemma keys_other_disj (a b : list Z) : existsb (fun n => zmem n b) a = false -> forall k, In k b -> ~ In k a.
Proof.
  intros E k Hb Ha. assert (existsb (fun n => zmem n b) a = true); [|congruence]. apply existsb_exists. exists k. split; [exact Ha|].
  now apply zmem_In.
Qed.

Theorem W_step_union rmp cp s : W s -> W (fst (union rmp cp s)).
Proof.
  intros Ws. pose proof (W_cur s Ws) as Uc. unfold union. destruct s as [h self others]. cbn [s_heap s_cur s_others] in *.
  destruct others as [|other rest]; [exact Ws|].
  assert (U h other) as Uot.
  { destruct Ws as [F _]. rewrite Forall_forall in F. apply F. apply in_flat_map. exists other. split; [right; now left | now left]. }
  set (collide := existsb (fun n => zmem n (keys (o_atoms other))) (keys (o_atoms self))).
  destruct (collide && negb rmp) eqn:Ecn; [exact Ws|].
  destruct (copy_mol false false h other) as [[h1 oc]|e] eqn:Ec; [|exact Ws].
  destruct (copy_mol_spec _ _ _ _ _ _ (proj1 (proj1 Uot)) Ec) as [cb [Eoc [Woc [X1 [Fr1 _]]]]].
  assert (inv1 h1 oc) as Ioc.
  { split; [exact Woc|]. subst oc. intros l Hl x Hx. cbn [o_changed o_atoms] in *. destruct Uot as [[_ Cw] _]. eapply Cw; eauto. }
  assert (forall r, In r (arefs (o_adj oc)) -> h_next h <= r) as Froc by (subst oc; exact Fr1).
  (* the (possibly renumbered) copy of other *)
  assert (exists h2 oc' e2, (if collide then remap (combine (keys (o_atoms oc)) (zrange_from (zmax (keys (o_atoms self)) 0 + 1) (length (o_atoms oc)))) h1 oc
                             else ok h1 oc) = (h2, oc', e2) /\ h2 = h1 /\ inv1 h1 oc' /\
                            (forall r, In r (arefs (o_adj oc')) -> h_next h <= r) /\
                            (e2 = None -> forall k, In k (keys (o_atoms oc')) -> ~ In k (keys (o_atoms self)))) as [h2 [oc' [e2 [Er [Eh [Ioc' [Froc' Dk]]]]]]].
  { destruct collide eqn:Ecol.
    - set (mp := combine _ _). pose proof (remap_good mp h1 oc Ioc) as G. pose proof (remap_spec mp h1 oc) as Sp.
      destruct (remap mp h1 oc) as [[h2 oc'] e2]. exists h2, oc', e2. destruct Sp as [-> Sp]. destruct G as [I2 [_ [_ [Rf _]]]].
      split; [reflexivity|]. split; [reflexivity|]. split; [exact I2|]. split.
      + intros r Hr. apply Rf in Hr. destruct Hr as [Hr|Hr]; [now apply Froc | destruct X1; lia].
      + intros E2. destruct Sp as [[Ee _]|[_ [Ea _]]]; [congruence|]. rewrite Ea, keys_rn_atoms. intros k Hk Hs.
        apply in_map_iff in Hk. destruct Hk as [n [<- Hn]].
        destruct (zget_combine (keys (o_atoms oc)) (zrange_from (zmax (keys (o_atoms self)) 0 + 1) (length (o_atoms oc))) n) as [v [Hv Iv]];
          [rewrite zrange_from_length; unfold keys; now rewrite map_length | exact Hn|].
        unfold mg, mp in Hs. rewrite Hv in Hs. apply zrange_from_In in Iv. apply (zmax_ge _ 0) in Hs. lia.
    - exists h1, oc, None. split; [reflexivity|]. split; [reflexivity|]. split; [exact Ioc|]. split; [exact Froc|]. intros _.
      subst oc. cbn [o_atoms]. apply keys_other_disj. exact Ecol. }
  rewrite Er. subst h2. destruct e2 as [e2|]; [cbn [fst]; now apply (W_heap_ext h h1)|]. specialize (Dk eq_refl).
  destruct Ioc' as [Woc' Cwoc'].
  assert (NoDup (keys (o_atoms oc'))) as Ndoc by (rewrite <- (wf_keys _ _ _ Woc'); apply (wf_nd _ _ _ Woc')).
  assert (NoDup (keys (o_adj oc'))) as Ndad by (apply (wf_nd _ _ _ Woc')).
  destruct cp.
  - (* a new molecule *)
    destruct (copy_mol false false h1 self) as [[h3 u]|e] eqn:Eu; [|cbn [fst]; now apply (W_heap_ext h h1)].
    assert (U h1 self) as Us1 by (eapply hext_U; eauto).
    destruct (copy_mol_spec _ _ _ _ _ _ (proj1 (proj1 Us1)) Eu) as [cbu [Eub [Wu [X3 [Fr3 _]]]]]. cbn [fst].
    assert (hext h h3) as X by (eapply hext_trans; eauto).
    assert (forall k, In k (keys (o_adj oc')) -> ~ In k (keys cbu)) as DAu.
    { intros k Hk. rewrite (wf_keys _ _ _ Woc') in Hk. subst u. unfold wf in Wu. cbn [o_atoms o_adj] in Wu. rewrite (wf_keys _ _ _ Wu). now apply Dk. }
    apply (W_add h h3 self (other :: rest) _ Ws X).
    + subst u. simpo. rewrite filter_kept_ff.
      rewrite (zupdate_app (o_atoms oc') _ Ndoc Dk), (zupdate_app (o_adj oc') _ Ndad DAu).
      assert (K2 h3 (mkM (o_atoms self ++ o_atoms oc') (cbu ++ o_adj oc') [] (o_changed self) None (o_name self) (o_meta self))) as K
        by (now apply K2_nil).
      split; [split|split; [apply Coh_CohFC; now apply K2_Coh | intros _; now apply K2_Coh]].
      * unfold wf. cbn [o_atoms o_adj]. apply wfa_union; [rewrite filter_kept_ff in Wu; exact Wu | | exact Dk].
        eapply wfa_ext; [exact Woc' | destruct X3; lia |]. intros r Hr. apply X3. apply (wf_lt _ _ _ Woc'). exact Hr.
      * intros l Hl x Hx. change (In x (keys (o_atoms self ++ o_atoms oc'))). rewrite keys_app. apply in_or_app. left. destruct Uc as [[_ Cw] _]. eapply Cw; eauto.
    + subst u. reflexivity.
    + subst u. simpo. rewrite (zupdate_app (o_adj oc') _ Ndad DAu).
      intros r. rewrite arefs_app. intros Hr. apply in_app_or in Hr. destruct Hr as [Hr|Hr]; [apply Fr3 in Hr; destruct X1; lia | now apply Froc'].
  - (* in place *)
    unfold lift, flush, ok. cbn [s_heap s_cur s_others fst]. simpo. rewrite filter_kept_ff.
    assert (U h1 self) as Us1 by (eapply hext_U; eauto). destruct Us1 as [[Ws1 Cws] _].
    assert (forall k, In k (keys (o_adj oc')) -> ~ In k (keys (o_adj self))) as DAs.
    { intros k Hk. rewrite (wf_keys _ _ _ Woc') in Hk. rewrite (wf_keys _ _ _ Ws1). now apply Dk. }
    rewrite (zupdate_app (o_atoms oc') _ Ndoc Dk), (zupdate_app (o_adj oc') _ Ndad DAs).
    apply (W_replace_cur h h1 self _ (other :: rest) Ws X1); [| reflexivity |].
    + assert (K2 h1 (mkM (o_atoms self ++ o_atoms oc') (o_adj self ++ o_adj oc') [] (o_changed self) (o_backup self) (o_name self) (o_meta self))) as K
        by (now apply K2_nil).
      split; [split|split; [apply Coh_CohFC; now apply K2_Coh | intros _; now apply K2_Coh]].
      * unfold wf. cbn [o_atoms o_adj]. now apply wfa_union.
      * intros l Hl x Hx. change (In x (keys (o_atoms self ++ o_atoms oc'))). rewrite keys_app. apply in_or_app. left. eapply Cws; eauto.
    + intros r Hr. change (In r (arefs (o_adj self ++ o_adj oc'))) in Hr. rewrite arefs_app in Hr. apply in_app_or in Hr. destruct Hr as [Hr|Hr]; [now left | right; now apply Froc'].
Qed.

(* ================================================================================================ *)
(* the contract of an operation: attribute setters only inside a transaction ("make sure to flush cache ... or use context
   manager") *)
Definition op_ok (s : state) (p : op) : Prop :=
  match p with
  | OSetCharge _ _ | OSetRadical _ _ => o_backup (s_cur s) <> None
  | _ => True
  end.

Lemma W_sub_step_g rh ats s : W s -> W (fst (sub_step_g rh ats s)).
Proof.
  intros Ws. unfold sub_step_g. destruct s as [h o others]. cbn [s_heap s_cur s_others].
  destruct (substructure_g rh ats h o) as [[[h2 o2] e]|err] eqn:E; [|exact Ws].
  destruct (W_sub_g rh ats h o others h2 o2 e Ws E) as [X K].
  destruct e as [e|]; cbn [fst]; [now apply (W_heap_ext h h2) | now apply K].
Qed.
Lemma W_sub_step ats s : W s -> W (fst (sub_step ats s)).
Proof. apply W_sub_step_g. Qed.
Lemma W_split_loop cs : forall s old, W s -> W (mkS (s_heap s) (s_cur s) old) -> W (fst (split_loop cs s old)).
Proof.
  induction cs as [|c t IH]; intros [h o others] old Ws Wo; cbn [split_loop fst s_heap s_cur s_others] in *; [exact Ws|].
  destruct (substructure_g false c h o) as [[[h2 o2] e]|err] eqn:E; [|exact Wo].
  destruct (W_sub_g false c h o others h2 o2 e Ws E) as [X K].
  destruct e as [e|]; [cbn [fst]; now apply (W_heap_ext h h2)|].
  apply IH; [now apply K | cbn [s_heap s_cur]; now apply (W_heap_ext h h2)].
Qed.
Theorem step_W s p : W s -> op_ok s p -> W (fst (step s p)).
Proof.
  intros Ws Ok. pose proof (W_cur s Ws) as Uc. destruct p; cbn [step op_ok] in *.
  - apply W_lift; [exact Ws | apply read_good | now apply read_HC].
  - apply W_strong; [exact Ws | apply add_atom_good | apply add_atom_strong].
  - apply W_strong; [exact Ws | apply add_bond_good | apply add_bond_strong].
  - apply W_strong; [exact Ws | apply delete_atom_good | apply delete_atom_strong].
  - apply W_strong; [exact Ws | apply delete_bond_good | apply delete_bond_strong].
  - apply W_strong; [exact Ws | apply remap_good | apply remap_strong].
  - now apply W_step_union.
  - pose proof (W_step_copy s Ws) as K. destruct (copy_mol false false (s_heap s) (s_cur s)) as [[h1 b]|e]; exact K.
  - now apply W_sub_step.
  - now apply W_sub_step.
  - destruct (negb (subset_z ats (keys (o_atoms (s_cur s))))); [exact Ws|].
    destruct (filter (fun n => negb (zmem n ats)) (keys (o_atoms (s_cur s)))); [exact Ws | now apply W_sub_step].
  - destruct (negb (subset_z ats (keys (o_adj (s_cur s))))); [exact Ws|].
    destruct (aug_grow (o_adj (s_cur s)) ats deep); [now apply W_sub_step | exact Ws].
  - assert (W (fst (lift (read Kcc) s))) as W1 by (apply W_lift; [exact Ws | apply read_good | now apply read_HC]).
    apply W_split_loop; [exact W1|]. destruct (fst (lift (read Kcc) s)); exact W1.
  - now apply W_sub_step_g.
  - destruct s as [h o [|a t]]; [exact Ws | now apply W_swap].
  - apply W_strong; [exact Ws | apply flush_good | apply flush_strong].
  - now apply W_step_enter.
  - now apply W_step_exit_ok.
  - now apply W_step_exit_exn.
  - apply W_lift; [exact Ws | apply set_charge_good | now apply set_charge_HC].
  - apply W_lift; [exact Ws | apply set_radical_good | now apply set_radical_HC].
  - apply W_strong; [exact Ws | apply patch_good | apply patch_strong].
  - apply W_lift; [exact Ws | apply (set_name_good (Some x)) | cbv beta iota delta [ok]; now apply (same_view_HC _ (s_cur s))].
  - apply W_lift; [exact Ws | apply (set_meta_good (Some (zset (match o_meta (s_cur s) with Some d => d | None => [] end) k v))) | cbv beta iota delta [ok]; now apply (same_view_HC _ (s_cur s))].
Qed.

Fixpoint ops_ok (s : state) (ops : list op) : Prop :=
  match ops with [] => True | p :: t => op_ok s p /\ ops_ok (fst (step s p)) t end.
Theorem run_W ops : forall s, W s -> ops_ok s ops -> W (run ops s).
Proof.
  unfold run. induction ops as [|p t IH]; intros s Ws Ok; [exact Ws|]. cbn [fold_left]. destruct Ok as [O1 O2].
  apply IH; [now apply step_W | exact O2].
Qed.

(* the empty world *)
Definition empty_mol : mobj := mkM [] [] [] None None None None.
Definition empty_state : state := mkS (mkH [] 0) empty_mol [].
Lemma W_empty : W empty_state.
Proof.
  split; [|cbn; split; [intros ? [] | exact I]]. constructor; [|constructor]. split; [split|split].
  - constructor.
    + reflexivity.
    + split; [constructor | intros ? ? H; discriminate].
    + intros n m r H. discriminate.
    + reflexivity.
    + intros r [].
    + intros r [].
  - intros l H. discriminate.
  - intros k s _ H. discriminate.
  - intros _ k s H. discriminate.
Qed.
