(* C17 extension: (A) the theorems of FingerprintProofs for an ARBITRARY identifier dictionary (the *_with functions),
   (B) their instances for CGR containers (Model.FingerprintCGR). *)
From Coq Require Import ZArith List Bool Lia Permutation.
From Model Require Import PyBase Graph PyHash Fingerprint FingerprintCGR.
From Proofs Require Import FingerprintProofs.
Import ListNotations.
Open Scope Z_scope.

Lemma iter_S {A} (f : A -> A) n x : Nat.iter (S n) f x = f (Nat.iter n f x).
Proof. reflexivity. Qed.

Definition ren (s : Z -> Z) (d : list (Z * Z)) : list (Z * Z) := map (fun e => (s (fst e), snd e)) d.

(* ==================================================================================================== *)
(* A. generic in the identifier dictionary *)
Section GenericRename.
  Variable s : Z -> Z.
  Hypothesis s_inj : forall x y, s x = s y -> x = y.

  Lemma ident_ren idd x : ident (ren s idd) (s x) = ident idd x.
  Proof. unfold ident, ren. rewrite (zget_rename_id s s_inj). reflexivity. Qed.

  Lemma fragment_keys_with_rename idd g lo hi : wf_mol g = true ->
    Permutation (map (frag_key (ident idd) (bond_order g)) (chains g lo hi))
                (map (frag_key (ident (ren s idd)) (bond_order (rename_mol s g))) (chains (rename_mol s g) lo hi)).
  Proof.
    intro Hwf. apply (fragment_keys_rename s s_inj).
    - intro x. apply ident_ren.
    - intros x y. apply bond_order_rename. exact s_inj.
    - apply bond_order_sym. exact Hwf.
    - apply wf_mol_sym_closed. exact Hwf.
  Qed.

  Theorem linear_hashes_with_rename (h : list Z -> Z) idd g lo hi nbp : wf_mol g = true ->
    forall x, In x (linear_hashes h nbp (fragments_with (ren s idd) (rename_mol s g) lo hi)) <->
              In x (linear_hashes h nbp (fragments_with idd g lo hi)).
  Proof.
    intros Hwf x. unfold fragments_with. symmetry. apply linear_hashes_keys_perm.
    apply fragment_keys_with_rename. exact Hwf.
  Qed.

  Theorem fragment_counts_with_rename idd g lo hi k : wf_mol g = true ->
    length (fget (fragments_with (ren s idd) (rename_mol s g) lo hi) k) = length (fget (fragments_with idd g lo hi) k).
  Proof.
    intro Hwf. unfold fragments_with. rewrite !fragments_of_count. unfold key_count.
    apply Permutation_length, Permutation_filter, Permutation_sym, fragment_keys_with_rename. exact Hwf.
  Qed.

  Theorem morgan_hash_dict_with_rename (h : list Z -> Z) idd g lo hi :
    morgan_hash_dict_with h (ren s idd) (rename_mol s g) lo hi =
    match morgan_hash_dict_with h idd g lo hi with Ok ds => Ok (map (ren s) ds) | Err e => Err e end.
  Proof.
    unfold morgan_hash_dict_with. destruct (lo <? 1); [reflexivity|]. destruct (hi <? lo); [reflexivity|].
    unfold ren. rewrite (morgan_iter_rename h s s_inj), map_length, skipn_map'. reflexivity.
  Qed.
End GenericRename.

(* the wf_mol of a renumbered molecule *)
Lemma bit_list_set_ext len nab l l' : (forall x, In x l <-> In x l') ->
  match bit_list len nab l, bit_list len nab l' with
  | Ok bits, Ok bits' => forall b, In b bits <-> In b bits'
  | Err e, Err e' => e = e'
  | _, _ => False
  end.
Proof.
  intro H. destruct (bit_list len nab l) as [bits|e] eqn:E1; destruct (bit_list len nab l') as [bits'|e'] eqn:E2.
  - intro b. rewrite (bit_list_In _ _ _ _ b E1), (bit_list_In _ _ _ _ b E2).
    split; intros [t [Ht Hb]]; exists t; (split; [|exact Hb]); apply H; exact Ht.
  - unfold bit_list in *. destruct (len <=? 0); discriminate.
  - unfold bit_list in *. destruct (len <=? 0); discriminate.
  - unfold bit_list in *. destruct (len <=? 0); congruence.
Qed.

Section GenericReordered.
  Variables g g' : mol.
  Variables idd idd' : list (Z * Z).
  Hypothesis Hwf : wf_mol g = true.
  Hypothesis Hwf' : wf_mol g' = true.
  Hypothesis Hre : reordered g g'.
  Hypothesis Hid : Permutation idd idd'.
  Hypothesis Hnd : NoDup (keys idd).

  Lemma ident_perm x : ident idd x = ident idd' x.
  Proof. unfold ident. rewrite (zget_perm idd idd' x Hnd Hid). reflexivity. Qed.

  Lemma fragment_keys_with_reordered lo hi :
    Permutation (map (frag_key (ident idd) (bond_order g)) (chains g lo hi))
                (map (frag_key (ident idd') (bond_order g')) (chains g' lo hi)).
  Proof.
    rewrite (map_ext (frag_key (ident idd') (bond_order g')) (frag_key (ident idd) (bond_order g))).
    - apply Permutation_map. apply chains_reordered; assumption.
    - intro p. symmetry. apply frag_key_ext; [apply ident_perm | apply reordered_bond_order; assumption].
  Qed.

  Theorem linear_hashes_with_reordered (h : list Z -> Z) lo hi nbp :
    forall x, In x (linear_hashes h nbp (fragments_with idd g lo hi)) <->
              In x (linear_hashes h nbp (fragments_with idd' g' lo hi)).
  Proof. unfold fragments_with. apply linear_hashes_keys_perm. apply fragment_keys_with_reordered. Qed.

  Lemma morgan_iter_reordered (h : list Z -> Z) r :
    Permutation (Nat.iter r (morgan_step h g) idd) (Nat.iter r (morgan_step h g') idd') /\
    keys (Nat.iter r (morgan_step h g) idd) = keys idd.
  Proof.
    induction r as [|r [IH IHk]]; [split; [exact Hid | reflexivity]|]. rewrite !iter_S.
    split; [|rewrite morgan_step_keys; exact IHk].
    set (d := Nat.iter r (morgan_step h g) idd) in *. set (d' := Nat.iter r (morgan_step h g') idd') in *.
    unfold morgan_step at 2.
    rewrite (map_ext (fun it => (fst it, morgan_atom h g' d' (fst it) (snd it)))
                     (fun it => (fst it, morgan_atom h g d (fst it) (snd it)))).
    - unfold morgan_step. apply Permutation_map. exact IH.
    - intro it. f_equal. apply morgan_atom_neighbour_order.
      + apply Permutation_sym. apply Hre.
      + intro x. unfold ident. rewrite (zget_perm d d' x); [reflexivity | rewrite IHk; exact Hnd | exact IH].
  Qed.
End GenericReordered.

Section GenericLevels.
  Variable h : list Z -> Z.

  Theorem morgan_hash_dict_with_levels idd g lo hi :
    morgan_hash_dict_with h idd g lo hi =
      if (lo <? 1) || (hi <? lo) then Err OtherError
      else Ok (map (fun r => Nat.iter r (morgan_step h g) idd) (seq (Z.to_nat (lo - 1)) (Z.to_nat (hi - lo + 1)))).
  Proof.
    unfold morgan_hash_dict_with. destruct (lo <? 1) eqn:E1; [reflexivity|].
    destruct (hi <? lo) eqn:E2; [reflexivity|]. cbn [orb]. apply Z.ltb_ge in E1, E2. f_equal.
    rewrite morgan_iter_levels, map_length, seq_length, skipn_map'', skipn_seq'.
    replace (S (Z.to_nat (hi - 1)) - Z.to_nat (hi - lo + 1))%nat with (Z.to_nat (lo - 1)) by lia.
    replace (S (Z.to_nat (hi - 1)) - Z.to_nat (lo - 1))%nat with (Z.to_nat (hi - lo + 1)) by lia.
    reflexivity.
  Qed.

  Lemma iter_keys idd g r : keys (Nat.iter r (morgan_step h g) idd) = keys idd.
  Proof. induction r as [|r IH]; [reflexivity|]. rewrite iter_S, morgan_step_keys. exact IH. Qed.

  Theorem morgan_iter_value idd g r a : In a (keys idd) ->
    ident (Nat.iter (S r) (morgan_step h g) idd) a =
      h (ident (Nat.iter r (morgan_step h g) idd) a ::
         flatten_pairs (sort_pairs (map (fun nb => (b_ord (snd nb), ident (Nat.iter r (morgan_step h g) idd) (fst nb))) (nbrs g a)))).
  Proof.
    intro Ha. rewrite iter_S. set (d := Nat.iter r (morgan_step h g) idd).
    unfold ident at 1. unfold morgan_step. rewrite zget_map_val.
    assert (Ha' : In a (keys d)) by (unfold d; rewrite iter_keys; exact Ha).
    destruct (keys_zget _ _ Ha') as [v Hv]. rewrite Hv. cbn [option_map].
    unfold morgan_atom, ident at 2. rewrite Hv. reflexivity.
  Qed.
End GenericLevels.

(* ==================================================================================================== *)
(* B. CGR containers *)
(* the two hashes of the CGR model are CPython's tuple hash (Model.PyHash) of the tuples the code builds *)
Theorem cbond_int_pyhash b : cbond_int b = py_hash (PTuple [PInt (or0 (cb_ord b)); PInt (or0 (cb_pord b))]).
Proof. unfold cbond_int. rewrite tuple_hash_lanes_fast_eq. cbn [py_hash map]. reflexivity. Qed.
Theorem cgr_atom_identifier_pyhash a :
  cgr_atom_identifier a = py_hash (PTuple [PInt (or0 (ca_iso a)); PInt (ca_num a); PInt (ca_chg a); PInt (ca_pchg a);
                                           PBool (ca_rad a); PBool (ca_prad a)]).
Proof. unfold cgr_atom_identifier. rewrite tuple_hash_lanes_fast_eq. cbn [py_hash map]. reflexivity. Qed.

Lemma cgr_skeleton_rename s c : cgr_skeleton (rename_cgr s c) = rename_mol s (cgr_skeleton c).
Proof.
  unfold cgr_skeleton, rename_cgr, rename_mol. cbn [c_atoms c_adj m_atoms m_adj]. rewrite !map_map. f_equal.
  apply map_ext. intros [n l]. cbn [fst snd]. rewrite !map_map. reflexivity.
Qed.

Lemma cgr_atom_identifiers_rename s c : cgr_atom_identifiers (rename_cgr s c) = ren s (cgr_atom_identifiers c).
Proof.
  unfold cgr_atom_identifiers, rename_cgr, ren. cbn [c_atoms]. rewrite !map_map.
  apply map_ext. intros [n a]. cbn [fst snd]. reflexivity.
Qed.

Lemma cgr_identifier_keys c : keys (cgr_atom_identifiers c) = ids (cgr_skeleton c).
Proof. unfold cgr_atom_identifiers, cgr_skeleton, ids, keys. cbn [m_atoms]. rewrite !map_map. reflexivity. Qed.

(* ---- _chains on a CGR ---- *)
Theorem cgr_chains_exact c lo hi p : wf_cgr c = true -> 1 <= lo <= hi ->
  (In p (cgr_chains c lo hi) <-> simple_path (cgr_skeleton c) p /\ lo <= len_z p <= hi /\ canonical_dir p)
  /\ NoDup (cgr_chains c lo hi).
Proof. intros Hwf Hr. apply chains_exact; assumption. Qed.

(* ---- the hash set of a CGR, against any duplicate-free list of exactly its simple paths ---- *)
Theorem cgr_linear_hash_list_exact (h : list Z -> Z) c lo hi nbp ps : wf_cgr c = true -> 1 <= lo <= hi ->
  NoDup ps -> (forall p, In p ps <-> simple_path (cgr_skeleton c) p /\ lo <= len_z p <= hi /\ canonical_dir p) ->
  forall x, In x (cgr_linear_hash_list h c lo hi nbp) <->
    exists k c0, x = h (k ++ [c0]) /\
      0 <= c0 < Z.min (Z.of_nat (key_count (ident (cgr_atom_identifiers c)) (bond_order (cgr_skeleton c)) ps k)) (cap nbp).
Proof.
  intros Hwf Hr Hnd Hps x. unfold cgr_linear_hash_list, cgr_fragments, fragments_with. rewrite linear_hashes_In.
  assert (HP : Permutation (chains (cgr_skeleton c) lo hi) ps).
  { apply NoDup_Permutation; [apply (proj2 (chains_exact_any _ lo hi Hwf)) | exact Hnd|].
    intro p. rewrite (proj1 (chains_exact _ lo hi p Hwf Hr)), Hps. tauto. }
  split; intros [k [c0 [H1 H2]]]; exists k, c0; (split; [exact H1|]);
    [rewrite <- (key_count_perm _ _ _ _ k HP) | rewrite (key_count_perm _ _ _ _ k HP)]; exact H2.
Qed.

(* ---- renumbering ---- *)
Section CgrRename.
  Variable s : Z -> Z.
  Hypothesis s_inj : forall x y, s x = s y -> x = y.

  Theorem cgr_hash_sets_invariant (h : list Z -> Z) c lo hi nbp : wf_cgr c = true ->
    forall x, In x (cgr_linear_hash_list h (rename_cgr s c) lo hi nbp) <-> In x (cgr_linear_hash_list h c lo hi nbp).
  Proof.
    intros Hwf x. unfold cgr_linear_hash_list, cgr_fragments.
    rewrite cgr_skeleton_rename, cgr_atom_identifiers_rename. apply linear_hashes_with_rename; assumption.
  Qed.

  Theorem cgr_fragment_counts_invariant c lo hi k : wf_cgr c = true ->
    length (fget (cgr_fragments (rename_cgr s c) lo hi) k) = length (fget (cgr_fragments c lo hi) k).
  Proof.
    intro Hwf. unfold cgr_fragments. rewrite cgr_skeleton_rename, cgr_atom_identifiers_rename.
    apply fragment_counts_with_rename; assumption.
  Qed.

  Theorem cgr_bit_sets_invariant (h : list Z -> Z) c lo hi len nab nbp : wf_cgr c = true ->
    match cgr_linear_bit_list h (rename_cgr s c) lo hi len nab nbp, cgr_linear_bit_list h c lo hi len nab nbp with
    | Ok bits', Ok bits => forall b, In b bits' <-> In b bits
    | Err e', Err e => e' = e
    | _, _ => False
    end.
  Proof. intro Hwf. unfold cgr_linear_bit_list. apply bit_list_set_ext. apply cgr_hash_sets_invariant. exact Hwf. Qed.

  Theorem cgr_morgan_hash_dict_rename (h : list Z -> Z) c lo hi :
    cgr_morgan_hash_dict h (rename_cgr s c) lo hi =
    match cgr_morgan_hash_dict h c lo hi with Ok ds => Ok (map (ren s) ds) | Err e => Err e end.
  Proof.
    unfold cgr_morgan_hash_dict. rewrite cgr_skeleton_rename, cgr_atom_identifiers_rename.
    apply morgan_hash_dict_with_rename. exact s_inj.
  Qed.

  Theorem cgr_morgan_hash_list_rename (h : list Z -> Z) c lo hi :
    cgr_morgan_hash_list h (rename_cgr s c) lo hi = cgr_morgan_hash_list h c lo hi.
  Proof.
    unfold cgr_morgan_hash_list. rewrite cgr_morgan_hash_dict_rename.
    destruct (cgr_morgan_hash_dict h c lo hi) as [ds|e]; [|reflexivity].
    f_equal. induction ds as [|d ds IH]; cbn [map flat_map]; [reflexivity|]. unfold ren at 1. rewrite ren_values, IH. reflexivity.
  Qed.

  Theorem cgr_morgan_bit_list_rename (h : list Z -> Z) c lo hi len nab :
    cgr_morgan_bit_list h (rename_cgr s c) lo hi len nab = cgr_morgan_bit_list h c lo hi len nab.
  Proof. unfold cgr_morgan_bit_list. rewrite cgr_morgan_hash_list_rename. reflexivity. Qed.
End CgrRename.

(* ---- insertion order ---- *)
Definition cgr_reordered (c c' : cgr) : Prop :=
  Permutation (c_atoms c) (c_atoms c') /\ forall n, Permutation (cgr_nbrs c n) (cgr_nbrs c' n).

Lemma zget_map_snd {V W} (f : V -> W) (d : list (Z * V)) k :
  zget (map (fun e => (fst e, f (snd e))) d) k = option_map f (zget d k).
Proof. induction d as [|[k' v] r IH]; cbn; [reflexivity|]. destruct (k =? k'); [reflexivity | exact IH]. Qed.

Lemma cgr_skeleton_nbrs c n :
  nbrs (cgr_skeleton c) n = map (fun mb => (fst mb, mkBond (cbond_int (snd mb)) None)) (cgr_nbrs c n).
Proof.
  unfold nbrs, cgr_nbrs, cgr_skeleton. cbn [m_adj].
  rewrite (zget_map_snd (fun l : list (Z * cbond) => map (fun mb => (fst mb, mkBond (cbond_int (snd mb)) None)) l)).
  destruct (zget (c_adj c) n); reflexivity.
Qed.

Lemma cgr_reordered_skeleton c c' : cgr_reordered c c' -> reordered (cgr_skeleton c) (cgr_skeleton c').
Proof.
  intros [H1 H2]. split.
  - unfold cgr_skeleton. cbn [m_atoms]. apply Permutation_map. exact H1.
  - intro n. rewrite !cgr_skeleton_nbrs. apply Permutation_map. apply H2.
Qed.

Section CgrReordered.
  Variables c c' : cgr.
  Hypothesis Hwf : wf_cgr c = true.
  Hypothesis Hwf' : wf_cgr c' = true.
  Hypothesis Hre : cgr_reordered c c'.

  Let Hid : Permutation (cgr_atom_identifiers c) (cgr_atom_identifiers c').
  Proof. unfold cgr_atom_identifiers. apply Permutation_map. apply Hre. Qed.
  Let Hnd : NoDup (keys (cgr_atom_identifiers c)).
  Proof. rewrite cgr_identifier_keys. apply (wf_mol_sym_closed _ Hwf). Qed.

  Theorem cgr_linear_hash_list_reordered (h : list Z -> Z) lo hi nbp :
    forall x, In x (cgr_linear_hash_list h c lo hi nbp) <-> In x (cgr_linear_hash_list h c' lo hi nbp).
  Proof.
    unfold cgr_linear_hash_list, cgr_fragments.
    apply linear_hashes_with_reordered; try assumption. apply cgr_reordered_skeleton. exact Hre.
  Qed.

  Theorem cgr_linear_bit_list_reordered (h : list Z -> Z) lo hi len nab nbp :
    match cgr_linear_bit_list h c lo hi len nab nbp, cgr_linear_bit_list h c' lo hi len nab nbp with
    | Ok bits, Ok bits' => forall b, In b bits <-> In b bits'
    | Err e, Err e' => e = e'
    | _, _ => False
    end.
  Proof. unfold cgr_linear_bit_list. apply bit_list_set_ext. apply cgr_linear_hash_list_reordered. Qed.

  Theorem cgr_morgan_hash_list_reordered (h : list Z -> Z) lo hi :
    match cgr_morgan_hash_list h c lo hi, cgr_morgan_hash_list h c' lo hi with
    | Ok l, Ok l' => Permutation l l'
    | Err e, Err e' => e = e'
    | _, _ => False
    end.
  Proof.
    unfold cgr_morgan_hash_list, cgr_morgan_hash_dict. rewrite !morgan_hash_dict_with_levels.
    destruct ((lo <? 1) || (hi <? lo)); [reflexivity|].
    rewrite !flat_map_concat_map, !map_map, <- !flat_map_concat_map.
    apply Permutation_flat_map_pw. intro r. apply Permutation_map.
    apply (morgan_iter_reordered (cgr_skeleton c) (cgr_skeleton c') _ _ (cgr_reordered_skeleton c c' Hre) Hid Hnd h r).
  Qed.

  Theorem cgr_morgan_bit_list_reordered (h : list Z -> Z) lo hi len nab :
    match cgr_morgan_bit_list h c lo hi len nab, cgr_morgan_bit_list h c' lo hi len nab with
    | Ok bits, Ok bits' => Permutation bits bits'
    | Err e, Err e' => e = e'
    | _, _ => False
    end.
  Proof.
    unfold cgr_morgan_bit_list, bit_list_of. destruct (len <=? 0) eqn:El; [reflexivity|].
    pose proof (cgr_morgan_hash_list_reordered h lo hi) as H.
    destruct (cgr_morgan_hash_list h c lo hi) as [l|e], (cgr_morgan_hash_list h c' lo hi) as [l'|e']; try exact H; try contradiction.
    unfold bit_list. rewrite El. apply Permutation_flat_map. exact H.
  Qed.
End CgrReordered.

(* ---- Morgan semantics on a CGR ---- *)
Definition cgr_morgan_level (h : list Z -> Z) (c : cgr) (r : nat) : list (Z * Z) :=
  Nat.iter r (morgan_step h (cgr_skeleton c)) (cgr_atom_identifiers c).

Theorem cgr_morgan_hash_dict_levels (h : list Z -> Z) c lo hi :
  cgr_morgan_hash_dict h c lo hi =
    if (lo <? 1) || (hi <? lo) then Err OtherError
    else Ok (map (cgr_morgan_level h c) (seq (Z.to_nat (lo - 1)) (Z.to_nat (hi - lo + 1)))).
Proof. unfold cgr_morgan_hash_dict. apply morgan_hash_dict_with_levels. Qed.

Theorem cgr_morgan_level_value (h : list Z -> Z) c r a : In a (keys (c_atoms c)) ->
  ident (cgr_morgan_level h c (S r)) a =
    h (ident (cgr_morgan_level h c r) a ::
       flatten_pairs (sort_pairs (map (fun nb => (cbond_int (snd nb), ident (cgr_morgan_level h c r) (fst nb))) (cgr_nbrs c a)))).
Proof.
  intro Ha. unfold cgr_morgan_level. rewrite morgan_iter_value.
  - rewrite cgr_skeleton_nbrs, map_map. reflexivity.
  - unfold cgr_atom_identifiers, keys in *. rewrite map_map. exact Ha.
Qed.

(* ---- non-vacuity: the CGR of acetic acid -> acetate (charge of O4 changes) and of ethanol -> acetaldehyde ---- *)
Definition cC : catom := mkCAtom 6 None 0 0 false false.
Definition cO : catom := mkCAtom 8 None 0 0 false false.
Definition cb (a b : Z) : cbond := mkCBond (Some a) (Some b).
Definition ex_cgr : cgr :=
  mkCgr [(1, cC); (2, cC); (3, cO); (4, mkCAtom 8 None 0 (-1) false false)]
        [(1, [(2, cb 1 1)]); (2, [(1, cb 1 1); (3, cb 2 2); (4, cb 1 1)]); (3, [(2, cb 2 2)]); (4, [(2, cb 1 1)])].
Definition ex_cgr2 : cgr :=
  mkCgr [(2, cC); (1, cC); (3, cO); (4, mkCAtom 8 None 0 (-1) false false)]
        [(2, [(3, cb 2 2); (1, cb 1 1); (4, cb 1 1)]); (1, [(2, cb 1 1)]); (3, [(2, cb 2 2)]); (4, [(2, cb 1 1)])].

Lemma example_cgr :
  wf_cgr ex_cgr = true /\ wf_cgr ex_cgr2 = true /\ cgr_reordered ex_cgr ex_cgr2 /\
  cgr_atom_identifiers ex_cgr =
    [(1, -5731264841243058737); (2, -5731264841243058737); (3, 1166397159408131971); (4, 5478730751422717551)] /\
  cbond_int (cb 1 1) = 8389048192121911274 /\ cbond_int (cb 2 2) = 1901736143494378007 /\
  cgr_morgan_hash_dict hash_ztuple ex_cgr 2 2 =
    Ok [[(1, 2134285870374715006); (2, 2365127763220417952); (3, -1335216503850562694); (4, -3774162219190633511)]] /\
  set_z (cgr_linear_hash_list hash_ztuple (rename_cgr (fun x => 9 - x) ex_cgr) 1 3 2) =
  set_z (cgr_linear_hash_list hash_ztuple ex_cgr 1 3 2) /\
  hd 0 (set_z (cgr_linear_hash_list hash_ztuple ex_cgr 1 3 2)) = -7638454244423420739.
Proof.
  split; [vm_compute; reflexivity|]. split; [vm_compute; reflexivity|]. split.
  - split; [apply perm_swap|]. intro n.
    destruct (n =? 1) eqn:E1; [apply Z.eqb_eq in E1; subst; vm_compute; apply Permutation_refl|].
    destruct (n =? 2) eqn:E2; [apply Z.eqb_eq in E2; subst; vm_compute; apply perm_swap|].
    destruct (n =? 3) eqn:E3; [apply Z.eqb_eq in E3; subst; vm_compute; apply Permutation_refl|].
    destruct (n =? 4) eqn:E4; [apply Z.eqb_eq in E4; subst; vm_compute; apply Permutation_refl|].
    unfold cgr_nbrs, ex_cgr, ex_cgr2. cbn [c_adj zget]. rewrite E1, E2, E3, E4. constructor.
  - repeat split; vm_compute; reflexivity.
Qed.
