(* C13 -- cache coherence of one molecule: every entry of __dict__ is a snapshot equivalent (for its key) to the current view. *)
From Coq Require Import ZArith List Bool Lia.
From Model Require Import PyBase Cache.
From Proofs Require Import CacheProofs CacheWf.
Import ListNotations.
Open Scope Z_scope.

Definition fc (k : key) : bool := fam k || is_cc k.
Definition Coh (h : hp) (o : mobj) : Prop := forall k s, cget (o_cache o) k = Some s -> equiv_for k s (view_of h o).
Definition CohFC (h : hp) (o : mobj) : Prop := forall k s, fc k = true -> cget (o_cache o) k = Some s -> equiv_for k s (view_of h o).
Definition onlyFC (o : mobj) : Prop := forall k s, cget (o_cache o) k = Some s -> fc k = true.
Definition K2 (h : hp) (o : mobj) : Prop := onlyFC o /\ CohFC h o.

Lemma Coh_CohFC h o : Coh h o -> CohFC h o.
Proof. intros C k s _. apply C. Qed.
Lemma K2_Coh h o : K2 h o -> Coh h o.
Proof. intros [O C] k s H. apply C; [eapply O; eauto | assumption]. Qed.
Lemma K2_nil h o : o_cache o = [] -> K2 h o.
Proof. intros E. split; intros k s; rewrite E; cbn; discriminate. Qed.

Lemma equiv_for_refl k v : equiv_for k v v.
Proof. unfold equiv_for. destruct (fam k); [reflexivity|]. destruct (is_cc k); reflexivity. Qed.
Lemma equiv_for_trans k a b c : equiv_for k a b -> equiv_for k b c -> equiv_for k a c.
Proof. unfold equiv_for. destruct (fam k); [congruence|]. destruct (is_cc k); congruence. Qed.
(* views that agree on what the ring family / the components are computed from *)
Definition veq (a b : view) : Prop := nsconn a = nsconn b /\ conn a = conn b.
Lemma equiv_for_veq k s a b : fc k = true -> veq a b -> equiv_for k s a -> equiv_for k s b.
Proof.
  unfold fc, equiv_for, veq. intros F [N C]. destruct (fam k); [congruence|]. destruct (is_cc k); [congruence | discriminate].
Qed.

Lemma key_eqb_eq a b : key_eqb a b = true <-> a = b.
Proof.
  destruct a, b; cbn; split; intros H; try discriminate; try reflexivity.
  - apply Z.eqb_eq in H. now subst.
  - inversion H. apply Z.eqb_refl.
Qed.
Lemma cget_app c k s k0 : cget (c ++ [(k, s)]) k0 = match cget c k0 with Some x => Some x | None => if key_eqb k0 k then Some s else None end.
Proof. induction c as [|[k1 s1] t IH]; cbn; [reflexivity|]. destruct (key_eqb k0 k1); [reflexivity | apply IH]. Qed.
Lemma kept_key ks kc k s s' : kept ks kc (k, s) = kept ks kc (k, s').
Proof. reflexivity. Qed.
Lemma cget_filter ks kc c k s : cget (filter (kept ks kc) c) k = Some s -> cget c k = Some s /\ kept ks kc (k, s) = true.
Proof.
  induction c as [|[k1 s1] t IH]; cbn; [discriminate|]. destruct (kept ks kc (k1, s1)) eqn:E; cbn.
  - destruct (key_eqb k k1) eqn:Ek; [|apply IH]. intros H; inversion H; subst. apply key_eqb_eq in Ek. subst. auto.
  - intros H. destruct (IH H) as [A B]. destruct (key_eqb k k1) eqn:Ek; [|auto]. apply key_eqb_eq in Ek. subst.
    rewrite (kept_key ks kc k1 s s1) in B. congruence.
Qed.
Lemma kept_fc ks kc k s : kept ks kc (k, s) = true -> fc k = true.
Proof. unfold kept, fc. cbn. destruct ks, kc, (fam k), (is_cc k); cbn; congruence. Qed.

(* ---- flush *)
Lemma flush_K2' ks kc h o c :
  (forall k s, kept ks kc (k, s) = true -> cget c k = Some s -> equiv_for k s (view_of h o)) ->
  K2 h (set_cache o (filter (kept ks kc) c)).
Proof.
  intros H. split.
  - intros k s Hc. simpo. apply cget_filter in Hc. destruct Hc as [_ Hk]. eapply kept_fc; eauto.
  - intros k s _ Hc. simpo. apply cget_filter in Hc. destruct Hc as [Hc Hk]. now apply H.
Qed.
Lemma flush_K2 ks kc h o : CohFC h o -> match flush ks kc h o with (h', o', _) => K2 h' o' end.
Proof. intros C. cbn. apply flush_K2'. intros k s Hk Hc. apply C; [eapply kept_fc; eauto | assumption]. Qed.
Lemma flush_nil h o : match flush false false h o with (h', o', _) => o_cache o' = [] end.
Proof. cbn. induction (o_cache o) as [|[k s] t IH]; cbn; [reflexivity | exact IH]. Qed.

(* ---- reads *)
Lemma parent_fc k p : parent k = Some p -> fc k = true /\ fc p = true.
Proof. destruct k; cbn; intros H; inversion H; subst; split; reflexivity. Qed.
Lemma read_key_spec (Q : key -> Prop) v : (forall k p, Q k -> parent k = Some p -> Q p) -> (forall k p, parent k = Some p -> fc k = true) ->
  forall fuel c k,
  (forall k0 s0, Q k0 -> cget c k0 = Some s0 -> equiv_for k0 s0 v) ->
  (forall k0 s0, Q k0 -> cget (fst (read_key fuel v c k)) k0 = Some s0 -> equiv_for k0 s0 v) /\
  (Q k -> equiv_for k (snd (read_key fuel v c k)) v).
Proof.
  intros Qp Pf. induction fuel as [|fuel IH]; intros c k P; cbn [read_key].
  - destruct (cget c k) eqn:E; cbn; split; auto. intros; apply equiv_for_refl.
  - destruct (cget c k) eqn:E; [cbn; split; auto|].
    destruct (parent k) as [p|] eqn:Ep; cbn [fst snd].
    + destruct (IH c p P) as [A B]. split.
      * intros k0 s0 Q0. rewrite cget_app. destruct (cget (fst (read_key fuel v c p)) k0) eqn:E0.
        -- intros H; inversion H; subst. now apply A.
        -- destruct (key_eqb k0 k) eqn:Ek; [|discriminate]. intros H; inversion H; subst. apply key_eqb_eq in Ek. subst.
           destruct (parent_fc _ _ Ep) as [Fk Fp]. specialize (B (Qp _ _ Q0 Ep)).
           unfold equiv_for in *. unfold fc in *. destruct k; cbn in *; try discriminate; inversion Ep; subst; cbn in *; exact B.
      * intros Qk. destruct (parent_fc _ _ Ep) as [Fk Fp]. specialize (B (Qp _ _ Qk Ep)).
        unfold equiv_for in *. destruct k; cbn in *; try discriminate; inversion Ep; subst; cbn in *; exact B.
    + split; [|intros; apply equiv_for_refl]. intros k0 s0 Q0. rewrite cget_app. destruct (cget c k0) eqn:E0.
      * intros H; inversion H; subst. now apply P.
      * destruct (key_eqb k0 k); [|discriminate]. intros H; inversion H; subst. apply equiv_for_refl.
Qed.
Lemma parent_closed_fc k p : fc k = true -> parent k = Some p -> fc p = true.
Proof. intros _ H. now apply parent_fc in H. Qed.
Lemma parent_fc_l k p : parent k = Some p -> fc k = true.
Proof. intros H. now apply parent_fc in H. Qed.
Lemma read_Coh k h o : Coh h o -> match read k h o with (h', o', _) => Coh h' o' end.
Proof.
  intros C. unfold read, ok. cbn beta iota. intros k0 s0 H. simpo.
  destruct (read_key_spec (fun _ => True) (view_of h o) (fun _ _ _ _ => I) parent_fc_l 5 (o_cache o) k) as [A _].
  { intros k1 s1 _. apply C. }
  exact (A k0 s0 I H).
Qed.
Lemma read_CohFC k h o : CohFC h o -> match read k h o with (h', o', _) => CohFC h' o' end.
Proof.
  intros C. unfold read, ok. cbn beta iota. intros k0 s0 F0 H. simpo.
  destruct (read_key_spec (fun k => fc k = true) (view_of h o) parent_closed_fc parent_fc_l 5 (o_cache o) k) as [A _].
  { intros k1 s1 F1. now apply C. }
  exact (A k0 s0 F0 H).
Qed.
Lemma read_key_only v : forall fuel c k, fc k = true -> (forall k0 s0, cget c k0 = Some s0 -> fc k0 = true) ->
  forall k0 s0, cget (fst (read_key fuel v c k)) k0 = Some s0 -> fc k0 = true.
Proof.
  induction fuel as [|fuel IH]; intros c k Fk P k0 s0; cbn [read_key].
  - destruct (cget c k); cbn; apply P.
  - destruct (cget c k); [cbn; apply P|]. destruct (parent k) as [p|] eqn:Ep; cbn [fst snd]; rewrite cget_app.
    + destruct (cget (fst (read_key fuel v c p)) k0) eqn:E0.
      * intros _. eapply (IH c p); eauto. now apply parent_fc in Ep.
      * destruct (key_eqb k0 k) eqn:Ek; [|discriminate]. apply key_eqb_eq in Ek. now subst.
    + destruct (cget c k0) eqn:E0; [intros _; eapply P; eauto|]. destruct (key_eqb k0 k) eqn:Ek; [|discriminate]. apply key_eqb_eq in Ek. now subst.
Qed.
Lemma read_K2 k h o : fc k = true -> K2 h o -> match read k h o with (h', o', _) => K2 h' o' end.
Proof.
  intros Fk [O C]. pose proof (read_CohFC k h o C) as C'. unfold read, ok in *. cbn beta iota in *. split; [|exact C'].
  intros k0 s0. simpo. eapply read_key_only; eauto.
Qed.

(* ---- K2 is kept by everything fix_structure does *)
Definition kk (a : act) : Prop := forall h o, K2 h o -> match a h o with (h', o', _) => K2 h' o' end.
Definition kc (a : act) : Prop := forall h o, K2 h o -> match a h o with (h', o', _) => Coh h' o' end.
Lemma kk_kc a : kk a -> kc a.
Proof. intros A h o H. specialize (A h o H). destruct (a h o) as [[h1 o1] e]. now apply K2_Coh. Qed.
Lemma kk_seq a b : kk a -> kk b -> kk (a ;; b).
Proof.
  intros A B h o H. unfold seq. specialize (A h o H). destruct (a h o) as [[h1 o1] [e|]]; [assumption|]. apply B. assumption.
Qed.
Lemma kc_seq a b : kk a -> kc b -> kc (a ;; b).
Proof.
  intros A B h o H. unfold seq. specialize (A h o H). destruct (a h o) as [[h1 o1] [e|]]; [now apply K2_Coh|]. apply B. assumption.
Qed.
Lemma kk_unless a : kk a -> kk (unless_transaction a).
Proof. intros A h o H. unfold unless_transaction. destruct (o_backup o); [exact H | now apply A]. Qed.
Lemma kc_unless a : kc a -> kc (unless_transaction a).
Proof. intros A h o H. unfold unless_transaction. destruct (o_backup o); [now apply K2_Coh | now apply A]. Qed.
Lemma K2_same h o o' : K2 h o -> o_cache o' = o_cache o -> view_of h o' = view_of h o -> K2 h o'.
Proof. intros [O C] Ec Ev. split; intros k s; [rewrite Ec; apply O | rewrite Ec, Ev; apply C]. Qed.
Lemma kk_mark ns : kk (mark_changed ns).
Proof. intros h o H. unfold mark_changed. destruct (o_changed o); cbn; eapply K2_same; eauto. Qed.
Lemma kk_discard n : kk (discard_changed n).
Proof. intros h o H. cbn. eapply K2_same; eauto. Qed.
Lemma kk_set_changed x : kk (fun h o => ok h (set_changed o x)).
Proof. intros h o H. cbn. eapply K2_same; eauto. Qed.
Lemma kk_ok : kk ok.
Proof. intros h o H. exact H. Qed.
Lemma kk_read k : fc k = true -> kk (read k).
Proof. intros F h o H. now apply read_K2. Qed.
Lemma kc_read k : kc (read k).
Proof. intros h o H. apply read_Coh. now apply K2_Coh. Qed.
Lemma kk_flush ks kc0 : kk (flush ks kc0).
Proof. intros h o [O C]. now apply flush_K2. Qed.

(* relabelling changes neither the adjacency nor any bond order *)
Lemma ns_row_ext h h' (rw : list (Z * ref)) :
  (forall m r, In (m, r) rw -> option_map (fun c => b_ord c =? 8) (hget h' r) = option_map (fun c => b_ord c =? 8) (hget h r)) ->
  map fst (filter (fun mc : Z * option bcell => match snd mc with Some c => negb (b_ord c =? 8) | None => true end)
                  (map (fun mr : Z * ref => (fst mr, hget h (snd mr))) rw)) =
  map fst (filter (fun mc : Z * option bcell => match snd mc with Some c => negb (b_ord c =? 8) | None => true end)
                  (map (fun mr : Z * ref => (fst mr, hget h' (snd mr))) rw)).
Proof.
  induction rw as [|[m r] t IH]; intros O; [reflexivity|]. simpl.
  pose proof (O m r (or_introl eq_refl)) as E.
  assert (IH' := IH (fun m0 r0 Hi => O m0 r0 (or_intror Hi))).
  destruct (hget h r) as [c|], (hget h' r) as [c'|]; simpl in E; try discriminate.
  - injection E as E. rewrite E. destruct (negb (b_ord c =? 8)); simpl; now rewrite IH'.
  - simpl. now rewrite IH'.
Qed.
Lemma nsconn_ext h h' o o' : o_adj o' = o_adj o ->
  (forall x, In x (arefs (o_adj o)) -> option_map (fun c => b_ord c =? 8) (hget h' x) = option_map (fun c => b_ord c =? 8) (hget h x)) ->
  veq (view_of h o) (view_of h' o').
Proof.
  intros A O. unfold veq, nsconn, conn, view_of. cbn [snd]. rewrite A. rewrite !map_map. cbn [fst snd]. split.
  - apply map_ext_in. intros [n rw] Hin. cbn [fst snd]. f_equal. apply ns_row_ext. intros m r Hi. apply O. apply In_arefs. eauto.
  - apply map_ext. intros [n rw]. cbn [fst snd]. f_equal. rewrite !map_map. reflexivity.
Qed.
Lemma relabel_K2 h o h' o' : relabel h o h' o' -> K2 h o -> K2 h' o'.
Proof.
  intros [[A [_ [_ [_ [Ec _]]]]] [_ [_ [_ Ord]]]] [O C].
  assert (veq (view_of h o) (view_of h' o')) as V.
  { apply nsconn_ext; [exact A|]. intros x _. specialize (Ord x). destruct (hget h x), (hget h' x); cbn in *; congruence. }
  split; intros k s; rewrite Ec; [apply O|]. intros F Hc. eapply equiv_for_veq; eauto.
Qed.
Lemma kk_relabels a : relabels a -> kk a.
Proof. intros A h o H. specialize (A h o). destruct (a h o) as [[h1 o1] e]. eapply relabel_K2; eauto. Qed.
Lemma kk_calc_labels : kk calc_labels.
Proof.
  unfold calc_labels. apply kk_seq; [now apply kk_read|]. apply kk_seq; [now apply kk_read|].
  apply kk_relabels. intros h o. apply label_rows_relabels. apply incl_refl.
Qed.
Lemma kk_calc_implicit n : kk (calc_implicit n).
Proof. apply kk_relabels, calc_implicit_relabels. Qed.
Lemma kk_fix_structure : kk fix_structure.
Proof.
  unfold fix_structure. apply kk_seq; [apply kk_calc_labels|]. apply kk_seq; [|apply kk_set_changed].
  apply kk_relabels. intros h o. destruct (o_changed o) as [[|x l]|]; apply calc_implicit_all_relabels.
Qed.
Lemma kc_fix_both : kc (fix_structure ;; fix_stereo).
Proof. apply kc_seq; [apply kk_fix_structure | apply kc_read]. Qed.

(* ================================================================================================ *)
(* the mutators: either nothing happened (an argument check raised) or the result is coherent *)
Definition strong (a : act) : Prop :=
  forall h o, inv1 h o -> CohFC h o -> match a h o with (h', o', _) => (h', o') = (h, o) \/ Coh h' o' end.

Lemma seq_assoc a b c h o : ((a ;; b) ;; c) h o = (a ;; (b ;; c)) h o.
Proof. unfold seq. destruct (a h o) as [[h1 o1] [e|]]; reflexivity. Qed.
Lemma seq_flush_kc (S X : act) h o h1 o1 :
  S h o = (h1, o1, None) -> kc X -> match (S ;; flush false false ;; X) h o with (h', o', _) => Coh h' o' end.
Proof.
  intros E K. unfold seq. rewrite E. unfold flush at 1, ok. cbn beta iota.
  apply K. apply K2_nil. exact (flush_nil h1 o1).
Qed.
Lemma kc_mark_fix ns : kc (mark_changed ns ;; unless_transaction fix_structure).
Proof. apply kc_seq; [apply kk_mark|]. apply kc_unless, kk_kc, kk_fix_structure. Qed.
Lemma kc_mark_fix_both ns : kc (mark_changed ns ;; unless_transaction (fix_structure ;; fix_stereo)).
Proof. apply kc_seq; [apply kk_mark|]. apply kc_unless, kc_fix_both. Qed.

Lemma strong_right (r : res) h o :
  (match r with (h', o', _) => Coh h' o' end) -> match r with (h', o', _) => (h', o') = (h, o) \/ Coh h' o' end.
Proof. destruct r as [[h1 o1] e]. auto. Qed.
Lemma mark_changed_ok ns h o : exists o', mark_changed ns h o = (h, o', None).
Proof. unfold mark_changed, ok. destruct (o_changed o); eauto. Qed.
Lemma add_atom_strong c n : strong (add_atom c n).
Proof.
  intros h o I C. unfold add_atom.
  destruct (match n with Some x => zmem x (keys (o_atoms o)) | None => false end); [cbv beta iota zeta delta [raise]; left; reflexivity|]. cbv zeta. apply strong_right.
  eapply seq_flush_kc; [reflexivity | apply kc_mark_fix].
Qed.
Lemma add_bond_strong n m ord : strong (add_bond n m ord).
Proof.
  intros h o I C. unfold add_bond.
  destruct (negb (valid_order ord)); [cbv beta iota zeta delta [raise]; left; reflexivity|]. destruct (n =? m); [cbv beta iota zeta delta [raise]; left; reflexivity|].
  destruct (zget (o_adj o) n) as [rn|]; [|cbv beta iota zeta delta [raise]; left; reflexivity]. destruct (zget (o_adj o) m) as [rm|]; [|cbv beta iota zeta delta [raise]; left; reflexivity].
  destruct (zmem n (keys rm)); [cbv beta iota zeta delta [raise]; left; reflexivity|]. apply strong_right.
  eapply seq_flush_kc; [unfold put_bond, halloc, ok; reflexivity|].
  destruct (ord =? 8); [apply kc_unless, kk_kc, kk_calc_labels | apply kc_mark_fix_both].
Qed.
Lemma delete_atom_strong n : strong (delete_atom n).
Proof.
  intros h o I C. unfold delete_atom.
  destruct (zget (o_atoms o) n) as [a|] eqn:Ha; [|cbv beta iota zeta delta [raise]; left; reflexivity].
  destruct (zget (o_adj o) n) as [r|] eqn:Hr; [|cbv beta iota zeta delta [raise]; left; reflexivity]. apply strong_right.
  destruct (delete_struct n h o a r I Ha Hr) as [o1 [R _]].
  rewrite <- seq_assoc. rewrite <- (seq_assoc (drop_atom n ;; unlink n r)).
  eapply seq_flush_kc; [|apply kc_unless, kc_fix_both].
  unfold seq at 1. rewrite R. unfold discard_changed, ok. reflexivity.
Qed.
Lemma delete_bond_strong n m : strong (delete_bond n m).
Proof.
  intros h o I C. unfold delete_bond.
  destruct (zget (o_adj o) n) as [rn|] eqn:Hn; [|cbv beta iota zeta delta [raise]; left; reflexivity].
  destruct (zget rn m) as [rf0|] eqn:Hnm; [|cbv beta iota zeta delta [raise]; left; reflexivity].
  destruct (delete_bond_struct n m h o rn rf0 I Hn Hnm) as [rm [cl [Hm [Hmn [D [Hc K]]]]]].
  simpo. rewrite zget_zset. replace (m =? n) with false by (symmetry; apply Z.eqb_neq; congruence).
  rewrite Hm, Hmn, Hc. apply strong_right.
  destruct (b_ord cl =? 8).
  - eapply seq_flush_kc; [reflexivity | apply kc_unless, kc_fix_both].
  - match goal with |- context [seq (mark_changed ?NS) _ ?H ?O] => destruct (mark_changed_ok NS H O) as [o' E] end.
    eapply seq_flush_kc; [exact E | apply kc_unless, kc_fix_both].
Qed.
Lemma remap_strong mp : strong (remap mp).
Proof.
  intros h o I C. unfold remap. destruct (negb (nodup_z (map snd mp)) || existsb _ (keys (o_atoms o))); [cbv beta iota zeta delta [raise]; left; reflexivity|]. apply strong_right.
  match goal with |- match flush false false ?H ?O with _ => _ end => pose proof (flush_nil H O) as N; destruct (flush false false H O) as [[h2 o2] e2] end.
  apply K2_Coh. apply K2_nil. exact N.
Qed.
Lemma flush_strong ks kc0 : strong (flush ks kc0).
Proof. intros h o I C. apply strong_right. pose proof (flush_K2 ks kc0 h o C) as K. destruct (flush ks kc0 h o) as [[h1 o1] e]. now apply K2_Coh. Qed.

(* ---- the patch step of Standardize: the selective flush keeps an entry only when what it was computed from is unchanged *)
Lemma conn_adj h h' o o' : o_adj o' = o_adj o -> conn (view_of h' o') = conn (view_of h o).
Proof.
  intros A. unfold conn, view_of. cbn [snd]. rewrite A, !map_map. apply map_ext. intros [n rw]. cbn [fst snd]. f_equal.
  rewrite !map_map. reflexivity.
Qed.
Lemma flush_then_kc ks kc0 X h o : CohFC h o -> kc X -> match (flush ks kc0 ;; X) h o with (h', o', _) => Coh h' o' end.
Proof.
  intros C K. unfold seq. pose proof (flush_K2 ks kc0 h o C) as F. unfold flush, ok in *. cbn beta iota in *. now apply K.
Qed.
Lemma kc_patch_rest n m : kc (calc_labels ;; calc_implicit n ;; calc_implicit m ;; fix_stereo).
Proof.
  apply kc_seq; [apply kk_calc_labels|]. apply kc_seq; [apply kk_calc_implicit|]. apply kc_seq; [apply kk_calc_implicit | apply kc_read].
Qed.

(* keep_sssr is only used when neither the old nor the new order is 8: the non-special connectivity is then unchanged *)
Lemma keep_sssr_sound h o o1 rf cl bo :
  o_adj o1 = o_adj o -> hget h rf = Some cl -> (b_ord cl =? 8) || (bo =? 8) = false ->
  veq (view_of h o) (view_of (hset h rf (mkB bo (b_lab cl))) o1).
Proof.
  intros A Hc E. apply orb_false_iff in E. destruct E as [E1 E2]. apply nsconn_ext; [exact A|]. intros x _. rewrite hget_hset.
  destruct (Z.eqb_spec x rf); [subst; rewrite Hc; cbn; congruence | reflexivity].
Qed.

Lemma patch_strong n m bo dch : strong (patch n m bo dch).
Proof.
  intros h o I C. unfold patch.
  destruct (n =? m); [cbv beta iota zeta delta [raise]; left; reflexivity|].
  destruct (zget (o_atoms o) n) as [an|] eqn:Ean; [|cbv beta iota zeta delta [raise]; left; reflexivity].
  destruct (zget (o_atoms o) m) as [am|] eqn:Eam; [|cbv beta iota zeta delta [raise]; left; reflexivity].
  destruct (zget (o_adj o) n) as [rn|] eqn:Ern; [|cbv beta iota zeta delta [raise]; left; reflexivity].
  destruct (zget (o_adj o) m) as [rm|] eqn:Erm; [|cbv beta iota zeta delta [raise]; left; reflexivity].
  cbv zeta. destruct (c_chg (a_core an) + dch >? 4).
  { apply strong_right. apply flush_then_kc; [exact C|].
    apply kc_seq; [apply kk_calc_labels|]. apply kc_seq; [apply kk_calc_implicit | apply kc_read]. }
  set (o1 := set_atoms o _).
  destruct (zget rn m) as [rf|] eqn:Enm.
  - assert (In rf (arefs (o_adj o))) as Rf.
    { apply (In_arefs_row _ n rn); [assumption|]. apply zget_In in Enm. change rf with (snd (m, rf)). now apply in_map. }
    destruct I as [W _]. destruct (wf_valid _ _ _ W rf Rf) as [cl Hc]. rewrite Hc. apply strong_right.
    unfold seq at 1. unfold flush at 1, ok. cbn beta iota. apply kc_patch_rest.
    apply flush_K2'. intros k s Hk Hg. unfold o1 in Hg. simpo.
    assert (fc k = true) as Fk by (eapply kept_fc; eauto). pose proof (C k s Fk Hg) as E.
    unfold kept in Hk. cbn [fst] in Hk. unfold equiv_for in *. destruct (fam k) eqn:Ef.
    + destruct k; cbn in Ef, Hk; try discriminate; rewrite andb_true_r, orb_false_r in Hk; apply negb_true_iff in Hk;
        rewrite E; apply (keep_sssr_sound h o o1 rf cl bo); auto.
    + destruct (is_cc k) eqn:Ec; [|unfold fc in Fk; rewrite Ef, Ec in Fk; discriminate].
      rewrite E. symmetry. now apply conn_adj.
  - apply strong_right. eapply seq_flush_kc; [unfold put_bond, halloc, ok; reflexivity | apply kc_patch_rest].
Qed.
