(* C12: the sign translation functions are permutation-consistent.  Finite facts about the generated tables
   are checked by vm_compute over the complete tables; the statements about arbitrary atom numbers follow. *)
From Coq Require Import ZArith List Bool Lia.
From Model Require Import PyBase Stereo.
From Gen Require Import StereoTables.
Import ListNotations.
Open Scope Z_scope.

(* ---------- permutations of [0;1;2;3] ---------- *)
Fixpoint insert_all (x : Z) (l : list Z) : list (list Z) :=
  match l with
  | [] => [[x]]
  | y :: r => (x :: y :: r) :: map (cons y) (insert_all x r)
  end.
Fixpoint perms (l : list Z) : list (list Z) :=
  match l with [] => [[]] | x :: r => flat_map (insert_all x) (perms r) end.
Definition perms4 : list (list Z) := perms [0; 1; 2; 3].
Definition perms3 : list (list Z) := perms [0; 1; 2].

Definition distinct4 (a b c d : Z) : bool :=
  negb (a =? b) && negb (a =? c) && negb (a =? d) && negb (b =? c) && negb (b =? d) && negb (c =? d).
Definition in_perms (ps : list (list Z)) (p : list Z) : bool := existsb (list_eqb Z.eqb p) ps.

Lemma list_eqb_Z_eq a b : list_eqb Z.eqb a b = true -> a = b.
Proof.
  revert b. induction a as [|x a IH]; intros [|y b] H; try discriminate; [reflexivity|].
  cbn in H. apply andb_prop in H. destruct H as [H1 H2]. apply Z.eqb_eq in H1. subst. f_equal. apply IH. exact H2.
Qed.

Lemma in_perms_In ps p : in_perms ps p = true -> In p ps.
Proof.
  unfold in_perms. rewrite existsb_exists. intros [q [Hq E]]. apply list_eqb_Z_eq in E. subst. exact Hq.
Qed.

Definition r4 : list Z := zrange 0 4.

Lemma perms4_complete_b :
  forallb (fun a => forallb (fun b => forallb (fun c => forallb (fun d =>
     implb (distinct4 a b c d) (in_perms perms4 [a; b; c; d])) r4) r4) r4) r4 = true.
Proof. vm_compute. reflexivity. Qed.

Lemma perms4_complete a b c d :
  0 <= a < 4 -> 0 <= b < 4 -> 0 <= c < 4 -> 0 <= d < 4 -> NoDup [a; b; c; d] -> In [a; b; c; d] perms4.
Proof.
  intros Ha Hb Hc Hd Hn.
  pose proof perms4_complete_b as H. rewrite forallb_forall in H.
  specialize (H a (proj2 (zrange_In 0 4 a) Ha)). rewrite forallb_forall in H.
  specialize (H b (proj2 (zrange_In 0 4 b) Hb)). rewrite forallb_forall in H.
  specialize (H c (proj2 (zrange_In 0 4 c) Hc)). rewrite forallb_forall in H.
  specialize (H d (proj2 (zrange_In 0 4 d) Hd)).
  assert (D : distinct4 a b c d = true).
  { inversion Hn as [|? ? Na Hn1]; subst. inversion Hn1 as [|? ? Nb Hn2]; subst.
    inversion Hn2 as [|? ? Nc Hn3]; subst. cbn in Na, Nb, Nc. unfold distinct4.
    repeat (apply andb_true_intro; split); apply negb_true_iff; apply Z.eqb_neq; intuition congruence. }
  rewrite D in H. cbn [implb] in H. apply in_perms_In. exact H.
Qed.

(* ---------- the tetrahedron table is the parity of the completed permutation ---------- *)
Definition th_entry_ok (p : list Z) : bool :=
  match p with
  | [a; b; c; d] => option_eqb Bool.eqb (th_lookup a b c) (Some (odd_perm p))
  | _ => false
  end.

Lemma th_table_is_parity :
  List.length tetrahedron_translate = 24%nat /\
  forallb th_entry_ok perms4 = true /\
  (* no entry for index triples that are not injective *)
  forallb (fun a => forallb (fun b => forallb (fun c =>
     implb ((a =? b) || (a =? c) || (b =? c)) (match th_lookup a b c with None => true | Some _ => false end)) r4) r4) r4 = true /\
  (* keys pairwise distinct: the dict display has no shadowed entry *)
  forallb (fun e => let '(a, b, c, v) := e in option_eqb Bool.eqb (th_lookup a b c) (Some v)) tetrahedron_translate = true.
Proof. vm_compute. repeat split; reflexivity. Qed.

(* transposing two positions flips the parity; composition adds parities (all of S4, finite) *)
Definition compose (p q : list Z) : list Z := map (fun i => znth p i 0) q.

Lemma parity_compose_b :
  forallb (fun p => forallb (fun q => in_perms perms4 (compose p q) &&
                                     Bool.eqb (odd_perm (compose p q)) (xorb (odd_perm p) (odd_perm q))) perms4) perms4 = true.
Proof. vm_compute. reflexivity. Qed.

Lemma parity_compose p q : In p perms4 -> In q perms4 ->
  In (compose p q) perms4 /\ odd_perm (compose p q) = xorb (odd_perm p) (odd_perm q).
Proof.
  intros Hp Hq. pose proof parity_compose_b as H. rewrite forallb_forall in H. specialize (H p Hp).
  rewrite forallb_forall in H. specialize (H q Hq). apply andb_prop in H. destruct H as [H1 H2].
  split; [apply in_perms_In; exact H1 | apply eqb_prop; exact H2].
Qed.

Definition swap_pos (i j : Z) : list Z :=
  map (fun k => if k =? i then j else if k =? j then i else k) [0; 1; 2; 3].

Lemma transposition_odd :
  forallb (fun i => forallb (fun j => implb (negb (i =? j)) (in_perms perms4 (swap_pos i j) && odd_perm (swap_pos i j))) r4) r4 = true.
Proof. vm_compute. reflexivity. Qed.

(* ---------- statements over arbitrary atom numbers ---------- *)
Definition sel (order p : list Z) : list Z := map (fun i => znth order i 0) p.

Lemma znth_cons {A} (x : A) r i d : 0 < i -> znth (x :: r) i d = znth r (i - 1) d.
Proof.
  intros Hi. unfold znth. destruct (i <? 0) eqn:E; [lia|]. destruct (i - 1 <? 0) eqn:E2; [lia|].
  replace (Z.to_nat i) with (S (Z.to_nat (i - 1))) by lia. reflexivity.
Qed.

Lemma znth_In {A} (l : list A) i d : 0 <= i < Z.of_nat (List.length l) -> In (znth l i d) l.
Proof.
  intros Hi. unfold znth. destruct (i <? 0) eqn:E; [lia|]. apply nth_In. lia.
Qed.

Lemma index_from_znth order : forall k i, NoDup order -> 0 <= i < Z.of_nat (List.length order) ->
  index_from (znth order i 0) order k = Some (k + i).
Proof.
  induction order as [|x r IH]; intros k i Hn Hi; [cbn in Hi; lia|].
  inversion Hn as [|? ? Hx Hr]; subst. cbn [index_from].
  destruct (Z.eq_dec i 0) as [->|Hne].
  - unfold znth. cbn. rewrite Z.eqb_refl. f_equal. lia.
  - rewrite znth_cons by lia.
    assert (Hin : In (znth r (i - 1) 0) r). { apply znth_In. cbn [List.length] in Hi. lia. }
    destruct (znth r (i - 1) 0 =? x) eqn:E.
    + apply Z.eqb_eq in E. subst x. contradiction.
    + rewrite IH; [f_equal; lia | exact Hr | cbn [List.length] in Hi; lia].
Qed.

Lemma index_of_sel order p : NoDup order -> (forall i, In i p -> 0 <= i < Z.of_nat (List.length order)) ->
  map (index_of order) (sel order p) = map Some p.
Proof.
  intros Hn Hp. unfold sel. rewrite map_map. apply map_ext_in. intros i Hi. unfold index_of.
  rewrite index_from_znth; [f_equal | exact Hn | apply Hp; exact Hi].
Qed.

Lemma perms4_range p : In p perms4 -> List.length p = 4%nat /\ forall i, In i p -> 0 <= i < 4.
Proof.
  intros Hp. cbv in Hp.
  repeat (destruct Hp as [Hp|Hp]; [subst p; split; [reflexivity|]; intros i Hi; cbn in Hi; lia|]). contradiction.
Qed.

Lemma perms3_range p : In p perms3 -> List.length p = 3%nat /\ forall i, In i p -> 0 <= i < 3.
Proof.
  intros Hp. cbv in Hp.
  repeat (destruct Hp as [Hp|Hp]; [subst p; split; [reflexivity|]; intros i Hi; cbn in Hi; lia|]). contradiction.
Qed.

Definition th_apply (ix : list Z) (s : bool) : pyres bool :=
  match map Some (firstn 3 ix) with
  | [Some a; Some b; Some c] =>
      match th_lookup a b c with Some true => Ok (negb s) | Some false => Ok s | None => Err KeyError end
  | _ => Err ValueError
  end.

Lemma th_apply_perms4 :
  forallb (fun p => forallb (fun s => pyres_eqb Bool.eqb (th_apply p s) (Ok (xorb s (odd_perm p))) &&
                                      pyres_eqb Bool.eqb (th_apply (firstn 3 p) s) (Ok (xorb s (odd_perm p))))
                            [true; false]) perms4 = true.
Proof. vm_compute. reflexivity. Qed.

Lemma th_apply_perms3 :
  forallb (fun q => forallb (fun s => pyres_eqb Bool.eqb (th_apply q s) (Ok (xorb s (odd_perm (q ++ [3])))))
                            [true; false]) perms3 = true.
Proof. vm_compute. reflexivity. Qed.

Lemma pyres_eqb_bool_eq (x y : pyres bool) : pyres_eqb Bool.eqb x y = true -> x = y.
Proof.
  destruct x as [a|e], y as [b|f]; cbn; intros H; try discriminate.
  - apply eqb_prop in H. subst. reflexivity.
  - destruct e, f; try discriminate; reflexivity.
Qed.

Lemma th_apply_p4 p s : In p perms4 ->
  th_apply p s = Ok (xorb s (odd_perm p)) /\ th_apply (firstn 3 p) s = Ok (xorb s (odd_perm p)).
Proof.
  intros Hp. pose proof th_apply_perms4 as H. rewrite forallb_forall in H. specialize (H p Hp).
  rewrite forallb_forall in H. assert (Hs : In s [true; false]) by (destruct s; cbn; tauto).
  specialize (H s Hs). apply andb_prop in H. destruct H as [H1 H2].
  split; apply pyres_eqb_bool_eq; assumption.
Qed.

Lemma th_apply_p3 q s : In q perms3 -> th_apply q s = Ok (xorb s (odd_perm (q ++ [3]))).
Proof.
  intros Hq. pose proof th_apply_perms3 as H. rewrite forallb_forall in H. specialize (H q Hq).
  rewrite forallb_forall in H. assert (Hs : In s [true; false]) by (destruct s; cbn; tauto).
  specialize (H s Hs). apply pyres_eqb_bool_eq; assumption.
Qed.

Lemma firstn_sel order p n : firstn n (sel order p) = sel order (firstn n p).
Proof. unfold sel. apply firstn_map. Qed.

Lemma In_firstn3 (p : list Z) i : In i (firstn 3 p) -> In i p.
Proof. intros H. rewrite <- (firstn_skipn 3 p). apply in_or_app. left. exact H. Qed.

Section Tetrahedron.
  Variable isH : Z -> bool.

  (* with an explicit 4-neighbour order the function is th_apply on the positions *)
  Lemma translate_th_sel4 order p s :
    NoDup order -> List.length order = 4%nat -> (List.length p = 3%nat \/ List.length p = 4%nat) ->
    (forall i, In i p -> 0 <= i < 4) ->
    translate_th isH order (sel order p) s = th_apply p s.
  Proof.
    intros Hn Hl Hlp Hr. unfold translate_th, th_apply.
    assert (Hls : List.length (sel order p) = List.length p) by (unfold sel; apply map_length).
    rewrite Hls, Hl. change (Z.of_nat 4 =? 3) with false. cbv iota.
    assert (E : ((Z.of_nat (List.length p) =? 3) || (Z.of_nat (List.length p) =? 4)) = true).
    { destruct Hlp as [-> | ->]; reflexivity. }
    rewrite E. rewrite firstn_sel. rewrite index_of_sel; [reflexivity | exact Hn |].
    intros i Hi. rewrite Hl. apply Hr. apply In_firstn3. exact Hi.
  Qed.

  (* four explicit neighbours: env is any arrangement of them (4 listed, or the first 3 of it) *)
  Theorem translate_th_parity4 a b c d p s :
    NoDup [a; b; c; d] -> In p perms4 ->
    translate_th isH [a; b; c; d] (sel [a; b; c; d] p) s = Ok (xorb s (odd_perm p)) /\
    translate_th isH [a; b; c; d] (firstn 3 (sel [a; b; c; d] p)) s = Ok (xorb s (odd_perm p)).
  Proof.
    intros Hn Hp. destruct (perms4_range p Hp) as [Hl Hr]. destruct (th_apply_p4 p s Hp) as [H1 H2]. split.
    - rewrite translate_th_sel4; [exact H1 | exact Hn | reflexivity | right; exact Hl | exact Hr].
    - rewrite firstn_sel. rewrite translate_th_sel4; [exact H2 | exact Hn | reflexivity | | ].
      + left. rewrite firstn_length. rewrite Hl. reflexivity.
      + intros i Hi. apply Hr. apply In_firstn3. exact Hi.
  Qed.

  (* three heavy neighbours and one explicit hydrogen h passed in env *)
  Theorem translate_th_parity3H a b c h p s :
    NoDup [a; b; c; h] -> isH a = false -> isH b = false -> isH c = false -> isH h = true -> In p perms4 ->
    translate_th isH [a; b; c] (sel [a; b; c; h] p) s = Ok (xorb s (odd_perm p)).
  Proof.
    intros Hn Ha Hb Hc Hh Hp. destruct (perms4_range p Hp) as [Hl Hr].
    rewrite <- (proj1 (translate_th_parity4 a b c h p s Hn Hp)).
    unfold translate_th at 1.
    assert (Hls : List.length (sel [a; b; c; h] p) = 4%nat) by (unfold sel; rewrite map_length; exact Hl).
    rewrite Hls. cbn [List.length]. change (Z.of_nat 3 =? 3) with true. change (Z.of_nat 4 =? 4) with true. cbv iota.
    assert (Hf : find isH (sel [a; b; c; h] p) = Some h).
    { cbv in Hp.
      repeat (destruct Hp as [Hp|Hp]; [subst p; cbv; rewrite ?Ha, ?Hb, ?Hc, ?Hh; reflexivity|]).
      contradiction. }
    rewrite Hf. cbn [app]. unfold translate_th. rewrite Hls. cbn [List.length].
    change (Z.of_nat 4 =? 3) with false. change (Z.of_nat 4 =? 4) with true. cbv iota. rewrite orb_true_r. reflexivity.
  Qed.

  (* three heavy neighbours, hydrogen implicit: it counts as the last (fourth) position *)
  Theorem translate_th_parity3 a b c q s :
    NoDup [a; b; c] -> In q perms3 ->
    translate_th isH [a; b; c] (sel [a; b; c] q) s = Ok (xorb s (odd_perm (q ++ [3]))).
  Proof.
    intros Hn Hq. destruct (perms3_range q Hq) as [Hl Hr]. rewrite <- (th_apply_p3 q s Hq).
    unfold translate_th, th_apply.
    assert (Hls : List.length (sel [a; b; c] q) = 3%nat) by (unfold sel; rewrite map_length; exact Hl).
    rewrite Hls. cbn [List.length]. change (Z.of_nat 3 =? 3) with true. change (Z.of_nat 3 =? 4) with false. cbv iota.
    rewrite firstn_sel. rewrite index_of_sel; [reflexivity | exact Hn |].
    intros i Hi. cbn [List.length]. change (Z.of_nat 3) with 3. apply Hr. apply In_firstn3. exact Hi.
  Qed.

  (* the property in its "re-ordering" form: reading the same centre through an arrangement q of a previous
     arrangement p changes the reported sign exactly when q is odd *)
  Corollary translate_th_reorder a b c d p q s :
    NoDup [a; b; c; d] -> In p perms4 -> In q perms4 ->
    exists r, translate_th isH [a; b; c; d] (sel [a; b; c; d] p) s = Ok r /\
              translate_th isH [a; b; c; d] (sel [a; b; c; d] (compose p q)) s = Ok (xorb r (odd_perm q)).
  Proof.
    intros Hn Hp Hq. destruct (parity_compose p q Hp Hq) as [Hc Ho].
    exists (xorb s (odd_perm p)). split.
    - apply (translate_th_parity4 a b c d p s Hn Hp).
    - rewrite (proj1 (translate_th_parity4 a b c d (compose p q) s Hn Hc)). rewrite Ho. f_equal.
      destruct s, (odd_perm p), (odd_perm q); reflexivity.
  Qed.

  (* translation is an involution: translating a sign to an order and back gives the sign (used by C02/C16/C20) *)
  Corollary translate_th_involutive a b c d p s r :
    NoDup [a; b; c; d] -> In p perms4 ->
    translate_th isH [a; b; c; d] (sel [a; b; c; d] p) s = Ok r ->
    translate_th isH [a; b; c; d] (sel [a; b; c; d] p) r = Ok s.
  Proof.
    intros Hn Hp H. rewrite (proj1 (translate_th_parity4 a b c d p s Hn Hp)) in H. injection H as <-.
    rewrite (proj1 (translate_th_parity4 a b c d p _ Hn Hp)). f_equal. destruct s, (odd_perm p); reflexivity.
  Qed.
End Tetrahedron.

(* ---------- double bonds / allenes ---------- *)
(*  2       1
     \     /
      n---m
     /     \
    0       3      positions 0,2 sit on the first end, 1,3 on the last end *)
Definition ct_parity (a b : Z) : bool := xorb (a =? 2) (b =? 3).

Lemma alkene_table_law :
  List.length alkene_translate = 8%nat /\
  forallb (fun a => forallb (fun b =>
      option_eqb Bool.eqb (ct_lookup a b) (Some (ct_parity a b)) &&
      option_eqb Bool.eqb (ct_lookup b a) (Some (ct_parity a b))) [1; 3]) [0; 2] = true /\
  (* nothing else is a key: two positions of the same end are not translatable *)
  forallb (fun a => forallb (fun b =>
      implb (Z.even a && Z.even b || Z.odd a && Z.odd b) (match ct_lookup a b with None => true | _ => false end)) r4) r4 = true /\
  forallb (fun e => let '(a, b, v) := e in option_eqb Bool.eqb (ct_lookup a b) (Some v)) alkene_translate = true.
Proof. vm_compute. repeat split; reflexivity. Qed.

Section Alkene.
  Variable isH : Z -> bool.

  Definition pick (env : Z * Z * Z * Z) (i : Z) : Z :=
    let '(n0, n1, n2, n3) := env in
    if i =? 0 then n0 else if i =? 1 then n1 else if i =? 2 then n2 else n3.

  (* all four substituents explicit *)
  Theorem translate_env_law4 n0 n1 n2 n3 a b s :
    NoDup [n0; n1; n2; n3] -> In a [0; 2] -> In b [1; 3] ->
    translate_env isH (n0, n1, Some n2, Some n3) (pick (n0, n1, n2, n3) a) (pick (n0, n1, n2, n3) b) s
      = Ok (xorb s (ct_parity a b)) /\
    translate_env isH (n0, n1, Some n2, Some n3) (pick (n0, n1, n2, n3) b) (pick (n0, n1, n2, n3) a) s
      = Ok (xorb s (ct_parity a b)).
  Proof.
    intros Hn Ha Hb.
    inversion Hn as [|? ? Na H1]; subst. inversion H1 as [|? ? Nb H2]; subst.
    inversion H2 as [|? ? Nc H3]; subst. cbn in Na, Nb, Nc.
    assert (E : (n1 =? n0) = false /\ (n2 =? n0) = false /\ (n2 =? n1) = false /\ (n3 =? n0) = false /\
                (n3 =? n1) = false /\ (n3 =? n2) = false /\ (n0 =? n1) = false /\ (n0 =? n2) = false /\
                (n0 =? n3) = false /\ (n1 =? n2) = false /\ (n1 =? n3) = false /\ (n2 =? n3) = false).
    { repeat split; apply Z.eqb_neq; intuition congruence. }
    destruct E as (E1 & E2 & E3 & E4 & E5 & E6 & E7 & E8 & E9 & E10 & E11 & E12).
    cbn in Ha, Hb.
    destruct Ha as [<-|[<-|[]]]; destruct Hb as [<-|[<-|[]]]; split; unfold translate_env, pick, opt_is;
      cbn [Z.eqb Pos.eqb]; rewrite ?Z.eqb_refl, ?E1, ?E2, ?E3, ?E4, ?E5, ?E6, ?E7, ?E8, ?E9, ?E10, ?E11, ?E12;
      cbn [option_map]; vm_compute; destruct s; reflexivity.
  Qed.

  (* a missing substituent (None) is addressed by passing a hydrogen (hA on the first end, hB on the last end):
     it stands at position 2 resp. 3.  The first argument must belong to the first end (the contract of the
     function); with both substituents missing the call with exchanged ends raises KeyError, because a hydrogen
     is tried as position 2 first -- see translate_env_H_swapped_refuted. *)
  Theorem translate_env_lawH n0 n1 hA hB a b s :
    n0 <> n1 -> isH n0 = false -> isH n1 = false -> isH hA = true -> isH hB = true -> In a [0; 2] -> In b [1; 3] ->
    translate_env isH (n0, n1, None, None) (pick (n0, n1, hA, hB) a) (pick (n0, n1, hA, hB) b) s
      = Ok (xorb s (ct_parity a b)).
  Proof.
    intros Hne H0 H1 HhA HhB Ha Hb.
    assert (HA0 : (hA =? n0) = false) by (apply Z.eqb_neq; intros ->; congruence).
    assert (HA1 : (hA =? n1) = false) by (apply Z.eqb_neq; intros ->; congruence).
    assert (HB0 : (hB =? n0) = false) by (apply Z.eqb_neq; intros ->; congruence).
    assert (HB1 : (hB =? n1) = false) by (apply Z.eqb_neq; intros ->; congruence).
    assert (E01 : (n0 =? n1) = false) by (apply Z.eqb_neq; exact Hne).
    assert (E10 : (n1 =? n0) = false) by (apply Z.eqb_neq; congruence).
    cbn in Ha, Hb.
    destruct Ha as [<-|[<-|[]]]; destruct Hb as [<-|[<-|[]]]; unfold translate_env, pick, opt_is;
      cbn [Z.eqb Pos.eqb]; rewrite ?Z.eqb_refl, ?HA0, ?HA1, ?HB0, ?HB1, ?E01, ?E10, ?HhA, ?HhB, ?H0, ?H1;
      cbn [option_map]; vm_compute; destruct s; reflexivity.
  Qed.

  Lemma translate_env_H_swapped_refuted n0 n1 hB s :
    n0 <> n1 -> isH n0 = false -> isH n1 = false -> isH hB = true ->
    translate_env isH (n0, n1, None, None) hB n0 s = Err KeyError.
  Proof.
    intros Hne H0 H1 HhB.
    assert (HB0 : (hB =? n0) = false) by (apply Z.eqb_neq; intros ->; congruence).
    assert (HB1 : (hB =? n1) = false) by (apply Z.eqb_neq; intros ->; congruence).
    assert (E01 : (n0 =? n1) = false) by (apply Z.eqb_neq; exact Hne).
    unfold translate_env, opt_is. rewrite HB0, HB1, HhB, E01, H0. reflexivity.
  Qed.

  (* consequences in the words of the property *)
  Corollary exchange_at_one_end_flips n0 n1 n2 n3 b s :
    NoDup [n0; n1; n2; n3] -> In b [1; 3] ->
    exists r, translate_env isH (n0, n1, Some n2, Some n3) (pick (n0, n1, n2, n3) 0) (pick (n0, n1, n2, n3) b) s = Ok r /\
              translate_env isH (n0, n1, Some n2, Some n3) (pick (n0, n1, n2, n3) 2) (pick (n0, n1, n2, n3) b) s = Ok (negb r).
  Proof.
    intros Hn Hb. exists (xorb s (ct_parity 0 b)). split.
    - apply (translate_env_law4 n0 n1 n2 n3 0 b s Hn); [cbn; tauto | exact Hb].
    - rewrite (proj1 (translate_env_law4 n0 n1 n2 n3 2 b s Hn (or_intror (or_introl eq_refl)) Hb)).
      f_equal. unfold ct_parity. cbn. destruct s, (b =? 3); reflexivity.
  Qed.

  Corollary exchange_of_ends_keeps n0 n1 n2 n3 a b s :
    NoDup [n0; n1; n2; n3] -> In a [0; 2] -> In b [1; 3] ->
    translate_env isH (n0, n1, Some n2, Some n3) (pick (n0, n1, n2, n3) a) (pick (n0, n1, n2, n3) b) s =
    translate_env isH (n0, n1, Some n2, Some n3) (pick (n0, n1, n2, n3) b) (pick (n0, n1, n2, n3) a) s.
  Proof.
    intros Hn Ha Hb. destruct (translate_env_law4 n0 n1 n2 n3 a b s Hn Ha Hb) as [H1 H2]. rewrite H1, H2. reflexivity.
  Qed.
End Alkene.

(* ---------- geometric signs (over Z) ---------- *)
Lemma sgn_opp x : sgn (- x) = - sgn x.
Proof. unfold sgn. destruct (0 <? x) eqn:A, (x <? 0) eqn:B, (0 <? - x) eqn:C, (- x <? 0) eqn:D; lia. Qed.

Lemma pyramid_sign_swap_uv n u v w : pyramid_sign n v u w = - pyramid_sign n u v w.
Proof.
  unfold pyramid_sign. rewrite <- sgn_opp. f_equal.
  destruct n as [[nx ny] nz], u as [[ux uy] uz], v as [[vx vy] vz], w as [[wx wy] wz]. unfold pyramid_vol. ring.
Qed.
Lemma pyramid_sign_swap_vw n u v w : pyramid_sign n u w v = - pyramid_sign n u v w.
Proof.
  unfold pyramid_sign. rewrite <- sgn_opp. f_equal.
  destruct n as [[nx ny] nz], u as [[ux uy] uz], v as [[vx vy] vz], w as [[wx wy] wz]. unfold pyramid_vol. ring.
Qed.
Lemma pyramid_sign_swap_uw n u v w : pyramid_sign n w v u = - pyramid_sign n u v w.
Proof.
  unfold pyramid_sign. rewrite <- sgn_opp. f_equal.
  destruct n as [[nx ny] nz], u as [[ux uy] uz], v as [[vx vy] vz], w as [[wx wy] wz]. unfold pyramid_vol. ring.
Qed.
(* cyclic rotation keeps the sign *)
Lemma pyramid_sign_rotate n u v w : pyramid_sign n v w u = pyramid_sign n u v w.
Proof. rewrite pyramid_sign_swap_uv, pyramid_sign_swap_uw. lia. Qed.

(* reading the double bond from the other end gives the same sign *)
Lemma cis_trans_sign_reverse n u v w : cis_trans_sign w v u n = cis_trans_sign n u v w.
Proof.
  unfold cis_trans_sign. f_equal.
  destruct n as [nx ny], u as [ux uy], v as [vx vy], w as [wx wy]. unfold cis_trans_dot. ring.
Qed.

(* mirror image (y -> -y) keeps cis/trans but inverts a pyramid (z -> -z) and an allene mark *)
Lemma cis_trans_sign_mirror nx ny ux uy vx vy wx wy :
  cis_trans_sign (nx, - ny) (ux, - uy) (vx, - vy) (wx, - wy) = cis_trans_sign (nx, ny) (ux, uy) (vx, vy) (wx, wy).
Proof. unfold cis_trans_sign. f_equal. unfold cis_trans_dot. ring. Qed.

Lemma pyramid_sign_mirror nx ny nz ux uy uz vx vy vz wx wy wz :
  pyramid_sign (nx, ny, - nz) (ux, uy, - uz) (vx, vy, - vz) (wx, wy, - wz)
  = - pyramid_sign (nx, ny, nz) (ux, uy, uz) (vx, vy, vz) (wx, wy, wz).
Proof. unfold pyramid_sign. rewrite <- sgn_opp. f_equal. unfold pyramid_vol. ring. Qed.

Lemma allene_sign_mark mark u v w : allene_sign (- mark) u v w = - allene_sign mark u v w.
Proof.
  unfold allene_sign. rewrite <- sgn_opp. f_equal. destruct u as [ux uy], v as [vx vy], w as [wx wy].
  unfold allene_dot. ring.
Qed.
