(* C13 -- the world invariant: every live molecule (and every transaction backup) is well formed and cache-coherent, and no
   two of them share a bond object.  Preserved by every operation of the state machine (Model.Cache.step). *)
From Coq Require Import ZArith List Bool Lia Permutation.
From Model Require Import PyBase Cache.
From Proofs Require Import CacheProofs CacheWf CacheCopy CacheCoh.
Import ListNotations.
Open Scope Z_scope.

(* the molecule __exit__ installs when the block raised *)
Definition bk_mobj (b : bk) : mobj := mkM (bk_atoms b) (bk_adj b) (bk_cache b) (bk_changed b) None (bk_name b) (bk_meta b).
Definition shadow (o : mobj) : list mobj := match o_backup o with Some b => [bk_mobj b] | None => [] end.
Definition units_of (o : mobj) : list mobj := o :: shadow o.
Definition live (s : state) : list mobj := s_cur s :: s_others s.
Definition units (s : state) : list mobj := flat_map units_of (live s).

Definition U (h : hp) (u : mobj) : Prop := inv1 h u /\ CohFC h u /\ (o_backup u = None -> Coh h u).
Definition disj (a b : mobj) : Prop := forall r, In r (arefs (o_adj a)) -> ~ In r (arefs (o_adj b)).
Fixpoint pdisj (l : list mobj) : Prop := match l with [] => True | x :: r => (forall y, In y r -> disj x y) /\ pdisj r end.
Definition W (s : state) : Prop := Forall (U (s_heap s)) (units s) /\ pdisj (units s).

Lemma disj_sym a b : disj a b -> disj b a.
Proof. intros D r H1 H2. eapply D; eauto. Qed.
Lemma pdisj_app a b : pdisj (a ++ b) <-> pdisj a /\ pdisj b /\ forall x y, In x a -> In y b -> disj x y.
Proof.
  induction a as [|x a IH]; cbn.
  - split; [intros H; repeat split; auto; intros ? ? [] | tauto].
  - rewrite IH. split.
    + intros [H1 [H2 [H3 H4]]]. repeat split; auto.
      * intros y Hy. apply H1. apply in_or_app. now left.
      * intros x0 y [E|E] Hy; [subst; apply H1; apply in_or_app; now right | now apply H4].
    + intros [[H1 H2] [H3 H4]]. repeat split; auto. intros y Hy. apply in_app_or in Hy. destruct Hy; [now apply H1 | apply H4; auto].
Qed.

(* ---- a unit does not notice heap changes outside its own bond objects *)
Lemma view_of_ext h h' o : (forall r, In r (arefs (o_adj o)) -> hget h' r = hget h r) -> view_of h' o = view_of h o.
Proof.
  intros E. unfold view_of. f_equal. apply map_ext_in. intros [n rw] Hin. cbn [fst snd]. f_equal. apply map_ext_in. intros [m r] Hm.
  cbn [fst snd]. f_equal. apply E. apply In_arefs. eauto.
Qed.
Lemma wfa_ext h h' atoms adj : wfa h atoms adj -> h_next h <= h_next h' -> (forall r, In r (arefs adj) -> hget h' r = hget h r) -> wfa h' atoms adj.
Proof.
  intros [Wk Wnd Wsym Wloop Wval Wlt] L E. constructor; auto.
  - intros r H. rewrite E by assumption. now apply Wval.
  - intros r H. apply Wlt in H. lia.
Qed.
Lemma U_ext h h' u : U h u -> h_next h <= h_next h' -> (forall r, In r (arefs (o_adj u)) -> hget h' r = hget h r) -> U h' u.
Proof.
  intros [[Wf Cw] [C1 C2]] L E. pose proof (view_of_ext h h' u E) as V. split; [split; [eapply wfa_ext; eauto | exact Cw]|].
  split; [intros k s; rewrite V; apply C1 | intros B k s; rewrite V; now apply C2].
Qed.
Lemma U_lt h u r : U h u -> In r (arefs (o_adj u)) -> r < h_next h.
Proof. intros [[Wf _] _]. apply (wf_lt _ _ _ Wf). Qed.

(* ---- an action on the current molecule that keeps its _backup *)
Lemma units_cons h o others : units (mkS h o others) = o :: (shadow o ++ flat_map units_of others).
Proof. reflexivity. Qed.
Lemma shadow_same o o1 : o_backup o1 = o_backup o -> shadow o1 = shadow o.
Proof. unfold shadow. now intros ->. Qed.

Lemma W_lift (a : act) s :
  W s -> good1 a ->
  (match a (s_heap s) (s_cur s) with (h', o', _) => CohFC h' o' /\ (o_backup o' = None -> Coh h' o') end) ->
  W (fst (lift a s)).
Proof.
  destruct s as [h o others]. unfold W, lift. cbn [s_heap s_cur s_others]. rewrite units_cons.
  set (R := shadow o ++ flat_map units_of others). intros [F P] G HC.
  inversion F as [|? ? Uo FR]; subst. destruct P as [P1 P2].
  specialize (G h o (proj1 Uo)). destruct (a h o) as [[h1 o1] e]. destruct G as [I1 [HL [Un [Rf Bk]]]]. destruct HC as [C1 C2].
  cbn [fst s_heap]. rewrite units_cons. rewrite (shadow_same o o1 Bk). fold R.
  assert (forall y, In y R -> forall r, In r (arefs (o_adj y)) -> r < h_next h /\ ~ In r (arefs (o_adj o))) as Old.
  { intros y Hy r Hr. split; [apply (U_lt h y r); [rewrite Forall_forall in FR; now apply FR | exact Hr]|]. intros Hi. eapply P1; eauto. }
  split.
  - constructor; [split; [exact I1 | split; assumption]|]. rewrite Forall_forall in *. intros y Hy. eapply U_ext; [now apply FR | destruct HL; lia |].
    intros r Hr. destruct (Old y Hy r Hr). now apply Un.
  - split; [|exact P2]. intros y Hy r Hr1 Hr2. destruct (Old y Hy r Hr2) as [Lt Ni]. apply Rf in Hr1. destruct Hr1; [contradiction | lia].
Qed.

(* ---- coherence conditions of the single-molecule operations *)
Lemma strong_HC a h o : strong a -> U h o ->
  (match a h o with (h', o', _) => o_backup o' = o_backup o end) ->
  match a h o with (h', o', _) => CohFC h' o' /\ (o_backup o' = None -> Coh h' o') end.
Proof.
  intros S [I [C1 C2]] B. specialize (S h o I C1). destruct (a h o) as [[h1 o1] e]. destruct S as [E|S].
  - inversion E; subst. auto.
  - split; [now apply Coh_CohFC | auto].
Qed.
Lemma good1_backup a h o : good1 a -> inv1 h o -> match a h o with (h', o', _) => o_backup o' = o_backup o end.
Proof. intros G I. specialize (G h o I). destruct (a h o) as [[h1 o1] e]. destruct G as [_ [_ [_ [_ B]]]]. exact B. Qed.
Lemma read_HC k h o : U h o -> match read k h o with (h', o', _) => CohFC h' o' /\ (o_backup o' = None -> Coh h' o') end.
Proof.
  intros [I [C1 C2]]. pose proof (read_CohFC k h o C1) as A. pose proof (read_Coh k h o) as B.
  unfold read, ok in *. cbn beta iota in *. split; [exact A|]. intros E. apply B. now apply C2.
Qed.
Lemma same_view_HC h o o' : U h o -> o_cache o' = o_cache o -> view_of h o' = view_of h o -> o_backup o' = o_backup o ->
  CohFC h o' /\ (o_backup o' = None -> Coh h o').
Proof.
  intros [I [C1 C2]] Ec Ev Eb. split; [intros k s; rewrite Ec, Ev; apply C1|]. rewrite Eb. intros E k s. rewrite Ec, Ev. now apply C2.
Qed.
Lemma atoms_only_HC h o o' : U h o -> o_cache o' = o_cache o -> o_adj o' = o_adj o -> o_backup o' = o_backup o -> o_backup o <> None ->
  CohFC h o' /\ (o_backup o' = None -> Coh h o').
Proof.
  intros [I [C1 C2]] Ec Ea Eb Nb. split; [|rewrite Eb; tauto]. intros k s F. rewrite Ec. intros Hc.
  eapply equiv_for_veq; [exact F | | now apply C1]. apply nsconn_ext; auto.
Qed.

(* ---- copy *)
Lemma filter_kept_ff c : filter (kept false false) c = [].
Proof. induction c as [|[k s] t IH]; cbn; [reflexivity | exact IH]. Qed.
Lemma fcopy_id c c' : fcopy c = Ok c' -> c' = c.
Proof. unfold fcopy. destruct (b_lab c); intros H; inversion H; reflexivity. Qed.

Lemma copy_mol_spec ks kc h o h1 b :
  wf h o -> copy_mol ks kc h o = Ok (h1, b) ->
  exists cb, b = mkM (o_atoms o) cb (filter (kept ks kc) (o_cache o)) (o_changed o) None (o_name o) (o_meta o) /\
    wf h1 b /\ hext h h1 /\ (forall r, In r (arefs cb) -> h_next h <= r) /\ view_of h1 b = view_of h o.
Proof.
  intros Wf H. unfold copy_mol in H. destruct (negb (forallb _ (o_atoms o))); [discriminate|].
  destruct (copy_rows h [] (o_adj o)) as [[h2 cb]|] eqn:R; [|discriminate]. inversion H; subst. exists cb. split; [reflexivity|].
  unfold copy_rows in R. pose proof Wf as Wf0. destruct Wf as [Wk Wnd Wsym Wloop Wval Wlt].
  assert (forall n r, In (n, r) (o_adj o) -> zget (o_adj o) n = Some r) as Src by (intros; apply In_zget_nodup; [apply Wnd | assumption]).
  assert (forall n r m rf, In (n, r) (o_adj o) -> In (m, rf) r -> true = true -> In m (keys (o_adj o))) as Cl.
  { intros n r m rf H1 H2 _. rewrite Wk. eapply (wfa_nbr_atom _ _ _ n m rf Wf0). eapply nd_In_aslot; eauto. }
  split; [|split; [|split]].
  - unfold wf. cbn [o_atoms o_adj]. eapply (gcopy_wfa (fun _ => true) fcopy h (o_adj o) Wnd Wsym Wlt (o_adj o)); eauto. apply Wnd.
  - eapply (gcopy_hext (fun _ => true) fcopy h (o_adj o) Wnd Wsym Wlt (o_adj o)); eauto. apply Wnd.
  - intros r. eapply (gcopy_fresh (fun _ => true) fcopy h (o_adj o) Wnd Wsym Wlt (o_adj o)); eauto. apply Wnd.
  - unfold view_of. cbn [o_atoms o_adj]. f_equal.
    destruct (gcopy_cinv (fun _ => true) fcopy h (o_adj o) Wnd Wsym Wlt (o_adj o) Src (proj1 Wnd) (fun _ _ => eq_refl) h1 cb R) as [_ [F _]].
    apply (gcopy_view (fun _ => true) fcopy h h1 (o_adj o) cb); auto. apply fcopy_id.
Qed.

(* ---- world-level building blocks *)
Lemma hext_U h h1 u : hext h h1 -> U h u -> U h1 u.
Proof. intros [L E] Uu. eapply U_ext; eauto. intros r Hr. apply E. eapply U_lt; eauto. Qed.
Lemma fresh_disj h y b : U h y -> (forall r, In r (arefs (o_adj b)) -> h_next h <= r) -> disj y b /\ disj b y.
Proof.
  intros Uy Fr. split; intros r H1 H2.
  - apply Fr in H2. pose proof (U_lt _ _ _ Uy H1). lia.
  - apply Fr in H1. pose proof (U_lt _ _ _ Uy H2). lia.
Qed.
Lemma W_heap_ext h h1 o others : W (mkS h o others) -> hext h h1 -> W (mkS h1 o others).
Proof.
  unfold W. cbn [s_heap]. intros [F P] X. split; [|exact P]. rewrite Forall_forall in *. intros y Hy. eapply hext_U; eauto.
Qed.
Lemma units_others h o b others : units (mkS h o (b :: others)) = (o :: shadow o) ++ (b :: shadow b) ++ flat_map units_of others.
Proof. reflexivity. Qed.
Lemma units_split h o others : units (mkS h o others) = (o :: shadow o) ++ flat_map units_of others.
Proof. reflexivity. Qed.

Lemma W_add h h1 o others b :
  W (mkS h o others) -> hext h h1 -> U h1 b -> o_backup b = None -> (forall r, In r (arefs (o_adj b)) -> h_next h <= r) ->
  W (mkS h1 o (b :: others)).
Proof.
  unfold W. cbn [s_heap]. rewrite units_others, units_split. intros [F P] X Ub Bn Fr.
  replace (b :: shadow b) with [b] by (unfold shadow; now rewrite Bn).
  set (A := o :: shadow o) in *. set (R' := flat_map units_of others) in *.
  rewrite Forall_forall in F. apply pdisj_app in P. destruct P as [P1 [P2 P3]].
  split.
  - rewrite Forall_forall. intros y Hy. apply in_app_or in Hy. destruct Hy as [Hy|Hy]; [eapply hext_U; eauto; apply F; apply in_or_app; auto|].
    apply in_app_or in Hy. destruct Hy as [[<-|[]]|Hy]; [exact Ub | eapply hext_U; eauto; apply F; apply in_or_app; auto].
  - apply pdisj_app. split; [exact P1|]. split.
    + change ([b] ++ R') with (b :: R'). cbn [pdisj]. split; [|exact P2]. intros y Hy.
      refine (proj2 (fresh_disj h y b _ Fr)). apply F; apply in_or_app; auto.
    + intros x y Hx Hy. apply in_app_or in Hy. destruct Hy as [[<-|[]]|Hy]; [|now apply P3].
      refine (proj1 (fresh_disj h x b _ Fr)). apply F; apply in_or_app; auto.
Qed.

(* replacing the current molecule (and its backup) by units already known / fresh *)
Lemma W_enter h o others h1 b :
  W (mkS h o others) -> hext h h1 -> U h1 b -> o_backup b = None -> (forall r, In r (arefs (o_adj b)) -> h_next h <= r) ->
  forall bkv, bk_mobj bkv = b -> W (mkS h1 (set_backup o (Some bkv)) others).
Proof.
  unfold W. cbn [s_heap]. rewrite !units_split. intros [F P] X Ub Bn Fr bkv Eb. subst b.
  replace (shadow (set_backup o (Some bkv))) with [bk_mobj bkv] by reflexivity.
  set (R' := flat_map units_of others) in *.
  rewrite Forall_forall in F. apply pdisj_app in P. destruct P as [P1 [P2 P3]].
  assert (U h o) as Uo by (apply F; apply in_or_app; left; now left).
  assert (U h1 (set_backup o (Some bkv))) as Uo'.
  { pose proof (hext_U _ _ _ X Uo) as [I [C1 C2]]. split; [eapply inv1_same; eauto|]. split; [exact C1 | discriminate]. }
  split.
  - rewrite Forall_forall. intros y Hy. apply in_app_or in Hy. destruct Hy as [[<-|[<-|[]]]|Hy]; [exact Uo' | exact Ub |].
    eapply hext_U; eauto. apply F. apply in_or_app. now right.
  - apply pdisj_app. split; [|split; [exact P2|]].
    + cbn [pdisj]. split; [|split; [intros ? []|exact I]]. intros y [<-|[]]. exact (proj1 (fresh_disj h o (bk_mobj bkv) Uo Fr)).
    + intros x y [<-|[<-|[]]] Hy.
      * intros r Hr. apply (P3 o y); [now left | exact Hy | exact Hr].
      * refine (proj2 (fresh_disj h y (bk_mobj bkv) _ Fr)). apply F; apply in_or_app; now right.
Qed.
Lemma W_exit_exn h o others b : W (mkS h o others) -> o_backup o = Some b -> W (mkS h (bk_mobj b) others).
Proof.
  unfold W. cbn [s_heap]. rewrite !units_split. intros [F P] Eb. unfold shadow in *. rewrite Eb in *. cbn [o_backup bk_mobj app] in *.
  inversion F as [|? ? _ F']; subst. destruct P as [_ P']. split; assumption.
Qed.
Lemma W_drop_backup h o others : W (mkS h o others) -> Coh h o -> W (mkS h (set_backup o None) others).
Proof.
  unfold W. cbn [s_heap]. rewrite !units_split. intros [F P] C.
  apply Forall_app in F. destruct F as [F1 F2]. apply pdisj_app in P. destruct P as [P1 [P2 P3]].
  inversion F1 as [|? ? [I [C1 C2]] _]; subst. unfold shadow at 1 2. cbn [o_backup set_backup app].
  split.
  - constructor; [|exact F2]. split; [eapply inv1_same; eauto|]. split; [exact C1 | intros _; exact C].
  - split; [|exact P2]. intros y Hy r Hr. apply (P3 o y); [now left | exact Hy | exact Hr].
Qed.

(* ================================================================================================ *)
(* every operation keeps the world invariant *)
Lemma W_cur s : W s -> U (s_heap s) (s_cur s).
Proof. intros [F _]. destruct s as [h o others]. unfold units, live in F. cbn in F. inversion F; assumption. Qed.

Lemma W_strong a s : W s -> good1 a -> strong a -> W (fst (lift a s)).
Proof.
  intros Ws G S. apply W_lift; auto. pose proof (W_cur s Ws) as Uc. apply strong_HC; auto. apply good1_backup; auto. apply Uc.
Qed.

Lemma W_swap h o a t : W (mkS h o (a :: t)) -> W (mkS h a (o :: t)).
Proof.
  unfold W. cbn [s_heap]. rewrite !units_others. intros [F P]. rewrite !app_assoc in *.
  apply Forall_app in F. destruct F as [F1 F2]. apply Forall_app in F1. destruct F1 as [F1 F3].
  apply pdisj_app in P. destruct P as [P1 [P2 P3]]. apply pdisj_app in P1. destruct P1 as [P4 [P5 P6]].
  split.
  - apply Forall_app. split; [apply Forall_app; split; assumption | assumption].
  - apply pdisj_app. split; [apply pdisj_app; split; [assumption | split; [assumption|]]|split; [assumption|]].
    + intros x y Hx Hy. apply disj_sym. now apply P6.
    + intros x y Hx Hy. apply P3; [|assumption]. apply in_app_or in Hx. apply in_or_app. tauto.
Qed.

Lemma set_charge_HC n v h o : U h o -> o_backup o <> None ->
  match set_charge n v h o with (h', o', _) => CohFC h' o' /\ (o_backup o' = None -> Coh h' o') end.
Proof.
  intros Uo Nb. unfold set_charge. destruct (zget (o_atoms o) n); [|cbn; destruct Uo as [_ [? ?]]; auto].
  destruct ((v >? 4) || (v <? -4)); [cbn; destruct Uo as [_ [? ?]]; auto|]. cbv beta iota delta [ok]. apply (atoms_only_HC h o); auto.
Qed.
Lemma set_radical_HC n v h o : U h o -> o_backup o <> None ->
  match set_radical n v h o with (h', o', _) => CohFC h' o' /\ (o_backup o' = None -> Coh h' o') end.
Proof.
  intros Uo Nb. unfold set_radical. destruct (zget (o_atoms o) n); [|cbn; destruct Uo as [_ [? ?]]; auto]. cbv beta iota delta [ok]. apply (atoms_only_HC h o); auto.
Qed.

Lemma W_step_enter s : W s -> W (fst (lift enter s)).
Proof.
  intros Ws. pose proof (W_cur s Ws) as Uc. destruct s as [h o others]. unfold lift, enter. cbn [s_heap s_cur s_others] in *.
  destruct (o_backup o) as [b0|] eqn:Eb0; [exact Ws|].
  destruct (copy_mol true true h o) as [[h1 b]|e] eqn:E; [|exact Ws]. cbn [ok fst].
  destruct (copy_mol_spec _ _ _ _ _ _ (proj1 (proj1 Uc)) E) as [cb [Eb [Wb [X [Fr V]]]]]. subst b. simpo.
  apply (W_enter h o others h1 (mkM (o_atoms o) cb (filter (kept true true) (o_cache o)) (o_changed o) None (o_name o) (o_meta o)) Ws X);
    [| reflexivity | exact Fr | reflexivity].
  destruct Uc as [[Wo Cw] [C1 C2]].
  assert (K2 h1 (mkM (o_atoms o) cb (filter (kept true true) (o_cache o)) (o_changed o) None (o_name o) (o_meta o))) as K.
  { apply (flush_K2' true true h1 (mkM (o_atoms o) cb (filter (kept true true) (o_cache o)) (o_changed o) None (o_name o) (o_meta o))).
    intros k s Hk Hc. change (view_of h1 (set_cache _ _)) with (view_of h1 (mkM (o_atoms o) cb (filter (kept true true) (o_cache o)) (o_changed o) None (o_name o) (o_meta o))) in *.
    rewrite V. apply C1; [eapply kept_fc; eauto | exact Hc]. }
  split; [split; [exact Wb | exact Cw]|]. split; [apply Coh_CohFC; now apply K2_Coh | intros _; now apply K2_Coh].
Qed.

(* ---- __exit__ *)
Lemma W_step_exit_exn s : W s -> W (fst (lift exit_exn s)).
Proof.
  intros Ws. destruct s as [h o others]. unfold lift, exit_exn. cbn [s_heap s_cur s_others].
  destruct (o_backup o) as [b|] eqn:E; [|exact Ws]. cbn [ok fst]. now apply (W_exit_exn h o others b).
Qed.

Definition exit_body : act := note_setters ;; flush false false ;; fix_structure ;; fix_stereo.
Lemma exit_ok_split h o : exit_ok h o = (exit_body ;; drop_backup) h o.
Proof.
  unfold exit_ok, exit_body, seq. destruct (note_setters h o) as [[h1 o1] [e|]]; [reflexivity|].
  destruct (flush false false h1 o1) as [[h2 o2] [e|]]; [reflexivity|].
  destruct (fix_structure h2 o2) as [[h3 o3] [e|]]; [reflexivity|].
  destruct (fix_stereo h3 o3) as [[h4 o4] [e|]]; reflexivity.
Qed.
Lemma In_txn_diffs x o b : In x (txn_diffs o b) -> In x (keys (o_atoms o)).
Proof.
  unfold txn_diffs. rewrite in_flat_map. intros [[n a] [H1 H2]]. cbn [fst snd] in H2.
  assert (In n (keys (o_atoms o))) as Hn by (change n with (fst (n, a)); now apply in_map).
  destruct (zget (bk_atoms b) n); [|destruct H2 as [<-|[]]; exact Hn].
  destruct (_ && _); [destruct H2|]. destruct H2 as [<-|[]]. exact Hn.
Qed.
Lemma note_setters_good : good1 note_setters.
Proof.
  intros h o [Wf C]. unfold note_setters. destruct (o_changed o) as [l|] eqn:E; [|cbn; split; [split; assumption | apply fine_refl]].
  destruct (o_backup o) as [b|] eqn:Eb; [|cbn; split; [split; assumption | apply fine_refl]].
  cbn. split; [|now apply fine_same]. split; [exact Wf|]. intros l' Hl x Hx. simpo. inversion Hl; subst.
  apply In_fold_sadd in Hx. destruct Hx as [Hx|Hx]; [eapply In_txn_diffs; eauto | eapply C; eauto].
Qed.
Lemma exit_body_good : good1 exit_body.
Proof.
  unfold exit_body. apply good1_seq; [apply note_setters_good|]. apply good1_seq; [apply flush_good|].
  apply good1_seq; [apply fix_structure_good | apply fix_stereo_good].
Qed.
Lemma exit_body_coh h o : CohFC h o ->
  match exit_body h o with (h1, o1, None) => Coh h1 o1 | (h1, o1, Some _) => (h1, o1) = (h, o) \/ Coh h1 o1 end.
Proof.
  intros C. unfold exit_body. unfold seq at 1.
  assert (forall o', o_cache o' = o_cache o -> view_of h o' = view_of h o ->
            match (flush false false ;; fix_structure ;; fix_stereo) h o' with (h1, o1, _) => Coh h1 o1 end) as K.
  { intros o' Ec Ev. apply flush_then_kc; [|apply kc_fix_both]. intros k s F. rewrite Ec, Ev. now apply C. }
  unfold note_setters. destruct (o_changed o) as [l|].
  - destruct (o_backup o) as [b|]; [|cbn; now left]. cbn [ok]. cbn beta iota.
    match goal with |- context [seq ?A ?B h ?O] => specialize (K O eq_refl eq_refl); destruct (seq A B h O) as [[h1 o1] [e|]] end; auto.
  - cbn [ok]. cbn beta iota. specialize (K o eq_refl eq_refl).
    destruct ((flush false false ;; fix_structure ;; fix_stereo) h o) as [[h1 o1] [e|]]; auto.
Qed.

Lemma W_step_exit_ok s : W s -> W (fst (lift exit_ok s)).
Proof.
  intros Ws. pose proof (W_cur s Ws) as Uc.
  assert (W (fst (lift exit_body s))) as W1.
  { apply W_lift; [exact Ws | apply exit_body_good|]. pose proof (exit_body_coh _ _ (proj1 (proj2 Uc))) as K.
    pose proof (good1_backup _ _ _ exit_body_good (proj1 Uc)) as B.
    destruct (exit_body (s_heap s) (s_cur s)) as [[h1 o1] [e|]].
    - destruct K as [K|K]; [inversion K; subst; destruct Uc as [_ [? ?]]; auto | split; [now apply Coh_CohFC | auto]].
    - split; [now apply Coh_CohFC | auto]. }
  destruct s as [h o others]. unfold lift in *. cbn [s_heap s_cur s_others] in *. rewrite exit_ok_split. unfold seq.
  pose proof (exit_body_coh _ _ (proj1 (proj2 Uc))) as K.
  destruct (exit_body h o) as [[h1 o1] [e|]]; [exact W1|]. unfold drop_backup, ok. cbn [fst] in *. now apply W_drop_backup.
Qed.

(* ---- copy / substructure results become new live molecules *)
Lemma W_step_copy s : W s ->
  W (match copy_mol false false (s_heap s) (s_cur s) with Err e => s | Ok (h, o) => mkS h (s_cur s) (o :: s_others s) end).
Proof.
  intros Ws. pose proof (W_cur s Ws) as Uc. destruct s as [h o others]. cbn [s_heap s_cur s_others] in *.
  destruct (copy_mol false false h o) as [[h1 b]|e] eqn:E; [|exact Ws].
  destruct (copy_mol_spec _ _ _ _ _ _ (proj1 (proj1 Uc)) E) as [cb [Eb [Wb [X [Fr V]]]]]. subst b.
  apply (W_add h h1 o others _ Ws X); [| reflexivity | exact Fr]. rewrite filter_kept_ff.
  destruct Uc as [[Wo Cw] _]. split; [split; [rewrite filter_kept_ff in Wb; exact Wb | exact Cw]|].
  assert (K2 h1 (mkM (o_atoms o) cb [] (o_changed o) None (o_name o) (o_meta o))) as K by (now apply K2_nil).
  split; [apply Coh_CohFC; now apply K2_Coh | intros _; now apply K2_Coh].
Qed.

Lemma rows_of_spec adj : forall ns rows, rows_of adj ns = Ok rows -> keys rows = ns /\ forall n r, In (n, r) rows -> zget adj n = Some r.
Proof.
  induction ns as [|n t IH]; cbn; intros rows H.
  - inversion H; subst. split; [reflexivity | intros ? ? []].
  - destruct (zget adj n) as [r|] eqn:E; [|discriminate]. destruct (rows_of adj t) as [l|]; [|discriminate]. inversion H; subst.
    destruct (IH l eq_refl) as [K S]. split; [unfold keys in *; cbn [map fst]; now rewrite K|]. intros n0 r0 [E0|E0]; [inversion E0; subst; assumption | now apply S].
Qed.

Lemma sub_spec_g rh ats h o h2 o2 e :
  wf h o -> substructure_g rh ats h o = Ok (h2, o2, e) ->
  exists h1 sub0, hext h h1 /\ inv1 h1 sub0 /\ o_cache sub0 = [] /\ o_backup sub0 = None /\ o_changed sub0 = None /\
    (forall r, In r (arefs (o_adj sub0)) -> h_next h <= r) /\ sub_finish rh h1 sub0 = (h2, o2, e).
Proof.
  intros Wf H. unfold substructure_g in H. destruct ats as [|a0 ats']; [discriminate|].
  destruct (negb (subset_z (a0 :: ats') (keys (o_atoms o)))); [discriminate|].
  set (sel := filter (fun n => zmem n (a0 :: ats')) (keys (o_atoms o))) in *.
  unfold sub_rows in H. destruct (rows_of (o_adj o) sel) as [rows|] eqn:Er; [|discriminate].
  destruct (gcopy_rows (fun m => zmem m sel) fsub h [] rows) as [[h1 sb]|] eqn:R; [|discriminate].
  destruct (rows_of_spec _ _ _ Er) as [Kr Src]. pose proof Wf as Wf0. destruct Wf as [Wk Wnd Wsym Wloop Wval Wlt].
  assert (NoDup (keys rows)) as ND. { rewrite Kr. unfold sel. apply NoDup_filter. rewrite <- Wk. apply Wnd. }
  assert (forall n, In n (keys rows) -> zmem n sel = true) as Kp by (intros n Hn; apply zmem_In; now rewrite <- Kr).
  assert (forall n r m rf, In (n, r) rows -> In (m, rf) r -> zmem m sel = true -> In m (keys rows)) as Cl
    by (intros n r m rf _ _ Hm; rewrite Kr; now apply zmem_In).
  set (sa := map (fun n => (n, match zget (o_atoms o) n with Some a => mkA (a_core a) (if rh then None else a_hyd a) None
                                                        | None => mkA (mkCore 0 None 0 false) None None end)) sel) in *.
  exists h1, (mkM sa sb [] None None None None).
  assert (keys sa = keys rows) as Ks. { rewrite Kr. unfold sa, keys. rewrite map_map. cbn. apply map_id. }
  split; [eapply (gcopy_hext (fun m => zmem m sel) fsub h (o_adj o) Wnd Wsym Wlt rows); eauto|].
  split; [split|].
  - unfold wf. cbn [o_atoms o_adj]. eapply (gcopy_wfa (fun m => zmem m sel) fsub h (o_adj o) Wnd Wsym Wlt rows); eauto.
  - intros l Hl. discriminate.
  - split; [reflexivity|]. split; [reflexivity|]. split; [reflexivity|]. split; [|inversion H; reflexivity].
    intros r. cbn [o_adj]. eapply (gcopy_fresh (fun m => zmem m sel) fsub h (o_adj o) Wnd Wsym Wlt rows); eauto.
Qed.

Lemma sub_spec ats h o h2 o2 e :
  wf h o -> substructure ats h o = Ok (h2, o2, e) ->
  exists h1 sub0, hext h h1 /\ inv1 h1 sub0 /\ o_cache sub0 = [] /\ o_backup sub0 = None /\ o_changed sub0 = None /\
    (forall r, In r (arefs (o_adj sub0)) -> h_next h <= r) /\ (fix_structure ;; fix_stereo) h1 sub0 = (h2, o2, e).
Proof. exact (sub_spec_g true ats h o h2 o2 e). Qed.
Lemma sub_finish_good rh : good1 (sub_finish rh).
Proof.
  destruct rh; [apply fix_both_good|]. unfold sub_finish. apply good1_seq; [|apply fix_stereo_good].
  apply good1_seq; [apply calc_labels_good | apply set_changed_none_good].
Qed.
Lemma sub_finish_kc rh : kc (sub_finish rh).
Proof.
  destruct rh; [apply kc_fix_both|]. unfold sub_finish. apply kc_seq; [|apply kc_read].
  apply kk_seq; [apply kk_calc_labels | apply kk_set_changed].
Qed.

(* one substructure (with or without recalculation of the hydrogens) added to the live molecules *)
Lemma W_sub_g rh ats h o others h2 o2 e :
  W (mkS h o others) -> substructure_g rh ats h o = Ok (h2, o2, e) ->
  hext h h2 /\ (e = None -> W (mkS h2 o (o2 :: others))).
Proof.
  intros Ws E. pose proof (W_cur _ Ws) as Uc. cbn [s_heap s_cur] in Uc.
  destruct (sub_spec_g _ _ _ _ _ _ _ (proj1 (proj1 Uc)) E) as [h1 [sub0 [X [I0 [C0 [B0 [_ [Fr R]]]]]]]].
  pose proof (sub_finish_good rh h1 sub0 I0) as G. pose proof (sub_finish_kc rh h1 sub0 (K2_nil _ _ C0)) as K. rewrite R in G, K.
  destruct G as [I2 [HL [Un [Rf Bk]]]].
  assert (hext h h2) as X2.
  { destruct X as [L E1]. split; [destruct HL; lia|]. intros r Hr. rewrite Un; [apply E1; exact Hr | lia |].
    intros Hi. apply Fr in Hi. lia. }
  split; [exact X2|]. intros ->.
  assert (forall r, In r (arefs (o_adj o2)) -> h_next h <= r) as Fr2.
  { intros r Hr. apply Rf in Hr. destruct Hr as [Hr|Hr]; [now apply Fr | destruct X; lia]. }
  apply (W_add h h2 o others o2 Ws X2); [| congruence | exact Fr2].
  split; [exact I2|]. split; [now apply Coh_CohFC | intros _; exact K].
Qed.

Lemma W_step_sub ats s : W s ->
  W (match substructure ats (s_heap s) (s_cur s) with
     | Err e => s
     | Ok (h, o, None) => mkS h (s_cur s) (o :: s_others s)
     | Ok (h, _, Some e) => mkS h (s_cur s) (s_others s)
     end).
Proof.
  intros Ws. pose proof (W_cur s Ws) as Uc. destruct s as [h o others]. cbn [s_heap s_cur s_others] in *.
  destruct (substructure ats h o) as [[[h2 o2] e]|err] eqn:E; [|exact Ws].
  destruct (sub_spec _ _ _ _ _ _ (proj1 (proj1 Uc)) E) as [h1 [sub0 [X [I0 [C0 [B0 [_ [Fr R]]]]]]]].
  pose proof (fix_both_good h1 sub0 I0) as G. pose proof (kc_fix_both h1 sub0 (K2_nil _ _ C0)) as K. rewrite R in G, K.
  destruct G as [I2 [HL [Un [Rf Bk]]]].
  assert (hext h h2) as X2.
  { destruct X as [L E1]. split; [destruct HL; lia|]. intros r Hr. rewrite Un; [apply E1; exact Hr | lia |].
    intros Hi. apply Fr in Hi. lia. }
  assert (forall r, In r (arefs (o_adj o2)) -> h_next h <= r) as Fr2.
  { intros r Hr. apply Rf in Hr. destruct Hr as [Hr|Hr]; [now apply Fr | destruct X; lia]. }
  destruct e as [e|]; [now apply (W_heap_ext h h2)|].
  apply (W_add h h2 o others o2 Ws X2); [| congruence | exact Fr2].
  split; [exact I2|]. split; [now apply Coh_CohFC | intros _; exact K].
Qed.

