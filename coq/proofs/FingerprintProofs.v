(* C17: theorems about the fingerprint model (Model.Fingerprint). *)
From Coq Require Import ZArith List Bool Lia Permutation.
From Model Require Import PyBase Graph PyHash Fingerprint.
Import ListNotations.
Open Scope Z_scope.

(* ==================================================================================================== *)
(* A. lists, tuple comparison, canonical orientation *)

Lemma path_eqb_eq a b : path_eqb a b = true <-> a = b.
Proof.
  unfold path_eqb. revert b. induction a as [|x a IH]; intros [|y b]; cbn; split; intro H;
    try discriminate; try reflexivity.
  - apply andb_prop in H. destruct H as [H1 H2]. apply Z.eqb_eq in H1. apply IH in H2. congruence.
  - inversion H; subst. rewrite Z.eqb_refl. cbn. apply IH. reflexivity.
Qed.

Lemma pmem_In p l : pmem p l = true <-> In p l.
Proof.
  induction l as [|q r IH]; cbn.
  - split; [discriminate | tauto].
  - rewrite orb_true_iff, IH, path_eqb_eq. split; intros [H|H]; auto.
Qed.

Lemma dedup_acc_In seen l x : In x (dedup_paths_acc seen l) <-> In x l /\ ~ In x seen.
Proof.
  revert seen. induction l as [|p r IH]; intros seen; cbn.
  - tauto.
  - destruct (pmem p seen) eqn:E.
    + rewrite IH. apply pmem_In in E. split.
      * intros [H1 H2]. tauto.
      * intros [[H|H] H2]; [subst; contradiction | tauto].
    + assert (Hn : ~ In p seen) by (intro H; apply pmem_In in H; congruence).
      cbn. rewrite IH. cbn. split.
      * intros [H1|[H1 H2]]; [subst; tauto | tauto].
      * intros [[H1|H1] H2]; [left; exact H1|].
        destruct (path_eqb p x) eqn:Epx; [left; apply path_eqb_eq; exact Epx|].
        right. split; [exact H1|]. intros [Hx|Hx]; [|contradiction].
        apply path_eqb_eq in Hx. congruence.
Qed.

Lemma dedup_acc_NoDup seen l : NoDup (dedup_paths_acc seen l).
Proof.
  revert seen. induction l as [|p r IH]; intros seen; cbn.
  - constructor.
  - destruct (pmem p seen); [apply IH|]. constructor; [|apply IH].
    rewrite dedup_acc_In. intros [_ H]. apply H. left. reflexivity.
Qed.

Lemma dedup_paths_In l x : In x (dedup_paths l) <-> In x l.
Proof. unfold dedup_paths. rewrite dedup_acc_In. cbn. tauto. Qed.
Lemma dedup_paths_NoDup l : NoDup (dedup_paths l).
Proof. apply dedup_acc_NoDup. Qed.

Lemma tuple_gtb_irrefl a : tuple_gtb a a = false.
Proof. induction a as [|x a IH]; cbn; [reflexivity|]. rewrite Z.eqb_refl. exact IH. Qed.

Lemma tuple_gtb_asym a b : tuple_gtb a b = true -> tuple_gtb b a = false.
Proof.
  revert b. induction a as [|x a IH]; intros [|y b] H; cbn in *; try discriminate; try reflexivity.
  destruct (x =? y) eqn:E.
  - apply Z.eqb_eq in E. subst. rewrite Z.eqb_refl. apply IH. exact H.
  - rewrite Z.eqb_sym, E. apply Z.ltb_lt in H. apply Z.ltb_ge. lia.
Qed.

Lemma tuple_gtb_total a b : tuple_gtb a b = false -> tuple_gtb b a = false -> a = b.
Proof.
  revert b. induction a as [|x a IH]; intros [|y b] H1 H2; cbn in *; try discriminate; try reflexivity.
  destruct (x =? y) eqn:E.
  - apply Z.eqb_eq in E. subst. rewrite Z.eqb_refl in H2. f_equal. apply IH; assumption.
  - rewrite Z.eqb_sym, E in H2. apply Z.ltb_ge in H1, H2. apply Z.eqb_neq in E. lia.
Qed.

Lemma tuple_gtb_hd_neq x r y s : x <> y -> tuple_gtb (x :: r) (y :: s) = (y <? x).
Proof. intro H. cbn. apply Z.eqb_neq in H. rewrite H. reflexivity. Qed.

(* max(v, reversed v) does not depend on the direction *)
Lemma max_rev_sym (v : list Z) :
  (if tuple_gtb (rev v) v then rev v else v) = (if tuple_gtb v (rev v) then v else rev v).
Proof.
  destruct (tuple_gtb (rev v) v) eqn:E1, (tuple_gtb v (rev v)) eqn:E2; try reflexivity.
  - apply tuple_gtb_asym in E1. congruence.
  - apply tuple_gtb_total; assumption.
Qed.

Lemma canon_rev p : canon (rev p) = canon p.
Proof. unfold canon. rewrite rev_involutive. apply max_rev_sym. Qed.

Lemma canon_cases p : canon p = p \/ canon p = rev p.
Proof. unfold canon. destruct (tuple_gtb p (rev p)); auto. Qed.

Lemma canon_length p : length (canon p) = length p.
Proof. destruct (canon_cases p) as [H|H]; rewrite H; [reflexivity | apply rev_length]. Qed.

Lemma hd_rev (p : list Z) : hd 0 (rev p) = last p 0.
Proof.
  induction p as [|x l IH] using rev_ind; [reflexivity|].
  rewrite rev_unit, last_last. reflexivity.
Qed.
Lemma last_rev (p : list Z) : last (rev p) 0 = hd 0 p.
Proof. rewrite <- (rev_involutive p) at 2. rewrite hd_rev. reflexivity. Qed.

Lemma last_In (l : list Z) d : l <> [] -> In (last l d) l.
Proof.
  induction l as [|a l IH]; intro H; [congruence|].
  destruct l as [|b l']; [left; reflexivity|]. right. apply IH. discriminate.
Qed.

Lemma NoDup_hd_last (p : list Z) : NoDup p -> (2 <= length p)%nat -> hd 0 p <> last p 0.
Proof.
  intros Hn Hl. destruct p as [|x [|y r]]; cbn in Hl; try lia.
  inversion Hn as [|? ? Hx _]; subst. cbn [hd]. intro E. apply Hx.
  change (last (x :: y :: r) 0) with (last (y :: r) 0) in E. rewrite E. apply last_In. discriminate.
Qed.

Lemma canon_ends p : hd 0 p <> last p 0 -> canon p = if last p 0 <? hd 0 p then p else rev p.
Proof.
  intro H. unfold canon. destruct p as [|x r]; [cbn in H; congruence|].
  pose proof (hd_rev (x :: r)) as Hh. destruct (rev (x :: r)) as [|y s] eqn:E.
  - apply (f_equal (@length Z)) in E. rewrite rev_length in E. discriminate.
  - cbn [hd] in Hh, H. rewrite tuple_gtb_hd_neq by congruence. rewrite Hh. reflexivity.
Qed.

Lemma canon_single x : canon [x] = [x].
Proof. unfold canon. cbn. rewrite Z.eqb_refl. reflexivity. Qed.

Lemma length1 {A} (p : list A) : length p = 1%nat -> exists x, p = [x].
Proof. destruct p as [|x [|y r]]; cbn; intro H; try lia. exists x. reflexivity. Qed.

Lemma canonical_dir_canon p : NoDup p -> p <> [] -> canonical_dir (canon p).
Proof.
  intros Hn Hp. unfold canonical_dir. rewrite canon_length.
  destruct (Nat.eq_dec (length p) 1) as [E|E]; [left; exact E|]. right.
  assert (Hl : (2 <= length p)%nat) by (destruct p; [congruence | cbn in *; lia]).
  pose proof (NoDup_hd_last p Hn Hl) as Hne. rewrite canon_ends by exact Hne.
  destruct (last p 0 <? hd 0 p) eqn:Elt.
  - apply Z.ltb_lt in Elt. lia.
  - apply Z.ltb_ge in Elt. rewrite hd_rev, last_rev. lia.
Qed.

Lemma canon_fix p : NoDup p -> canonical_dir p -> canon p = p.
Proof.
  intros Hn [H|H].
  - destruct (length1 p H) as [x ->]. apply canon_single.
  - destruct (Nat.eq_dec (length p) 1) as [E|E]; [destruct (length1 p E) as [x ->]; apply canon_single|].
    assert (Hl : (2 <= length p)%nat).
    { destruct p as [|a [|b r]]; cbn in *; try lia. }
    rewrite canon_ends by (apply NoDup_hd_last; assumption).
    assert (E2 : last p 0 <? hd 0 p = true) by (apply Z.ltb_lt; lia). rewrite E2. reflexivity.
Qed.

(* a chain of two or more distinct atoms and its reverse are never both in canonical direction *)
Lemma canonical_dir_rev_excl p : NoDup p -> (2 <= length p)%nat -> canonical_dir p -> ~ canonical_dir (rev p).
Proof.
  intros Hn Hl [H|H]; [lia|]. intros [H2|H2].
  - rewrite rev_length in H2. lia.
  - rewrite hd_rev, last_rev in H2. lia.
Qed.

(* ==================================================================================================== *)
(* B. well-formed molecules: the adjacency is symmetric and closed *)

Lemma zget_In {V} (d : list (Z * V)) k v : zget d k = Some v -> In (k, v) d.
Proof.
  induction d as [|[k' v'] r IH]; cbn; [discriminate|].
  destruct (k =? k') eqn:E.
  - intro H. inversion H; subst. apply Z.eqb_eq in E. subst. left. reflexivity.
  - intro H. right. apply IH. exact H.
Qed.

Lemma zget_keys {V} (d : list (Z * V)) k v : zget d k = Some v -> In k (keys d).
Proof. intro H. apply zget_In in H. unfold keys. apply (in_map fst) in H. exact H. Qed.

Lemma keys_zget {V} (d : list (Z * V)) k : In k (keys d) -> exists v, zget d k = Some v.
Proof.
  induction d as [|[k' v'] r IH]; cbn; [tauto|]. intros [H|H].
  - subst. rewrite Z.eqb_refl. eauto.
  - destruct (k =? k'); eauto.
Qed.

Lemma nodup_z_NoDup l : nodup_z l = true -> NoDup l.
Proof.
  induction l as [|x r IH]; cbn; intro H; [constructor|].
  apply andb_prop in H. destruct H as [H1 H2]. constructor; [|apply IH; exact H2].
  intro Hin. apply zmem_In in Hin. rewrite Hin in H1. discriminate.
Qed.

Definition sym_closed (g : mol) : Prop :=
  NoDup (ids g) /\ (forall x y, edge g x y -> edge g y x) /\ (forall x y, edge g x y -> In y (ids g)).

Lemma wf_mol_sym_closed g : wf_mol g = true -> sym_closed g.
Proof.
  unfold wf_mol. intro H. apply andb_prop in H. destruct H as [H H3]. apply andb_prop in H. destruct H as [_ H2].
  rewrite forallb_forall in H3. split; [apply nodup_z_NoDup; exact H2|].
  assert (K : forall x y, edge g x y -> In y (ids g) /\ edge g y x).
  { unfold edge, nbr_ids, nbrs. intros x y Hxy.
    destruct (zget (m_adj g) x) as [l|] eqn:El; [|cbn in Hxy; tauto].
    pose proof (H3 _ (zget_In _ _ _ El)) as Hl. cbn [fst snd] in Hl.
    apply andb_prop in Hl. destruct Hl as [_ Hl]. rewrite forallb_forall in Hl.
    destruct (keys_zget l y Hxy) as [b Hb]. specialize (Hl _ (zget_In _ _ _ Hb)). cbn [fst snd] in Hl.
    apply andb_prop in Hl. destruct Hl as [Hl Hl3]. apply andb_prop in Hl. destruct Hl as [_ Hl2].
    split; [apply zmem_In; exact Hl2|].
    unfold bond_of, nbrs in Hl3. destruct (zget (m_adj g) y) as [l'|] eqn:El'.
    - destruct (zget l' x) as [b'|] eqn:Eb'; [|discriminate]. apply zget_keys in Eb'. exact Eb'.
    - cbn in Hl3. discriminate. }
  split; intros x y Hxy; apply (K x y Hxy).
Qed.

(* ==================================================================================================== *)
(* C. simple paths *)

Lemma linked_snoc g p x : linked g (p ++ [x]) <-> linked g p /\ (p = [] \/ edge g (last p 0) x).
Proof.
  induction p as [|a p IH].
  - cbn. tauto.
  - destruct p as [|b p'].
    + cbn. split; [intros [H _]; split; [exact I | right; exact H] | intros [_ [H|H]]; [discriminate | tauto]].
    + change (linked g ((a :: b :: p') ++ [x])) with (edge g a b /\ linked g ((b :: p') ++ [x])).
      change (linked g (a :: b :: p')) with (edge g a b /\ linked g (b :: p')).
      change (last (a :: b :: p') 0) with (last (b :: p') 0).
      rewrite IH. split.
      * intros [H1 [H2 [H3|H3]]]; [discriminate|]. tauto.
      * intros [[H1 H2] [H3|H3]]; [discriminate|]. tauto.
Qed.

Lemma linked_rev g p : (forall x y, edge g x y -> edge g y x) -> linked g p -> linked g (rev p).
Proof.
  intro Hs. induction p as [|a p IH]; intro H; [exact I|].
  cbn [rev]. apply linked_snoc. destruct p as [|b p'].
  - split; [exact I | left; reflexivity].
  - destruct H as [H1 H2]. split; [apply IH; exact H2|]. right.
    rewrite last_rev. cbn [hd]. apply Hs. exact H1.
Qed.

Lemma simple_path_rev g p : (forall x y, edge g x y -> edge g y x) -> simple_path g p -> simple_path g (rev p).
Proof.
  intros Hs (H1 & H2 & H3 & H4). repeat split.
  - intro E. apply H1. apply (f_equal (@rev Z)) in E. rewrite rev_involutive in E. exact E.
  - intros x Hx. apply H2. apply in_rev. exact Hx.
  - apply linked_rev; assumption.
  - apply NoDup_rev. exact H4.
Qed.

Lemma NoDup_snoc (p : list Z) x : NoDup (p ++ [x]) <-> NoDup p /\ ~ In x p.
Proof.
  split.
  - intro H. apply (Permutation_NoDup (Permutation_app_comm p [x])) in H. cbn in H.
    inversion H; subst. tauto.
  - intros [H1 H2]. apply (Permutation_NoDup (Permutation_app_comm [x] p)). cbn. constructor; assumption.
Qed.

Lemma simple_path_snoc g now x : now <> [] ->
  (simple_path g (now ++ [x]) <-> simple_path g now /\ edge g (last now 0) x /\ ~ In x now /\ In x (ids g)).
Proof.
  intro Hne. unfold simple_path. rewrite linked_snoc, NoDup_snoc. split.
  - intros (_ & H2 & (H3 & H3') & H4 & H5). destruct H3' as [H3'|H3']; [contradiction|].
    repeat split; auto.
    + intros y Hy. apply H2. apply in_or_app. left. exact Hy.
    + apply H2. apply in_or_app. right. left. reflexivity.
  - intros ((_ & H2 & H3 & H4) & H5 & H6 & H7). repeat split; auto.
    + intro E. apply app_eq_nil in E. destruct E. contradiction.
    + intros y Hy. apply in_app_or in Hy. destruct Hy as [Hy|[Hy|[]]]; [auto | subst; exact H7].
Qed.

Lemma simple_path_single g x : simple_path g [x] <-> In x (ids g).
Proof.
  unfold simple_path. split.
  - intros (_ & H & _). apply H. left. reflexivity.
  - intro H. repeat split; try discriminate.
    + intros y [Hy|[]]. subst. exact H.
    + constructor; [intros [] | constructor].
Qed.

Lemma simple_path_length g p : simple_path g p -> (length p <= length (ids g))%nat.
Proof. intros (_ & H2 & _ & H4). apply NoDup_incl_length; [exact H4 | exact H2]. Qed.

Lemma extend_In g now p' :
  In p' (extend g now) <-> exists x, p' = now ++ [x] /\ edge g (last now 0) x /\ ~ In x now.
Proof.
  unfold extend, edge. rewrite in_map_iff. split.
  - intros [x [E Hx]]. apply filter_In in Hx. destruct Hx as [Hx1 Hx2]. exists x. repeat split; auto.
    intro Hin. apply zmem_In in Hin. rewrite Hin in Hx2. discriminate.
  - intros [x (E & Hx1 & Hx2)]. exists x. split; [auto|]. apply filter_In. split; [exact Hx1|].
    destruct (zmem x now) eqn:Em; [apply zmem_In in Em; contradiction | reflexivity].
Qed.

Lemma extend_length g now p' : In p' (extend g now) -> length p' = S (length now).
Proof. intro H. apply extend_In in H. destruct H as [x [-> _]]. rewrite app_length. cbn. lia. Qed.

(* one generation of the queue: exactly the simple paths of k atoms, if alive *)
Definition gen_ok (g : mol) (k : nat) (A : Prop) (q : list path) : Prop :=
  forall now, In now q <-> simple_path g now /\ length now = k /\ A.

Lemma gen_extend g k A q : sym_closed g -> (1 <= k)%nat -> gen_ok g k A q ->
  forall d, (exists now, In now q /\ In d (extend g now)) <-> simple_path g d /\ length d = S k /\ A.
Proof.
  intros (_ & _ & Hc) Hk Hq d. split.
  - intros [now [Hnow Hd]]. apply Hq in Hnow. destruct Hnow as (Hs & Hl & HA).
    pose proof (extend_length _ _ _ Hd) as Hl'. apply extend_In in Hd. destruct Hd as [x (-> & Hx1 & Hx2)].
    assert (Hne : now <> []) by (destruct now; [cbn in Hl; lia | discriminate]).
    split; [|split; [lia | exact HA]]. apply simple_path_snoc; [exact Hne|].
    split; [exact Hs|]. split; [exact Hx1|]. split; [exact Hx2|]. exact (Hc _ _ Hx1).
  - intros (Hs & Hl & HA). assert (Hne : d <> []) by (destruct d; [cbn in Hl; lia | discriminate]).
    pose proof (app_removelast_last 0 Hne) as E. set (now := removelast d) in *. set (x := last d 0) in *.
    assert (Hln : length now = k).
    { apply (f_equal (@length Z)) in E. rewrite app_length in E. cbn in E. lia. }
    assert (Hne' : now <> []) by (destruct now; [cbn in Hln; lia | discriminate]).
    rewrite E in Hs. apply simple_path_snoc in Hs; [|exact Hne']. destruct Hs as (Hs & He & Hni & _).
    exists now. split; [apply Hq; auto|]. apply extend_In. exists x. auto.
Qed.

Lemma gen_push g hi k A q : sym_closed g -> (1 <= k)%nat -> gen_ok g k A q ->
  gen_ok g (S k) (A /\ Z.of_nat k + 1 < hi) (flat_map (pushes g hi) q).
Proof.
  intros Hg Hk Hq d. rewrite in_flat_map. pose proof (gen_extend g k A q Hg Hk Hq d) as Hx.
  unfold pushes, len_z. split.
  - intros [now [Hnow Hd]]. pose proof (proj1 (Hq now) Hnow) as (_ & Hl & HA).
    destruct (Z.of_nat (length now) + 1 <? hi) eqn:E; [|destruct Hd]. apply Z.ltb_lt in E.
    destruct (proj1 Hx (ex_intro _ now (conj Hnow Hd))) as (H1 & H2 & H3).
    split; [exact H1|]. split; [exact H2|]. split; [exact H3|]. lia.
  - intros (H1 & H2 & H3 & H4). destruct (proj2 Hx (conj H1 (conj H2 H3))) as [now [Hnow Hd]].
    exists now. split; [exact Hnow|].
    pose proof (proj1 (Hq now) Hnow) as (_ & Hl & HA).
    assert (E : Z.of_nat (length now) + 1 <? hi = true) by (apply Z.ltb_lt; lia). rewrite E. exact Hd.
Qed.

Lemma bfs_rounds_spec g lo hi : sym_closed g -> forall n q k A, (1 <= k)%nat -> gen_ok g k A q ->
  forall p, In p (bfs_rounds g lo hi n q) <->
    exists d, simple_path g d /\ p = canon d /\ A /\ (k < length d <= k + n)%nat /\ lo <= len_z d /\
              (length d = S k \/ len_z d <= hi).
Proof.
  intros Hg. induction n as [|n IH]; intros q k A Hk Hq p.
  - cbn. split; [tauto|]. intros [d (_ & _ & _ & H & _)]. lia.
  - cbn [bfs_rounds]. rewrite in_app_iff, in_flat_map.
    assert (Hk' : (1 <= S k)%nat) by lia.
    rewrite (IH _ (S k) _ Hk' (gen_push g hi k A q Hg Hk Hq)).
    pose proof (gen_extend g k A q Hg Hk Hq) as Hx.
    split.
    + intros [[now [Hnow Hp]] | [d (H1 & H2 & (H3 & H3') & H4 & H5 & H6)]].
      * unfold emits in Hp. destruct (lo <=? len_z now + 1) eqn:E; [|destruct Hp]. apply Z.leb_le in E.
        apply in_map_iff in Hp. destruct Hp as [d [Hd1 Hd2]].
        destruct (proj1 (Hx d) (ex_intro _ now (conj Hnow Hd2))) as (S1 & S2 & S3).
        pose proof (proj1 (Hq now) Hnow) as (_ & Hl & _).
        exists d. unfold len_z in *.
        refine (conj S1 (conj (eq_sym Hd1) (conj S3 (conj _ (conj _ _))))); [lia | lia | left; exact S2].
      * exists d. unfold len_z in *.
        refine (conj H1 (conj H2 (conj H3 (conj _ (conj H5 _))))); [lia | right; lia].
    + intros [d (H1 & H2 & H3 & H4 & H5 & H6)].
      destruct (Nat.eq_dec (length d) (S k)) as [E|E].
      * left. destruct (proj2 (Hx d) (conj H1 (conj E H3))) as [now [Hnow Hd]]. exists now. split; [exact Hnow|].
        pose proof (proj1 (Hq now) Hnow) as (_ & Hl & _).
        unfold emits. assert (E2 : lo <=? len_z now + 1 = true) by (apply Z.leb_le; unfold len_z in *; lia).
        rewrite E2. apply in_map_iff. exists d. split; [symmetry; exact H2 | exact Hd].
      * right. exists d. unfold len_z in *.
        refine (conj H1 (conj H2 (conj (conj H3 _) (conj _ (conj H5 _))))); [lia | lia | right; lia].
Qed.

Lemma singles_gen g : gen_ok g 1 True (singles g).
Proof.
  intro now. unfold singles. rewrite in_map_iff. split.
  - intros [x [<- Hx]]. split; [apply simple_path_single; exact Hx | split; [reflexivity | exact I]].
  - intros (Hs & Hl & _). destruct (length1 now Hl) as [x ->]. exists x. split; [reflexivity|].
    apply simple_path_single. exact Hs.
Qed.

Lemma singles_spec g p : In p (singles g) <-> exists d, simple_path g d /\ p = canon d /\ length d = 1%nat.
Proof.
  rewrite (singles_gen g p). split.
  - intros (H1 & H2 & _). exists p. destruct (length1 p H2) as [x ->]. rewrite canon_single. auto.
  - intros [d (H1 & H2 & H3)]. destruct (length1 d H3) as [x ->]. rewrite canon_single in H2. subst. auto.
Qed.

(* what the sequence of arr.add(...) calls contains, for any lo, hi *)
Lemma chains_seq_spec g lo hi : sym_closed g -> forall p,
  In p (chains_seq g lo hi) <-> exists d, simple_path g d /\ p = canon d /\ yields lo hi (len_z d).
Proof.
  intros Hg p. unfold chains_seq.
  pose proof (bfs_rounds_spec g lo hi Hg (length (ids g)) (singles g) 1 True (le_n 1) (singles_gen g) p) as Hb.
  pose proof (singles_spec g p) as Hs. unfold yields, len_z in *.
  destruct (lo =? 1) eqn:Elo; [apply Z.eqb_eq in Elo | apply Z.eqb_neq in Elo].
  - destruct (hi =? 1) eqn:Ehi; [apply Z.eqb_eq in Ehi | apply Z.eqb_neq in Ehi].
    + rewrite Hs. split.
      * intros [d (H1 & H2 & H3)]. exists d. split; [exact H1|]. split; [exact H2|]. left. lia.
      * intros [d (H1 & H2 & [H3|H3])]; [|lia]. exists d. split; [exact H1|]. split; [exact H2|]. lia.
    + rewrite in_app_iff, Hs, Hb. split.
      * intros [[d (H1 & H2 & H3)] | [d (H1 & H2 & _ & H4 & H5 & H6)]]; exists d; (split; [exact H1|]); (split; [exact H2|]).
        -- left. lia.
        -- right. lia.
      * intros [d (H1 & H2 & [H3|H3])].
        -- left. exists d. split; [exact H1|]. split; [exact H2|]. lia.
        -- right. exists d. pose proof (simple_path_length g d H1).
           refine (conj H1 (conj H2 (conj I (conj _ (conj _ _))))); lia.
  - rewrite Hb. split.
    + intros [d (H1 & H2 & _ & H4 & H5 & H6)]. exists d. split; [exact H1|]. split; [exact H2|]. right. lia.
    + intros [d (H1 & H2 & [H3|H3])]; [lia|]. exists d. pose proof (simple_path_length g d H1).
      refine (conj H1 (conj H2 (conj I (conj _ (conj _ _))))); lia.
Qed.

(* ---- chains_exact ---- *)
Lemma chains_exact_sc g lo hi : sym_closed g ->
  forall p, In p (chains g lo hi) <-> simple_path g p /\ yields lo hi (len_z p) /\ canonical_dir p.
Proof.
  intros Hg p. unfold chains. rewrite dedup_paths_In, (chains_seq_spec g lo hi Hg). split.
  - intros [d (H1 & H2 & H3)]. destruct Hg as (_ & Hsym & _).
    assert (Hp : simple_path g p).
    { destruct (canon_cases d) as [E|E]; rewrite H2, E; [exact H1 | apply simple_path_rev; assumption]. }
    split; [exact Hp|]. split.
    + unfold len_z in *. rewrite H2, canon_length. exact H3.
    + rewrite H2. destruct H1 as (Hne & _ & _ & Hnd). apply canonical_dir_canon; assumption.
  - intros (H1 & H2 & H3). exists p. split; [exact H1|]. split; [|exact H2].
    symmetry. apply canon_fix; [|exact H3]. destruct H1 as (_ & _ & _ & Hnd). exact Hnd.
Qed.

Theorem chains_exact_any g lo hi : wf_mol g = true ->
  (forall p, In p (chains g lo hi) <-> simple_path g p /\ yields lo hi (len_z p) /\ canonical_dir p)
  /\ NoDup (chains g lo hi).
Proof.
  intro Hwf. split; [apply chains_exact_sc; apply wf_mol_sym_closed; exact Hwf | apply dedup_paths_NoDup].
Qed.

Lemma yields_range lo hi L : 1 <= lo <= hi -> 1 <= L -> (yields lo hi L <-> lo <= L <= hi).
Proof. unfold yields. lia. Qed.

Theorem chains_exact g lo hi p : wf_mol g = true -> 1 <= lo <= hi ->
  (In p (chains g lo hi) <-> simple_path g p /\ lo <= len_z p <= hi /\ canonical_dir p)
  /\ NoDup (chains g lo hi).
Proof.
  intros Hwf Hr. destruct (chains_exact_any g lo hi Hwf) as [H1 H2]. split; [|exact H2].
  rewrite H1. split; intros (Hs & Hy & Hc); (split; [exact Hs|]); (split; [|exact Hc]).
  - apply yields_range in Hy; [exact Hy | exact Hr|].
    destruct Hs as (Hne & _). unfold len_z. destruct p; [congruence | cbn; lia].
  - apply yields_range; [exact Hr | | exact Hy].
    destruct Hs as (Hne & _). unfold len_z. destruct p; [congruence | cbn; lia].
Qed.

(* soundness alone, in the form asked for: every emitted chain is a simple path of the requested size *)
Corollary chains_sound g lo hi p : wf_mol g = true -> 1 <= lo <= hi ->
  In p (chains g lo hi) -> simple_path g p /\ lo <= len_z p <= hi.
Proof. intros Hwf Hr H. apply (chains_exact g lo hi p Hwf Hr) in H. tauto. Qed.

(* only one orientation of every chain of two or more atoms is present *)
Theorem chains_one_orientation g lo hi p : wf_mol g = true ->
  In p (chains g lo hi) -> (2 <= length p)%nat -> ~ In (rev p) (chains g lo hi).
Proof.
  intros Hwf H Hl Hr. destruct (chains_exact_any g lo hi Hwf) as [Hx _].
  apply Hx in H. apply Hx in Hr. destruct H as ((_ & _ & _ & Hnd) & _ & Hc). destruct Hr as (_ & _ & Hc').
  exact (canonical_dir_rev_excl p Hnd Hl Hc Hc').
Qed.

(* the set of chains depends on the molecule only through its atom set and its adjacency relation: any
   insertion order of atoms and of neighbours gives the same set *)
Theorem chains_insertion_order_free g g' lo hi : wf_mol g = true -> wf_mol g' = true ->
  (forall x, In x (ids g) <-> In x (ids g')) -> (forall x y, edge g x y <-> edge g' x y) ->
  forall p, In p (chains g lo hi) <-> In p (chains g' lo hi).
Proof.
  intros Hwf Hwf' Hids Hedge p.
  rewrite (proj1 (chains_exact_any g lo hi Hwf) p), (proj1 (chains_exact_any g' lo hi Hwf') p).
  assert (Hl : forall q, linked g q <-> linked g' q).
  { induction q as [|a [|b r] IH]; cbn; try tauto. cbn in IH. rewrite IH, Hedge. tauto. }
  unfold simple_path. rewrite Hl. split; intros ((H1 & H2 & H3 & H4) & H5); (split; [|exact H5]);
    repeat split; auto; intros x Hx; apply Hids; apply H2; exact Hx.
Qed.

(* ==================================================================================================== *)
(* D. the deque loop of _chains computes the generation-wise enumeration *)

Lemma chains_loop_step f g lo hi now q arr :
  chains_loop (S f) g lo hi (now :: q) arr =
  chains_loop f g lo hi (q ++ pushes g hi now) (arr ++ emits g lo now).
Proof.
  cbn [chains_loop]. unfold pushes, emits. destruct (extend g now) as [|v0 vs] eqn:E.
  - destruct (len_z now + 1 <? hi), (lo <=? len_z now + 1); cbn [map]; rewrite !app_nil_r; reflexivity.
  - assert (Hl : len_z v0 = len_z now + 1).
    { unfold len_z. rewrite (extend_length g now v0) by (rewrite E; left; reflexivity). lia. }
    rewrite Hl. destruct (len_z now + 1 <? hi), (lo <=? len_z now + 1); rewrite ?app_nil_r; reflexivity.
Qed.

Lemma chains_loop_batch g lo hi q : forall r arr f,
  chains_loop (length q + f) g lo hi (q ++ r) arr =
  chains_loop f g lo hi (r ++ flat_map (pushes g hi) q) (arr ++ flat_map (emits g lo) q).
Proof.
  induction q as [|now q IH]; intros r arr f.
  - cbn. rewrite !app_nil_r. reflexivity.
  - cbn [length Nat.add app flat_map]. rewrite chains_loop_step, <- app_assoc, IH, <- !app_assoc. reflexivity.
Qed.

Fixpoint pushes_iter (g : mol) (hi : Z) (n : nat) (q : list path) : list path :=
  match n with O => q | S n' => pushes_iter g hi n' (flat_map (pushes g hi) q) end.

Lemma chains_loop_rounds g lo hi : forall n q arr, pushes_iter g hi n q = [] ->
  chains_loop (fuel_needed g hi n q) g lo hi q arr = Some (arr ++ bfs_rounds g lo hi n q).
Proof.
  induction n as [|n IH]; intros q arr Hq.
  - cbn in Hq. subst. cbn. rewrite app_nil_r. reflexivity.
  - cbn [fuel_needed bfs_rounds]. pose proof (chains_loop_batch g lo hi q [] arr (fuel_needed g hi n (flat_map (pushes g hi) q))) as Hb.
    rewrite app_nil_r in Hb. cbn [app] in Hb. rewrite Hb, IH by exact Hq. rewrite app_assoc. reflexivity.
Qed.

Lemma gen_iter g hi : sym_closed g -> forall n q k A, (1 <= k)%nat -> gen_ok g k A q ->
  exists A', gen_ok g (k + n) A' (pushes_iter g hi n q).
Proof.
  intro Hg. induction n as [|n IH]; intros q k A Hk Hq.
  - exists A. rewrite Nat.add_0_r. exact Hq.
  - cbn [pushes_iter]. assert (Hk' : (1 <= S k)%nat) by lia.
    destruct (IH _ (S k) _ Hk' (gen_push g hi k A q Hg Hk Hq)) as [A' HA']. exists A'.
    replace (k + S n)%nat with (S k + n)%nat by lia. exact HA'.
Qed.

Lemma queue_exhausted g hi : sym_closed g -> pushes_iter g hi (length (ids g)) (singles g) = [].
Proof.
  intro Hg. destruct (gen_iter g hi Hg (length (ids g)) (singles g) 1 True (le_n 1) (singles_gen g)) as [A' HA'].
  destruct (pushes_iter g hi (length (ids g)) (singles g)) as [|p r]; [reflexivity|].
  destruct (proj1 (HA' p) (or_introl eq_refl)) as (Hs & Hl & _).
  apply simple_path_length in Hs. lia.
Qed.

(* with the computed fuel the loop model terminates and yields exactly the sequence the theorems are about *)
Theorem chains_loop_refines g lo hi : wf_mol g = true ->
  chains_seq_loop (chains_fuel g hi) g lo hi = Some (chains_seq g lo hi).
Proof.
  intro Hwf. pose proof (queue_exhausted g hi (wf_mol_sym_closed g Hwf)) as Hq.
  unfold chains_seq_loop, chains_seq, chains_fuel.
  destruct (lo =? 1); [destruct (hi =? 1); [reflexivity|]|].
  - apply chains_loop_rounds. exact Hq.
  - rewrite chains_loop_rounds by exact Hq. reflexivity.
Qed.

Lemma chains_loop_fuel_mono g lo hi : forall f q arr r, chains_loop f g lo hi q arr = Some r ->
  forall f', (f <= f')%nat -> chains_loop f' g lo hi q arr = Some r.
Proof.
  induction f as [|f IH]; intros q arr r H f' Hle; [discriminate|].
  destruct f' as [|f']; [lia|]. destruct q as [|now q].
  - cbn in *. exact H.
  - rewrite chains_loop_step in *. apply (IH _ _ _ H). lia.
Qed.

(* whatever fuel lets the loop finish, the result is the same *)
Theorem chains_loop_any_fuel g lo hi fuel r : wf_mol g = true ->
  chains_seq_loop fuel g lo hi = Some r -> r = chains_seq g lo hi.
Proof.
  intros Hwf H. pose proof (chains_loop_refines g lo hi Hwf) as H0.
  unfold chains_seq_loop in *. set (F := chains_fuel g hi) in *.
  destruct (lo =? 1); [destruct (hi =? 1); [congruence|]|].
  - pose proof (chains_loop_fuel_mono _ _ _ _ _ _ _ H (Nat.max fuel F) (Nat.le_max_l _ _)) as H1.
    pose proof (chains_loop_fuel_mono _ _ _ _ _ _ _ H0 (Nat.max fuel F) (Nat.le_max_r _ _)) as H2. congruence.
  - pose proof (chains_loop_fuel_mono _ _ _ _ _ _ _ H (Nat.max fuel F) (Nat.le_max_l _ _)) as H1.
    pose proof (chains_loop_fuel_mono _ _ _ _ _ _ _ H0 (Nat.max fuel F) (Nat.le_max_r _ _)) as H2. congruence.
Qed.

(* ==================================================================================================== *)
(* E. _fragments: the dictionary groups the chains by direction-independent key *)

Fixpoint fget (d : list (list Z * list path)) (k : list Z) : list path :=
  match d with
  | [] => []
  | (k', vs) :: r => if path_eqb k k' then vs else fget r k
  end.

Lemma path_eqb_refl k : path_eqb k k = true.
Proof. apply path_eqb_eq. reflexivity. Qed.
Lemma path_eqb_sym a b : path_eqb a b = path_eqb b a.
Proof.
  destruct (path_eqb a b) eqn:E1, (path_eqb b a) eqn:E2; try reflexivity.
  - apply path_eqb_eq in E1. subst. rewrite path_eqb_refl in E2. discriminate.
  - apply path_eqb_eq in E2. subst. rewrite path_eqb_refl in E1. discriminate.
Qed.

Lemma fget_append d k v k' :
  fget (dict_append d k v) k' = if path_eqb k' k then fget d k' ++ [v] else fget d k'.
Proof.
  induction d as [|[k0 vs] r IH]; cbn [dict_append fget].
  - destruct (path_eqb k' k); reflexivity.
  - change (list_eqb Z.eqb k k0) with (path_eqb k k0). destruct (path_eqb k k0) eqn:E.
    + apply path_eqb_eq in E. subst k0. cbn [fget]. destruct (path_eqb k' k); reflexivity.
    + cbn [fget]. rewrite IH. destruct (path_eqb k' k0) eqn:E0; [|reflexivity].
      destruct (path_eqb k' k) eqn:E1; [|reflexivity].
      apply path_eqb_eq in E0, E1. subst. rewrite path_eqb_refl in E. discriminate.
Qed.

Lemma dict_append_keys_In d k v k' :
  In k' (map fst (dict_append d k v)) <-> In k' (map fst d) \/ k' = k.
Proof.
  induction d as [|[k0 vs] r IH]; cbn [dict_append map fst In].
  - intuition congruence.
  - change (list_eqb Z.eqb k k0) with (path_eqb k k0). destruct (path_eqb k k0) eqn:E.
    + apply path_eqb_eq in E. subst k0. cbn [map fst In]. intuition congruence.
    + cbn [map fst In]. rewrite IH. tauto.
Qed.

Lemma dict_append_keys_NoDup d k v : NoDup (map fst d) -> NoDup (map fst (dict_append d k v)).
Proof.
  induction d as [|[k0 vs] r IH]; cbn [dict_append map fst]; intro H.
  - constructor; [intros [] | constructor].
  - change (list_eqb Z.eqb k k0) with (path_eqb k k0). destruct (path_eqb k k0) eqn:E.
    + exact H.
    + cbn [map fst]. inversion H as [|? ? H1 H2]; subst. constructor; [|apply IH; exact H2].
      rewrite dict_append_keys_In. intros [Hin|Hin]; [contradiction|]. subst.
      rewrite path_eqb_refl in E. discriminate.
Qed.

Lemma fget_entry d k vs : NoDup (map fst d) -> In (k, vs) d -> fget d k = vs.
Proof.
  induction d as [|[k0 vs0] r IH]; cbn [map fst fget]; intros Hn Hin; [destruct Hin|].
  inversion Hn as [|? ? H1 H2]; subst. destruct Hin as [Hin|Hin].
  - inversion Hin; subst. rewrite path_eqb_refl. reflexivity.
  - destruct (path_eqb k k0) eqn:E.
    + apply path_eqb_eq in E. subst. exfalso. apply H1. apply (in_map fst) in Hin. exact Hin.
    + apply IH; assumption.
Qed.

Lemma fget_nonempty_In d k : fget d k <> [] -> In (k, fget d k) d.
Proof.
  induction d as [|[k0 vs0] r IH]; cbn [fget]; intro H; [congruence|].
  destruct (path_eqb k k0) eqn:E.
  - apply path_eqb_eq in E. subst. left. reflexivity.
  - right. apply IH. exact H.
Qed.

Lemma dict_append_nonempty d k v : (forall k0 v0, In (k0, v0) d -> v0 <> []) ->
  forall k0 v0, In (k0, v0) (dict_append d k v) -> v0 <> [].
Proof.
  induction d as [|[k1 v1] r IH]; cbn [dict_append]; intros Hd k0 v0.
  - intros [H|[]]. inversion H; subst. discriminate.
  - destruct (list_eqb Z.eqb k k1).
    + intros [H|H].
      * inversion H; subst. intro E. apply app_eq_nil in E. destruct E. discriminate.
      * apply (Hd k0 v0). right. exact H.
    + intros [H|H]; [apply (Hd k0 v0); left; exact H|].
      exact (IH (fun k2 v2 H2 => Hd k2 v2 (or_intror H2)) k0 v0 H).
Qed.

Section FragmentFacts.
  Variable idf : Z -> Z.
  Variable ord : Z -> Z -> Z.
  Let step := fun d frag => dict_append d (fst (frag_entry idf ord frag)) (snd (frag_entry idf ord frag)).

  Lemma fold_fget chs : forall d k,
    fget (fold_left step chs d) k =
    fget d k ++ map (fun f => snd (frag_entry idf ord f)) (filter (fun f => path_eqb k (frag_key idf ord f)) chs).
  Proof.
    induction chs as [|f chs IH]; intros d k; cbn [fold_left filter map].
    - rewrite app_nil_r. reflexivity.
    - rewrite IH. unfold step. rewrite fget_append. unfold frag_key.
      destruct (path_eqb k (fst (frag_entry idf ord f))); cbn [map]; rewrite <- ?app_assoc; reflexivity.
  Qed.

  (* the list stored under key k: the chains whose key is k, in iteration order, each oriented to match the key *)
  Lemma fragments_of_get chs k :
    fget (fragments_of idf ord chs) k =
    map (fun f => snd (frag_entry idf ord f)) (filter (fun f => path_eqb k (frag_key idf ord f)) chs).
  Proof. unfold fragments_of. fold step. rewrite fold_fget. reflexivity. Qed.

  Lemma fold_keys_NoDup chs : forall d, NoDup (map fst d) -> NoDup (map fst (fold_left step chs d)).
  Proof.
    induction chs as [|f chs IH]; intros d H; cbn [fold_left]; [exact H|].
    apply IH. unfold step. apply dict_append_keys_NoDup. exact H.
  Qed.
  Lemma fragments_of_keys_NoDup chs : NoDup (map fst (fragments_of idf ord chs)).
  Proof. unfold fragments_of. fold step. apply fold_keys_NoDup. constructor. Qed.

  Lemma fold_nonempty chs : forall d, (forall k0 v0, In (k0, v0) d -> v0 <> []) ->
    forall k0 v0, In (k0, v0) (fold_left step chs d) -> v0 <> [].
  Proof.
    induction chs as [|f chs IH]; intros d Hd; cbn [fold_left]; [exact Hd|].
    apply IH. unfold step. apply dict_append_nonempty. exact Hd.
  Qed.
  Lemma fragments_of_nonempty chs k vs : In (k, vs) (fragments_of idf ord chs) -> vs <> [].
  Proof. unfold fragments_of. fold step. apply fold_nonempty. intros k0 v0 []. Qed.

  Definition key_count (chs : list path) (k : list Z) : nat :=
    length (filter (path_eqb k) (map (frag_key idf ord) chs)).

  Lemma filter_map_comm {A B} (f : A -> B) (p : B -> bool) l : filter p (map f l) = map f (filter (fun x => p (f x)) l).
  Proof. induction l as [|a l IH]; cbn; [reflexivity|]. destruct (p (f a)); cbn; rewrite IH; reflexivity. Qed.

  Lemma fragments_of_count chs k : length (fget (fragments_of idf ord chs) k) = key_count chs k.
  Proof. rewrite fragments_of_get. unfold key_count. rewrite filter_map_comm, !map_length. reflexivity. Qed.

  (* every entry of the dictionary: its list is the list of ALL chains with that key; it is never empty *)
  Lemma fragments_of_entry chs k vs : In (k, vs) (fragments_of idf ord chs) ->
    vs = map (fun f => snd (frag_entry idf ord f)) (filter (fun f => path_eqb k (frag_key idf ord f)) chs)
    /\ length vs = key_count chs k.
  Proof.
    intro H. pose proof (fget_entry _ _ _ (fragments_of_keys_NoDup chs) H) as E.
    rewrite <- E. split; [apply fragments_of_get | apply fragments_of_count].
  Qed.

  (* membership in the hash collection, in terms of keys and counts only *)
  Lemma linear_hashes_In (h : list Z -> Z) nbp chs x :
    In x (linear_hashes h nbp (fragments_of idf ord chs)) <->
    exists k c, x = h (k ++ [c]) /\ 0 <= c < Z.min (Z.of_nat (key_count chs k)) (cap nbp).
  Proof.
    unfold linear_hashes. rewrite in_flat_map. split.
    - intros [[k vs] [He Hx]]. unfold fragment_hashes in Hx. cbn [fst snd] in Hx.
      apply in_map_iff in Hx. destruct Hx as [c [Hc1 Hc2]]. apply zrange_In in Hc2.
      destruct (fragments_of_entry chs k vs He) as [_ Hl]. exists k, c. unfold len_z in Hc2. rewrite Hl in Hc2.
      split; [symmetry; exact Hc1 | exact Hc2].
    - intros [k [c [Hx Hc]]]. exists (k, fget (fragments_of idf ord chs) k). split.
      + apply fget_nonempty_In. intro E. apply (f_equal (@length path)) in E.
        rewrite fragments_of_count in E. cbn in E. lia.
      + unfold fragment_hashes. cbn [fst snd]. apply in_map_iff. exists c. split; [symmetry; exact Hx|].
        apply zrange_In. unfold len_z. rewrite fragments_of_count. exact Hc.
  Qed.
End FragmentFacts.

Lemma Permutation_filter {A} (f : A -> bool) l l' : Permutation l l' -> Permutation (filter f l) (filter f l').
Proof.
  induction 1 as [| a l l' _ IH | a b l | l l' l'' _ IH1 _ IH2]; cbn.
  - constructor.
  - destruct (f a); [constructor|]; exact IH.
  - destruct (f a), (f b); try apply Permutation_refl. apply perm_swap.
  - eapply Permutation_trans; eassumption.
Qed.

(* the hash collection depends only on the multiset of fragment keys *)
Lemma linear_hashes_keys_perm idf ord idf' ord' h nbp chs chs' :
  Permutation (map (frag_key idf ord) chs) (map (frag_key idf' ord') chs') ->
  forall x, In x (linear_hashes h nbp (fragments_of idf ord chs)) <->
            In x (linear_hashes h nbp (fragments_of idf' ord' chs')).
Proof.
  intros HP x. rewrite !linear_hashes_In.
  assert (E : forall k, key_count idf ord chs k = key_count idf' ord' chs' k).
  { intro k. unfold key_count. apply Permutation_length. apply Permutation_filter. exact HP. }
  split; intros [k [c [H1 H2]]]; exists k, c; (split; [exact H1|]); [rewrite <- E | rewrite E]; exact H2.
Qed.

(* ---- count_cap ---- *)
Lemma zrange_length a b : length (zrange a b) = Z.to_nat (b - a).
Proof.
  unfold zrange. generalize (Z.to_nat (b - a)) as n. intro n. revert a.
  induction n as [|n IH]; intro a; cbn; [reflexivity|]. rewrite IH. reflexivity.
Qed.

Lemma zrange_NoDup a b : NoDup (zrange a b).
Proof.
  unfold zrange. generalize (Z.to_nat (b - a)) as n. intro n. revert a.
  induction n as [|n IH]; intro a; cbn; [constructor|]. constructor; [|apply IH].
  rewrite zrange_from_In. lia.
Qed.

(* each fragment (key k found `count` times) contributes exactly the identifiers h(k, 0) ... h(k, min(count, cap)-1):
   min(count, cap) of them, where cap = number_bit_pairs, or 999999999 when number_bit_pairs = 0 *)
Theorem count_cap (h : list Z -> Z) g lo hi nbp k vs :
  In (k, vs) (fragments g lo hi) ->
  let count := key_count (ident (atom_identifiers g)) (bond_order g) (chains g lo hi) k in
  (1 <= count)%nat /\ length vs = count /\
  fragment_hashes h nbp (k, vs) = map (fun c => h (k ++ [c])) (zrange 0 (Z.min (Z.of_nat count) (cap nbp))) /\
  length (fragment_hashes h nbp (k, vs)) = Z.to_nat (Z.min (Z.of_nat count) (cap nbp)).
Proof.
  intros He count. unfold fragments, fragments_with in He.
  destruct (fragments_of_entry _ _ _ _ _ He) as [Hv Hl]. fold count in Hl.
  pose proof (fragments_of_nonempty _ _ _ _ _ He) as Hne.
  assert (Hc : (1 <= count)%nat) by (rewrite <- Hl; destruct vs; [congruence | cbn; lia]).
  split; [exact Hc|]. split; [exact Hl|]. unfold fragment_hashes. cbn [fst snd]. unfold len_z. rewrite Hl.
  split; [reflexivity|]. rewrite map_length, zrange_length. f_equal. lia.
Qed.

(* the docstring's point: a molecule with fewer copies of a fragment sets a subset of the identifiers *)
Theorem count_monotone (h : list Z -> Z) nbp k (vs vs' : list path) :
  (length vs <= length vs')%nat -> incl (fragment_hashes h nbp (k, vs)) (fragment_hashes h nbp (k, vs')).
Proof.
  intros Hl x. unfold fragment_hashes. cbn [fst snd]. rewrite !in_map_iff.
  intros [c [H1 H2]]. exists c. split; [exact H1|]. apply zrange_In in H2. apply zrange_In. unfold len_z in *. lia.
Qed.

(* ==================================================================================================== *)
(* F. folding hash values into bit indices *)

Lemma land_bound a m : 0 <= m -> 0 <= Z.land a m <= m.
Proof.
  intro Hm. split; [apply Z.land_nonneg; right; exact Hm|].
  assert (D : Z.land (Z.ldiff m a) (Z.land a m) = 0).
  { apply Z.bits_inj'. intros n Hn. rewrite !Z.land_spec, Z.ldiff_spec, Z.bits_0.
    destruct (Z.testbit m n), (Z.testbit a n); reflexivity. }
  pose proof (Z.lor_ldiff_and m a) as E. rewrite (Z.land_comm m a) in E.
  rewrite <- (Z.lxor_lor _ _ D), <- (Z.add_nocarry_lxor _ _ D) in E.
  assert (0 <= Z.ldiff m a) by (apply Z.ldiff_nonneg; left; exact Hm). lia.
Qed.

Lemma shift_loop_In n log mask : forall tpl b, In b (shift_loop n log mask tpl) -> exists t, b = Z.land t mask.
Proof.
  induction n as [|n IH]; intros tpl b; cbn; [tauto|]. intros [H|H]; [eauto | eapply IH; exact H].
Qed.

Lemma fold_bits_In len nab tpl b : In b (fold_bits len nab tpl) -> exists t, b = Z.land t (len - 1).
Proof.
  unfold fold_bits. intros [H|H]; [eauto|].
  destruct (nab =? 2); [destruct H as [H|[]]; eauto|].
  destruct (2 <? nab); [|destruct H]. eapply shift_loop_In. exact H.
Qed.

(* ---- bits_below_length: for EVERY hash value (negative ones included), every number of active bits and every
        positive length (power of two or not) the folded indices are valid positions ---- *)
Theorem fold_bits_below_length len nab tpl b : 0 < len -> In b (fold_bits len nab tpl) -> 0 <= b < len.
Proof.
  intros Hl H. apply fold_bits_In in H. destruct H as [t ->].
  pose proof (land_bound t (len - 1)). lia.
Qed.

Theorem bits_below_length len nab hashes :
  (len <= 0 -> bit_list len nab hashes = Err ValueError) /\
  (0 < len -> exists bits, bit_list len nab hashes = Ok bits /\ forall b, In b bits -> 0 <= b < len).
Proof.
  unfold bit_list. split; intro Hl.
  - assert (E : len <=? 0 = true) by (apply Z.leb_le; exact Hl). rewrite E. reflexivity.
  - assert (E : len <=? 0 = false) by (apply Z.leb_gt; exact Hl). rewrite E. eexists. split; [reflexivity|].
    intros b Hb. apply in_flat_map in Hb. destruct Hb as [t [_ Hb]]. eapply fold_bits_below_length; eassumption.
Qed.

(* ---- active_bits_law: one hash value sets max(1, number_active_bits) positions (fewer distinct ones when they
        coincide); they are the consecutive log2(length)-bit windows of the two's-complement hash ---- *)
Lemma shift_loop_length n log mask : forall tpl, length (shift_loop n log mask tpl) = n.
Proof. induction n as [|n IH]; intro tpl; cbn; [reflexivity|]. rewrite IH. reflexivity. Qed.

Theorem active_bits_law len nab tpl : length (fold_bits len nab tpl) = Z.to_nat (Z.max 1 nab).
Proof.
  unfold fold_bits. cbn [length]. destruct (nab =? 2) eqn:E2; [apply Z.eqb_eq in E2; subst; reflexivity|].
  destruct (2 <? nab) eqn:E3.
  - apply Z.ltb_lt in E3. rewrite shift_loop_length. lia.
  - apply Z.ltb_ge in E3. apply Z.eqb_neq in E2. cbn [length]. lia.
Qed.

Lemma shift_loop_windows n log mask tpl : 0 <= log -> forall j, 0 <= j ->
  shift_loop n log mask (Z.shiftr tpl (j * log)) =
  map (fun i => Z.land (Z.shiftr tpl (i * log)) mask) (zrange_from (j + 1) n).
Proof.
  intro Hlog. induction n as [|n IH]; intros j Hj; cbn [shift_loop zrange_from map]; [reflexivity|].
  rewrite Z.shiftr_shiftr by exact Hlog. replace (j * log + log) with ((j + 1) * log) by lia.
  rewrite IH by lia. reflexivity.
Qed.

Theorem fold_bits_windows len nab tpl : 0 < len ->
  fold_bits len nab tpl =
  map (fun i => Z.land (Z.shiftr tpl (i * Z.log2 len)) (len - 1)) (zrange 0 (Z.max 1 nab)).
Proof.
  intro Hl. pose proof (Z.log2_nonneg len) as Hlog. unfold fold_bits, zrange.
  destruct (nab =? 2) eqn:E2.
  - apply Z.eqb_eq in E2. subst. change (Z.to_nat (Z.max 1 2 - 0)) with 2%nat. cbn [zrange_from map].
    change (0 * Z.log2 len) with 0. change (0 + 1) with 1. change (Z.shiftr tpl 0) with tpl.
    rewrite Z.mul_1_l. reflexivity.
  - destruct (2 <? nab) eqn:E3.
    + apply Z.ltb_lt in E3. replace (Z.to_nat (Z.max 1 nab - 0)) with (S (Z.to_nat (nab - 1))) by lia.
      cbn [zrange_from map]. change (0 * Z.log2 len) with 0. change (Z.shiftr tpl 0) with tpl. f_equal.
      pose proof (shift_loop_windows (Z.to_nat (nab - 1)) (Z.log2 len) (len - 1) tpl Hlog 0 (Z.le_refl 0)) as H.
      change (0 * Z.log2 len) with 0 in H. change (Z.shiftr tpl 0) with tpl in H. exact H.
    + apply Z.ltb_ge in E3. apply Z.eqb_neq in E2. replace (Z.to_nat (Z.max 1 nab - 0)) with 1%nat by lia.
      cbn [zrange_from map]. change (0 * Z.log2 len) with 0. change (Z.shiftr tpl 0) with tpl. reflexivity.
Qed.

(* for a power-of-two length 2^k window i is  floor(hash / 2^(i*k)) mod 2^k  *)
Theorem fold_bits_pow2 k nab tpl : 0 <= k ->
  fold_bits (2 ^ k) nab tpl = map (fun i => (tpl / 2 ^ (i * k)) mod 2 ^ k) (zrange 0 (Z.max 1 nab)).
Proof.
  intro Hk. assert (Hp : 0 < 2 ^ k) by (apply Z.pow_pos_nonneg; lia).
  rewrite fold_bits_windows by exact Hp. rewrite Z.log2_pow2 by exact Hk.
  apply map_ext_in. intros i Hi. apply zrange_In in Hi.
  replace (2 ^ k - 1) with (Z.ones k) by (rewrite Z.ones_equiv; lia).
  rewrite Z.land_ones by exact Hk. rewrite Z.shiftr_div_pow2 by nia. reflexivity.
Qed.

(* the number of set positions never exceeds max(1, active bits) per hash value *)
Theorem bit_list_size len nab hashes bits : bit_list len nab hashes = Ok bits ->
  length bits = (length hashes * Z.to_nat (Z.max 1 nab))%nat.
Proof.
  unfold bit_list. destruct (len <=? 0); [discriminate|]. intro H. inversion H; subst. clear H.
  induction hashes as [|t r IH]; cbn [flat_map length]; [reflexivity|].
  rewrite app_length, IH, active_bits_law. lia.
Qed.

(* ==================================================================================================== *)
(* G. renumbering of the atoms (Graph.remap with an injective map) *)

Lemma NoDup_map_inj_on {A B} (f : A -> B) (l : list A) :
  (forall x y, In x l -> In y l -> f x = f y -> x = y) -> NoDup l -> NoDup (map f l).
Proof.
  induction l as [|a l IH]; intros Hinj Hn; cbn; [constructor|].
  inversion Hn as [|? ? H1 H2]; subst. constructor.
  - rewrite in_map_iff. intros [y [E Hy]]. apply H1.
    rewrite (Hinj a y (or_introl eq_refl) (or_intror Hy) (eq_sym E)). exact Hy.
  - apply IH; [|exact H2]. intros x y Hx Hy. apply Hinj; right; assumption.
Qed.

Section Renumber.
  Variable s : Z -> Z.
  Hypothesis s_inj : forall x y, s x = s y -> x = y.

  Lemma map_s_inj (p q : list Z) : map s p = map s q -> p = q.
  Proof.
    revert q. induction p as [|a p IH]; intros [|b q] H; cbn in H; try discriminate; [reflexivity|].
    inversion H as [[H1 H2]]. apply s_inj in H1. subst. f_equal. apply IH. exact H2.
  Qed.

  Lemma In_map_s x l : In (s x) (map s l) <-> In x l.
  Proof.
    rewrite in_map_iff. split; [|intro H; exists x; auto]. intros [y [E Hy]]. apply s_inj in E. subst. exact Hy.
  Qed.

  Lemma zget_rename {V W} (f : V -> W) (d : list (Z * V)) k :
    zget (map (fun e => (s (fst e), f (snd e))) d) (s k) = option_map f (zget d k).
  Proof.
    induction d as [|[k0 v0] r IH]; cbn [map zget fst snd]; [reflexivity|].
    destruct (k =? k0) eqn:E.
    - apply Z.eqb_eq in E. subst. rewrite Z.eqb_refl. reflexivity.
    - assert (E' : s k =? s k0 = false).
      { apply Z.eqb_neq. intro H. apply s_inj in H. apply Z.eqb_neq in E. contradiction. }
      rewrite E'. exact IH.
  Qed.

  Lemma zget_rename_id {V} (d : list (Z * V)) k : zget (map (fun e => (s (fst e), snd e)) d) (s k) = zget d k.
  Proof.
    pose proof (zget_rename (fun v : V => v) d k) as H. cbn beta in H. rewrite H. destruct (zget d k); reflexivity.
  Qed.

  Lemma zget_rename_inv {V W} (f : V -> W) (d : list (Z * V)) u w :
    zget (map (fun e => (s (fst e), f (snd e))) d) u = Some w -> exists k, u = s k.
  Proof.
    induction d as [|[k0 v0] r IH]; cbn [map zget fst snd]; [discriminate|].
    destruct (u =? s k0) eqn:E; [|exact IH]. intros _. apply Z.eqb_eq in E. eauto.
  Qed.

  Lemma ids_rename g : ids (rename_mol s g) = map s (ids g).
  Proof. unfold ids, keys, rename_mol. cbn [m_atoms]. rewrite !map_map. reflexivity. Qed.

  Lemma nbrs_rename g x : nbrs (rename_mol s g) (s x) = map (fun mb => (s (fst mb), snd mb)) (nbrs g x).
  Proof.
    unfold nbrs, rename_mol. cbn [m_adj].
    rewrite (zget_rename (fun l : list (Z * bond) => map (fun mb => (s (fst mb), snd mb)) l)).
    destruct (zget (m_adj g) x); reflexivity.
  Qed.

  Lemma nbr_ids_rename g x : nbr_ids (rename_mol s g) (s x) = map s (nbr_ids g x).
  Proof. unfold nbr_ids, keys. rewrite nbrs_rename, !map_map. reflexivity. Qed.

  Lemma edge_rename g x y : edge (rename_mol s g) (s x) (s y) <-> edge g x y.
  Proof. unfold edge. rewrite nbr_ids_rename. apply In_map_s. Qed.

  Lemma edge_rename_inv g u v : edge (rename_mol s g) u v -> exists x y, u = s x /\ v = s y /\ edge g x y.
  Proof.
    intro H. assert (Hu : exists x, u = s x).
    { unfold edge, nbr_ids, nbrs, rename_mol in H. cbn [m_adj] in H.
      destruct (zget _ u) eqn:E; [|destruct H].
      apply (zget_rename_inv (fun l : list (Z * bond) => map (fun mb => (s (fst mb), snd mb)) l)) in E. exact E. }
    destruct Hu as [x ->]. pose proof H as H'. unfold edge in H'. rewrite nbr_ids_rename in H'.
    apply in_map_iff in H'. destruct H' as [y [<- Hy]]. exists x, y. auto.
  Qed.

  Lemma sym_closed_rename g : sym_closed g -> sym_closed (rename_mol s g).
  Proof.
    intros (H1 & H2 & H3). split; [|split].
    - rewrite ids_rename. apply NoDup_map_inj_on; [|exact H1]. intros x y _ _. apply s_inj.
    - intros u v Huv. destruct (edge_rename_inv g u v Huv) as [x [y (-> & -> & He)]].
      apply edge_rename. apply H2. exact He.
    - intros u v Huv. destruct (edge_rename_inv g u v Huv) as [x [y (-> & -> & He)]].
      rewrite ids_rename. apply In_map_s. apply (H3 _ _ He).
  Qed.

  Lemma linked_rename g p : linked (rename_mol s g) (map s p) <-> linked g p.
  Proof.
    induction p as [|a [|b r] IH]; cbn [map linked]; try tauto.
    cbn [map] in IH. rewrite IH, edge_rename. tauto.
  Qed.

  Lemma simple_path_rename g p : simple_path (rename_mol s g) (map s p) <-> simple_path g p.
  Proof.
    unfold simple_path. rewrite linked_rename, ids_rename.
    assert (H1 : map s p <> [] <-> p <> []) by (destruct p; cbn; split; congruence).
    assert (H2 : (forall x, In x (map s p) -> In x (map s (ids g))) <-> (forall x, In x p -> In x (ids g))).
    { split.
      - intros H x Hx. apply In_map_s. apply H. apply In_map_s. exact Hx.
      - intros H x Hx. apply in_map_iff in Hx. destruct Hx as [y [<- Hy]]. apply In_map_s. apply H. exact Hy. }
    assert (H3 : NoDup (map s p) <-> NoDup p).
    { split; [apply NoDup_map_inv|]. apply NoDup_map_inj_on. intros x y _ _. apply s_inj. }
    rewrite H1, H2, H3. tauto.
  Qed.

  Lemma preimage_list (q : list Z) l : (forall x, In x q -> In x (map s l)) -> exists p, q = map s p.
  Proof.
    induction q as [|a q IH]; intro H; [exists []; reflexivity|].
    destruct IH as [p ->]; [intros x Hx; apply H; right; exact Hx|].
    pose proof (H a (or_introl eq_refl)) as Ha. apply in_map_iff in Ha. destruct Ha as [y [<- _]].
    exists (y :: p). reflexivity.
  Qed.

  Lemma simple_path_rename_inv g q : simple_path (rename_mol s g) q -> exists p, q = map s p /\ simple_path g p.
  Proof.
    intro H. pose proof H as (_ & H2 & _). rewrite ids_rename in H2.
    destruct (preimage_list q (ids g) H2) as [p ->]. exists p. split; [reflexivity|].
    apply simple_path_rename. exact H.
  Qed.

  (* the chain of the renumbered molecule that corresponds to chain p *)
  Definition chain_image (p : path) : path := canon (map s p).

  Lemma chain_image_cases p : chain_image p = map s p \/ chain_image p = map s (rev p).
  Proof. unfold chain_image. rewrite map_rev. apply canon_cases. Qed.

  Lemma chains_rename_perm g lo hi : sym_closed g ->
    Permutation (map chain_image (chains g lo hi)) (chains (rename_mol s g) lo hi).
  Proof.
    intro Hg. pose proof (sym_closed_rename g Hg) as Hg'.
    pose proof (chains_exact_sc g lo hi Hg) as X. pose proof (chains_exact_sc (rename_mol s g) lo hi Hg') as X'.
    apply NoDup_Permutation.
    - apply NoDup_map_inj_on; [|apply dedup_paths_NoDup].
      intros p1 p2 Hp1 Hp2 E. apply X in Hp1. apply X in Hp2.
      destruct Hp1 as ((_ & _ & _ & Hn1) & _ & Hc1). destruct Hp2 as ((_ & _ & _ & Hn2) & _ & Hc2).
      assert (K : p1 = p2 \/ p1 = rev p2).
      { destruct (chain_image_cases p1) as [E1|E1], (chain_image_cases p2) as [E2|E2]; rewrite E1, E2 in E;
          apply map_s_inj in E.
        - left. exact E.
        - right. exact E.
        - right. rewrite <- E. symmetry. apply rev_involutive.
        - left. apply (f_equal (@rev Z)) in E. rewrite !rev_involutive in E. exact E. }
      destruct K as [K|K]; [exact K|].
      destruct (le_lt_dec 2 (length p2)) as [Hl|Hl].
      + exfalso. apply (canonical_dir_rev_excl p2 Hn2 Hl Hc2). rewrite <- K. exact Hc1.
      + destruct p2 as [|a [|b r]]; cbn in Hl; try lia; cbn in K; exact K.
    - apply dedup_paths_NoDup.
    - intro q. rewrite in_map_iff. split.
      + intros [p [<- Hp]]. apply X in Hp. destruct Hp as (Hs & Hy & Hc). apply X'.
        assert (Hs' : simple_path (rename_mol s g) (map s p)) by (apply simple_path_rename; exact Hs).
        split; [|split].
        * unfold chain_image. destruct (canon_cases (map s p)) as [E|E]; rewrite E; [exact Hs'|].
          apply simple_path_rev; [apply Hg' | exact Hs'].
        * unfold chain_image, len_z in *. rewrite canon_length, map_length. exact Hy.
        * unfold chain_image. destruct Hs' as (Hne & _ & _ & Hnd). apply canonical_dir_canon; assumption.
      + intro Hq. apply X' in Hq. destruct Hq as (Hs & Hy & Hc).
        destruct (simple_path_rename_inv g q Hs) as [p0 [-> Hs0]].
        exists (canon p0). split.
        * unfold chain_image. destruct Hs as (_ & _ & _ & Hnd).
          destruct (canon_cases p0) as [E|E]; rewrite E.
          -- apply canon_fix; assumption.
          -- rewrite map_rev, canon_rev. apply canon_fix; assumption.
        * apply X. destruct Hg as (_ & Hsym & _). destruct Hs0 as (Hne & Hin & Hlk & Hnd). split; [|split].
          -- destruct (canon_cases p0) as [E|E]; rewrite E; [repeat split; assumption|].
             apply simple_path_rev; [exact Hsym | repeat split; assumption].
          -- unfold len_z in *. rewrite canon_length. rewrite map_length in Hy. exact Hy.
          -- apply canonical_dir_canon; assumption.
  Qed.

  (* fragment keys *)
  Section Keys.
    Variables (idf idf' : Z -> Z) (ord ord' : Z -> Z -> Z).
    Hypothesis idf_eq : forall x, idf' (s x) = idf x.
    Hypothesis ord_eq : forall x y, ord' (s x) (s y) = ord x y.
    Hypothesis ord_sym : forall x y, ord x y = ord y x.

    Lemma frag_tail_rename r : forall x, frag_tail idf' ord' (s x) (map s r) = frag_tail idf ord x r.
    Proof. induction r as [|y r IH]; intro x; cbn; [reflexivity|]. rewrite ord_eq, idf_eq, IH. reflexivity. Qed.
    Lemma frag_var_rename p : frag_var idf' ord' (map s p) = frag_var idf ord p.
    Proof. destruct p as [|x r]; cbn; [reflexivity|]. rewrite idf_eq, frag_tail_rename. reflexivity. Qed.

    Lemma frag_tail_snoc r : forall x y,
      frag_tail idf ord x (r ++ [y]) = frag_tail idf ord x r ++ [ord (last (x :: r) 0) y; idf y].
    Proof.
      induction r as [|a r IH]; intros x y; [reflexivity|].
      cbn [app frag_tail]. rewrite IH. reflexivity.
    Qed.

    Lemma frag_var_rev p : frag_var idf ord (rev p) = rev (frag_var idf ord p).
    Proof.
      induction p as [|x r IH]; [reflexivity|]. cbn [rev]. destruct r as [|b r'].
      - reflexivity.
      - destruct (rev (b :: r')) as [|c t] eqn:E.
        + apply (f_equal (@length Z)) in E. rewrite rev_length in E. discriminate.
        + cbn [app frag_var] in *. rewrite frag_tail_snoc.
          assert (Hl : last (c :: t) 0 = b) by (rewrite <- E, last_rev; reflexivity).
          rewrite Hl. cbn [frag_tail rev]. rewrite app_comm_cons, IH. cbn [rev].
          rewrite <- !app_assoc. cbn [app]. rewrite (ord_sym b x). reflexivity.
    Qed.

    Lemma frag_key_eq (i : Z -> Z) (o : Z -> Z -> Z) p :
      frag_key i o p = let v := frag_var i o p in if tuple_gtb v (rev v) then v else rev v.
    Proof. unfold frag_key, frag_entry. cbn zeta. destruct (tuple_gtb _ _); reflexivity. Qed.

    Lemma frag_key_rev p : frag_key idf ord (rev p) = frag_key idf ord p.
    Proof. rewrite !frag_key_eq. cbn zeta. rewrite frag_var_rev, rev_involutive. apply max_rev_sym. Qed.

    Lemma frag_key_image p : frag_key idf' ord' (chain_image p) = frag_key idf ord p.
    Proof.
      destruct (chain_image_cases p) as [E|E]; rewrite E.
      - rewrite !frag_key_eq, frag_var_rename. reflexivity.
      - rewrite <- (frag_key_rev p). rewrite !frag_key_eq, frag_var_rename. reflexivity.
    Qed.

    (* the multiset of fragment keys is invariant under renumbering *)
    Lemma fragment_keys_rename g lo hi : sym_closed g ->
      Permutation (map (frag_key idf ord) (chains g lo hi))
                  (map (frag_key idf' ord') (chains (rename_mol s g) lo hi)).
    Proof.
      intro Hg. pose proof (chains_rename_perm g lo hi Hg) as HP.
      apply (Permutation_map (frag_key idf' ord')) in HP. rewrite map_map in HP.
      rewrite (map_ext _ _ frag_key_image) in HP. exact HP.
    Qed.
  End Keys.

  (* the concrete identifier and bond-order functions are equivariant *)
  Lemma atom_identifiers_rename g :
    atom_identifiers (rename_mol s g) = map (fun e => (s (fst e), snd e)) (atom_identifiers g).
  Proof.
    unfold atom_identifiers, rename_mol. cbn [m_atoms]. rewrite !map_map.
    apply map_ext. intros [n a]. cbn [fst snd]. reflexivity.
  Qed.

  Lemma ident_rename g x : ident (atom_identifiers (rename_mol s g)) (s x) = ident (atom_identifiers g) x.
  Proof.
    unfold ident. rewrite atom_identifiers_rename, zget_rename_id. reflexivity.
  Qed.

  Lemma bond_order_rename g x y : bond_order (rename_mol s g) (s x) (s y) = bond_order g x y.
  Proof.
    unfold bond_order, bond_of. rewrite nbrs_rename.
    rewrite zget_rename_id. reflexivity.
  Qed.
End Renumber.

Lemma bond_order_sym g : wf_mol g = true -> forall x y, bond_order g x y = bond_order g y x.
Proof.
  unfold wf_mol. intro H. apply andb_prop in H. destruct H as [_ H3]. rewrite forallb_forall in H3.
  assert (K : forall x y b, bond_of g x y = Some b -> exists b', bond_of g y x = Some b' /\ b_ord b = b_ord b').
  { intros x y b Hb. unfold bond_of, nbrs in Hb. destruct (zget (m_adj g) x) as [l|] eqn:El; [|discriminate].
    pose proof (H3 _ (zget_In _ _ _ El)) as Hl. cbn [fst snd] in Hl.
    apply andb_prop in Hl. destruct Hl as [_ Hl]. rewrite forallb_forall in Hl.
    specialize (Hl _ (zget_In _ _ _ Hb)). cbn [fst snd] in Hl.
    apply andb_prop in Hl. destruct Hl as [_ Hl]. destruct (bond_of g y x) as [b'|]; [|discriminate].
    exists b'. split; [reflexivity|]. unfold bond_eqb in Hl. apply andb_prop in Hl. destruct Hl as [Hl _].
    apply Z.eqb_eq in Hl. exact Hl. }
  intros x y. unfold bond_order.
  destruct (bond_of g x y) as [b|] eqn:E1.
  - destruct (K _ _ _ E1) as [b' [E2 Ho]]. rewrite E2. exact Ho.
  - destruct (bond_of g y x) as [b'|] eqn:E2; [|reflexivity].
    destruct (K _ _ _ E2) as [b'' [E3 _]]. congruence.
Qed.

(* ---- fragments_equivariant: the multiset of fragment keys of the real identifier / bond-order functions ---- *)
Theorem fragments_equivariant (s : Z -> Z) g lo hi :
  (forall x y, s x = s y -> x = y) -> wf_mol g = true ->
  Permutation (map (frag_key (ident (atom_identifiers g)) (bond_order g)) (chains g lo hi))
              (map (frag_key (ident (atom_identifiers (rename_mol s g))) (bond_order (rename_mol s g)))
                   (chains (rename_mol s g) lo hi)).
Proof.
  intros Hinj Hwf. apply (fragment_keys_rename s Hinj).
  - intro x. apply ident_rename. exact Hinj.
  - intros x y. apply bond_order_rename. exact Hinj.
  - apply bond_order_sym. exact Hwf.
  - apply wf_mol_sym_closed. exact Hwf.
Qed.

(* ---- hash_sets_invariant: for ANY hash function and ANY injective renumbering the linear hash set, and
        therefore the bit set, is the same set ---- *)
Theorem hash_sets_invariant (h : list Z -> Z) (s : Z -> Z) g lo hi nbp :
  (forall x y, s x = s y -> x = y) -> wf_mol g = true ->
  forall x, In x (linear_hash_list h (rename_mol s g) lo hi nbp) <-> In x (linear_hash_list h g lo hi nbp).
Proof.
  intros Hinj Hwf x. unfold linear_hash_list, fragments, fragments_with. symmetry.
  apply linear_hashes_keys_perm. apply fragments_equivariant; assumption.
Qed.

(* the fragment dictionary itself: under renumbering every key keeps its multiplicity (a key absent from one
   dictionary has the empty list, length 0, in the other) *)
Theorem fragment_counts_invariant (s : Z -> Z) g lo hi k :
  (forall x y, s x = s y -> x = y) -> wf_mol g = true ->
  length (fget (fragments (rename_mol s g) lo hi) k) = length (fget (fragments g lo hi) k).
Proof.
  intros Hinj Hwf. unfold fragments, fragments_with. rewrite !fragments_of_count. unfold key_count.
  apply Permutation_length, Permutation_filter, Permutation_sym, fragments_equivariant; assumption.
Qed.

Lemma bit_list_In len nab hashes bits b : bit_list len nab hashes = Ok bits ->
  (In b bits <-> exists t, In t hashes /\ In b (fold_bits len nab t)).
Proof.
  unfold bit_list. destruct (len <=? 0); [discriminate|]. intro H. inversion H; subst. apply in_flat_map.
Qed.

Theorem bit_sets_invariant (h : list Z -> Z) (s : Z -> Z) g lo hi len nab nbp :
  (forall x y, s x = s y -> x = y) -> wf_mol g = true ->
  match linear_bit_list h (rename_mol s g) lo hi len nab nbp, linear_bit_list h g lo hi len nab nbp with
  | Ok bits', Ok bits => forall b, In b bits' <-> In b bits
  | Err e', Err e => e' = e
  | _, _ => False
  end.
Proof.
  intros Hinj Hwf. unfold linear_bit_list.
  destruct (bit_list len nab (linear_hash_list h (rename_mol s g) lo hi nbp)) as [bits'|e'] eqn:E1;
  destruct (bit_list len nab (linear_hash_list h g lo hi nbp)) as [bits|e] eqn:E2.
  - intro b. rewrite (bit_list_In _ _ _ _ b E1), (bit_list_In _ _ _ _ b E2).
    split; intros [t [Ht Hb]]; exists t; (split; [|exact Hb]);
      apply (hash_sets_invariant h s g lo hi nbp Hinj Hwf t); exact Ht.
  - unfold bit_list in *. destruct (len <=? 0); discriminate.
  - unfold bit_list in *. destruct (len <=? 0); discriminate.
  - unfold bit_list in *. destruct (len <=? 0); congruence.
Qed.

(* ==================================================================================================== *)
(* H. Morgan identifiers *)

Section MorganRename.
  Variable h : list Z -> Z.
  Variable s : Z -> Z.
  Hypothesis s_inj : forall x y, s x = s y -> x = y.
  Let ren (d : list (Z * Z)) : list (Z * Z) := map (fun e => (s (fst e), snd e)) d.

  Lemma morgan_atom_rename g d idx tpl :
    morgan_atom h (rename_mol s g) (ren d) (s idx) tpl = morgan_atom h g d idx tpl.
  Proof.
    unfold morgan_atom. rewrite (nbrs_rename s s_inj), map_map. do 4 f_equal.
    apply map_ext. intros [n b]. cbn [fst snd]. unfold ident, ren. rewrite (zget_rename_id s s_inj). reflexivity.
  Qed.

  Lemma morgan_step_rename g d : morgan_step h (rename_mol s g) (ren d) = ren (morgan_step h g d).
  Proof.
    unfold morgan_step. unfold ren at 2 3. rewrite !map_map. apply map_ext. intros [n t]. cbn [fst snd].
    rewrite morgan_atom_rename. reflexivity.
  Qed.

  Lemma morgan_iter_rename g n : forall d, morgan_iter h (rename_mol s g) n (ren d) = map ren (morgan_iter h g n d).
  Proof.
    induction n as [|n IH]; intro d; cbn [morgan_iter map]; [reflexivity|].
    rewrite morgan_step_rename, IH. reflexivity.
  Qed.

  Lemma skipn_map' {A B} (f : A -> B) n : forall l, skipn n (map f l) = map f (skipn n l).
  Proof. induction n as [|n IH]; intros [|a l]; cbn; try reflexivity. apply IH. Qed.

  Lemma ren_values d : map snd (ren d) = map snd d.
  Proof. unfold ren. rewrite map_map. reflexivity. Qed.

  (* the dictionaries of the renumbered molecule are the renumbered dictionaries: atom s(x) gets the identifier of x
     at every radius *)
  Theorem morgan_hash_dict_rename g lo hi :
    morgan_hash_dict h (rename_mol s g) lo hi =
    match morgan_hash_dict h g lo hi with Ok ds => Ok (map ren ds) | Err e => Err e end.
  Proof.
    unfold morgan_hash_dict, morgan_hash_dict_with. destruct (lo <? 1); [reflexivity|]. destruct (hi <? lo); [reflexivity|].
    rewrite (atom_identifiers_rename s). fold (ren (atom_identifiers g)).
    rewrite morgan_iter_rename, map_length, skipn_map'. reflexivity.
  Qed.

  (* ... hence the collection of hash values is literally the same list, and so are the folded bits *)
  Theorem morgan_hash_list_rename g lo hi :
    morgan_hash_list h (rename_mol s g) lo hi = morgan_hash_list h g lo hi.
  Proof.
    unfold morgan_hash_list. rewrite morgan_hash_dict_rename. destruct (morgan_hash_dict h g lo hi) as [ds|e]; [|reflexivity].
    f_equal. induction ds as [|d ds IH]; cbn [map flat_map]; [reflexivity|]. rewrite ren_values, IH. reflexivity.
  Qed.

  Theorem morgan_bit_list_rename g lo hi len nab :
    morgan_bit_list h (rename_mol s g) lo hi len nab = morgan_bit_list h g lo hi len nab.
  Proof. unfold morgan_bit_list. rewrite morgan_hash_list_rename. reflexivity. Qed.
End MorganRename.

(* sorted() of the (bond order, identifier) pairs makes the identifier independent of the neighbour order *)
Definition pair_le (p q : Z * Z) : Prop := pair_leb p q = true.

Lemma pair_leb_total p q : pair_le p q \/ pair_le q p.
Proof.
  unfold pair_le, pair_leb. destruct p as [a b], q as [c d]. cbn [fst snd].
  rewrite (Z.eqb_sym c a). destruct (a =? c) eqn:E.
  - destruct (Z.leb_spec b d); [left; reflexivity | right; apply Z.leb_le; lia].
  - apply Z.eqb_neq in E. destruct (Z.ltb_spec a c); [left; reflexivity | right; apply Z.ltb_lt; lia].
Qed.

Lemma pair_leb_antisym p q : pair_le p q -> pair_le q p -> p = q.
Proof.
  unfold pair_le, pair_leb. destruct p as [a b], q as [c d]. cbn [fst snd].
  rewrite (Z.eqb_sym c a). destruct (a =? c) eqn:E.
  - apply Z.eqb_eq in E. subst. intros H1 H2. apply Z.leb_le in H1, H2. f_equal. lia.
  - intros H1 H2. apply Z.ltb_lt in H1, H2. lia.
Qed.

Lemma pair_leb_trans p q r : pair_le p q -> pair_le q r -> pair_le p r.
Proof.
  unfold pair_le, pair_leb. destruct p as [a b], q as [c d], r as [e f]. cbn [fst snd].
  destruct (a =? c) eqn:E1, (c =? e) eqn:E2, (a =? e) eqn:E3; intros H1 H2;
    rewrite ?Z.eqb_eq, ?Z.eqb_neq, ?Z.leb_le, ?Z.ltb_lt in *; lia.
Qed.

Inductive psorted : list (Z * Z) -> Prop :=
| ps_nil : psorted []
| ps_cons p l : Forall (pair_le p) l -> psorted l -> psorted (p :: l).

Lemma insert_pair_perm p l : Permutation (insert_pair p l) (p :: l).
Proof.
  induction l as [|q r IH]; cbn; [apply Permutation_refl|].
  destruct (pair_leb p q); [apply Permutation_refl|].
  eapply Permutation_trans; [apply perm_skip; exact IH | apply perm_swap].
Qed.

Lemma insert_pair_sorted p l : psorted l -> psorted (insert_pair p l).
Proof.
  induction 1 as [|q r Hq Hs IH]; cbn.
  - constructor; constructor.
  - destruct (pair_leb p q) eqn:E.
    + constructor; [|constructor; assumption]. constructor; [exact E|].
      eapply Forall_impl; [|exact Hq]. intros x Hx. eapply pair_leb_trans; [exact E | exact Hx].
    + constructor; [|exact IH].
      assert (Hqp : pair_le q p) by (destruct (pair_leb_total p q) as [H|H]; [unfold pair_le in H; congruence | exact H]).
      apply (Permutation_Forall (Permutation_sym (insert_pair_perm p r))). constructor; assumption.
Qed.

Lemma sort_pairs_sorted l : psorted (sort_pairs l).
Proof. induction l as [|p l IH]; cbn; [constructor | apply insert_pair_sorted; exact IH]. Qed.

Lemma sort_pairs_permutation l : Permutation (sort_pairs l) l.
Proof.
  induction l as [|p l IH]; cbn; [constructor|].
  eapply Permutation_trans; [apply insert_pair_perm | apply perm_skip; exact IH].
Qed.

Lemma psorted_unique l : forall l', psorted l -> psorted l' -> Permutation l l' -> l = l'.
Proof.
  induction l as [|p l IH]; intros l' Hs Hs' HP.
  - apply Permutation_nil in HP. subst. reflexivity.
  - destruct l' as [|q l']; [apply Permutation_sym, Permutation_nil in HP; discriminate|].
    inversion Hs as [|? ? Hp Hsl]; subst. inversion Hs' as [|? ? Hq Hsl']; subst.
    assert (E : p = q).
    { assert (H1 : In p (q :: l')) by (apply (Permutation_in _ HP); left; reflexivity).
      assert (H2 : In q (p :: l)) by (apply (Permutation_in _ (Permutation_sym HP)); left; reflexivity).
      destruct H1 as [H1|H1]; [congruence|]. destruct H2 as [H2|H2]; [congruence|].
      rewrite Forall_forall in Hp, Hq. apply pair_leb_antisym; [apply Hp; exact H2 | apply Hq; exact H1]. }
    subst q. f_equal. apply IH; [exact Hsl | exact Hsl' | eapply Permutation_cons_inv; exact HP].
Qed.

Theorem sort_pairs_order_free l l' : Permutation l l' -> sort_pairs l = sort_pairs l'.
Proof.
  intro HP. apply psorted_unique; try apply sort_pairs_sorted.
  eapply Permutation_trans; [apply sort_pairs_permutation|].
  eapply Permutation_trans; [exact HP | apply Permutation_sym, sort_pairs_permutation].
Qed.

(* the Morgan update of one atom depends on the multiset of its (bond order, neighbour identifier) pairs only *)
Theorem morgan_atom_neighbour_order (h : list Z -> Z) g g2 d d2 idx tpl :
  Permutation (nbrs g idx) (nbrs g2 idx) -> (forall x, ident d x = ident d2 x) ->
  morgan_atom h g d idx tpl = morgan_atom h g2 d2 idx tpl.
Proof.
  intros HP Hd. unfold morgan_atom. do 3 f_equal. apply sort_pairs_order_free.
  rewrite (map_ext (fun nb => (b_ord (snd nb), ident d (fst nb))) (fun nb => (b_ord (snd nb), ident d2 (fst nb))))
    by (intro nb; rewrite Hd; reflexivity).
  apply Permutation_map. exact HP.
Qed.

(* ==================================================================================================== *)
(* H2. the masked evaluation of the tuple hash is the tuple hash *)
Lemma m64_mod x : m64 x = x mod M64.
Proof. unfold m64. change MASK64 with (Z.ones 64). rewrite Z.land_ones by lia. reflexivity. Qed.
Lemma tuple_round_fast_eq acc lane : tuple_round_fast acc lane = tuple_round acc lane.
Proof. unfold tuple_round_fast, tuple_round, rotl31_fast, rotl31, to_u64. rewrite !m64_mod. reflexivity. Qed.
Lemma fold_fast_eq lanes : forall acc, fold_left tuple_round_fast lanes acc = fold_left tuple_round lanes acc.
Proof. induction lanes as [|x r IH]; intro acc; cbn [fold_left]; [reflexivity|]. rewrite tuple_round_fast_eq. apply IH. Qed.
Lemma tuple_hash_lanes_fast_eq lanes : tuple_hash_lanes_fast lanes = tuple_hash_lanes lanes.
Proof. unfold tuple_hash_lanes_fast, tuple_hash_lanes. rewrite fold_fast_eq, m64_mod. reflexivity. Qed.
Theorem hash_ztuple_fast_eq l : hash_ztuple_fast l = hash_ztuple l.
Proof. apply tuple_hash_lanes_fast_eq. Qed.

(* ==================================================================================================== *)
(* H3. what the linear hash set IS, independently of how _chains enumerates: for ANY duplicate-free list ps of
       exactly the simple paths with lo..hi atoms (one orientation each) *)
Lemma key_count_perm idf ord chs chs' k : Permutation chs chs' -> key_count idf ord chs k = key_count idf ord chs' k.
Proof.
  intro HP. unfold key_count. apply Permutation_length. apply Permutation_filter. apply Permutation_map. exact HP.
Qed.

Theorem linear_hash_list_exact (h : list Z -> Z) g lo hi nbp ps : wf_mol g = true -> 1 <= lo <= hi ->
  NoDup ps -> (forall p, In p ps <-> simple_path g p /\ lo <= len_z p <= hi /\ canonical_dir p) ->
  forall x, In x (linear_hash_list h g lo hi nbp) <->
    exists k c, x = h (k ++ [c]) /\
      0 <= c < Z.min (Z.of_nat (key_count (ident (atom_identifiers g)) (bond_order g) ps k)) (cap nbp).
Proof.
  intros Hwf Hr Hnd Hps x. unfold linear_hash_list, fragments, fragments_with. rewrite linear_hashes_In.
  assert (HP : Permutation (chains g lo hi) ps).
  { apply NoDup_Permutation; [apply (proj2 (chains_exact_any g lo hi Hwf)) | exact Hnd|].
    intro p. rewrite (proj1 (chains_exact g lo hi p Hwf Hr)), Hps. tauto. }
  split; intros [k [c [H1 H2]]]; exists k, c; (split; [exact H1|]);
    [rewrite <- (key_count_perm _ _ _ _ k HP) | rewrite (key_count_perm _ _ _ _ k HP)]; exact H2.
Qed.

(* ==================================================================================================== *)
(* H4. the Morgan dictionaries are the iterated neighbourhood identifiers of the requested radii *)
Section MorganLevels.
  Variable h : list Z -> Z.

  (* identifiers after r refinement rounds *)
  Fixpoint morgan_level (g : mol) (r : nat) : list (Z * Z) :=
    match r with
    | O => atom_identifiers g
    | S r' => morgan_step h g (morgan_level g r')
    end.

  Lemma morgan_iter_levels g n : forall d,
    morgan_iter h g n d = map (fun i => Nat.iter i (morgan_step h g) d) (seq 0 (S n)).
  Proof.
    induction n as [|n IH]; intro d; [reflexivity|].
    change (morgan_iter h g (S n) d) with (d :: morgan_iter h g n (morgan_step h g d)).
    rewrite IH. change (seq 0 (S (S n))) with (0%nat :: seq 1 (S n)). cbn [map Nat.iter]. f_equal.
    rewrite <- seq_shift, map_map. apply map_ext. intro i.
    clear. induction i as [|i IHi]; [reflexivity|].
    change (Nat.iter (S i) (morgan_step h g) (morgan_step h g d)) with (morgan_step h g (Nat.iter i (morgan_step h g) (morgan_step h g d))).
    rewrite IHi. reflexivity.
  Qed.

  Lemma morgan_level_iter g r : morgan_level g r = Nat.iter r (morgan_step h g) (atom_identifiers g).
  Proof. induction r as [|r IH]; [reflexivity|]. cbn [morgan_level Nat.iter]. rewrite IH. reflexivity. Qed.

  Lemma skipn_seq' n : forall a len, skipn n (seq a len) = seq (a + n) (len - n).
  Proof.
    induction n as [|n IH]; intros a len; [cbn; rewrite Nat.add_0_r, Nat.sub_0_r; reflexivity|].
    destruct len as [|len]; [reflexivity|]. cbn [seq skipn]. rewrite IH. f_equal; lia.
  Qed.

  Lemma skipn_map'' {A B} (f : A -> B) n : forall l, skipn n (map f l) = map f (skipn n l).
  Proof. induction n as [|n IH]; intros [|a l]; cbn; try reflexivity. apply IH. Qed.

  (* min_radius < 1 or max_radius < min_radius: AssertionError; otherwise the dictionaries of rounds
     min_radius-1 .. max_radius-1, in this order *)
  Theorem morgan_hash_dict_levels g lo hi :
    morgan_hash_dict h g lo hi =
      if (lo <? 1) || (hi <? lo) then Err OtherError
      else Ok (map (morgan_level g) (seq (Z.to_nat (lo - 1)) (Z.to_nat (hi - lo + 1)))).
  Proof.
    unfold morgan_hash_dict, morgan_hash_dict_with. destruct (lo <? 1) eqn:E1; [reflexivity|].
    destruct (hi <? lo) eqn:E2; [reflexivity|]. cbn [orb]. apply Z.ltb_ge in E1, E2. f_equal.
    rewrite morgan_iter_levels, map_length, seq_length, skipn_map'', skipn_seq'.
    replace (S (Z.to_nat (hi - 1)) - Z.to_nat (hi - lo + 1))%nat with (Z.to_nat (lo - 1)) by lia.
    replace (S (Z.to_nat (hi - 1)) - Z.to_nat (lo - 1))%nat with (Z.to_nat (hi - lo + 1)) by lia.
    cbn [Nat.add]. apply map_ext. intro r. symmetry. apply morgan_level_iter.
  Qed.

  Lemma morgan_step_keys g d : keys (morgan_step h g d) = keys d.
  Proof. unfold morgan_step, keys. rewrite map_map. reflexivity. Qed.

  Lemma morgan_level_keys g r : keys (morgan_level g r) = ids g.
  Proof.
    induction r as [|r IH]; cbn [morgan_level].
    - unfold atom_identifiers, keys, ids, keys. rewrite map_map. reflexivity.
    - rewrite morgan_step_keys. exact IH.
  Qed.

  Lemma zget_map_val {V W} (f : Z -> V -> W) (d : list (Z * V)) k :
    zget (map (fun it => (fst it, f (fst it) (snd it))) d) k = option_map (f k) (zget d k).
  Proof.
    induction d as [|[k' v] r IH]; cbn; [reflexivity|]. destruct (k =? k') eqn:E; [|exact IH].
    apply Z.eqb_eq in E. subst. reflexivity.
  Qed.

  (* the identifier of atom a after r+1 rounds: the hash of its identifier after r rounds followed by the sorted
     (bond order, neighbour identifier after r rounds) pairs of its neighbours *)
  Theorem morgan_level_value g r a : In a (ids g) ->
    ident (morgan_level g (S r)) a =
      h (ident (morgan_level g r) a ::
         flatten_pairs (sort_pairs (map (fun nb => (b_ord (snd nb), ident (morgan_level g r) (fst nb))) (nbrs g a)))).
  Proof.
    intro Ha. cbn [morgan_level]. unfold ident at 1. unfold morgan_step. rewrite zget_map_val.
    rewrite <- (morgan_level_keys g r) in Ha. destruct (keys_zget _ _ Ha) as [v Hv]. rewrite Hv. cbn [option_map].
    unfold morgan_atom, ident at 2. rewrite Hv. reflexivity.
  Qed.

  Theorem morgan_level_0 g a : ident (morgan_level g 0) a = ident (atom_identifiers g) a.
  Proof. reflexivity. Qed.
End MorganLevels.

(* ==================================================================================================== *)
(* H5. insertion order: a molecule whose atom dictionary and neighbour dictionaries hold the same items in another
       order has the same linear hash set and the same Morgan identifiers *)
Definition reordered (g g' : mol) : Prop :=
  Permutation (m_atoms g) (m_atoms g') /\ forall n, Permutation (nbrs g n) (nbrs g' n).

Lemma zget_In_iff {V} (d : list (Z * V)) k v : NoDup (keys d) -> (zget d k = Some v <-> In (k, v) d).
Proof.
  intro Hn. split; [apply zget_In|]. induction d as [|[k' v'] r IH]; cbn; [tauto|].
  inversion Hn as [|? ? H1 H2]; subst. intros [H|H].
  - inversion H; subst. rewrite Z.eqb_refl. reflexivity.
  - destruct (k =? k') eqn:E; [|apply IH; assumption].
    apply Z.eqb_eq in E. subst. exfalso. apply H1. apply (in_map fst) in H. exact H.
Qed.

Lemma zget_perm {V} (d d' : list (Z * V)) k : NoDup (keys d) -> Permutation d d' -> zget d k = zget d' k.
Proof.
  intros Hn HP.
  assert (Hn' : NoDup (keys d')) by (eapply Permutation_NoDup; [apply Permutation_map; exact HP | exact Hn]).
  destruct (zget d k) as [v|] eqn:E.
  - symmetry. apply zget_In_iff; [exact Hn'|]. apply (Permutation_in _ HP). apply zget_In_iff; assumption.
  - destruct (zget d' k) as [v'|] eqn:E'; [|reflexivity].
    apply zget_In_iff in E'; [|exact Hn']. apply (Permutation_in _ (Permutation_sym HP)) in E'.
    apply zget_In_iff in E'; [congruence | exact Hn].
Qed.

Lemma wf_mol_nbrs_NoDup g x : wf_mol g = true -> NoDup (keys (nbrs g x)).
Proof.
  unfold wf_mol. intro H. apply andb_prop in H. destruct H as [_ H3]. rewrite forallb_forall in H3.
  unfold nbrs. destruct (zget (m_adj g) x) as [l|] eqn:El; [|constructor].
  pose proof (H3 _ (zget_In _ _ _ El)) as Hl. cbn [fst snd] in Hl. apply andb_prop in Hl. destruct Hl as [Hl _].
  apply nodup_z_NoDup. exact Hl.
Qed.

Lemma atom_identifiers_keys g : keys (atom_identifiers g) = ids g.
Proof. unfold atom_identifiers, keys, ids, keys. rewrite map_map. reflexivity. Qed.

Section Reordered.
  Variables g g' : mol.
  Hypothesis Hwf : wf_mol g = true.
  Hypothesis Hwf' : wf_mol g' = true.
  Hypothesis Hre : reordered g g'.

  Lemma reordered_ids x : In x (ids g) <-> In x (ids g').
  Proof.
    destruct Hre as [HP _]. unfold ids, keys.
    split; apply Permutation_in; [|apply Permutation_sym]; apply Permutation_map; exact HP.
  Qed.

  Lemma reordered_edge x y : edge g x y <-> edge g' x y.
  Proof.
    destruct Hre as [_ HP]. unfold edge, nbr_ids, keys.
    split; apply Permutation_in; [|apply Permutation_sym]; apply Permutation_map; apply HP.
  Qed.

  Lemma reordered_ident x : ident (atom_identifiers g) x = ident (atom_identifiers g') x.
  Proof.
    unfold ident. rewrite (zget_perm (atom_identifiers g) (atom_identifiers g') x); [reflexivity| |].
    - rewrite atom_identifiers_keys. apply (wf_mol_sym_closed g Hwf).
    - unfold atom_identifiers. apply Permutation_map. apply Hre.
  Qed.

  Lemma reordered_bond_order x y : bond_order g x y = bond_order g' x y.
  Proof.
    unfold bond_order, bond_of. rewrite (zget_perm (nbrs g x) (nbrs g' x) y); [reflexivity| |].
    - apply wf_mol_nbrs_NoDup. exact Hwf.
    - apply Hre.
  Qed.

  Lemma frag_key_ext idf ord idf' ord' p :
    (forall x, idf x = idf' x) -> (forall x y, ord x y = ord' x y) -> frag_key idf ord p = frag_key idf' ord' p.
  Proof.
    intros Hi Ho. unfold frag_key, frag_entry.
    assert (E : frag_var idf ord p = frag_var idf' ord' p).
    { destruct p as [|x r]; [reflexivity|]. cbn [frag_var]. rewrite Hi. f_equal.
      revert x. induction r as [|y r IH]; intro x; [reflexivity|]. cbn [frag_tail]. rewrite Ho, Hi, IH. reflexivity. }
    rewrite E. destruct (tuple_gtb (frag_var idf' ord' p) (rev (frag_var idf' ord' p))); reflexivity.
  Qed.

  Lemma chains_reordered lo hi : Permutation (chains g lo hi) (chains g' lo hi).
  Proof.
    apply NoDup_Permutation.
    - apply (proj2 (chains_exact_any g lo hi Hwf)).
    - apply (proj2 (chains_exact_any g' lo hi Hwf')).
    - apply chains_insertion_order_free; [exact Hwf | exact Hwf' | apply reordered_ids | apply reordered_edge].
  Qed.

  Theorem linear_hash_list_reordered (h : list Z -> Z) lo hi nbp :
    forall x, In x (linear_hash_list h g lo hi nbp) <-> In x (linear_hash_list h g' lo hi nbp).
  Proof.
    unfold linear_hash_list, fragments, fragments_with. apply linear_hashes_keys_perm.
    rewrite (map_ext (frag_key (ident (atom_identifiers g')) (bond_order g'))
                     (frag_key (ident (atom_identifiers g)) (bond_order g))).
    - apply Permutation_map. apply chains_reordered.
    - intro p. symmetry. apply frag_key_ext; [apply reordered_ident | apply reordered_bond_order].
  Qed.

  Theorem fragment_counts_reordered lo hi k :
    length (fget (fragments g lo hi) k) = length (fget (fragments g' lo hi) k).
  Proof.
    unfold fragments, fragments_with. rewrite !fragments_of_count. unfold key_count.
    apply Permutation_length, Permutation_filter.
    rewrite (map_ext (frag_key (ident (atom_identifiers g')) (bond_order g'))
                     (frag_key (ident (atom_identifiers g)) (bond_order g))).
    - apply Permutation_map. apply chains_reordered.
    - intro p. symmetry. apply frag_key_ext; [apply reordered_ident | apply reordered_bond_order].
  Qed.

  Theorem linear_bit_list_reordered (h : list Z -> Z) lo hi len nab nbp :
    match linear_bit_list h g lo hi len nab nbp, linear_bit_list h g' lo hi len nab nbp with
    | Ok bits, Ok bits' => forall b, In b bits <-> In b bits'
    | Err e, Err e' => e = e'
    | _, _ => False
    end.
  Proof.
    unfold linear_bit_list.
    destruct (bit_list len nab (linear_hash_list h g lo hi nbp)) as [bits|e] eqn:E1;
    destruct (bit_list len nab (linear_hash_list h g' lo hi nbp)) as [bits'|e'] eqn:E2.
    - intro b. rewrite (bit_list_In _ _ _ _ b E1), (bit_list_In _ _ _ _ b E2).
      split; intros [t [Ht Hb]]; exists t; (split; [|exact Hb]); apply (linear_hash_list_reordered h lo hi nbp t); exact Ht.
    - unfold bit_list in *. destruct (len <=? 0); discriminate.
    - unfold bit_list in *. destruct (len <=? 0); discriminate.
    - unfold bit_list in *. destruct (len <=? 0); congruence.
  Qed.

  Section MorganReordered.
    Variable h : list Z -> Z.

    Lemma morgan_level_reordered r :
      Permutation (morgan_level h g r) (morgan_level h g' r).
    Proof.
      induction r as [|r IH]; cbn [morgan_level].
      - unfold atom_identifiers. apply Permutation_map. apply Hre.
      - unfold morgan_step at 2.
        rewrite (map_ext (fun it => (fst it, morgan_atom h g' (morgan_level h g' r) (fst it) (snd it)))
                         (fun it => (fst it, morgan_atom h g (morgan_level h g r) (fst it) (snd it)))).
        + unfold morgan_step. apply Permutation_map. exact IH.
        + intro it. f_equal. apply morgan_atom_neighbour_order.
          * apply Permutation_sym. apply Hre.
          * intro x. unfold ident. rewrite (zget_perm _ _ x (eq_ind_r (@NoDup Z) (proj1 (wf_mol_sym_closed g Hwf)) (morgan_level_keys h g r)) IH).
            reflexivity.
    Qed.

    Lemma Permutation_flat_map_pw {A B} (f f' : A -> list B) l :
      (forall a, Permutation (f a) (f' a)) -> Permutation (flat_map f l) (flat_map f' l).
    Proof.
      intro H. induction l as [|a l IH]; cbn [flat_map]; [constructor|]. apply Permutation_app; [apply H | exact IH].
    Qed.

    (* the Morgan hash collection of the reordered molecule is a rearrangement of the same values (same multiset,
       hence the same set and the same folded bits); the error behaviour is the same *)
    Theorem morgan_hash_list_reordered lo hi :
      match morgan_hash_list h g lo hi, morgan_hash_list h g' lo hi with
      | Ok l, Ok l' => Permutation l l'
      | Err e, Err e' => e = e'
      | _, _ => False
      end.
    Proof.
      unfold morgan_hash_list. rewrite !morgan_hash_dict_levels.
      destruct ((lo <? 1) || (hi <? lo)); [reflexivity|].
      rewrite !flat_map_concat_map, !map_map, <- !flat_map_concat_map.
      apply Permutation_flat_map_pw. intro r. apply Permutation_map. apply morgan_level_reordered.
    Qed.

    Theorem morgan_bit_list_reordered lo hi len nab :
      match morgan_bit_list h g lo hi len nab, morgan_bit_list h g' lo hi len nab with
      | Ok bits, Ok bits' => Permutation bits bits'
      | Err e, Err e' => e = e'
      | _, _ => False
      end.
    Proof.
      unfold morgan_bit_list, bit_list_of. destruct (len <=? 0) eqn:El; [reflexivity|].
      pose proof (morgan_hash_list_reordered lo hi) as H.
      destruct (morgan_hash_list h g lo hi) as [l|e], (morgan_hash_list h g' lo hi) as [l'|e']; try exact H; try contradiction.
      unfold bit_list. rewrite El. apply Permutation_flat_map. exact H.
    Qed.
  End MorganReordered.
End Reordered.

(* ==================================================================================================== *)
(* I. non-vacuity: a concrete well-formed molecule (2-propanol, CC(C)O) on which the hypotheses hold and the
      functions return what chython returns *)
Definition ex_atom (n : Z) : atom := mkAtom n None 0 false (Some 0) None.
Definition ex_b1 : bond := mkBond 1 None.
Definition ex_mol : mol :=
  mkMol [(1, ex_atom 6); (2, ex_atom 6); (3, ex_atom 6); (4, ex_atom 8)]
        [(1, [(2, ex_b1)]); (2, [(1, ex_b1); (3, ex_b1); (4, ex_b1)]); (3, [(2, ex_b1)]); (4, [(2, ex_b1)])].

Lemma example_nonvacuous :
  wf_mol ex_mol = true /\
  set_paths (chains ex_mol 1 3) = [[1]; [2]; [2; 1]; [3]; [3; 2]; [3; 2; 1]; [4]; [4; 2]; [4; 2; 1]; [4; 2; 3]] /\
  chains_seq_loop (chains_fuel ex_mol 3) ex_mol 1 3 = Some (chains_seq ex_mol 1 3) /\
  (forall x y : Z, 7 - x = 7 - y -> x = y) /\
  set_z (linear_hash_list hash_ztuple (rename_mol (fun x => 7 - x) ex_mol) 1 3 2) =
  set_z (linear_hash_list hash_ztuple ex_mol 1 3 2) /\
  length (set_z (linear_hash_list hash_ztuple ex_mol 1 3 2)) = 9%nat /\
  morgan_hash_list hash_ztuple ex_mol 1 2 =
    Ok [-3850700631077715909; -3850700631077715909; -3850700631077715909; 3311492739671872531;
        6744783386241714987; -713217080876991613; 6744783386241714987; -5079278463555148377] /\
  fold_bits 1024 3 (-5079278463555148377) = [423; 57; 136].
Proof.
  split; [vm_compute; reflexivity|]. split; [vm_compute; reflexivity|]. split; [vm_compute; reflexivity|].
  split; [intros x y H; lia|]. split; [vm_compute; reflexivity|]. split; [vm_compute; reflexivity|].
  split; vm_compute; reflexivity.
Qed.

(* the same molecule with the atoms and the neighbours of atom 2 inserted in another order *)
Definition ex_mol2 : mol :=
  mkMol [(2, ex_atom 6); (1, ex_atom 6); (3, ex_atom 6); (4, ex_atom 8)]
        [(2, [(3, ex_b1); (1, ex_b1); (4, ex_b1)]); (1, [(2, ex_b1)]); (3, [(2, ex_b1)]); (4, [(2, ex_b1)])].

Lemma example_reordered :
  wf_mol ex_mol = true /\ wf_mol ex_mol2 = true /\ reordered ex_mol ex_mol2 /\
  m_atoms ex_mol <> m_atoms ex_mol2 /\ nbrs ex_mol 2 <> nbrs ex_mol2 2 /\
  morgan_hash_list hash_ztuple ex_mol2 1 2 =
    Ok [-3850700631077715909; -3850700631077715909; -3850700631077715909; 3311492739671872531;
        -713217080876991613; 6744783386241714987; 6744783386241714987; -5079278463555148377] /\
  morgan_level hash_ztuple ex_mol 1 =
    [(1, 6744783386241714987); (2, -713217080876991613); (3, 6744783386241714987); (4, -5079278463555148377)].
Proof.
  split; [vm_compute; reflexivity|]. split; [vm_compute; reflexivity|]. split.
  - split; [apply perm_swap|]. intro n.
    destruct (n =? 1) eqn:E1; [apply Z.eqb_eq in E1; subst; vm_compute; apply Permutation_refl|].
    destruct (n =? 2) eqn:E2; [apply Z.eqb_eq in E2; subst; vm_compute; apply perm_swap|].
    destruct (n =? 3) eqn:E3; [apply Z.eqb_eq in E3; subst; vm_compute; apply Permutation_refl|].
    destruct (n =? 4) eqn:E4; [apply Z.eqb_eq in E4; subst; vm_compute; apply Permutation_refl|].
    unfold nbrs, ex_mol, ex_mol2. cbn [m_adj zget]. rewrite E1, E2, E3, E4. constructor.
  - split; [discriminate|]. split; [vm_compute; discriminate|]. split; vm_compute; reflexivity.
Qed.
