(* C06 -- proofs about coq/model/Rings.v.
   marks (atoms_rings, ring sizes, bond marks) are the stated functions of the sssr list;
   GF(2) elimination decides linear independence; is_cycle_basis is sound;
   _skin_graph never removes an atom of a simple cycle; _connected_components returns, for every pop order, the
   partition into connectivity classes; rings_count is the cyclomatic number (handshake lemma);
   _canonic_ring gives one spelling per cyclic class (rotations and reflections). *)
From Coq Require Import ZArith List Bool Lia Permutation FinFun.
From Model Require Import PyBase Graph Rings.
Import ListNotations.
Open Scope Z_scope.

(* ---------- generic ---------- *)
Lemma zget_None_keys {V} (d : list (Z * V)) n : zget d n = None <-> ~ In n (keys d).
Proof.
  induction d as [|[k v] d IH]; cbn.
  - tauto.
  - destruct (Z.eqb_spec n k).
    + subst. split; [discriminate | intros H; exfalso; apply H; left; reflexivity].
    + rewrite IH. split; [intros H [E|E]; [congruence|tauto] | tauto].
Qed.

Lemma zget_Some_In {V} (d : list (Z * V)) n v : zget d n = Some v -> In (n, v) d.
Proof.
  induction d as [|[k w] d IH]; cbn; [discriminate|].
  destruct (Z.eqb_spec n k); intros H.
  - inversion H; subst. left; reflexivity.
  - right. apply IH, H.
Qed.

Lemma zget_map_snd {V W} (f : V -> W) (d : list (Z * V)) n :
  zget (map (fun e => (fst e, f (snd e))) d) n = option_map f (zget d n).
Proof.
  induction d as [|[k v] d IH]; cbn; [reflexivity|]. destruct (n =? k); [reflexivity | exact IH].
Qed.

Lemma keys_map_snd {V W} (f : V -> W) (d : list (Z * V)) : keys (map (fun e => (fst e, f (snd e))) d) = keys d.
Proof. unfold keys. rewrite map_map. reflexivity. Qed.

Lemma list_eqb_Z_true a b : list_eqb Z.eqb a b = true <-> a = b.
Proof.
  revert b. induction a as [|x a IH]; intros [|y b]; cbn; split; intros H; try discriminate; try reflexivity.
  - apply andb_prop in H. destruct H as [H1 H2]. apply Z.eqb_eq in H1. apply IH in H2. congruence.
  - inversion H; subst. rewrite Z.eqb_refl. apply IH. reflexivity.
Qed.

(* ---------- atoms_rings ---------- *)
Definition lookup {V} (d : list (Z * list V)) (n : Z) : list V := match zget d n with Some l => l | None => [] end.
Definition nonempty_vals {V} (d : list (Z * list V)) : Prop := forall k l, zget d k = Some l -> l <> [].

Lemma zget_dd_append {V} (d : list (Z * list V)) k (x : V) n :
  zget (dd_append d k x) n = if n =? k then Some (lookup d k ++ [x]) else zget d n.
Proof.
  unfold lookup. induction d as [|[k' w] d IH]; cbn.
  - destruct (n =? k); reflexivity.
  - destruct (Z.eqb_spec k k') as [E|E].
    + subst k'. cbn. destruct (Z.eqb_spec n k); reflexivity.
    + cbn. destruct (Z.eqb_spec n k') as [E2|E2].
      * subst k'. destruct (Z.eqb_spec n k); [congruence | reflexivity].
      * rewrite IH. reflexivity.
Qed.

Lemma nonempty_dd_append {V} (d : list (Z * list V)) k (x : V) : nonempty_vals d -> nonempty_vals (dd_append d k x).
Proof.
  intros H n l. rewrite zget_dd_append. destruct (n =? k).
  - intros E. inversion E. destruct (lookup d k); discriminate.
  - apply H.
Qed.

Lemma lookup_dd_append {V} (d : list (Z * list V)) k (x : V) n :
  lookup (dd_append d k x) n = if n =? k then lookup d n ++ [x] else lookup d n.
Proof.
  unfold lookup at 1. rewrite zget_dd_append. destruct (Z.eqb_spec n k); [subst; reflexivity | reflexivity].
Qed.

Definition add_ring (d : list (Z * list ring)) (r : ring) (ns : list Z) := fold_left (fun d n => dd_append d n r) ns d.

Lemma add_ring_spec ns : forall d r n r',
  In r' (lookup (add_ring d r ns) n) <-> In r' (lookup d n) \/ (r' = r /\ In n ns).
Proof.
  induction ns as [|a ns IH]; intros d r n r'; cbn.
  - tauto.
  - unfold add_ring in IH. rewrite IH. rewrite lookup_dd_append. destruct (Z.eqb_spec n a).
    + subst. rewrite in_app_iff. cbn. intuition.
    + intuition congruence.
Qed.

Lemma add_ring_nonempty ns : forall d r, nonempty_vals d -> nonempty_vals (add_ring d r ns).
Proof.
  induction ns as [|a ns IH]; intros d r H; cbn; [exact H|]. apply IH. apply nonempty_dd_append. exact H.
Qed.

Definition atoms_rings_from (d : list (Z * list ring)) (sssr : list ring) :=
  fold_left (fun d r => fold_left (fun d n => dd_append d n r) r d) sssr d.

Lemma atoms_rings_from_spec sssr : forall d n r',
  In r' (lookup (atoms_rings_from d sssr) n) <-> In r' (lookup d n) \/ (In r' sssr /\ In n r').
Proof.
  induction sssr as [|r sssr IH]; intros d n r'; cbn.
  - tauto.
  - unfold atoms_rings_from in IH. rewrite IH. pose proof (add_ring_spec r d r n r') as A. unfold add_ring in A. rewrite A.
    intuition (subst; auto).
Qed.

Lemma atoms_rings_from_nonempty sssr : forall d, nonempty_vals d -> nonempty_vals (atoms_rings_from d sssr).
Proof.
  induction sssr as [|r sssr IH]; intros d H; cbn; [exact H|]. apply IH. apply (add_ring_nonempty r d r H).
Qed.

Lemma atoms_rings_spec sssr n r : In r (lookup (atoms_rings sssr) n) <-> In r sssr /\ In n r.
Proof.
  change (atoms_rings sssr) with (atoms_rings_from [] sssr). rewrite atoms_rings_from_spec. cbn. tauto.
Qed.

Lemma atoms_rings_nonempty sssr : nonempty_vals (atoms_rings sssr).
Proof. apply (atoms_rings_from_nonempty sssr []). intros k l H. discriminate. Qed.

Lemma atoms_rings_key sssr n : In n (keys (atoms_rings sssr)) <-> exists r, In r sssr /\ In n r.
Proof.
  split.
  - intros H. destruct (zget (atoms_rings sssr) n) as [l|] eqn:E.
    + pose proof (atoms_rings_nonempty sssr n l E) as NE. destruct l as [|r l]; [congruence|].
      exists r. apply atoms_rings_spec. unfold lookup. rewrite E. left; reflexivity.
    + apply zget_None_keys in E. contradiction.
  - intros [r Hr]. apply atoms_rings_spec in Hr. unfold lookup in Hr.
    destruct (zget (atoms_rings sssr) n) eqn:E; [|destruct Hr].
    destruct (in_dec Z.eq_dec n (keys (atoms_rings sssr))) as [I|I]; [exact I|].
    apply zget_None_keys in I. congruence.
Qed.

(* ---------- sets ---------- *)
Lemma set_of_z_In l x : In x (set_of_z l) <-> In x l.
Proof.
  induction l as [|a l IH]; cbn; [tauto|]. rewrite filter_In, IH. rewrite negb_true_iff, Z.eqb_neq.
  destruct (Z.eq_dec a x); intuition congruence.
Qed.

Lemma set_of_z_NoDup l : NoDup (set_of_z l).
Proof.
  induction l as [|a l IH]; cbn; constructor.
  - rewrite filter_In. rewrite Z.eqb_refl. cbn. intros [_ H]. discriminate.
  - apply NoDup_filter. exact IH.
Qed.

(* ---------- the marks ---------- *)
Theorem atom_in_ring_spec sssr n : atom_in_ring sssr n = true <-> exists r, In r sssr /\ In n r.
Proof.
  unfold atom_in_ring, atoms_rings_sizes. rewrite (keys_map_snd (fun l => set_of_z (map zlen l))), zmem_In. apply atoms_rings_key.
Qed.

Theorem atom_ring_sizes_spec sssr n k :
  In k (atom_ring_sizes sssr n) <-> exists r, In r sssr /\ In n r /\ zlen r = k.
Proof.
  unfold atom_ring_sizes, atoms_rings_sizes. rewrite (zget_map_snd (fun l => set_of_z (map zlen l))).
  pose proof (atoms_rings_spec sssr n) as S. unfold lookup in S.
  destruct (zget (atoms_rings sssr) n) as [l|]; cbn.
  - rewrite set_of_z_In, in_map_iff. split.
    + intros [r [E I]]. exists r. apply S in I. tauto.
    + intros [r [I1 [I2 E]]]. exists r. split; [exact E|]. apply S. tauto.
  - split; [tauto|]. intros [r [I1 [I2 _]]]. destruct (proj2 (S r) (conj I1 I2)).
Qed.

Theorem atom_ring_sizes_NoDup sssr n : NoDup (atom_ring_sizes sssr n).
Proof.
  unfold atom_ring_sizes, atoms_rings_sizes. rewrite (zget_map_snd (fun l => set_of_z (map zlen l))).
  destruct (zget (atoms_rings sssr) n); cbn; [apply set_of_z_NoDup | constructor].
Qed.

Theorem bond_in_ring_spec sssr n m :
  bond_in_ring sssr n m = true <-> exists r, In r sssr /\ In n r /\ In m r.
Proof.
  unfold bond_in_ring.
  pose proof (atoms_rings_spec sssr n) as Sn. pose proof (atoms_rings_spec sssr m) as Sm. unfold lookup in Sn, Sm.
  assert (G : forall anr amr, (forall r, In r anr <-> In r sssr /\ In n r) -> (forall r, In r amr <-> In r sssr /\ In m r) ->
     (existsb (fun r => existsb (ring_eqb r) amr) anr = true <-> exists r, In r sssr /\ In n r /\ In m r)).
  { intros anr amr Hn Hm. rewrite existsb_exists. split.
    - intros [r [I E]]. rewrite existsb_exists in E. destruct E as [r2 [I2 E]]. apply list_eqb_Z_true in E. subst r2.
      exists r. apply Hn in I. apply Hm in I2. tauto.
    - intros [r [I1 [I2 I3]]]. exists r. split; [apply Hn; tauto|]. rewrite existsb_exists. exists r.
      split; [apply Hm; tauto | apply list_eqb_Z_true; reflexivity]. }
  destruct (zget (atoms_rings sssr) n) as [anr|].
  - destruct (zget (atoms_rings sssr) m) as [amr|].
    + destruct anr as [|a anr].
      * split; [discriminate|]. intros [r [I1 [I2 _]]]. destruct (proj2 (Sn r) (conj I1 I2)).
      * destruct amr as [|b amr].
        -- split; [discriminate|]. intros [r [I1 [_ I2]]]. destruct (proj2 (Sm r) (conj I1 I2)).
        -- apply G; assumption.
    + assert (F : ~ exists r, In r sssr /\ In n r /\ In m r) by (intros [r [I1 [_ I2]]]; destruct (proj2 (Sm r) (conj I1 I2))).
      destruct anr; split; try discriminate; intros H; exfalso; apply F, H.
  - split; [discriminate|]. intros [r [I1 [I2 _]]]. destruct (proj2 (Sn r) (conj I1 I2)).
Qed.

(* what calc_labels stores on a bond: special (order 8) bonds are never in a ring, any other bond is marked exactly
   when its two ends lie in one common ring of the list *)
Theorem bond_label_spec sssr n mb :
  bond_label sssr n mb = true <-> b_ord (snd mb) <> 8 /\ exists r, In r sssr /\ In n r /\ In (fst mb) r.
Proof.
  unfold bond_label. destruct (Z.eqb_spec (b_ord (snd mb)) 8) as [E|E].
  - split; [discriminate | intros [H _]; contradiction].
  - rewrite bond_in_ring_spec. tauto.
Qed.

Lemma bool_eq_iff (a b : bool) : (a = true <-> b = true) -> a = b.
Proof. destruct a, b; intros [H1 H2]; try reflexivity; [symmetry; apply H1; reflexivity | apply H2; reflexivity]. Qed.

(* the two directions n->m and m->n of one bond (same order) get the same mark *)
Theorem bond_label_sym sssr n m b : bond_label sssr n (m, b) = bond_label sssr m (n, b).
Proof.
  apply bool_eq_iff. rewrite !bond_label_spec. cbn [fst snd].
  split; intros [H [r [I1 [I2 I3]]]]; (split; [exact H | exists r; tauto]).
Qed.

(* every entry calc_labels writes: the mark of the directed bond n->m of the molecule *)
Theorem ring_labels_bonds_spec g sssr n m v : In (n, m, v) (snd (ring_labels g sssr)) <->
  exists l b, In (n, l) (m_adj g) /\ In (m, b) l /\ v = bond_label sssr n (m, b).
Proof.
  unfold ring_labels. cbn [snd]. rewrite in_flat_map. split.
  - intros [[n' l] [I H]]. cbn [fst snd] in H. apply in_map_iff in H. destruct H as [[m' b] [E J]]. cbn [fst] in E.
    inversion E; subst. exists l, b. tauto.
  - intros [l [b [I [J E]]]]. exists (n, l). split; [exact I|]. cbn [fst snd]. apply in_map_iff. exists (m, b).
    split; [cbn [fst]; subst v; reflexivity | exact J].
Qed.

(* ---------- GF(2) vectors ---------- *)
Lemma bit_nil i : bit [] i = false.
Proof. unfold bit. destruct i; reflexivity. Qed.

Lemma bit_vxor a : forall b i, bit (vxor a b) i = xorb (bit a i) (bit b i).
Proof.
  induction a as [|x a IH]; intros b i.
  - cbn [vxor]. rewrite bit_nil. destruct (bit b i); reflexivity.
  - destruct b as [|y b].
    + cbn [vxor]. rewrite bit_nil, xorb_false_r. reflexivity.
    + cbn [vxor]. destruct i as [|i]; [reflexivity|]. unfold bit in *. cbn [nth]. apply IH.
Qed.

Lemma first_set_None v : first_set v = None -> forall i, bit v i = false.
Proof.
  induction v as [|x v IH]; intros H i.
  - apply bit_nil.
  - destruct x; cbn in H; [discriminate|]. destruct (first_set v) eqn:E; [discriminate|].
    destruct i as [|i]; [reflexivity|]. unfold bit in *. cbn [nth]. apply IH. reflexivity.
Qed.

Lemma first_set_Some v : forall p, first_set v = Some p -> bit v p = true.
Proof.
  induction v as [|x v IH]; intros p H; [discriminate|].
  destruct x; cbn in H.
  - inversion H. reflexivity.
  - destruct (first_set v) eqn:E; [|discriminate]. inversion H. unfold bit in *. cbn [nth]. apply IH. reflexivity.
Qed.

(* pointwise combination: the parity, at position i, of the selected vectors *)
Fixpoint comb_bit (sel : list bool) (vs : list vec) (i : nat) : bool :=
  match sel, vs with
  | s :: sel', v :: vs' => xorb (s && bit v i) (comb_bit sel' vs' i)
  | _, _ => false
  end.

Definition xsel (a b : list bool) : list bool := map (fun p => xorb (fst p) (snd p)) (combine a b).
Definition all_false (l : list bool) : Prop := forall s, In s l -> s = false.

Lemma comb_bit_xsel a : forall b vs i, length a = length vs -> length b = length vs ->
  comb_bit (xsel a b) vs i = xorb (comb_bit a vs i) (comb_bit b vs i).
Proof.
  induction a as [|x a IH]; intros b vs i Ha Hb.
  - destruct vs; [|discriminate]. destruct b; reflexivity.
  - destruct vs as [|v vs]; [discriminate|]. destruct b as [|y b]; [discriminate|].
    change (xsel (x :: a) (y :: b)) with (xorb x y :: xsel a b). cbn [comb_bit]. rewrite IH by (cbn in *; lia).
    destruct x, y, (bit v i), (comb_bit a vs i), (comb_bit b vs i); reflexivity.
Qed.

Lemma comb_bit_app a : forall vs s v i, length a = length vs ->
  comb_bit (a ++ [s]) (vs ++ [v]) i = xorb (comb_bit a vs i) (s && bit v i).
Proof.
  induction a as [|x a IH]; intros vs s v i H.
  - destruct vs; [|discriminate]. cbn. destruct (s && bit v i); reflexivity.
  - destruct vs as [|w vs]; [discriminate|]. cbn [app comb_bit]. rewrite IH by (cbn in H; lia).
    destruct (x && bit w i), (comb_bit a vs i), (s && bit v i); reflexivity.
Qed.

Lemma comb_bit_all_false sel : forall vs i, all_false sel -> comb_bit sel vs i = false.
Proof.
  induction sel as [|s sel IH]; intros vs i H; [reflexivity|]. destruct vs as [|v vs]; [reflexivity|].
  cbn [comb_bit]. rewrite (H s) by (left; reflexivity). rewrite andb_false_l, xorb_false_l. apply IH. intros t Ht. apply H. right. exact Ht.
Qed.

Lemma comb_bit_zero_col sel : forall vs i, (forall v, In v vs -> bit v i = false) -> comb_bit sel vs i = false.
Proof.
  induction sel as [|s sel IH]; intros vs i H; [reflexivity|]. destruct vs as [|v vs]; [reflexivity|].
  cbn [comb_bit]. rewrite (H v) by (left; reflexivity). rewrite andb_false_r, xorb_false_l. apply IH. intros w Hw. apply H. right. exact Hw.
Qed.

(* echelon: every row has its pivot bit set, and all LATER rows have that bit clear *)
Fixpoint echelon (B : list (nat * vec)) : Prop :=
  match B with
  | [] => True
  | (p, b) :: B' => bit b p = true /\ (forall q c, In (q, c) B' -> bit c p = false) /\ echelon B'
  end.

Lemma echelon_indep B : echelon B -> forall sel, length sel = length B ->
  (forall i, comb_bit sel (map snd B) i = false) -> all_false sel.
Proof.
  induction B as [|[p b] B IH]; intros E sel L Z.
  - destruct sel; [|discriminate]. intros s [].
  - destruct sel as [|s sel]; [discriminate|]. destruct E as [E1 [E2 E3]].
    assert (S0 : s = false).
    { specialize (Z p). cbn [map snd comb_bit] in Z. rewrite E1, andb_true_r in Z.
      rewrite comb_bit_zero_col in Z; [rewrite xorb_false_r in Z; exact Z|].
      intros v Hv. apply in_map_iff in Hv. destruct Hv as [[q c] [Eq Hc]]. cbn in Eq. subst c. apply (E2 q v Hc). }
    subst s. intros t [Ht|Ht]; [symmetry; exact Ht|].
    apply (IH E3 sel); [cbn in L; lia | | exact Ht].
    intros i. specialize (Z i). cbn [map snd comb_bit] in Z. rewrite andb_false_l, xorb_false_l in Z. exact Z.
Qed.

Lemma echelon_app B p v : echelon B -> bit v p = true -> (forall q c, In (q, c) B -> bit v q = false) ->
  echelon (B ++ [(p, v)]).
Proof.
  induction B as [|[q c] B IH]; intros E Hp Hz; cbn.
  - repeat split; [exact Hp | intros ? ? []].
  - destruct E as [E1 [E2 E3]]. repeat split.
    + exact E1.
    + intros q' c' H. apply in_app_iff in H. destruct H as [H|[H|[]]].
      * apply (E2 q' c' H).
      * inversion H; subst. apply (Hz q c). left; reflexivity.
    + apply IH; [exact E3 | exact Hp |]. intros q' c' H. apply (Hz q' c'). right. exact H.
Qed.

(* reduce B v = v xor a combination of the rows of B ; and it clears every pivot of an echelon B *)
Lemma reduce_comb B : forall v, exists t, length t = length B /\
  forall i, bit (reduce B v) i = xorb (bit v i) (comb_bit t (map snd B) i).
Proof.
  induction B as [|[p b] B IH]; intros v.
  - exists []. split; [reflexivity|]. intros i. cbn. rewrite xorb_false_r. reflexivity.
  - unfold reduce. cbn [fold_left fst snd]. destruct (bit v p) eqn:Bp.
    + destruct (IH (vxor v b)) as [t [Lt Ht]]. exists (true :: t). split; [cbn; lia|]. intros i.
      unfold reduce in Ht. rewrite Ht, bit_vxor. cbn [map snd comb_bit]. rewrite andb_true_l.
      destruct (bit v i), (bit b i), (comb_bit t (map snd B) i); reflexivity.
    + destruct (IH v) as [t [Lt Ht]]. exists (false :: t). split; [cbn; lia|]. intros i.
      unfold reduce in Ht. rewrite Ht. cbn [map snd comb_bit]. rewrite andb_false_l, xorb_false_l. reflexivity.
Qed.

Lemma reduce_keeps_zero B : forall v q, bit v q = false -> (forall p c, In (p, c) B -> bit c q = false) ->
  bit (reduce B v) q = false.
Proof.
  induction B as [|[p b] B IH]; intros v q Hv Hz; [exact Hv|].
  unfold reduce. cbn [fold_left fst snd]. apply IH.
  - destruct (bit v p); [|exact Hv]. rewrite bit_vxor, Hv, (Hz p b) by (left; reflexivity). reflexivity.
  - intros p' c H. apply (Hz p' c). right. exact H.
Qed.

Lemma reduce_clears B : forall v, echelon B -> forall q c, In (q, c) B -> bit (reduce B v) q = false.
Proof.
  induction B as [|[p b] B IH]; intros v E q c H; [destruct H|].
  destruct E as [E1 [E2 E3]]. unfold reduce. cbn [fold_left fst snd]. destruct H as [H|H].
  - inversion H; subst q c. apply reduce_keeps_zero.
    + destruct (bit v p) eqn:Bv; [rewrite bit_vxor, Bv, E1; reflexivity | exact Bv].
    + intros p' c' H'. apply (E2 p' c' H').
  - apply (IH _ E3 q c H).
Qed.

Lemma comb_bit_scale s t : forall l i, comb_bit (map (fun x => s && x) t) l i = s && comb_bit t l i.
Proof.
  induction t as [|x t IHt]; intros l i; cbn [map comb_bit].
  - destruct s; reflexivity.
  - destruct l as [|w l]; [destruct s; reflexivity|]. rewrite IHt.
    destruct s, x, (bit w i), (comb_bit t l i); reflexivity.
Qed.

Lemma xsel_all_false_r a : forall b, length a = length b -> all_false b -> xsel a b = a.
Proof.
  induction a as [|x a IH]; intros b L H; [reflexivity|]. destruct b as [|y b]; [discriminate|].
  change (xsel (x :: a) (y :: b)) with (xorb x y :: xsel a b).
  rewrite (H y) by (left; reflexivity). rewrite xorb_false_r. f_equal. apply IH; [cbn in L; lia|].
  intros z Hz. apply H. right. exact Hz.
Qed.

(* the generalised invariant of the elimination *)
Lemma elim_sound vs : forall B, echelon B -> elim B vs = true ->
  forall selB selV, length selB = length B -> length selV = length vs ->
  (forall i, xorb (comb_bit selB (map snd B) i) (comb_bit selV vs i) = false) ->
  all_false selB /\ all_false selV.
Proof.
  induction vs as [|v vs IH]; intros B E H selB selV LB LV Z.
  - destruct selV; [|discriminate]. split; [|intros s []].
    apply (echelon_indep B E selB LB). intros i. specialize (Z i). cbn in Z.
    destruct selB; cbn in Z |- *; rewrite ?xorb_false_r in Z; exact Z.
  - destruct selV as [|s selV]; [discriminate|]. cbn [elim] in H.
    destruct (first_set (reduce B v)) as [p|] eqn:F; [|discriminate].
    destruct (reduce_comb B v) as [t [Lt Ht]].
    assert (E' : echelon (B ++ [(p, reduce B v)])).
    { apply echelon_app; [exact E | apply first_set_Some; exact F |]. intros q c Hq. apply (reduce_clears B v E q c Hq). }
    set (t' := map (fun x => s && x) t).
    assert (Lt' : length t' = length B) by (unfold t'; rewrite map_length; exact Lt).
    specialize (IH _ E' H (xsel selB t' ++ [s]) selV).
    assert (Lx : length (xsel selB t') = length B).
    { unfold xsel. rewrite map_length, combine_length. lia. }
    destruct IH as [A1 A2].
    + rewrite app_length, app_length. cbn. lia.
    + cbn in LV. lia.
    + intros i. rewrite map_app. cbn [map snd]. rewrite comb_bit_app by (rewrite map_length; exact Lx).
      rewrite comb_bit_xsel by (rewrite map_length; assumption).
      specialize (Z i). cbn [comb_bit] in Z. rewrite Ht.
      assert (T : comb_bit t' (map snd B) i = s && comb_bit t (map snd B) i) by (unfold t'; apply comb_bit_scale).
      rewrite T.
      destruct (comb_bit selB (map snd B) i), s, (bit v i), (comb_bit t (map snd B) i), (comb_bit selV vs i); cbn in *; congruence.
    + assert (S0 : s = false) by (apply A1; apply in_or_app; right; left; reflexivity).
      split.
      * assert (X : xsel selB t' = selB).
        { apply xsel_all_false_r; [lia|]. unfold t'. subst s. intros y Hy. apply in_map_iff in Hy.
          destruct Hy as [z [Hz _]]. symmetry. exact Hz. }
        intros x Hx. apply A1. apply in_or_app. left. rewrite X. exact Hx.
      * intros x [Hx|Hx]; [subst x; exact S0 | apply A2; exact Hx].
Qed.

(* ---------- from the elimination to the statement about rings ---------- *)
Lemma bounded_search (f : nat -> bool) n :
  (exists i, (i < n)%nat /\ f i = true) \/ (forall i, (i < n)%nat -> f i = false).
Proof.
  induction n as [|n IH].
  - right. intros i H. lia.
  - destruct IH as [[i [Hi Fi]]|IH].
    + left. exists i. split; [lia | exact Fi].
    + destruct (f n) eqn:Fn.
      * left. exists n. split; [lia | exact Fn].
      * right. intros i Hi. destruct (Nat.eq_dec i n); [subst; exact Fn | apply IH; lia].
Qed.

Lemma bit_beyond v i : (length v <= i)%nat -> bit v i = false.
Proof. intros H. unfold bit. apply nth_overflow. exact H. Qed.

Lemma comb_bit_beyond sel : forall vs n i, (forall v, In v vs -> length v = n) -> (n <= i)%nat -> comb_bit sel vs i = false.
Proof.
  intros vs n i H L. apply comb_bit_zero_col. intros v Hv. apply bit_beyond. rewrite (H v Hv). exact L.
Qed.

Theorem independent_b_sound vs n : (forall v, In v vs -> length v = n) -> independent_b vs = true ->
  forall sel, length sel = length vs -> existsb (fun s => s) sel = true ->
  exists i, (i < n)%nat /\ comb_bit sel vs i = true.
Proof.
  intros Hn H sel L Ex.
  destruct (bounded_search (comb_bit sel vs) n) as [W|Z]; [exact W|]. exfalso.
  assert (A : all_false [] /\ all_false sel).
  { apply (elim_sound vs [] I H [] sel eq_refl L). intros i. cbn [map comb_bit]. rewrite xorb_false_l.
    destruct (Nat.lt_ge_cases i n) as [Lt|Ge]; [apply Z; exact Lt | apply (comb_bit_beyond sel vs n i Hn Ge)]. }
  destruct A as [_ A]. rewrite existsb_exists in Ex. destruct Ex as [s [Hs Ts]]. rewrite (A s Hs) in Ts. discriminate.
Qed.

(* parity, at edge e, of the selected rings: e lies in an odd number of them *)
Fixpoint sel_parity (sel : list bool) (rs : list ring) (e : Z * Z) : bool :=
  match sel, rs with
  | s :: sel', r :: rs' => xorb (s && ring_has_edge r e) (sel_parity sel' rs' e)
  | _, _ => false
  end.

Lemma comb_bit_ring_vec g sel : forall rs i d, (i < length (edges g))%nat ->
  comb_bit sel (map (ring_vec g) rs) i = sel_parity sel rs (nth i (edges g) d).
Proof.
  induction sel as [|s sel IH]; intros rs i d Hi; [reflexivity|].
  destruct rs as [|r rs]; [reflexivity|]. cbn [map comb_bit sel_parity]. rewrite (IH rs i d Hi). f_equal. f_equal.
  unfold bit, ring_vec. rewrite (nth_indep _ false (ring_has_edge r d)) by (rewrite map_length; exact Hi).
  apply map_nth.
Qed.

(* ---------- cycles ---------- *)
Definition adjacent (g : graph) (a b : Z) : Prop := In b (gnbrs g a) /\ In a (gnbrs g b).
Definition is_cycle (g : graph) (r : ring) : Prop :=
  (3 <= length r)%nat /\ NoDup r /\ forall a b, In (a, b) (ring_pairs r) -> adjacent g a b.

Lemma nodup_z_NoDup l : nodup_z l = true <-> NoDup l.
Proof.
  induction l as [|x l IH]; cbn.
  - split; [constructor | reflexivity].
  - rewrite andb_true_iff, negb_true_iff, IH. split.
    + intros [H1 H2]. constructor; [|exact H2]. intros I. apply zmem_In in I. congruence.
    + intros H. inversion H; subst. split; [|assumption]. destruct (zmem x l) eqn:E; [|reflexivity].
      apply zmem_In in E. contradiction.
Qed.

Lemma has_edge_adjacent g a b : has_edge g a b = true <-> adjacent g a b.
Proof. unfold has_edge, adjacent. rewrite andb_true_iff, !zmem_In. tauto. Qed.

Lemma simple_cycle_b_sound g r : simple_cycle_b g r = true <-> is_cycle g r.
Proof.
  unfold simple_cycle_b, is_cycle. rewrite !andb_true_iff, Nat.leb_le, nodup_z_NoDup, forallb_forall. split.
  - intros [[H1 H2] H3]. split; [exact H1|]. split; [exact H2|]. intros a b H. apply has_edge_adjacent. apply (H3 (a, b) H).
  - intros [H1 [H2 H3]]. split; [split; assumption|]. intros [a b] H. apply has_edge_adjacent. apply H3. exact H.
Qed.

(* ---------- well-formed graphs ---------- *)
Definition gwf (g : graph) : Prop :=
  NoDup (keys g) /\
  forall n ms, In (n, ms) g -> NoDup ms /\ forall m, In m ms -> m <> n /\ In m (keys g) /\ In n (gnbrs g m).

Lemma gwf_b_sound g : gwf_b g = true <-> gwf g.
Proof.
  unfold gwf_b, gwf. rewrite andb_true_iff, nodup_z_NoDup, forallb_forall. split.
  - intros [H1 H2]. split; [exact H1|]. intros n ms H. specialize (H2 (n, ms) H). cbn [fst snd] in H2.
    rewrite andb_true_iff, nodup_z_NoDup, forallb_forall in H2. destruct H2 as [H2 H3]. split; [exact H2|].
    intros m Hm. specialize (H3 m Hm). rewrite !andb_true_iff, negb_true_iff, Z.eqb_neq, !zmem_In in H3. tauto.
  - intros [H1 H2]. split; [exact H1|]. intros [n ms] H. cbn [fst snd]. destruct (H2 n ms H) as [H3 H4].
    rewrite andb_true_iff, nodup_z_NoDup, forallb_forall. split; [exact H3|]. intros m Hm.
    rewrite !andb_true_iff, negb_true_iff, Z.eqb_neq, !zmem_In. specialize (H4 m Hm). tauto.
Qed.

Lemma gnbrs_In g n m : In m (gnbrs g n) -> exists ms, In (n, ms) g /\ In m ms.
Proof.
  unfold gnbrs. destruct (zget g n) as [ms|] eqn:E; [|intros []]. intros H. exists ms. split; [|exact H].
  apply zget_Some_In. exact E.
Qed.

Lemma In_edges g a b : In (a, b) (edges g) <-> exists ms, In (a, ms) g /\ In b ms /\ a < b.
Proof.
  unfold edges. rewrite in_flat_map. split.
  - intros [[n ms] [H1 H2]]. cbn [fst snd] in H2. apply in_map_iff in H2. destruct H2 as [m [E H2]].
    inversion E; subst. apply filter_In in H2. destruct H2 as [H2 H3]. exists ms. apply Z.ltb_lt in H3. tauto.
  - intros [ms [H1 [H2 H3]]]. exists (a, ms). split; [exact H1|]. cbn [fst snd]. apply in_map_iff. exists b.
    split; [reflexivity|]. apply filter_In. split; [exact H2 | apply Z.ltb_lt; exact H3].
Qed.

(* every edge of a cycle of g is one of the listed edges of g: the incidence vectors lose nothing *)
Lemma ring_edges_in_graph g r : gwf g -> is_cycle g r -> forall p, In p (ring_pairs r) -> In (norm_edge p) (edges g).
Proof.
  intros [_ W] [_ [_ A]] [a b] H. destruct (A a b H) as [H1 H2].
  apply gnbrs_In in H1. apply gnbrs_In in H2. destruct H1 as [ms1 [I1 J1]]. destruct H2 as [ms2 [I2 J2]].
  unfold norm_edge. cbn [fst snd]. destruct (Z.ltb_spec a b) as [L|L].
  - apply In_edges. exists ms1. tauto.
  - apply In_edges. exists ms2. repeat split; try assumption.
    destruct (W a ms1 I1) as [_ W1]. destruct (W1 b J1) as [Ne _]. lia.
Qed.

Theorem basis_checker_sound g rs : is_cycle_basis g rs = true ->
  gwf g /\
  Forall (is_cycle g) rs /\
  (forall sel, length sel = length rs -> existsb (fun s => s) sel = true ->
     exists e, In e (edges g) /\ sel_parity sel rs e = true) /\
  Z.of_nat (length rs) =
    Z.of_nat (length (edges g)) - Z.of_nat (length g) + Z.of_nat (length (components_order g (keys g))).
Proof.
  unfold is_cycle_basis. rewrite !andb_true_iff. intros [[[H1 H2] H3] H4].
  split; [apply gwf_b_sound; exact H1|]. split.
  - apply Forall_forall. intros r Hr. rewrite forallb_forall in H2. apply simple_cycle_b_sound. apply H2. exact Hr.
  - split; [|apply Z.eqb_eq in H3; exact H3].
    intros sel L Ex.
    destruct (independent_b_sound (map (ring_vec g) rs) (length (edges g))) with (sel := sel) as [i [Hi Ci]].
    + intros v Hv. apply in_map_iff in Hv. destruct Hv as [r [E _]]. subst v. unfold ring_vec. apply map_length.
    + exact H4.
    + rewrite map_length. exact L.
    + exact Ex.
    + exists (nth i (edges g) (0, 0)). split; [apply nth_In; exact Hi|].
      rewrite <- (comb_bit_ring_vec g sel rs i (0, 0) Hi). exact Ci.
Qed.
(* ---------- cycles: every atom of a cycle has two distinct neighbours ---------- *)
Lemma seq_pairs_mid x : forall p q y, In (p, q) (seq_pairs (x ++ p :: q :: y)).
Proof.
  induction x as [|a x IH]; intros p q y.
  - left. reflexivity.
  - cbn [app]. specialize (IH p q y). destruct (x ++ p :: q :: y) as [|b t] eqn:E.
    + destruct IH.
    + cbn [seq_pairs]. right. exact IH.
Qed.

Lemma In_seq_pairs_In l : forall p q, In (p, q) (seq_pairs l) -> In p l /\ In q l.
Proof.
  induction l as [|a l IH]; intros p q H; [destruct H|].
  destruct l as [|b t]; [destruct H|]. cbn [seq_pairs] in H. destruct H as [H|H].
  - inversion H; subst. split; [left; reflexivity | right; left; reflexivity].
  - destruct (IH p q H) as [H1 H2]. split; right; assumption.
Qed.

Lemma In_ring_pairs_In r p q : In (p, q) (ring_pairs r) -> In p r /\ In q r.
Proof.
  destruct r as [|h t]; [intros []|]. unfold ring_pairs. intros H. apply In_seq_pairs_In in H.
  destruct H as [H1 H2]. split.
  - apply in_app_or in H1. destruct H1 as [H1|[H1|[]]]; [exact H1 | subst; left; reflexivity].
  - apply in_app_or in H2. destruct H2 as [H2|[H2|[]]]; [exact H2 | subst; left; reflexivity].
Qed.

Lemma NoDup_before_after (l1 l2 : list Z) p q : NoDup (l1 ++ p :: l2) -> In q l2 -> p <> q.
Proof.
  intros N I E. subst q. apply NoDup_remove_2 in N. apply N. apply in_or_app. right. exact I.
Qed.

Lemma cycle_two_neighbours r v : NoDup r -> (3 <= length r)%nat -> In v r ->
  exists p q, p <> q /\ In (p, v) (ring_pairs r) /\ In (v, q) (ring_pairs r).
Proof.
  intros N L I. destruct (in_split v r I) as [x [y E]]. subst r.
  destruct x as [|h x0].
  - (* v is the head *) cbn [app] in *. destruct y as [|q y']; [cbn in L; lia|].
    assert (NE : q :: y' <> []) by discriminate. destruct (exists_last NE) as [y2 [p Ey]].
    exists p, q. split; [|split].
    + (* p is the last, q the second *) destruct y2 as [|q2 y3].
      * cbn in Ey. inversion Ey; subst. cbn in L. lia.
      * cbn in Ey. inversion Ey; subst q2 y'. inversion N as [|? ? _ N1]; subst. inversion N1 as [|? ? N2 _]; subst.
        intros E. subst p. apply N2. apply in_or_app. right. left. reflexivity.
    + unfold ring_pairs. rewrite Ey. replace ((v :: y2 ++ [p]) ++ [v]) with ((v :: y2) ++ p :: v :: []).
      * apply seq_pairs_mid.
      * cbn. rewrite <- app_assoc. reflexivity.
    + unfold ring_pairs. change ((v :: q :: y') ++ [v]) with ([] ++ v :: q :: (y' ++ [v])). apply seq_pairs_mid.
  - (* v is not the head *) remember (h :: x0) as x eqn:Hx.
    assert (RP : ring_pairs (x ++ v :: y) = seq_pairs ((x ++ v :: y) ++ [h])) by (subst x; reflexivity).
    assert (NE : x <> []) by (subst x; discriminate). destruct (exists_last NE) as [x2 [p Ex]].
    destruct y as [|q y'].
    + (* v is the last: successor is the head *) exists p, h. split; [|split].
      * destruct x2 as [|h2 x3].
        -- rewrite Ex in L. cbn in L. lia.
        -- rewrite Ex in Hx. cbn in Hx. inversion Hx; subst h2. rewrite Ex in N. cbn [app] in N.
           inversion N as [|? ? N1 _]; subst. intros E. subst p. apply N1.
           rewrite <- app_assoc. apply in_or_app. right. left. reflexivity.
      * rewrite RP. rewrite Ex.
        replace (((x2 ++ [p]) ++ [v]) ++ [h]) with (x2 ++ p :: v :: [h]) by (rewrite <- !app_assoc; reflexivity).
        apply seq_pairs_mid.
      * rewrite RP.
        replace ((x ++ [v]) ++ [h]) with (x ++ v :: h :: []) by (rewrite <- app_assoc; reflexivity).
        apply seq_pairs_mid.
    + exists p, q. split; [|split].
      * rewrite Ex in N. rewrite <- app_assoc in N. cbn [app] in N.
        apply (NoDup_before_after x2 (v :: q :: y') p q N). right. left. reflexivity.
      * rewrite RP. rewrite Ex.
        replace (((x2 ++ [p]) ++ v :: q :: y') ++ [h]) with (x2 ++ p :: v :: (q :: y' ++ [h])) by (rewrite <- !app_assoc; reflexivity).
        apply seq_pairs_mid.
      * rewrite RP.
        replace ((x ++ v :: q :: y') ++ [h]) with (x ++ v :: q :: (y' ++ [h])) by (rewrite <- app_assoc; reflexivity).
        apply seq_pairs_mid.
Qed.

Lemma two_distinct_length (l : list Z) p q : p <> q -> In p l -> In q l -> (2 <= length l)%nat.
Proof.
  intros Ne Ip Iq. destruct l as [|a l]; [destruct Ip|]. destruct l as [|b l]; [|cbn; lia].
  destruct Ip as [Ip|[]]. destruct Iq as [Iq|[]]. congruence.
Qed.

Lemma cycle_degree g c v : is_cycle g c -> In v c -> (2 <= length (gnbrs g v))%nat.
Proof.
  intros [L [N A]] I. destruct (cycle_two_neighbours c v N L I) as [p [q [Ne [Hp Hq]]]].
  apply (two_distinct_length _ p q Ne); [apply (A p v Hp) | apply (A v q Hq)].
Qed.

(* ---------- _skin_graph ---------- *)
Lemma zget_In_NoDup {V} (d : list (Z * V)) n v : NoDup (keys d) -> In (n, v) d -> zget d n = Some v.
Proof.
  induction d as [|[k w] d IH]; intros N I; [destruct I|]. cbn in N. inversion N as [|? ? Nk Nd]; subst.
  cbn. destruct I as [I|I].
  - inversion I; subst. rewrite Z.eqb_refl. reflexivity.
  - destruct (Z.eqb_spec n k) as [E|E]; [|apply IH; assumption].
    subst k. exfalso. apply Nk. unfold keys. apply in_map_iff. exists (n, v). split; [reflexivity | exact I].
Qed.

Lemma keys_filter_NoDup {V} (f : Z * V -> bool) (d : list (Z * V)) : NoDup (keys d) -> NoDup (keys (filter f d)).
Proof.
  induction d as [|e d IH]; intros N; [constructor|]. cbn in N. inversion N as [|? ? Nk Nd]; subst. cbn.
  destruct (f e); [|apply IH; exact Nd]. cbn. constructor; [|apply IH; exact Nd].
  intros I. apply Nk. unfold keys in *. apply in_map_iff in I. destruct I as [x [Ex Ix]]. apply filter_In in Ix.
  apply in_map_iff. exists x. tauto.
Qed.

Lemma keys_discard_in n g m : keys (discard_in n g m) = keys g.
Proof.
  unfold discard_in, keys. rewrite map_map. apply map_ext. intros [k l]. cbn. destruct (k =? m); reflexivity.
Qed.

Lemma keys_fold_discard_in n ms : forall g, keys (fold_left (discard_in n) ms g) = keys g.
Proof. induction ms as [|m ms IH]; intros g; [reflexivity|]. cbn [fold_left]. rewrite IH. apply keys_discard_in. Qed.

Lemma gnbrs_remove_key n g v : v <> n -> gnbrs (remove_key n g) v = gnbrs g v.
Proof.
  intros Ne. unfold gnbrs, remove_key. induction g as [|[k l] g IH]; [reflexivity|]. cbn.
  destruct (Z.eqb_spec k n) as [E|E]; cbn.
  - subst k. destruct (Z.eqb_spec v n); [congruence | exact IH].
  - destruct (v =? k); [reflexivity | exact IH].
Qed.

Lemma gnbrs_discard_in n g m v x : x <> n -> In x (gnbrs g v) -> In x (gnbrs (discard_in n g m) v).
Proof.
  intros Ne. unfold gnbrs, discard_in. induction g as [|[k l] g IH]; [intros []|]. cbn.
  destruct (Z.eqb_spec k m) as [E|E]; cbn; destruct (v =? k); try exact IH; try tauto.
  intros I. unfold discard. apply filter_In. split; [exact I|]. apply negb_true_iff. apply Z.eqb_neq. exact Ne.
Qed.

Lemma gnbrs_fold_discard_in n ms : forall g v x, x <> n -> In x (gnbrs g v) -> In x (gnbrs (fold_left (discard_in n) ms g) v).
Proof.
  induction ms as [|m ms IH]; intros g v x Ne I; [exact I|]. cbn [fold_left]. apply IH; [exact Ne|]. apply gnbrs_discard_in; assumption.
Qed.

Lemma skin_step_keeps g n ms c : NoDup (keys g) -> find is_terminal g = Some (n, ms) -> is_cycle g c ->
  is_cycle (fold_left (discard_in n) ms (remove_key n g)) c.
Proof.
  intros N F C. apply find_some in F. destruct F as [I T]. unfold is_terminal in T. cbn [snd] in T. apply Nat.leb_le in T.
  assert (Nc : ~ In n c).
  { intros Ic. pose proof (cycle_degree g c n C Ic) as D. unfold gnbrs in D. rewrite (zget_In_NoDup g n ms N I) in D. lia. }
  destruct C as [L [Nd A]]. split; [exact L|]. split; [exact Nd|]. intros a b Hab.
  destruct (In_ring_pairs_In c a b Hab) as [Ia Ib]. destruct (A a b Hab) as [A1 A2].
  assert (Na : a <> n) by (intros E; subst; contradiction). assert (Nb : b <> n) by (intros E; subst; contradiction).
  split; apply gnbrs_fold_discard_in; try assumption; rewrite gnbrs_remove_key by assumption; assumption.
Qed.

Lemma skin_loop_keeps fuel : forall g g' c, NoDup (keys g) -> skin_loop fuel g = Ok g' -> is_cycle g c -> is_cycle g' c.
Proof.
  induction fuel as [|f IH]; intros g g' c N H C; [discriminate|]. cbn [skin_loop] in H.
  destruct (find is_terminal g) as [[n ms]|] eqn:F.
  - destruct (forallb (fun m => zmem m (keys (remove_key n g))) ms); [|discriminate].
    apply (IH _ g' c) in H; [exact H | | apply skin_step_keeps; assumption].
    rewrite keys_fold_discard_in. apply keys_filter_NoDup. exact N.
  - inversion H; subst. exact C.
Qed.

Lemma gnbrs_filter_nonempty g v : NoDup (keys g) -> gnbrs (filter nonempty_entry g) v = gnbrs g v.
Proof.
  unfold gnbrs. induction g as [|[k l] g IH]; intros N; [reflexivity|]. cbn in N. inversion N as [|? ? Nk Nd]; subst.
  cbn [filter]. unfold nonempty_entry at 1. cbn [snd]. destruct l as [|l0 l'].
  - cbn [zget]. destruct (Z.eqb_spec v k) as [E|E]; [|apply IH; exact Nd]. subst k.
    destruct (zget (filter nonempty_entry g) v) eqn:Z; [|reflexivity].
    apply zget_Some_In in Z. apply filter_In in Z. destruct Z as [Z _]. exfalso. apply Nk.
    unfold keys. apply in_map_iff. exists (v, l). split; [reflexivity | exact Z].
  - cbn [zget]. destruct (v =? k); [reflexivity | apply IH; exact Nd].
Qed.

Lemma adjacent_key g a b : In b (gnbrs g a) -> In a (keys g).
Proof.
  unfold gnbrs. destruct (zget g a) eqn:E; [|intros []]. intros _.
  destruct (in_dec Z.eq_dec a (keys g)) as [I|I]; [exact I|]. apply zget_None_keys in I. congruence.
Qed.

(* pruning never touches a cycle: every simple cycle of the input is a simple cycle of the skin graph *)
Theorem skin_keeps_cycles g g' c : NoDup (keys g) -> skin_graph g = Ok g' -> is_cycle g c ->
  is_cycle g' c /\ forall v, In v c -> In v (keys g').
Proof.
  intros N H C. unfold skin_graph in H.
  assert (C' : is_cycle g' c).
  { apply (skin_loop_keeps _ _ g' c) in H; [exact H | apply keys_filter_NoDup; exact N |].
    destruct C as [L [Nd A]]. split; [exact L|]. split; [exact Nd|]. intros a b Hab. destruct (A a b Hab) as [A1 A2].
    split; rewrite gnbrs_filter_nonempty by exact N; assumption. }
  split; [exact C'|]. intros v Iv. pose proof (cycle_degree g' c v C' Iv) as D.
  destruct (gnbrs g' v) as [|x l] eqn:E; [cbn in D; lia|]. apply (adjacent_key g' v x). rewrite E. left. reflexivity.
Qed.

(* what remains has no terminal atom, and only removals happened *)
Lemma skin_loop_no_terminal fuel : forall g g', skin_loop fuel g = Ok g' -> find is_terminal g' = None.
Proof.
  induction fuel as [|f IH]; intros g g' H; [discriminate|]. cbn [skin_loop] in H.
  destruct (find is_terminal g) as [[n ms]|] eqn:F.
  - destruct (forallb (fun m => zmem m (keys (remove_key n g))) ms); [|discriminate]. apply (IH _ _ H).
  - inversion H; subst. exact F.
Qed.

Theorem skin_min_degree g g' : skin_graph g = Ok g' -> forall n ms, In (n, ms) g' -> (2 <= length ms)%nat.
Proof.
  intros H n ms I. apply skin_loop_no_terminal in H.
  pose proof (find_none _ _ H (n, ms) I) as T. unfold is_terminal in T. cbn [snd] in T. apply Nat.leb_gt in T. lia.
Qed.

Lemma filter_len_le {A} (f : A -> bool) (l : list A) : (length (filter f l) <= length l)%nat.
Proof. induction l as [|a l IH]; cbn; [lia|]. destruct (f a); cbn; lia. Qed.

(* the loop never runs out of fuel *)
Lemma remove_key_shorter n ms g : In (n, ms) g -> (length (remove_key n g) < length g)%nat.
Proof.
  induction g as [|[k l] g IH]; intros I; [destruct I|]. unfold remove_key. cbn [filter fst].
  destruct I as [I|I].
  - inversion I; subst. rewrite Z.eqb_refl. cbn [negb]. pose proof (filter_len_le (fun e => negb (fst e =? n)) g). cbn. lia.
  - specialize (IH I). unfold remove_key in IH. destruct (negb (k =? n)); cbn; lia.
Qed.

Lemma length_fold_discard_in n ms : forall g, length (fold_left (discard_in n) ms g) = length g.
Proof.
  induction ms as [|m ms IH]; intros g; [reflexivity|]. cbn [fold_left]. rewrite IH. unfold discard_in. apply map_length.
Qed.

Lemma skin_loop_fuel fuel : forall g, (length g < fuel)%nat -> skin_loop fuel g <> Err OtherError.
Proof.
  induction fuel as [|f IH]; intros g L; [lia|]. cbn [skin_loop].
  destruct (find is_terminal g) as [[n ms]|] eqn:F; [|discriminate].
  destruct (forallb (fun m => zmem m (keys (remove_key n g))) ms); [|discriminate].
  apply IH. rewrite length_fold_discard_in. apply find_some in F. destruct F as [I _].
  pose proof (remove_key_shorter n ms g I). lia.
Qed.

Theorem skin_graph_fuel g : skin_graph g <> Err OtherError.
Proof.
  unfold skin_graph. apply skin_loop_fuel. pose proof (filter_len_le nonempty_entry g). lia.
Qed.
(* ---------- _connected_components ---------- *)
Inductive reach (g : graph) : Z -> Z -> Prop :=
| reach_refl a : reach g a a
| reach_step a b c : reach g a b -> In c (gnbrs g b) -> reach g a c.

Lemma reach_trans g a b c : reach g a b -> reach g b c -> reach g a c.
Proof. intros H1 H2. induction H2 as [|b c d _ IH Hd]; [exact H1|]. apply (reach_step g a c d); [apply IH; exact H1 | exact Hd]. Qed.

Lemma gwf_sym g b c : gwf g -> In c (gnbrs g b) -> In b (gnbrs g c).
Proof.
  intros [_ W] H. apply gnbrs_In in H. destruct H as [ms [I J]]. destruct (W b ms I) as [_ W1]. apply (W1 c J).
Qed.

Lemma gwf_closed g b c : gwf g -> In c (gnbrs g b) -> In c (keys g).
Proof.
  intros [_ W] H. apply gnbrs_In in H. destruct H as [ms [I J]]. destruct (W b ms I) as [_ W1]. apply (W1 c J).
Qed.

Lemma reach_sym g a b : gwf g -> reach g a b -> reach g b a.
Proof.
  intros W H. induction H as [|a b c _ IH Hc]; [constructor|].
  apply (reach_trans g c b a); [|exact IH]. apply (reach_step g c c b); [constructor | apply gwf_sym; assumption].
Qed.

Lemma reach_key g a b : gwf g -> In a (keys g) -> reach g a b -> In b (keys g).
Proof. intros W Ia H. induction H as [|a b c _ _ Hc]; [exact Ia | apply (gwf_closed g b c W Hc)]. Qed.

Section BFS.
Variable g : graph.
Hypothesis W : gwf g.

Definition unseen (seen : list Z) : list Z := filter (fun v => negb (zmem v seen)) (keys g).
Definition mu (queue seen : list Z) : nat := (length queue + length (unseen seen))%nat.

Lemma filter_strict {A} (f h : A -> bool) (l : list A) x :
  (forall y, h y = true -> f y = true) -> In x l -> f x = true -> h x = false ->
  (length (filter h l) < length (filter f l))%nat.
Proof.
  intros Imp. induction l as [|a l IH]; intros I Fx Hx; [destruct I|]. cbn.
  assert (LE : (length (filter h l) <= length (filter f l))%nat).
  { clear - Imp. induction l as [|b l IHl]; cbn; [lia|]. destruct (h b) eqn:Hb.
    - rewrite (Imp b Hb). cbn. lia.
    - destruct (f b); cbn; lia. }
  destruct I as [I|I].
  - subst a. rewrite Fx, Hx. cbn. lia.
  - specialize (IH I Fx Hx). destruct (h a) eqn:Ha.
    + rewrite (Imp a Ha). cbn. lia.
    + destruct (f a); cbn; lia.
Qed.

Lemma unseen_add seen i : In i (keys g) -> ~ In i seen -> (length (unseen (seen ++ [i])) < length (unseen seen))%nat.
Proof.
  intros Ik Ni. unfold unseen. apply (filter_strict _ _ (keys g) i).
  - intros y Hy. apply negb_true_iff in Hy. apply negb_true_iff. destruct (zmem y seen) eqn:E; [|reflexivity].
    apply zmem_In in E. assert (In y (seen ++ [i])) by (apply in_or_app; left; exact E). apply zmem_In in H. congruence.
  - exact Ik.
  - apply negb_true_iff. destruct (zmem i seen) eqn:E; [apply zmem_In in E; contradiction | reflexivity].
  - apply negb_false_iff. apply zmem_In. apply in_or_app. right. left. reflexivity.
Qed.

(* one sweep over the neighbours of the current atom *)
Lemma visit_fold l : forall q sn, (forall y, In y l -> In y (keys g)) ->
  let r := fold_left visit l (q, sn) in
  incl q (fst r) /\ incl sn (snd r) /\
  (forall y, In y l -> In y (snd r)) /\
  (forall x, In x (snd r) -> In x sn \/ In x l) /\
  (forall x, In x (snd r) -> ~ In x sn -> In x (fst r)) /\
  (forall x, In x (fst r) -> In x q \/ In x l) /\
  (NoDup sn -> NoDup (snd r)) /\
  (mu (fst r) (snd r) <= mu q sn)%nat.
Proof.
  induction l as [|i l IH]; intros q sn K.
  - cbn [fold_left fst snd]. split; [intros x H; exact H|]. split; [intros x H; exact H|]. split; [intros y []|].
    split; [intros x H; left; exact H|]. split; [intros x H N; contradiction|]. split; [intros x H; left; exact H|].
    split; [intros N; exact N | lia].
  - cbn [fold_left]. destruct (zmem i sn) eqn:E.
    + replace (visit (q, sn) i) with (q, sn) by (unfold visit; cbn [snd]; rewrite E; reflexivity).
      apply zmem_In in E. specialize (IH q sn (fun y Hy => K y (or_intror Hy))). cbn zeta in IH.
      destruct IH as [A1 [A2 [A3 [A4 [A5 [A6 [A7 A8]]]]]]]. repeat split; try assumption.
      * intros y [Hy|Hy]; [subst; apply A2; exact E | apply A3; exact Hy].
      * intros x Hx. destruct (A4 x Hx); [left; assumption | right; right; assumption].
      * intros x Hx. destruct (A6 x Hx); [left; assumption | right; right; assumption].
    + replace (visit (q, sn) i) with (q ++ [i], sn ++ [i]) by (unfold visit; cbn [fst snd]; rewrite E; reflexivity).
      assert (Ni : ~ In i sn) by (intros I; apply zmem_In in I; congruence).
      specialize (IH (q ++ [i]) (sn ++ [i]) (fun y Hy => K y (or_intror Hy))). cbn zeta in IH.
      destruct IH as [A1 [A2 [A3 [A4 [A5 [A6 [A7 A8]]]]]]]. repeat split.
      * intros x Hx. apply A1. apply in_or_app. left. exact Hx.
      * intros x Hx. apply A2. apply in_or_app. left. exact Hx.
      * intros y [Hy|Hy]; [subst; apply A2; apply in_or_app; right; left; reflexivity | apply A3; exact Hy].
      * intros x Hx. destruct (A4 x Hx) as [H|H]; [|right; right; exact H].
        apply in_app_or in H. destruct H as [H|[H|[]]]; [left; exact H | right; left; exact H].
      * intros x Hx Nx. destruct (in_dec Z.eq_dec x (sn ++ [i])) as [I|I].
        -- apply in_app_or in I. destruct I as [I|[I|[]]]; [contradiction|]. subst x. apply A1. apply in_or_app. right. left. reflexivity.
        -- apply A5; assumption.
      * intros x Hx. destruct (A6 x Hx) as [H|H]; [|right; right; exact H].
        apply in_app_or in H. destruct H as [H|[H|[]]]; [left; exact H | right; left; exact H].
      * intros N. apply A7. apply (Permutation_NoDup (l := i :: sn)); [apply Permutation_cons_append | constructor; assumption].
      * pose proof (unseen_add sn i (K i (or_introl eq_refl)) Ni) as U. unfold mu in *. rewrite app_length in A8. cbn in A8. lia.
Qed.

Variable s : Z.

Definition bfs_inv (queue seen : list Z) : Prop :=
  In s seen /\ incl queue seen /\ NoDup seen /\
  (forall x, In x seen -> reach g s x) /\
  (forall x, In x seen -> In x queue \/ forall y, In y (gnbrs g x) -> In y seen).

Lemma bfs_correct fuel : forall queue seen, bfs_inv queue seen -> (mu queue seen <= fuel)%nat ->
  let r := bfs fuel g queue seen in NoDup r /\ forall v, In v r <-> reach g s v.
Proof.
  assert (DONE : forall seen, bfs_inv [] seen -> NoDup seen /\ forall v, In v seen <-> reach g s v).
  { intros seen [I1 [I2 [I3 [I4 I5]]]]. split; [exact I3|]. intros v. split; [apply I4|].
    intros R. induction R as [|a b c _ IH Hc]; [exact I1|]. specialize (IH I1 I4). destruct (I5 b IH) as [[]|C]. apply C. exact Hc. }
  induction fuel as [|f IH]; intros queue seen Inv M.
  - cbn. destruct queue as [|c rest]; [apply DONE; exact Inv|]. unfold mu in M. cbn in M. lia.
  - cbn [bfs]. destruct queue as [|cur rest]; [apply DONE; exact Inv|].
    destruct Inv as [I1 [I2 [I3 [I4 I5]]]].
    assert (Rc : reach g s cur) by (apply I4; apply I2; left; reflexivity).
    destruct (visit_fold (gnbrs g cur) rest seen (fun y Hy => gwf_closed g cur y W Hy)) as [A1 [A2 [A3 [A4 [A5 [A6 [A7 A8]]]]]]].
    set (r := fold_left visit (gnbrs g cur) (rest, seen)) in *. apply IH.
    + split; [apply A2; exact I1|]. split.
      * intros x Hx. destruct (A6 x Hx) as [H|H]; [apply A2; apply I2; right; exact H | apply A3; exact H].
      * split; [apply A7; exact I3|]. split.
        -- intros x Hx. destruct (A4 x Hx) as [H|H]; [apply I4; exact H | apply (reach_step g s cur x Rc H)].
        -- intros x Hx. destruct (in_dec Z.eq_dec x seen) as [Is|Ns].
           ++ destruct (I5 x Is) as [[Q|Q]|C].
              ** subst x. right. exact A3.
              ** left. apply A1. exact Q.
              ** right. intros y Hy. apply A2. apply C. exact Hy.
           ++ left. apply A5; assumption.
    + unfold mu in *. cbn [length] in M. lia.
Qed.

Lemma component_of_spec : In s (keys g) ->
  NoDup (component_of g s) /\ forall v, In v (component_of g s) <-> reach g s v.
Proof.
  intros Ks. unfold component_of. apply bfs_correct.
  - split; [left; reflexivity|]. split; [intros x Hx; exact Hx|]. split; [constructor; [intros []|constructor]|]. split.
    + intros x [Hx|[]]. subst. constructor.
    + intros x [Hx|[]]. subst. left. left. reflexivity.
  - unfold mu. cbn [length].
    assert (U : (length (unseen [s]) < length (unseen []))%nat) by (apply (unseen_add [] s Ks); intros []).
    assert (L : (length (unseen []) <= length g)%nat).
    { unfold unseen. pose proof (filter_len_le (fun v => negb (zmem v [])) (keys g)). unfold keys in *. rewrite map_length in *. lia. }
    lia.
Qed.
End BFS.

Lemma NoDup_app_disjoint {A} (a b : list A) : NoDup a -> NoDup b -> (forall x, In x a -> ~ In x b) -> NoDup (a ++ b).
Proof.
  induction a as [|x a IH]; intros Na Nb D; [exact Nb|]. inversion Na as [|? ? Nx Na']; subst. cbn. constructor.
  - intros I. apply in_app_or in I. destruct I as [I|I]; [contradiction | apply (D x); [left; reflexivity | exact I]].
  - apply IH; [exact Na' | exact Nb |]. intros y Hy. apply D. right. exact Hy.
Qed.

Definition is_class (g : graph) (c : list Z) : Prop :=
  exists s, In s (keys g) /\ forall v, In v c <-> reach g s v.

Lemma cc_loop_spec g : gwf g -> forall order covered acc,
  (forall x, In x order -> In x (keys g)) ->
  (forall v, In v covered <-> In v (concat acc)) -> NoDup (concat acc) -> Forall (is_class g) acc ->
  let cs := cc_loop g order covered acc in
  NoDup (concat cs) /\ Forall (is_class g) cs /\ (forall x, In x order \/ In x covered -> In x (concat cs)).
Proof.
  intros W. induction order as [|s order IH]; intros covered acc K C N F.
  - cbn. split; [exact N|]. split; [exact F|]. intros x [[]|H]. apply C. exact H.
  - cbn [cc_loop]. destruct (zmem s covered) eqn:E.
    + apply zmem_In in E. specialize (IH covered acc (fun x Hx => K x (or_intror Hx)) C N F). cbn zeta in IH.
      destruct IH as [A1 [A2 A3]]. split; [exact A1|]. split; [exact A2|].
      intros x [[Hx|Hx]|Hx]; [subst; apply A3; right; exact E | apply A3; left; exact Hx | apply A3; right; exact Hx].
    + assert (Ns : ~ In s covered) by (intros I; apply zmem_In in I; congruence).
      assert (Ks : In s (keys g)) by (apply K; left; reflexivity).
      destruct (component_of_spec g W s Ks) as [Nc Sc].
      assert (Cc : concat (acc ++ [component_of g s]) = concat acc ++ component_of g s).
      { rewrite concat_app. cbn. rewrite app_nil_r. reflexivity. }
      specialize (IH (component_of g s ++ covered) (acc ++ [component_of g s]) (fun x Hx => K x (or_intror Hx))). cbn zeta in IH.
      destruct IH as [A1 [A2 A3]].
      * intros v. rewrite Cc, !in_app_iff, C. tauto.
      * rewrite Cc. apply NoDup_app_disjoint; [exact N | exact Nc|].
        intros x Hx Hc. apply in_concat in Hx. destruct Hx as [c [Hc1 Hc2]].
        rewrite Forall_forall in F. destruct (F c Hc1) as [s' [Ks' Cl]].
        apply Ns. apply C. apply in_concat. exists c. split; [exact Hc1|]. apply Cl.
        apply (reach_trans g s' x s); [apply Cl; exact Hc2 | apply reach_sym; [exact W | apply Sc; exact Hc]].
      * apply Forall_app. split; [exact F|]. constructor; [|constructor]. exists s. split; [exact Ks | exact Sc].
      * split; [exact A1|]. split; [exact A2|]. intros x [[Hx|Hx]|Hx].
        -- subst x. apply A3. right. apply in_or_app. left. apply Sc. constructor.
        -- apply A3. left. exact Hx.
        -- apply A3. right. apply in_or_app. right. exact Hx.
Qed.

Lemma gwf_closed_b g : gwf g -> closed_b g = true.
Proof.
  intros [_ W]. unfold closed_b. apply forallb_forall. intros [n ms] I. cbn [snd]. apply forallb_forall. intros m Hm.
  apply zmem_In. destruct (W n ms I) as [_ W1]. apply (W1 m Hm).
Qed.

(* for ANY pop order: the result is a partition of the atoms into the classes of the connectivity relation *)
Theorem components_partition g order : gwf g -> (forall x, In x order <-> In x (keys g)) ->
  exists cs, connected_components_order g order = Ok cs /\
  (forall v, In v (keys g) -> exists c, In c cs /\ In v c) /\
  NoDup (concat cs) /\
  (forall c, In c cs -> c <> [] /\
     forall u, In u c -> In u (keys g) /\ forall v, In v c <-> reach g u v).
Proof.
  intros W O. exists (components_order g order). unfold connected_components_order. rewrite (gwf_closed_b g W).
  split; [reflexivity|].
  destruct (cc_loop_spec g W order [] []) as [A1 [A2 A3]].
  - intros x Hx. apply O. exact Hx.
  - intros v. cbn. tauto.
  - constructor.
  - constructor.
  - unfold components_order. split.
    + intros v Kv. assert (I : In v (concat (cc_loop g order [] []))) by (apply A3; left; apply O; exact Kv).
      apply in_concat in I. destruct I as [c [I1 I2]]. exists c. tauto.
    + split; [exact A1|]. intros c Hc. rewrite Forall_forall in A2. destruct (A2 c Hc) as [s [Ks Cl]]. split.
      * intros E. subst c. apply (proj2 (Cl s)). constructor.
      * intros u Hu. assert (Ru : reach g s u) by (apply Cl; exact Hu). split; [apply (reach_key g s u W Ks Ru)|].
        intros v. rewrite Cl. split; intros R.
        -- apply (reach_trans g u s v); [apply reach_sym; assumption | exact R].
        -- apply (reach_trans g s u v); assumption.
Qed.
(* ---------- rings_count: the handshake lemma ---------- *)
Definition dpairs (h : Z -> Z -> bool) (g : graph) : list (Z * Z) :=
  flat_map (fun e => map (fun m => (fst e, m)) (filter (h (fst e)) (snd e))) g.

Lemma edges_dpairs g : edges g = dpairs Z.ltb g.
Proof. reflexivity. Qed.

Lemma In_dpairs h g a b : In (a, b) (dpairs h g) <-> exists ms, In (a, ms) g /\ In b ms /\ h a b = true.
Proof.
  unfold dpairs. rewrite in_flat_map. split.
  - intros [[n ms] [H1 H2]]. cbn [fst snd] in H2. apply in_map_iff in H2. destruct H2 as [m [E H2]].
    inversion E; subst. apply filter_In in H2. exists ms. tauto.
  - intros [ms [H1 [H2 H3]]]. exists (a, ms). split; [exact H1|]. cbn [fst snd]. apply in_map_iff. exists b.
    split; [reflexivity|]. apply filter_In. tauto.
Qed.

Lemma NoDup_dpairs h g : NoDup (keys g) -> (forall n ms, In (n, ms) g -> NoDup ms) -> NoDup (dpairs h g).
Proof.
  induction g as [|[n ms] g IH]; intros Nk Nm; [constructor|]. cbn in Nk. inversion Nk as [|? ? Nn Nk']; subst.
  unfold dpairs. cbn [flat_map fst snd]. apply NoDup_app_disjoint.
  - apply FinFun.Injective_map_NoDup; [intros x y E; inversion E; reflexivity|]. apply NoDup_filter.
    apply (Nm n ms). left. reflexivity.
  - apply IH; [exact Nk'|]. intros k l H. apply (Nm k l). right. exact H.
  - intros [a b] H1 H2. apply in_map_iff in H1. destruct H1 as [m [E _]]. inversion E; subst a b.
    apply (In_dpairs h g n m) in H2. destruct H2 as [l [H2 _]]. apply Nn. unfold keys. apply in_map_iff.
    exists (n, l). split; [reflexivity | exact H2].
Qed.

Lemma filter_split_length (a : Z) (ms : list Z) : (forall m, In m ms -> m <> a) ->
  length ms = (length (filter (Z.ltb a) ms) + length (filter (fun m => Z.ltb m a) ms))%nat.
Proof.
  induction ms as [|m ms IH]; intros H; [reflexivity|]. cbn.
  assert (Ne : m <> a) by (apply H; left; reflexivity).
  rewrite IH by (intros x Hx; apply H; right; exact Hx).
  destruct (Z.ltb_spec a m); destruct (Z.ltb_spec m a); cbn; lia.
Qed.

Lemma degree_sum_split g : (forall n ms, In (n, ms) g -> forall m, In m ms -> m <> n) ->
  degree_sum g = Z.of_nat (length (dpairs Z.ltb g) + length (dpairs (fun a b => b <? a) g)).
Proof.
  induction g as [|[n ms] g IH]; intros H; [reflexivity|]. unfold dpairs in *. cbn [degree_sum fold_right flat_map fst snd].
  fold (degree_sum g). rewrite IH by (intros k l Hk; apply (H k l); right; exact Hk).
  rewrite !app_length, !map_length. rewrite (filter_split_length n ms) by (apply (H n ms); left; reflexivity). lia.
Qed.

Lemma handshake g : gwf g -> degree_sum g = 2 * Z.of_nat (length (edges g)).
Proof.
  intros W. pose proof W as [Nk Wm]. rewrite degree_sum_split by (intros n ms H m Hm; apply (Wm n ms H); exact Hm).
  change (edges g) with (dpairs Z.ltb g).
  assert (Nm : forall n ms, In (n, ms) g -> NoDup ms) by (intros n ms H; apply (Wm n ms H)).
  set (up := dpairs Z.ltb g). set (down := dpairs (fun a b => b <? a) g).
  assert (P : Permutation (map (fun p => (snd p, fst p)) down) up).
  { apply NoDup_Permutation.
    - apply FinFun.Injective_map_NoDup; [intros [x1 x2] [y1 y2] E; cbn in E; inversion E; reflexivity|].
      apply NoDup_dpairs; assumption.
    - apply NoDup_dpairs; assumption.
    - intros [a b]. rewrite in_map_iff. split.
      + intros [[x y] [E H]]. cbn in E. inversion E; subst x y. apply In_dpairs in H. destruct H as [ms [H1 [H2 H3]]].
        assert (S : In b (gnbrs g a)) by (destruct (Wm b ms H1) as [_ W1]; apply (W1 a H2)).
        apply gnbrs_In in S. destruct S as [ms' [S1 S2]]. apply In_dpairs. exists ms'. tauto.
      + intros H. apply In_dpairs in H. destruct H as [ms [H1 [H2 H3]]]. exists (b, a). split; [reflexivity|].
        assert (S : In a (gnbrs g b)) by (destruct (Wm a ms H1) as [_ W1]; apply (W1 b H2)).
        apply gnbrs_In in S. destruct S as [ms' [S1 S2]]. apply In_dpairs. exists ms'. tauto. }
  apply Permutation_length in P. rewrite map_length in P. lia.
Qed.

Theorem rings_count_cyclomatic g order : gwf g ->
  rings_count_order g order =
    Z.of_nat (length (edges g)) - Z.of_nat (length g) + Z.of_nat (length (components_order g order)).
Proof.
  intros W. unfold rings_count_order. rewrite (handshake g W). rewrite Z.mul_comm, Z.div_mul by lia. reflexivity.
Qed.

Corollary rings_count_ok g : gwf g -> rings_count g = Ok (cyclomatic g).
Proof.
  intros W. unfold rings_count, cyclomatic. rewrite (gwf_closed_b g W), (rings_count_cyclomatic g (keys g) W). reflexivity.
Qed.

(* ---------- canonic_ring ---------- *)
Lemma fold_min_le l : forall x, fold_left Z.min l x <= x /\ (forall y, In y l -> fold_left Z.min l x <= y) /\
  (fold_left Z.min l x = x \/ In (fold_left Z.min l x) l).
Proof.
  induction l as [|a l IH]; intros x; cbn.
  - split; [lia|]. split; [intros y []|left; reflexivity].
  - destruct (IH (Z.min x a)) as [H1 [H2 H3]]. split; [lia|]. split.
    + intros y [E|I]; [subst; lia | apply H2; exact I].
    + destruct H3 as [E|I]; [|right; right; exact I]. rewrite E.
      destruct (Z.min_spec x a) as [[_ M]|[_ M]]; rewrite M; [left; reflexivity | right; left; reflexivity].
Qed.

Lemma list_min_spec l m : list_min l = Some m <-> In m l /\ forall y, In y l -> m <= y.
Proof.
  destruct l as [|x l]; cbn.
  - split; [discriminate | intros [[] _]].
  - destruct (fold_min_le l x) as [H1 [H2 H3]]. split.
    + intros E. inversion E; subst m. split.
      * destruct H3 as [E3|I]; [left; symmetry; exact E3 | right; exact I].
      * intros y [Ey|I]; [subst; exact H1 | apply H2; exact I].
    + intros [I L]. f_equal. apply Z.le_antisymm.
      * destruct I as [E|I]; [subst; exact H1 | apply H2; exact I].
      * apply L. destruct H3 as [E3|I3]; [left; symmetry; exact E3 | right; exact I3].
Qed.

Lemma index_nat_app a : forall m b, ~ In m a -> index_nat m (a ++ m :: b) = Some (length a).
Proof.
  induction a as [|x a IH]; intros m b H; cbn.
  - rewrite Z.eqb_refl. reflexivity.
  - destruct (Z.eqb_spec m x) as [E|E]; [exfalso; apply H; left; symmetry; exact E|].
    rewrite IH by (intros I; apply H; right; exact I). reflexivity.
Qed.

Lemma nth_error_last (l : list Z) d : l <> [] -> nth_error l (length l - 1) = Some (last l d).
Proof.
  intros H. destruct (exists_last H) as [l' [x E]]. subst l. rewrite app_length. cbn [length].
  replace (length l' + 1 - 1)%nat with (length l') by lia.
  rewrite nth_error_app2 by lia. rewrite Nat.sub_diag, last_last. reflexivity.
Qed.

Lemma nth_error_hd (l : list Z) d : l <> [] -> nth_error l 0 = Some (hd d l).
Proof. destruct l; [congruence | reflexivity]. Qed.

(* the two candidate spellings that start at the minimum: follow the ring, or follow it backwards *)
Definition canon_of (m : Z) (fwd : list Z) : list Z :=
  if last fwd 0 <? hd 0 fwd then m :: rev fwd else m :: fwd.

Lemma last_app_ne (x y : list Z) d : y <> [] -> last (x ++ y) d = last y d.
Proof.
  intros H. induction x as [|a x IH]; [reflexivity|]. cbn [app]. destruct (x ++ y) eqn:E.
  - destruct x; [cbn in E; congruence | discriminate].
  - rewrite <- IH. reflexivity.
Qed.

Lemma hd_app_ne (x y : list Z) d : x <> [] -> hd d (x ++ y) = hd d x.
Proof. destruct x; [congruence | reflexivity]. Qed.

Lemma canonic_split a m b : ~ In m a -> (forall y, In y (a ++ b) -> m <= y) -> b ++ a <> [] ->
  canonic_ring (a ++ m :: b) = Ok (canon_of m (b ++ a)).
Proof.
  intros Na Min NE. unfold canonic_ring.
  assert (LM : list_min (a ++ m :: b) = Some m).
  { apply list_min_spec. split; [apply in_or_app; right; left; reflexivity|].
    intros y Hy. apply in_app_or in Hy. destruct Hy as [Hy|[Hy|Hy]]; [|subst; lia|]; apply Min; apply in_or_app; tauto. }
  rewrite LM, (index_nat_app a m b Na). unfold canon_of.
  destruct a as [|a0 a'].
  - (* ndx = 0 *) cbn [length Nat.eqb app]. rewrite app_nil_r in *. destruct b as [|b0 b']; [congruence|].
    unfold at_neg. replace (Nat.leb 1 (length (m :: b0 :: b'))) with true by reflexivity.
    rewrite (nth_error_last (m :: b0 :: b') 0) by discriminate.
    change (last (m :: b0 :: b') 0) with (last (b0 :: b') 0).
    unfold at_pos. cbn [nth_error lt_idx hd]. unfold sl_rev_to1. cbn [tl].
    destruct (last (b0 :: b') 0 <? b0); reflexivity.
  - destruct b as [|b0 b'].
    + (* ndx = len - 1 *) clear NE. change ([] ++ a0 :: a') with (a0 :: a'). set (a := a0 :: a') in *.
      assert (La : length (a ++ [m]) = S (length a)) by (rewrite app_length; cbn; lia).
      replace (Nat.eqb (length a) 0) with false by (unfold a; reflexivity).
      rewrite La. replace (S (length a) - 1)%nat with (length a) by lia. rewrite Nat.eqb_refl.
      unfold at_neg, at_pos. rewrite La.
      replace (Nat.leb 2 (S (length a))) with true by (unfold a; reflexivity).
      replace (S (length a) - 2)%nat with (length a - 1)%nat by lia.
      rewrite nth_error_app1 by (unfold a; cbn; lia). rewrite (nth_error_last a 0) by (unfold a; discriminate).
      replace (nth_error (a ++ [m]) 0) with (Some (hd 0 a)) by (unfold a; reflexivity).
      cbn [lt_idx]. unfold sl_rev, sl_init. rewrite rev_app_distr. cbn [rev app]. rewrite removelast_last.
      destruct (last a 0 <? hd 0 a); reflexivity.
    + (* interior *) set (a := a0 :: a') in *. set (b := b0 :: b') in *.
      replace (Nat.eqb (length a) 0) with false by (unfold a; reflexivity).
      assert (Lr : length (a ++ m :: b) = (length a + S (length b))%nat) by (rewrite app_length; reflexivity).
      rewrite Lr. replace (Nat.eqb (length a) (length a + S (length b) - 1)) with false
        by (symmetry; apply Nat.eqb_neq; unfold b; cbn [length]; lia).
      unfold at_pos. rewrite nth_error_app1 by (unfold a; cbn; lia). rewrite (nth_error_last a 0) by (unfold a; discriminate).
      rewrite nth_error_app2 by lia. replace (length a + 1 - length a)%nat with 1%nat by lia.
      replace (nth_error (m :: b) 1) with (Some b0) by reflexivity. cbn [lt_idx].
      rewrite (last_app_ne b a 0) by (unfold a; discriminate).
      rewrite (hd_app_ne b a 0) by (unfold b; discriminate). replace (hd 0 b) with b0 by reflexivity.
      unfold sl_rev_from, sl_rev_after, sl_from, sl_to.
      replace (S (length a)) with (length (a ++ [m]) + 0)%nat by (rewrite app_length; cbn; lia).
      replace (a ++ m :: b) with ((a ++ [m]) ++ b) by (rewrite <- app_assoc; reflexivity).
      rewrite firstn_app_2, skipn_app. rewrite skipn_all2 by lia. 
      replace (length (a ++ [m]) + 0 - length (a ++ [m]))%nat with 0%nat by lia.
      cbn [firstn skipn]. rewrite app_nil_r. cbn [app].
      replace ((a ++ [m]) ++ b) with (a ++ m :: b) by (rewrite <- app_assoc; reflexivity).
      replace (length (a ++ [m]) + 0)%nat with (S (length a)) by (rewrite app_length; cbn; lia).
      destruct (last a 0 <? b0).
      * rewrite rev_app_distr. cbn [rev app]. rewrite rev_app_distr. reflexivity.
      * assert (S1 : skipn (length a) (a ++ m :: b) = m :: b).
        { rewrite skipn_app, skipn_all, Nat.sub_diag. reflexivity. }
        assert (S2 : firstn (length a) (a ++ m :: b) = a).
        { rewrite firstn_app, firstn_all, Nat.sub_diag. cbn [firstn]. apply app_nil_r. }
        rewrite S1, S2. reflexivity.
Qed.

Definition rotation (r r' : list Z) : Prop := exists x y, r = x ++ y /\ r' = y ++ x.
(* rotations and reflections of a ring spelling: same atoms, same cyclic neighbourhood *)
Definition dihedral (r r' : list Z) : Prop := rotation r r' \/ rotation (rev r) r'.

Lemma rotation_Permutation r r' : rotation r r' -> Permutation r r'.
Proof. intros [x [y [E1 E2]]]. subst. apply Permutation_app_comm. Qed.

Lemma dihedral_Permutation r r' : dihedral r r' -> Permutation r r'.
Proof.
  intros [H|H]; [apply rotation_Permutation; exact H|].
  apply Permutation_trans with (rev r); [apply Permutation_rev | apply rotation_Permutation; exact H].
Qed.

Lemma canonic_rot a m b r' : ~ In m a -> ~ In m b -> (forall y, In y (a ++ b) -> m <= y) -> b ++ a <> [] ->
  rotation (a ++ m :: b) r' -> canonic_ring r' = Ok (canon_of m (b ++ a)).
Proof.
  intros Na Nb Min NE [x [y [E1 E2]]]. subst r'. symmetry in E1. apply app_eq_app in E1.
  destruct E1 as [l [[Ex Ey]|[Ea Ey]]].
  - destruct l as [|m' l'].
    + cbn in Ey. subst y. rewrite app_nil_r in Ex. subst x.
      change ((m :: b) ++ a) with ([] ++ m :: (b ++ a)). rewrite canonic_split.
      * rewrite app_nil_r. reflexivity.
      * intros [].
      * intros z Hz. cbn [app] in Hz. apply Min. apply in_app_or in Hz. apply in_or_app. tauto.
      * rewrite app_nil_r. exact NE.
    + cbn in Ey. inversion Ey; subst m' b. subst x.
      replace (y ++ a ++ m :: l') with ((y ++ a) ++ m :: l') by (rewrite <- app_assoc; reflexivity).
      rewrite canonic_split.
      * rewrite !app_assoc. reflexivity.
      * intros I. apply in_app_or in I. destruct I as [I|I]; [apply Nb; apply in_or_app; right; exact I | apply Na; exact I].
      * intros z Hz. apply Min. rewrite !in_app_iff in *. tauto.
      * rewrite app_assoc. exact NE.
  - subst a y. replace ((l ++ m :: b) ++ x) with (l ++ m :: (b ++ x)) by (rewrite <- app_assoc; reflexivity).
    rewrite canonic_split.
    + rewrite <- app_assoc. reflexivity.
    + intros I. apply Na. apply in_or_app. right. exact I.
    + intros z Hz. apply Min. rewrite !in_app_iff in *. tauto.
    + rewrite <- app_assoc. exact NE.
Qed.

Lemma hd_rev (l : list Z) d : hd d (rev l) = last l d.
Proof.
  destruct l as [|x l]; [reflexivity|]. assert (H : x :: l <> []) by discriminate.
  destruct (exists_last H) as [l' [y E]]. rewrite E. rewrite rev_app_distr, last_last. reflexivity.
Qed.

Lemma last_rev (l : list Z) d : last (rev l) d = hd d l.
Proof. destruct l as [|x l]; [reflexivity|]. cbn [rev hd]. apply last_last. Qed.

Lemma hd_eq_last_single (l : list Z) d : NoDup l -> l <> [] -> hd d l = last l d -> l = [hd d l].
Proof.
  intros N NE E. destruct l as [|h t]; [congruence|]. destruct t as [|t0 t']; [reflexivity|]. exfalso.
  cbn [hd] in E. inversion N as [|? ? Nh _]; subst. apply Nh.
  change (last (h :: t0 :: t') d) with (last (t0 :: t') d) in E. rewrite E.
  assert (H : t0 :: t' <> []) by discriminate. destruct (exists_last H) as [l' [y Ey]]. rewrite Ey, last_last.
  apply in_or_app. right. left. reflexivity.
Qed.

Lemma canon_of_rev m fwd : NoDup fwd -> canon_of m (rev fwd) = canon_of m fwd.
Proof.
  intros N. unfold canon_of. rewrite last_rev, hd_rev, rev_involutive.
  destruct (Z.ltb_spec (hd 0 fwd) (last fwd 0)) as [L1|L1]; destruct (Z.ltb_spec (last fwd 0) (hd 0 fwd)) as [L2|L2];
    try reflexivity; try lia.
  destruct fwd as [|h t]; [reflexivity|].
  rewrite (hd_eq_last_single (h :: t) 0 N) by (try discriminate; lia). reflexivity.
Qed.

Lemma canon_of_shape m fwd : NoDup fwd -> (2 <= length fwd)%nat ->
  exists f, canon_of m fwd = m :: f /\ hd 0 f < last f 0 /\ (f = fwd \/ f = rev fwd).
Proof.
  intros N L. unfold canon_of.
  assert (Ne : hd 0 fwd <> last fwd 0).
  { intros E. assert (NE : fwd <> []) by (destruct fwd; [cbn in L; lia | discriminate]).
    rewrite (hd_eq_last_single fwd 0 N NE E) in L. cbn in L. lia. }
  destruct (Z.ltb_spec (last fwd 0) (hd 0 fwd)) as [L1|L1].
  - exists (rev fwd). rewrite hd_rev, last_rev. tauto.
  - exists fwd. split; [reflexivity|]. split; [lia | tauto].
Qed.

Theorem canonic_ring_canonical r : NoDup r -> (3 <= length r)%nat ->
  exists m f,
    canonic_ring r = Ok (m :: f) /\
    list_min r = Some m /\                       (* starts with the minimum *)
    hd 0 f < last f 0 /\                         (* second = the smaller of the two ring neighbours of the minimum *)
    dihedral r (m :: f) /\                       (* a rotation / reflection of the input ... *)
    Permutation r (m :: f) /\                    (* ... hence the same atoms *)
    forall r', dihedral r r' -> canonic_ring r' = Ok (m :: f).   (* one spelling per cyclic class *)
Proof.
  intros N L.
  destruct (list_min r) as [m|] eqn:LM; [|destruct r; [cbn in L; lia | discriminate]].
  pose proof (proj1 (list_min_spec r m) LM) as [Im Min].
  destruct (in_split m r Im) as [a [b E]]. subst r.
  pose proof (NoDup_remove_2 a b m N) as Nm. pose proof (NoDup_remove_1 a b m N) as Nab.
  assert (Na : ~ In m a) by (intros I; apply Nm; apply in_or_app; left; exact I).
  assert (Nb : ~ In m b) by (intros I; apply Nm; apply in_or_app; right; exact I).
  assert (Min' : forall y, In y (a ++ b) -> m <= y).
  { intros y Hy. apply Min. apply in_app_or in Hy. apply in_or_app. cbn. tauto. }
  assert (Lf : (2 <= length (b ++ a))%nat) by (rewrite app_length in *; cbn in L; lia).
  assert (NE : b ++ a <> []) by (destruct (b ++ a); [cbn in Lf; lia | discriminate]).
  assert (Nba : NoDup (b ++ a)) by (apply (Permutation_NoDup (Permutation_app_comm a b) Nab)).
  destruct (canon_of_shape m (b ++ a) Nba Lf) as [f [Ef [Hf Sf]]].
  assert (D : dihedral (a ++ m :: b) (m :: f)).
  { destruct Sf as [Sf|Sf]; subst f.
    - left. exists a, (m :: b). split; reflexivity.
    - right. exists (rev b), (m :: rev a). split.
      + rewrite rev_app_distr. cbn [rev]. rewrite <- app_assoc. reflexivity.
      + rewrite rev_app_distr. reflexivity. }
  exists m, f. split; [rewrite <- Ef; apply canonic_split; assumption|].
  split; [reflexivity|]. split; [exact Hf|]. split; [exact D|]. split; [apply dihedral_Permutation; exact D|].
  intros r' [R|R]; rewrite <- Ef.
  - apply canonic_rot; assumption.
  - rewrite <- (canon_of_rev m (b ++ a) Nba). rewrite rev_app_distr.
    rewrite rev_app_distr in R. cbn [rev] in R. rewrite <- app_assoc in R. cbn [app] in R.
    apply canonic_rot; try assumption.
    + intros I. apply Nb. apply in_rev. exact I.
    + intros I. apply Na. apply in_rev. exact I.
    + intros y Hy. apply Min'. apply in_app_or in Hy. apply in_or_app. destruct Hy as [Hy|Hy]; apply in_rev in Hy; tauto.
    + rewrite <- rev_app_distr. intros E0. apply NE. apply (f_equal (@rev Z)) in E0. rewrite rev_involutive in E0.
      (* rev (rev b ++ rev a)... *) cbn in E0. 
      destruct a, b; cbn in *; try congruence; try discriminate.
Qed.

(* ---------- non-vacuity: concrete instances ---------- *)
(* two fused six-membered rings with a tail and a second component *)
Definition ex_graph : graph :=
  [(1,[2;6]);(2,[1;3]);(3,[2;4;8]);(4,[3;5]);(5,[4;6]);(6,[5;1;7]);(7,[6;8]);(8,[7;3;11]);(11,[8]);(9,[10]);(10,[9])].
Example ex_graph_wf : gwf ex_graph.
Proof. apply gwf_b_sound. vm_compute. reflexivity. Qed.
Example ex_checker_accepts : is_cycle_basis ex_graph [[1;2;3;4;5;6]; [3;4;5;6;7;8]] = true.
Proof. vm_compute. reflexivity. Qed.
(* the envelope is the sum of the two rings: rejected *)
Example ex_checker_rejects_dependent :
  independent_b (map (ring_vec ex_graph) [[1;2;3;4;5;6]; [3;4;5;6;7;8]; [1;2;3;8;7;6]]) = false /\
  is_cycle_basis ex_graph [[1;2;3;4;5;6]; [3;4;5;6;7;8]; [1;2;3;8;7;6]] = false.
Proof. vm_compute. split; reflexivity. Qed.
Example ex_checker_rejects_non_cycle : is_cycle_basis ex_graph [[1;2;3;4;5;6]; [3;4;5;7;8]] = false.
Proof. vm_compute. reflexivity. Qed.
Example ex_checker_rejects_count : is_cycle_basis ex_graph [[1;2;3;4;5;6]] = false.
Proof. vm_compute. reflexivity. Qed.
(* the recorded dense-cage gap (7 atoms / 12 bonds): the six rings the implementation returns are linearly dependent,
   the checker says so, and the reference construction finds a basis of the same graph *)
Definition cage_7_12 : graph :=
  [(1,[2;3;4]);(2,[1;3;5;6]);(3,[1;2;5;7]);(4,[1;5;6]);(5,[2;3;4;7]);(6,[2;4;7]);(7,[3;5;6])].
Example ex_dense_cage_output_rejected :
  is_cycle_basis cage_7_12 [[1;2;3]; [2;3;5]; [3;5;7]; [1;2;6;4]; [1;3;5;4]; [2;5;4;6]] = false /\
  is_cycle_basis cage_7_12 (mcb_ref cage_7_12) = true.
Proof. vm_compute. split; reflexivity. Qed.
Example ex_mcb_ref : mcb_ref ex_graph = [[1;2;3;4;5;6]; [1;6;7;8;3;2]] /\ is_cycle_basis ex_graph (mcb_ref ex_graph) = true.
Proof. vm_compute. split; reflexivity. Qed.
Example ex_skin : skin_graph ex_graph =
  Ok [(1,[2;6]);(2,[1;3]);(3,[2;4;8]);(4,[3;5]);(5,[4;6]);(6,[5;1;7]);(7,[6;8]);(8,[7;3])].
Proof. vm_compute. reflexivity. Qed.
Example ex_cycle : is_cycle ex_graph [1;2;3;8;7;6].
Proof. apply simple_cycle_b_sound. vm_compute. reflexivity. Qed.
Example ex_components : connected_components ex_graph = Ok [[1;2;6;3;5;7;4;8;11]; [9;10]] /\ rings_count ex_graph = Ok 2.
Proof. vm_compute. split; reflexivity. Qed.
Example ex_canonic : canonic_ring [5;3;9;1;7;4] = Ok [1;7;4;5;3;9] /\ canonic_ring [4;7;1;9;3;5] = Ok [1;7;4;5;3;9].
Proof. vm_compute. split; reflexivity. Qed.
