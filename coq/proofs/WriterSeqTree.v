(* C02, read_write_graph, step b: the tree of the traversal.  For any assignment of C03 tokens to the atoms (atom token + ring
   bond list) and to the tree bonds, the serialisation Ser of the subtree below an atom (WriterSeqFlatten), read as a list of
   C03 tokens, is the spelling (SmilesAst.spell) of a tree whose shape is the table `edges`: every node's children are
   the children of `edges` in order, all but the last as branches.  With C03's read_spell_denote this gives
   parse (tokens written) = denote (tree of the traversal). *)
From Coq Require Import ZArith List Bool Lia.
From Model Require Import PyBase Graph Writer Tokenize Parser SmilesAst.
From Proofs Require Import WriterWfFlatten WriterSeqFlatten DenoteProofs.
Import ListNotations.
Open Scope Z_scope.

Section Tree.
  Variable edges : list (Z * list Z).
  Variable aty : Z -> Z.                                   (* type of the atom token: 0 / 8 *)
  Variable atk : Z -> atomtok.                             (* its dictionary *)
  Variable rings : Z -> list (option token * Z).           (* the ring-bond digits written after it, with their bond tokens *)
  Variable bnd : Z -> Z -> option token.                   (* the token written for the tree bond parent - child *)
  Hypothesis Haty : forall n, zmem (aty n) [0; 8] = true.
  Hypothesis Hrings : forall n, forallb (fun r : option token * Z => bond_ok (fst r)) (rings n) = true.
  Hypothesis Hbnd : forall p c, bond_ok (bnd p c) = true.

  (* the C03 tokens of one element of the flattened list *)
  Definition ctok (t : tok) : list token :=
    match t with
    | TAtom n => (aty n, PAtom (atk n)) :: ring_tokens (rings n)
    | TOpen => [(2, PNone)]
    | TClose => [(3, PNone)]
    | TBond p c => opt_bond (bnd p c)
    end.
  Definition ctoks (l : list tok) : list token := flat_map ctok l.

  Lemma ctoks_app a b : ctoks (a ++ b) = ctoks a ++ ctoks b.
  Proof. unfold ctoks. apply flat_map_app. Qed.

  (* trees whose shape is `edges` *)
  Definition kids_of (n : Z) : list Z := match zget edges n with Some l => l | None => [] end.
  Inductive TreeOf : Z -> tree -> Prop :=
  | TO n ks : KidsOf n (kids_of n) ks -> TreeOf n (Node (aty n) (atk n) (rings n) ks)
  with KidsOf : Z -> list Z -> list (option token * tree) -> Prop :=
  | KO_nil n : KidsOf n [] []
  | KO_cons n c cs tc ks : TreeOf c tc -> KidsOf n cs ks -> KidsOf n (c :: cs) ((bnd n c, tc) :: ks).

  Scheme Ser_mut := Induction for Ser Sort Prop
  with SerSides_mut := Induction for SerSides Sort Prop.

  Lemma KidsOf_app n a b ka kb : KidsOf n a ka -> KidsOf n b kb -> KidsOf n (a ++ b) (ka ++ kb).
  Proof. intros Ha. induction Ha; intros Hb; cbn [app]; [exact Hb | constructor; auto]. Qed.

  Lemma wf_kids_app a b : wf_kids (a ++ b) = wf_kids a && wf_kids b.
  Proof. induction a as [|[x c] a IH]; cbn [app wf_kids]; [reflexivity|]. rewrite IH. rewrite andb_assoc. reflexivity. Qed.

  (* branches in front of further children *)
  Lemma spell_kids_front b c rest : rest <> [] ->
    spell_kids ((b, c) :: rest) = (2, PNone) :: (opt_bond b ++ spell c) ++ (3, PNone) :: spell_kids rest.
  Proof. intros H. cbn [spell_kids]. destruct rest; [contradiction | reflexivity]. Qed.

  Theorem ser_tree : forall n l, Ser edges n l ->
    exists ks, KidsOf n (kids_of n) ks /\ wf_kids ks = true /\ spell_kids ks = ctoks l.
  Proof.
    apply (Ser_mut edges
      (fun n l _ => exists ks, KidsOf n (kids_of n) ks /\ wf_kids ks = true /\ spell_kids ks = ctoks l)
      (fun n front ls _ => exists ks, KidsOf n front ks /\ wf_kids ks = true /\
                                      forall rest, rest <> [] -> spell_kids (ks ++ rest) = ctoks ls ++ spell_kids rest)).
    - intros n Hn. exists []. unfold kids_of. rewrite Hn. split; [constructor|]. split; reflexivity.
    - intros n children front last ls ll Hn Hch _ [kf [Kf [Wf Sf]]] _ [kl [Kl [Wl Sl]]].
      set (tl := Node (aty last) (atk last) (rings last) kl).
      exists (kf ++ [(bnd n last, tl)]). unfold kids_of. rewrite Hn, Hch. split; [|split].
      + apply KidsOf_app; [exact Kf|]. constructor; [constructor; exact Kl | constructor].
      + rewrite wf_kids_app, Wf. cbn [wf_kids andb]. rewrite Hbnd. unfold tl. rewrite wf_node, Haty, Hrings, Wl. reflexivity.
      + rewrite (Sf [(bnd n last, tl)]) by discriminate. rewrite !ctoks_app. f_equal.
        cbn [spell_kids]. unfold tl. rewrite spell_node, Sl. cbn [ctoks flat_map ctok app]. rewrite ?app_nil_r. rewrite <- ?app_assoc. cbn [app]. reflexivity.
    - intros n. exists []. split; [constructor|]. split; [reflexivity|]. intros rest _. reflexivity.
    - intros n c front lc l _ [kc [Kc [Wc Sc]]] _ [kf [Kf [Wf Sf]]].
      set (tc := Node (aty c) (atk c) (rings c) kc).
      exists ((bnd n c, tc) :: kf). split; [constructor; [constructor; exact Kc | exact Kf]|]. split.
      + cbn [wf_kids]. rewrite Hbnd, Wf. unfold tc. rewrite wf_node, Haty, Hrings, Wc. reflexivity.
      + intros rest Hr. cbn [app]. rewrite spell_kids_front by (destruct kf; [exact Hr | discriminate]).
        rewrite (Sf rest Hr). unfold tc. rewrite spell_node, Sc. unfold ctoks. cbn [flat_map ctok]. rewrite !flat_map_app. cbn [flat_map ctok app].
        rewrite ?app_nil_r. rewrite <- ?app_assoc. cbn [app]. rewrite <- ?app_assoc. cbn [app]. reflexivity.
  Qed.

  (* a whole component: the token list TAtom start :: l is the spelling of the tree below the start atom *)
  Theorem component_tree : forall start l, Ser edges start l ->
    exists t, TreeOf start t /\ wf_tree t = true /\ spell t = ctoks (TAtom start :: l).
  Proof.
    intros start l S. destruct (ser_tree start l S) as [ks [K [W Sp]]].
    exists (Node (aty start) (atk start) (rings start) ks). split; [constructor; exact K|]. split.
    - rewrite wf_node, Haty, Hrings, W. reflexivity.
    - rewrite spell_node, Sp. cbn [ctoks flat_map ctok]. rewrite <- ?app_assoc. cbn [app]. reflexivity.
  Qed.

  (* C03's read_spell_denote: the parser run on the tokens written is the denotation of the tree of the traversal *)
  Corollary component_parse_denote : forall start l strong, Ser edges start l ->
    exists t, TreeOf start t /\ parse (ctoks (TAtom start :: l)) strong = denote strong t.
  Proof.
    intros start l strong S. destruct (component_tree start l S) as [t [T [W Sp]]].
    exists t. split; [exact T|]. rewrite <- Sp. apply read_spell_denote. exact W.
  Qed.
End Tree.

(* for the flattening of any traversal *)
Theorem flatten_parse_denote : forall g t smi aty atk rings bnd strong,
  (forall n, zmem (aty n) [0; 8] = true) -> (forall n, forallb (fun r : option token * Z => bond_ok (fst r)) (rings n) = true) ->
  (forall p c, bond_ok (bnd p c) = true) ->
  flatten g t = Ok smi ->
  exists tr, TreeOf (ds_edges (tr_dfs t)) aty atk rings bnd (tr_start t) tr /\
             parse (ctoks aty atk rings bnd smi) strong = denote strong tr.
Proof.
  intros g t smi aty atk rings bnd strong H1 H2 H3 Hf.
  destruct (flatten_ser g t smi Hf) as [l [S ->]].
  apply (component_parse_denote _ aty atk rings bnd H1 H2 H3 _ l strong S).
Qed.
