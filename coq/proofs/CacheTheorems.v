(* C13 -- the statements of props/C13.v, derived from the world invariant (Proofs.CacheWorld). *)
From Coq Require Import ZArith List Bool Lia.
From Model Require Import PyBase Cache.
From Proofs Require Import CacheProofs CacheWf CacheCopy CacheCoh CacheWorld CacheUnion.
Import ListNotations.
Open Scope Z_scope.

Lemma live_units s o : In o (live s) -> In o (units s).
Proof. intros H. unfold units. apply in_flat_map. exists o. split; [assumption | now left]. Qed.
Lemma backup_units s o b : In o (live s) -> o_backup o = Some b -> In (bk_mobj b) (units s).
Proof. intros H E. unfold units. apply in_flat_map. exists o. split; [assumption|]. right. unfold shadow. rewrite E. now left. Qed.

(* ---- cache coherence, for any derive function that looks at what the key is computed from *)
Section Derive.
Variable value : Type.
Variable derive : key -> view -> value.
Hypothesis derive_respects : forall k a b, equiv_for k a b -> derive k a = derive k b.

Theorem cache_coherent : forall ops s, W s -> ops_ok s ops ->
  forall o, In o (live (run ops s)) ->
    (forall k snap, fc k = true -> cget (o_cache o) k = Some snap -> derive k snap = derive k (view_of (s_heap (run ops s)) o)) /\
    (o_backup o = None ->
     forall k snap, cget (o_cache o) k = Some snap -> derive k snap = derive k (view_of (s_heap (run ops s)) o)).
Proof.
  intros ops s Ws Ok o Ho. destruct (run_W ops s Ws Ok) as [F _]. rewrite Forall_forall in F.
  destruct (F o (live_units _ _ Ho)) as [_ [C1 C2]]. split.
  - intros k snap Fk Hc. apply derive_respects. now apply C1.
  - intros Eb k snap Hc. apply derive_respects. now apply C2.
Qed.
End Derive.

(* ---- the adjacency of every live molecule and of every transaction backup stays a symmetric, aliased, loop-free one over
   exactly the atoms; _changed names existing atoms only *)
Theorem adjacency_symmetric_aliased : forall ops s, W s -> ops_ok s ops ->
  forall o, In o (units (run ops s)) ->
    keys (o_adj o) = keys (o_atoms o) /\ NoDup (keys (o_atoms o)) /\
    (forall n m r, slot_of o n m = Some r -> slot_of o m n = Some r /\ n <> m /\ In m (keys (o_atoms o)) /\
                                             exists c, hget (s_heap (run ops s)) r = Some c) /\
    (forall l, o_changed o = Some l -> forall x, In x l -> In x (keys (o_atoms o))).
Proof.
  intros ops s Ws Ok o Ho. destruct (run_W ops s Ws Ok) as [F _]. rewrite Forall_forall in F.
  destruct (F o Ho) as [[Wf Cw] _]. pose proof Wf as Wf0. destruct Wf as [Wk Wnd Wsym Wloop Wval Wlt].
  split; [exact Wk|]. split; [rewrite <- Wk; apply Wnd|]. split; [|exact Cw].
  intros n m r H. rewrite !slot_of_aslot in *. split; [now apply Wsym|].
  split; [eapply wfa_neq; eauto|]. split; [eapply wfa_nbr_atom; eauto|]. apply Wval. eapply aslot_arefs; eauto.
Qed.

(* ---- no bond object is shared between two live molecules / backups *)
Lemma pdisj_In l : pdisj l -> forall l1 a l2, l = l1 ++ a :: l2 -> forall b, In b (l1 ++ l2) -> disj a b.
Proof.
  intros P l1 a l2 -> b Hb. apply pdisj_app in P. destruct P as [_ [[Pa _] Px]]. apply in_app_or in Hb. destruct Hb as [Hb|Hb].
  - apply disj_sym. apply Px; [assumption | now left].
  - now apply Pa.
Qed.
Theorem copy_separate : forall ops s, W s -> ops_ok s ops ->
  forall l1 a l2, units (run ops s) = l1 ++ a :: l2 -> forall b, In b (l1 ++ l2) ->
  forall r, In r (refs_of_adj (o_adj a)) -> ~ In r (refs_of_adj (o_adj b)).
Proof. intros ops s Ws Ok l1 a l2 E b Hb. destruct (run_W ops s Ws Ok) as [_ P]. exact (pdisj_In _ P l1 a l2 E b Hb). Qed.

(* a copy shows what its source shows and shares nothing with it *)
Theorem copy_independent : forall s, W s -> snd (step s OCopy) = None ->
  exists c, s_others (fst (step s OCopy)) = c :: s_others s /\ s_cur (fst (step s OCopy)) = s_cur s /\
    view_of (s_heap (fst (step s OCopy))) c = view_of (s_heap s) (s_cur s) /\
    view_of (s_heap (fst (step s OCopy))) (s_cur s) = view_of (s_heap s) (s_cur s) /\
    o_changed c = o_changed (s_cur s) /\ o_backup c = None /\ o_cache c = [] /\
    (forall r, In r (refs_of_adj (o_adj (s_cur s))) -> ~ In r (refs_of_adj (o_adj c))).
Proof.
  intros s Ws. pose proof (W_cur s Ws) as Uc. cbn [step]. destruct (copy_mol false false (s_heap s) (s_cur s)) as [[h1 b]|e] eqn:E; [|discriminate].
  intros _. destruct (copy_mol_spec _ _ _ _ _ _ (proj1 (proj1 Uc)) E) as [cb [Eb [Wb [X [Fr V]]]]]. exists b. cbn [fst s_others s_cur s_heap].
  split; [reflexivity|]. split; [reflexivity|]. split; [exact V|]. split.
  - apply view_of_ext. intros r Hr. apply X. eapply U_lt; eauto.
  - subst b. cbn [o_changed o_backup o_cache o_adj]. rewrite filter_kept_ff. repeat split. intros r H1 H2. apply Fr in H2.
    pose proof (U_lt _ _ _ Uc H1). lia.
Qed.

(* ---- frame: an operation on the current molecule does not touch the bond objects of anything else *)
Definition hframe (s s' : state) : Prop :=
  h_next (s_heap s) <= h_next (s_heap s') /\
  forall r, r < h_next (s_heap s) -> ~ In r (arefs (o_adj (s_cur s))) -> hget (s_heap s') r = hget (s_heap s) r.
Definition body_op (p : op) : bool :=
  match p with OEnter | OExitOk | OExitExn | OSwap | OUnion _ _ => false | _ => true end.

Lemma lift_frame a s : good1 a -> W s ->
  hframe s (fst (lift a s)) /\ o_backup (s_cur (fst (lift a s))) = o_backup (s_cur s) /\ s_others (fst (lift a s)) = s_others s.
Proof.
  intros G Ws. pose proof (W_cur s Ws) as Uc. unfold lift, hframe. specialize (G _ _ (proj1 Uc)).
  destruct (a (s_heap s) (s_cur s)) as [[h1 o1] e]. destruct G as [_ [[L _] [Un [_ B]]]]. cbn [fst s_heap s_cur s_others]. auto.
Qed.
Lemma hext_frame s h1 c : hext (s_heap s) h1 -> hframe s (mkS h1 (s_cur s) c).
Proof. intros [L E]. split; [exact L|]. intros r Hr _. now apply E. Qed.

Lemma frame_same s : hframe s s /\ o_backup (s_cur s) = o_backup (s_cur s) /\ exists pre : list mobj, s_others s = pre ++ s_others s.
Proof. split; [split; [lia | auto]|]. split; [reflexivity|]. exists []. reflexivity. Qed.
Lemma sub_step_frame_g rh ats s : W s ->
  hframe s (fst (sub_step_g rh ats s)) /\ o_backup (s_cur (fst (sub_step_g rh ats s))) = o_backup (s_cur s) /\
  exists pre, s_others (fst (sub_step_g rh ats s)) = pre ++ s_others s.
Proof.
  intros Ws. unfold sub_step_g. destruct s as [h o others]. cbn [s_heap s_cur s_others].
  destruct (substructure_g rh ats h o) as [[[h2 o2] e]|err] eqn:E; [|apply frame_same].
  destruct (W_sub_g rh ats h o others h2 o2 e Ws E) as [X _].
  destruct e as [e|]; cbn [fst]; (split; [now apply (hext_frame (mkS h o others))|]); (split; [reflexivity|]); [exists [] | exists [o2]]; reflexivity.
Qed.
Lemma sub_step_frame ats s : W s ->
  hframe s (fst (sub_step ats s)) /\ o_backup (s_cur (fst (sub_step ats s))) = o_backup (s_cur s) /\
  exists pre, s_others (fst (sub_step ats s)) = pre ++ s_others s.
Proof. apply sub_step_frame_g. Qed.

Lemma split_loop_frame cs : forall s old, W s -> (exists pre0, s_others s = pre0 ++ old) ->
  hext (s_heap s) (s_heap (fst (split_loop cs s old))) /\ s_cur (fst (split_loop cs s old)) = s_cur s /\
  exists pre, s_others (fst (split_loop cs s old)) = pre ++ old.
Proof.
  induction cs as [|c t IH]; intros [h o others] old Ws [pre0 Ep]; cbn [split_loop fst s_heap s_cur s_others] in *.
  - split; [apply hext_refl|]. split; [reflexivity|]. exists pre0. exact Ep.
  - destruct (substructure_g false c h o) as [[[h2 o2] e]|err] eqn:E;
      [|cbn [fst s_heap s_cur s_others]; split; [apply hext_refl|]; split; [reflexivity|]; exists []; reflexivity].
    destruct (W_sub_g false c h o others h2 o2 e Ws E) as [X K].
    destruct e as [e|]; [cbn [fst s_heap s_cur s_others]; split; [exact X|]; split; [reflexivity|]; exists []; reflexivity|].
    destruct (IH (mkS h2 o (o2 :: others)) old (K eq_refl)) as [X' [C' P']]; [exists (o2 :: pre0); cbn [s_others]; now rewrite Ep|].
    cbn [s_heap s_cur] in *. split; [eapply hext_trans; eauto|]. split; assumption.
Qed.

Lemma body_step s p : W s -> op_ok s p -> body_op p = true ->
  hframe s (fst (step s p)) /\ o_backup (s_cur (fst (step s p))) = o_backup (s_cur s) /\
  exists pre, s_others (fst (step s p)) = pre ++ s_others s.
Proof.
  intros Ws Ok Bp. pose proof (W_cur s Ws) as Uc. pose proof (frame_same s) as Same.
  assert (forall a, good1 a -> hframe s (fst (lift a s)) /\ o_backup (s_cur (fst (lift a s))) = o_backup (s_cur s) /\
                                exists pre, s_others (fst (lift a s)) = pre ++ s_others s) as L.
  { intros a G. destruct (lift_frame a s G Ws) as [A [B C]]. repeat split; try apply A; auto. exists []. exact C. }
  destruct p; cbn [body_op] in Bp; try discriminate; cbn [step].
  - apply L, read_good.
  - apply L, add_atom_good.
  - apply L, add_bond_good.
  - apply L, delete_atom_good.
  - apply L, delete_bond_good.
  - apply L, remap_good.
  - destruct (copy_mol false false (s_heap s) (s_cur s)) as [[h1 b]|e] eqn:E; cbn [fst].
    + destruct (copy_mol_spec _ _ _ _ _ _ (proj1 (proj1 Uc)) E) as [cb [_ [_ [X _]]]].
      split; [now apply hext_frame|]. split; [reflexivity|]. exists [b]. reflexivity.
    + split; [split; [lia | auto]|]. split; [reflexivity|]. exists []. reflexivity.
  - now apply sub_step_frame.
  - now apply sub_step_frame.
  - destruct (negb (subset_z ats (keys (o_atoms (s_cur s))))); [apply Same|].
    destruct (filter (fun n => negb (zmem n ats)) (keys (o_atoms (s_cur s)))); [apply Same | now apply sub_step_frame].
  - destruct (negb (subset_z ats (keys (o_adj (s_cur s))))); [apply Same|].
    destruct (aug_grow (o_adj (s_cur s)) ats deep); [now apply sub_step_frame | apply Same].
  - (* split *)
    destruct (L (read Kcc) (read_good Kcc)) as [[L1 U1] [B1 [pre1 P1]]].
    assert (W (fst (lift (read Kcc) s))) as W1 by (apply W_lift; [exact Ws | apply read_good | now apply read_HC]).
    destruct (split_loop_frame (comps (o_adj (s_cur (fst (lift (read Kcc) s))))) (fst (lift (read Kcc) s)) (s_others (fst (lift (read Kcc) s))) W1)
      as [[Lx Ex] [Cx [pre Px]]]; [exists []; reflexivity|].
    assert (s_heap (fst (lift (read Kcc) s)) = s_heap s /\ s_others (fst (lift (read Kcc) s)) = s_others s) as [Eh Eo]
      by (destruct s; split; reflexivity).
    rewrite Eh in *. split; [split; [exact Lx | intros r Hr _; now apply Ex]|]. split; [rewrite Cx; exact B1|]. exists pre. now rewrite Px, Eo.
  - now apply sub_step_frame_g.
  - apply L, flush_good.
  - apply L, set_charge_good.
  - apply L, set_radical_good.
  - apply L, patch_good.
  - apply L, (set_name_good (Some x)).
  - apply L, (set_meta_good (Some (zset (match o_meta (s_cur s) with Some d => d | None => [] end) k v))).
Qed.

(* editing the current molecule leaves what every other live molecule shows unchanged *)
Theorem edits_leave_others_alone : forall s p, W s -> op_ok s p -> body_op p = true ->
  forall o, In o (s_others s) ->
    In o (s_others (fst (step s p))) /\ view_of (s_heap (fst (step s p))) o = view_of (s_heap s) o.
Proof.
  intros s p Ws Ok Bp o Ho. destruct (body_step s p Ws Ok Bp) as [[L Un] [_ [pre Ep]]]. split.
  - rewrite Ep. apply in_or_app. now right.
  - apply view_of_ext. intros r Hr. destruct Ws as [F P]. rewrite Forall_forall in F.
    assert (In o (units s)) as Hu by (apply live_units; right; exact Ho).
    apply Un; [eapply U_lt; eauto|]. intros Hi.
    destruct s as [h c others]. unfold units, live in P. cbn [s_cur s_others flat_map] in *. unfold units_of at 1 in P. cbn [app] in P.
    destruct P as [P1 _]. refine (P1 o _ r Hi Hr). apply in_or_app. right. apply in_flat_map. exists o. split; [exact Ho | now left].
Qed.

(* ---- transactions: a block that raises restores exactly the prior molecule *)
Fixpoint body_ops (ops : list op) : bool := match ops with [] => true | p :: t => body_op p && body_ops t end.

Lemma body_run : forall ops s b, W s -> ops_ok s ops -> body_ops ops = true -> o_backup (s_cur s) = Some b ->
  o_backup (s_cur (run ops s)) = Some b /\ view_of (s_heap (run ops s)) (bk_mobj b) = view_of (s_heap s) (bk_mobj b).
Proof.
  unfold run. induction ops as [|p t IH]; intros s b Ws Ok Bo Eb; [split; [exact Eb | reflexivity]|].
  cbn [fold_left]. cbn [body_ops] in Bo. apply andb_true_iff in Bo. destruct Bo as [B1 B2]. destruct Ok as [O1 O2].
  destruct (body_step s p Ws O1 B1) as [[L Un] [Ebk _]].
  destruct (IH (fst (step s p)) b (step_W s p Ws O1) O2 B2) as [A1 A2]; [congruence|]. split; [exact A1|]. rewrite A2.
  apply view_of_ext. intros r Hr. destruct Ws as [F P]. rewrite Forall_forall in F.
  assert (In (bk_mobj b) (units s)) as Hu by (apply (backup_units s (s_cur s)); [now left | exact Eb]).
  apply Un; [eapply U_lt; eauto|]. intros Hi.
  destruct s as [h c others]. unfold units, live in P. cbn [s_cur s_others flat_map] in *. unfold units_of at 1 in P. cbn [app] in P.
  destruct P as [P1 _]. refine (P1 (bk_mobj b) _ r Hi Hr). apply in_or_app. left. unfold shadow. rewrite Eb. now left.
Qed.

Theorem transaction_atomic : forall s ops, W s -> snd (step s OEnter) = None ->
  ops_ok (fst (step s OEnter)) ops -> body_ops ops = true ->
  let s3 := fst (step (run ops (fst (step s OEnter))) OExitExn) in
  snd (step (run ops (fst (step s OEnter))) OExitExn) = None /\
  view_of (s_heap s3) (s_cur s3) = view_of (s_heap s) (s_cur s) /\           (* atoms with their stored fields, bonds, orders *)
  o_name (s_cur s3) = o_name (s_cur s) /\ o_meta (s_cur s3) = o_meta (s_cur s) /\
  o_changed (s_cur s3) = o_changed (s_cur s) /\ o_backup (s_cur s3) = None /\
  o_cache (s_cur s3) = filter (kept true true) (o_cache (s_cur s)) /\       (* the ring family and the components survive *)
  W s3.
Proof.
  intros s ops Ws En Ok Bo. pose proof (W_cur s Ws) as Uc.
  pose proof (step_W s OEnter Ws I) as W1. cbn [step] in *. unfold lift, enter in *.
  destruct (o_backup (s_cur s)) as [b0|] eqn:Eb0; [discriminate|].
  destruct (copy_mol true true (s_heap s) (s_cur s)) as [[h1 b]|e] eqn:E; [|discriminate].
  destruct (copy_mol_spec _ _ _ _ _ _ (proj1 (proj1 Uc)) E) as [cb [Eb [_ [_ [_ V]]]]]. cbn [ok fst snd] in *.
  set (bkv := mkBk (o_atoms b) (o_adj b) (o_cache b) (o_changed b) (o_name b) (o_meta b)) in *.
  set (s1 := mkS h1 (set_backup (s_cur s) (Some bkv)) (s_others s)) in *.
  destruct (body_run ops s1 bkv W1 Ok Bo eq_refl) as [A1 A2].
  pose proof (run_W ops s1 W1 Ok) as W2. pose proof (step_W _ OExitExn W2 I) as W3. cbn [step] in W3. unfold lift, exit_exn in *.
  rewrite A1 in *. cbn [ok fst snd s_heap s_cur] in *.
  split; [reflexivity|]. split.
  - change (mkM (bk_atoms bkv) (bk_adj bkv) (bk_cache bkv) (bk_changed bkv) None (bk_name bkv) (bk_meta bkv)) with (bk_mobj bkv).
    rewrite A2. unfold s1. cbn [s_heap]. subst b. exact V.
  - subst b. split; [reflexivity|]. split; [reflexivity|]. split; [reflexivity|]. split; [reflexivity|]. split; [reflexivity|]. exact W3.
Qed.
