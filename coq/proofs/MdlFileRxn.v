(* C11: whole RD files with REACTION records (V2000): RDFWrite then RDFRead. *)
From Coq Require Import ZArith List String Ascii Bool Lia.
From Model Require Import PyBase Mdl.
From Gen Require Import MdlTables.
From Proofs Require Import MdlProofs MdlV2000 MdlV3000 MdlTail MdlFraming MdlFramingExt MdlMeta MdlFile MdlFileMol MdlRxn.
Import ListNotations.
Open Scope Z_scope.
Local Notation length := List.length.
Local Notation concat := List.concat.

Definition wmol_ok2 (g : wmol) (fs : list (fval * fval * fval)) : Prop :=
  wf_wmol2 g fs /\ name_ok (wm_name g) /\ Forall coords_nonl (wm_atoms g).

(* the five conditions on every line of a structure block that the RD file theorem needs *)
Definition line_ok (l : str) : Prop := nonl l = true /\ is_fmt l = false /\ is_dtype l = false.

Lemma mol_lines_line_ok mapping g fs lines : wmol_ok2 g fs -> write_mol_v2000 mapping g = Ok lines -> Forall line_ok lines.
Proof.
  intros [W [Hn Hc]] Hw.
  pose proof (write_mol_v2000_lines_ok mapping g fs lines (w2_atoms _ _ W) Hn Hw) as Hok.
  pose proof (write_mol_v2000_nonl mapping g fs lines (w2_atoms _ _ W) Hc (proj1 Hn) Hw) as Hnl.
  pose proof (ml_fmt _ Hok) as H1. pose proof (ml_dtype _ Hok) as H2.
  rewrite Forall_forall in *. intros l Hl. repeat split; auto.
Qed.

Lemma rxn_counts_v2000_head r : exists c rest, rxn_counts_v2000 r = c :: rest /\ field_char c.
Proof.
  unfold rxn_counts_v2000. destruct (fmt_d_head 3 (Z.of_nat (length (wr_reactants r)))) as [c [rest [E Hc]]].
  rewrite E. cbn [app]. eexists. eexists. split; [reflexivity | exact Hc].
Qed.
Lemma rxn_counts_v2000_nonl r : nonl (rxn_counts_v2000 r) = true.
Proof. unfold rxn_counts_v2000. rewrite !nonl_app, !nonl_fmt_d. destruct (wr_reagents r); [reflexivity | apply nonl_fmt_d]. Qed.
Lemma rxn_counts_v2000_not_marker p r : marker_dollar_or_M p -> startswith p (rxn_counts_v2000 r) = false.
Proof.
  intros [c [p' [-> Hc]]]. destruct (rxn_counts_v2000_head r) as [d [rest [E Hd]]]. rewrite E.
  apply startswith_first_ne. destruct (field_char_not_marker d Hd) as [H1 H2]. destruct Hc as [-> | ->]; intros X; subst; contradiction.
Qed.

Definition rxn_name_ok (name : str) : Prop := nonl name = true /\ is_fmt name = false /\ is_dtype name = false.

Lemma rxn_lines_line_ok mapping r fr fp fg lines :
  Forall2 wmol_ok2 (wr_reactants r) fr -> Forall2 wmol_ok2 (wr_products r) fp -> Forall2 wmol_ok2 (wr_reagents r) fg ->
  rxn_name_ok (wr_name r) -> rxn_lines_v2000 mapping r = Ok lines ->
  Forall line_ok lines /\ nth_error lines 0 = Some (L "$RXN") /\ nth_error lines 4 = Some (rxn_counts_v2000 r).
Proof.
  intros Hr Hp Hg Hn. unfold rxn_lines_v2000.
  destruct (mapM (write_mol_v2000 mapping) (rxn_mols r)) as [ms|e] eqn:Hm; cbn [bind]; [|discriminate].
  intros H. apply MdlFileMol.Ok_inj in H. subst lines. split; [|split; reflexivity].
  apply Forall_app. split.
  - destruct Hn as [N1 [N2 N3]].
    constructor; [repeat split; reflexivity|]. constructor; [repeat split; assumption|].
    constructor; [repeat split; reflexivity|]. constructor; [repeat split; reflexivity|]. constructor; [|constructor].
    split; [apply rxn_counts_v2000_nonl|]. split.
    + unfold is_fmt. rewrite !rxn_counts_v2000_not_marker by (apply marker_lit; left; reflexivity). reflexivity.
    + unfold is_dtype. apply rxn_counts_v2000_not_marker. apply marker_lit. left. reflexivity.
  - (* every molecule block, preceded by its "$MOL" line *)
    assert (Hall : Forall2 wmol_ok2 (rxn_mols r) (fr ++ fp ++ fg)).
    { unfold rxn_mols. apply Forall2_app; [exact Hr|]. apply Forall2_app; assumption. }
    apply mapM_Forall2 in Hm. clear - Hm Hall. revert Hall. generalize (fr ++ fp ++ fg). induction Hm as [|g ls mols ms Hw _ IH]; intros fs Hall.
    + constructor.
    + inversion Hall as [|? f ? fs' Hg Hall']; subst. cbn [map concat]. apply Forall_app. split; [|apply (IH fs' Hall')].
      constructor; [repeat split; reflexivity|]. eapply mol_lines_line_ok; eassumption.
Qed.

Definition rxn_in := (wrxn * (list (list (fval * fval * fval)) * list (list (fval * fval * fval)) * list (list (fval * fval * fval))) * list (str * list str))%type.
Definition ri_rxn (x : rxn_in) := fst (fst x).
Definition ri_fr (x : rxn_in) := fst (fst (snd (fst x))).
Definition ri_fp (x : rxn_in) := snd (fst (snd (fst x))).
Definition ri_fg (x : rxn_in) := snd (snd (fst x)).
Definition ri_entries (x : rxn_in) := snd x.

Definition rxn_expected2 (mapping : bool) (x : rxn_in) : rparsed :=
  mk_rparsed (map2 (expected_mol2 mapping) (wr_reactants (ri_rxn x)) (ri_fr x))
             (map2 (expected_mol2 mapping) (wr_products (ri_rxn x)) (ri_fp x))
             (map2 (expected_mol2 mapping) (wr_reagents (ri_rxn x)) (ri_fg x))
             (title_of (wr_name (ri_rxn x))) 0.

(* a reaction record RDFWrite can write and RDFRead can frame *)
Definition rdf_rxn_wf (buffer_size hlen : nat) (mapping : bool) (x : rxn_in) : Prop :=
  let r := ri_rxn x in
  Forall2 wmol_ok2 (wr_reactants r) (ri_fr x) /\ Forall2 wmol_ok2 (wr_products r) (ri_fp x) /\ Forall2 wmol_ok2 (wr_reagents r) (ri_fg x) /\
  (length (wr_reactants r) <= 999)%nat /\ (length (wr_products r) <= 999)%nat /\ (length (wr_reagents r) <= 999)%nat /\
  rxn_mols r <> [] /\ rxn_name_ok (wr_name r) /\
  Forall rdf_entry_ok (ri_entries x) /\ Forall (fun e => Forall (fun l => is_fmt l = false) (tl (snd e))) (ri_entries x) /\
  (forall lines, rxn_lines_v2000 mapping r = Ok lines ->
     (S hlen + (length lines + length (concat (map rdf_entry_lines (ri_entries x)))) < buffer_size)%nat).

Lemma Forall2_weaken {X Y} (P Q : X -> Y -> Prop) l l' : (forall x y, P x y -> Q x y) -> Forall2 P l l' -> Forall2 Q l l'.
Proof. intros H. induction 1; constructor; auto. Qed.

Lemma rdf_rxn_rrec buffer_size hlen mapping x : rdf_rxn_wf buffer_size hlen mapping x ->
  exists rr, rrec_ok buffer_size hlen rr /\
    rdf_rxn_text mapping (ri_rxn x) (meta_of (ri_entries x)) = Ok (rrec_text rr) /\
    forall A (build : parsed3 -> pyres A) (build_rxn : rparsed -> pyres A),
      rrec_result A build build_rxn rr =
      match build_rxn (rxn_expected2 mapping x) with Ok o => inl (o, meta_spec (ri_entries x)) | Err e => inr (Py e) end.
Proof.
  intros [Hr [Hp [Hg [N1 [N2 [N3 [Hne [Hname [Hent [Hval Hsize]]]]]]]]]].
  assert (W : forall ms fs, Forall2 wmol_ok2 ms fs -> Forall2 wf_wmol2 ms fs) by (intros ms fs; apply Forall2_weaken; intros g f [H _]; exact H).
  destruct (rxn_v2000_fields_roundtrip mapping (ri_rxn x) (ri_fr x) (ri_fp x) (ri_fg x) (W _ _ Hr) (W _ _ Hp) (W _ _ Hg) N1 N2 N3 Hne) as [lines [Hw Hparse]].
  destruct (rxn_lines_line_ok mapping _ _ _ _ lines Hr Hp Hg Hname Hw) as [Hok [H0 H4]].
  exists (mk_rrec (L "$RFMT") lines (ri_entries x)). split; [|split].
  - constructor; cbn [rr_fmt rr_struct rr_entries].
    + reflexivity.
    + apply nl_not_in_lit. reflexivity.
    + eapply Forall_impl; [|exact Hok]. intros l [_ [H _]]. exact H.
    + eapply Forall_impl; [|exact Hok]. intros l [_ [_ H]]. exact H.
    + destruct lines; [discriminate H0 | discriminate].
    + eapply Forall_impl; [|exact Hok]. intros l [H _]. apply nonl_iff. exact H.
    + exact Hent.
    + exact Hval.
    + unfold rrec_lines. cbn [rr_struct rr_entries]. rewrite app_length. apply Hsize. exact Hw.
  - rewrite (rdf_rxn_text_lines mapping _ _ lines Hw). unfold rrec_text. cbn [rr_fmt rr_struct rr_entries]. reflexivity.
  - intros A build build_rxn. unfold rrec_result, rrec_lines. cbn [rr_struct rr_entries]. rewrite map_app.
    assert (N : forall k l, nth_error lines k = Some l ->
                nth_error (map add_nl lines ++ map add_nl (concat (map rdf_entry_lines (ri_entries x)))) k = Some (add_nl l)).
    { intros k l Hk. rewrite nth_error_app1 by (rewrite map_length; apply nth_error_Some; rewrite Hk; discriminate). rewrite nth_error_map, Hk. reflexivity. }
    unfold rdf_dispatch. rewrite (N _ _ H0). cbn [of_opt bind].
    change (startswith (L "$RXN") (add_nl (L "$RXN"))) with true. cbv iota.
    rewrite (N _ _ H4). cbn [of_opt bind]. rewrite startswith_add_nl by reflexivity.
    rewrite rxn_counts_v2000_not_marker by (apply marker_lit; right; reflexivity).
    rewrite Hparse. cbn [bind]. reflexivity.
Qed.

(* rdf_file_roundtrip, reaction records: the header, then what RDFWrite wrote for each reaction *)
Theorem rdf_v2000_rxn_file_roundtrip A (build : parsed3 -> pyres A) (build_rxn : rparsed -> pyres A) buffer_size mapping header (recs : list rxn_in) :
  Forall (fun l => ~ In nl l /\ is_fmt l = false /\ startswith (L "$RXN") l = false) header ->
  Forall (rdf_rxn_wf buffer_size (length header) mapping) recs ->
  exists texts, mapM (fun x => rdf_rxn_text mapping (ri_rxn x) (meta_of (ri_entries x))) recs = Ok texts /\
    rdf_read A build build_rxn buffer_size (readlines (text_of_lines header ++ concat texts)) =
    collect A (map (fun x => match build_rxn (rxn_expected2 mapping x) with Ok o => inl (o, meta_spec (ri_entries x)) | Err e => inr (Py e) end) recs).
Proof.
  intros Hh H.
  assert (G : exists rrs, Forall (rrec_ok buffer_size (length header)) rrs /\
              mapM (fun x => rdf_rxn_text mapping (ri_rxn x) (meta_of (ri_entries x))) recs = Ok (map rrec_text rrs) /\
              map (rrec_result A build build_rxn) rrs =
              map (fun x => match build_rxn (rxn_expected2 mapping x) with Ok o => inl (o, meta_spec (ri_entries x)) | Err e => inr (Py e) end) recs).
  { induction H as [|r recs Hr _ [rrs [F1 [F2 F3]]]].
    - exists []. repeat split; constructor.
    - destruct (rdf_rxn_rrec _ _ _ _ Hr) as [rr [Ha [Hb Hc]]]. exists (rr :: rrs). split; [constructor; assumption|]. split.
      + cbn [mapM map]. rewrite Hb. cbn [bind]. rewrite F2. cbn [bind]. reflexivity.
      + cbn [map]. rewrite Hc, F3. reflexivity. }
  destruct G as [rrs [F1 [F2 F3]]]. exists (map rrec_text rrs). split; [exact F2|].
  change (text_of_lines header ++ concat (map rrec_text rrs)) with (rdfile_text header rrs).
  rewrite rdf_file_roundtrip_generic by assumption. rewrite F3. reflexivity.
Qed.
