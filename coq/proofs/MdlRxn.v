(* C11: reaction blocks ($RXN / $RXN V3000): writers RDFWrite.write / ERDFWrite.write (reaction branch) against
   parse_rxn_v2000 / parse_rxn_v3000 (Model.Mdl).
   Part A  the LINES of the reaction block the writers emit, and the bridge to the written text
   Part B  the molecule-finding loop (rxn_loop) on a sequence of written blocks
   Part C  rxn_v2000_fields_roundtrip
   Part D  rxn_v3000_fields_roundtrip
   Part E  concrete instances *)
From Coq Require Import ZArith List String Ascii Bool Lia.
From Model Require Import PyBase Mdl.
From Gen Require Import MdlTables.
From Proofs Require Import MdlProofs MdlV2000 MdlV3000 MdlTail.
Import ListNotations.
Open Scope Z_scope.
Local Notation length := List.length.
Local Notation concat := List.concat.

(* ================================================================================================ *)
(** * Part A: the lines of a reaction block *)

Definition rxn_mols (r : wrxn) : list wmol := wr_reactants r ++ wr_products r ++ wr_reagents r.

Definition rxn_counts_v2000 (r : wrxn) : str :=
  fmt_d 3 (Z.of_nat (length (wr_reactants r))) ++ fmt_d 3 (Z.of_nat (length (wr_products r))) ++
  (match wr_reagents r with [] => [] | _ => fmt_d 3 (Z.of_nat (length (wr_reagents r))) end).

(* the reaction block of RDFWrite.write, after the "$RFMT" line and before the metadata *)
Definition rxn_lines_v2000 (mapping : bool) (r : wrxn) : pyres (list str) :=
  do ms <- mapM (write_mol_v2000 mapping) (rxn_mols r);
  Ok ([L "$RXN"; wr_name r; []; []; rxn_counts_v2000 r] ++ concat (map (fun ls => L "$MOL" :: ls) ms)).

Definition rxn_counts_v3000 (r : wrxn) : str :=
  L "M  V30 COUNTS " ++ zstr (Z.of_nat (length (wr_reactants r))) ++ [sp] ++ zstr (Z.of_nat (length (wr_products r))) ++
  (match wr_reagents r with [] => [] | _ => [sp] ++ zstr (Z.of_nat (length (wr_reagents r))) end).

(* the reaction block of ERDFWrite.write, after the "$RFMT" line and before the metadata *)
Definition rxn_lines_v3000 (mapping : bool) (r : wrxn) : pyres (list str) :=
  do rs <- mapM (write_ctab_v3000 mapping) (wr_reactants r);
  do ps <- mapM (write_ctab_v3000 mapping) (wr_products r);
  do gs <- mapM (write_ctab_v3000 mapping) (wr_reagents r);
  Ok ([L "$RXN V3000"; wr_name r; []; []; rxn_counts_v3000 r; L "M  V30 BEGIN REACTANT"] ++ concat rs ++
      [L "M  V30 END REACTANT"; L "M  V30 BEGIN PRODUCT"] ++ concat ps ++ [L "M  V30 END PRODUCT"] ++
      (match wr_reagents r with [] => [] | _ => [L "M  V30 BEGIN AGENT"] ++ concat gs ++ [L "M  V30 END AGENT"] end) ++
      [L "M  END"]).

Lemma Ok_inj {A} (a b : A) : Ok a = Ok b -> a = b.
Proof. intros H. inversion H. reflexivity. Qed.

Lemma tol_app a b : text_of_lines (a ++ b) = text_of_lines a ++ text_of_lines b.
Proof. unfold text_of_lines. rewrite map_app, concat_app. reflexivity. Qed.
Lemma tol_cons x l : text_of_lines (x :: l) = x ++ [nl] ++ text_of_lines l.
Proof. unfold text_of_lines. cbn [map concat]. unfold add_nl. rewrite <- app_assoc. reflexivity. Qed.

Lemma mapM_bind_map {A B C} (f : A -> pyres B) (h : B -> C) l :
  mapM (fun x => do y <- f x; Ok (h y)) l = (do ys <- mapM f l; Ok (map h ys)).
Proof.
  induction l as [|x l IH]; cbn [mapM]; [reflexivity|]. destruct (f x) as [y|e]; cbn [bind]; [|reflexivity].
  rewrite IH. destruct (mapM f l) as [ys|e]; cbn [bind map]; reflexivity.
Qed.

Lemma concat_mol_text ms :
  concat (map (fun ls => L "$MOL" ++ [nl] ++ text_of_lines ls) ms) = text_of_lines (concat (map (fun ls => L "$MOL" :: ls) ms)).
Proof.
  induction ms as [|ls ms IH]; [reflexivity|]. cbn [map concat]. rewrite IH.
  change ((L "$MOL" :: ls) ++ concat (map (fun ls0 => L "$MOL" :: ls0) ms)) with (L "$MOL" :: (ls ++ concat (map (fun ls0 => L "$MOL" :: ls0) ms))).
  rewrite tol_cons, tol_app, <- !app_assoc. reflexivity.
Qed.

(* the text RDFWrite.write emits for a reaction is "$RFMT", the lines of the block, the metadata *)
Theorem rdf_rxn_text_lines mapping r meta lines : rxn_lines_v2000 mapping r = Ok lines ->
  rdf_rxn_text mapping r meta = Ok (L "$RFMT" ++ [nl] ++ text_of_lines lines ++ rdf_meta_text meta).
Proof.
  unfold rxn_lines_v2000, rdf_rxn_text. cbv zeta. fold (rxn_mols r). rewrite mapM_bind_map.
  destruct (mapM (write_mol_v2000 mapping) (rxn_mols r)) as [ms|e]; cbn [bind]; [|discriminate].
  intros H. apply Ok_inj in H. subst. rewrite tol_app, concat_mol_text, <- !app_assoc. reflexivity.
Qed.
(* and conversely: whenever the writer succeeds, its text has this form *)
Theorem rdf_rxn_text_lines_inv mapping r meta t : rdf_rxn_text mapping r meta = Ok t ->
  exists lines, rxn_lines_v2000 mapping r = Ok lines /\ t = L "$RFMT" ++ [nl] ++ text_of_lines lines ++ rdf_meta_text meta.
Proof.
  unfold rxn_lines_v2000, rdf_rxn_text. cbv zeta. fold (rxn_mols r). rewrite mapM_bind_map.
  destruct (mapM (write_mol_v2000 mapping) (rxn_mols r)) as [ms|e]; cbn [bind]; [|discriminate].
  intros H. apply Ok_inj in H. subst. eexists. split; [reflexivity|]. rewrite tol_app, concat_mol_text, <- !app_assoc. reflexivity.
Qed.

Theorem erdf_rxn_text_lines mapping r meta lines : rxn_lines_v3000 mapping r = Ok lines ->
  erdf_rxn_text mapping r meta = Ok (L "$RFMT" ++ [nl] ++ text_of_lines lines ++ rdf_meta_text meta).
Proof.
  unfold rxn_lines_v3000, erdf_rxn_text. cbv zeta.
  destruct (mapM (write_ctab_v3000 mapping) (wr_reactants r)) as [rs|e]; cbn [bind]; [|discriminate].
  destruct (mapM (write_ctab_v3000 mapping) (wr_products r)) as [ps|e]; cbn [bind]; [|discriminate].
  destruct (mapM (write_ctab_v3000 mapping) (wr_reagents r)) as [gs|e]; cbn [bind]; [|discriminate].
  intros H. apply Ok_inj in H. subst. reflexivity.
Qed.
Theorem erdf_rxn_text_lines_inv mapping r meta t : erdf_rxn_text mapping r meta = Ok t ->
  exists lines, rxn_lines_v3000 mapping r = Ok lines /\ t = L "$RFMT" ++ [nl] ++ text_of_lines lines ++ rdf_meta_text meta.
Proof.
  unfold rxn_lines_v3000, erdf_rxn_text. cbv zeta.
  destruct (mapM (write_ctab_v3000 mapping) (wr_reactants r)) as [rs|e]; cbn [bind]; [|discriminate].
  destruct (mapM (write_ctab_v3000 mapping) (wr_products r)) as [ps|e]; cbn [bind]; [|discriminate].
  destruct (mapM (write_ctab_v3000 mapping) (wr_reagents r)) as [gs|e]; cbn [bind]; [|discriminate].
  intros H. apply Ok_inj in H. subst. eexists. split; reflexivity.
Qed.

(* ================================================================================================ *)
(** * Part B: the molecule-finding loop on a sequence of written blocks *)

Lemma find_line_skip p a x b : forall i, Forall (fun l => startswith p l = false) a -> startswith p x = true ->
  find_line p (a ++ x :: b) i = Some (i + length a)%nat.
Proof.
  induction a as [|y a IH]; intros i Ha Hx; cbn [app find_line length].
  - rewrite Hx. f_equal. lia.
  - inversion Ha as [|? ? Hy Ha']; subst. rewrite Hy, IH by assumption. f_equal. lia.
Qed.

Lemma skipn_app_plus {A} (a b : list A) k : skipn (length a + k) (a ++ b) = skipn k b.
Proof. induction a as [|x a IH]; [reflexivity|]. cbn [length Nat.add app skipn]. exact IH. Qed.
Lemma skipn_app_le {A} (a b : list A) k : (k <= length a)%nat -> skipn k (a ++ b) = skipn k a ++ b.
Proof. intros H. rewrite skipn_app. replace (k - length a)%nat with 0%nat by lia. reflexivity. Qed.
Lemma Forall_skipn {A} (P : A -> Prop) l : forall n, Forall P l -> Forall P (skipn n l).
Proof.
  induction l as [|x l IH]; intros n H; destruct n; cbn [skipn]; try assumption. inversion H; subst. apply IH. assumption.
Qed.

Record item := mk_item { it_hd : str; it_body : list str; it_m : parsed3 }.
Definition it_lines (it : item) : list str := it_hd it :: it_body it.

Section Loop.
  Variables (pm : list str -> pyres parsed3) (marker : str) (off1 bias : nat).

  Definition nomark (l : str) : Prop := startswith marker l = false.
  (* one written block: its first line carries the marker; the molecule parser is given the block from line `bias` on,
     followed by all the rest of the data; the search for the next marker resumes at line off1 + 2 * bias of the block *)
  Definition item_ok (it : item) : Prop :=
    startswith marker (it_hd it) = true /\
    (off1 + 2 * bias <= S (length (it_body it)))%nat /\
    Forall nomark (skipn (off1 + 2 * bias) (it_lines it)) /\
    forall tail, pm (skipn bias (it_lines it) ++ tail) = Ok (it_m it).

  Lemma rxn_loop_items data items : forall ns P J mols rc pc gc lg s tail,
    length ns = length items -> Forall item_ok items -> Forall nomark J -> length P = (s + off1)%nat ->
    data = P ++ J ++ concat (map it_lines items) ++ tail ->
    exists s' P' J',
      foldM (rxn_loop pm marker off1 (off1 + bias) bias data) ns (mk_rs s mols rc pc gc lg) =
        Ok (mk_rs s' (mols ++ map it_m items) rc pc gc lg) /\
      length P' = (s' + off1)%nat /\ Forall nomark J' /\ data = P' ++ J' ++ tail.
  Proof.
    induction items as [|a items IH]; intros ns P J mols rc pc gc lg s tail Hns Hok HJ HP Hdata.
    - destruct ns; [|discriminate Hns]. exists s, P, J. cbn [foldM map]. rewrite app_nil_r. cbn [map concat app] in Hdata. auto.
    - destruct ns as [|n ns]; [discriminate Hns|]. cbn [length] in Hns.
      pose proof (Forall_inv Hok) as [Hhd [Hlen [Hnm Hpm]]]. pose proof (Forall_inv_tail Hok) as Hok'.
      set (rest := concat (map it_lines items) ++ tail).
      assert (Hd : data = P ++ J ++ it_hd a :: it_body a ++ rest).
      { rewrite Hdata. cbn [map concat]. unfold it_lines at 1. subst rest. rewrite <- app_assoc. reflexivity. }
      cbn [foldM]. unfold rxn_loop at 1. cbn [rs_start rs_mols rs_rc rs_pc rs_gc rs_log].
      assert (Hs : skipn (s + off1) data = J ++ it_hd a :: it_body a ++ rest).
      { rewrite Hd. apply skipn_app_exact. exact HP. }
      rewrite Hs. rewrite find_line_skip by assumption. cbn [of_opt bind].
      assert (Hst : skipn (s + (off1 + bias) + length J) data = skipn bias (it_lines a) ++ rest).
      { replace (s + (off1 + bias) + length J)%nat with (length (P ++ J) + bias)%nat by (rewrite app_length; lia).
        rewrite Hd, app_assoc, skipn_app_plus.
        change (it_hd a :: it_body a ++ rest) with (it_lines a ++ rest).
        apply skipn_app_le. unfold it_lines. cbn [length]. lia. }
      rewrite Hst, Hpm. cbv beta iota. cbn [bind].
      set (K := (off1 + 2 * bias)%nat) in *.
      assert (HK : (K <= length (it_lines a))%nat) by (unfold it_lines; cbn [length]; exact Hlen).
      destruct (IH ns ((P ++ J) ++ firstn K (it_lines a)) (skipn K (it_lines a)) (mols ++ [it_m a]) rc pc gc lg
                   (s + (off1 + bias) + length J + bias)%nat tail) as [s' [P' [J' [Hf [HP' [HJ' Hd']]]]]].
      + lia.
      + exact Hok'.
      + exact Hnm.
      + rewrite !app_length, firstn_length_le by exact HK. subst K. lia.
      + rewrite Hd. change (it_hd a :: it_body a ++ rest) with (it_lines a ++ rest). subst rest.
        rewrite <- (firstn_skipn K (it_lines a)) at 1. rewrite <- !app_assoc. reflexivity.
      + exists s', P', J'. rewrite Hf. cbn [map]. rewrite <- app_assoc. cbn [app]. auto.
  Qed.
End Loop.

(* ================================================================================================ *)
(** * Part C: $RXN (V2000) *)

(* the hypotheses of v2000_fields_roundtrip on one molecule *)
Record wf_wmol2 (g : wmol) (fs : list (fval * fval * fval)) : Prop := {
  w2_atoms : Forall2 wf_atom (wm_atoms g) fs;
  w2_ne : wm_atoms g <> [];
  w2_na : (length (wm_atoms g) <= 999)%nat;
  w2_nb : (length (wm_bonds g) <= 999)%nat;
  w2_nd : NoDup (map wa_num (wm_atoms g));
  w2_bonds : Forall (bond_ok (wm_atoms g)) (wm_bonds g);
  w2_wedge : Forall (wedge_ok (wm_atoms g) (wm_bonds g)) (wm_wedge g);
  w2_cnt : (length (wm_wedge g) + length (plain_bonds g) = length (wm_bonds g))%nat }.

(* the value the block theorems (v2000_fields_roundtrip, v3000_fields_roundtrip and their _tail forms) state *)
Definition expected_mol (title : option str) (mapping : bool) (g : wmol) (fs : list (fval * fval * fval)) : parsed :=
  mk_parsed title
            (map2 (expected_atom mapping) (wm_atoms g) fs)
            (map (exp_wedge_bond (wm_atoms g) (wm_bonds g)) (wm_wedge g) ++ map (exp_plain_bond (wm_atoms g)) (plain_bonds g))
            (map (exp_wedge_stereo (wm_atoms g)) (wm_wedge g))
            [].
(* a molecule of a $RXN block: V2000 molecules carry their title and no CTAB metadata *)
Definition expected_mol2 (mapping : bool) (g : wmol) (fs : list (fval * fval * fval)) : parsed3 :=
  mk_parsed3 (expected_mol (title_of (wm_name g)) mapping g fs) [].
(* a CTAB of a $RXN V3000 block: no title *)
Definition expected_ctab3 (mapping : bool) (g : wmol) (fs : list (fval * fval * fval)) : parsed3 :=
  mk_parsed3 (expected_mol None mapping g fs) [].

Definition pm2 (d : list str) : pyres parsed3 := lift2 (parse_mol_v2000 d).

Lemma skipn_plus {A} a b (l : list A) : skipn (a + b) l = skipn b (skipn a l).
Proof.
  revert l. induction a as [|a IH]; intros l; [reflexivity|]. destruct l as [|x l]; cbn [Nat.add skipn]; [destruct b; reflexivity | apply IH].
Qed.

Lemma field_char_not_dollar c : field_char c -> Ascii.eqb "$"%char c = false.
Proof.
  intros [[H | ->] | ->]; try reflexivity. apply is_digit_cases in H. cbn in H.
  repeat (destruct H as [<- | H]; [reflexivity|]). contradiction.
Qed.
Lemma fmt_d_not_mol w i rest : startswith (L "$MOL") (fmt_d w i ++ rest) = false.
Proof.
  pose proof (fmt_d_chars w i) as Hc.
  assert (Hne : fmt_d w i <> []).
  { unfold fmt_d, rjust. intros E. apply app_eq_nil in E. destruct E as [_ E]. exact (zstr_nonempty i E). }
  destruct (fmt_d w i) as [|c q]; [contradiction|]. inversion Hc as [|? ? H _]; subst.
  change (L "$MOL") with ("$"%char :: L "MOL"). cbn [app startswith]. rewrite field_char_not_dollar by exact H. reflexivity.
Qed.

Lemma atom_lines_nomark atoms fs : Forall2 wf_atom atoms fs -> forall al, Forall2 starts_x atoms al ->
  Forall (fun l => nomark (L "$MOL") (add_nl l)) al.
Proof.
  induction 1 as [|a f atoms fs [W _] _ IH]; intros al Hal; inversion Hal as [|? l ? al' [rr ->] Hal']; subst; constructor.
  - unfold nomark, add_nl. rewrite <- app_assoc. change (L "$MOL") with ("$"%char :: L "MOL").
    destruct W. eapply py_float_not_dollar_p. eassumption.
  - apply IH. exact Hal'.
Qed.

Lemma Forall_map_intro {A B} (P : B -> Prop) (h : A -> B) l : Forall (fun x => P (h x)) l -> Forall P (map h l).
Proof. induction 1; cbn [map]; constructor; assumption. Qed.

Lemma mol2_item mapping g fs : wf_wmol2 g fs ->
  exists ls, write_mol_v2000 mapping g = Ok ls /\
    item_ok pm2 (L "$MOL") 4 1 (mk_item (add_nl (L "$MOL")) (map add_nl ls) (expected_mol2 mapping g fs)).
Proof.
  intros W. destruct W.
  destruct (v2000_fields_roundtrip_tail mapping g fs w2_atoms0 w2_ne0 w2_na0 w2_nb0 w2_nd0 w2_bonds0 w2_wedge0 w2_cnt0) as [ls [Hw Hp]].
  exists ls. split; [exact Hw|].
  destruct (write_mol_v2000_shape mapping g ls Hw) as [_ [al [bl [pl [E [Hlen [Hal [Hbl Hpl]]]]]]]].
  unfold item_ok. cbn [it_hd it_body it_m]. change (4 + 2 * 1)%nat with 6%nat. split; [reflexivity|]. split; [|split].
  - rewrite map_length, E, !app_length, Hlen. cbn [length]. destruct (wm_atoms g); [contradiction | cbn [length]; lia].
  - change (Forall (nomark (L "$MOL")) (skipn (4 + 1) (map add_nl ls))). rewrite skipn_plus. apply Forall_skipn.
    rewrite E, map_app. rewrite skipn_app_exact by reflexivity.
    apply Forall_map_intro. apply Forall_app. split; [eapply atom_lines_nomark; eassumption|].
    apply Forall_app. split.
    { eapply Forall_impl; [|exact Hbl]. intros l [i [rr ->]]. unfold nomark, add_nl. rewrite <- app_assoc. apply fmt_d_not_mol. }
    apply Forall_app. split.
    { eapply Forall_impl; [|exact Hpl]. intros l [rr [-> | [-> | ->]]]; reflexivity. }
    constructor; [reflexivity | constructor].
  - intros tail. change (pm2 (map add_nl ls ++ tail) = Ok (expected_mol2 mapping g fs)). unfold pm2. rewrite Hp. reflexivity.
Qed.

Definition mol_block (ls : list str) : list str := L "$MOL" :: ls.

Lemma mols2_items mapping gs fss : Forall2 wf_wmol2 gs fss ->
  exists ms items, mapM (write_mol_v2000 mapping) gs = Ok ms /\
    Forall (item_ok pm2 (L "$MOL") 4 1) items /\
    map it_m items = map2 (expected_mol2 mapping) gs fss /\
    concat (map it_lines items) = map add_nl (concat (map mol_block ms)) /\
    length items = length gs.
Proof.
  induction 1 as [|g fs gs fss W _ [ms [items [Hm [Hok [Hmi [Hcat Hlen]]]]]]].
  - exists [], []. repeat split. constructor.
  - destruct (mol2_item mapping g fs W) as [ls [Hw Hi]].
    exists (ls :: ms), (mk_item (add_nl (L "$MOL")) (map add_nl ls) (expected_mol2 mapping g fs) :: items).
    cbn [mapM]. rewrite Hw, Hm. cbn [bind]. split; [reflexivity|]. split; [constructor; assumption|].
    cbn [map map2 concat length]. rewrite Hmi, Hcat, Hlen. split; [reflexivity|]. split; [|reflexivity].
    unfold it_lines, mol_block. cbn [it_hd it_body]. rewrite map_app. reflexivity.
Qed.

Lemma map2_app {A B C} (R : A -> B -> Prop) (f : A -> B -> C) a fa b fb :
  Forall2 R a fa -> map2 f (a ++ b) (fa ++ fb) = map2 f a fa ++ map2 f b fb.
Proof. induction 1 as [|x y a fa _ _ IH]; [reflexivity|]. cbn [app map2]. rewrite IH. reflexivity. Qed.
Lemma map2_length {A B C} (R : A -> B -> Prop) (f : A -> B -> C) a fa : Forall2 R a fa -> length (map2 f a fa) = length a.
Proof. induction 1 as [|x y a fa _ _ IH]; [reflexivity|]. cbn [map2 length]. rewrite IH. reflexivity. Qed.

Lemma split_roles {A} (a b c : list A) :
  firstn (length a) (a ++ b ++ c) = a /\ lslice (length a) (length a + length b) (a ++ b ++ c) = b /\
  skipn (length a + length b) (a ++ b ++ c) = c.
Proof.
  split; [apply firstn_app_exact; reflexivity|]. split; [apply lslice_mid; reflexivity|].
  rewrite app_assoc. apply skipn_app_exact. apply app_length.
Qed.

Lemma rstrip_fmt_d_nl w n : rstrip (fmt_d w n ++ [nl]) = fmt_d w n.
Proof.
  unfold rstrip. rewrite rstrip_by_app_all by (repeat constructor).
  unfold fmt_d, rjust. destruct (tail_ok_zstr n) as [q [d [E [Hd _]]]]. rewrite E, app_assoc. apply rstrip_by_stop. exact Hd.
Qed.

Lemma rxn_counts_v2000_parse r :
  (length (wr_reactants r) <= 999)%nat -> (length (wr_products r) <= 999)%nat -> (length (wr_reagents r) <= 999)%nat ->
  py_int (slice 0 3 (add_nl (rxn_counts_v2000 r))) = Ok (Z.of_nat (length (wr_reactants r))) /\
  py_int (slice 3 6 (add_nl (rxn_counts_v2000 r))) = Ok (Z.of_nat (length (wr_products r))) /\
  (match rstrip (slice_from 6 (add_nl (rxn_counts_v2000 r))) with [] => Ok 0 | t => py_int t end) = Ok (Z.of_nat (length (wr_reagents r))).
Proof.
  intros Hr Hp Hg. unfold rxn_counts_v2000, add_nl. rewrite <- !app_assoc.
  pose proof (fmt_d3_len (Z.of_nat (length (wr_reactants r))) ltac:(lia)) as L1.
  pose proof (fmt_d3_len (Z.of_nat (length (wr_products r))) ltac:(lia)) as L2.
  split; [|split].
  - rewrite slice_0_app by exact L1. apply py_int_fmt_d.
  - rewrite (slice_drop' _ _ 3 3 6 0 3) by (exact L1 || reflexivity). rewrite slice_0_app by exact L2. apply py_int_fmt_d.
  - rewrite app_assoc. rewrite slice_from_app by (rewrite app_length, L1, L2; reflexivity).
    destruct (wr_reagents r) as [|g gs] eqn:E; [reflexivity|]. rewrite <- E in *.
    rewrite rstrip_fmt_d_nl.
    pose proof (fmt_d3_len (Z.of_nat (length (wr_reagents r))) ltac:(lia)) as L3.
    pose proof (py_int_fmt_d 3 (Z.of_nat (length (wr_reagents r)))) as P3.
    destruct (fmt_d 3 (Z.of_nat (length (wr_reagents r)))); [discriminate L3 | exact P3].
Qed.

Theorem rxn_v2000_fields_roundtrip mapping r fr fp fg :
  Forall2 wf_wmol2 (wr_reactants r) fr -> Forall2 wf_wmol2 (wr_products r) fp -> Forall2 wf_wmol2 (wr_reagents r) fg ->
  (length (wr_reactants r) <= 999)%nat -> (length (wr_products r) <= 999)%nat -> (length (wr_reagents r) <= 999)%nat ->
  rxn_mols r <> [] ->
  exists lines, rxn_lines_v2000 mapping r = Ok lines /\
    forall tail, parse_rxn_v2000 (map add_nl lines ++ tail) =
      Ok (mk_rparsed (map2 (expected_mol2 mapping) (wr_reactants r) fr)
                     (map2 (expected_mol2 mapping) (wr_products r) fp)
                     (map2 (expected_mol2 mapping) (wr_reagents r) fg)
                     (title_of (wr_name r)) 0).
Proof.
  intros Wr Wp Wg Hr Hp Hg Hne.
  assert (Wall : Forall2 wf_wmol2 (rxn_mols r) (fr ++ fp ++ fg)).
  { unfold rxn_mols. apply Forall2_app; [exact Wr|]. apply Forall2_app; assumption. }
  destruct (mols2_items mapping _ _ Wall) as [ms [items [Hm [Hok [Hmi [Hcat Hlen]]]]]].
  unfold rxn_lines_v2000. rewrite Hm. cbn [bind]. eexists. split; [reflexivity|]. intros tail.
  fold mol_block.
  set (nr := length (wr_reactants r)) in *. set (np := length (wr_products r)) in *. set (ng := length (wr_reagents r)) in *.
  assert (Htot : length (rxn_mols r) = (nr + np + ng)%nat) by (unfold rxn_mols; rewrite !app_length; lia).
  assert (Hpos : (0 < nr + np + ng)%nat) by (rewrite <- Htot; destruct (rxn_mols r); [contradiction | cbn [length]; lia]).
  match goal with |- parse_rxn_v2000 ?d = _ => set (data := d) end.
  assert (Hdata : data = [add_nl (L "$RXN"); add_nl (wr_name r); add_nl []; add_nl []] ++ [add_nl (rxn_counts_v2000 r)] ++
                         concat (map it_lines items) ++ tail).
  { subst data. rewrite Hcat, map_app. reflexivity. }
  assert (H4 : nth_error data 4 = Some (add_nl (rxn_counts_v2000 r))) by (rewrite Hdata; reflexivity).
  assert (H1 : nth_error data 1 = Some (add_nl (wr_name r))) by (rewrite Hdata; reflexivity).
  destruct (rxn_counts_v2000_parse r Hr Hp Hg) as [C1 [C2 C3]]. fold nr np ng in C1, C2, C3.
  unfold parse_rxn_v2000. rewrite H4. cbn [of_opt bind]. rewrite C1. cbn [bind]. rewrite C2. cbn [bind]. rewrite C3. cbn [bind].
  cbv zeta.
  replace (Z.of_nat ng + (Z.of_nat np + Z.of_nat nr) =? 0) with false by (symmetry; apply Z.eqb_neq; lia).
  rewrite H1. cbn [of_opt bind].
  replace ((Z.of_nat nr <? 0) || (Z.of_nat np + Z.of_nat nr <? Z.of_nat nr) ||
           (Z.of_nat ng + (Z.of_nat np + Z.of_nat nr) <? Z.of_nat np + Z.of_nat nr)) with false
    by (symmetry; repeat (apply orb_false_intro); apply Z.ltb_ge; lia).
  destruct (rxn_loop_items pm2 (L "$MOL") 4 1 data items
              (nat_range (Z.to_nat (Z.of_nat ng + (Z.of_nat np + Z.of_nat nr))))
              [add_nl (L "$RXN"); add_nl (wr_name r); add_nl []; add_nl []] [add_nl (rxn_counts_v2000 r)]
              [] (Z.of_nat nr) (Z.of_nat np + Z.of_nat nr) (Z.of_nat ng + (Z.of_nat np + Z.of_nat nr)) 0%nat 0%nat tail)
    as [s' [P' [J' [Hf _]]]].
  - unfold nat_range. rewrite seq_length, Hlen, Htot. lia.
  - exact Hok.
  - constructor; [| constructor]. unfold nomark, add_nl, rxn_counts_v2000. rewrite <- !app_assoc. apply fmt_d_not_mol.
  - reflexivity.
  - exact Hdata.
  - change (fun d => lift2 (parse_mol_v2000 d)) with pm2. change 5%nat with (4 + 1)%nat. rewrite Hf. cbn [bind].
    unfold rxn_result. cbn [rs_rc rs_pc rs_mols rs_log].
    replace ((Z.of_nat nr <? 0) || (Z.of_nat np + Z.of_nat nr <? Z.of_nat nr)) with false
      by (symmetry; apply orb_false_intro; apply Z.ltb_ge; lia).
    cbv zeta. rewrite Nat2Z.id. replace (Z.to_nat (Z.of_nat np + Z.of_nat nr)) with (nr + np)%nat by lia.
    cbn [app]. rewrite Hmi. unfold rxn_mols. rewrite (map2_app _ _ _ _ _ _ Wr), (map2_app _ _ _ _ _ _ Wp).
    set (A := map2 (expected_mol2 mapping) (wr_reactants r) fr).
    set (B := map2 (expected_mol2 mapping) (wr_products r) fp).
    set (C := map2 (expected_mol2 mapping) (wr_reagents r) fg).
    assert (LA : length A = nr) by (subst A nr; eapply map2_length; exact Wr).
    assert (LB : length B = np) by (subst B np; eapply map2_length; exact Wp).
    destruct (split_roles A B C) as [S1 [S2 S3]]. rewrite LA, LB in *. rewrite S1, S2, S3, title_add_nl. reflexivity.
Qed.

(* ================================================================================================ *)
(** * Part D: $RXN V3000 *)

(* the hypotheses of v3000_fields_roundtrip on one molecule *)
Record wf_wmol3 (g : wmol) (fs : list (fval * fval * fval)) : Prop := {
  w3_atoms : Forall2 wf3_atom (wm_atoms g) fs;
  w3_ne : wm_atoms g <> [];
  w3_nd : NoDup (map wa_num (wm_atoms g));
  w3_bonds : Forall (bond_ok (wm_atoms g)) (wm_bonds g);
  w3_wedge : Forall (wedge_ok (wm_atoms g) (wm_bonds g)) (wm_wedge g);
  w3_cnt : (length (wm_wedge g) + length (plain_bonds g) = length (wm_bonds g))%nat }.

Definition marker3 : str := L "M  V30 BEGIN CTAB".
Definition pm3 : list str -> pyres parsed3 := parse_ctab_v3000 None.

Lemma startswith_mismatch p1 c p2 d s : Ascii.eqb c d = false -> startswith (p1 ++ c :: p2) (p1 ++ d :: s) = false.
Proof.
  intros H. induction p1 as [|x p1 IH]; cbn [app startswith]; [rewrite H; reflexivity|]. rewrite ascii_eqb_refl. exact IH.
Qed.
Lemma num_char_not_B c : num_char c -> Ascii.eqb "B"%char c = false.
Proof.
  intros [H | ->]; [|reflexivity]. apply is_digit_cases in H. cbn in H.
  repeat (destruct H as [<- | H]; [reflexivity|]). contradiction.
Qed.
(* atom and bond lines of a CTAB do not look like the beginning of a CTAB *)
Lemma v30_num_nomark l : starts_v30_num l -> nomark marker3 (add_nl l).
Proof.
  intros [n [rr ->]]. pose proof (zstr_nonempty n) as Hne. pose proof (zstr_chars n) as Hc.
  destruct (zstr n) as [|c z]; [contradiction|]. inversion Hc as [|? ? H _]; subst.
  unfold nomark, add_nl, marker3. rewrite <- !app_assoc, <- app_comm_cons.
  change (L "M  V30 BEGIN CTAB") with (L "M  V30 " ++ "B"%char :: L "EGIN CTAB").
  apply startswith_mismatch. apply num_char_not_B. exact H.
Qed.

Lemma ctab3_item mapping g fs : wf_wmol3 g fs ->
  exists body, write_ctab_v3000 mapping g = Ok (L "M  V30 BEGIN CTAB" :: body) /\
    item_ok pm3 marker3 5 0 (mk_item (add_nl (L "M  V30 BEGIN CTAB")) (map add_nl body) (expected_ctab3 mapping g fs)).
Proof.
  intros W. destruct W.
  destruct (v3000_ctab_roundtrip_tail mapping g fs w3_atoms0 w3_ne0 w3_nd0 w3_bonds0 w3_wedge0 w3_cnt0) as [ls [Hw Hp]].
  destruct (write_ctab_v3000_shape mapping g ls Hw) as [al [bl [E [Hlen [Hal Hbl]]]]].
  set (cnt := L "M  V30 COUNTS " ++ zstr (Z.of_nat (length (wm_atoms g))) ++ [sp] ++ zstr (Z.of_nat (length (wm_bonds g))) ++ L " 0 0 0") in *.
  set (body := [cnt; L "M  V30 BEGIN ATOM"] ++ al ++ [L "M  V30 END ATOM"; L "M  V30 BEGIN BOND"] ++ bl ++ [L "M  V30 END BOND"; L "M  V30 END CTAB"]).
  assert (E' : ls = L "M  V30 BEGIN CTAB" :: body) by (rewrite E; reflexivity).
  exists body. split; [rewrite Hw, E'; reflexivity|].
  unfold item_ok. cbn [it_hd it_body it_m]. change (5 + 2 * 0)%nat with 5%nat. split; [reflexivity|]. split; [|split].
  - rewrite map_length. subst body. rewrite !app_length. cbn [length]. lia.
  - change (Forall (nomark marker3) (skipn 4 (map add_nl body))). apply Forall_skipn. apply Forall_map_intro.
    subst body. apply Forall_app. split.
    { constructor; [|constructor; [reflexivity | constructor]]. subst cnt. unfold nomark, add_nl. rewrite <- !app_assoc. reflexivity. }
    apply Forall_app. split; [eapply Forall_impl; [|exact Hal]; apply v30_num_nomark|].
    apply Forall_app. split; [repeat constructor|].
    apply Forall_app. split; [eapply Forall_impl; [|exact Hbl]; apply v30_num_nomark|]. repeat constructor.
  - intros tail. change (parse_ctab_v3000 None (map add_nl (L "M  V30 BEGIN CTAB" :: body) ++ tail) = Ok (expected_ctab3 mapping g fs)).
    rewrite <- E'. apply Hp.
Qed.

Lemma ctabs3_items mapping gs fss : Forall2 wf_wmol3 gs fss ->
  exists cs items, mapM (write_ctab_v3000 mapping) gs = Ok cs /\
    Forall (item_ok pm3 marker3 5 0) items /\
    map it_m items = map2 (expected_ctab3 mapping) gs fss /\
    concat (map it_lines items) = map add_nl (concat cs) /\
    length items = length gs.
Proof.
  induction 1 as [|g fs gs fss W _ [cs [items [Hm [Hok [Hmi [Hcat Hlen]]]]]]].
  - exists [], []. repeat split. constructor.
  - destruct (ctab3_item mapping g fs W) as [body [Hw Hi]].
    exists ((L "M  V30 BEGIN CTAB" :: body) :: cs), (mk_item (add_nl (L "M  V30 BEGIN CTAB")) (map add_nl body) (expected_ctab3 mapping g fs) :: items).
    cbn [mapM]. rewrite Hw, Hm. cbn [bind]. split; [reflexivity|]. split; [constructor; assumption|].
    cbn [map map2 concat length]. rewrite Hmi, Hcat, Hlen. split; [reflexivity|]. split; [|reflexivity].
    unfold it_lines. cbn [it_hd it_body]. rewrite map_app. reflexivity.
Qed.

(** ** the counts line `M  V30 COUNTS nr np[ ng]` read by data[4][13:].split() *)
Lemma skip13_counts x : slice_from 13 (L "M  V30 COUNTS " ++ x) = sp :: x.
Proof. reflexivity. Qed.
Lemma split_ws_aux_sp0 s : split_ws_aux (sp :: s) [] = split_ws_aux s [].
Proof. reflexivity. Qed.
Lemma split_ws_aux_nl_end cur : cur <> [] -> split_ws_aux [nl] cur = [rev cur].
Proof. intros H. destruct cur; [contradiction | reflexivity]. Qed.

Lemma rxn_counts_v3000_split r :
  split_ws (slice_from 13 (add_nl (rxn_counts_v3000 r))) =
  [zstr (Z.of_nat (length (wr_reactants r))); zstr (Z.of_nat (length (wr_products r)))] ++
  (match wr_reagents r with [] => [] | _ => [zstr (Z.of_nat (length (wr_reagents r)))] end).
Proof.
  unfold rxn_counts_v3000, add_nl. rewrite <- !app_assoc, skip13_counts. unfold split_ws. rewrite split_ws_aux_sp0.
  rewrite split_ws_aux_tok by apply zstr_no_space. rewrite app_nil_r. cbn [app].
  rewrite split_ws_aux_sp by (apply rev_nonempty, zstr_nonempty). rewrite rev_involutive. f_equal.
  rewrite split_ws_aux_tok by apply zstr_no_space. rewrite app_nil_r.
  destruct (wr_reagents r) as [|g gs] eqn:E.
  - cbn [app]. rewrite split_ws_aux_nl_end by (apply rev_nonempty, zstr_nonempty). rewrite rev_involutive. reflexivity.
  - rewrite <- E. rewrite <- app_comm_cons.
    rewrite split_ws_aux_sp by (apply rev_nonempty, zstr_nonempty). rewrite rev_involutive. f_equal.
    rewrite split_ws_aux_tok by apply zstr_no_space. rewrite app_nil_r.
    rewrite split_ws_aux_nl_end by (apply rev_nonempty, zstr_nonempty). rewrite rev_involutive. reflexivity.
Qed.

Lemma rxn_counts_v3000_parse r :
  let tmp := split_ws (slice_from 13 (add_nl (rxn_counts_v3000 r))) in
  nth_error tmp 0 = Some (zstr (Z.of_nat (length (wr_reactants r)))) /\
  nth_error tmp 1 = Some (zstr (Z.of_nat (length (wr_products r)))) /\
  (match tmp with [_; _; t2] => py_int t2 | _ => Ok 0 end) = Ok (Z.of_nat (length (wr_reagents r))).
Proof.
  cbv zeta. rewrite rxn_counts_v3000_split. destruct (wr_reagents r) as [|g gs] eqn:E.
  - repeat split.
  - rewrite <- E. cbn [app nth_error]. rewrite py_int_zstr. repeat split.
Qed.

Lemma junk_nomark3 :
  Forall (nomark marker3) (map add_nl [L "M  V30 END REACTANT"; L "M  V30 BEGIN PRODUCT"; L "M  V30 END PRODUCT"; L "M  V30 BEGIN AGENT"]).
Proof. repeat constructor. Qed.

Theorem rxn_v3000_fields_roundtrip mapping r fr fp fg :
  Forall2 wf_wmol3 (wr_reactants r) fr -> Forall2 wf_wmol3 (wr_products r) fp -> Forall2 wf_wmol3 (wr_reagents r) fg ->
  rxn_mols r <> [] ->
  exists lines, rxn_lines_v3000 mapping r = Ok lines /\
    forall tail, parse_rxn_v3000 (map add_nl lines ++ tail) =
      Ok (mk_rparsed (map2 (expected_ctab3 mapping) (wr_reactants r) fr)
                     (map2 (expected_ctab3 mapping) (wr_products r) fp)
                     (map2 (expected_ctab3 mapping) (wr_reagents r) fg)
                     (title_of (wr_name r)) 0).
Proof.
  intros Wr Wp Wg Hne.
  destruct (ctabs3_items mapping _ _ Wr) as [rs [ir [Hrs [Hokr [Hmr [Hcr Hlr]]]]]].
  destruct (ctabs3_items mapping _ _ Wp) as [ps [ip [Hps [Hokp [Hmp [Hcp Hlp]]]]]].
  destruct (ctabs3_items mapping _ _ Wg) as [gs [ig [Hgs [Hokg [Hmg [Hcg Hlg]]]]]].
  unfold rxn_lines_v3000. rewrite Hrs, Hps, Hgs. cbn [bind]. eexists. split; [reflexivity|]. intros tail.
  set (nr := length (wr_reactants r)) in *. set (np := length (wr_products r)) in *. set (ng := length (wr_reagents r)) in *.
  assert (Htot : length (rxn_mols r) = (nr + np + ng)%nat) by (unfold rxn_mols; rewrite !app_length; lia).
  assert (Hpos : (0 < nr + np + ng)%nat) by (rewrite <- Htot; destruct (rxn_mols r); [contradiction | cbn [length]; lia]).
  match goal with |- parse_rxn_v3000 ?d = _ => set (data := d) end.
  set (H6 := [add_nl (L "$RXN V3000"); add_nl (wr_name r); add_nl []; add_nl []; add_nl (rxn_counts_v3000 r); add_nl (L "M  V30 BEGIN REACTANT")]).
  set (J12 := map add_nl [L "M  V30 END REACTANT"; L "M  V30 BEGIN PRODUCT"]).
  set (T2 := map add_nl ([L "M  V30 END PRODUCT"] ++
                         (match wr_reagents r with [] => [] | _ => [L "M  V30 BEGIN AGENT"] ++ concat gs ++ [L "M  V30 END AGENT"] end) ++
                         [L "M  END"]) ++ tail).
  assert (Hdata : data = H6 ++ [] ++ concat (map it_lines ir) ++ (J12 ++ concat (map it_lines ip) ++ T2)).
  { subst data H6 J12 T2. rewrite Hcr, Hcp. rewrite !map_app, <- !app_assoc. reflexivity. }
  assert (H4 : nth_error data 4 = Some (add_nl (rxn_counts_v3000 r))) by (rewrite Hdata; reflexivity).
  assert (H1 : nth_error data 1 = Some (add_nl (wr_name r))) by (rewrite Hdata; reflexivity).
  destruct (rxn_counts_v3000_parse r) as [C1 [C2 C3]]. fold nr np ng in C1, C2, C3.
  unfold parse_rxn_v3000. rewrite H4. cbn [of_opt bind]. cbv zeta.
  rewrite C1. cbn [of_opt bind]. rewrite py_int_zstr. cbn [bind]. rewrite C2. cbn [of_opt bind]. rewrite py_int_zstr. cbn [bind].
  rewrite C3. cbn [bind].
  replace (Z.of_nat ng + (Z.of_nat np + Z.of_nat nr) =? 0) with false by (symmetry; apply Z.eqb_neq; lia).
  rewrite H1. cbn [of_opt bind].
  replace ((Z.of_nat nr <? 0) || (Z.of_nat np + Z.of_nat nr <? Z.of_nat nr) ||
           (Z.of_nat ng + (Z.of_nat np + Z.of_nat nr) <? Z.of_nat np + Z.of_nat nr)) with false
    by (symmetry; repeat (apply orb_false_intro); apply Z.ltb_ge; lia).
  set (GC := Z.of_nat ng + (Z.of_nat np + Z.of_nat nr)). set (PC := Z.of_nat np + Z.of_nat nr). set (RC := Z.of_nat nr).
  replace (nat_range (Z.to_nat GC)) with (seq 0 nr ++ seq nr np ++ seq (nr + np) ng).
  2:{ unfold nat_range. replace (Z.to_nat GC) with (nr + (np + ng))%nat by (subst GC; lia). rewrite !seq_app. reflexivity. }
  pose proof junk_nomark3 as JN. cbn [map] in JN.
  pose proof (Forall_inv JN) as JN1. pose proof (Forall_inv (Forall_inv_tail JN)) as JN2.
  pose proof (Forall_inv (Forall_inv_tail (Forall_inv_tail JN))) as JN3.
  pose proof (Forall_inv (Forall_inv_tail (Forall_inv_tail (Forall_inv_tail JN)))) as JN4.
  (* reactants *)
  destruct (rxn_loop_items pm3 marker3 5 0 data ir (seq 0 nr) H6 [] [] RC PC GC 0%nat 1%nat
              (J12 ++ concat (map it_lines ip) ++ T2))
    as [s1 [P1 [J1 [Hf1 [HP1 [HJ1 Hd1]]]]]];
    [rewrite seq_length; symmetry; exact Hlr | exact Hokr | constructor | reflexivity | exact Hdata |].
  (* products *)
  destruct (rxn_loop_items pm3 marker3 5 0 data ip (seq nr np) P1 (J1 ++ J12) ([] ++ map it_m ir) RC PC GC 0%nat s1 T2)
    as [s2 [P2 [J2 [Hf2 [HP2 [HJ2 Hd2]]]]]];
    [rewrite seq_length; symmetry; exact Hlp | exact Hokp | | exact HP1 | rewrite Hd1 at 1; rewrite <- !app_assoc; reflexivity |].
  { apply Forall_app. split; [exact HJ1|]. subst J12. cbn [map]. repeat constructor; assumption. }
  (* reagents *)
  assert (H3 : exists s3, foldM (rxn_loop pm3 marker3 5 (5 + 0) 0 data) (seq (nr + np) ng)
                                (mk_rs s2 (([] ++ map it_m ir) ++ map it_m ip) RC PC GC 0) =
                          Ok (mk_rs s3 ((([] ++ map it_m ir) ++ map it_m ip) ++ map it_m ig) RC PC GC 0)).
  { destruct (wr_reagents r) as [|g0 gs0] eqn:Eg.
    - assert (ng = 0%nat) by (subst ng; first [rewrite Eg; reflexivity | reflexivity]).
      destruct ig; [|rewrite H in Hlg; discriminate Hlg]. rewrite H. exists s2. cbn [seq foldM map]. rewrite app_nil_r. reflexivity.
    - destruct (rxn_loop_items pm3 marker3 5 0 data ig (seq (nr + np) ng) P2
                  (J2 ++ map add_nl [L "M  V30 END PRODUCT"; L "M  V30 BEGIN AGENT"])
                  (([] ++ map it_m ir) ++ map it_m ip) RC PC GC 0%nat s2
                  (map add_nl [L "M  V30 END AGENT"; L "M  END"] ++ tail))
        as [s3 [P3 [J3 [Hf3 _]]]];
        [rewrite seq_length; symmetry; exact Hlg | exact Hokg | | exact HP2 | | exists s3; exact Hf3].
      + apply Forall_app. split; [exact HJ2|]. cbn [map]. repeat constructor; assumption.
      + rewrite Hd2 at 1. subst T2. rewrite Hcg, !map_app, <- !app_assoc. reflexivity. }
  destruct H3 as [s3 Hf3].
  change (5 + 0)%nat with 5%nat in Hf1, Hf2, Hf3. fold pm3. fold marker3.
  rewrite foldM_app, Hf1. cbn [bind]. rewrite foldM_app, Hf2. cbn [bind]. rewrite Hf3. cbn [bind].
  unfold rxn_result. cbn [rs_rc rs_pc rs_mols rs_log]. subst RC PC GC.
  replace ((Z.of_nat nr <? 0) || (Z.of_nat np + Z.of_nat nr <? Z.of_nat nr)) with false
    by (symmetry; apply orb_false_intro; apply Z.ltb_ge; lia).
  cbv zeta. rewrite Nat2Z.id. replace (Z.to_nat (Z.of_nat np + Z.of_nat nr)) with (nr + np)%nat by lia.
  cbn [app]. rewrite Hmr, Hmp, Hmg, <- app_assoc.
  set (A := map2 (expected_ctab3 mapping) (wr_reactants r) fr).
  set (B := map2 (expected_ctab3 mapping) (wr_products r) fp).
  set (C := map2 (expected_ctab3 mapping) (wr_reagents r) fg).
  assert (LA : length A = nr) by (subst A nr; eapply map2_length; exact Wr).
  assert (LB : length B = np) by (subst B np; eapply map2_length; exact Wp).
  destruct (split_roles A B C) as [S1 [S2 S3]]. rewrite LA, LB in *. rewrite S1, S2, S3, title_add_nl. reflexivity.
Qed.

(* the expected values above are those of the block theorems *)
Corollary mol2_block_roundtrip mapping g fs : wf_wmol2 g fs ->
  exists lines, write_mol_v2000 mapping g = Ok lines /\
    forall tail, lift2 (parse_mol_v2000 (map add_nl lines ++ tail)) = Ok (expected_mol2 mapping g fs).
Proof.
  intros W. destruct W.
  destruct (v2000_fields_roundtrip_tail mapping g fs w2_atoms0 w2_ne0 w2_na0 w2_nb0 w2_nd0 w2_bonds0 w2_wedge0 w2_cnt0) as [ls [Hw Hp]].
  exists ls. split; [exact Hw|]. intros tail. rewrite Hp. reflexivity.
Qed.
Corollary ctab3_block_roundtrip mapping g fs : wf_wmol3 g fs ->
  exists lines, write_ctab_v3000 mapping g = Ok lines /\
    forall tail, parse_ctab_v3000 None (map add_nl lines ++ tail) = Ok (expected_ctab3 mapping g fs).
Proof.
  intros W. destruct W.
  destruct (v3000_ctab_roundtrip_tail mapping g fs w3_atoms0 w3_ne0 w3_nd0 w3_bonds0 w3_wedge0 w3_cnt0) as [ls [Hw Hp]].
  exists ls. split; [exact Hw|]. intros tail. apply Hp.
Qed.

(* ================================================================================================ *)
(** * Part E: concrete instances (2 reactants, 1 product, 1 reagent; the reagent is NAMED "$MOL" and the tail, which
      stands for the metadata lines of the RDF record, contains lines that look like markers) *)

Definition ex_mol_named (name : str) (g : wmol) : wmol := mk_wmol name (wm_atoms g) (wm_wedge g) (wm_bonds g).
Definition ex_tail : list str := map add_nl [L "$DTYPE key"; L "$DATUM value"; L "$MOL"; L "M  V30 BEGIN CTAB"; L "M  END"].

Lemma ex_wf2 name : wf_wmol2 (ex_mol_named name ex_mol) ex_fs.
Proof.
  destruct ex_hypotheses as [H1 [H2 [H3 [H4 [H5 [H6 [H7 H8]]]]]]]. constructor; assumption.
Qed.
Lemma ex_wf3 name : wf_wmol3 (ex_mol_named name ex3_mol) ex3_fs.
Proof.
  destruct ex3_hypotheses as [H1 [H2 [H3 [H4 [H5 H6]]]]]. constructor; assumption.
Qed.

Definition ex_rxn2 : wrxn :=
  mk_wrxn (L " test rxn ") [ex_mol_named (L " test mol ") ex_mol; ex_mol_named (L "second") ex_mol]
          [ex_mol_named [] ex_mol] [ex_mol_named (L "$MOL") ex_mol].
Definition ex_rxn3 : wrxn :=
  mk_wrxn (L " test rxn ") [ex_mol_named (L " test mol ") ex3_mol; ex_mol_named (L "second") ex3_mol]
          [ex_mol_named [] ex3_mol] [ex_mol_named (L "M  V30 BEGIN CTAB") ex3_mol].

Definition with_title (t : option str) (p : parsed) : parsed3 :=
  mk_parsed3 (mk_parsed t (p_atoms p) (p_bonds p) (p_stereo p) (p_log p)) [].
Definition ex_rparsed2 : rparsed :=
  mk_rparsed [with_title (Some (L "test mol")) ex_parsed; with_title (Some (L "second")) ex_parsed]
             [with_title None ex_parsed] [with_title (Some (L "$MOL")) ex_parsed] (Some (L "test rxn")) 0.
Definition ex_rparsed3 : rparsed :=
  mk_rparsed [with_title None (p3 ex3_parsed); with_title None (p3 ex3_parsed)]
             [with_title None (p3 ex3_parsed)] [with_title None (p3 ex3_parsed)] (Some (L "test rxn")) 0.

Example ex_rxn2_roundtrip :
  exists lines, rxn_lines_v2000 true ex_rxn2 = Ok lines /\ parse_rxn_v2000 (map add_nl lines ++ ex_tail) = Ok ex_rparsed2.
Proof.
  destruct (rxn_v2000_fields_roundtrip true ex_rxn2 [ex_fs; ex_fs] [ex_fs] [ex_fs]) as [lines [Hw Hp]].
  - repeat (apply Forall2_cons; [apply ex_wf2|]); apply Forall2_nil.
  - repeat (apply Forall2_cons; [apply ex_wf2|]); apply Forall2_nil.
  - repeat (apply Forall2_cons; [apply ex_wf2|]); apply Forall2_nil.
  - cbn. lia.
  - cbn. lia.
  - cbn. lia.
  - discriminate.
  - exists lines. split; [exact Hw|]. rewrite Hp. vm_compute. reflexivity.
Qed.
Example ex_rxn2_computed :
  match rxn_lines_v2000 true ex_rxn2 with Ok l => parse_rxn_v2000 (map add_nl l ++ ex_tail) | Err e => Err e end = Ok ex_rparsed2.
Proof. vm_compute. reflexivity. Qed.

Example ex_rxn3_roundtrip :
  exists lines, rxn_lines_v3000 true ex_rxn3 = Ok lines /\ parse_rxn_v3000 (map add_nl lines ++ ex_tail) = Ok ex_rparsed3.
Proof.
  destruct (rxn_v3000_fields_roundtrip true ex_rxn3 [ex3_fs; ex3_fs] [ex3_fs] [ex3_fs]) as [lines [Hw Hp]].
  - repeat (apply Forall2_cons; [apply ex_wf3|]); apply Forall2_nil.
  - repeat (apply Forall2_cons; [apply ex_wf3|]); apply Forall2_nil.
  - repeat (apply Forall2_cons; [apply ex_wf3|]); apply Forall2_nil.
  - discriminate.
  - exists lines. split; [exact Hw|]. rewrite Hp. vm_compute. reflexivity.
Qed.
Example ex_rxn3_computed :
  match rxn_lines_v3000 true ex_rxn3 with Ok l => parse_rxn_v3000 (map add_nl l ++ ex_tail) | Err e => Err e end = Ok ex_rparsed3.
Proof. vm_compute. reflexivity. Qed.

(* the framing of the written lines (the CTAB lines are those of ex3_written) *)
Example ex_rxn3_frame :
  match rxn_lines_v3000 true ex_rxn3 with
  | Ok l => (firstn 7 l, lslice 21 25 l, lslice 35 39 l, lslice 52 56 l, skipn 69 l)
  | Err _ => ([], [], [], [], [])
  end =
  ([L "$RXN V3000"; L " test rxn "; []; []; L "M  V30 COUNTS 2 1 1"; L "M  V30 BEGIN REACTANT"; L "M  V30 BEGIN CTAB"],
   [L "M  V30 BEGIN CTAB"; L "M  V30 COUNTS 4 4 0 0 0"; L "M  V30 BEGIN ATOM"; L "M  V30 1 C 0.0000 1.2500 0 7 CHG=4"],
   [L "M  V30 END CTAB"; L "M  V30 END REACTANT"; L "M  V30 BEGIN PRODUCT"; L "M  V30 BEGIN CTAB"],
   [L "M  V30 END CTAB"; L "M  V30 END PRODUCT"; L "M  V30 BEGIN AGENT"; L "M  V30 BEGIN CTAB"],
   [L "M  V30 END CTAB"; L "M  V30 END AGENT"; L "M  END"]).
Proof. vm_compute. reflexivity. Qed.

Print Assumptions rdf_rxn_text_lines.
Print Assumptions erdf_rxn_text_lines.
Print Assumptions rxn_v2000_fields_roundtrip.
Print Assumptions rxn_v3000_fields_roundtrip.
Print Assumptions ex_rxn2_roundtrip.
Print Assumptions ex_rxn3_roundtrip.
