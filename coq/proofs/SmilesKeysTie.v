(* C01: the ordering decisions of chython/algorithms/smiles.py::Smiles._smiles (the `groups` table, mod_weights_start, mod_weights, the
   key of `min(atoms_set, ...)` and the keys of the two `sorted(...)` calls of the DFS), translated from /repo's SOURCE on every run
   (Gen.SmilesKeys, tools/gen_smileskeys.py), are the sort keys of the writer model (Model.Writer.key_start / key_child_at) that every C01
   writer theorem is about: model key = generated key ++ [tie-break priority], where the tie-break priority is the model's stand-in
   for CPython set iteration order.  The neighbours of the start atom are sorted by the same key as the children of every other node. *)
From Coq Require Import ZArith List Bool Lia.
From Gen Require Import SmilesKeys.
From Model Require Import PyBase Graph Writer.
Import ListNotations.
Open Scope Z_scope.

Lemma dd_get_sub (d : list (Z * Z)) (k c k' : Z) :
  dd_get (dd_sub d k c) k' = if k' =? k then dd_get d k' - c else dd_get d k'.
Proof.
  unfold dd_get. induction d as [|[k0 v] d IH]; cbn [dd_sub zget].
  - destruct (k' =? k); reflexivity.
  - destruct (k0 =? k) eqn:E0; cbn [zget].
    + apply Z.eqb_eq in E0. subst k0. destruct (k' =? k); reflexivity.
    + destruct (k' =? k0) eqn:E1.
      * apply Z.eqb_eq in E1. subst k0. rewrite E0. reflexivity.
      * exact IH.
Qed.

(* the table after the loop over any list of atoms: start value minus the number of atoms of that weight *)
Lemma groups_fold (w : Z -> Z) (all : list Z) : forall (acc : list (Z * Z)) (k : Z),
  dd_get (fold_left (fun groups n => dd_sub groups (w n) 1) all acc) k =
  dd_get acc k - Z.of_nat (List.length (filter (fun n => w n =? k) all)).
Proof.
  induction all as [|a all IH]; intros acc k; cbn [fold_left filter List.length].
  - lia.
  - rewrite IH, dd_get_sub. rewrite (Z.eqb_sym k (w a)). destruct (w a =? k); cbn [List.length]; lia.
Qed.

Theorem groups_is_model (w : Z -> Z) (all : list Z) (x : Z) : dd_get (k_groups w all) (w x) = group_of w all x.
Proof. unfold k_groups, group_of. rewrite groups_fold. unfold dd_get. cbn [zget]. lia. Qed.

Theorem key_start_is_translated (w tb : Z -> Z) (o : opts) (all : list Z) (seen : list (Z * Z)) (x : Z) :
  key_start w tb o all x = k_start_key w (o_random o) (k_groups w all) seen x ++ [tb x].
Proof.
  unfold key_start, k_start_key, k_mod_weights_start. destruct (o_random o); [reflexivity|].
  rewrite groups_is_model. reflexivity.
Qed.

Theorem key_child_is_translated (g : mol) (w tb : Z -> Z) (o : opts) (all : list Z) (seen : list (Z * Z)) (p x : Z) :
  key_child_at g w tb o all seen p x = k_sort_child g w (o_random o) (k_groups w all) seen p x ++ [tb x].
Proof.
  unfold key_child_at, k_sort_child, k_mod_weights, bond_ord_to, bond_of, bond_int, seen_get. destruct (o_random o); [reflexivity|].
  rewrite groups_is_model. reflexivity.
Qed.

(* the sort of the start atom's neighbours uses the key of every other node (parent := start) *)
Theorem sort_start_is_sort_child (g : mol) (w : Z -> Z) (random : bool) (groups seen : list (Z * Z)) (p x : Z) :
  k_sort_start g w random groups seen p x = k_sort_child g w random groups seen p x.
Proof. reflexivity. Qed.

Theorem writer_sort_keys_are_translated_source :
  (forall w all x, dd_get (k_groups w all) (w x) = group_of w all x) /\
  (forall w tb o all seen x, key_start w tb o all x = k_start_key w (o_random o) (k_groups w all) seen x ++ [tb x]) /\
  (forall g w tb o all seen p x, key_child_at g w tb o all seen p x = k_sort_child g w (o_random o) (k_groups w all) seen p x ++ [tb x]) /\
  (forall g w tb o all seen p x, key_child_at g w tb o all seen p x = k_sort_start g w (o_random o) (k_groups w all) seen p x ++ [tb x]).
Proof.
  split; [|split; [|split]]; intros.
  - apply groups_is_model.
  - apply key_start_is_translated.
  - apply key_child_is_translated.
  - rewrite sort_start_is_sort_child. apply key_child_is_translated.
Qed.

(* non-vacuity: the generated keys compute; cyclobutadiene-like start atom 1 with a double bond to 2 and a single bond to 4 of equal
   weight: the bond order decides *)
Example sort_keys_example :
  let g := mkMol [(1, mkAtom 6 None 0 false (Some 1) None); (2, mkAtom 6 None 0 false (Some 1) None); (4, mkAtom 6 None 0 false (Some 1) None)]
                 [(1, [(2, mkBond 2 None); (4, mkBond 1 None)]); (2, [(1, mkBond 2 None)]); (4, [(1, mkBond 1 None)])] in
  let w := fun n : Z => if n =? 1 then 1 else 2 in
  let gr := k_groups w [1; 2; 4] in
  k_start_key w false gr [] 1 = [-1; 1] /\
  k_sort_start g w false gr [(1, 0); (2, 1); (4, 1)] 1 2 = [-2; 2; 1; 2] /\
  k_sort_start g w false gr [(1, 0); (2, 1); (4, 1)] 1 4 = [-2; 2; 1; 1].
Proof. vm_compute. repeat split. Qed.
