(* C18: when does the translated valence-table compiler raise?  For ANY element record (not only the 118 of the table):
   it returns iff _common_valences is non-empty and every symbol of every exception environment names an element class;
   otherwise it raises IndexError (empty _common_valences, checked first) or KeyError (an unknown symbol). *)
From Coq Require Import ZArith List String Bool Lia.
From Model Require Import PyBase PeriodicTable Valence.
From Gen Require Import Elements ElemRules.
From Proofs Require Import ElemRulesTie.
Import ListNotations.
Open Scope string_scope.
Open Scope Z_scope.

Section AnyClasses.
Variable classes : list (string * Z).

Definition known_symbol_in (s : string) : bool := match sget_last classes s with Some _ => true | None => false end.
Definition env_known_in (env : list (Z * string)) : bool := forallb (fun be => known_symbol_in (snd be)) env.

Lemma env_compile_ok : forall env s d, env_known_in env = true -> exists s' d', env_compile classes env s d = Ok (s', d').
Proof.
  induction env as [|[b sy] r IH]; intros s d H; simpl.
  - exists s, d. reflexivity.
  - simpl in H. apply andb_prop in H. destruct H as [H1 H2]. unfold known_symbol_in in H1.
    destruct (sget_last classes sy) as [z|]; [|discriminate]. apply IH. exact H2.
Qed.

Lemma env_compile_err : forall env s d, env_known_in env = false -> env_compile classes env s d = Err KeyError.
Proof.
  induction env as [|[b sy] r IH]; intros s d H; simpl.
  - discriminate.
  - simpl in H. unfold known_symbol_in in H.
    destruct (sget_last classes sy) as [z|]; [|reflexivity]. simpl in H. apply IH. exact H.
Qed.

Lemma exceptions_loop_ok : forall xs t, forallb (fun r => env_known_in (snd r)) xs = true ->
  exists t', exceptions_loop classes t xs = Ok t'.
Proof.
  induction xs as [|[[[c r] i] env] xs IH]; intros t H; simpl.
  - exists t. reflexivity.
  - simpl in H. apply andb_prop in H. destruct H as [H1 H2].
    destruct (env_compile_ok env [] [] H1) as [s [d E]]. rewrite E.
    destruct (negb (i =? 0)); apply IH; exact H2.
Qed.

Lemma exceptions_loop_err : forall xs t, forallb (fun r => env_known_in (snd r)) xs = false ->
  exceptions_loop classes t xs = Err KeyError.
Proof.
  induction xs as [|[[[c r] i] env] xs IH]; intros t H; simpl.
  - discriminate.
  - simpl in H. destruct (env_known_in env) eqn:K.
    + destruct (env_compile_ok env [] [] K) as [s [d E]]. rewrite E. simpl in H.
      destruct (negb (i =? 0)); apply IH; exact H.
    + rewrite (env_compile_err env [] [] K). reflexivity.
Qed.
End AnyClasses.

Definition known_symbol := known_symbol_in elements_classes.
Definition env_known := env_known_in elements_classes.
Definition exceptions_known (e : elem) : bool := forallb (fun r => env_known (snd r)) (e_exc e).

Lemma common_rules_ok : forall num cv, cv <> [] -> exists t, common_rules num cv = Ok t.
Proof.
  intros num [|v0 rest] H; [contradiction|]. unfold common_rules.
  destruct (negb (v0 =? 0) && negb (num =? 1)); eexists; reflexivity.
Qed.

(* the complete case analysis of the translated compiler's outcome, for every element record *)
Lemma source_compile_outcome : forall e,
  (e_common e = [] -> g_compiled_valence_rules e = Err IndexError) /\
  (e_common e <> [] -> exceptions_known e = true -> exists t, g_compiled_valence_rules e = Ok t) /\
  (e_common e <> [] -> exceptions_known e = false -> g_compiled_valence_rules e = Err KeyError).
Proof.
  intros e. rewrite g_compiled_valence_rules_eq. unfold compiled_rules, compiled_rules_with, exceptions_known.
  split; [|split].
  - intros H. rewrite H. reflexivity.
  - intros H K. destruct (common_rules_ok (e_num e) (e_common e) H) as [t E]. rewrite E. apply (exceptions_loop_ok elements_classes). exact K.
  - intros H K. destruct (common_rules_ok (e_num e) (e_common e) H) as [t E]. rewrite E. apply (exceptions_loop_err elements_classes). exact K.
Qed.

(* all 118 tables are well formed in this sense (so the compile theorem also follows from the general one) *)
Lemma tables_well_formed_all :
  forallb (fun e => negb (match e_common e with [] => true | _ => false end) && exceptions_known e) elements = true.
Proof. vm_compute. reflexivity. Qed.
