(* C02, writer_wellformed, part 2: the shape of the token list the flattening loop of Smiles._smiles produces, for ANY table
   `edges` and any fuel: an opening parenthesis is always followed by a bond token and an atom, a bond token always by an
   atom, and the list starts in / returns to the neutral state.  This is what makes '(' never directly followed by a
   closure number or another parenthesis (side condition of C02_tokens_roundtrip).  Invariant of fl_step over all stack
   entries; it also shows that the `if smiles[-2] == '('` branch of the code is dead. *)
From Coq Require Import ZArith List Bool Lia.
From Model Require Import PyBase Graph Writer.
Import ListNotations.
Open Scope Z_scope.

Inductive fstate := F0 | FOpen | FBond | FOpenBond.

Definition fnext (s : fstate) (t : tok) : option fstate :=
  match s, t with
  | F0, TAtom _ => Some F0
  | F0, TOpen => Some FOpen
  | F0, TClose => Some F0
  | F0, TBond _ _ => Some FBond
  | FOpen, TBond _ _ => Some FOpenBond
  | FBond, TAtom _ => Some F0
  | FOpenBond, TAtom _ => Some F0
  | _, _ => None
  end.

Fixpoint frun (s : fstate) (l : list tok) : option fstate :=
  match l with
  | [] => Some s
  | t :: r => match fnext s t with Some s' => frun s' r | None => None end
  end.

Definition shaped (l : list tok) : Prop := frun F0 l = Some F0.

Lemma frun_app l1 : forall s l2, frun s (l1 ++ l2) = match frun s l1 with Some s' => frun s' l2 | None => None end.
Proof.
  induction l1 as [|t l1 IH]; intros s l2; cbn [app frun]; [reflexivity|].
  destruct (fnext s t); [apply IH | reflexivity].
Qed.

Lemma shaped_app a b : shaped a -> shaped b -> shaped (a ++ b).
Proof. unfold shaped. intros Ha Hb. rewrite frun_app, Ha. exact Hb. Qed.

(* `smiles[-2] == '('` never holds for a list in neutral state *)
Lemma shaped_second_last s : shaped s -> second_last_is_open s = Some true -> False.
Proof.
  unfold shaped, second_last_is_open. intros Hs H.
  destruct (rev s) as [|y [|x r]] eqn:E; try discriminate.
  destruct x; try discriminate.
  assert (Hs' : s = rev r ++ [TOpen; y]).
  { rewrite <- (rev_involutive s), E. cbn [rev]. rewrite <- app_assoc. reflexivity. }
  rewrite Hs' in Hs. rewrite frun_app in Hs.
  destruct (frun F0 (rev r)) as [[| | |]|]; destruct y; cbn in Hs; discriminate.
Qed.

Definition entries_shaped (st : list fl_entry) : Prop := Forall (fun e : fl_entry => shaped (snd e)) st.

Lemma upd_at_shaped i add : forall st, entries_shaped st -> shaped add ->
  entries_shaped (upd_at i (fun e : fl_entry => (fst e, snd e ++ add)) st).
Proof.
  induction i as [|i IH]; intros [|e st] Hst Ha; cbn [upd_at]; try exact Hst; inversion Hst; subst; constructor; auto.
  - cbn [snd]. apply shaped_app; assumption.
  - apply IH; assumption.
Qed.

Lemma fl_step_shaped edges st : entries_shaped st ->
  match fl_step edges st with
  | FlCont st' => entries_shaped st'
  | FlDone r => shaped r
  | FlErr _ => True
  end.
Proof.
  intros Hst. unfold fl_step. destruct st as [|[[tail closure] smi] rest]; [exact I|].
  inversion Hst as [|? ? Hsmi Hrest]. subst. cbn [snd] in Hsmi.
  destruct (zget edges tail) as [children|].
  - destruct (rev children) as [|last revfront]; [exact I|].
    destruct (1 <? Z.of_nat (List.length children)).
    + unfold entries_shaped. apply Forall_app. split.
      * apply Forall_forall. intros e He. apply in_map_iff in He. destruct He as [c [<- _]]. reflexivity.
      * constructor; [reflexivity | exact Hst].
    + constructor; [|exact Hrest]. cbn [snd]. apply shaped_app; [exact Hsmi | reflexivity].
  - destruct (negb (closure =? 0)).
    + destruct (second_last_is_open smi) as [[|]|] eqn:E; [exfalso; exact (shaped_second_last smi Hsmi E) | | exact I].
      destruct (closure - 1 <? Z.of_nat (List.length rest)); [|exact I].
      apply upd_at_shaped; [exact Hrest|]. apply shaped_app; [exact Hsmi | reflexivity].
    + destruct rest as [|[[t1 c1] s1] [|e2 rest']].
      * exact Hsmi.
      * inversion Hrest as [|? ? H1 _]. subst. apply shaped_app; assumption.
      * inversion Hrest as [|? ? H1 Hr']. subst. constructor; [|exact Hr']. cbn [snd]. apply shaped_app; assumption.
Qed.

Lemma fl_run_shaped edges : forall fuel st r, entries_shaped st -> fl_run fuel edges st = Ok r -> shaped r.
Proof.
  induction fuel as [|fuel IH]; intros st r Hst H; cbn [fl_run] in H; [discriminate|].
  pose proof (fl_step_shaped edges st Hst) as Hs. destruct (fl_step edges st) as [st'|r'|e].
  - apply (IH st' r Hs H).
  - inversion H. subst. exact Hs.
  - discriminate.
Qed.

(* the flattening of any traversal *)
Theorem flatten_shaped : forall g t smi, flatten g t = Ok smi -> shaped smi.
Proof.
  intros g t smi H. unfold flatten in H. eapply fl_run_shaped; [|exact H].
  constructor; [reflexivity | constructor].
Qed.
