(* C16 (extension 3): one stage of Reactor._single_stage does not depend on the numbering of the reactants nor on the
   numbers of the molecules that take no part: the stage products of the original and of the renumbered call are injective
   renumberings of one and the same patched molecule *)
From Coq Require Import ZArith List Bool Lia.
From Model Require Import PyBase Graph Reactor ReactorStage.
From Proofs Require Import ReactorProofs ReactorExt ReactorEquiv ReactorCompose.
Import ListNotations.
Open Scope Z_scope.

Lemma remap_mol_rename mp g : remap_mol mp g = rename_mol (mget mp) g.
Proof. reflexivity. Qed.

Lemma rename_mol_compose f h g : rename_mol f (rename_mol h g) = rename_mol (fun x => f (h x)) g.
Proof.
  destruct g as [atoms adj]. unfold rename_mol. cbn [m_atoms m_adj]. f_equal.
  - unfold rk, rkv. rewrite map_map. reflexivity.
  - unfold ra, rkv at 1 2 3. rewrite map_map. apply map_ext. intros [k l]. cbn [fst snd]. unfold rk, rkv. rewrite map_map. reflexivity.
Qed.

Lemma rename_mol_id g : rename_mol (fun x => x) g = g.
Proof.
  destruct g as [atoms adj]. unfold rename_mol, rk, ra, rkv. cbn [m_atoms m_adj]. f_equal.
  - induction atoms as [|[k v] l IH]; cbn; [reflexivity|]. f_equal. exact IH.
  - induction adj as [|[k l] r IH]; cbn; [reflexivity|]. f_equal; [|exact IH]. f_equal.
    induction l as [|[m b] l' IHl]; cbn; [reflexivity|]. f_equal. exact IHl.
Qed.

Lemma ids_rename_mol f g : ids (rename_mol f g) = map f (ids g).
Proof. unfold ids, rename_mol, rk, rkv, keys. cbn [m_atoms]. rewrite !map_map. reflexivity. Qed.

Lemma NoDup_map_inj {A B} (f : A -> B) : forall l, NoDup (map f l) -> forall a b, In a l -> In b l -> f a = f b -> a = b.
Proof.
  induction l as [|x l IH]; intros Hnd a b Ha Hb E; [destruct Ha|].
  cbn [map] in Hnd. inversion Hnd as [|? ? Hx Hnd']; subst.
  destruct Ha as [<-|Ha], Hb as [<-|Hb].
  - reflexivity.
  - exfalso. apply Hx. rewrite E. apply in_map. exact Hb.
  - exfalso. apply Hx. rewrite <- E. apply in_map. exact Ha.
  - apply IH; assumption.
Qed.

Definition inj_on_list (f : Z -> Z) (l : list Z) : Prop := forall a b, In a l -> In b l -> f a = f b -> a = b.

(* what one stage returns is an injective renumbering of the patched molecule *)
Lemma stage_one_is_renumbering to_del tpl cord : (forall l x, In x (cord l) <-> In x l) ->
  forall united ignored mp out,
    stage_one to_del tpl cord united ignored mp = Ok out -> wf_mol united = true -> (forall x, In x (ids united) -> 0 < x) ->
    exists new mp' g, patcher_with get_deleted united mp to_del tpl = Ok (new, mp') /\ out = rename_mol g new /\ inj_on_list g (ids new).
Proof.
  intros Hcord united ignored mp out H Hwf Hpos.
  destruct (stage_one_numbers to_del tpl cord Hcord united ignored mp out H Hwf Hpos) as (new0 & _ & _ & Hnd & _).
  unfold stage_one in H.
  destruct (patcher_with get_deleted united mp to_del tpl) as [[new mp']|] eqn:Ep; [|discriminate].
  exists new, mp'.
  destruct (zinter (ids new) ignored) as [|c0 cr].
  - inversion H; subst out. exists (fun x => x). split; [reflexivity|]. split; [symmetry; apply rename_mol_id|]. intros a b _ _ E. exact E.
  - destruct (zmax_list (ids new)) as [b|]; [|discriminate]. unfold remap_res in H.
    destruct (remap_check (zip_count (cord (c0 :: cr)) (Z.max (zmax0 ignored) b + 1)) new); [|discriminate].
    inversion H; subst out. eexists. split; [reflexivity|]. split; [apply remap_mol_rename|].
    rewrite remap_mol_rename, ids_rename_mol in Hnd. exact (NoDup_map_inj _ _ Hnd).
Qed.

(* atoms of the patched product are atoms of the structure or new atoms beyond its largest number *)
Lemma patched_ids g mapping tpl del new mp' mx :
  patcher g mapping tpl del = Ok (new, mp') -> wf_mol g = true -> (forall x, In x (ids g) -> 0 < x) ->
  zmax_list (ids g) = Some mx -> (forall k v, In (k, v) mapping -> In v (ids g)) ->
  forall x, In x (ids new) -> In x (ids g) \/ mx < x.
Proof.
  intros Hrun Hwf Hpos Hmx Hvals x Hx.
  destruct (patcher_frame _ _ _ _ _ _ Hrun Hwf Hpos) as (_ & _ & _ & F4 & _).
  apply F4 in Hx. destruct Hx as [(n & Hn & Hg)|[Hx _]]; [|left; exact Hx].
  destruct (patcher_fresh _ _ _ _ _ _ Hrun Hpos) as (_ & _ & Hnew & _).
  destruct (Hnew n x Hg) as [Hm|(_ & Hlt)].
  - left. apply truthy_get_zget in Hm. destruct Hm as [Hm _]. apply (Hvals n x). apply zget_Some_In. exact Hm.
  - right. apply Hlt. apply (zmax_list_spec _ _ Hmx).
Qed.

Theorem stage_one_renumbering : forall (s : Z -> Z) to_del tpl (cord cord' : list Z -> list Z) united ignored ignored' mp out out' mx mx',
  (forall l x, In x (cord l) <-> In x l) -> (forall l x, In x (cord' l) <-> In x l) ->
  (forall a b, s a = s b -> a = b) -> (forall x, In x (ids united) -> 0 < s x) ->
  wf_mol united = true -> (forall x, In x (ids united) -> 0 < x) ->
  zmax_list (ids united) = Some mx -> zmax_list (map s (ids united)) = Some mx' ->
  (forall k v, In (k, v) mp -> In v (ids united)) ->
  (forall p, In p to_del -> exists v, zget mp p = Some v) ->
  stage_one to_del tpl cord united ignored mp = Ok out ->
  stage_one to_del tpl cord' (rename_mol s united) ignored' (rename_match s mp) = Ok out' ->
  exists new g h, patched to_del tpl united mp new /\
    out = rename_mol g new /\ out' = rename_mol h new /\ inj_on_list g (ids new) /\ inj_on_list h (ids new).
Proof.
  intros s to_del tpl cord cord' united ignored ignored' mp out out' mx mx' Hc Hc' Hinj Hspos Hwf Hpos Hmx Hmx' Hvals Htd H1 H2.
  destruct (stage_one_is_renumbering to_del tpl cord Hc united ignored mp out H1 Hwf Hpos) as (new & mp1 & g & Ep & Eg & Ig).
  exists new, g.
  pose proof (template_application_equivariant s united mp to_del tpl new mp1 mx mx' Hinj Hspos Hwf Hpos Hmx Hmx' Hvals Htd Ep) as Ep'.
  set (s' := extend_renumbering s mx mx') in *.
  (* s' is injective on the atoms of the patched product *)
  assert (Hs' : inj_on_list s' (ids new)).
  { assert (Hle : forall x, In x (ids united) -> x <= mx) by (apply (zmax_list_spec _ _ Hmx)).
    assert (Hsle : forall x, In x (ids united) -> s x <= mx') by (intros x Hx; apply (zmax_list_spec _ _ Hmx'); apply in_map; exact Hx).
    assert (Hold : forall x, In x (ids united) -> s' x = s x).
    { intros x Hx. unfold s', extend_renumbering. specialize (Hle x Hx). destruct (Z.leb_spec x mx); [reflexivity|lia]. }
    assert (Hnew : forall x, mx < x -> s' x = x - mx + mx').
    { intros x Hx. unfold s', extend_renumbering. destruct (Z.leb_spec x mx); [lia|reflexivity]. }
    unfold patcher_with in Ep. destruct (get_deleted (graph_of united) mp to_del) as [del|]; [|discriminate].
    pose proof (patched_ids united mp tpl del new mp1 mx Ep Hwf Hpos Hmx Hvals) as HP.
    intros a b Ha Hb E. destruct (HP a Ha) as [Ia|Ia], (HP b Hb) as [Ib|Ib].
    - rewrite (Hold a Ia), (Hold b Ib) in E. apply Hinj. exact E.
    - rewrite (Hold a Ia), (Hnew b Ib) in E. specialize (Hsle a Ia). lia.
    - rewrite (Hnew a Ia), (Hold b Ib) in E. specialize (Hsle b Ib). lia.
    - rewrite (Hnew a Ia), (Hnew b Ib) in E. lia. }
  unfold stage_one in H2. rewrite Ep' in H2.
  assert (Hnd : NoDup (ids new)).
  { unfold patcher_with in Ep. destruct (get_deleted (graph_of united) mp to_del) as [del|]; [|discriminate].
    apply (patcher_frame _ _ _ _ _ _ Ep Hwf Hpos). }
  assert (Hnd' : NoDup (ids (rename_mol s' new))).
  { rewrite ids_rename_mol. apply NoDup_map_inj_on; [exact Hs'|exact Hnd]. }
  destruct (zinter (ids (rename_mol s' new)) ignored') as [|c0 cr] eqn:Ei.
  - inversion H2; subst out'. exists s'. split; [exists mp1; exact Ep|]. split; [exact Eg|]. split; [reflexivity|]. split; [exact Ig|exact Hs'].
  - destruct (zmax_list (ids (rename_mol s' new))) as [b|] eqn:Eb; [|discriminate]. unfold remap_res in H2.
    destruct (remap_check (zip_count (cord' (c0 :: cr)) (Z.max (zmax0 ignored') b + 1)) (rename_mol s' new)); [|discriminate].
    inversion H2; subst out'. rewrite remap_mol_rename, rename_mol_compose.
    eexists. split; [exists mp1; exact Ep|]. split; [exact Eg|]. split; [reflexivity|]. split; [exact Ig|].
    (* the collision remap is injective on the renumbered product *)
    destruct (remap_collisions_gen (ids (rename_mol s' new)) ignored' (cord' (c0 :: cr)) (zmax0 ignored') b Hnd') as (_ & Hnd2 & _).
    + intros x. rewrite Hc', <- Ei. apply zinter_In.
    + intros x Hx. apply zmax0_ge. exact Hx.
    + apply (zmax_list_spec _ _ Eb).
    + unfold remap_ids in Hnd2. rewrite ids_rename_mol, map_map in Hnd2.
      intros a b' Ha Hb E. apply (NoDup_map_inj _ _ Hnd2 a b' Ha Hb).
      unfold mget in E. exact E.
Qed.

(* non-vacuity: ethyl acetate (new atom 7) next to a spectator that owns the number 7, and the same reactant renumbered by
   x -> 10 - x (new atom 10) next to a spectator that owns the number 10: both new atoms are renumbered away *)
Example stage_one_renumbering_example :
  exists out out',
    stage_one [4] ex_tpl (fun l => l) ex_mol [7; 8] ex_mapping = Ok out /\
    stage_one [4] ex_tpl (fun l => l) (rename_mol (fun x => 10 - x) ex_mol) [10; 11] (rename_match (fun x => 10 - x) ex_mapping) = Ok out' /\
    ids out = [2; 3; 4; 9; 1] /\ ids out' = [8; 7; 6; 12; 9].
Proof. eexists _, _. split; [vm_compute; reflexivity|]. split; [vm_compute; reflexivity|]. split; vm_compute; reflexivity. Qed.
