(* C10 (part 1): role split of reaction packs. *)
From Coq Require Import ZArith List Bool Lia ZifyBool.
From Model Require Import PyBase Pack.
Import ListNotations.
Open Scope Z_scope.

Lemma py_slice_prefix {A} (x y : list A) :
  py_slice (x ++ y) 0 (Z.of_nat (length x)) = x.
Proof.
  unfold py_slice. rewrite app_length.
  destruct (0 <? 0) eqn:E0; [lia|]. destruct (Z.of_nat (length x) <? 0) eqn:E1; [lia|].
  rewrite !Z.min_l by lia.
  destruct (Z.of_nat (length x) <=? 0) eqn:E2.
  - apply Z.leb_le in E2. destruct x; [reflexivity | cbn [length] in E2; lia].
  - cbn [Z.to_nat skipn]. rewrite Z.sub_0_r, Nat2Z.id. rewrite firstn_app, Nat.sub_diag, firstn_all. cbn. apply app_nil_r.
Qed.

Lemma py_slice_middle {A} (x y z : list A) :
  py_slice (x ++ y ++ z) (Z.of_nat (length x)) (Z.of_nat (length x) + Z.of_nat (length y)) = y.
Proof.
  unfold py_slice. rewrite !app_length.
  destruct (Z.of_nat (length x) <? 0) eqn:E0; [lia|].
  destruct (Z.of_nat (length x) + Z.of_nat (length y) <? 0) eqn:E1; [lia|].
  rewrite !Z.min_l by lia.
  destruct (Z.of_nat (length x) + Z.of_nat (length y) <=? Z.of_nat (length x)) eqn:E2.
  - apply Z.leb_le in E2. destruct y; [reflexivity | cbn [length] in E2; lia].
  - rewrite Nat2Z.id. replace (Z.of_nat (length x) + Z.of_nat (length y) - Z.of_nat (length x)) with (Z.of_nat (length y)) by lia.
    rewrite Nat2Z.id. rewrite skipn_app, skipn_all, Nat.sub_diag. cbn [skipn app].
    rewrite firstn_app, Nat.sub_diag, firstn_all. cbn. apply app_nil_r.
Qed.

Lemma py_slice_suffix {A} (x y : list A) :
  py_slice (x ++ y) (Z.of_nat (length x)) (Z.of_nat (length (x ++ y))) = y.
Proof.
  unfold py_slice. rewrite !app_length.
  destruct (Z.of_nat (length x) <? 0) eqn:E0; [lia|].
  destruct (Z.of_nat (length x + length y) <? 0) eqn:E1; [lia|].
  rewrite !Z.min_l by lia.
  destruct (Z.of_nat (length x + length y) <=? Z.of_nat (length x)) eqn:E2.
  - apply Z.leb_le in E2. destruct y; [reflexivity | cbn [length] in E2; lia].
  - rewrite Nat2Z.id. replace (Z.of_nat (length x + length y) - Z.of_nat (length x)) with (Z.of_nat (length y)) by lia.
    rewrite Nat2Z.id. rewrite skipn_app, skipn_all, Nat.sub_diag. cbn [skipn app]. apply firstn_all.
Qed.

(* the split by counts restores the three roles for ALL role sizes, empty ones included *)
Theorem rxn_split_correct {A} (rs ags ps : list A) :
  rxn_split (rs ++ ags ++ ps) (Z.of_nat (length rs)) (Z.of_nat (length ags)) (Z.of_nat (length ps)) = (rs, ags, ps).
Proof.
  unfold rxn_split. rewrite py_slice_prefix, py_slice_middle.
  replace (Z.of_nat (length rs) + Z.of_nat (length ags)) with (Z.of_nat (length (rs ++ ags))) by (rewrite app_length; lia).
  rewrite (app_assoc rs ags ps). rewrite py_slice_suffix. reflexivity.
Qed.
