(* C10: ReactionContainer.pack translated from the source (Gen.PackRxnGen) is the hand model PackRxnApi.rxn_api_pack, for
   all reactions (any role sizes, any molecules, checked or not) *)
From Coq Require Import ZArith List Bool Lia ZifyBool.
From Model Require Import PyBase Pack PackApi PackRxnApi PackTop PackRxnRt.
From Gen Require Import PackRxnGen.
Import ListNotations.
Open Scope Z_scope.

Lemma py_map_m_pack_all check ms : py_map_m (fun m => mol_pack check m) ms = pack_all check ms.
Proof. induction ms as [|m r IH]; [reflexivity|]. cbn [py_map_m pack_all]. rewrite IH. reflexivity. Qed.

Theorem gen_rxn_pack_is_model compress check rs ags ps :
  gen_rxn_pack compress mol_pack false check rs ags ps = rxn_api_pack check rs ags ps.
Proof.
  unfold gen_rxn_pack, rxn_api_pack, py_bytearray. cbn [forallb]. rewrite py_map_m_pack_all.
  destruct ((255 <? Z.of_nat (length rs)) || (255 <? Z.of_nat (length ags)) || (255 <? Z.of_nat (length ps))) eqn:E.
  - replace ((0 <=? 1) && (1 <=? 255) && ((0 <=? Z.of_nat (length rs)) && (Z.of_nat (length rs) <=? 255) &&
             ((0 <=? Z.of_nat (length ags)) && (Z.of_nat (length ags) <=? 255) &&
              ((0 <=? Z.of_nat (length ps)) && (Z.of_nat (length ps) <=? 255) && true)))) with false by lia.
    reflexivity.
  - replace ((0 <=? 1) && (1 <=? 255) && ((0 <=? Z.of_nat (length rs)) && (Z.of_nat (length rs) <=? 255) &&
             ((0 <=? Z.of_nat (length ags)) && (Z.of_nat (length ags) <=? 255) &&
              ((0 <=? Z.of_nat (length ps)) && (Z.of_nat (length ps) <=? 255) && true)))) with true by lia.
    cbn [bind]. destruct (pack_all check (rs ++ ags ++ ps)); reflexivity.
Qed.
