(* C06 -- second extension round: for EVERY oracle, the chains of _bfs and all paths in the tables of _make_pid are walks of the
   graph between the right atoms, and every candidate of _c_set with at least three atoms is a simple cycle of the graph. *)
From Coq Require Import ZArith List Bool Lia Permutation Sorted.
From Model Require Import PyBase Graph Rings RingsFilter RingsGen RingsGenSpec.
From Proofs Require Import RingsProofs RingsMcb RingsRank RingsExt RingsDim RingsFund RingsMin RingsHorton RingsFilterProofs RingsGenProofs.
Import ListNotations.
Open Scope Z_scope.

(* ---------- dictionaries ---------- *)
Section DictFacts.
Context {K V : Type}.
Variable keqb : K -> K -> bool.
Hypothesis keqb_eq : forall a b, keqb a b = true -> a = b.

Lemma dget_In (d : list (K * V)) k v : dget keqb d k = Some v -> In (k, v) d.
Proof.
  induction d as [|[k' w] t IH]; cbn; [discriminate|]. destruct (keqb k k') eqn:E; intros H.
  - apply keqb_eq in E. inversion H; subst. left. reflexivity.
  - right. apply IH. exact H.
Qed.

Lemma In_dput' (d : list (K * V)) k v e : In e (dput keqb d k v) -> In e d \/ e = (k, v).
Proof.
  induction d as [|[k' w] t IH]; cbn.
  - intros [H|[]]. right. symmetry. exact H.
  - destruct (keqb k k') eqn:E; cbn.
    + intros [H|H]; [right; apply keqb_eq in E; subst k'; symmetry; exact H | left; right; exact H].
    + intros [H|H]; [left; left; exact H|]. destruct (IH H) as [X|X]; [left; right; exact X | right; exact X].
Qed.

Lemma In_ddel (d : list (K * V)) k e : In e (ddel keqb d k) -> In e d.
Proof. induction d as [|[k' w] t IH]; cbn; [tauto|]. destruct (keqb k k'); cbn; [tauto|]. intros [H|H]; [left; exact H | right; apply IH; exact H]. Qed.

Lemma In_dviv (d : list (K * V)) k dflt e : In e (snd (dviv keqb d k dflt)) -> In e d \/ e = (k, dflt).
Proof.
  unfold dviv. destruct (dget keqb d k); cbn [snd]; [tauto|]. intros H. apply in_app_or in H. destruct H as [H|[H|[]]]; [left; exact H | right; symmetry; exact H].
Qed.

Lemma dviv_val (d : list (K * V)) k dflt : fst (dviv keqb d k dflt) = dflt \/ In (k, fst (dviv keqb d k dflt)) d.
Proof. unfold dviv. destruct (dget keqb d k) eqn:E; cbn [fst]; [right; apply dget_In; exact E | left; reflexivity]. Qed.
End DictFacts.

Lemma zeqb_eq a b : Z.eqb a b = true -> a = b. Proof. apply Z.eqb_eq. Qed.
Lemma pkeqb_eq a b : pkeqb a b = true -> a = b.
Proof. unfold pkeqb. intros H. apply andb_prop in H. destruct H as [H1 H2]. apply Z.eqb_eq in H1, H2. destruct a, b. cbn in *. congruence. Qed.

(* ---------- _bfs yields walks ---------- *)
Section BfsWalks.
Variable g : graph.
Hypothesis W : gwf g.

Definition wk (p : path) : Prop := (2 <= length p)%nat /\ forall a b, In (a, b) (seq_pairs p) -> adjacent g a b.
(* an entry of a front: a walk (or a single atom) that ends in its key *)
Definition fr (e : Z * path) : Prop := snd e <> [] /\ last (snd e) 0 = fst e /\ forall a b, In (a, b) (seq_pairs (snd e)) -> adjacent g a b.
Definition binv' (s : bst) : Prop := Forall wk (b_term s) /\ Forall fr (b_next s).

Lemma adj_sym a b : In b (gnbrs g a) -> adjacent g a b.
Proof. intros H. split; [exact H | apply (gwf_sym g a b W H)]. Qed.

Lemma fr_single n : fr (n, [n]).
Proof. split; [discriminate|]. split; [reflexivity | intros a b []]. Qed.

Lemma fr_pair t n : In n (gnbrs g t) -> fr (n, [t; n]) /\ wk [t; n].
Proof.
  intros H. split; [split; [discriminate | split; [reflexivity|]] | split; [cbn; lia|]]; intros a b [E|[]]; inversion E; subst; apply adj_sym; exact H.
Qed.

Lemma fr_extend t p n : fr (t, p) -> In n (gnbrs g t) -> fr (n, p ++ [n]) /\ wk (p ++ [n]).
Proof.
  intros [Ne [La Wp]] H. cbn [fst snd] in *.
  assert (Wn : forall a b, In (a, b) (seq_pairs (p ++ [n])) -> adjacent g a b).
  { intros a b Hab. apply seq_pairs_snoc in Hab. destruct Hab as [Hab|[_ [E1 E2]]]; [apply Wp; exact Hab|]. subst. apply adj_sym. exact H. }
  split; [split; [destruct p; discriminate | split; [apply last_last | exact Wn]] | split; [rewrite app_length; cbn; destruct p; [congruence | cbn; lia] | exact Wn]].
Qed.

Lemma fr_wk k p : fr (k, p) -> len1 p = false -> wk p.
Proof.
  intros [Ne [_ Wp]] L. cbn [snd] in *. split; [|exact Wp]. unfold len1 in L. apply Nat.eqb_neq in L. destruct p as [|a [|b t]]; [congruence | cbn in L; congruence | cbn; lia].
Qed.

Lemma Forall_dput (P : Z * path -> Prop) d k v : Forall P d -> P (k, v) -> Forall P (dput Z.eqb d k v).
Proof.
  intros F Pk. apply Forall_forall. intros e He. destruct (In_dput' Z.eqb zeqb_eq d k v e He) as [X|X]; [rewrite Forall_forall in F; apply F; exact X | subst; exact Pk].
Qed.

Lemma Forall_snoc {A} (P : A -> Prop) l x : Forall P l -> P x -> Forall P (l ++ [x]).
Proof. intros F Px. apply Forall_app. split; [exact F | constructor; [exact Px | constructor]]. Qed.

Lemma meet_next_inv s n p : binv' s -> fr (n, p) -> wk p -> binv' (meet_next s n p).
Proof.
  intros [T N] Fp Wp. unfold meet_next. destruct (dget Z.eqb (b_next s) n) as [q|] eqn:E.
  - apply (dget_In Z.eqb zeqb_eq) in E. rewrite Forall_forall in N. pose proof (N _ E) as Fq. destruct (len1 q) eqn:L.
    + split; [apply Forall_snoc; assumption | apply Forall_forall; exact N].
    + split; cbn [b_term b_next].
      * apply Forall_app. split; [exact T|]. constructor; [exact Wp|]. constructor; [apply (fr_wk n q Fq L) | constructor].
      * apply Forall_dput; [apply Forall_forall; exact N | apply fr_single].
  - split; cbn [b_term b_next]; [exact T | apply Forall_dput; assumption].
Qed.

Lemma bfs_branch_inv stack_keys tail s n : In n (gnbrs g tail) -> binv' s -> binv' (bfs_branch stack_keys tail s n).
Proof.
  intros H [T N]. unfold bfs_branch. destruct (fr_pair tail n H) as [F2 W2]. destruct (zmem n (b_odd s)).
  - destruct (zmem n stack_keys).
    + destruct (dhas Z.eqb (b_next s) n); [|split; assumption]. split; cbn [b_term b_next]; [exact T|]. apply Forall_forall. intros e He. apply In_ddel in He. rewrite Forall_forall in N. apply N. exact He.
    + split; cbn [b_term b_next]; [exact T | apply Forall_dput; [exact N | apply fr_single]].
  - destruct (zmem n stack_keys).
    + split; cbn [b_term b_next]; [apply Forall_snoc; assumption | exact N].
    + apply meet_next_inv; [split; assumption | exact F2 | exact W2].
Qed.

Lemma sort_z_In l x : In x (sort_z l) <-> In x l.
Proof.
  unfold sort_z. induction l as [|a l IH]; cbn [fold_right]; [tauto|].
  assert (Ins : forall y t, In x (insert_z y t) <-> x = y \/ In x t).
  { intros y t. induction t as [|b t IHt]; cbn; [intuition|]. destruct (y <=? b); cbn; [intuition | rewrite IHt; intuition]. }
  rewrite Ins, IH. cbn. intuition.
Qed.

Lemma perm_ok_In e s x : perm_ok e s = true -> (In x e <-> In x s).
Proof. unfold perm_ok. intros H. apply list_eqb_Z_true in H. rewrite <- (sort_z_In e x), <- (sort_z_In s x), H. tauto. Qed.

Lemma ask_In o s e o' x : ask o s = Ok (e, o') -> In x e -> In x s.
Proof. unfold ask. destruct o as [|e0 o0]; [discriminate|]. destruct (perm_ok e0 s) eqn:P; [|discriminate]. intros H. inversion H; subst. apply (perm_ok_In e s x P). Qed.

Lemma nbr_filter atoms tail x : In x (filter (fun y => zmem y atoms) (set_of_z (gnbrs g tail))) -> In x (gnbrs g tail).
Proof. intros H. apply filter_In in H. destruct H as [H _]. apply (proj1 (set_of_z_In _ _)) in H. exact H. Qed.

Lemma bfs_entry_inv atoms stack_keys s o e s' o' : binv' s -> fr e -> bfs_entry g atoms stack_keys (s, o) e = Ok (s', o') -> binv' s'.
Proof.
  intros Inv Fe H. destruct e as [tail p]. unfold bfs_entry in H. set (nb := filter (fun x => zmem x atoms) (set_of_z (gnbrs g tail))) in *.
  assert (NB : forall x, In x nb -> In x (gnbrs g tail)) by (intros x Hx; apply (nbr_filter atoms tail x Hx)).
  destruct Inv as [T N]. destruct nb as [|n [|n2 rest]] eqn:En.
  - inversion H; subst. split; assumption.
  - assert (Hn : In n (gnbrs g tail)) by (apply NB; left; reflexivity). destruct (fr_extend tail p n Fe Hn) as [F2 W2].
    destruct (zmem n (b_odd s)).
    + inversion H; subst. split; cbn [b_term b_next].
      * destruct (len1 p) eqn:L; [exact T | apply Forall_snoc; [exact T | apply (fr_wk tail p Fe L)]].
      * apply Forall_dput; [exact N | apply fr_single].
    + destruct (zmem n stack_keys); inversion H; subst.
      * split; cbn [b_term b_next]; [apply Forall_snoc; assumption | exact N].
      * apply meet_next_inv; [split; assumption | exact F2 | exact W2].
  - destruct (ask o (n :: n2 :: rest)) as [[order o1]|x] eqn:A; [|discriminate]. inversion H; subst.
    assert (Ord : forall x, In x order -> In x (gnbrs g tail)) by (intros x Hx; apply NB; apply (ask_In _ _ _ _ x A Hx)).
    assert (I0 : binv' (mkBst (if len1 p then b_term s else b_term s ++ [p]) (b_next s) (b_odd s))).
    { split; cbn [b_term b_next]; [|exact N]. destruct (len1 p) eqn:L; [exact T | apply Forall_snoc; [exact T | apply (fr_wk tail p Fe L)]]. }
    clear - Ord I0 W. revert I0. generalize (mkBst (if len1 p then b_term s else b_term s ++ [p]) (b_next s) (b_odd s)).
    induction order as [|x order IH]; intros s0 I0; [exact I0|]. cbn [fold_left]. apply IH; [intros y Hy; apply Ord; right; exact Hy|].
    apply bfs_branch_inv; [apply Ord; left; reflexivity | exact I0].
Qed.

Lemma bfs_entries_inv atoms stack_keys es : forall s o s' o', binv' s -> Forall fr es -> bfs_entries g atoms stack_keys (s, o) es = Ok (s', o') -> binv' s'.
Proof.
  induction es as [|e es IH]; intros s o s' o' Inv F H; cbn [bfs_entries] in H; [inversion H; subst; exact Inv|].
  inversion F as [|? ? Fe Fes]; subst. destruct (bfs_entry g atoms stack_keys (s, o) e) as [[s1 o1]|x] eqn:E; [|discriminate].
  apply (IH s1 o1 s' o' (bfs_entry_inv _ _ _ _ _ _ _ Inv Fe E) Fes H).
Qed.

Lemma bfs_start_inv atoms o atoms' st o' : bfs_start g atoms o = Ok (atoms', st, o') -> Forall fr st.
Proof.
  unfold bfs_start. destruct atoms as [|a0 at0]; [discriminate|]. destruct o as [|[|tail [|x l]] o1]; try discriminate.
  destruct (zmem tail (a0 :: at0)); [|discriminate]. set (atoms1 := minus (a0 :: at0) [tail]). set (nb := filter (fun x => zmem x atoms1) (set_of_z (gnbrs g tail))).
  destruct nb as [|n rest] eqn:En; [intros H; inversion H; subst; constructor|].
  destruct (ask o1 (n :: rest)) as [[order o2]|x] eqn:A; [|discriminate]. intros H. inversion H; subst.
  apply Forall_forall. intros e He. apply in_map_iff in He. destruct He as [x [E Hx]]. subst e.
  apply (fr_pair tail x). apply (nbr_filter atoms1 tail x). fold nb. rewrite En. apply (ask_In _ _ _ _ x A Hx).
Qed.

Lemma bfs_levels_inv fuel : forall atoms term stack o paths, Forall wk term -> Forall fr stack ->
  bfs_levels fuel g atoms term stack o = Ok paths -> Forall wk paths.
Proof.
  induction fuel as [|f IH]; intros atoms term stack o paths T F H; [discriminate|]. cbn [bfs_levels] in H.
  destruct (bfs_entries g atoms (keys stack) (mkBst term [] [], o) stack) as [[s o1]|x] eqn:E; [|discriminate].
  assert (I0 : binv' (mkBst term [] [])) by (split; cbn [b_term b_next]; [exact T | constructor]).
  assert (Inv : binv' s) by (apply (bfs_entries_inv _ _ _ _ _ _ _ I0 F E)). destruct Inv as [T' N'].
  destruct (minus atoms (keys stack)) as [|a1 at1] eqn:Ea; [inversion H; subst; exact T'|].
  destruct (b_next s) as [|n0 nrest] eqn:En.
  - destruct (bfs_start g (a1 :: at1) o1) as [[[atoms2 st] o2]|x] eqn:S; [|discriminate].
    apply (IH _ _ _ _ _ T' (bfs_start_inv _ _ _ _ _ S) H).
  - apply (IH _ _ _ _ _ T' N' H).
Qed.

Theorem bfs_paths_walks o paths : bfs_paths g o = Ok paths -> Forall wk paths.
Proof.
  unfold bfs_paths. destruct (bfs_start g (keys g) o) as [[[atoms st] o1]|x] eqn:S; [|discriminate].
  apply bfs_levels_inv; [constructor | apply (bfs_start_inv _ _ _ _ _ S)].
Qed.

End BfsWalks.

(* ---------- the tables of _make_pid hold walks between the right atoms ---------- *)
Section PidWalks.
Variable g : graph.
Hypothesis W : gwf g.

Definition Pth (i j : Z) (p : path) : Prop :=
  (2 <= length p)%nat /\ hd 0 p = i /\ last p 0 = j /\ forall a b, In (a, b) (seq_pairs p) -> adjacent g a b.
Definition cellP (i j : Z) (c : d3) : Prop := forall e, In e c -> Pth i j (snd e).
Definition rowP (i : Z) (r : d2) : Prop := forall j c, In (j, c) r -> cellP i j c.
Definition tinv (p : d1) : Prop := forall i r, In (i, r) p -> rowP i r.

Lemma cellP_nil i j : cellP i j []. Proof. intros e []. Qed.
Lemma rowP_nil i : rowP i []. Proof. intros j c []. Qed.

Lemma rowP_dput i r j c : rowP i r -> cellP i j c -> rowP i (dput Z.eqb r j c).
Proof. intros R C j0 c0 H. destruct (In_dput' Z.eqb zeqb_eq r j c _ H) as [X|X]; [apply (R j0 c0 X) | inversion X; subst; exact C]. Qed.
Lemma tinv_dput p i r : tinv p -> rowP i r -> tinv (dput Z.eqb p i r).
Proof. intros T R i0 r0 H. destruct (In_dput' Z.eqb zeqb_eq p i r _ H) as [X|X]; [apply (T i0 r0 X) | inversion X; subst; exact R]. Qed.
Lemma cellP_dput i j c k p : cellP i j c -> Pth i j p -> cellP i j (dput pkeqb c k p).
Proof. intros C P e H. destruct (In_dput' pkeqb pkeqb_eq c k p _ H) as [X|X]; [apply (C e X) | subst; exact P]. Qed.

Lemma viv2_inv p i j cell p' : tinv p -> viv2 p i j = (cell, p') -> cellP i j cell /\ tinv p'.
Proof.
  intros T H. unfold viv2 in H. destruct (dviv Z.eqb p i []) as [row p1] eqn:E1. destruct (dviv Z.eqb row j []) as [cell0 row'] eqn:E2. inversion H; subst cell0 p'.
  assert (R : rowP i row).
  { pose proof (dviv_val Z.eqb zeqb_eq p i []) as V. rewrite E1 in V. cbn [fst] in V. destruct V as [V|V]; [subst; apply rowP_nil | apply (T i row V)]. }
  assert (T1 : tinv p1).
  { intros i0 r0 H0. pose proof (In_dviv Z.eqb p i [] (i0, r0)) as V. rewrite E1 in V. cbn [snd] in V. destruct (V H0) as [X|X]; [apply (T i0 r0 X) | inversion X; subst; apply rowP_nil]. }
  assert (C : cellP i j cell).
  { pose proof (dviv_val Z.eqb zeqb_eq row j []) as V. rewrite E2 in V. cbn [fst] in V. destruct V as [V|V]; [subst; apply cellP_nil | apply (R j cell V)]. }
  assert (R' : rowP i row').
  { intros j0 c0 H0. pose proof (In_dviv Z.eqb row j [] (j0, c0)) as V. rewrite E2 in V. cbn [snd] in V. destruct (V H0) as [X|X]; [apply (R j0 c0 X) | inversion X; subst; apply cellP_nil]. }
  split; [exact C | apply tinv_dput; assumption].
Qed.

Lemma set2_inv p i j cell : tinv p -> cellP i j cell -> tinv (set2 p i j cell).
Proof.
  intros T C. unfold set2. destruct (dviv Z.eqb p i []) as [row p1] eqn:E1.
  assert (R : rowP i row).
  { pose proof (dviv_val Z.eqb zeqb_eq p i []) as V. rewrite E1 in V. cbn [fst] in V. destruct V as [V|V]; [subst; apply rowP_nil | apply (T i row V)]. }
  assert (T1 : tinv p1).
  { intros i0 r0 H0. pose proof (In_dviv Z.eqb p i [] (i0, r0)) as V. rewrite E1 in V. cbn [snd] in V. destruct (V H0) as [X|X]; [apply (T i0 r0 X) | inversion X; subst; apply rowP_nil]. }
  apply tinv_dput; [exact T1 | apply rowP_dput; assumption].
Qed.

Lemma set3_inv p i j k c : tinv p -> Pth i j c -> tinv (set3 p i j k c).
Proof.
  intros T P. unfold set3. destruct (viv2 p i j) as [cell p1] eqn:E. destruct (viv2_inv p i j cell p1 T E) as [C T1].
  apply set2_inv; [exact T1 | apply cellP_dput; assumption].
Qed.

Lemma Pth_rev i j p : Pth i j p -> Pth j i (rev p).
Proof.
  intros [L [H [T A]]]. split; [rewrite rev_length; exact L|]. split; [rewrite hd_rev; exact T|]. split; [rewrite last_rev; exact H|].
  intros a b Hab. rewrite seq_pairs_rev in Hab. apply in_rev in Hab. apply in_map_iff in Hab. destruct Hab as [[c d] [E Hcd]]. unfold swap in E. cbn in E. inversion E; subst.
  destruct (A b a Hcd) as [X Y]. split; assumption.
Qed.

Lemma Pth_compose i k j ip jp : Pth i k ip -> Pth k j jp -> Pth i j (removelast ip ++ jp).
Proof.
  intros [L1 [H1 [T1 A1]]] [L2 [H2 [T2 A2]]].
  assert (NE : ip <> []) by (destruct ip; [cbn in L1; lia | discriminate]). destruct (exists_last NE) as [ip' [z E]]. subst ip. rewrite removelast_last. rewrite last_last in T1. subst z.
  assert (N1 : ip' <> []) by (destruct ip'; [cbn in L1; lia | discriminate]). assert (N2 : jp <> []) by (destruct jp; [cbn in L2; lia | discriminate]).
  split; [rewrite app_length in *; cbn in L1; lia|]. split; [destruct ip'; [congruence | exact H1]|]. split; [rewrite (last_app_ne ip' jp 0 N2); exact T2|].
  intros a b Hab. rewrite (seq_pairs_app_ne ip' jp N1 N2) in Hab. apply in_app_or in Hab. destruct Hab as [Hab|[Hab|Hab]].
  - apply A1. apply seq_pairs_app_l. exact Hab.
  - inversion Hab; subst. apply A1. rewrite (seq_pairs_app_ne ip' [hd 0 jp] N1) by discriminate. apply in_or_app. right. left. reflexivity.
  - apply A2. exact Hab.
Qed.

Lemma zip_paths_inv i k j a : forall b acc, cellP i k a -> cellP k j b -> cellP i j acc -> cellP i j (zip_paths a b acc).
Proof.
  induction a as [|[ka ip] a IH]; intros b acc Ca Cb Cacc; [destruct b; exact Cacc|]. destruct b as [|[kb jp] b]; [exact Cacc|]. cbn [zip_paths].
  apply IH; [intros e He; apply Ca; right; exact He | intros e He; apply Cb; right; exact He|].
  apply cellP_dput; [exact Cacc|]. apply (Pth_compose i k j ip jp); [apply (Ca (ka, ip)); left; reflexivity | apply (Cb (kb, jp)); left; reflexivity].
Qed.

Lemma compose_inv p i k j comp p' : tinv p -> compose p i k j = (comp, p') -> cellP i j comp /\ tinv p'.
Proof.
  intros T H. unfold compose in H. destruct (viv2 p i k) as [a pa] eqn:E1. destruct (viv2_inv p i k a pa T E1) as [Ca Ta].
  destruct (viv2 pa k j) as [b pb] eqn:E2. destruct (viv2_inv pa k j b pb Ta E2) as [Cb Tb]. inversion H; subst.
  split; [apply (zip_paths_inv i k j); [exact Ca | exact Cb | apply cellP_nil] | exact Tb].
Qed.

Lemma dupdate_inv i j cell extra : cellP i j cell -> cellP i j extra -> cellP i j (dupdate cell extra).
Proof.
  unfold dupdate. revert cell. induction extra as [|e extra IH]; intros cell C E; [exact C|]. cbn [fold_left].
  apply IH; [apply cellP_dput; [exact C | apply (E e); left; reflexivity] | intros x Hx; apply E; right; exact Hx].
Qed.

Definition sinv (st : d1 * d1 * dist) : Prop := tinv (fst (fst st)) /\ tinv (snd (fst st)).

Lemma pid_j_inv k i dold st j : sinv st -> sinv (pid_j k i dold st j).
Proof.
  intros [T1 T2]. destruct st as [[p1 p2] dnew]. cbn [fst snd] in *. unfold pid_j. destruct ((j =? k) || (j =? i)); [split; assumption|].
  destruct (dist_get dold i j - (dist_get dold i k + dist_get dold k j) =? 1).
  - destruct (viv2 p1 i j) as [old p1a] eqn:E1. destruct (viv2_inv _ _ _ _ _ T1 E1) as [Co Ta].
    destruct (compose p1a i k j) as [comp p1b] eqn:E2. destruct (compose_inv _ _ _ _ _ _ Ta E2) as [Cc Tb].
    split; cbn [fst snd]; [apply set2_inv; assumption | apply set2_inv; assumption].
  - destruct (dist_get dold i k + dist_get dold k j <? dist_get dold i j).
    + destruct (compose p1 i k j) as [comp p1b] eqn:E2. destruct (compose_inv _ _ _ _ _ _ T1 E2) as [Cc Tb].
      split; cbn [fst snd]; [apply set2_inv; assumption | apply set2_inv; [exact T2 | apply cellP_nil]].
    + destruct (dist_get dold i j =? dist_get dold i k + dist_get dold k j).
      * destruct (viv2 p1 i j) as [c0 p1a] eqn:E1. destruct (viv2_inv _ _ _ _ _ T1 E1) as [_ Ta].
        destruct (compose p1a i k j) as [comp p1b] eqn:E2. destruct (compose_inv _ _ _ _ _ _ Ta E2) as [Cc Tb].
        destruct (viv2 p1b i j) as [cell p1c] eqn:E3. destruct (viv2_inv _ _ _ _ _ Tb E3) as [Cl Tc].
        split; cbn [fst snd]; [apply set2_inv; [exact Tc | apply dupdate_inv; assumption] | exact T2].
      * destruct (dist_get dold i k + dist_get dold k j - dist_get dold i j =? 1); [|split; assumption].
        destruct (viv2 p2 i j) as [c0 p2a] eqn:E1. destruct (viv2_inv _ _ _ _ _ T2 E1) as [_ Ta].
        destruct (compose p1 i k j) as [comp p1b] eqn:E2. destruct (compose_inv _ _ _ _ _ _ T1 E2) as [Cc Tb].
        destruct (viv2 p2a i j) as [cell p2b] eqn:E3. destruct (viv2_inv _ _ _ _ _ Ta E3) as [Cl Tc].
        split; cbn [fst snd]; [exact Tb | apply set2_inv; [exact Tc | apply dupdate_inv; assumption]].
Qed.

Lemma fold_sinv {A} (f : d1 * d1 * dist -> A -> d1 * d1 * dist) l : (forall st a, sinv st -> sinv (f st a)) -> forall st, sinv st -> sinv (fold_left f l st).
Proof. intros H. induction l as [|a l IH]; intros st S; [exact S|]. cbn [fold_left]. apply IH. apply H. exact S. Qed.

Lemma pid_i_inv ks k dold st i : sinv st -> sinv (pid_i ks k dold st i).
Proof.
  intros S. unfold pid_i. destruct (i =? k); [exact S|]. destruct st as [[p1 p2] dnew]. apply fold_sinv; [intros st a; apply pid_j_inv | exact S].
Qed.

Lemma pid_k_inv ks st k : sinv st -> sinv (pid_k ks st k).
Proof. intros S. unfold pid_k. destruct st as [[p1 p2] dold]. apply fold_sinv; [intros st a; apply pid_i_inv | exact S]. Qed.

Lemma pid_init_inv st c : wk g c -> sinv st -> sinv (pid_init_step st c).
Proof.
  intros [L A] [T1 T2]. destruct st as [[p1 p2] d]. cbn [fst snd] in *.
  assert (P : Pth (nth_z c 0) (last c 0) c).
  { split; [exact L|]. split; [unfold nth_z; destruct c; reflexivity|]. split; [reflexivity | exact A]. }
  pose proof (Pth_rev _ _ _ P) as Pr. unfold pid_init_step.
  destruct (dist_has d (nth_z c 0) (last c 0) && negb (dist_get d (nth_z c 0) (last c 0) =? Z.of_nat (length c) - 1)); split; cbn [fst snd]; try assumption;
    (apply set3_inv; [apply set3_inv; assumption | exact Pr]).
Qed.

Theorem make_pid_walks paths : Forall (wk g) paths -> sinv (make_pid paths).
Proof.
  intros F. unfold make_pid. apply fold_sinv; [intros st k; apply pid_k_inv|].
  assert (Fs : Forall (wk g) (sort_paths paths)) by (apply Forall_forall; intros p Hp; apply (proj1 (sort_by_len_In _ _)) in Hp; rewrite Forall_forall in F; apply F; exact Hp).
  revert Fs. generalize (sort_paths paths). intros l Fl.
  assert (G : forall st, sinv st -> sinv (fold_left pid_init_step l st)).
  { induction l as [|c l IH]; intros st S; [exact S|]. inversion Fl as [|? ? Fc Fl']; subst. cbn [fold_left]. apply (IH Fl'). apply pid_init_inv; assumption. }
  apply G. split; intros i r [].
Qed.

End PidWalks.

(* ---------- every candidate with at least three atoms is a simple cycle ---------- *)
Section Candidates.
Variable g : graph.
Hypothesis W : gwf g.

Lemma Pth_path_ok i j p : Pth g i j p -> path_ok g i j (Z.of_nat (length p)) p.
Proof. intros [L [H [T A]]]. split; [reflexivity|]. split; [exact H|]. split; [exact T | exact A]. Qed.

Lemma index_nat_lt x l : forall k, index_nat x l = Some k -> (k < length l)%nat.
Proof.
  induction l as [|y l IH]; intros k H; cbn in H; [discriminate|]. destruct (x =? y); [inversion H; cbn; lia|].
  destruct (index_nat x l) as [k'|]; [|discriminate]. cbn in H. inversion H. specialize (IH k' eq_refl). cbn. lia.
Qed.

Lemma removelast_length {A} (l : list A) : l <> [] -> S (length (removelast l)) = length l.
Proof. intros NE. destruct (exists_last NE) as [l' [a E]]. subst. rewrite removelast_last, app_length. cbn. lia. Qed.

Lemma canonic_ring_length r r' : canonic_ring r = Ok r' -> length r' = length r.
Proof.
  unfold canonic_ring. destruct (list_min r) as [n|] eqn:M; [|discriminate]. assert (NE : r <> []) by (destruct r; [discriminate | discriminate]).
  destruct (index_nat n r) as [ndx|] eqn:I; [|discriminate]. pose proof (index_nat_lt n r ndx I) as Lt.
  destruct (Nat.eqb ndx 0).
  - destruct (lt_idx (at_neg r 1) (at_pos r 1)) as [[|]|]; intros H; inversion H; subst; [|reflexivity].
    unfold sl_rev_to1. cbn [length]. rewrite rev_length. destruct r; [congruence | reflexivity].
  - destruct (Nat.eqb ndx (length r - 1)).
    + destruct (lt_idx (at_neg r 2) (at_pos r 0)) as [[|]|]; intros H; inversion H; subst; [unfold sl_rev; apply rev_length|].
      unfold sl_init. cbn [length]. apply removelast_length. exact NE.
    + destruct (lt_idx (at_pos r (ndx - 1)) (at_pos r (ndx + 1))) as [[|]|]; intros H; inversion H; subst.
      * unfold sl_rev_from, sl_rev_after. rewrite app_length, !rev_length, firstn_length, skipn_length. lia.
      * unfold sl_from, sl_to. rewrite app_length, firstn_length, skipn_length. lia.
Qed.

Lemma raw_ring_cycle i j c1 c2 r : Pth g i j c1 -> Pth g i j c2 -> NoDup (c1 ++ sl_mid_rev c2) -> canonic_ring (c1 ++ sl_mid_rev c2) = Ok r ->
  (3 <= length r)%nat -> is_cycle g r.
Proof.
  intros P1 P2 N E L3. pose proof P1 as [L1 _]. pose proof P2 as [L2 _].
  assert (Lraw : length (c1 ++ sl_mid_rev c2) = (length c1 + length c2 - 2)%nat).
  { destruct P2 as [_ [H2 [T2 _]]]. destruct (path_split c2 i j L2 H2 T2) as [mid Em]. rewrite Em, sl_mid_rev_split, !app_length, rev_length. cbn [length]. lia. }
  (* canonic_ring keeps the length of a duplicate-free ring with at least ... atoms; handle short rings by the length of r *)
  destruct (Nat.le_gt_cases 3 (length (c1 ++ sl_mid_rev c2))) as [Big|Small].
  - assert (G1 : 2 <= Z.of_nat (length c1)) by lia. assert (G2 : 2 <= Z.of_nat (length c2)) by lia.
    assert (G3 : 3 <= Z.of_nat (length c1) + Z.of_nat (length c2) - 2) by (rewrite Lraw in Big; lia).
    destruct (glue_cycle g i j (Z.of_nat (length c1)) (Z.of_nat (length c2)) c1 c2 W (Pth_path_ok _ _ _ P1) (Pth_path_ok _ _ _ P2) G1 G2 G3 N) as [C _].
    apply (canonic_ring_cycle g _ r W C E).
  - (* fewer than three atoms: canonic_ring keeps the number of atoms *)
    exfalso. pose proof (canonic_ring_length _ _ E) as X. lia.
Qed.

Lemma entry_rings_walks (p1 p2 : d1) e rs : tinv g p1 -> tinv g p2 ->
  (exists i j, (forall p, In p (snd (fst e)) -> Pth g i j p) /\ match snd e with None => True | Some l => forall p, In p l -> Pth g i j p end) ->
  rings_of_entry e = Ok rs -> forall r, In r rs -> (3 <= length r)%nat -> is_cycle g r.
Proof.
  intros _ _ [i [j [A B]]] H r Hr L3. destruct e as [[c_num p1ij] p2o]. cbn [fst snd] in *. unfold rings_of_entry in H.
  destruct (map_res_In canonic_ring _ rs H r Hr) as [raw [Hraw Ecan]]. apply filter_In in Hraw. destruct Hraw as [Hraw Nd]. apply nodup_z_NoDup in Nd.
  destruct (Z.odd c_num).
  - destruct p2o as [p2ij|]; [|destruct Hraw]. apply in_flat_map in Hraw. destruct Hraw as [c1 [H1 Hraw]]. apply in_map_iff in Hraw. destruct Hraw as [c2 [E2 H2]]. subst raw.
    apply (raw_ring_cycle i j c1 c2 r (A c1 H1) (B c2 H2) Nd Ecan L3).
  - apply in_map_iff in Hraw. destruct Hraw as [[c1 c2] [E Hc]]. cbn [fst snd] in E. subst raw.
    assert (H1 : In c1 p1ij) by (apply (in_combine_l _ _ _ _ Hc)).
    assert (H2 : In c2 p1ij) by (apply in_combine_r in Hc; destruct p1ij; [destruct Hc | right; exact Hc]).
    apply (raw_ring_cycle i j c1 c2 r (A c1 H1) (A c2 H2) Nd Ecan L3).
Qed.

Lemma lookup2_cellP p i j : tinv g p -> cellP g i j (lookup2 p i j).
Proof.
  intros T. unfold lookup2. destruct (dget Z.eqb p i) as [r|] eqn:E1; [|apply cellP_nil]. apply (dget_In Z.eqb zeqb_eq) in E1.
  destruct (dget Z.eqb r j) as [c|] eqn:E2; [|apply cellP_nil]. apply (dget_In Z.eqb zeqb_eq) in E2. apply (T i r E1 j c E2).
Qed.

Lemma cset_row_walks p2 d seen i row e : rowP g i row -> tinv g p2 -> In e (cset_row p2 d seen i row) ->
  exists i0 j0, (forall p, In p (snd (fst e)) -> Pth g i0 j0 p) /\ match snd e with None => True | Some l => forall p, In p l -> Pth g i0 j0 p end.
Proof.
  intros R T2 He. unfold cset_row in He. apply in_flat_map in He. destruct He as [[j cell] [Hj He]]. cbn [fst snd] in He.
  assert (P1 : forall p, In p (d3vals cell) -> Pth g i j p) by (intros p Hp; destruct (d3vals_In cell p Hp) as [k Hk]; apply (R j cell Hj (k, p) Hk)).
  assert (P2 : forall p, In p (d3vals (lookup2 p2 i j)) -> Pth g i j p) by (intros p Hp; destruct (d3vals_In _ p Hp) as [k Hk]; apply (lookup2_cellP p2 i j T2 (k, p) Hk)).
  destruct (zmem j seen); [destruct He|].
  destruct (d3vals cell) as [|x [|y t]] eqn:E1; destruct (d3vals (lookup2 p2 i j)) as [|u w] eqn:E2; cbn [In] in He;
    repeat match goal with H : _ \/ _ |- _ => destruct H as [H|H] end; try contradiction; subst e; exists i, j; cbn [fst snd]; split; try exact P1; try exact P2; exact I.
Qed.

Lemma cset_rows_walks p2 d rows : forall seen e, tinv g rows -> tinv g p2 -> In e (cset_rows rows p2 d seen) ->
  exists i0 j0, (forall p, In p (snd (fst e)) -> Pth g i0 j0 p) /\ match snd e with None => True | Some l => forall p, In p l -> Pth g i0 j0 p end.
Proof.
  induction rows as [|[i row] t IH]; intros seen e T1 T2 He; [destruct He|]. cbn [cset_rows] in He. apply in_app_or in He. destruct He as [He|He].
  - apply (cset_row_walks p2 d _ i row e (T1 i row (or_introl eq_refl)) T2 He).
  - apply (IH _ e (fun i0 r0 H0 => T1 i0 r0 (or_intror H0)) T2 He).
Qed.

Lemma concat_res_In {A} (l : list (pyres (list A))) : forall cs, concat_res l = Ok cs -> forall c, In c cs -> exists rs, In (Ok rs) l /\ In c rs.
Proof.
  induction l as [|x l IH]; intros cs H c Hc; cbn [concat_res] in H; [inversion H; subst; destruct Hc|].
  destruct x as [a|e]; [|discriminate]. destruct (concat_res l) as [r|e]; [|discriminate]. inversion H; subst. apply in_app_or in Hc. destruct Hc as [Hc|Hc].
  - exists a. split; [left; reflexivity | exact Hc].
  - destruct (IH r eq_refl c Hc) as [rs [H1 H2]]. exists rs. split; [right; exact H1 | exact H2].
Qed.

Theorem c_set_walk_cycles pids cs : sinv g pids -> c_set pids = Ok cs -> forall c, In c cs -> (3 <= length c)%nat -> is_cycle g c.
Proof.
  intros [T1 T2] H c Hc L3. destruct pids as [[p1 p2] d]. cbn [fst snd] in *. unfold c_set in H.
  destruct (concat_res_In _ cs H c Hc) as [rs [Hrs Hin]]. apply in_map_iff in Hrs. destruct Hrs as [e [Ee He]].
  apply (proj1 (sort_cs_In _ _)) in He. apply (entry_rings_walks p1 p2 e rs T1 T2 (cset_rows_walks p2 d p1 [] e T1 T2 He) Ee c Hin L3).
Qed.

End Candidates.

(* for EVERY oracle: every candidate the modelled generation yields for a well-formed graph is, as soon as it has three atoms,
   a simple cycle of that graph *)
Theorem candidates_are_cycles g o cs : gwf g -> candidates g o = Ok cs -> forall c, In c cs -> (3 <= length c)%nat -> is_cycle g c.
Proof.
  intros W H c Hc L3. unfold candidates in H. destruct (skin_graph g) as [sk|x] eqn:Sk; [|discriminate]. destruct (bfs_paths sk o) as [paths|x] eqn:Bf; [|discriminate].
  destruct (skin_graph_wf g W) as [sk' [E Wsk]]. rewrite Sk in E. inversion E; subst sk'.
  pose proof (bfs_paths_walks sk Wsk o paths Bf) as Fw. pose proof (make_pid_walks sk paths Fw) as S.
  pose proof (c_set_walk_cycles sk Wsk (make_pid paths) cs S H c Hc L3) as C.
  pose proof W as [Nk _]. apply (is_cycle_mono g sk c); [|exact C]. intros x y Hy. apply (skin_only_removes g sk Nk Sk x y Hy).
Qed.

(* for EVERY oracle: when no candidate is a degenerate two-atom ring and the selection finishes in its first phase, the modelled
   perception returns a cycle basis *)
Theorem sssr_model_accepted_every_oracle g o cs rs : gwf g -> 0 < cyclomatic g -> candidates g o = Ok cs ->
  (forall c, In c cs -> (3 <= length c)%nat) -> first_phase cs (Z.to_nat (cyclomatic g)) -> sssr_model g o = Ok rs ->
  is_cycle_basis g rs = true.
Proof.
  intros W Pos Hc L3 FP H. unfold sssr_model in H. rewrite (rings_count_ok g W) in H.
  replace (cyclomatic g =? 0) with false in H by (symmetry; apply Z.eqb_neq; lia). rewrite Hc in H.
  apply (first_phase_accepted g cs (Z.to_nat (cyclomatic g)) rs W); [|rewrite Z2Nat.id by lia; reflexivity | exact FP | exact H].
  intros c Hin. apply (candidates_are_cycles g o cs W Hc c Hin (L3 c Hin)).
Qed.
