(* C17, second extension round (1): the array forms are the characteristic vectors of the bit sets. *)
From Coq Require Import ZArith List Bool Lia Permutation.
From Model Require Import PyBase Graph PyHash Fingerprint FingerprintCGR FingerprintVec.
From Proofs Require Import FingerprintProofs FingerprintCGRProofs.
Import ListNotations.
Open Scope Z_scope.

Lemma existsb_ext_in {A} (f g : A -> bool) l : (forall x, In x l -> f x = g x) -> existsb f l = existsb g l.
Proof.
  induction l as [|a l IH]; intro H; cbn; [reflexivity|].
  rewrite (H a (or_introl eq_refl)), IH; [reflexivity|]. intros x Hx. apply H. right. exact Hx.
Qed.

Lemma existsb_false_in {A} (f : A -> bool) l : (forall x, In x l -> f x = false) -> existsb f l = false.
Proof. induction l as [|a l IH]; intro H; cbn; [reflexivity|]. rewrite (H a (or_introl eq_refl)), IH; auto. intros x Hx. apply H. right. exact Hx. Qed.

(* ---- numpy assignment with valid positions = characteristic vector ---- *)
Lemma np_set_ones_valid len idx : (forall b, In b idx -> 0 <= b < len) ->
  np_set_ones len idx = Ok (char_vector len idx).
Proof.
  intro H. unfold np_set_ones.
  rewrite (existsb_false_in _ idx).
  - f_equal. unfold char_vector. apply map_ext_in. intros i Hi. unfold zmem.
    rewrite (existsb_ext_in (fun b => b mod len =? i) (Z.eqb i) idx); [reflexivity|].
    intros b Hb. rewrite Z.mod_small by (apply H; exact Hb). apply Z.eqb_sym.
  - intros b Hb. specialize (H b Hb). apply orb_false_iff. split; [apply Z.ltb_ge | apply Z.leb_gt]; lia.
Qed.

(* ---- facts about characteristic vectors ---- *)
Lemma char_vector_length len bits : length (char_vector len bits) = Z.to_nat len.
Proof. unfold char_vector. rewrite map_length, zrange_length. f_equal. lia. Qed.

Lemma char_vector_01 len bits x : In x (char_vector len bits) -> x = 0 \/ x = 1.
Proof. unfold char_vector. rewrite in_map_iff. intros [i [<- _]]. destruct (zmem i bits); auto. Qed.

Lemma nth_zrange_from n : forall s k d, (k < n)%nat -> nth k (zrange_from s n) d = s + Z.of_nat k.
Proof.
  induction n as [|n IH]; intros s k d Hk; [lia|]. destruct k as [|k]; cbn [zrange_from nth]; [lia|].
  rewrite IH by lia. lia.
Qed.

Lemma char_vector_nth len bits i : 0 <= i < len ->
  nth (Z.to_nat i) (char_vector len bits) 0 = if zmem i bits then 1 else 0.
Proof.
  intro Hi. unfold char_vector. set (f := fun j : Z => if zmem j bits then 1 else 0).
  rewrite (nth_indep _ 0 (f 0)) by (rewrite map_length, zrange_length; lia).
  rewrite map_nth. unfold zrange. rewrite nth_zrange_from by lia. rewrite Z2Nat.id by lia. reflexivity.
Qed.

Theorem char_vector_spec len bits i : 0 <= i < len ->
  (nth (Z.to_nat i) (char_vector len bits) 0 = 1 <-> In i bits) /\
  (nth (Z.to_nat i) (char_vector len bits) 0 = 0 <-> ~ In i bits).
Proof.
  intro Hi. rewrite char_vector_nth by exact Hi. destruct (zmem i bits) eqn:E.
  - apply zmem_In in E. split; split; try tauto; discriminate.
  - assert (Hn : ~ In i bits) by (intro H; apply zmem_In in H; congruence). split; split; try tauto; discriminate.
Qed.

(* a characteristic vector depends on the SET of positions only *)
Lemma char_vector_set_ext len bits bits' : (forall b, In b bits <-> In b bits') -> char_vector len bits = char_vector len bits'.
Proof.
  intro H. unfold char_vector. apply map_ext. intro i.
  destruct (zmem i bits) eqn:E, (zmem i bits') eqn:E'; try reflexivity.
  - apply zmem_In in E. apply H in E. apply zmem_In in E. congruence.
  - apply zmem_In in E'. apply H in E'. apply zmem_In in E'. congruence.
Qed.

(* ---- the array of any folded hash list ---- *)
Theorem vec_of_bit_list len nab hashes :
  (len <= 0 -> vec_of len (bit_list len nab hashes) = Err ValueError) /\
  (0 < len -> exists bits, bit_list len nab hashes = Ok bits /\
     vec_of len (bit_list len nab hashes) = Ok (char_vector len bits)).
Proof.
  destruct (bits_below_length len nab hashes) as [H1 H2]. split; intro Hl.
  - rewrite (H1 Hl). reflexivity.
  - destruct (H2 Hl) as [bits [E Hb]]. exists bits. split; [exact E|]. rewrite E. cbn [vec_of].
    apply np_set_ones_valid. exact Hb.
Qed.

(* the statement for a bit-set result r (linear_bit_list / morgan_bit_list / CGR variants): no IndexError ever; the array
   has `length` entries 0/1 and entry i is 1 exactly when i is in the bit set *)
Definition is_char_vector_of (len : Z) (r v : pyres (list Z)) : Prop :=
  match r, v with
  | Ok bits, Ok vec =>
      length vec = Z.to_nat len /\ (forall x, In x vec -> x = 0 \/ x = 1) /\
      (forall i, 0 <= i < len -> (nth (Z.to_nat i) vec 0 = 1 <-> In i bits) /\ (nth (Z.to_nat i) vec 0 = 0 <-> ~ In i bits)) /\
      vec = char_vector len bits
  | Err e, Err e' => e = e'
  | _, _ => False
  end.

Lemma vec_of_is_char_vector len r : (forall bits, r = Ok bits -> forall b, In b bits -> 0 <= b < len) ->
  is_char_vector_of len r (vec_of len r).
Proof.
  intro H. destruct r as [bits|e]; cbn [vec_of]; [|reflexivity].
  rewrite (np_set_ones_valid len bits (H bits eq_refl)). cbn.
  split; [apply char_vector_length|]. split; [apply char_vector_01|]. split; [apply char_vector_spec | reflexivity].
Qed.

Lemma bit_list_range len nab hashes bits : bit_list len nab hashes = Ok bits -> forall b, In b bits -> 0 <= b < len.
Proof.
  intros E b Hb. unfold bit_list in E. destruct (len <=? 0) eqn:El; [discriminate|]. apply Z.leb_gt in El.
  inversion E; subst. apply in_flat_map in Hb. destruct Hb as [t [_ Hb]]. eapply fold_bits_below_length; eassumption.
Qed.

Lemma bit_list_of_range len nab r bits : bit_list_of len nab r = Ok bits -> forall b, In b bits -> 0 <= b < len.
Proof.
  unfold bit_list_of. destruct (len <=? 0); [discriminate|]. destruct r as [l|e]; [|discriminate]. apply bit_list_range.
Qed.

Theorem linear_fingerprint_spec (h : list Z -> Z) g lo hi len nab nbp :
  is_char_vector_of len (linear_bit_list h g lo hi len nab nbp) (linear_fingerprint h g lo hi len nab nbp).
Proof. apply vec_of_is_char_vector. intros bits E. exact (bit_list_range _ _ _ _ E). Qed.

Theorem morgan_fingerprint_spec (h : list Z -> Z) g lo hi len nab :
  is_char_vector_of len (morgan_bit_list h g lo hi len nab) (morgan_fingerprint h g lo hi len nab).
Proof. apply vec_of_is_char_vector. intros bits E. exact (bit_list_of_range _ _ _ _ E). Qed.

Theorem cgr_linear_fingerprint_spec (h : list Z -> Z) c lo hi len nab nbp :
  is_char_vector_of len (cgr_linear_bit_list h c lo hi len nab nbp) (cgr_linear_fingerprint h c lo hi len nab nbp).
Proof. apply vec_of_is_char_vector. intros bits E. exact (bit_list_range _ _ _ _ E). Qed.

Theorem cgr_morgan_fingerprint_spec (h : list Z -> Z) c lo hi len nab :
  is_char_vector_of len (cgr_morgan_bit_list h c lo hi len nab) (cgr_morgan_fingerprint h c lo hi len nab).
Proof. apply vec_of_is_char_vector. intros bits E. exact (bit_list_of_range _ _ _ _ E). Qed.

(* ---- invariance: the arrays of a renumbered / reordered molecule are EQUAL ---- *)
Lemma vec_of_set_ext len r r' :
  (forall bits, r = Ok bits -> forall b, In b bits -> 0 <= b < len) ->
  (forall bits, r' = Ok bits -> forall b, In b bits -> 0 <= b < len) ->
  match r, r' with
  | Ok bits, Ok bits' => forall b, In b bits <-> In b bits'
  | Err e, Err e' => e = e'
  | _, _ => False
  end -> vec_of len r = vec_of len r'.
Proof.
  intros H H' M. destruct r as [bits|e], r' as [bits'|e']; try contradiction; cbn [vec_of].
  - rewrite (np_set_ones_valid len bits (H bits eq_refl)), (np_set_ones_valid len bits' (H' bits' eq_refl)).
    f_equal. apply char_vector_set_ext. exact M.
  - congruence.
Qed.

Lemma perm_match_iff (r r' : pyres (list Z)) :
  match r, r' with Ok l, Ok l' => Permutation l l' | Err e, Err e' => e = e' | _, _ => False end ->
  match r, r' with Ok l, Ok l' => forall b, In b l <-> In b l' | Err e, Err e' => e = e' | _, _ => False end.
Proof.
  destruct r as [l|e], r' as [l'|e']; auto. intros HP b. split; apply Permutation_in; [|apply Permutation_sym]; exact HP.
Qed.

Theorem linear_fingerprint_rename (h : list Z -> Z) (s : Z -> Z) g lo hi len nab nbp :
  (forall x y, s x = s y -> x = y) -> wf_mol g = true ->
  linear_fingerprint h (rename_mol s g) lo hi len nab nbp = linear_fingerprint h g lo hi len nab nbp.
Proof.
  intros Hinj Hwf. unfold linear_fingerprint. apply vec_of_set_ext.
  - intros bits E. exact (bit_list_range _ _ _ _ E).
  - intros bits E. exact (bit_list_range _ _ _ _ E).
  - apply bit_sets_invariant; assumption.
Qed.

Theorem morgan_fingerprint_rename (h : list Z -> Z) (s : Z -> Z) g lo hi len nab :
  (forall x y, s x = s y -> x = y) ->
  morgan_fingerprint h (rename_mol s g) lo hi len nab = morgan_fingerprint h g lo hi len nab.
Proof. intro Hinj. unfold morgan_fingerprint. rewrite (morgan_bit_list_rename h s Hinj). reflexivity. Qed.

Theorem linear_fingerprint_reordered g g' : wf_mol g = true -> wf_mol g' = true -> reordered g g' ->
  forall (h : list Z -> Z) lo hi len nab nbp,
  linear_fingerprint h g lo hi len nab nbp = linear_fingerprint h g' lo hi len nab nbp.
Proof.
  intros Hwf Hwf' Hre h lo hi len nab nbp. unfold linear_fingerprint. apply vec_of_set_ext.
  - intros bits E. exact (bit_list_range _ _ _ _ E).
  - intros bits E. exact (bit_list_range _ _ _ _ E).
  - apply linear_bit_list_reordered; assumption.
Qed.

Theorem morgan_fingerprint_reordered g g' : wf_mol g = true -> reordered g g' ->
  forall (h : list Z -> Z) lo hi len nab,
  morgan_fingerprint h g lo hi len nab = morgan_fingerprint h g' lo hi len nab.
Proof.
  intros Hwf Hre h lo hi len nab. unfold morgan_fingerprint. apply vec_of_set_ext.
  - intros bits E. exact (bit_list_of_range _ _ _ _ E).
  - intros bits E. exact (bit_list_of_range _ _ _ _ E).
  - apply perm_match_iff. apply morgan_bit_list_reordered; assumption.
Qed.

Theorem cgr_linear_fingerprint_rename (h : list Z -> Z) (s : Z -> Z) c lo hi len nab nbp :
  (forall x y, s x = s y -> x = y) -> wf_cgr c = true ->
  cgr_linear_fingerprint h (rename_cgr s c) lo hi len nab nbp = cgr_linear_fingerprint h c lo hi len nab nbp.
Proof.
  intros Hinj Hwf. unfold cgr_linear_fingerprint. apply vec_of_set_ext.
  - intros bits E. exact (bit_list_range _ _ _ _ E).
  - intros bits E. exact (bit_list_range _ _ _ _ E).
  - apply cgr_bit_sets_invariant; assumption.
Qed.

Theorem cgr_morgan_fingerprint_rename (h : list Z -> Z) (s : Z -> Z) c lo hi len nab :
  (forall x y, s x = s y -> x = y) ->
  cgr_morgan_fingerprint h (rename_cgr s c) lo hi len nab = cgr_morgan_fingerprint h c lo hi len nab.
Proof. intro Hinj. unfold cgr_morgan_fingerprint. rewrite (cgr_morgan_bit_list_rename s Hinj). reflexivity. Qed.

Theorem cgr_fingerprints_reordered c c' : wf_cgr c = true -> wf_cgr c' = true -> cgr_reordered c c' ->
  forall (h : list Z -> Z) lo hi len nab nbp,
  cgr_linear_fingerprint h c lo hi len nab nbp = cgr_linear_fingerprint h c' lo hi len nab nbp /\
  cgr_morgan_fingerprint h c lo hi len nab = cgr_morgan_fingerprint h c' lo hi len nab.
Proof.
  intros Hwf Hwf' Hre h lo hi len nab nbp. split.
  - unfold cgr_linear_fingerprint. apply vec_of_set_ext.
    + intros bits E. exact (bit_list_range _ _ _ _ E).
    + intros bits E. exact (bit_list_range _ _ _ _ E).
    + apply cgr_linear_bit_list_reordered; assumption.
  - unfold cgr_morgan_fingerprint. apply vec_of_set_ext.
    + intros bits E. exact (bit_list_of_range _ _ _ _ E).
    + intros bits E. exact (bit_list_of_range _ _ _ _ E).
    + apply perm_match_iff. apply cgr_morgan_bit_list_reordered; assumption.
Qed.

(* the numpy model does raise IndexError on positions outside [-length, length): the theorems above say the code never
   gets there; a negative position would address from the end *)
Lemma np_set_ones_examples :
  np_set_ones 4 [1; 3] = Ok [0; 1; 0; 1] /\ np_set_ones 4 [-1] = Ok [0; 0; 0; 1] /\
  np_set_ones 4 [4] = Err IndexError /\ np_set_ones 4 [-5] = Err IndexError /\
  linear_fingerprint hash_ztuple ex_mol 1 2 8 1 4 = Ok [1; 1; 0; 1; 1; 0; 0; 1] /\
  linear_fingerprint hash_ztuple ex_mol 1 2 0 1 4 = Err ValueError /\
  morgan_fingerprint hash_ztuple ex_mol 0 2 8 1 = Err OtherError.
Proof. repeat split; vm_compute; reflexivity. Qed.
