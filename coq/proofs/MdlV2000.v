(* C11: the V2000 writer / reader field round trip (Model.Mdl: write_mol_v2000, parse_mol_v2000).
   Part A  generic helpers (slices, monadic maps / folds)
   Part B  per-line codecs: counts line, atom line, bond line, property lines
   Part C  the block theorem  v2000_fields_roundtrip  and a concrete, non-trivial instance *)
From Coq Require Import ZArith List String Ascii Bool Lia.
From Model Require Import PyBase Mdl.
From Gen Require Import MdlTables.
From Proofs Require Import MdlProofs.
Import ListNotations.
Open Scope Z_scope.
Local Notation length := List.length.
Local Notation concat := List.concat.

(* ================================================================================================ *)
(** * Part A: helpers *)

Lemma slice_drop' a r n p q p' q' :
  length a = n -> p = (n + p')%nat -> q = (n + q')%nat -> slice p q (a ++ r) = slice p' q' r.
Proof. intros H -> ->. rewrite (slice_drop a r n) by lia. f_equal; lia. Qed.

Lemma slice_app_l a r p q : (q <= length a)%nat -> slice p q (a ++ r) = slice p q a.
Proof.
  intros H. unfold slice. rewrite skipn_app, firstn_app. rewrite skipn_length.
  replace (q - p - (length a - p))%nat with 0%nat by lia. cbn [firstn]. apply app_nil_r.
Qed.

Lemma slice_mid p f r n k : length p = n -> length f = k -> slice n (n + k) (p ++ f ++ r) = f.
Proof.
  intros Hp Hf. rewrite (slice_drop' p (f ++ r) n n (n + k) 0 k) by (assumption || lia).
  apply slice_0_app. exact Hf.
Qed.

Lemma slice_from_app p r n : length p = n -> slice_from n (p ++ r) = r.
Proof. intros H. unfold slice_from. apply skipn_app_exact. exact H. Qed.

(* drop a leading field of known length n from under a slice *)
Ltac sdrop n :=
  match goal with |- context [slice ?p ?q (?a ++ ?r)] =>
    let p' := eval compute in (p - n)%nat in
    let q' := eval compute in (q - n)%nat in
    rewrite (slice_drop' a r n p q p' q') by first [assumption | reflexivity | (apply fmt_d3_len; lia)]
  end.

Lemma startswith_app_long p q r : (length p <= length q)%nat -> startswith p (q ++ r) = startswith p q.
Proof.
  revert q. induction p as [|c p IH]; intros q H; [reflexivity|].
  destruct q as [|d q]; [cbn in H; lia|]. cbn [app startswith]. rewrite IH by (cbn in H; lia). reflexivity.
Qed.

Lemma bind_ok {A B} (a : A) (f : A -> pyres B) : bind (Ok a) f = f a.
Proof. reflexivity. Qed.

Lemma foldM_app {A S} (f : S -> A -> pyres S) l1 l2 s :
  foldM f (l1 ++ l2) s = bind (foldM f l1 s) (foldM f l2).
Proof.
  revert s. induction l1 as [|x l1 IH]; intros s; cbn [app foldM]; [reflexivity|].
  destruct (f s x) as [s'|e]; cbn [bind]; [apply IH | reflexivity].
Qed.

Lemma mapM_map {A B C} (f : B -> pyres C) (h : A -> B) l : mapM f (map h l) = mapM (fun x => f (h x)) l.
Proof. induction l as [|x l IH]; cbn [map mapM]; [reflexivity|]. rewrite IH. reflexivity. Qed.

Lemma mapM_ok_map {A B} (f : A -> pyres B) (g : A -> B) l :
  Forall (fun x => f x = Ok (g x)) l -> mapM f l = Ok (map g l).
Proof. induction 1 as [|x l Hx _ IH]; cbn [map mapM]; [reflexivity|]. rewrite Hx, IH. reflexivity. Qed.

Definition unwrap {A} (d : A) (r : pyres A) : A := match r with Ok a => a | Err _ => d end.

Lemma update_nth_app {A} (f : A -> A) pre x r : update_nth (length pre) f (pre ++ x :: r) = pre ++ f x :: r.
Proof. induction pre as [|y pre IH]; cbn [length app update_nth]; [reflexivity|]. rewrite IH. reflexivity. Qed.

Lemma py_int_sp2_digit o t : 0 <= o <= 9 -> t = [] \/ t = [nl] -> py_int (L "  " ++ zstr o ++ t) = Ok o.
Proof.
  intros _ Ht. apply py_int_padded; [repeat constructor|]. destruct Ht as [-> | ->]; repeat constructor.
Qed.

(* ================================================================================================ *)
(** * Part B: per-line codecs *)

(** ** a. counts line *)
Lemma v2_counts_roundtrip na nb t : 0 <= na <= 999 -> 0 <= nb <= 999 ->
  py_int (slice 0 3 (v2_counts_line na nb ++ t)) = Ok na /\ py_int (slice 3 6 (v2_counts_line na nb ++ t)) = Ok nb.
Proof.
  intros Ha Hb. unfold v2_counts_line. rewrite <- !app_assoc. split.
  - rewrite slice_0_app by (apply fmt_d3_len; lia). apply py_int_fmt_d.
  - sdrop 3%nat. rewrite slice_0_app by (apply fmt_d3_len; lia). apply py_int_fmt_d.
Qed.

(** ** b. atom line *)
Record wf_watom (a : watom) (fx fy fz : fval) : Prop := {
  wf_lx : length (wa_x a) = 10%nat;
  wf_ly : length (wa_y a) = 10%nat;
  wf_lz : length (wa_z a) = 10%nat;
  wf_fx : py_float (wa_x a) = Ok fx;
  wf_fy : py_float (wa_y a) = Ok fy;
  wf_fz : py_float (wa_z a) = Ok fz;
  wf_sym_len : (length (wa_sym a) <= 3)%nat;
  wf_sym_ns : Forall (fun c => is_space c = false) (wa_sym a);
  wf_sym_al : contains (wa_sym a) (L "AL") = false;        (* `element in 'AL'` (also excludes the empty symbol) *)
  wf_sym_d : str_eqb (wa_sym a) (L "D") = false;
  wf_chg : -4 <= wa_chg a <= 4;
  wf_num : 0 <= wa_num a <= 999 }.

Lemma fmt_s3_len s : (length s <= 3)%nat -> length (fmt_s 3 s) = 3%nat.
Proof. intros H. unfold fmt_s, ljust. rewrite app_length, repeat_length. lia. Qed.
Lemma strip_fmt_s w s : Forall (fun c => is_space c = false) s -> strip (fmt_s w s) = s.
Proof.
  intros H. unfold strip, fmt_s, ljust.
  apply (strip_by_core is_space [] s (repeat sp (w - length s))); [constructor | apply Forall_repeat; reflexivity | apply edges_ok_all; exact H].
Qed.

(* what the atom line alone yields: charges +-4 read as 0, no isotope, no radical (the property block repairs them) *)
Definition raw_atom (mapping : bool) (a : watom) (fx fy fz : fval) : patom :=
  mk_patom (wa_sym a) (if (wa_chg a =? 4) || (wa_chg a =? -4) then 0 else wa_chg a) None
           (if mapping then wa_num a else 0) fx fy fz None false None.

Lemma v2_atom_roundtrip mapping a fx fy fz : wf_watom a fx fy fz ->
  exists line, v2_atom_line mapping a = Ok line /\
    forall t, v2_parse_atom (line ++ t) =
      Ok (mk_patom (wa_sym a) (if (wa_chg a =? 4) || (wa_chg a =? -4) then 0 else wa_chg a) None
                   (if mapping then wa_num a else 0) fx fy fz None false None).
Proof.
  intros W. destruct W.
  destruct (w_charge_spec (wa_chg a) wf_chg0) as [c [Hc [Hlc [Hrc _]]]].
  unfold v2_atom_line. rewrite Hc. cbn [bind].
  set (m := if mapping then wa_num a else 0).
  assert (Hm : 0 <= m <= 999) by (subst m; destruct mapping; lia).
  eexists. split; [reflexivity|]. intros t.
  rewrite <- !app_assoc.
  pose proof (fmt_s3_len (wa_sym a) wf_sym_len0) as Hls.
  match goal with |- v2_parse_atom ?l = _ => set (line := l) end.
  assert (F1 : slice 36 39 line = c).
  { subst line. sdrop 10%nat. sdrop 10%nat. sdrop 10%nat. sdrop 1%nat. sdrop 3%nat. sdrop 2%nat. apply slice_0_app. exact Hlc. }
  assert (F2 : slice 31 34 line = fmt_s 3 (wa_sym a)).
  { subst line. sdrop 10%nat. sdrop 10%nat. sdrop 10%nat. sdrop 1%nat. apply slice_0_app. exact Hls. }
  assert (F3 : slice 34 36 line = L " 0").
  { subst line. sdrop 10%nat. sdrop 10%nat. sdrop 10%nat. sdrop 1%nat. sdrop 3%nat. apply slice_0_app. reflexivity. }
  assert (F4 : slice 60 63 line = fmt_d 3 m).
  { subst line. sdrop 10%nat. sdrop 10%nat. sdrop 10%nat. sdrop 1%nat. sdrop 3%nat. sdrop 2%nat. sdrop 3%nat. sdrop 21%nat.
    apply slice_0_app. apply fmt_d3_len. lia. }
  assert (F5 : slice 0 10 line = wa_x a) by (subst line; apply slice_0_app; assumption).
  assert (F6 : slice 10 20 line = wa_y a) by (subst line; sdrop 10%nat; apply slice_0_app; assumption).
  assert (F7 : slice 20 30 line = wa_z a) by (subst line; sdrop 10%nat; sdrop 10%nat; apply slice_0_app; assumption).
  unfold v2_parse_atom. rewrite F1, F2, F3, F4, F5, F6, F7, Hrc. cbn [bind].
  rewrite strip_fmt_s by assumption. rewrite wf_sym_al0, wf_sym_d0.
  change (negb (str_eqb (L " 0") (L " 0"))) with false. cbv beta iota. cbn [bind].
  pose proof (fmt_d3_len m ltac:(lia)) as Hl. pose proof (py_int_fmt_d 3 m) as Hp.
  destruct (fmt_d 3 m) as [|c0 r0]; [discriminate Hl|]. rewrite Hp. cbn [bind].
  rewrite wf_fx0, wf_fy0, wf_fz0. cbn [bind]. reflexivity.
Qed.
