(* C11: the V2000 writer / reader field round trip (Model.Mdl: write_mol_v2000, parse_mol_v2000).
   Part A  generic helpers (slices, monadic maps / folds)
   Part B  per-line codecs: counts line, atom line, bond line, property lines
   Part C  the block theorem  v2000_fields_roundtrip  and a concrete, non-trivial instance *)
From Coq Require Import ZArith List String Ascii Bool Lia.
From Model Require Import PyBase Mdl.
From Gen Require Import MdlTables.
From Proofs Require Import MdlProofs.
Import ListNotations.
Open Scope Z_scope.
Local Notation length := List.length.
Local Notation concat := List.concat.

(* ================================================================================================ *)
(** * Part A: helpers *)

Lemma slice_drop' a r n p q p' q' :
  length a = n -> p = (n + p')%nat -> q = (n + q')%nat -> slice p q (a ++ r) = slice p' q' r.
Proof. intros H -> ->. rewrite (slice_drop a r n) by lia. f_equal; lia. Qed.

Lemma slice_app_l a r p q : (q <= length a)%nat -> slice p q (a ++ r) = slice p q a.
Proof.
  intros H. unfold slice. rewrite skipn_app, firstn_app. rewrite skipn_length.
  replace (q - p - (length a - p))%nat with 0%nat by lia. cbn [firstn]. apply app_nil_r.
Qed.

Lemma slice_mid p f r n k : length p = n -> length f = k -> slice n (n + k) (p ++ f ++ r) = f.
Proof.
  intros Hp Hf. rewrite (slice_drop' p (f ++ r) n n (n + k) 0 k) by (assumption || lia).
  apply slice_0_app. exact Hf.
Qed.

Lemma slice_from_app p r n : length p = n -> slice_from n (p ++ r) = r.
Proof. intros H. unfold slice_from. apply skipn_app_exact. exact H. Qed.

(* drop a leading field of known length n from under a slice *)
Ltac sdrop n :=
  match goal with |- context [slice ?p ?q (?a ++ ?r)] =>
    let p' := eval compute in (p - n)%nat in
    let q' := eval compute in (q - n)%nat in
    rewrite (slice_drop' a r n p q p' q') by first [assumption | reflexivity | (apply fmt_d3_len; lia)]
  end.

Lemma startswith_app_long p q r : (length p <= length q)%nat -> startswith p (q ++ r) = startswith p q.
Proof.
  revert q. induction p as [|c p IH]; intros q H; [reflexivity|].
  destruct q as [|d q]; [cbn in H; lia|]. cbn [app startswith]. rewrite IH by (cbn in H; lia). reflexivity.
Qed.

Lemma bind_ok {A B} (a : A) (f : A -> pyres B) : bind (Ok a) f = f a.
Proof. reflexivity. Qed.

Lemma foldM_app {A S} (f : S -> A -> pyres S) l1 l2 s :
  foldM f (l1 ++ l2) s = bind (foldM f l1 s) (foldM f l2).
Proof.
  revert s. induction l1 as [|x l1 IH]; intros s; cbn [app foldM]; [reflexivity|].
  destruct (f s x) as [s'|e]; cbn [bind]; [apply IH | reflexivity].
Qed.

Lemma mapM_map {A B C} (f : B -> pyres C) (h : A -> B) l : mapM f (map h l) = mapM (fun x => f (h x)) l.
Proof. induction l as [|x l IH]; cbn [map mapM]; [reflexivity|]. rewrite IH. reflexivity. Qed.

Lemma mapM_ok_map {A B} (f : A -> pyres B) (g : A -> B) l :
  Forall (fun x => f x = Ok (g x)) l -> mapM f l = Ok (map g l).
Proof. induction 1 as [|x l Hx _ IH]; cbn [map mapM]; [reflexivity|]. rewrite Hx, IH. reflexivity. Qed.

Definition unwrap {A} (d : A) (r : pyres A) : A := match r with Ok a => a | Err _ => d end.

Lemma update_nth_app {A} (f : A -> A) pre x r : update_nth (length pre) f (pre ++ x :: r) = pre ++ f x :: r.
Proof. induction pre as [|y pre IH]; cbn [length app update_nth]; [reflexivity|]. rewrite IH. reflexivity. Qed.

Lemma py_int_sp2_digit o t : 0 <= o <= 9 -> t = [] \/ t = [nl] -> py_int (L "  " ++ zstr o ++ t) = Ok o.
Proof.
  intros _ Ht. apply py_int_padded; [repeat constructor|]. destruct Ht as [-> | ->]; repeat constructor.
Qed.

(* ================================================================================================ *)
(** * Part B: per-line codecs *)

(** ** a. counts line *)
Lemma v2_counts_roundtrip na nb t : 0 <= na <= 999 -> 0 <= nb <= 999 ->
  py_int (slice 0 3 (v2_counts_line na nb ++ t)) = Ok na /\ py_int (slice 3 6 (v2_counts_line na nb ++ t)) = Ok nb.
Proof.
  intros Ha Hb. unfold v2_counts_line. rewrite <- !app_assoc. split.
  - rewrite slice_0_app by (apply fmt_d3_len; lia). apply py_int_fmt_d.
  - sdrop 3%nat. rewrite slice_0_app by (apply fmt_d3_len; lia). apply py_int_fmt_d.
Qed.

(** ** b. atom line *)
Record wf_watom (a : watom) (fx fy fz : fval) : Prop := {
  wf_lx : length (wa_x a) = 10%nat;
  wf_ly : length (wa_y a) = 10%nat;
  wf_lz : length (wa_z a) = 10%nat;
  wf_fx : py_float (wa_x a) = Ok fx;
  wf_fy : py_float (wa_y a) = Ok fy;
  wf_fz : py_float (wa_z a) = Ok fz;
  wf_sym_len : (length (wa_sym a) <= 3)%nat;
  wf_sym_ns : Forall (fun c => is_space c = false) (wa_sym a);
  wf_sym_al : contains (wa_sym a) (L "AL") = false;        (* `element in 'AL'` (also excludes the empty symbol) *)
  wf_sym_d : str_eqb (wa_sym a) (L "D") = false;
  wf_chg : -4 <= wa_chg a <= 4;
  wf_num : 0 <= wa_num a <= 999 }.

Lemma fmt_s3_len s : (length s <= 3)%nat -> length (fmt_s 3 s) = 3%nat.
Proof. intros H. unfold fmt_s, ljust. rewrite app_length, repeat_length. lia. Qed.
Lemma strip_fmt_s w s : Forall (fun c => is_space c = false) s -> strip (fmt_s w s) = s.
Proof.
  intros H. unfold strip, fmt_s, ljust.
  apply (strip_by_core is_space [] s (repeat sp (w - length s))); [constructor | apply Forall_repeat; reflexivity | apply edges_ok_all; exact H].
Qed.

(* what the atom line alone yields: charges +-4 read as 0, no isotope, no radical (the property block repairs them) *)
Definition raw_atom (mapping : bool) (a : watom) (fx fy fz : fval) : patom :=
  mk_patom (wa_sym a) (if (wa_chg a =? 4) || (wa_chg a =? -4) then 0 else wa_chg a) None
           (if mapping then wa_num a else 0) fx fy fz None false None.

Lemma v2_atom_roundtrip mapping a fx fy fz : wf_watom a fx fy fz ->
  exists line, v2_atom_line mapping a = Ok line /\
    forall t, v2_parse_atom (line ++ t) =
      Ok (mk_patom (wa_sym a) (if (wa_chg a =? 4) || (wa_chg a =? -4) then 0 else wa_chg a) None
                   (if mapping then wa_num a else 0) fx fy fz None false None).
Proof.
  intros W. destruct W.
  destruct (w_charge_spec (wa_chg a) wf_chg0) as [c [Hc [Hlc [Hrc _]]]].
  unfold v2_atom_line. rewrite Hc. cbn [bind].
  set (m := if mapping then wa_num a else 0).
  assert (Hm : 0 <= m <= 999) by (subst m; destruct mapping; lia).
  eexists. split; [reflexivity|]. intros t.
  rewrite <- !app_assoc.
  pose proof (fmt_s3_len (wa_sym a) wf_sym_len0) as Hls.
  match goal with |- v2_parse_atom ?l = _ => set (line := l) end.
  assert (F1 : slice 36 39 line = c).
  { subst line. sdrop 10%nat. sdrop 10%nat. sdrop 10%nat. sdrop 1%nat. sdrop 3%nat. sdrop 2%nat. apply slice_0_app. exact Hlc. }
  assert (F2 : slice 31 34 line = fmt_s 3 (wa_sym a)).
  { subst line. sdrop 10%nat. sdrop 10%nat. sdrop 10%nat. sdrop 1%nat. apply slice_0_app. exact Hls. }
  assert (F3 : slice 34 36 line = L " 0").
  { subst line. sdrop 10%nat. sdrop 10%nat. sdrop 10%nat. sdrop 1%nat. sdrop 3%nat. apply slice_0_app. reflexivity. }
  assert (F4 : slice 60 63 line = fmt_d 3 m).
  { subst line. sdrop 10%nat. sdrop 10%nat. sdrop 10%nat. sdrop 1%nat. sdrop 3%nat. sdrop 2%nat. sdrop 3%nat. sdrop 21%nat.
    apply slice_0_app. apply fmt_d3_len. lia. }
  assert (F5 : slice 0 10 line = wa_x a) by (subst line; apply slice_0_app; assumption).
  assert (F6 : slice 10 20 line = wa_y a) by (subst line; sdrop 10%nat; apply slice_0_app; assumption).
  assert (F7 : slice 20 30 line = wa_z a) by (subst line; sdrop 10%nat; sdrop 10%nat; apply slice_0_app; assumption).
  unfold v2_parse_atom. rewrite F1, F2, F3, F4, F5, F6, F7, Hrc. cbn [bind].
  rewrite strip_fmt_s by assumption. rewrite wf_sym_al0, wf_sym_d0.
  change (negb (str_eqb (L " 0") (L " 0"))) with false. cbv beta iota. cbn [bind].
  pose proof (fmt_d3_len m ltac:(lia)) as Hl. pose proof (py_int_fmt_d 3 m) as Hp.
  destruct (fmt_d 3 m) as [|c0 r0]; [discriminate Hl|]. rewrite Hp. cbn [bind].
  rewrite wf_fx0, wf_fy0, wf_fz0. cbn [bind]. reflexivity.
Qed.

(** ** c. bond line *)
Definition stereo_of (i j : Z) (st : str) : list (Z * Z * Z) :=
  if str_eqb st (L "1") then [(i - 1, j - 1, 1)] else if str_eqb st (L "6") then [(i - 1, j - 1, -1)] else [].

Lemma v2_bond_roundtrip i j o st t : 1 <= i <= 999 -> 1 <= j <= 999 -> 0 <= o <= 8 ->
  In st [L "0"; L "1"; L "6"] ->
  v2_parse_bond (v2_bond_line i j o st ++ t) = Ok ((i - 1, j - 1, o), stereo_of i j st, []).
Proof.
  intros Hi Hj Ho Hst.
  assert (Hlst : length st = 1%nat) by (cbn in Hst; destruct Hst as [<-|[<-|[<-|[]]]]; reflexivity).
  assert (Hlz : length (zstr o) = 1%nat) by (rewrite zstr_digit by lia; reflexivity).
  assert (Hpo : py_int (L "  " ++ zstr o) = Ok o).
  { rewrite <- (app_nil_r (zstr o)). apply py_int_padded; repeat constructor. }
  unfold v2_bond_line. rewrite <- !app_assoc.
  match goal with |- v2_parse_bond ?l = _ => set (line := l) end.
  assert (F1 : slice 0 3 line = fmt_d 3 i) by (subst line; apply slice_0_app; apply fmt_d3_len; lia).
  assert (F2 : slice 3 6 line = fmt_d 3 j) by (subst line; sdrop 3%nat; apply slice_0_app; apply fmt_d3_len; lia).
  assert (F3 : slice 6 9 line = L "  " ++ zstr o).
  { subst line. sdrop 3%nat. sdrop 3%nat. rewrite (app_assoc (L "  ") (zstr o)). apply slice_0_app.
    rewrite app_length, Hlz. reflexivity. }
  assert (F4 : slice 9 12 line = L "  " ++ st).
  { subst line. sdrop 3%nat. sdrop 3%nat. sdrop 2%nat. sdrop 1%nat. rewrite (app_assoc (L "  ") st). apply slice_0_app.
    rewrite app_length, Hlst. reflexivity. }
  unfold v2_parse_bond. rewrite F1, F2, F3, F4, !py_int_fmt_d, Hpo. cbn [bind]. cbv zeta.
  replace (o =? 9) with false by (symmetry; apply Z.eqb_neq; lia).
  unfold stereo_of.
  cbn in Hst. destruct Hst as [<-|[<-|[<-|[]]]]; reflexivity.
Qed.

Corollary v2_bond_roundtrip_plain i j o t : 1 <= i <= 999 -> 1 <= j <= 999 -> 0 <= o <= 8 ->
  v2_parse_bond (v2_bond_line i j o (L "0") ++ t) = Ok ((i - 1, j - 1, o), [], []).
Proof. intros. apply v2_bond_roundtrip; cbn; auto. Qed.
Corollary v2_bond_roundtrip_up i j o t : 1 <= i <= 999 -> 1 <= j <= 999 -> 0 <= o <= 8 ->
  v2_parse_bond (v2_bond_line i j o (L "1") ++ t) = Ok ((i - 1, j - 1, o), [(i - 1, j - 1, 1)], []).
Proof. intros. apply v2_bond_roundtrip; cbn; auto. Qed.
Corollary v2_bond_roundtrip_down i j o t : 1 <= i <= 999 -> 1 <= j <= 999 -> 0 <= o <= 8 ->
  v2_parse_bond (v2_bond_line i j o (L "6") ++ t) = Ok ((i - 1, j - 1, o), [(i - 1, j - 1, -1)], []).
Proof. intros. apply v2_bond_roundtrip; cbn; auto. Qed.

(** ** d. property lines *)
Ltac closed_string_eqb :=
  repeat match goal with |- context [String.eqb ?a ?b] =>
    let r := eval vm_compute in (String.eqb a b) in change (String.eqb a b) with r end.

Lemma v2_prop_set st line attr setter n v :
  st_done st = false ->
  startswith (L "M  END") line = false ->
  startswith (L "M  ALS") line = false ->
  startswith (L "M  ISO") line || startswith (L "M  RAD") line || startswith (L "M  CHG") line = true ->
  sget_last ctf_data [nth 3 line sp] = Some attr ->
  (attr = "is_radical"%string /\ setter = (fun _ : Z => set_rad)) \/ (attr = "charge"%string /\ setter = set_chg) \/
  (attr = "isotope"%string /\ setter = set_iso) ->
  py_int (slice 6 9 line) = Ok 1 ->
  py_int (slice 10 13 line) = Ok n ->
  py_int (slice 14 17 line) = Ok v ->
  1 <= n <= Z.of_nat (length (st_atoms st)) ->
  v2_prop_line st line = Ok (mk_st (update_nth (Z.to_nat (n - 1)) (setter v) (st_atoms st)) (st_dat st) (st_log st) false).
Proof.
  intros Hd H1 H2 H3 H4 H5 H6 H7 H8 Hn.
  unfold v2_prop_line. rewrite Hd, H1, H2, H3, H4, H6. cbn [of_opt bind].
  change (nat_range (Z.to_nat 1)) with [0%nat]. cbn [foldM]. cbv zeta.
  change (10 + 0 * 8)%nat with 10%nat. change (13 + 0 * 8)%nat with 13%nat.
  change (14 + 0 * 8)%nat with 14%nat. change (17 + 0 * 8)%nat with 17%nat.
  destruct H5 as [[-> ->]|[[-> ->]|[-> ->]]]; closed_string_eqb; cbn [bind]; rewrite H7; cbn [bind];
  (replace ((n =? 0) || (Z.of_nat (length (st_atoms st)) <? n)) with false
    by (symmetry; apply orb_false_intro; [apply Z.eqb_neq | apply Z.ltb_ge]; lia));
  (replace (n <? 0) with false by (symmetry; apply Z.ltb_ge; lia));
  rewrite H8; cbn [bind]; reflexivity.
Qed.

Ltac prop_prefix_facts :=
  match goal with
  | |- startswith _ (_ ++ _) = _ => rewrite startswith_app_long by (cbn; lia); reflexivity
  | |- _ || _ || _ = true => rewrite !startswith_app_long by (cbn; lia); reflexivity
  | |- sget_last ctf_data [nth 3 (_ ++ _) sp] = _ => rewrite app_nth1 by (cbn; lia); reflexivity
  | |- py_int (slice 6 9 (_ ++ _)) = _ => rewrite slice_app_l by (cbn; lia); vm_compute; reflexivity
  end.

Lemma v2_prop_iso st n v t : st_done st = false -> 1 <= n <= Z.of_nat (length (st_atoms st)) -> n <= 999 -> 0 <= v <= 999 ->
  v2_prop_line st (L "M  ISO  1 " ++ fmt_d 3 n ++ [sp] ++ fmt_d 3 v ++ t) =
  Ok (mk_st (update_nth (Z.to_nat (n - 1)) (set_iso v) (st_atoms st)) (st_dat st) (st_log st) false).
Proof.
  intros Hd Hn Hn' Hv.
  apply (v2_prop_set st _ "isotope"%string set_iso n v); try assumption; try prop_prefix_facts.
  - right. right. split; reflexivity.
  - sdrop 10%nat. rewrite slice_0_app by (apply fmt_d3_len; lia). apply py_int_fmt_d.
  - sdrop 10%nat. sdrop 3%nat. sdrop 1%nat. rewrite slice_0_app by (apply fmt_d3_len; lia). apply py_int_fmt_d.
Qed.

Lemma v2_prop_chg st n v t : st_done st = false -> 1 <= n <= Z.of_nat (length (st_atoms st)) -> n <= 999 -> -99 <= v <= 999 ->
  v2_prop_line st (L "M  CHG  1 " ++ fmt_d 3 n ++ [sp] ++ fmt_d 3 v ++ t) =
  Ok (mk_st (update_nth (Z.to_nat (n - 1)) (set_chg v) (st_atoms st)) (st_dat st) (st_log st) false).
Proof.
  intros Hd Hn Hn' Hv.
  apply (v2_prop_set st _ "charge"%string set_chg n v); try assumption; try prop_prefix_facts.
  - right. left. split; reflexivity.
  - sdrop 10%nat. rewrite slice_0_app by (apply fmt_d3_len; lia). apply py_int_fmt_d.
  - sdrop 10%nat. sdrop 3%nat. sdrop 1%nat. rewrite slice_0_app by (apply fmt_d3_len; lia). apply py_int_fmt_d.
Qed.

Lemma v2_prop_rad st n t : st_done st = false -> 1 <= n <= Z.of_nat (length (st_atoms st)) -> n <= 999 ->
  v2_prop_line st (L "M  RAD  1 " ++ fmt_d 3 n ++ L "   2" ++ t) =
  Ok (mk_st (update_nth (Z.to_nat (n - 1)) set_rad (st_atoms st)) (st_dat st) (st_log st) false).
Proof.
  intros Hd Hn Hn'.
  apply (v2_prop_set st _ "is_radical"%string (fun _ : Z => set_rad) n 2); try assumption; try prop_prefix_facts.
  - left. split; reflexivity.
  - sdrop 10%nat. rewrite slice_0_app by (apply fmt_d3_len; lia). apply py_int_fmt_d.
  - sdrop 10%nat. sdrop 3%nat. rewrite slice_app_l by (cbn; lia). vm_compute. reflexivity.
Qed.

Lemma v2_prop_end st t : st_done st = false ->
  v2_prop_line st (L "M  END" ++ t) = Ok (mk_st (st_atoms st) (st_dat st) (st_log st) true).
Proof. intros Hd. unfold v2_prop_line. rewrite Hd, startswith_app. reflexivity. Qed.

Lemma v2_prop_done st x : st_done st = true -> v2_prop_line st x = Ok st.
Proof. intros Hd. unfold v2_prop_line. rewrite Hd. reflexivity. Qed.

(* ================================================================================================ *)
(** * Part C: the block round trip *)

Fixpoint map2 {A B C} (f : A -> B -> C) (l : list A) (m : list B) : list C :=
  match l, m with a :: l', b :: m' => f a b :: map2 f l' m' | _, _ => [] end.

Lemma mapM_app {A B} (f : A -> pyres B) l1 l2 r1 r2 :
  mapM f l1 = Ok r1 -> mapM f l2 = Ok r2 -> mapM f (l1 ++ l2) = Ok (r1 ++ r2).
Proof.
  revert r1. induction l1 as [|x l1 IH]; intros r1 H1 H2; cbn [app mapM] in *.
  - inversion H1. exact H2.
  - destruct (f x) as [y|e]; cbn [bind] in *; [|discriminate].
    destruct (mapM f l1) as [ys|e]; cbn [bind] in *; [|discriminate].
    inversion H1. rewrite (IH ys eq_refl H2). reflexivity.
Qed.

(* a list of records written line by line and parsed back line by line *)
Lemma mapM_write_parse {A B} (w : A -> pyres str) (p : str -> pyres B) (g : A -> B) l :
  Forall (fun x => exists line, w x = Ok line /\ p (add_nl line) = Ok (g x)) l ->
  exists ls, mapM w l = Ok ls /\ length ls = length l /\ mapM p (map add_nl ls) = Ok (map g l).
Proof.
  induction 1 as [|x l [line [Hw Hp]] _ [ls [H1 [H2 H3]]]].
  - exists []. repeat split.
  - exists (line :: ls). cbn [mapM map length]. rewrite Hw, H1, Hp, H3, H2. repeat split.
Qed.
Lemma mapM_write_parse2 {A F B} (w : A -> pyres str) (p : str -> pyres B) (g : A -> F -> B) l fs :
  Forall2 (fun x f => exists line, w x = Ok line /\ p (add_nl line) = Ok (g x f)) l fs ->
  exists ls, mapM w l = Ok ls /\ length ls = length l /\ mapM p (map add_nl ls) = Ok (map2 g l fs).
Proof.
  induction 1 as [|x f l fs [line [Hw Hp]] _ [ls [H1 [H2 H3]]]].
  - exists []. repeat split.
  - exists (line :: ls). cbn [mapM map map2 length]. rewrite Hw, H1, Hp, H3, H2. repeat split.
Qed.

Lemma lslice_mid {A} (pre f r : list A) n k : length pre = n -> length f = k -> lslice n (n + k) (pre ++ f ++ r) = f.
Proof.
  intros Hp Hf. rewrite (lslice_drop pre (f ++ r) n) by lia.
  replace (n - n)%nat with 0%nat by lia. replace (n + k - n)%nat with k by lia. apply lslice_0_app. exact Hf.
Qed.

(** ** positions of atom numbers *)
Lemma zget_last_notin {V} ks (vs : list V) n : ~ In n ks -> zget_last (combine ks vs) n = None.
Proof.
  revert vs. induction ks as [|k ks IH]; intros vs H; [reflexivity|]. destruct vs as [|v vs]; [reflexivity|].
  cbn [combine zget_last]. rewrite IH by (intros Hi; apply H; right; exact Hi).
  replace (n =? k) with false; [reflexivity|]. symmetry. apply Z.eqb_neq. intros ->. apply H. left. reflexivity.
Qed.
Lemma index_from_notin n ks s : ~ In n ks -> index_from n ks s = None.
Proof.
  revert s. induction ks as [|k ks IH]; intros s H; [reflexivity|]. cbn [index_from].
  replace (n =? k) with false; [apply IH; intros Hi; apply H; right; exact Hi|].
  symmetry. apply Z.eqb_neq. intros ->. apply H. left. reflexivity.
Qed.
Lemma zget_last_index ks : forall s n, NoDup ks -> zget_last (combine ks (zrange_from s (length ks))) n = index_from n ks s.
Proof.
  induction ks as [|k ks IH]; intros s n H; [reflexivity|]. inversion H as [|? ? Hk Hks]; subst.
  cbn [length zrange_from combine zget_last index_from]. rewrite IH by exact Hks.
  destruct (n =? k) eqn:E.
  - apply Z.eqb_eq in E. subst. rewrite index_from_notin by exact Hk. reflexivity.
  - destruct (index_from n ks (s + 1)); reflexivity.
Qed.
Lemma index_from_bounds n ks : forall s p, index_from n ks s = Some p -> s <= p < s + Z.of_nat (length ks).
Proof.
  induction ks as [|k ks IH]; intros s p H; [discriminate|]. cbn [index_from] in H. cbn [length]. rewrite Nat2Z.inj_succ.
  destruct (n =? k); [inversion H; lia|]. apply IH in H. lia.
Qed.
Lemma index_from_in n ks : forall s, In n ks -> exists p, index_from n ks s = Some p.
Proof.
  induction ks as [|k ks IH]; intros s H; [contradiction|]. cbn [index_from].
  destruct (n =? k) eqn:E; [eexists; reflexivity|]. apply IH. destruct H as [->|H]; [rewrite Z.eqb_refl in E; discriminate | exact H].
Qed.

(* 1-based position of the atom number n in the container (0 when absent) *)
Definition pos (atoms : list watom) (n : Z) : Z :=
  match index_from n (map wa_num atoms) 1 with Some p => p | None => 0 end.

Lemma idx_pos atoms n : NoDup (map wa_num atoms) -> In n (map wa_num atoms) ->
  idx (index_map atoms) n = Ok (pos atoms n) /\ 1 <= pos atoms n <= Z.of_nat (length atoms).
Proof.
  intros Hnd Hin. unfold idx, index_map, pos. rewrite <- (map_length wa_num atoms).
  rewrite zget_last_index by exact Hnd.
  destruct (index_from_in n (map wa_num atoms) 1 Hin) as [p Hp]. rewrite Hp. cbn [of_opt].
  apply index_from_bounds in Hp. split; [reflexivity | lia].
Qed.

Lemma bond_order_in bonds n m o : bond_order bonds n m = Ok o -> exists a b, In (a, b, o) bonds.
Proof.
  induction bonds as [|[[a b] o'] bonds IH]; intros H; [discriminate|]. cbn [bond_order] in H.
  destruct (((a =? n) && (b =? m)) || ((a =? m) && (b =? n))).
  - inversion H; subst. exists a, b. left. reflexivity.
  - destruct (IH H) as [a' [b' Hi]]. exists a', b'. right. exact Hi.
Qed.
Definition ord (bonds : list (Z * Z * Z)) (n m : Z) : Z := match bond_order bonds n m with Ok o => o | Err _ => 0 end.

(** ** bond block *)
Definition bond_ok (atoms : list watom) (b : Z * Z * Z) : Prop :=
  In (fst (fst b)) (map wa_num atoms) /\ In (snd (fst b)) (map wa_num atoms) /\ 0 <= snd b <= 8.
Definition wedge_ok (atoms : list watom) (bonds : list (Z * Z * Z)) (w : Z * Z * Z) : Prop :=
  In (fst (fst w)) (map wa_num atoms) /\ In (snd (fst w)) (map wa_num atoms) /\
  exists o, bond_order bonds (fst (fst w)) (snd (fst w)) = Ok o.

Definition exp_wedge_bond (atoms : list watom) (bonds : list (Z * Z * Z)) (w : Z * Z * Z) : Z * Z * Z :=
  (pos atoms (fst (fst w)) - 1, pos atoms (snd (fst w)) - 1, ord bonds (fst (fst w)) (snd (fst w))).
Definition exp_wedge_stereo (atoms : list watom) (w : Z * Z * Z) : Z * Z * Z :=
  (pos atoms (fst (fst w)) - 1, pos atoms (snd (fst w)) - 1, if snd w =? 1 then 1 else -1).
Definition exp_plain_bond (atoms : list watom) (b : Z * Z * Z) : Z * Z * Z :=
  (pos atoms (fst (fst b)) - 1, pos atoms (snd (fst b)) - 1, snd b).

Lemma wedge_line_roundtrip atoms bonds w t :
  NoDup (map wa_num atoms) -> (length atoms <= 999)%nat -> Forall (bond_ok atoms) bonds -> wedge_ok atoms bonds w ->
  exists line, v2_wedge_line (index_map atoms) bonds w = Ok line /\
    v2_parse_bond (line ++ t) = Ok (exp_wedge_bond atoms bonds w, [exp_wedge_stereo atoms w], []).
Proof.
  intros Hnd Hna Hb [Hn [Hm [o Ho]]]. destruct w as [[n m] s]. cbn [fst snd] in *.
  destruct (idx_pos atoms n Hnd Hn) as [Ei Hi]. destruct (idx_pos atoms m Hnd Hm) as [Ej Hj].
  assert (Hor : 0 <= o <= 8).
  { destruct (bond_order_in _ _ _ _ Ho) as [a [b Hin]]. rewrite Forall_forall in Hb. apply Hb in Hin. destruct Hin as [_ [_ H]]. exact H. }
  unfold v2_wedge_line. rewrite Ei, Ej, Ho. cbn [bind]. eexists. split; [reflexivity|].
  unfold exp_wedge_bond, exp_wedge_stereo, ord. cbn [fst snd]. rewrite Ho.
  destruct (s =? 1); [apply v2_bond_roundtrip_up | apply v2_bond_roundtrip_down]; lia.
Qed.

Lemma plain_line_roundtrip atoms b t :
  NoDup (map wa_num atoms) -> (length atoms <= 999)%nat -> bond_ok atoms b ->
  exists line, v2_plain_line (index_map atoms) b = Ok line /\
    v2_parse_bond (line ++ t) = Ok (exp_plain_bond atoms b, [], []).
Proof.
  intros Hnd Hna [Hn [Hm Ho]]. destruct b as [[n m] o]. cbn [fst snd] in *.
  destruct (idx_pos atoms n Hnd Hn) as [Ei Hi]. destruct (idx_pos atoms m Hnd Hm) as [Ej Hj].
  unfold v2_plain_line. rewrite Ei, Ej. cbn [bind]. eexists. split; [reflexivity|].
  unfold exp_plain_bond. cbn [fst snd]. apply v2_bond_roundtrip_plain; lia.
Qed.

Lemma concat_map_nil {A B} (l : list A) : concat (map (fun _ : A => @nil B) l) = [].
Proof. induction l; cbn; auto. Qed.
Lemma concat_map_single {A B} (h : A -> B) (l : list A) : concat (map (fun x => [h x]) l) = map h l.
Proof. induction l as [|x l IH]; cbn; [reflexivity|]. rewrite IH. reflexivity. Qed.

(** ** property block *)
Definition iso_ok (a : watom) : Prop := match wa_iso a with Some v => 0 <= v <= 999 | None => True end.
Definition wf_atom (a : watom) (f : fval * fval * fval) : Prop :=
  wf_watom a (fst (fst f)) (snd (fst f)) (snd f) /\ iso_ok a.

Definition raw_atom3 (mapping : bool) (a : watom) (f : fval * fval * fval) : patom :=
  raw_atom mapping a (fst (fst f)) (snd (fst f)) (snd f).
Definition expected_atom (mapping : bool) (a : watom) (f : fval * fval * fval) : patom :=
  mk_patom (wa_sym a) (wa_chg a) (if iso_truthy (wa_iso a) then wa_iso a else None) (if mapping then wa_num a else 0)
           (fst (fst f)) (snd (fst f)) (snd f) None (wa_rad a) None.

Section Steps.
  Variables (pre : list patom) (x : patom) (rest : list patom) (d : list (Z * sgroup)) (lg : list str) (n : Z).
  Hypothesis Hn : n = 1 + Z.of_nat (length pre).
  Hypothesis Hn' : n <= 999.

  Let Hlen : 1 <= n <= Z.of_nat (length (pre ++ x :: rest)).
  Proof. rewrite app_length. cbn [length]. lia. Qed.
  Let Hidx : Z.to_nat (n - 1) = length pre.
  Proof. lia. Qed.

  Lemma step_iso v t : 0 <= v <= 999 ->
    v2_prop_line (mk_st (pre ++ x :: rest) d lg false) (L "M  ISO  1 " ++ fmt_d 3 n ++ [sp] ++ fmt_d 3 v ++ t) =
    Ok (mk_st (pre ++ set_iso v x :: rest) d lg false).
  Proof.
    intros Hv. rewrite v2_prop_iso by (try reflexivity; try exact Hlen; lia).
    cbn [st_atoms st_dat st_log]. rewrite Hidx, update_nth_app. reflexivity.
  Qed.
  Lemma step_chg v t : -99 <= v <= 999 ->
    v2_prop_line (mk_st (pre ++ x :: rest) d lg false) (L "M  CHG  1 " ++ fmt_d 3 n ++ [sp] ++ fmt_d 3 v ++ t) =
    Ok (mk_st (pre ++ set_chg v x :: rest) d lg false).
  Proof.
    intros Hv. rewrite v2_prop_chg by (try reflexivity; try exact Hlen; lia).
    cbn [st_atoms st_dat st_log]. rewrite Hidx, update_nth_app. reflexivity.
  Qed.
  Lemma step_rad t :
    v2_prop_line (mk_st (pre ++ x :: rest) d lg false) (L "M  RAD  1 " ++ fmt_d 3 n ++ L "   2" ++ t) =
    Ok (mk_st (pre ++ set_rad x :: rest) d lg false).
  Proof.
    rewrite v2_prop_rad by (try reflexivity; try exact Hlen; lia).
    cbn [st_atoms st_dat st_log]. rewrite Hidx, update_nth_app. reflexivity.
  Qed.
End Steps.

(* what the property lines of one atom do to its parsed record *)
Definition apply_props (a : watom) (x : patom) : patom :=
  let x1 := if iso_truthy (wa_iso a) then set_iso (iso_val (wa_iso a)) x else x in
  let x2 := if wa_rad a then set_rad x1 else x1 in
  if (wa_chg a =? -4) || (wa_chg a =? 4) then set_chg (wa_chg a) x2 else x2.

Lemma apply_props_raw mapping a f : apply_props a (raw_atom3 mapping a f) = expected_atom mapping a f.
Proof.
  unfold apply_props, raw_atom3, raw_atom, expected_atom. rewrite (orb_comm (wa_chg a =? 4)).
  destruct (wa_iso a) as [v|]; cbn [iso_truthy iso_val]; [destruct (negb (v =? 0))|];
  destruct (wa_rad a); destruct ((wa_chg a =? -4) || (wa_chg a =? 4)); reflexivity.
Qed.

Lemma foldM_opt_line (b : bool) line more s s' :
  (b = true -> v2_prop_line s (add_nl line) = Ok s') -> (b = false -> s' = s) ->
  foldM v2_prop_line (map add_nl (if b then [line] else []) ++ more) s = foldM v2_prop_line more s'.
Proof.
  destruct b; intros H1 H2; cbn [map app foldM].
  - rewrite H1 by reflexivity. reflexivity.
  - rewrite H2 by reflexivity. reflexivity.
Qed.

Lemma props_atom a pre x rest d lg n more :
  n = 1 + Z.of_nat (length pre) -> n <= 999 -> iso_ok a -> -4 <= wa_chg a <= 4 ->
  foldM v2_prop_line (map add_nl (v2_prop_lines n a) ++ more) (mk_st (pre ++ x :: rest) d lg false) =
  foldM v2_prop_line more (mk_st (pre ++ apply_props a x :: rest) d lg false).
Proof.
  intros Hn Hn' Hi Hc. unfold v2_prop_lines, apply_props. cbv zeta. rewrite !map_app, <- !app_assoc.
  assert (Hv : iso_truthy (wa_iso a) = true -> 0 <= iso_val (wa_iso a) <= 999).
  { unfold iso_ok in Hi. destruct (wa_iso a); cbn; [intros _; exact Hi | discriminate]. }
  set (x1 := if iso_truthy (wa_iso a) then set_iso (iso_val (wa_iso a)) x else x).
  set (x2 := if wa_rad a then set_rad x1 else x1).
  rewrite (foldM_opt_line (iso_truthy (wa_iso a)) _ _ _ (mk_st (pre ++ x1 :: rest) d lg false)).
  2:{ intros E. subst x1. rewrite E. unfold add_nl. rewrite <- !app_assoc. apply step_iso; auto. }
  2:{ intros E. subst x1. rewrite E. reflexivity. }
  rewrite (foldM_opt_line (wa_rad a) _ _ _ (mk_st (pre ++ x2 :: rest) d lg false)).
  2:{ intros E. subst x2. rewrite E. unfold add_nl. rewrite <- !app_assoc. apply step_rad; auto. }
  2:{ intros E. subst x2. rewrite E. reflexivity. }
  apply foldM_opt_line.
  - intros E. rewrite E. unfold add_nl. rewrite <- !app_assoc. apply step_chg; auto; lia.
  - intros E. rewrite E. reflexivity.
Qed.

Definition prop_lines_of (start : Z) (atoms : list watom) : list str :=
  concat (map (fun na => v2_prop_lines (fst na) (snd na)) (combine (zrange_from start (length atoms)) atoms)).

Lemma props_block mapping d lg atoms fs : Forall2 wf_atom atoms fs -> forall pre more,
  Z.of_nat (length pre + length atoms) <= 999 ->
  foldM v2_prop_line (map add_nl (prop_lines_of (1 + Z.of_nat (length pre)) atoms) ++ more)
        (mk_st (pre ++ map2 (raw_atom3 mapping) atoms fs) d lg false) =
  foldM v2_prop_line more (mk_st (pre ++ map2 (expected_atom mapping) atoms fs) d lg false).
Proof.
  induction 1 as [|a f atoms fs [Hw Hi] _ IH]; intros pre more Hlen.
  - cbn [prop_lines_of map2 map app]. reflexivity.
  - unfold prop_lines_of. cbn [length zrange_from combine map concat fst snd map2].
    change (concat (map (fun na => v2_prop_lines (fst na) (snd na))
                        (combine (zrange_from (1 + Z.of_nat (length pre) + 1) (length atoms)) atoms)))
      with (prop_lines_of (1 + Z.of_nat (length pre) + 1) atoms).
    rewrite map_app, <- app_assoc.
    cbn [length] in Hlen.
    rewrite (props_atom a pre _ _ d lg (1 + Z.of_nat (length pre))) by (try reflexivity; try exact Hi; try (destruct Hw; assumption); lia).
    rewrite apply_props_raw.
    specialize (IH (pre ++ [expected_atom mapping a f]) more).
    rewrite app_length in IH. cbn [length] in IH. rewrite <- !app_assoc in IH. cbn [app] in IH.
    replace (1 + Z.of_nat (length pre + 1)) with (1 + Z.of_nat (length pre) + 1) in IH by lia.
    apply IH. lia.
Qed.

(** ** title *)
Lemma lstrip_by_app f s b : lstrip_by f (s ++ b) = match lstrip_by f s with [] => lstrip_by f b | r => r ++ b end.
Proof.
  induction s as [|c s IH]; cbn [app lstrip_by]; [reflexivity|]. destruct (f c); [exact IH | reflexivity].
Qed.
Lemma strip_add_nl s : strip (add_nl s) = strip s.
Proof.
  unfold strip, strip_by, add_nl. rewrite lstrip_by_app. destruct (lstrip_by is_space s) as [|c r].
  - reflexivity.
  - apply rstrip_by_app_all. repeat constructor.
Qed.
Lemma title_add_nl s : title_of (add_nl s) = title_of s.
Proof. unfold title_of. rewrite strip_add_nl. reflexivity. Qed.

(** ** the parser on a block made of header, atom lines, bond lines, property lines *)
Lemma parse_structured name l1 l2 counts AL BL PL na nb atoms bs st :
  py_int (slice 0 3 counts) = Ok (Z.of_nat na) -> py_int (slice 3 6 counts) = Ok (Z.of_nat nb) -> na <> 0%nat ->
  length AL = na -> length BL = nb ->
  mapM v2_parse_atom AL = Ok atoms -> mapM v2_parse_bond BL = Ok bs ->
  foldM v2_prop_line PL (mk_st atoms [] (concat (map snd bs)) false) = Ok st -> st_dat st = [] ->
  parse_mol_v2000 (name :: l1 :: l2 :: counts :: AL ++ BL ++ PL) =
  Ok (mk_parsed (title_of name) (st_atoms st) (map (fun x => fst (fst x)) bs) (concat (map (fun x => snd (fst x)) bs)) (st_log st)).
Proof.
  intros Hc1 Hc2 Hna HAL HBL Hat Hbs Hst Hdat.
  unfold parse_mol_v2000. cbn [nth_error of_opt bind]. rewrite Hc1. cbn [bind]. rewrite Hc2. cbn [bind].
  replace (Z.of_nat na =? 0) with false by (symmetry; apply Z.eqb_neq; lia).
  replace ((Z.of_nat na <? 0) || (Z.of_nat nb <? 0)) with false
    by (symmetry; apply orb_false_intro; apply Z.ltb_ge; lia).
  cbv zeta. rewrite !Nat2Z.id.
  change (name :: l1 :: l2 :: counts :: AL ++ BL ++ PL) with ([name; l1; l2; counts] ++ AL ++ BL ++ PL).
  rewrite (lslice_mid [name; l1; l2; counts] AL (BL ++ PL) 4 na) by (reflexivity || assumption).
  rewrite Hat. cbn [bind].
  replace ([name; l1; l2; counts] ++ AL ++ BL ++ PL) with (([name; l1; l2; counts] ++ AL) ++ BL ++ PL)
    by (rewrite <- app_assoc; reflexivity).
  rewrite (lslice_mid ([name; l1; l2; counts] ++ AL) BL PL (4 + na) nb) by (try assumption; rewrite app_length, HAL; reflexivity).
  rewrite Hbs. cbn [bind].
  rewrite app_assoc. rewrite (skipn_app_exact _ PL (4 + na + nb)) by (rewrite !app_length, HAL, HBL; reflexivity).
  rewrite Hst. cbn [bind]. rewrite Hdat. cbn [map foldM bind fst snd]. reflexivity.
Qed.

(** ** the writer on a non-empty molecule whose atom numbers fit the field *)
Lemma write_mol_v2000_unfold mapping g :
  wm_atoms g <> [] -> existsb (fun a => 999 <? wa_num a) (wm_atoms g) = false ->
  write_mol_v2000 mapping g =
    (do al <- mapM (v2_atom_line mapping) (wm_atoms g);
     do wl <- mapM (v2_wedge_line (index_map (wm_atoms g)) (wm_bonds g)) (wm_wedge g);
     do bl <- mapM (v2_plain_line (index_map (wm_atoms g))) (plain_bonds g);
     Ok ([wm_name g; []; []; v2_counts_line (Z.of_nat (length (wm_atoms g))) (Z.of_nat (length (wm_bonds g)))] ++
         al ++ wl ++ bl ++ prop_lines_of 1 (wm_atoms g) ++ [L "M  END"])).
Proof.
  intros Hne Hex. unfold write_mol_v2000, prop_lines_of. rewrite Hex.
  destruct (wm_atoms g); [contradiction | reflexivity].
Qed.

Lemma Forall2_in_l {A B} (R : A -> B -> Prop) l l' x : Forall2 R l l' -> In x l -> exists y, R x y.
Proof.
  induction 1 as [|a b l l' Hab _ IH]; intros Hin; [contradiction|].
  destruct Hin as [<-|Hin]; [exists b; exact Hab | apply IH; exact Hin].
Qed.

Lemma Forall2_imp {A B} (R1 R2 : A -> B -> Prop) l l' :
  (forall a b, R1 a b -> R2 a b) -> Forall2 R1 l l' -> Forall2 R2 l l'.
Proof. intros H. induction 1; constructor; auto. Qed.

Theorem v2000_fields_roundtrip mapping g fs :
  Forall2 wf_atom (wm_atoms g) fs ->
  wm_atoms g <> [] ->
  (length (wm_atoms g) <= 999)%nat ->
  (length (wm_bonds g) <= 999)%nat ->
  NoDup (map wa_num (wm_atoms g)) ->
  Forall (bond_ok (wm_atoms g)) (wm_bonds g) ->
  Forall (wedge_ok (wm_atoms g) (wm_bonds g)) (wm_wedge g) ->
  (length (wm_wedge g) + length (plain_bonds g) = length (wm_bonds g))%nat ->
  exists lines, write_mol_v2000 mapping g = Ok lines /\
    parse_mol_v2000 (map add_nl lines) =
    Ok (mk_parsed (title_of (wm_name g))
                  (map2 (expected_atom mapping) (wm_atoms g) fs)
                  (map (exp_wedge_bond (wm_atoms g) (wm_bonds g)) (wm_wedge g) ++ map (exp_plain_bond (wm_atoms g)) (plain_bonds g))
                  (map (exp_wedge_stereo (wm_atoms g)) (wm_wedge g))
                  []).
Proof.
  intros Hwf Hne Hna Hnb Hnd Hb Hw Hcnt.
  assert (Hex : existsb (fun a => 999 <? wa_num a) (wm_atoms g) = false).
  { apply not_true_iff_false. intros H. apply existsb_exists in H. destruct H as [a [Hin Hgt]].
    destruct (Forall2_in_l _ _ _ _ Hwf Hin) as [f [W _]]. destruct W. apply Z.ltb_lt in Hgt. lia. }
  (* atom lines *)
  destruct (mapM_write_parse2 (v2_atom_line mapping) v2_parse_atom (raw_atom3 mapping) (wm_atoms g) fs) as [al [Hal [Hlal Hpal]]].
  { eapply Forall2_imp; [|exact Hwf]. intros a f [W _].
    destruct (v2_atom_roundtrip mapping a _ _ _ W) as [line [Hl Hp]]. exists line. split; [exact Hl|].
    unfold add_nl. rewrite Hp. reflexivity. }
  (* bond lines: wedged bonds first, then the others *)
  set (gw := fun w => (exp_wedge_bond (wm_atoms g) (wm_bonds g) w, [exp_wedge_stereo (wm_atoms g) w], @nil str)).
  set (gp := fun b => (exp_plain_bond (wm_atoms g) b, @nil (Z * Z * Z), @nil str)).
  destruct (mapM_write_parse (v2_wedge_line (index_map (wm_atoms g)) (wm_bonds g)) v2_parse_bond gw (wm_wedge g)) as [wl [Hwl [Hlwl Hpwl]]].
  { eapply Forall_impl; [|exact Hw]. intros w Hw'. unfold add_nl. apply wedge_line_roundtrip; assumption. }
  destruct (mapM_write_parse (v2_plain_line (index_map (wm_atoms g))) v2_parse_bond gp (plain_bonds g)) as [bl [Hbl [Hlbl Hpbl]]].
  { apply Forall_forall. intros b Hin. unfold plain_bonds in Hin. apply filter_In in Hin. destruct Hin as [Hin _].
    rewrite Forall_forall in Hb. unfold add_nl. apply plain_line_roundtrip; auto. }
  rewrite write_mol_v2000_unfold by assumption. rewrite Hal, Hwl, Hbl. cbn [bind].
  eexists. split; [reflexivity|].
  set (bs := map gw (wm_wedge g) ++ map gp (plain_bonds g)).
  assert (Hlog : concat (map snd bs) = []).
  { subst bs gw gp. rewrite map_app, concat_app, !map_map. cbn [snd]. rewrite !concat_map_nil. reflexivity. }
  replace (map add_nl ([wm_name g; []; []; v2_counts_line (Z.of_nat (length (wm_atoms g))) (Z.of_nat (length (wm_bonds g)))] ++
                       al ++ wl ++ bl ++ prop_lines_of 1 (wm_atoms g) ++ [L "M  END"]))
    with (add_nl (wm_name g) :: add_nl [] :: add_nl [] ::
          add_nl (v2_counts_line (Z.of_nat (length (wm_atoms g))) (Z.of_nat (length (wm_bonds g)))) ::
          map add_nl al ++ map add_nl (wl ++ bl) ++ map add_nl (prop_lines_of 1 (wm_atoms g) ++ [L "M  END"]))
    by (rewrite !map_app, <- !app_assoc; reflexivity).
  destruct (v2_counts_roundtrip (Z.of_nat (length (wm_atoms g))) (Z.of_nat (length (wm_bonds g))) [nl]) as [Hc1 Hc2]; [lia | lia |].
  rewrite (parse_structured _ _ _ _ _ _ _ (length (wm_atoms g)) (length (wm_bonds g))
             (map2 (raw_atom3 mapping) (wm_atoms g) fs) bs
             (mk_st (map2 (expected_atom mapping) (wm_atoms g) fs) [] [] true)).
  - rewrite title_add_nl. cbn [st_atoms st_log]. f_equal. f_equal.
    + subst bs gw gp. rewrite map_app, !map_map. cbn [fst snd]. reflexivity.
    + subst bs gw gp. rewrite map_app, concat_app, !map_map. cbn [fst snd].
      rewrite concat_map_single, concat_map_nil, app_nil_r. reflexivity.
  - exact Hc1.
  - exact Hc2.
  - intros E. apply length_zero_iff_nil in E. contradiction.
  - rewrite map_length. exact Hlal.
  - rewrite map_length, app_length, Hlwl, Hlbl. exact Hcnt.
  - exact Hpal.
  - rewrite map_app. apply mapM_app; assumption.
  - rewrite Hlog, map_app.
    pose proof (props_block mapping [] [] (wm_atoms g) fs Hwf [] (map add_nl [L "M  END"])) as P.
    cbn [length app] in P. change (1 + Z.of_nat 0) with 1 in P. rewrite P by (cbn [Nat.add]; lia).
    cbn [map foldM]. unfold add_nl. rewrite v2_prop_end by reflexivity. reflexivity.
  - reflexivity.
Qed.

(** ** a concrete instance: the hypotheses are satisfiable by a molecule with a charge +4 atom, an isotope, a radical,
       a wedged bond, an order-8 bond and atom numbers that are not their positions *)
Definition ex_mol : wmol :=
  mk_wmol (L " test mol ")
    [ mk_watom 7 (L "C") (L "    0.0000") (L "    1.2500") (L "    0.0000") 4 None false;
      mk_watom 3 (L "Cl") (L "   -1.5000") (L "    0.0000") (L "    0.2500") (-1) (Some 37) false;
      mk_watom 12 (L "N") (L "    1.5000") (L "   -0.7500") (L "    0.0000") 0 None true ]
    [ (7, 3, -1) ]
    [ (3, 7, 1); (12, 3, 8) ].
Definition ex_fs : list (fval * fval * fval) :=
  [ (FDec 0 (-4), FDec 12500 (-4), FDec 0 (-4));
    (FDec (-15000) (-4), FDec 0 (-4), FDec 2500 (-4));
    (FDec 15000 (-4), FDec (-7500) (-4), FDec 0 (-4)) ].
Definition ex_parsed : parsed :=
  mk_parsed (Some (L "test mol"))
    [ mk_patom (L "C") 4 None 7 (FDec 0 (-4)) (FDec 12500 (-4)) (FDec 0 (-4)) None false None;
      mk_patom (L "Cl") (-1) (Some 37) 3 (FDec (-15000) (-4)) (FDec 0 (-4)) (FDec 2500 (-4)) None false None;
      mk_patom (L "N") 0 None 12 (FDec 15000 (-4)) (FDec (-7500) (-4)) (FDec 0 (-4)) None true None ]
    ([(0, 1, 1); (2, 1, 8)]) ([(0, 1, -1)]) (@nil str).

Lemma ex_hypotheses :
  Forall2 wf_atom (wm_atoms ex_mol) ex_fs /\ wm_atoms ex_mol <> [] /\
  (length (wm_atoms ex_mol) <= 999)%nat /\ (length (wm_bonds ex_mol) <= 999)%nat /\
  NoDup (map wa_num (wm_atoms ex_mol)) /\
  Forall (bond_ok (wm_atoms ex_mol)) (wm_bonds ex_mol) /\
  Forall (wedge_ok (wm_atoms ex_mol) (wm_bonds ex_mol)) (wm_wedge ex_mol) /\
  (length (wm_wedge ex_mol) + length (plain_bonds ex_mol) = length (wm_bonds ex_mol))%nat.
Proof.
  split; [|split; [|split; [|split; [|split; [|split; [|split]]]]]].
  - unfold ex_mol, ex_fs. cbn [wm_atoms].
    repeat (apply Forall2_cons || apply Forall2_nil);
      (split; [constructor; cbn [fst snd wa_x wa_y wa_z wa_sym wa_chg wa_num];
               try (vm_compute; reflexivity); try (repeat constructor); try lia; try (cbn; lia)
              | unfold iso_ok; cbn; try exact I; lia]).
  - discriminate.
  - cbn. lia.
  - cbn. lia.
  - cbn. repeat (apply NoDup_cons || apply NoDup_nil); cbn; lia.
  - unfold bond_ok. repeat (apply Forall_cons || apply Forall_nil); cbn; lia.
  - unfold wedge_ok. repeat (apply Forall_cons || apply Forall_nil). cbn [fst snd].
    split; [cbn; lia|]. split; [cbn; lia|]. eexists. vm_compute. reflexivity.
  - vm_compute. reflexivity.
Qed.

Example ex_roundtrip :
  exists lines, write_mol_v2000 true ex_mol = Ok lines /\ parse_mol_v2000 (map add_nl lines) = Ok ex_parsed.
Proof.
  destruct ex_hypotheses as [H1 [H2 [H3 [H4 [H5 [H6 [H7 H8]]]]]]].
  destruct (v2000_fields_roundtrip true ex_mol ex_fs H1 H2 H3 H4 H5 H6 H7 H8) as [lines [Hw Hp]].
  exists lines. split; [exact Hw|]. rewrite Hp. vm_compute. reflexivity.
Qed.

(* the same by direct evaluation of the two models *)
Example ex_roundtrip_computed :
  match write_mol_v2000 true ex_mol with Ok l => parse_mol_v2000 (map add_nl l) | Err e => Err e end = Ok ex_parsed.
Proof. vm_compute. reflexivity. Qed.

Print Assumptions v2000_fields_roundtrip.
Print Assumptions ex_roundtrip.
