(* C09 extension 3 -- the .pyx loop with explicit `matched` / `closures` arrays computes exactly mask_search. *)
From Coq Require Import ZArith List Bool Lia.
From Model Require Import PyBase PeriodicTable IsoBits IsoBitsPyx.
From Proofs Require Import IsoBitsProofs IsoBitsSearchProofs.
Import ListNotations.
Open Scope Z_scope.

(* ------------------------------------------------------------------------------------------------------------ *)
(* 1. C arrays                                                                                                    *)

Lemma aset_nat_length {A} (l : list A) i v : List.length (aset_nat l i v) = List.length l.
Proof. revert i. induction l as [|x l IH]; intros [|i]; cbn [aset_nat List.length]; try reflexivity. rewrite IH. reflexivity. Qed.
Lemma aset_length {A} (l : list A) i v : List.length (aset l i v) = List.length l.
Proof. unfold aset. destruct (i <? 0); [reflexivity | apply aset_nat_length]. Qed.

Lemma nth_aset_nat {A} (l : list A) i v j d :
  nth j (aset_nat l i v) d = if Nat.eqb j i && Nat.ltb i (List.length l) then v else nth j l d.
Proof.
  revert i j. induction l as [|x l IH]; intros i j.
  - cbn [aset_nat List.length]. rewrite andb_false_r. reflexivity.
  - destruct i as [|i]; cbn [aset_nat List.length].
    + destruct j; cbn [nth Nat.eqb andb]; reflexivity.
    + destruct j as [|j]; cbn [nth Nat.eqb andb]; [reflexivity|]. rewrite IH.
      replace (Nat.ltb (S i) (S (List.length l))) with (Nat.ltb i (List.length l)) by reflexivity. reflexivity.
Qed.

Definition inb (i : Z) (n : nat) : bool := (0 <=? i) && (i <? Z.of_nat n).

Lemma aget_aset {A} (l : list A) i v j d :
  aget (aset l i v) j d = if (j =? i) && inb i (List.length l) then v else aget l j d.
Proof.
  unfold aget, aset, znth, inb. destruct (i <? 0) eqn:Ei.
  - apply Z.ltb_lt in Ei. assert (E : (0 <=? i) = false) by (apply Z.leb_gt; lia). rewrite E, andb_false_l, andb_false_r. reflexivity.
  - apply Z.ltb_ge in Ei. assert (E : (0 <=? i) = true) by (apply Z.leb_le; lia). rewrite E. cbn [andb].
    destruct (j <? 0) eqn:Ej.
    + apply Z.ltb_lt in Ej. assert (E2 : (j =? i) = false) by (apply Z.eqb_neq; lia). rewrite E2. reflexivity.
    + apply Z.ltb_ge in Ej. rewrite nth_aset_nat.
      assert (E1 : Nat.eqb (Z.to_nat j) (Z.to_nat i) = (j =? i)).
      { destruct (j =? i) eqn:E2; [apply Z.eqb_eq in E2; subst; apply Nat.eqb_refl | apply Z.eqb_neq in E2; apply Nat.eqb_neq; lia]. }
      assert (E3 : Nat.ltb (Z.to_nat i) (List.length l) = (i <? Z.of_nat (List.length l))).
      { destruct (i <? Z.of_nat (List.length l)) eqn:E2; [apply Z.ltb_lt in E2; apply Nat.ltb_lt; lia | apply Z.ltb_ge in E2; apply Nat.ltb_ge; lia]. }
      rewrite E1, E3. reflexivity.
Qed.

Lemma aget_out {A} (l : list A) j d : inb j (List.length l) = false -> aget l j d = d.
Proof.
  unfold inb, aget. intros H. destruct (Z_lt_le_dec j 0) as [L|L]; [apply znth_neg; exact L|].
  apply znth_over. unfold zlen. apply andb_false_iff in H. destruct H as [H|H]; [apply Z.leb_gt in H; lia | apply Z.ltb_ge in H; exact H].
Qed.

Lemma array_ext {A} (l l' : list A) d : List.length l = List.length l' ->
  (forall j, 0 <= j < zlen l -> aget l j d = aget l' j d) -> l = l'.
Proof.
  intros Hl H. apply (nth_ext l l' d d Hl). intros n Hn. specialize (H (Z.of_nat n) ltac:(unfold zlen; lia)).
  unfold aget in H. rewrite !znth_nth in H by lia. rewrite Nat2Z.id in H. exact H.
Qed.

Lemma aget_repeat {A} (v : A) n j : aget (repeat v n) j v = v.
Proof.
  unfold aget, znth. destruct (j <? 0); [reflexivity|]. destruct (Nat.lt_ge_cases (Z.to_nat j) n) as [H|H].
  - apply nth_repeat.
  - apply nth_overflow. rewrite repeat_length. exact H.
Qed.

(* ------------------------------------------------------------------------------------------------------------ *)
(* 2. `matched` is the characteristic function of the path                                                        *)

Definition char_of (matched : list bool) (path : list Z) (N : nat) : Prop :=
  List.length matched = N /\ forall x, aget matched x false = inb x N && zmem x path.

Lemma char_init N : char_of (repeat false N) [] N.
Proof. split; [apply repeat_length|]. intros x. rewrite aget_repeat. cbn [zmem existsb]. rewrite andb_false_r. reflexivity. Qed.

Lemma unmark_get suf : forall mt y,
  aget (fold_left (fun mt x => aset mt x false) suf mt) y false = aget mt y false && negb (zmem y suf).
Proof.
  induction suf as [|x suf IH]; intros mt y; cbn [fold_left zmem existsb]; [rewrite andb_true_r; reflexivity|].
  rewrite IH, aget_aset. unfold zmem. cbn [existsb]. fold (zmem y suf).
  destruct (y =? x) eqn:E; cbn [andb orb negb].
  - destruct (inb x (List.length mt)) eqn:I; [rewrite andb_false_r; reflexivity|].
    apply Z.eqb_eq in E. subst y. rewrite (aget_out mt x false I). reflexivity.
  - reflexivity.
Qed.

Lemma unmark_length suf : forall mt, List.length (fold_left (fun mt x => aset mt x false) suf mt) = List.length mt.
Proof. induction suf as [|x suf IH]; intros mt; cbn [fold_left]; [reflexivity|]. rewrite IH, aset_length. reflexivity. Qed.

Lemma zmem_app x a b : zmem x (a ++ b) = zmem x a || zmem x b.
Proof. unfold zmem. apply existsb_app. Qed.

Lemma NoDup_app_disjoint {A} (a b : list A) x : NoDup (a ++ b) -> In x a -> In x b -> False.
Proof.
  induction a as [|y a IH]; intros H Ha Hb; [destruct Ha|]. cbn [app] in H. inversion H as [|? ? Hy Hr]; subst.
  destruct Ha as [->|Ha]; [apply Hy; apply in_or_app; right; exact Hb | exact (IH Hr Ha Hb)].
Qed.

Lemma char_step matched path N depth n :
  char_of matched path N -> NoDup path -> inb n N = true ->
  char_of (aset (unmark matched path depth) n true) (firstn depth path ++ [n]) N.
Proof.
  intros [Hl Hc] Hnd Hn. unfold unmark. split; [rewrite aset_length, unmark_length; exact Hl|].
  intros x. rewrite aget_aset, unmark_length, Hl, Hn, andb_true_r, unmark_get, Hc.
  destruct (x =? n) eqn:E.
  - apply Z.eqb_eq in E. subst x. rewrite Hn. symmetry. apply zmem_In. apply in_or_app. right. left. reflexivity.
  - apply Z.eqb_neq in E. destruct (inb x N); cbn [andb]; [|reflexivity].
    apply eq_true_iff_eq. rewrite andb_true_iff, negb_true_iff. split.
    + intros [H1 H2]. apply zmem_In in H1. rewrite <- (firstn_skipn depth path) in H1. apply in_app_or in H1.
      destruct H1 as [H1|H1]; [apply zmem_In; apply in_or_app; left; exact H1|].
      apply zmem_In in H1. congruence.
    + intros H. apply zmem_In in H. apply in_app_or in H. destruct H as [H|[H|[]]]; [|congruence].
      split; [apply zmem_In; eapply in_firstn; exact H|].
      apply not_true_is_false. intros Hs. apply zmem_In in Hs. rewrite <- (firstn_skipn depth path) in Hnd.
      exact (NoDup_app_disjoint _ _ x Hnd H Hs).
Qed.

(* ------------------------------------------------------------------------------------------------------------ *)
(* 3. the `closures` scratch array: filled, read and nulled; between two candidates it is all zero                 *)

Section Closures.
  Variables (N : nat) (matched : list bool) (path : list Z) (base : Z).
  Hypothesis Hchar : char_of matched path N.

  Definition pcond (j : bond_t) : bool := negb (bt_index j =? base) && zmem (bt_index j) path.

  Lemma matched_read j : inb (bt_index j) N = true -> aget matched (bt_index j) false = zmem (bt_index j) path.
  Proof. intros H. destruct Hchar as [_ Hc]. rewrite Hc, H. reflexivity. Qed.

  Lemma fill_spec mb : Forall (fun j => inb (bt_index j) N = true) mb -> forall c cl, List.length cl = N ->
    let r := fold_left (fun st j => if negb (bt_index j =? base) && aget matched (bt_index j) false
                                    then (fst st + 1, aset (snd st) (bt_index j) (bt_bond j)) else st) mb (c, cl) in
    fst r = c + zlen (filter pcond mb) /\ List.length (snd r) = N /\
    forall x, aget (snd r) x 0 =
              fold_left (fun acc j => if negb (bt_index j =? base) && zmem (bt_index j) path && (bt_index j =? x)
                                      then bt_bond j else acc) mb (aget cl x 0).
  Proof.
    induction mb as [|j mb IH]; intros Hr c cl Hl; cbn [fold_left filter].
    - cbn zeta. cbn [fst snd]. unfold zlen. cbn [List.length]. split; [lia|]. split; [exact Hl | reflexivity].
    - pose proof (Forall_inv Hr) as Hj. pose proof (Forall_inv_tail Hr) as Hr'. cbn beta in Hj. rewrite (matched_read j Hj). fold (pcond j).
      destruct (pcond j) eqn:Pc.
      + destruct (IH Hr' (c + 1) (aset cl (bt_index j) (bt_bond j)) ltac:(rewrite aset_length; exact Hl)) as [I1 [I2 I3]].
        cbn zeta in *. cbn [fst snd] in *. split; [rewrite I1; unfold zlen; cbn [List.length]; lia|]. split; [exact I2|].
        intros x. rewrite I3. f_equal. rewrite aget_aset, Hl, Hj, andb_true_r.
        cbn [andb]. rewrite (Z.eqb_sym x). reflexivity.
      + destruct (IH Hr' c cl Hl) as [I1 [I2 I3]]. cbn zeta in *. split; [exact I1|]. split; [exact I2|].
        intros x. rewrite I3. reflexivity.
  Qed.

  Lemma null_get mb : forall cl x,
    aget (fold_left (fun cl j => aset cl (bt_index j) 0) mb cl) x 0 =
    if existsb (fun j => bt_index j =? x) mb then 0 else aget cl x 0.
  Proof.
    induction mb as [|j mb IH]; intros cl x; cbn [fold_left existsb]; [reflexivity|].
    rewrite IH, aget_aset. destruct (existsb (fun j0 => bt_index j0 =? x) mb); [rewrite orb_true_r; reflexivity|].
    rewrite orb_false_r, (Z.eqb_sym x). destruct (bt_index j =? x) eqn:E; cbn [andb]; [|reflexivity].
    destruct (inb (bt_index j) (List.length cl)) eqn:I; [reflexivity|].
    apply Z.eqb_eq in E. subst x. apply (aget_out cl (bt_index j) 0 I).
  Qed.

  Lemma null_length mb : forall cl, List.length (fold_left (fun cl j => aset cl (bt_index j) 0) mb cl) = List.length cl.
  Proof. induction mb as [|j mb IH]; intros cl; cbn [fold_left]; [reflexivity|]. rewrite IH, aset_length. reflexivity. Qed.

  Lemma fold_no_hit mb x a :
    existsb (fun j => bt_index j =? x) mb = false ->
    fold_left (fun acc j => if negb (bt_index j =? base) && zmem (bt_index j) path && (bt_index j =? x)
                            then bt_bond j else acc) mb a = a.
  Proof.
    revert a. induction mb as [|j mb IH]; intros a H; cbn [fold_left]; [reflexivity|].
    cbn [existsb] in H. apply orb_false_iff in H. destruct H as [H1 H2]. rewrite H1, andb_false_r. apply IH. exact H2.
  Qed.
End Closures.

Lemma slice_incl {A} (f t : Z) (l : list A) x : In x (slice f t l) -> In x l.
Proof. unfold slice. intros H. apply in_firstn in H. rewrite <- (firstn_skipn (Z.to_nat f) l). apply in_or_app. right. exact H. Qed.

Lemma m_bonds_of_incl mo m j : In j (m_bonds_of mo m) -> In j (mo_bonds mo).
Proof. unfold m_bonds_of. apply slice_incl. Qed.

(* ------------------------------------------------------------------------------------------------------------ *)
(* 4. one candidate, the neighbour loop, the whole loop                                                           *)

Section Refine.
  Variables (qu : query_t) (mo : molecule_t) (scope : list bool).
  Hypothesis Hmo : mo_ok mo.
  Let N := natoms mo.
  Let zeros := repeat 0 N.

  Lemma bonds_in_range j : In j (mo_bonds mo) -> inb (bt_index j) N = true.
  Proof.
    intros H. unfold mo_ok in Hmo. rewrite Forall_forall in Hmo. specialize (Hmo j H). unfold inb, N, natoms, zlen in *.
    apply andb_true_iff. split; [apply Z.leb_le | apply Z.ltb_lt]; lia.
  Qed.

  Lemma pyx_cand_refines front path matched base i_bond :
    char_of matched path N -> In i_bond (mo_bonds mo) ->
    pyx_cand qu mo scope front path matched base i_bond zeros = (mask_cand qu mo scope front path base i_bond, zeros).
  Proof.
    intros Hc Hin. unfold pyx_cand, mask_cand. cbn zeta.
    set (m := bt_index i_bond). set (mb := m_bonds_of mo m). set (qa := q_atom qu (Z.of_nat front)).
    assert (Hm : inb m N = true) by (apply bonds_in_range; exact Hin).
    assert (Hmb : Forall (fun j => inb (bt_index j) N = true) mb).
    { apply Forall_forall. intros j Hj. apply bonds_in_range. eapply m_bonds_of_incl. exact Hj. }
    pose proof (matched_read N matched path Hc i_bond Hm) as Rm. fold m in Rm. rewrite Rm.
    destruct (znth scope m false && negb (zmem m path) && mask_match_next (qa_mask qa) (bt_bond i_bond) (ma_bits (m_atom mo m))) eqn:T;
      cbn [andb]; [|reflexivity].
    assert (Ecnd : forall l, Forall (fun j => inb (bt_index j) N = true) l ->
              existsb (fun j => negb (bt_index j =? base) && aget matched (bt_index j) false) l =
              existsb (fun j => negb (bt_index j =? base) && zmem (bt_index j) path) l).
    { induction l as [|j l IH]; intros Hl; [reflexivity|]. pose proof (Forall_inv Hl) as Hj. pose proof (Forall_inv_tail Hl) as Hl'. cbn beta in Hj. cbn [existsb].
      rewrite (matched_read N matched path Hc j Hj), (IH Hl'). reflexivity. }
    destruct (negb (qa_closure qa =? 0)) eqn:Q.
    - unfold fill_closures.
      destruct (fill_spec N matched path base Hc mb Hmb 0 zeros ltac:(unfold zeros; apply repeat_length)) as [F1 [F2 F3]].
      cbn zeta in F1, F2, F3.
      destruct (fold_left _ mb (0, zeros)) as [counter cl1] eqn:Ef. cbn [fst snd] in F1, F2, F3.
      assert (Z0 : forall y, aget zeros y 0 = 0) by (intros y; unfold zeros; apply aget_repeat).
      f_equal.
      + rewrite F1. cbn [Z.add]. unfold pcond. f_equal.
        apply forallb_ext_in. intros jq _. f_equal. rewrite F3, Z0. reflexivity.
      + unfold null_closures. apply (array_ext _ _ 0).
        * rewrite null_length, F2. unfold zeros. rewrite repeat_length. reflexivity.
        * intros x _. rewrite null_get, Z0.
          destruct (existsb (fun j => bt_index j =? x) mb) eqn:Ex; [reflexivity|].
          rewrite F3, Z0. apply fold_no_hit. exact Ex.
    - rewrite (Ecnd mb Hmb). reflexivity.
  Qed.

  Lemma pyx_scan_refines front path matched base nb :
    char_of matched path N -> (forall j, In j nb -> In j (mo_bonds mo)) ->
    pyx_scan qu mo scope front path matched base nb zeros =
    (map bt_index (filter (mask_cand qu mo scope front path base) nb), zeros).
  Proof.
    intros Hc. induction nb as [|i_bond nb IH]; intros Hin; cbn [pyx_scan filter map]; [reflexivity|].
    rewrite (pyx_cand_refines front path matched base i_bond Hc (Hin i_bond (or_introl eq_refl))).
    rewrite IH by (intros j Hj; apply Hin; right; exact Hj).
    destruct (mask_cand qu mo scope front path base i_bond); reflexivity.
  Qed.
End Refine.

Section RefineLoop.
  Variables (qu : query_t) (mo : molecule_t) (scope : list bool).
  Hypothesis Hmo : mo_ok mo.
  Let N := natoms mo.
  Let zeros := repeat 0 N.
  Let last := last_depth qu.
  Let back := fun d : nat => qa_back (q_atom qu (Z.of_nat d)).

  Lemma pyx_dfs_refines fuel : forall stack path matched acc tr,
    NoDup path -> stack_ok last path stack -> Forall (fun e => inb (fst e) N = true) stack ->
    Forall (fun x => inb x N = true) path -> char_of matched path N ->
    match pyx_dfs qu mo scope fuel stack path matched zeros acc tr with
    | Some (out, _, cl) => dfs bond_t bt_index (m_bonds_of mo) last back (mask_cand qu mo scope) fuel stack path acc = Some out /\ cl = zeros
    | None => dfs bond_t bt_index (m_bonds_of mo) last back (mask_cand qu mo scope) fuel stack path acc = None
    end.
  Proof.
    induction fuel as [|fuel IH]; intros stack path matched acc tr Hnd Hok Hsr Hpr Hc; cbn [pyx_dfs dfs]; [reflexivity|].
    destruct stack as [|[n d] st]; [split; reflexivity|].
    pose proof Hok as Hok'. cbn [stack_ok] in Hok'. destruct Hok' as [H1 [H2 [H3 [H4 H5]]]].
    pose proof (Forall_inv Hsr) as Hn. cbn [fst] in Hn. pose proof (Forall_inv_tail Hsr) as Hst.
    fold last. destruct (Nat.eqb d last) eqn:Ed.
    - apply IH; assumption.
    - apply Nat.eqb_neq in Ed.
      set (path' := firstn d path ++ [n]).
      set (matched1 := aset (unmark matched path d) n true).
      assert (Hc' : char_of matched1 path' N) by (apply char_step; assumption).
      fold back. set (base := if negb (back (S d) =? Z.of_nat d) then znth path' (back (S d)) 0 else n).
      change (qa_back (q_atom qu (Z.of_nat (S d)))) with (back (S d)). fold base.
      pose proof (pyx_scan_refines qu mo scope Hmo (S d) path' matched1 base (m_bonds_of mo base) Hc'
                 (fun j Hj => m_bonds_of_incl mo base j Hj)) as Hs.
      change (repeat 0 (natoms mo)) with zeros in Hs. rewrite Hs.
      set (cands := filter (mask_cand qu mo scope (S d) path' base) (m_bonds_of mo base)).
      rewrite map_map.
      assert (Hlen : List.length path' = S d).
      { unfold path'. rewrite app_length, firstn_length, Nat.min_l by exact H1. cbn. lia. }
      assert (Hnd' : NoDup path') by (unfold path'; apply NoDup_app_single; [apply NoDup_firstn; exact Hnd | exact H3]).
      apply IH.
      + exact Hnd'.
      + rewrite <- (map_map bt_index (fun c => (c, S d))). apply stack_ok_push; try assumption; try lia.
        * intros c Hcin. apply in_map_iff in Hcin. destruct Hcin as [e [<- He]]. apply filter_In in He. destruct He as [_ He].
          unfold mask_cand in He. cbn zeta in He. repeat (apply andb_true_iff in He; destruct He as [He ?]).
          match goal with H : negb (zmem _ path') = true |- _ => apply negb_true_iff in H; intros Hin; apply zmem_In in Hin; congruence end.
        * eapply Forall_impl; [|exact H4]. intros x Hx. cbn beta in Hx. lia.
        * apply stack_ok_truncate; assumption.
      + apply Forall_app. split; [|exact Hst]. apply Forall_forall. intros x Hx. apply in_rev in Hx. apply in_map_iff in Hx.
        destruct Hx as [e [<- He]]. cbn [fst]. apply filter_In in He. destruct He as [He _].
        apply (bonds_in_range mo Hmo). eapply m_bonds_of_incl. exact He.
      + unfold path'. apply Forall_app. split; [|constructor; [exact Hn | constructor]].
        apply Forall_forall. intros x Hx. rewrite Forall_forall in Hpr. apply Hpr. eapply in_firstn. exact Hx.
      + exact Hc'.
  Qed.

  (* THE .pyx LOOP WITH ITS SCRATCH ARRAYS: same mappings as mask_search, and the closures array is all zero again at the end *)
  Theorem pyx_search_refines fuel :
    pyx_search qu mo scope fuel = mask_search qu mo scope fuel /\
    (forall out tr cl, pyx_run qu mo scope fuel = Some (out, tr, cl) -> cl = repeat 0 (natoms mo)).
  Proof.
    unfold pyx_search, pyx_run, mask_search, search.
    set (st0 := init_stack (zlen (mo_atoms mo)) (mask_first qu mo scope)).
    pose proof (pyx_dfs_refines fuel st0 [] (repeat false N) [] []) as H.
    assert (Hs0 : Forall (fun e : Z * nat => inb (fst e) N = true /\ snd e = O) st0).
    { unfold st0, init_stack. apply Forall_forall. intros x Hx. apply in_rev in Hx. apply in_map_iff in Hx.
      destruct Hx as [n [<- Hn]]. apply filter_In in Hn. destruct Hn as [Hn _]. apply zrange_In in Hn. cbn [fst snd].
      split; [|reflexivity]. unfold inb, N, natoms, zlen in *. apply andb_true_iff. split; [apply Z.leb_le | apply Z.ltb_lt]; lia. }
    assert (Hok0 : stack_ok last [] st0).
    { clear H. induction st0 as [|[n d] st IHs]; cbn [stack_ok]; [exact I|].
      pose proof (Forall_inv Hs0) as [_ Hd]. cbn [snd] in Hd. subst d. pose proof (Forall_inv_tail Hs0) as Hs'.
      split; [cbn; lia|]. split; [lia|]. split; [cbn; tauto|]. split; [|apply IHs; exact Hs'].
      eapply Forall_impl; [|exact Hs']. intros x [_ Hx]. lia. }
    specialize (H (NoDup_nil _) Hok0).
    specialize (H ltac:(eapply Forall_impl; [|exact Hs0]; intros x [Hx _]; exact Hx) (Forall_nil _) (char_init N)).
    fold N zeros in H |- *. unfold last, back, last_depth in H.
    destruct (pyx_dfs qu mo scope fuel st0 [] (repeat false N) zeros [] []) as [[[out tr] cl]|] eqn:E.
    - destruct H as [H1 H2]. split; [cbn [option_map fst]; rewrite H1; reflexivity|].
      intros out' tr' cl' Heq. inversion Heq; subst. reflexivity.
    - split; [cbn [option_map]; rewrite H; reflexivity | intros; discriminate].
  Qed.
End RefineLoop.

Lemma mo_okb_sound mo : mo_okb mo = true -> mo_ok mo.
Proof.
  unfold mo_okb, mo_ok. rewrite forallb_forall, Forall_forall. intros H j Hj. specialize (H j Hj).
  apply andb_true_iff in H. destruct H as [H1 H2]. apply Z.leb_le in H1. apply Z.ltb_lt in H2. lia.
Qed.

(* the buffers written by enc_mol satisfy mo_ok; hence, under the hypotheses of the search theorem, the array-level loop of the
   .pyx returns exactly what _get_mapping returns *)
From Model Require Import IsoBitsExt.
From Proofs Require Import IsoBitsExtProofs.

Lemma enc_mol_ok rm : adj_ok rm -> mo_ok (enc_mol rm).
Proof.
  intros H. unfold mo_ok. rewrite enc_mol_natoms. unfold enc_mol. cbn [mo_bonds]. apply Forall_forall. intros j Hj.
  apply in_flat_map in Hj. destruct Hj as [a [Ha Hj]]. apply in_map_iff in Hj. destruct Hj as [e [<- He]]. cbn [bt_index].
  unfold adj_ok in H. rewrite Forall_forall in H. destruct (H a Ha) as [_ Hr]. rewrite Forall_forall in Hr. exact (Hr e He).
Qed.

Theorem pyx_search_equiv rq rm scope fuel :
  rq <> [] -> wf_query rq -> wf_mol rm -> in_range_pair rq rm ->
  pyx_search (enc_query rq) (enc_mol rm) scope fuel = ref_search rq rm scope fuel.
Proof.
  intros H1 H2 H3 H4.
  destruct (pyx_search_refines (enc_query rq) (enc_mol rm) scope (enc_mol_ok rm (wf_mol_adj_ok rm H3)) fuel) as [E _].
  rewrite E. apply mask_search_equiv; assumption.
Qed.

(* non-vacuity: the ring-closure query on methylcyclopropane through the array-level loop: 6 mappings, the
   closures array all zero at the end; the first iterations of the trace *)
Theorem pyx_search_example :
  mo_okb (enc_mol ex_rm) = true /\
  pyx_search (enc_query ex_rq) (enc_mol ex_rm) [true; true; true; true] 100 =
    Some [[3; 2; 1]; [3; 1; 2]; [2; 3; 1]; [2; 1; 3]; [1; 3; 2]; [1; 2; 3]] /\
  match pyx_run (enc_query ex_rq) (enc_mol ex_rm) [true; true; true; true] 100 with
  | Some (_, tr, cl) => cl = [0; 0; 0; 0] /\ firstn 3 tr = [(3, O, [], [], 2%nat); (2, 1%nat, [3], [3], 3%nat); (1, 2%nat, [3; 2], [2; 3], 3%nat)]
  | None => False
  end.
Proof. vm_compute. repeat split; reflexivity. Qed.
