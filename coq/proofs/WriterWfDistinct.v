(* C02, writer_wellformed, part 11: the recorded bonds are pairwise different, and the visited atoms hang on the start atom.
   DD: invariant of dfs_step (any sort key) on top of DC: a ring-closure pair is never a tree edge, has one cycle number,
       is recorded on both atoms, and two tree edges never join the same two atoms;
   DR: every visited atom other than the start has an earlier visited parent in `edges` (so every visited atom is reached
       from the start atom through tree edges). *)
From Coq Require Import ZArith List Bool Lia Permutation.
From Model Require Import PyBase Graph Writer.
From Proofs Require Import WriterProofsClosures WriterWfAtoms WriterWfStream WriterWfDfs WriterWfEvents WriterWfTree WriterWfComplete.
Import ListNotations.
Open Scope Z_scope.

Definition nbr_nodup (g : mol) : Prop := forall n, NoDup (nbr_ids g n).

Lemma wf_mol_nbr_nodup g : wf_mol g = true -> nbr_nodup g.
Proof.
  unfold wf_mol. intros H n. apply andb_true_iff in H. destruct H as [_ H]. rewrite forallb_forall in H.
  unfold nbr_ids, nbrs. destruct (zget (m_adj g) n) as [l|] eqn:El; [|constructor].
  specialize (H (n, l) (zget_In _ _ _ El)). cbn [fst snd] in H. apply andb_true_iff in H. destruct H as [H _].
  apply nodup_z_NoDup. exact H.
Qed.

Lemma zhas_keys {V} (d : list (Z * V)) k : zhas d k = true -> In k (keys d).
Proof. unfold zhas. destruct (zget d k) eqn:E; [intros _; apply (zget_key_In _ _ _ E) | discriminate]. Qed.

Section Distinct.
  Variable g : mol.
  Variable key : Z -> Z -> list Z.
  Variable aset : list Z.
  Variable start : Z.
  Hypothesis Hnn : nbr_nodup g.
  Hypothesis Hloop : loop_free g.

  Definition tk (st : dfs_st) (a : Z) : list (Z * Z) := zgetl (ds_tokens st) a.
  Definition ed (st : dfs_st) (p : Z) : list Z := zgetl (ds_edges st) p.

  Record DD (st : dfs_st) : Prop := mkDD {
    dd_sym : forall a m c, In (m, c) (tk st a) -> In (a, c) (tk st m);
    dd_disc : forall a m c, In (m, c) (tk st a) -> In (a, m) (ds_disc st);
    dd_uniq : forall a m c c', In (m, c) (tk st a) -> In (m, c') (tk st a) -> c = c';
    dd_tok_vis : forall a m c, In (m, c) (tk st a) -> vis st a /\ vis st m;
    dd_not_tree : forall a m c, In (m, c) (tk st a) -> ~ In m (ed st a);
    dd_edges_vis : forall p c, In c (ed st p) -> vis st p /\ vis st c;
    dd_anti : forall p c, In c (ed st p) -> ~ In p (ed st c);
    dd_stack : forall p d ch, In (p, d, ch) (ds_stack st) ->
                 NoDup ch /\ (forall c, In c ch -> ~ In c (ed st p)) /\ (forall q, In p (ed st q) -> ~ In q ch) /\ vis st p
  }.

  Lemma dfs_step_DD st st' : DC g aset st -> DD st -> dfs_step g key st = Some st' -> DD st'.
  Proof.
    intros C D H. unfold dfs_step in H. destruct (ds_stack st) as [|[[parent depth] children] rest] eqn:Es; [discriminate|].
    destruct D as [D1 D2 D3 D4 D5 D6 D7 D8]. rewrite Es in D8.
    pose proof (dc_stack_nodup _ _ _ C) as Cnd. unfold stack_atoms in Cnd. rewrite Es in Cnd. cbn [map fst] in Cnd.
    assert (Hrest_ne : forall p d ch, In (p, d, ch) rest -> p <> parent).
    { intros p d ch Hin ->. inversion Cnd as [|? ? Hn _]. apply Hn. apply in_map_iff. exists (parent, d, ch). split; [reflexivity | exact Hin]. }
    destruct children as [|child children'].
    - inversion H. subst st'. clear H. constructor; unfold tk, ed, vis in *; cbn [ds_stack ds_visited ds_edges ds_tokens ds_disc]; try assumption.
      intros p d ch Hin. apply (D8 p d ch). right. exact Hin.
    - destruct (D8 parent depth (child :: children') (or_introl eq_refl)) as [Hndc [Hce [Hpe Hpv]]].
      assert (Hndc' : NoDup children') by (inversion Hndc; assumption).
      assert (Hch_notin : ~ In child children') by (inversion Hndc; assumption).
      destruct (negb (zhas (ds_visited st) child)) eqn:Ev.
      + (* tree edge *)
        apply negb_true_iff in Ev.
        assert (Hguard : (1 <? depth) = true \/ True) by (right; exact I).
        set (vis1 := ds_visited st ++ [(child, [parent])]) in *.
        set (edges1 := zapp (ds_edges st) parent child) in *.
        assert (Hvm : forall n, zhas (ds_visited st) n = true -> zhas vis1 n = true) by (intros n Hn; apply zhas_app'; exact Hn).
        assert (Hcv : zhas vis1 child = true) by apply zhas_app_new.
        assert (Hed1 : forall p, zgetl edges1 p = if p =? parent then zgetl (ds_edges st) parent ++ [child] else zgetl (ds_edges st) p)
          by (intros p; unfold edges1; apply zgetl_zapp).
        assert (Hpc : parent <> child) by (intros E; rewrite E in Hpv; unfold vis in Hpv; rewrite Hpv in Ev; discriminate).
        assert (Hchild_leaf : zgetl (ds_edges st) child = []).
        { destruct (zgetl (ds_edges st) child) as [|x l] eqn:E; [reflexivity|]. exfalso.
          destruct (D6 child x) as [A _]; [unfold ed; rewrite E; left; reflexivity|]. unfold vis in A. rewrite A in Ev. discriminate. }
        assert (Hchild_nochild : forall q, ~ In child (zgetl (ds_edges st) q)).
        { intros q Hin. destruct (D6 q child Hin) as [_ A]. unfold vis in A. rewrite A in Ev. discriminate. }
        (* the part of DD that does not depend on the new stack *)
        assert (Hcore : forall stack',
                  (forall p d ch, In (p, d, ch) stack' ->
                     NoDup ch /\ (forall c, In c ch -> ~ In c (zgetl edges1 p)) /\ (forall q, In p (zgetl edges1 q) -> ~ In q ch) /\ zhas vis1 p = true) ->
                  DD (mkDfs stack' vis1 (ds_disc st) edges1 (ds_tokens st) (ds_cycle st))).
        { intros stack' Hst. constructor; unfold tk, ed, vis in *; cbn [ds_stack ds_visited ds_edges ds_tokens ds_disc]; try assumption.
          - intros a m c Hin. destruct (D4 a m c Hin). split; apply Hvm; assumption.
          - intros a m c Hin. rewrite Hed1. destruct (a =? parent) eqn:E; [|apply (D5 a m c Hin)].
            apply Z.eqb_eq in E. subst a. intros Hx. apply in_app_or in Hx. destruct Hx as [Hx | [<- | []]]; [exact (D5 parent m c Hin Hx)|].
            destruct (D4 parent child c Hin) as [_ A]. rewrite A in Ev. discriminate.
          - intros p c Hin. rewrite Hed1 in Hin. destruct (p =? parent) eqn:E.
            + apply Z.eqb_eq in E. subst p. apply in_app_or in Hin. destruct Hin as [Hin | [<- | []]].
              * destruct (D6 parent c Hin). split; apply Hvm; assumption.
              * split; [apply Hvm; exact Hpv | exact Hcv].
            + destruct (D6 p c Hin). split; apply Hvm; assumption.
          - intros p c Hin. rewrite Hed1 in Hin. rewrite Hed1. destruct (p =? parent) eqn:E.
            + apply Z.eqb_eq in E. subst p. apply in_app_or in Hin. destruct Hin as [Hin | [<- | []]].
              * destruct (c =? parent) eqn:E2; [apply Z.eqb_eq in E2; subst c; intros _; exact (D7 parent parent Hin Hin)|]. exact (D7 parent c Hin).
              * destruct (child =? parent) eqn:E2; [apply Z.eqb_eq in E2; symmetry in E2; contradiction|]. rewrite Hchild_leaf. intros [].
            + destruct (c =? parent) eqn:E2; [|exact (D7 p c Hin)].
              apply Z.eqb_eq in E2. subst c. intros Hx. apply in_app_or in Hx. destruct Hx as [Hx | [<- | []]]; [exact (D7 p parent Hin Hx)|].
              exact (Hchild_nochild parent Hin) || (rewrite Hchild_leaf in Hin; destruct Hin). }
        (* the parent's entry and the rest of the stack *)
        assert (Hst1 : forall p d ch, In (p, d, ch) ((parent, depth, children') :: rest) ->
                         NoDup ch /\ (forall c, In c ch -> ~ In c (zgetl edges1 p)) /\ (forall q, In p (zgetl edges1 q) -> ~ In q ch) /\ zhas vis1 p = true).
        { intros p d ch [E | Hin].
          - injection E as E1 E2 E3. subst p d ch. split; [exact Hndc'|]. split; [|split; [|apply Hvm; exact Hpv]].
            + intros c Hc. rewrite Hed1, Z.eqb_refl. intros Hx. apply in_app_or in Hx. destruct Hx as [Hx | [<- | []]].
              * exact (Hce c (or_intror Hc) Hx).
              * exact (Hch_notin Hc).
            + intros q Hq Hin. rewrite Hed1 in Hq. destruct (q =? parent) eqn:E.
              * apply Z.eqb_eq in E. subst q. apply in_app_or in Hq. destruct Hq as [Hq | [E2 | []]]; [exact (Hpe parent Hq (or_intror Hin)) | symmetry in E2; contradiction].
              * exact (Hpe q Hq (or_intror Hin)).
          - destruct (D8 p d ch (or_intror Hin)) as [A [B [C0 E0]]]. pose proof (Hrest_ne p d ch Hin) as Hne.
            split; [exact A|]. split; [|split; [|apply Hvm; exact E0]].
            + intros c Hc. rewrite Hed1. destruct (p =? parent) eqn:E; [apply Z.eqb_eq in E; contradiction | exact (B c Hc)].
            + intros q Hq. rewrite Hed1 in Hq. destruct (q =? parent) eqn:E; [|exact (C0 q Hq)].
              apply Z.eqb_eq in E. subst q. apply in_app_or in Hq. destruct Hq as [Hq | [E2 | []]]; [exact (C0 parent Hq)|].
              subst p. unfold vis in E0. rewrite E0 in Ev. discriminate. }
        destruct (1 <? depth).
        * destruct (filter (fun m => negb (m =? parent)) (nbr_ids g child)) as [|f0 front] eqn:Ef.
          -- inversion H. subst st'. apply Hcore. exact Hst1.
          -- inversion H. subst st'. apply Hcore. intros p d ch [E | Hin]; [|apply (Hst1 p d ch Hin)].
             injection E as E1 E2 E3. subst p d ch.
             change (insert_first (key child) f0 (sort_by (key child) front)) with (sort_by (key child) (f0 :: front)).
             assert (Hin_chs : forall m, In m (sort_by (key child) (f0 :: front)) -> In m (nbr_ids g child) /\ m <> parent).
             { intros m Hm. apply In_sort_by in Hm. rewrite <- Ef in Hm. apply filter_In in Hm. destruct Hm as [A B].
               split; [exact A | apply negb_true_iff in B; apply Z.eqb_neq; exact B]. }
             split; [|split; [|split; [|exact Hcv]]].
             ++ apply (Permutation_NoDup (Permutation_sym (sort_by_perm (key child) (f0 :: front)))). rewrite <- Ef. apply NoDup_filter. apply Hnn.
             ++ intros c Hc. rewrite Hed1. destruct (child =? parent) eqn:E; [apply Z.eqb_eq in E; symmetry in E; contradiction|]. rewrite Hchild_leaf. intros [].
             ++ intros q Hq Hin. rewrite Hed1 in Hq. destruct (q =? parent) eqn:E.
                ** apply Z.eqb_eq in E. subst q. destruct (Hin_chs parent Hin) as [_ A]. apply A. reflexivity.
                ** exact (Hchild_nochild q Hq).
        * inversion H. subst st'. apply Hcore. exact Hst1.
      + apply negb_false_iff in Ev.
        destruct (negb (pair_mem (child, parent) (ds_disc st))) eqn:Ed.
        * (* ring closure *)
          apply negb_true_iff in Ed. inversion H. subst st'. clear H.
          set (c := ds_cycle st + 1) in *.
          assert (Hndisc : ~ In (child, parent) (ds_disc st)) by (intros Hin; apply pair_mem_In in Hin; rewrite Hin in Ed; discriminate).
          assert (Hno1 : forall c', ~ In (parent, c') (zgetl (ds_tokens st) child)) by (intros c' Hin; exact (Hndisc (D2 child parent c' Hin))).
          assert (Hno2 : forall c', ~ In (child, c') (zgetl (ds_tokens st) parent)) by (intros c' Hin; exact (Hno1 c' (D1 parent child c' Hin))).
          assert (Hchild_nbr : In child (nbr_ids g parent)).
          { apply (dc_children _ _ _ C parent depth (child :: children')); [rewrite Es; left; reflexivity | left; reflexivity]. }
          assert (Hpc : parent <> child) by (intros E; subst child; exact (Hloop parent Hchild_nbr)).
          set (tok1 := zapp (zapp (ds_tokens st) parent (child, c)) child (parent, c)) in *.
          assert (Htk : forall a, zgetl tok1 a = zgetl (ds_tokens st) a ++ (if a =? child then [(parent, c)] else if a =? parent then [(child, c)] else [])).
          { intros a. unfold tok1. rewrite zgetl_zapp. destruct (a =? child) eqn:E1.
            - apply Z.eqb_eq in E1. subst a. rewrite zgetl_zapp. destruct (child =? parent) eqn:E2; [apply Z.eqb_eq in E2; symmetry in E2; contradiction | reflexivity].
            - rewrite zgetl_zapp. destruct (a =? parent) eqn:E2; [apply Z.eqb_eq in E2; subst a; reflexivity | rewrite app_nil_r; reflexivity]. }
          assert (Hin_new : forall a m c', In (m, c') (zgetl tok1 a) ->
                     In (m, c') (zgetl (ds_tokens st) a) \/ (a = child /\ m = parent /\ c' = c) \/ (a = parent /\ m = child /\ c' = c)).
          { intros a m c' Hin. rewrite Htk in Hin. apply in_app_or in Hin. destruct Hin as [Hin | Hin]; [left; exact Hin|].
            destruct (a =? child) eqn:E1.
            - apply Z.eqb_eq in E1. destruct Hin as [E | []]. inversion E. right. left. repeat split; congruence.
            - destruct (a =? parent) eqn:E2; [|destruct Hin]. apply Z.eqb_eq in E2. destruct Hin as [E | []]. inversion E. right. right. repeat split; congruence. }
          assert (Hold_in : forall a x, In x (zgetl (ds_tokens st) a) -> In x (zgetl tok1 a)) by (intros a x Hx; rewrite Htk; apply in_or_app; left; exact Hx).
          assert (Hn1 : In (parent, c) (zgetl tok1 child)) by (rewrite Htk, Z.eqb_refl; apply in_or_app; right; left; reflexivity).
          assert (Hn2 : In (child, c) (zgetl tok1 parent)).
          { rewrite Htk. destruct (parent =? child) eqn:E; [apply Z.eqb_eq in E; contradiction|]. rewrite Z.eqb_refl. apply in_or_app. right. left. reflexivity. }
          constructor; unfold tk, ed, vis in *; cbn [ds_stack ds_visited ds_edges ds_tokens ds_disc].
          -- intros a m c' Hin. destruct (Hin_new a m c' Hin) as [Ho | [[-> [-> ->]] | [-> [-> ->]]]]; [apply Hold_in; apply D1; exact Ho | exact Hn2 | exact Hn1].
          -- intros a m c' Hin. destruct (Hin_new a m c' Hin) as [Ho | [[-> [-> ->]] | [-> [-> ->]]]].
             ++ right. right. apply (D2 a m c' Ho).
             ++ left. reflexivity.
             ++ right. left. reflexivity.
          -- intros a m c1 c2 H1 H2.
             destruct (Hin_new a m c1 H1) as [O1 | [[-> [-> ->]] | [-> [-> ->]]]]; destruct (Hin_new _ _ c2 H2) as [O2 | [[E1 [E2 ->]] | [E1 [E2 ->]]]];
               try reflexivity; try (apply (D3 a m c1 c2 O1 O2)); try (exfalso; subst; first [exact (Hno1 _ O1) | exact (Hno1 _ O2) | exact (Hno2 _ O1) | exact (Hno2 _ O2) | contradiction | (apply Hpc; congruence)]).
          -- intros a m c' Hin. destruct (Hin_new a m c' Hin) as [Ho | [[-> [-> ->]] | [-> [-> ->]]]]; [apply (D4 a m c' Ho) | split; [exact Ev | exact Hpv] | split; [exact Hpv | exact Ev]].
          -- intros a m c' Hin. destruct (Hin_new a m c' Hin) as [Ho | [[-> [-> ->]] | [-> [-> ->]]]]; [apply (D5 a m c' Ho) | |].
             ++ intros Hx. exact (Hpe child Hx (or_introl eq_refl)).
             ++ exact (Hce child (or_introl eq_refl)).
          -- exact D6.
          -- exact D7.
          -- intros p d ch [E | Hin]; [|apply (D8 p d ch (or_intror Hin))].
             injection E as E1 E2 E3. subst p d ch. split; [exact Hndc'|]. split; [intros x Hx; apply Hce; right; exact Hx|]. split; [intros q Hq Hin; exact (Hpe q Hq (or_intror Hin)) | exact Hpv].
        * inversion H. subst st'. clear H. constructor; unfold tk, ed, vis in *; cbn [ds_stack ds_visited ds_edges ds_tokens ds_disc]; try assumption.
          intros p d ch [E | Hin]; [|apply (D8 p d ch (or_intror Hin))].
          injection E as E1 E2 E3. subst p d ch. split; [exact Hndc'|]. split; [intros x Hx; apply Hce; right; exact Hx|]. split; [intros q Hq Hin; exact (Hpe q Hq (or_intror Hin)) | exact Hpv].
  Qed.

  (* ---- DR: visited atoms hang on the start atom ---- *)
  Definition anc_ok (vs : list (Z * list Z)) (edges : list (Z * list Z)) : Prop :=
    forall l1 v x l2, vs = l1 ++ (v, x) :: l2 -> v = start \/ exists p, In p (keys l1) /\ In v (zgetl edges p).

  Lemma dfs_step_DR st st' : (forall p d ch, In (p, d, ch) (ds_stack st) -> vis st p) ->
    anc_ok (ds_visited st) (ds_edges st) -> dfs_step g key st = Some st' ->
    anc_ok (ds_visited st') (ds_edges st') /\ (forall p d ch, In (p, d, ch) (ds_stack st') -> vis st' p).
  Proof.
    intros Hsv A H. unfold dfs_step in H. destruct (ds_stack st) as [|[[parent depth] children] rest] eqn:Es; [discriminate|].
    destruct children as [|child children'].
    - inversion H. subst st'. cbn. split; [exact A | intros p d ch Hin; apply (Hsv p d ch); right; exact Hin].
    - assert (Hpv : vis st parent) by (apply (Hsv parent depth (child :: children')); left; reflexivity).
      assert (Hsv1 : forall p d ch, In (p, d, ch) ((parent, depth, children') :: rest) -> vis st p).
      { intros p d ch [E | Hin]; [injection E as E1 _ _; subst p; exact Hpv | apply (Hsv p d ch); right; exact Hin]. }
      destruct (negb (zhas (ds_visited st) child)) eqn:Ev.
      + assert (Hanc : anc_ok (ds_visited st ++ [(child, [parent])]) (zapp (ds_edges st) parent child)).
        { intros l1 v x l2 E. destruct (exists_last (l := (v, x) :: l2) ltac:(discriminate)) as [l2' [lst El]].
          rewrite El in E. rewrite app_assoc in E. apply app_inj_tail in E. destruct E as [E1 E2].
          destruct l2 as [|y l2''].
          - (* the new atom *)
            destruct l2' as [|z l2'2]; [|destruct l2'2; discriminate El]. cbn in El. injection El as El. rewrite <- El in E2. injection E2 as E3 E4. subst v x.
            rewrite app_nil_r in E1. subst l1. right. exists parent. split; [apply zhas_keys; exact Hpv | apply In_zapp_new].
          - destruct l2' as [|z l2'2]; [destruct l2''; discriminate El|]. cbn [app] in El. injection El as El1 El2. subst z.
            destruct (A l1 v x l2'2) as [Hs | [p [Hp Hv]]]; [rewrite <- E1; reflexivity | left; exact Hs|].
            right. exists p. split; [exact Hp | apply In_zapp; exact Hv]. }
        assert (Hvm : forall p, vis st p -> zhas (ds_visited st ++ [(child, [parent])]) p = true) by (intros p Hp; apply zhas_app'; exact Hp).
        destruct (1 <? depth).
        * destruct (filter (fun m => negb (m =? parent)) (nbr_ids g child)); inversion H; subst st'; cbn; (split; [exact Hanc|]).
          -- intros p d ch Hin. apply Hvm. apply (Hsv1 p d ch Hin).
          -- intros p d ch [E | Hin]; [injection E as E1 _ _; subst p; apply zhas_app_new | apply Hvm; apply (Hsv1 p d ch Hin)].
        * inversion H. subst st'. cbn. split; [exact Hanc | intros p d ch Hin; apply Hvm; apply (Hsv1 p d ch Hin)].
      + destruct (negb (pair_mem (child, parent) (ds_disc st))); inversion H; subst st'; cbn; (split; [exact A | exact Hsv1]).
  Qed.

  Lemma anc_closed (S : list Z) edges : In start S -> (forall n c, In n S -> In c (zgetl edges n) -> In c S) ->
    forall vs, anc_ok vs edges -> forall v, In v (keys vs) -> In v S.
  Proof.
    intros Hs Hc vs. induction vs as [|[v0 x0] vs IH] using rev_ind; intros A v Hv; [destruct Hv|].
    assert (A' : anc_ok vs edges).
    { intros l1 v1 x1 l2 E. apply (A l1 v1 x1 (l2 ++ [(v0, x0)])). rewrite E. rewrite <- app_assoc. reflexivity. }
    unfold keys in Hv. rewrite map_app in Hv. apply in_app_or in Hv. destruct Hv as [Hv | [<- | []]]; [apply (IH A' v Hv)|].
    cbn [fst]. destruct (A vs v0 x0 [] eq_refl) as [-> | [p [Hp Hv0]]]; [exact Hs|].
    apply (Hc p v0); [apply (IH A' p Hp) | exact Hv0].
  Qed.
End Distinct.
