(* C20 round 4: the hand-written model functions of Model.Rdkit ARE the bodies of to_rdkit_molecule / from_rdkit_molecule as
   translated statement by statement from chython/utils/rdkit.py on every run (Gen.RdkitBody, tools/gen_rdkit_body.py, API meaning
   in Model.RdkitApi).  Every theorem here is an equality for ALL inputs between a generated definition and the hand model the
   theorems of props/C20.v are about; a behaviour-changing edit of a translated statement breaks the corresponding equality. *)
From Coq Require Import ZArith List String Bool Lia.
From Model Require Import PyBase PeriodicTable Stereo Rdkit RdkitApi.
From Gen Require Import Elements RdkitTables RdkitConsts RdkitBody.
Import ListNotations.
Open Scope Z_scope.

Definition pyres_map {A B : Type} (f : A -> B) (x : pyres A) : pyres B := match x with Ok a => Ok (f a) | Err e => Err e end.

Lemma mapM_ext {A B} (f g : A -> pyres B) l : (forall x, f x = g x) -> mapM f l = mapM g l.
Proof. intros H. induction l as [|x r IH]; simpl; [reflexivity|]. rewrite H, IH. reflexivity. Qed.

Lemma mapM_pure {A B} (f : A -> B) l : mapM (fun x => Ok (f x)) l = Ok (map f l).
Proof. induction l as [|x r IH]; simpl; [reflexivity|]. rewrite IH. reflexivity. Qed.

Lemma mapM_pmap {A B C} (f : A -> pyres B) (h : B -> C) l : mapM (fun x => pyres_map h (f x)) l = pyres_map (map h) (mapM f l).
Proof.
  induction l as [|x r IH]; simpl; [reflexivity|].
  destruct (f x); simpl; [|reflexivity]. rewrite IH. destruct (mapM f r); reflexivity.
Qed.

Lemma zmem_keys_zget {V} (d : list (Z * V)) k : zmem k (keys d) = negb (is_none (zget d k)).
Proof.
  unfold zmem, keys. induction d as [|[k' v] r IH]; simpl; [reflexivity|].
  destruct (k =? k'); simpl; [reflexivity|exact IH].
Qed.

Lemma existsb_filter_nil {A} (f : A -> bool) l : existsb f l = negb (py_is_empty (filter f l)).
Proof. induction l as [|x r IH]; simpl; [reflexivity|]. destruct (f x); simpl; [reflexivity|exact IH]. Qed.

(* ---------------------------------------------------------------------------------------------------------------- *)
(* to_rdkit_molecule *)

(* first loop: the RDKit atom built for (n, a) *)
Theorem tie_to_atom : forall n keep a, g_to_atom n keep a = to_atom n keep a.
Proof.
  intros n keep [num iso chg rad hyd mp x y]. unfold g_to_atom, to_atom, rd_Atom; simpl.
  destruct hyd as [h|]; simpl; [|reflexivity].
  destruct (h <? 0); simpl; [reflexivity|].
  destruct keep; simpl;
    (destruct (chg =? 0) eqn:Ec; simpl; [apply Z.eqb_eq in Ec; subst chg|]);
    (destruct iso as [i|]; simpl; [destruct (i =? 0) eqn:Ei; simpl; [apply Z.eqb_eq in Ei; subst i|]|]);
    destruct rad; reflexivity.
Qed.

(* second loop: (begin index, end index, bond type) handed to AddBond; `data.atom(n).atomic_symbol` = [asym n], `mapping` = the
   index dictionary of the molecule *)
Theorem tie_to_bond : forall (asym : Z -> pyres string) l n m o,
  g_to_bond asym (midx l) n m o =
  match asym n with
  | Err e => Err e
  | Ok s => match to_bond s n m o with
            | Err e => Err e
            | Ok (bn, en, t) => match midx l bn, midx l en with
                                | Ok bi, Ok ei => Ok (bi, ei, t)
                                | Err e, _ => Err e
                                | _, Err e => Err e
                                end
            end
  end.
Proof.
  intros asym l n m o. unfold g_to_bond, to_bond, bond_type, py_getitem_zs, midx, pbind.
  generalize (zget_last bond_map o) as bt. intros bt.
  destruct (asym n) as [s|e]; [|reflexivity].
  destruct (negb (smem s inorganic));
    destruct bt; destruct (zget_last l m); destruct (zget_last l n); reflexivity.
Qed.

(* the structure part of a whole molecule is the two translated bodies mapped over data.atoms() and data.bonds() *)
Theorem tie_to_mol : forall keep atoms bonds,
  to_mol keep (atoms, bonds) =
  pbind (mapM (fun na => g_to_atom (fst na) keep (snd na)) atoms) (fun ras =>
  pbind (mapM (fun b => let '(n, m, o) := b in
                        g_to_bond (fun k => match zget atoms k with
                                            | None => Err KeyError
                                            | Some a => Ok (chython_symbol (c_num a))
                                            end)
                                  (midx (index_map (map fst atoms))) n m o) bonds) (fun rbs =>
  Ok (ras, rbs))).
Proof.
  intros keep atoms bonds. unfold to_mol, pbind.
  rewrite (mapM_ext (fun na => g_to_atom (fst na) keep (snd na)) (fun na => to_atom (fst na) keep (snd na)))
    by (intros; apply tie_to_atom).
  destruct (mapM (fun na => to_atom (fst na) keep (snd na)) atoms) as [ras|e]; [|reflexivity].
  match goal with |- match mapM ?f bonds with _ => _ end = match mapM ?g bonds with _ => _ end =>
    rewrite (mapM_ext g f); [reflexivity|] end.
  intros [[n m] o]. rewrite tie_to_bond. destruct (zget atoms n); reflexivity.
Qed.

(* third loop: the chiral tag set on the RDKit atom of atom n (None = the atom is left untouched) *)
Theorem tie_to_tag : forall isH th (mapping : Z -> pyres Z) n s env i, mapping n = Ok i ->
  g_to_tag isH th mapping n s env = to_chiral_tag isH (zget th n) env s.
Proof.
  intros isH th mapping n s env i Hm. unfold g_to_tag, to_chiral_tag, py_translate_th_self, rd_SetChiralTag, tag_of_sign.
  rewrite zmem_keys_zget, Hm. destruct s as [s|]; simpl; [|reflexivity].
  destruct (zget th n) as [o|]; simpl; [|reflexivity].
  destruct (translate_th isH o env s) as [r|e]; simpl; reflexivity.
Qed.

(* fourth loop: what is set on the RDKit bond of (n, m): stereo atoms and label, or nothing *)
Definition embed_label (o : option (Z * Z * string)) : rbh :=
  match o with None => (None, None) | Some (a, b, l) => (Some (a, b), Some l) end.

Theorem tie_to_bond_label : forall centers ct n m s,
  g_to_bond_label centers ct (fun k => Ok k) n m s =
  pyres_map embed_label (to_bond_stereo_sel (zget centers n) n m (match zget centers n with Some c => pget ct c | None => None end) s).
Proof.
  intros centers ct n m s. unfold g_to_bond_label, to_bond_stereo_sel, to_bond_stereo, py_getitem_ct, bs_of_sign.
  destruct s as [s|]; simpl; [|reflexivity].
  destruct (zget centers n) as [[a b]|]; simpl; [|reflexivity].
  destruct (negb ((n =? a) || (n =? b)) || negb ((m =? a) || (m =? b))); simpl; [reflexivity|].
  destruct (pget ct (a, b)) as [[[[n0 n1] n2] n3]|]; simpl; [|reflexivity].
  destruct s; reflexivity.
Qed.

Theorem tie_to_bond_labels : forall centers ct bonds,
  mapM (fun b => let '(n, m, s) := b in g_to_bond_label centers ct (fun k => Ok k) n m s) bonds =
  pyres_map (map embed_label) (to_bond_labels centers ct bonds).
Proof.
  intros centers ct bonds. unfold to_bond_labels. rewrite <- mapM_pmap. apply mapM_ext.
  intros [[n m] s]. apply tie_to_bond_label.
Qed.

(* ---------------------------------------------------------------------------------------------------------------- *)
(* from_rdkit_molecule *)

Definition th_entry (idx : Z) (nbrs : list Z) (tag : string) : option (Z * list Z * bool) :=
  match sign_of_tag tag with Some s => Some (idx, nbrs, s) | None => None end.

(* first loop: the chython atom built from an RDKit atom and the entry appended to tetrahedron_stereo *)
Theorem tie_from_atom : forall symbol impl x y idx nbrs tag r,
  g_from_atom symbol impl x y idx nbrs tag r =
  match from_atom symbol impl x y r with
  | Err e => Err e
  | Ok c => Ok (c, th_entry idx nbrs tag)
  end.
Proof.
  intros symbol impl x y idx nbrs tag r. unfold g_from_atom, from_atom, py_from_symbol, py_Element, py_or_none, th_entry, sign_of_tag.
  destruct (from_symbol (symbol (r_num r))) as [e|]; simpl; [|reflexivity].
  destruct (r_iso r =? 0); simpl.
  - change ((charge_max <? r_chg r) || (r_chg r <? charge_min)) with ((4 <? r_chg r) || (r_chg r <? -4)).
    destruct ((4 <? r_chg r) || (r_chg r <? -4)); simpl; [reflexivity|].
    destruct (String.eqb tag chiral_cw || String.eqb tag chiral_ccw); reflexivity.
  - destruct (negb (isotope_accepted e (r_iso r))); simpl; [reflexivity|].
    change ((charge_max <? r_chg r) || (r_chg r <? charge_min)) with ((4 <? r_chg r) || (r_chg r <? -4)).
    destruct ((4 <? r_chg r) || (r_chg r <? -4)); simpl; [reflexivity|].
    destruct (String.eqb tag chiral_cw || String.eqb tag chiral_ccw); reflexivity.
Qed.

Definition ct_entry (n m nn nm : Z) (label : string) : option (Z * Z * Z * Z * bool) :=
  match sign_of_bs label with Some s => Some (n, m, nn, nm, s) | None => None end.

(* second loop: the (n, m, order) handed to add_bond and the entry appended to cis_trans_stereo; mapping[i] = i + 1 *)
Theorem tie_from_bond : forall bi ei t label sb se,
  g_from_bond (fun i => Ok (i + 1)) bi ei t label (sb, se) =
  match from_bond (bi + 1) (ei + 1) t with
  | Err e => Err e
  | Ok q => Ok (q, ct_entry (bi + 1) (ei + 1) (sb + 1) (se + 1) label)
  end.
Proof.
  intros bi ei t label sb se. unfold g_from_bond, from_bond, rdkit_bond_order, py_getitem_sz, ct_entry, sign_of_bs, pbind.
  generalize (sget_last rdkit_bond_map t) as bo. intros [o|]; [|reflexivity].
  destruct (String.eqb label bs_cis || String.eqb label bs_trans); reflexivity.
Qed.

(* the bond part of from_mol is the translated body mapped over data.GetBonds() *)
Theorem tie_from_mol_bonds : forall rbs,
  mapM (fun b => let '(bi, ei, t) := b in from_bond (bi + 1) (ei + 1) t) rbs =
  mapM (fun b => let '(bi, ei, t) := b in pyres_map fst (g_from_bond (fun i => Ok (i + 1)) bi ei t "" (0, 0))) rbs.
Proof.
  intros rbs. apply mapM_ext. intros [[bi ei] t]. rewrite tie_from_bond. destruct (from_bond (bi + 1) (ei + 1) t); reflexivity.
Qed.

(* third loop: the label assigned to atom mapping[k] for an entry (k, env, s) of tetrahedron_stereo (None = no label: KeyError) *)
Theorem tie_from_label_th : forall isH th k env s tag, sign_of_tag tag = Some s ->
  g_from_label_th isH th (fun i => Ok (i + 1)) k env s = from_chiral_tag isH (zget th (k + 1)) (map (fun j => j + 1) env) tag.
Proof.
  intros isH th k env s tag Hs. unfold g_from_label_th, from_chiral_tag, py_translate_th, py_except_keyerror; simpl.
  rewrite Hs, mapM_pure; simpl.
  destruct (zget th (k + 1)) as [o|]; simpl; [|reflexivity].
  destruct (translate_th isH o (map (fun j => j + 1) env) s) as [r|[]]; reflexivity.
Qed.

Theorem tie_no_tag_no_entry : forall isH order env tag, sign_of_tag tag = None -> from_chiral_tag isH order env tag = Ok None.
Proof. intros isH order env tag H. unfold from_chiral_tag. rewrite H. reflexivity. Qed.

(* fourth loop: the label assigned to bond (n, m) for an entry (n, m, nn, nm, s) of cis_trans_stereo *)
Theorem tie_from_label_ct : forall isH ct n m nn nm s label, sign_of_bs label = Some s ->
  g_from_label_ct isH ct n m nn nm s = from_bond_stereo isH (pget ct (n, m)) (pget ct (m, n)) nn nm label.
Proof.
  intros isH ct n m nn nm s label Hs. unfold g_from_label_ct, from_bond_stereo, py_translate_ct, py_except_keyerror; simpl.
  rewrite Hs. destruct (translate_ct isH (pget ct (n, m)) (pget ct (m, n)) nn nm s) as [r|[]]; reflexivity.
Qed.

(* the tail: fix_structure (touches no label), then fix_stereo exactly when one of the two lists is non-empty; the lists hold one entry
   per CW/CCW tag and per E/Z label (tie_from_atom / tie_from_bond) *)
Definition tag_has_sign (t : string) : bool := match sign_of_tag t with Some _ => true | None => false end.
Definition bond_has_sign (b : Z * Z * string * Z * Z) : bool :=
  let '(_, _, label, _, _) := b in match sign_of_bs label with Some _ => true | None => false end.

Theorem tie_from_tail : forall fixs isH th ct nb tags rbonds,
  from_stereo_final fixs isH th ct nb tags rbonds =
  pbind (from_tags isH th nb 0 tags) (fun la =>
  pbind (from_bond_labels isH ct rbonds) (fun lb =>
  g_from_tail (fun l => l) fixs (filter tag_has_sign tags) (filter bond_has_sign rbonds) (la, lb))).
Proof.
  intros fixs isH th ct nb tags rbonds. unfold from_stereo_final, g_from_tail, pbind.
  destruct (from_tags isH th nb 0 tags) as [la|e]; [|reflexivity].
  destruct (from_bond_labels isH ct rbonds) as [lb|e]; [|reflexivity].
  replace (has_tag tags) with (negb (py_is_empty (filter tag_has_sign tags))) by (symmetry; apply (existsb_filter_nil tag_has_sign)).
  replace (has_bond_label rbonds) with (negb (py_is_empty (filter bond_has_sign rbonds))) by (symmetry; apply (existsb_filter_nil bond_has_sign)).
  destruct (negb (py_is_empty (filter tag_has_sign tags)) || negb (py_is_empty (filter bond_has_sign rbonds))); reflexivity.
Qed.

(* non-vacuity: the translated bodies compute on a concrete atom / bond / label *)
Example tie_examples :
  g_to_atom 7 true (mkC 6 (Some 13) (-1) true (Some 2) None 0 0) = Ok (mkR 6 13 (-1) 1 2 7) /\
  g_to_bond (fun _ => Ok "Fe"%string) (fun k => Ok (k - 1)) 1 2 8 = Ok (1, 0, "DATIVE"%string) /\
  g_to_bond (fun _ => Ok "N"%string) (fun k => Ok (k - 1)) 1 2 8 = Ok (0, 1, "DATIVE"%string) /\
  g_to_bond_label [(1, (1, 2)); (2, (1, 2))] [(1, 2, (3, 4, None, None))] (fun k => Ok k) 1 2 (Some true) = Ok (Some (3, 4), Some "STEREOZ"%string) /\
  g_from_bond (fun i => Ok (i + 1)) 0 1 "DOUBLE" "STEREOE" (2, 3) = Ok (1, 2, 2, Some (1, 2, 3, 4, false)).
Proof. vm_compute. repeat split. Qed.

(* ---------------------------------------------------------------------------------------------------------------- *)
(* from_rdkit_molecule on a whole molecule (structure part): the translated atom body over data.GetAtoms() -- the atom of index i
   is numbered i + 1 by add_atom on the empty container --, then the translated bond body over data.GetBonds() *)
Fixpoint from_atoms_g (symbol : Z -> string) (i : Z) (ras : list ratom) (impls : list Z) (xy : list (Z * Z)) : pyres (list (Z * catom)) :=
  match ras with
  | [] => Ok []
  | r :: rest =>
      let impl := match impls with h :: _ => h | [] => 0 end in
      let '(x, y) := match xy with p :: _ => p | [] => (czero, czero) end in
      pbind (g_from_atom symbol impl x y i [] "" r) (fun ae =>
      pbind (from_atoms_g symbol (i + 1) rest (tl impls) (tl xy)) (fun l =>
      Ok ((i + 1, fst ae) :: l)))
  end.

Lemma tie_from_atoms : forall symbol ras i impls xy, from_atoms symbol i ras impls xy = from_atoms_g symbol i ras impls xy.
Proof.
  intros symbol ras. induction ras as [|r rest IH]; intros i impls xy; [reflexivity|].
  cbn [from_atoms from_atoms_g]. destruct (match xy with p :: _ => p | [] => (czero, czero) end) as [x y].
  rewrite tie_from_atom, IH.
  destruct (from_atom symbol (match impls with h :: _ => h | [] => 0 end) x y r) as [a|e]; cbn [pbind fst]; [|reflexivity].
  destruct (from_atoms_g symbol (i + 1) rest (tl impls) (tl xy)); reflexivity.
Qed.

Theorem tie_from_mol : forall symbol impls xy ras rbs,
  from_mol symbol impls xy (ras, rbs) =
  pbind (from_atoms_g symbol 0 ras impls xy) (fun atoms =>
  pbind (mapM (fun b => let '(bi, ei, t) := b in pyres_map fst (g_from_bond (fun i => Ok (i + 1)) bi ei t "" (0, 0))) rbs) (fun bonds =>
  Ok (atoms, bonds))).
Proof.
  intros symbol impls xy ras rbs. unfold from_mol. rewrite tie_from_atoms, tie_from_mol_bonds.
  destruct (from_atoms_g symbol 0 ras impls xy); [|reflexivity]. cbn [pbind].
  destruct (mapM _ rbs); reflexivity.
Qed.
