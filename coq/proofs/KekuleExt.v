(* C05 extension round -- the search _kekule_component is NOT sound in general (witness), what is proved about every form
   it yields, the carbon hydrogen theorem. *)
From Coq Require Import ZArith List Bool Lia.
From Model Require Import PyBase Graph Kekule.
From Proofs Require Import KekuleProofs.
Import ListNotations.
Open Scope Z_scope.

(* ------------------------------------------------------------------------------------------------
   1. form_sound at work.  (Until fix ad376fe of /repo the search was unsound: a pyrrole-type atom with three skeleton
      neighbours next to the start atom was visited twice and inserted the closing bond twice.)
   ------------------------------------------------------------------------------------------------ *)
(* (the witness of the former kekule_component_sound_refuted, fixed in /repo by ad376fe, is kept as a regression input of the check) *)

(* the specification is satisfiable by the search: the forms of benzene, and of the pyrrole skeleton, are sound *)
Theorem form_sound_examples :
  match kekule_component (ring_adj 6) [] 0 [] 7 10 1000 with
  | Ok (ys, _, _) => forallb (form_sound (ring_adj 6) [] []) ys && (2 <=? List.length ys)%nat | Err _ => false end = true /\
  match kekule_component (ring_adj 5) [1] 1 [] 7 10 1000 with
  | Ok (ys, _, _) => forallb (form_sound (ring_adj 5) [1] []) ys && (1 <=? List.length ys)%nat | Err _ => false end = true /\
  rings_wf (ring_adj 6) [] [] = true /\ rings_wf (ring_adj 5) [1] [] = true.
Proof. vm_compute. repeat split; reflexivity. Qed.

(* ------------------------------------------------------------------------------------------------
   2. what IS proved about every form the search yields (kekule_component_sound_partial): it has one entry per skeleton
      bond of the component, every entry is a skeleton bond (atom - previous atom adjacent in `rings`) of order 1 or 2, and
      no order-2 entry touches a double_bonded atom.  Missing for soundness (and false without a further hypothesis, see 1):
      the entries are pairwise different bonds, every plain ring atom gets exactly one and every pyrrole-type atom at most
      one order-2 entry.
   ------------------------------------------------------------------------------------------------ *)
Section Partial.
Variables (rings : adjl) (db dbp : list Z).
Hypothesis Hsub : forall x, zmem x dbp = true -> zmem x db = true.

Definition ok_bond (a p o : Z) : Prop :=
  zmem a (al_get rings p) = true /\ (o = 1 \/ (o = 2 /\ zmem a dbp = false /\ zmem p dbp = false)).
Definition ok_item2 (x : kitem) : Prop := let '(n, f, o, _) := x in ok_bond n f o.
Definition ok_entry2 (x : kentry) : Prop := let '(a, p, o) := x in ok_bond a p o.
Definition ok_form2 (size : Z) (y : list kentry) : Prop := Forall ok_entry2 y /\ Z.of_nat (List.length y) = size.
Definition k_inv2 (size : Z) (s : kstate) : Prop :=
  Forall (Forall ok_item2) (k_stack s) /\ Forall ok_entry2 (k_path s) /\ Forall (ok_form2 size) (k_buffer s).

Lemma notdbp x : indb db x = false -> zmem x dbp = false.
Proof. unfold indb. intros H. destruct (zmem x dbp) eqn:E; auto. apply Hsub in E. congruence. Qed.

Lemma dbp_empty : nonempty db = false -> forall x, zmem x dbp = false.
Proof. intros H x. destruct db; [|discriminate]. destruct (zmem x dbp) eqn:E; auto. apply Hsub in E. discriminate. Qed.

Lemma cut_path_inv2 stack path p : cut_path stack path = Ok p -> Forall ok_entry2 path -> Forall ok_entry2 p.
Proof.
  unfold cut_path. intros E H. destruct stack as [|top rest]; [injection E as E; subst; exact H|].
  destruct (pop_last top) as [[[[[a b] c] [k|]] r]|]; try discriminate; injection E as E; subst; auto using firstn_Forall.
Qed.

Lemma backtrack_inv2 rest path st p : backtrack rest path = Ok (st, p) ->
  Forall (Forall ok_item2) rest -> Forall ok_entry2 path -> Forall (Forall ok_item2) st /\ Forall ok_entry2 p.
Proof.
  unfold backtrack. intros E R H. destruct (cut_path rest path) eqn:C; [|discriminate]. injection E as E1 E2. subst.
  split; [exact R | eapply cut_path_inv2; eauto].
Qed.

Lemma remove_kitem_inv2 x : forall l l', remove_kitem x l = Some l' -> Forall ok_item2 l -> Forall ok_item2 l'.
Proof.
  induction l as [|y r IH]; intros l' E H; simpl in E; [discriminate|]. inversion H; subst.
  destruct (kitem_eqb x y); [injection E as E; subst; assumption|].
  destruct (remove_kitem x r) eqn:R; [|discriminate]. injection E as E. subst. constructor; auto.
Qed.

Definition adj_to (atom : Z) (n : Z) : Prop := zmem n (al_get rings atom) = true.

Lemma do_closures_inv2 atom : forall cl top path top' path', do_closures atom cl top path = Ok (top', path') ->
  Forall (adj_to atom) cl -> Forall ok_item2 top -> Forall ok_entry2 path -> Forall ok_item2 top' /\ Forall ok_entry2 path'.
Proof.
  induction cl as [|c r IH]; intros top path top' path' E A T P; simpl in E.
  - injection E as E1 E2. subst. auto.
  - inversion A; subst. destruct (remove_kitem (atom, c, 1, None) top) eqn:R; [|discriminate].
    eapply IH; eauto using remove_kitem_inv2.
    apply Forall_app. split; [exact P|]. constructor; [|constructor]. simpl. split; [assumption | left; reflexivity].
Qed.

Lemma soft_closures_inv2 atom : forall cl top path top' path', soft_closures atom cl top path = (top', path') ->
  Forall (adj_to atom) cl -> Forall ok_item2 top -> Forall ok_entry2 path -> Forall ok_item2 top' /\ Forall ok_entry2 path'.
Proof.
  induction cl as [|c r IH]; intros top path top' path' E A T P; simpl in E.
  - injection E as E1 E2. subst. auto.
  - inversion A; subst. destruct (remove_kitem (atom, c, 1, None) top) eqn:R; [|eapply IH; eauto].
    eapply IH; eauto using remove_kitem_inv2.
    apply Forall_app. split; [exact P|]. constructor; [|constructor]. simpl. split; [assumption | left; reflexivity].
Qed.

Ltac ok2 :=
  repeat match goal with
  | |- _ /\ _ => split
  | |- Forall _ (_ ++ _) => apply Forall_app; split
  | |- Forall _ (_ :: _) => constructor
  | |- Forall _ [] => constructor
  | |- ok_item2 _ => simpl; unfold ok_bond
  | |- ok_entry2 _ => simpl; unfold ok_bond
  | |- zmem _ (al_get rings _) = true => assumption
  | |- 1 = 1 \/ _ => left; reflexivity
  | |- 2 = 1 \/ _ => right
  | |- 2 = 2 => reflexivity
  | |- zmem _ dbp = false => first [assumption | apply notdbp; assumption]
  | _ => assumption
  end.

Lemma grow_inv2 pyr top rest path atom bond cl fs st p :
  grow db pyr top rest path atom bond cl fs = Ok (st, p) ->
  Forall (adj_to atom) cl -> Forall (adj_to atom) fs ->
  Forall ok_item2 top -> Forall (Forall ok_item2) rest -> Forall ok_entry2 path ->
  Forall (Forall ok_item2) st /\ Forall ok_entry2 p.
Proof.
  unfold grow. intros E ACL AFS T R P.
  destruct ((bond =? 2) || indb db atom) eqn:C0.
  - destruct (do_closures atom cl top path) as [[top1 path1]|] eqn:D; [|simpl in E; discriminate E].
    injection E as E1 E2. subst. destruct (do_closures_inv2 _ _ _ _ _ _ D ACL T P) as [T1 P1].
    ok2. clear - AFS. induction fs; simpl; constructor; inversion AFS; subst; auto.
    simpl. unfold ok_bond. split; [assumption | left; reflexivity].
  - apply orb_false_elim in C0. destruct C0 as [_ NA].
    destruct fs as [|n1 [|n2 [|n3 fs]]].
    + destruct cl as [|c0 cl0]; [injection E as E1 E2; subst; ok2|].
      destruct (inpyr pyr atom); [|eapply backtrack_inv2; eauto].
      destruct (soft_closures atom (c0 :: cl0) top path) as [top1 path1] eqn:SC. injection E as E1 E2. subst.
      destruct (soft_closures_inv2 _ _ _ _ _ _ SC ACL T P). ok2.
    + inversion AFS as [|? ? A1 _]; subst. unfold adj_to in A1.
      destruct (indb db n1) eqn:D1.
      * destruct (inpyr pyr atom); [injection E as E1 E2; subst; ok2 | eapply backtrack_inv2; eauto].
      * destruct (inpyr pyr atom); [injection E as E1 E2; subst; ok2|].
        destruct cl as [|c cl']; [injection E as E1 E2; subst; ok2|].
        inversion ACL as [|? ? AC _]; subst. unfold adj_to in AC.
        destruct (remove_kitem _ _) eqn:Rm; [|simpl in E; discriminate E].
        injection E as E1 E2. subst. split.
        -- constructor; [|exact R]. eapply remove_kitem_inv2; [exact Rm|]. ok2.
        -- ok2.
    + inversion AFS as [|? ? A1 AFS']; subst. inversion AFS' as [|? ? A2 _]; subst. unfold adj_to in A1, A2.
      destruct (indb db n1) eqn:D1.
      * destruct (indb db n2) eqn:D2.
        -- destruct (inpyr pyr atom); [injection E as E1 E2; subst; ok2 | eapply backtrack_inv2; eauto].
        -- destruct (inpyr pyr atom); injection E as E1 E2; subst; ok2.
      * destruct (indb db n2) eqn:D2.
        -- destruct (inpyr pyr atom); injection E as E1 E2; subst; ok2.
        -- destruct (inpyr pyr atom); injection E as E1 E2; subst; ok2.
    + simpl in E. discriminate E.
Qed.

Lemma scan_nbrs_mem start atom prev path lp cl fs :
  scan_nbrs rings start atom prev path = (lp, cl, fs) ->
  (lp = 0 \/ adj_to atom lp) /\ Forall (adj_to atom) cl /\ Forall (adj_to atom) fs.
Proof.
  unfold scan_nbrs, adj_to. generalize (al_get rings atom) as L. intros L.
  assert (G : forall (l : list Z) acc, (forall x, In x l -> In x L) ->
     (let '(lp0, cl0, fs0) := acc in (lp0 = 0 \/ In lp0 L) /\ Forall (fun x => In x L) cl0 /\ Forall (fun x => In x L) fs0) ->
     let '(lp1, cl1, fs1) := fold_left (fun acc nx => let '(lp, cl, fs) := acc in
                           if nx =? prev then acc
                           else if nx =? start then (nx, cl, fs)
                           else if in_path nx path then (lp, cl ++ [nx], fs)
                           else (lp, cl, fs ++ [nx])) l acc in
     (lp1 = 0 \/ In lp1 L) /\ Forall (fun x => In x L) cl1 /\ Forall (fun x => In x L) fs1).
  { induction l as [|x r IH]; intros [[lp0 cl0] fs0] Hl Hacc; simpl; [exact Hacc|].
    apply IH; [intros y Hy; apply Hl; right; exact Hy|].
    destruct Hacc as [H1 [H2 H3]]. assert (Hx : In x L) by (apply Hl; left; reflexivity).
    destruct (x =? prev); [repeat split; assumption|].
    destruct (x =? start); [repeat split; auto|].
    destruct (in_path x path); repeat split; auto; apply Forall_app; split; auto. }
  intros E. specialize (G L (0, [], []) (fun x H => H)). rewrite E in G.
  destruct G as [G1 [G2 G3]]; [repeat split; auto|].
  repeat split.
  - destruct G1 as [G1|G1]; [left; exact G1 | right; apply zmem_In; exact G1].
  - revert G2. apply Forall_impl. intros a Ha. apply zmem_In. exact Ha.
  - revert G3. apply Forall_impl. intros a Ha. apply zmem_In. exact Ha.
Qed.

Lemma pop_last_Forall2 {A : Type} (P : A -> Prop) l x r : pop_last l = Some (x, r) -> Forall P l -> P x /\ Forall P r.
Proof.
  unfold pop_last. intros E H. apply Forall_rev in H. destruct (rev l) as [|y t]; [discriminate|].
  injection E as E1 E2. subst. inversion H; subst. split; [assumption | apply Forall_rev; assumption].
Qed.

Lemma kstep_inv2 pyr start size s s' ys :
  kstep rings db pyr start size s = Ok (s', ys) -> k_inv2 size s -> k_inv2 size s' /\ Forall (ok_form2 size) ys.
Proof.
  unfold kstep, k_inv2. intros E [S [P B]].
  destruct (k_stack s) as [|top0 rest] eqn:KS.
  - injection E as E1 E2. subst. rewrite KS. repeat split; auto.
  - inversion S as [|? ? T0 R]; subst.
    destruct (pop_last top0) as [[[[[atom prev] bond] c] top]|] eqn:PL; [|discriminate].
    destruct (pop_last_Forall2 ok_item2 _ _ _ PL T0) as [OB T]. simpl in OB.
    assert (P' : Forall ok_entry2 (k_path s ++ [(atom, prev, bond)])) by (apply Forall_app; split; [exact P | constructor; [exact OB | constructor]]).
    set (path := k_path s ++ [(atom, prev, bond)]) in *.
    destruct (Z.of_nat (List.length path) =? size) eqn:SZ.
    + apply Z.eqb_eq in SZ. assert (F : ok_form2 size path) by (split; assumption).
      assert (BA : Forall (ok_form2 size) (k_buffer s ++ [path])) by (apply Forall_app; split; auto).
      destruct (nonempty pyr && negb (k_bsize s =? 0));
        [destruct (2 <=? countb (fun n => gsum n path =? 2) pyr); [destruct (Z.of_nat (List.length (k_buffer s)) =? k_bsize s)|]|];
        cbv beta iota zeta in E; destruct (cut_path rest path) eqn:C; try (simpl in E; discriminate E);
        injection E as E1 E2; subst; simpl; repeat split; auto; try (eapply cut_path_inv2; eauto).
    + destruct (negb (atom =? start)).
      * destruct (scan_nbrs rings start atom prev path) as [[lp cl] fs] eqn:SN. cbv beta iota zeta in E.
        destruct (scan_nbrs_mem _ _ _ _ _ _ _ SN) as [ALP [ACL AFS]].
        assert (G : forall top' bond' st p, Forall ok_item2 top' ->
                    grow db pyr top' rest path atom bond' cl fs = Ok (st, p) -> Forall (Forall ok_item2) st /\ Forall ok_entry2 p).
        { intros top' bond' st p T' Gr. eapply grow_inv2; eauto. }
        assert (BT : forall st p, backtrack rest path = Ok (st, p) -> Forall (Forall ok_item2) st /\ Forall ok_entry2 p).
        { intros st p Bt. eapply backtrack_inv2; eauto. }
        destruct (negb (lp =? 0)) eqn:LP0.
        -- assert (ALP' : zmem lp (al_get rings atom) = true).
           { destruct ALP as [Z0|A]; [subst lp; discriminate LP0 | exact A]. }
           assert (TL1 : Forall ok_item2 ((lp, atom, 1, None) :: top)).
           { constructor; [|exact T]. simpl. split; [exact ALP' | left; reflexivity]. }
           assert (TL2 : nonempty db = false -> Forall ok_item2 ((lp, atom, 2, None) :: top)).
           { intros NE. constructor; [|exact T]. simpl. split; [exact ALP'|]. right. repeat split; apply dbp_empty; exact NE. }
           destruct (nonempty db) eqn:NE;
           repeat match type of E with
           | (if ?c then _ else _) = _ => destruct c
           end;
           cbv beta iota zeta in E;
           match type of E with
           | context [grow db pyr ?t rest path atom ?bb cl fs] =>
               destruct (grow db pyr t rest path atom bb cl fs) as [[st p]|] eqn:Gr; [|simpl in E; discriminate E];
               injection E as E1 E2; subst; simpl;
               first [assert (GG := G _ _ _ _ TL1 Gr) | assert (GG := G _ _ _ _ (TL2 eq_refl) Gr)]; destruct GG; repeat split; auto
           | context [backtrack rest path] =>
               destruct (backtrack rest path) as [[st p]|] eqn:Bt; [|simpl in E; discriminate E];
               injection E as E1 E2; subst; simpl; destruct (BT _ _ eq_refl); repeat split; auto
           end.
        -- destruct (grow db pyr top rest path atom bond cl fs) as [[st p]|] eqn:Gr; [|simpl in E; discriminate E].
           injection E as E1 E2. subst. simpl. destruct (G _ _ _ _ T Gr). repeat split; auto.
      * injection E as E1 E2. subst. simpl. repeat split; auto.
Qed.

Lemma kloop_inv2 pyr start size : forall fuel maxy s acc ys r c,
  kloop rings db pyr start size fuel maxy s acc = Ok (ys, r, c) ->
  k_inv2 size s -> Forall (ok_form2 size) acc -> Forall (ok_form2 size) ys.
Proof.
  induction fuel as [|f IH]; intros maxy s acc ys r c E I A; simpl in E.
  - destruct (maxy <=? List.length acc)%nat; [injection E as E1 E2 E3; subst; apply firstn_Forall; exact A|].
    destruct (k_stack s); [|discriminate].
    destruct (k_never s); injection E as E1 E2 E3; subst; auto.
    apply firstn_Forall. apply Forall_app. split; [exact A | apply I].
  - destruct (maxy <=? List.length acc)%nat; [injection E as E1 E2 E3; subst; apply firstn_Forall; exact A|].
    destruct (k_stack s) eqn:KS.
    + destruct (k_never s); injection E as E1 E2 E3; subst; auto.
      apply firstn_Forall. apply Forall_app. split; [exact A | apply I].
    + destruct (kstep rings db pyr start size s) as [[s' ys']|] eqn:K; [|discriminate].
      destruct (kstep_inv2 _ _ _ _ _ _ K I) as [I' Y].
      eapply IH; eauto. apply Forall_app. split; assumption.
Qed.
End Partial.

Theorem kekule_component_sound_partial : forall rings db db_start pyr bs maxy fuel ys r c,
  kekule_component rings db db_start pyr bs maxy fuel = Ok (ys, r, c) ->
  Forall (ok_form2 rings db (Z.of_nat (fold_right (fun nl s => (List.length (snd nl) + s)%nat) O rings) / 2)) ys.
Proof.
  intros rings db db_start pyr bs maxy fuel ys r c E. unfold kekule_component in E.
  set (size := Z.of_nat (fold_right (fun nl s => (List.length (snd nl) + s)%nat) O rings) / 2) in *.
  assert (RUN : forall db' dbp start bond all_nbrs, (forall x, zmem x dbp = true -> zmem x db' = true) ->
     (bond = 1 \/ (bond = 2 /\ dbp = [])) ->
     match al_get rings start with
     | [] => Err StopIteration
     | n0 :: more =>
         kloop rings db' pyr start size fuel maxy
           (mkK (if all_nbrs : bool then rev (map (fun nx => [((nx, start, bond, Some 0) : kitem)]) (n0 :: more))
                 else [[((n0, start, bond, Some 0) : kitem)]]) [] [] bs true) []
     end = Ok (ys, r, c) -> Forall (ok_form2 rings dbp size) ys).
  { intros db' dbp start bond all_nbrs Hsub OB R. destruct (al_get rings start) as [|n0 more] eqn:AG; [discriminate|].
    assert (IT : forall nx, In nx (n0 :: more) -> ok_item2 rings dbp ((nx, start, bond, Some 0) : kitem)).
    { intros nx Hin. simpl. unfold ok_bond. split; [rewrite AG; apply zmem_In; exact Hin|].
      destruct OB as [OB|[OB DE]]; [left; exact OB | right; subst dbp; repeat split; auto]. }
    eapply (kloop_inv2 rings db' dbp Hsub); [exact R| |constructor]. unfold k_inv2. cbn [k_stack k_path k_buffer]. repeat split; try constructor.
    destruct all_nbrs; cbv beta iota.
    - apply Forall_rev. clear - IT.
      assert (H : forall l, (forall nx, In nx l -> In nx (n0 :: more)) ->
                 Forall (Forall (ok_item2 rings dbp)) (map (fun nx => [((nx, start, bond, Some 0) : kitem)]) l)).
      { induction l as [|x l IH]; intros Hl; simpl; constructor.
        - constructor; [apply IT; apply Hl; left; reflexivity | constructor].
        - apply IH. intros nx Hn. apply Hl. right. exact Hn. }
      apply (H (n0 :: more)). auto.
    - constructor; [|constructor]. constructor; [apply IT; left; reflexivity | constructor]. }
  destruct db as [|d0 db].
  - destruct (find_start rings pyr true) as [z|]; [exact (RUN [] [] z 1 true (fun x H => H) (or_introl eq_refl) E)|].
    destruct (find_start rings pyr false) as [z|]; [exact (RUN [] [] z 1 true (fun x H => H) (or_introl eq_refl) E)|].
    destruct rings as [|nl rr]; [discriminate E|].
    refine (RUN [fst nl] [] (fst nl) 2 true _ (or_intror (conj eq_refl eq_refl)) E). intros x H. discriminate H.
  - exact (RUN (d0 :: db) (d0 :: db) db_start 1 false (fun x H => H) (or_introl eq_refl) E).
Qed.

(* read out: for any yielded form, any entry (a, p, o) *)
Corollary kekule_component_entries : forall rings db db_start pyr bs maxy fuel ys r c y a p o,
  kekule_component rings db db_start pyr bs maxy fuel = Ok (ys, r, c) -> In y ys -> In (a, p, o) y ->
  zmem a (al_get rings p) = true /\ (o = 1 \/ o = 2) /\ (o = 2 -> zmem a db = false /\ zmem p db = false).
Proof.
  intros rings db db_start pyr bs maxy fuel ys r c y a p o E Hy He.
  pose proof (kekule_component_sound_partial _ _ _ _ _ _ _ _ _ _ E) as F.
  rewrite Forall_forall in F. destruct (F _ Hy) as [Fy _]. rewrite Forall_forall in Fy.
  specialize (Fy _ He). simpl in Fy. destruct Fy as [M O]. split; [exact M|]. split.
  - destruct O as [O|[O _]]; [left | right]; exact O.
  - intros O2. destruct O as [O|[_ [A B]]]; [lia | auto].
Qed.
