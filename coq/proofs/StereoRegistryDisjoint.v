(* C12 extension: the registered (stereogenic) cumulene paths of a well-formed molecule are pairwise atom-disjoint, and their
   ends are terminals of the double-bond graph (after fix 2e29c31 an end atom carries no second double bond).
   Consequence: registry entries of different paths never share a key (C10 relies on it). *)
From Coq Require Import ZArith List Bool Lia Permutation.
From Model Require Import PyBase Graph Stereo StereoRegistry.
From Proofs Require Import StereoRegistryProofs.
Import ListNotations.
Open Scope Z_scope.

(* ---------- well-formed molecules ---------- *)
Lemma nodup_z_NoDup l : nodup_z l = true -> NoDup l.
Proof.
  induction l as [|x l IH]; cbn; [constructor|]. intros H. apply andb_prop in H. destruct H as [H1 H2].
  constructor; [|apply IH; exact H2]. intros Hin. apply zmem_In in Hin. rewrite Hin in H1. discriminate.
Qed.

Lemma zget_In {V} (d : list (Z * V)) k v : zget d k = Some v -> In (k, v) d.
Proof.
  induction d as [|[k' v'] d IH]; cbn; [discriminate|]. destruct (Z.eqb_spec k k') as [->|H].
  - intros E. injection E as <-. left. reflexivity.
  - intros E. right. apply IH. exact E.
Qed.

Lemma In_zget_NoDup {V} (d : list (Z * V)) k v : NoDup (keys d) -> In (k, v) d -> zget d k = Some v.
Proof.
  induction d as [|[k' v'] d IH]; cbn; [intros _ []|]. intros Hn [E|Hin].
  - injection E as -> ->. rewrite Z.eqb_refl. reflexivity.
  - inversion Hn as [|? ? Hk Hd]; subst. destruct (Z.eqb_spec k k') as [->|H].
    + exfalso. apply Hk. unfold keys. apply in_map_iff. exists (k', v). split; [reflexivity | exact Hin].
    + apply IH; assumption.
Qed.

Lemma wf_parts g : wf_mol g = true ->
  NoDup (ids g) /\
  forall n l, In (n, l) (m_adj g) -> NoDup (keys l) /\
    forall m b, In (m, b) l -> m <> n /\ match bond_of g m n with Some b' => bond_eqb b b' = true | None => False end.
Proof.
  unfold wf_mol. intros H. apply andb_prop in H. destruct H as [H H3]. apply andb_prop in H. destruct H as [_ H2].
  split; [apply nodup_z_NoDup; exact H2|]. intros n l Hin. rewrite forallb_forall in H3. specialize (H3 (n, l) Hin). cbn [fst snd] in H3.
  apply andb_prop in H3. destruct H3 as [Hd Hf]. split; [apply nodup_z_NoDup; exact Hd|].
  intros m b Hm. rewrite forallb_forall in Hf. specialize (Hf (m, b) Hm). cbn [fst snd] in Hf.
  apply andb_prop in Hf. destruct Hf as [Hf Hb]. apply andb_prop in Hf. destruct Hf as [Hne _].
  split; [apply negb_true_iff, Z.eqb_neq in Hne; exact Hne|]. destruct (bond_of g m n); [exact Hb | discriminate].
Qed.

Lemma nbrs_entry g n m b : In (m, b) (nbrs g n) -> In (n, nbrs g n) (m_adj g).
Proof. unfold nbrs. destruct (zget (m_adj g) n) as [l|] eqn:E; [intros _; apply zget_In; exact E | intros []]. Qed.

Lemma wf_nbr_NoDup g n : wf_mol g = true -> NoDup (nbr_ids g n).
Proof.
  intros Hwf. destruct (wf_parts g Hwf) as [_ H]. unfold nbr_ids. destruct (nbrs g n) as [|[m b] l] eqn:E; [constructor|].
  assert (Hin : In (m, b) (nbrs g n)) by (rewrite E; left; reflexivity). rewrite <- E.
  apply (H n (nbrs g n) (nbrs_entry g n m b Hin)).
Qed.

Lemma wf_sym g n m b : wf_mol g = true -> In (m, b) (nbrs g n) ->
  m <> n /\ exists b', In (n, b') (nbrs g m) /\ b_ord b' = b_ord b.
Proof.
  intros Hwf Hin. destruct (wf_parts g Hwf) as [_ H]. destruct (H n (nbrs g n) (nbrs_entry g n m b Hin)) as [_ H2].
  destruct (H2 m b Hin) as [Hne Hb]. split; [exact Hne|]. unfold bond_of in Hb.
  destruct (zget (nbrs g m) n) as [b'|] eqn:E; [|contradiction]. exists b'. split; [apply zget_In; exact E|].
  unfold bond_eqb in Hb. apply andb_prop in Hb. destruct Hb as [Hb _]. apply Z.eqb_eq in Hb. symmetry. exact Hb.
Qed.

(* ---------- consecutive triples of a path ---------- *)
Fixpoint triples (p : list Z) : list (list Z) :=
  match p with
  | x :: ((y :: ((z :: _) as r2)) as r) => [x; y; z] :: triples r
  | _ => []
  end.

Lemma triples_cons3 x y z r : triples (x :: y :: z :: r) = [x; y; z] :: triples (y :: z :: r).
Proof. reflexivity. Qed.

Lemma triples_snoc l a b c : triples (((l ++ [a]) ++ [b]) ++ [c]) = triples ((l ++ [a]) ++ [b]) ++ [[a; b; c]].
Proof.
  induction l as [|x l IH]; [reflexivity|].
  destruct l as [|y l]; [reflexivity|]. destruct l as [|z l].
  - reflexivity.
  - change ((((x :: y :: z :: l) ++ [a]) ++ [b]) ++ [c]) with (x :: y :: z :: (((l ++ [a]) ++ [b]) ++ [c])).
    change (((x :: y :: z :: l) ++ [a]) ++ [b]) with (x :: y :: z :: ((l ++ [a]) ++ [b])).
    rewrite !triples_cons3.
    change (y :: z :: ((l ++ [a]) ++ [b]) ++ [c]) with ((((y :: z :: l) ++ [a]) ++ [b]) ++ [c]).
    rewrite IH. reflexivity.
Qed.

Lemma triples_pairs p a v c : In [a; v; c] (triples p) -> In [a; v] (pairs p) /\ In [v; c] (pairs p).
Proof.
  induction p as [|x p IH]; [intros []|]. destruct p as [|y p]; [intros []|]. destruct p as [|z p]; [intros []|].
  rewrite triples_cons3. rewrite (pairs_cons2 x y (z :: p)). intros [E|H].
  - injection E as -> -> ->. split; [left; reflexivity | right; rewrite pairs_cons2; left; reflexivity].
  - destruct (IH H) as [H1 H2]. split; right; assumption.
Qed.

Lemma pairs_atoms p x y : In [x; y] (pairs p) -> In x p /\ In y p.
Proof.
  induction p as [|a p IH]; [intros []|]. destruct p as [|b p]; [intros []|]. rewrite pairs_cons2. intros [E|H].
  - injection E as -> ->. split; [left; reflexivity | right; left; reflexivity].
  - destruct (IH H) as [H1 H2]. split; right; assumption.
Qed.

Lemma triples_atoms p a v c : In [a; v; c] (triples p) -> In a p /\ In v p /\ In c p.
Proof.
  intros H. destruct (triples_pairs p a v c H) as [H1 H2].
  destruct (pairs_atoms p a v H1) as [Ha Hv]. destruct (pairs_atoms p v c H2) as [_ Hc]. tauto.
Qed.

(* a pair of a path with at least three atoms is the beginning or the end of a triple *)
Lemma pairs_in_triples p x y : (3 <= List.length p)%nat -> In [x; y] (pairs p) ->
  (exists c, In [x; y; c] (triples p)) \/ (exists a, In [a; x; y] (triples p)).
Proof.
  induction p as [|a p IH]; [cbn; lia|]. destruct p as [|b p]; [cbn; lia|]. destruct p as [|c p]; [cbn; lia|].
  intros _. rewrite pairs_cons2, triples_cons3. intros [E|H].
  - injection E as -> ->. left. exists c. left. reflexivity.
  - destruct p as [|d p].
    + cbn in H. destruct H as [E|[]]. injection E as -> ->. right. exists a. left. reflexivity.
    + destruct (IH ltac:(cbn; lia) H) as [[c' Hc]|[a' Ha]]; [left; exists c' | right; exists a']; right; assumption.
Qed.

(* an atom of a path is its first atom, its last atom, or the middle of a triple *)
Lemma path_cases p v : In v p -> v = first_z p \/ v = last_z p \/ exists a c, In [a; v; c] (triples p).
Proof.
  induction p as [|x p IH]; [intros []|]. intros [->|H]; [left; reflexivity|].
  destruct p as [|y p]; [destruct H|]. destruct p as [|z p].
  - destruct H as [->|[]]. right. left. reflexivity.
  - destruct (IH H) as [E|[E|(a & c & E)]].
    + cbn in E. subst v. right. right. exists x, z. left. reflexivity.
    + right. left. exact E.
    + right. right. exists a, c. rewrite triples_cons3. right. exact E.
Qed.

Lemma two_elems (l : list Z) a c u : NoDup l -> (List.length l <= 2)%nat -> In a l -> In c l -> a <> c -> In u l -> u = a \/ u = c.
Proof.
  intros Hn Hl Ha Hc Hac Hu. destruct l as [|x [|y [|z l]]]; cbn in Hl; try lia; cbn in Ha, Hc, Hu.
  - destruct Ha.
  - destruct Ha as [<-|[]], Hc as [<-|[]]. congruence.
  - destruct Ha as [<-|[<-|[]]], Hc as [<-|[<-|[]]], Hu as [<-|[<-|[]]]; tauto.
Qed.

(* ---------- ordered pairs ---------- *)
Lemma FOP_app {A} (R : A -> A -> Prop) l l' :
  ForallOrdPairs R l -> ForallOrdPairs R l' -> (forall x y, In x l -> In y l' -> R x y) -> ForallOrdPairs R (l ++ l').
Proof.
  intros H H' Hc. induction H as [|a l Ha Hl IH]; [exact H'|]. cbn. constructor.
  - apply Forall_app. split; [exact Ha|]. apply Forall_forall. intros y Hy. apply Hc; [left; reflexivity | exact Hy].
  - apply IH. intros x y Hx Hy. apply Hc; [right; exact Hx | exact Hy].
Qed.

Lemma FOP_all {A} (R : A -> A -> Prop) l : (forall x y, In x l -> R x y) -> ForallOrdPairs R l.
Proof.
  induction l as [|a l IH]; intros H; constructor.
  - apply Forall_forall. intros y _. apply H. left. reflexivity.
  - apply IH. intros x y Hx. apply H. right. exact Hx.
Qed.

(* ====================================================================================================== *)
Section Disjoint.
  Variable g : mol.
  Hypothesis Hwf : wf_mol g = true.
  Variable adj0 : adjT.
  Hypothesis adj0_bonds : forall x y, In y (aget adj0 x) -> exists b, In (y, b) (nbrs g x) /\ b_ord b = 2.

  (* a set of atoms that contains every atom doubly bonded to one of its members *)
  Definition closedP (P : Z -> Prop) : Prop := forall v u b, P v -> In (v, b) (nbrs g u) -> b_ord b = 2 -> P u.
  Definition closed (p : list Z) : Prop := closedP (fun v => In v p).

  Definition tri_ok (w : list Z) : Prop := forall a v c, In [a; v; c] (triples w) -> a <> c /\ zlen (nbrs g v) <= 2.

  Lemma chain_pull P w : closedP P -> chain adj0 w -> forall v, In v w -> P v -> P (first_z w).
  Proof.
    intros HP. induction w as [|x w IH]; [intros _ v []|]. intros Hc v Hv Pv. cbn [first_z hd].
    destruct Hv as [->|Hv]; [exact Pv|]. destruct w as [|y w]; [destruct Hv|].
    assert (Hc' : chain adj0 (y :: w)). { intros a b Hab. apply Hc. rewrite pairs_cons2. right. exact Hab. }
    specialize (IH Hc' v Hv Pv). cbn [first_z hd] in IH.
    destruct (adj0_bonds x y) as (b & Hb & Ho); [apply Hc; rewrite pairs_cons2; left; reflexivity|].
    apply (HP y x b IH Hb Ho).
  Qed.

  (* a proper piece of a cut chain is never closed *)
  Lemma piece_not_closed w q : chain adj0 w -> tri_ok w -> (3 <= List.length w)%nat -> In q (pairs w) -> closed q -> False.
  Proof.
    intros Hc Ht Hl Hq Hcl. destruct (pairs_len2 w q Hq) as (x & y & ->).
    destruct (pairs_in_triples w x y Hl Hq) as [[c H]|[a H]].
    - destruct (Ht x y c H) as [Hxc _]. destruct (triples_pairs w x y c H) as [_ Hyc].
      destruct (adj0_bonds y c (Hc y c Hyc)) as (b & Hb & Ho).
      destruct (wf_sym g y c b Hwf Hb) as [Hcy (b' & Hb' & Ho')].
      assert (Hin : In c [x; y]). { apply (Hcl y c b'); [right; left; reflexivity | exact Hb' | congruence]. }
      cbn in Hin. destruct Hin as [E|[E|[]]]; congruence.
    - destruct (Ht a x y H) as [Hay _]. destruct (triples_pairs w a x y H) as [Hax _].
      destruct (adj0_bonds a x (Hc a x Hax)) as (b & Hb & Ho).
      destruct (wf_sym g a x b Hwf Hb) as [Hxa _].
      assert (Hin : In a [x; y]). { apply (Hcl x a b); [left; reflexivity | exact Hb | exact Ho]. }
      cbn in Hin. destruct Hin as [E|[E|[]]]; congruence.
  Qed.

  Variable T0 : list Z.

  (* the inner loop: the final walk path w *)
  Lemma walk_full : forall fuel adj terms n m rest adj' terms' out,
    walk fuel g adj terms n m (m :: n :: rest) = Ok (adj', terms', out) ->
    sub_adj adj adj0 -> NoDup terms ->
    chain adj0 (rev (m :: n :: rest)) -> tri_ok (rev (m :: n :: rest)) -> (forall v, In v (n :: rest) -> ~ In v terms) ->
    exists w, (out = [w] \/ (out = pairs w /\ (3 <= List.length w)%nat)) /\ chain adj0 w /\ tri_ok w /\
              first_z w = first_z (rev (m :: n :: rest)) /\ (forall v, In v w -> ~ In v terms') /\
              sub_adj adj' adj0 /\ NoDup terms' /\ incl terms' terms.
  Proof.
    induction fuel as [|k IH]; intros adj terms n m rest adj' terms' out Hw Hs Hn Hc Ht Hv; cbn [walk] in Hw.
    - destruct (zmem m terms) eqn:Em; [|discriminate].
      destruct (aget adj m) as [|x0 rest0] eqn:Ea; [discriminate|]. injection Hw as <- <- <-.
      exists (rev (m :: n :: rest)). split; [left; reflexivity|]. split; [exact Hc|]. split; [exact Ht|]. split; [reflexivity|].
      split; [|split; [|split]].
      + intros v Hin. apply in_rev in Hin. destruct Hin as [<-|Hin].
        * clear -Hn. induction terms as [|t terms IH]; [intros []|]. inversion Hn as [|? ? Hnt Hn']; subst. cbn [remove1].
          destruct (Z.eqb_spec t m) as [->|Hne]; [exact Hnt|]. intros [E|Hin]; [congruence | apply IH; assumption].
        * intros H. apply (Hv v Hin). apply (remove1_incl m terms). exact H.
      + apply sub_adj_aset; [exact Hs|]. intros x Hx. rewrite Ea. right. exact Hx.
      + clear -Hn. induction terms as [|t terms IH]; [constructor|]. inversion Hn as [|? ? Hnt Hn']; subst. cbn [remove1].
        destruct (t =? m); [exact Hn'|]. constructor; [|apply IH; exact Hn']. intros H. apply Hnt. apply (remove1_incl m terms). exact H.
      + apply remove1_incl.
    - destruct (zmem m terms) eqn:Em.
      + destruct (aget adj m) as [|x0 rest0] eqn:Ea; [discriminate|]. injection Hw as <- <- <-.
        exists (rev (m :: n :: rest)). split; [left; reflexivity|]. split; [exact Hc|]. split; [exact Ht|]. split; [reflexivity|].
        split; [|split; [|split]].
        * intros v Hin. apply in_rev in Hin. destruct Hin as [<-|Hin].
          -- clear -Hn. induction terms as [|t terms IH]; [intros []|]. inversion Hn as [|? ? Hnt Hn']; subst. cbn [remove1].
             destruct (Z.eqb_spec t m) as [->|Hne]; [exact Hnt|]. intros [E|Hin]; [congruence | apply IH; assumption].
          -- intros H. apply (Hv v Hin). apply (remove1_incl m terms). exact H.
        * apply sub_adj_aset; [exact Hs|]. intros x Hx. rewrite Ea. right. exact Hx.
        * clear -Hn. induction terms as [|t terms IH]; [constructor|]. inversion Hn as [|? ? Hnt Hn']; subst. cbn [remove1].
          destruct (t =? m); [exact Hn'|]. constructor; [|apply IH; exact Hn']. intros H. apply Hnt. apply (remove1_incl m terms). exact H.
        * apply remove1_incl.
      + assert (Hm : ~ In m terms). { intros H. apply zmem_In in H. congruence. }
        destruct (2 <? zlen (nbrs g m)) eqn:E2.
        * injection Hw as <- <- <-. exists (rev (m :: n :: rest)).
          split.
          { destruct rest as [|r0 rest]; [left; reflexivity|]. right. split; [reflexivity|].
            rewrite rev_length. cbn. lia. }
          split; [exact Hc|]. split; [exact Ht|]. split; [reflexivity|]. split; [|split; [exact Hs | split; [exact Hn | apply incl_refl]]].
          intros v Hin. apply in_rev in Hin. destruct Hin as [<-|Hin]; [exact Hm | apply Hv; exact Hin].
        * destruct (zdiscard n (aget adj m)) as [|m' rest0] eqn:Ed; [discriminate|].
          assert (Hm' : In m' (zdiscard n (aget adj m))) by (rewrite Ed; left; reflexivity).
          assert (Hm'a : In m' (aget adj m)) by (apply (zdiscard_In n); exact Hm').
          assert (Hm'n : m' <> n).
          { unfold zdiscard in Hm'. apply filter_In in Hm'. destruct Hm' as [_ H]. apply negb_true_iff, Z.eqb_neq in H. exact H. }
          assert (Hc' : chain adj0 (rev (m' :: m :: n :: rest))).
          { change (rev (m' :: m :: n :: rest)) with ((rev (n :: rest) ++ [m]) ++ [m']).
            intros x y Hxy. rewrite pairs_snoc in Hxy. apply in_app_or in Hxy. destruct Hxy as [Hxy|[E|[]]].
            - apply Hc. exact Hxy.
            - injection E as <- <-. apply Hs. exact Hm'a. }
          assert (Ht' : tri_ok (rev (m' :: m :: n :: rest))).
          { change (rev (m' :: m :: n :: rest)) with (((rev rest ++ [n]) ++ [m]) ++ [m']).
            intros a v c H. rewrite triples_snoc in H. apply in_app_or in H. destruct H as [H|[E|[]]].
            - apply Ht. exact H.
            - injection E as <- <- <-. split; [congruence|]. apply Z.ltb_ge in E2. exact E2. }
          specialize (IH (aset adj m rest0) terms m m' (n :: rest) adj' terms' out Hw).
          destruct IH as (w & W1 & W2 & W3 & W4 & W5 & W6 & W7 & W8); [| exact Hn | exact Hc' | exact Ht' | |].
          { apply sub_adj_aset; [exact Hs|]. intros x Hx. apply (zdiscard_In n). rewrite Ed. right. exact Hx. }
          { intros v [<-|Hin]; [exact Hm | apply Hv; exact Hin]. }
          exists w. split; [exact W1|]. split; [exact W2|]. split; [exact W3|]. split; [|tauto].
          rewrite W4. change (rev (m' :: m :: n :: rest)) with (rev (m :: n :: rest) ++ [m']). apply first_z_snoc.
          cbn [rev]. intros E. apply app_eq_nil in E. destruct E as [_ E]. discriminate.
  Qed.

  Definition R (p q : list Z) : Prop := closed p -> forall v, In v p -> In v q -> False.

  Lemma cum_loop_disj : forall fuel adj terms acc res,
    cum_loop fuel g adj terms acc = Ok res -> sub_adj adj adj0 -> NoDup terms ->
    (forall p v, In p acc -> In v p -> ~ In v terms) -> ForallOrdPairs R acc ->
    (forall p, In p acc -> chain adj0 p /\ tri_ok p) ->
    ForallOrdPairs R res /\ (forall p, In p res -> chain adj0 p /\ tri_ok p).
  Proof.
    induction fuel as [|k IH]; intros adj terms acc res Hl Hs Hn Hj Hf Hp; destruct terms as [|n terms']; cbn [cum_loop] in Hl.
    - injection Hl as <-. split; assumption.
    - discriminate.
    - injection Hl as <-. split; assumption.
    - destruct (aget adj n) as [|m rest0] eqn:Ea; [discriminate|].
      destruct (walk (S (List.length (m_atoms g))) g (aset adj n rest0) terms' n m [m; n]) as [[[adj' terms''] out]|e] eqn:Ew;
        [|discriminate].
      inversion Hn as [|? ? Hnn Hn']; subst.
      assert (Hm : In m (aget adj0 n)). { apply Hs. rewrite Ea. left. reflexivity. }
      destruct (walk_full _ _ _ _ _ [] _ _ _ Ew) as (w & W1 & W2 & W3 & W4 & W5 & W6 & W7 & W8).
      + apply sub_adj_aset; [exact Hs|]. intros x Hx. rewrite Ea. right. exact Hx.
      + exact Hn'.
      + intros x y Hxy. cbn in Hxy. destruct Hxy as [E|[]]. injection E as <- <-. exact Hm.
      + intros a v c [].
      + intros v [<-|[]]. exact Hnn.
      + cbn in W4.
        assert (Hout : forall q v, In q out -> In v q -> In v w).
        { intros q v Hq Hv. destruct W1 as [->|[-> _]].
          - destruct Hq as [<-|[]]. exact Hv.
          - destruct (pairs_len2 w q Hq) as (x & y & ->). destruct (pairs_atoms w x y Hq) as [Hx Hy].
            destruct Hv as [<-|[<-|[]]]; assumption. }
        apply (IH adj' terms'' (acc ++ out) res Hl W6 W7).
        * intros p v Hpin Hv. apply in_app_or in Hpin. destruct Hpin as [Hpin|Hpin].
          -- intros H. apply (Hj p v Hpin Hv). right. apply W8. exact H.
          -- apply W5. apply (Hout p v Hpin Hv).
        * apply FOP_app; [exact Hf | |].
          -- destruct W1 as [->|[-> Hl3]]; [repeat constructor|].
             apply FOP_all. intros x y Hx Hcl. exfalso. apply (piece_not_closed w x W2 W3 Hl3 Hx Hcl).
          -- intros p q Hpin Hq Hcl v Hvp Hvq.
             assert (Hnp : In n p). { rewrite <- W4. apply (chain_pull (fun v => In v p) w Hcl W2 v (Hout q v Hq Hvq) Hvp). }
             apply (Hj p n Hpin Hnp). left. reflexivity.
        * intros p Hpin. apply in_app_or in Hpin. destruct Hpin as [Hpin|Hpin]; [apply Hp; exact Hpin|].
          destruct W1 as [->|[-> _]].
          -- destruct Hpin as [<-|[]]. split; assumption.
          -- destruct (pairs_len2 w p Hpin) as (x & y & ->). split.
             ++ intros a b Hab. cbn in Hab. destruct Hab as [E|[]]. injection E as <- <-. apply W2. exact Hpin.
             ++ intros a v c [].
  Qed.
End Disjoint.

(* ====================================================================================================== *)
Section Registered.
  Variable fs fd : Z -> bool.
  Variable g : mol.
  Hypothesis Hwf : wf_mol g = true.

  Lemma adj0_bonds_real x y : In y (aget (dbl_adj fd g) x) -> exists b, In (y, b) (nbrs g x) /\ b_ord b = 2.
  Proof. intros H. apply (dbl_adj_In fd g x y H). Qed.

  Lemma end_more_double_false t k u b : end_more_double g t k = false -> In (u, b) (nbrs g t) -> b_ord b = 2 -> u = k.
  Proof.
    unfold end_more_double. intros H Hin Ho. destruct (Z.eq_dec u k) as [E|E]; [exact E|].
    assert (Hex : existsb (fun mb => negb (fst mb =? k) && (b_ord (snd mb) =? 2)) (nbrs g t) = true).
    { apply existsb_exists. exists (u, b). split; [exact Hin|]. cbn [fst snd]. apply Z.eqb_neq in E. rewrite E, Ho. reflexivity. }
    congruence.
  Qed.

  Lemma last_z_rev p t r : rev p = t :: r -> last_z p = t /\ In t p.
  Proof.
    intros H. assert (E : p = rev r ++ [t]). { rewrite <- (rev_involutive p), H. reflexivity. }
    subst p. split; [apply last_z_snoc | apply in_or_app; right; left; reflexivity].
  Qed.

  (* a registered path is closed: no atom outside the path is doubly bonded to an atom of the path *)
  Lemma sg_closed ps p e : In (p, e) (sg_cumulenes_of fs g ps) -> chain (dbl_adj fd g) p -> tri_ok g p -> closed g p.
  Proof.
    intros Hin Hc Ht. destruct e as [[[n0 n1] n2] n3].
    destruct (sg_cum_spec fs g ps p n0 n1 n2 n3 Hin) as (_ & t1 & x1 & r & t2 & y1 & r' & Ep & Er & _ & _ & D1 & D2 & _).
    intros v u b Hv Hb Ho. cbn beta in *.
    destruct (wf_sym g u v b Hwf Hb) as [Hvu (b' & Hb' & Ho')]. rewrite Ho in Ho'.
    destruct (last_z_rev p t2 (y1 :: r') Er) as [El Hl].
    destruct (path_cases p v Hv) as [E|[E|(a & c & E)]].
    - rewrite Ep in E. cbn in E. subst v. rewrite (end_more_double_false t1 x1 u b' D1 Hb' Ho'). rewrite Ep. right. left. reflexivity.
    - rewrite El in E. subst v. rewrite (end_more_double_false t2 y1 u b' D2 Hb' Ho').
      apply in_rev. rewrite Er. right. left. reflexivity.
    - destruct (Ht a v c E) as [Hac Hz]. destruct (triples_pairs p a v c E) as [Hav Hvc]. destruct (triples_atoms p a v c E) as (Ha & _ & Hcp).
      destruct (adj0_bonds_real v c (Hc v c Hvc)) as (bc & Hbc & _).
      destruct (adj0_bonds_real a v (Hc a v Hav)) as (ba & Hba & _).
      destruct (wf_sym g a v ba Hwf Hba) as [_ (ba' & Hba' & _)].
      assert (Hu : u = a \/ u = c).
      { apply (two_elems (nbr_ids g v) a c u).
        - apply wf_nbr_NoDup. exact Hwf.
        - unfold nbr_ids, keys, zlen in *. rewrite map_length. lia.
        - unfold nbr_ids, keys. apply in_map_iff. exists (a, ba'). split; [reflexivity | exact Hba'].
        - unfold nbr_ids, keys. apply in_map_iff. exists (c, bc). split; [reflexivity | exact Hbc].
        - exact Hac.
        - unfold nbr_ids, keys. apply in_map_iff. exists (u, b'). split; [reflexivity | exact Hb']. }
      destruct Hu as [->| ->]; assumption.
  Qed.

  Lemma terminals_NoDup : NoDup (terminals_of (dbl_adj fd g)).
  Proof.
    assert (Hk : NoDup (keys (dbl_adj fd g))).
    { destruct (wf_parts g Hwf) as [Hid _]. unfold ids, keys in Hid. unfold dbl_adj, keys.
      induction (m_atoms g) as [|[n a] l IH]; cbn [flat_map map fst snd]; [constructor|].
      cbn [map fst] in Hid. inversion Hid as [|? ? Hn Hl]; subst.
      destruct (fd (a_num a)); cbn [app map fst]; [|apply IH; exact Hl].
      constructor; [|apply IH; exact Hl]. intros H. apply Hn. clear -H.
      induction l as [|[n' a'] l IH]; cbn [flat_map map fst snd] in *; [destruct H|].
      destruct (fd (a_num a')); cbn [app map fst In] in H; [destruct H as [<-|H]; [left; reflexivity | right; apply IH; exact H] | right; apply IH; exact H]. }
    unfold terminals_of. revert Hk. unfold keys. induction (dbl_adj fd g) as [|[k v] l IH]; cbn [filter map fst snd]; [constructor|].
    intros Hk. inversion Hk as [|? ? Hn Hl]; subst. destruct (zlen v =? 1); cbn [map fst]; [|apply IH; exact Hl].
    constructor; [|apply IH; exact Hl]. intros H. apply Hn. clear -H.
    induction l as [|[k' v'] l IH]; cbn [filter map fst snd] in *; [destruct H|].
    destruct (zlen v' =? 1); cbn [map fst In] in H; [destruct H as [<-|H]; [left; reflexivity | right; apply IH; exact H] | right; apply IH; exact H].
  Qed.

  (* all paths of `cumulenes`: an earlier closed path shares no atom with a later path *)
  Lemma cumulenes_disj ps : cumulenes fd g = Ok ps ->
    ForallOrdPairs (R g) ps /\ (forall p, In p ps -> chain (dbl_adj fd g) p /\ tri_ok g p).
  Proof.
    unfold cumulenes. intros H.
    apply (cum_loop_disj g Hwf (dbl_adj fd g) adj0_bonds_real _ _ _ _ _ H);
      [apply sub_adj_refl | apply terminals_NoDup | intros ? ? [] | constructor | intros ? []].
  Qed.

  Lemma sg_cum_entry_shape p : sg_cum_entry fs g p = [] \/ exists e, sg_cum_entry fs g p = [(p, e)].
  Proof.
    unfold sg_cum_entry. destruct p as [|t1 [|n1 r]]; try (left; reflexivity).
    destruct (rev (t1 :: n1 :: r)) as [|t2 [|m1 r2]]; try (left; reflexivity).
    destruct (end_blocked fs g t1 n1); [left; reflexivity|]. destruct (end_blocked fs g t2 m1); [left; reflexivity|].
    destruct (end_more_double g t1 n1 || end_more_double g t2 m1); [left; reflexivity|].
    destruct (end_crowded g t1 || end_crowded g t2); [left; reflexivity|].
    destruct (end_subst g t1 n1) as [|a ra]; [left; reflexivity|].
    destruct (end_subst g t2 m1) as [|c rc]; [left; reflexivity|]. right. eexists. reflexivity.
  Qed.

  (* THE THEOREM: two different entries of stereogenic_cumulenes share no atom *)
  Theorem sg_cumulenes_disjoint ps : cumulenes fd g = Ok ps ->
    ForallOrdPairs (fun e1 e2 => forall v, In v (fst e1) -> In v (fst e2) -> False) (sg_cumulenes_of fs g ps).
  Proof.
    intros H. destruct (cumulenes_disj ps H) as [Hf Hp].
    assert (Hcl : forall p e, In (p, e) (sg_cumulenes_of fs g ps) -> closed g p).
    { intros p e Hin. destruct (sg_cumulenes_of_len2 fs fd g ps (p, e) Hin) as [Hps _]. cbn [fst] in Hps.
      destruct (Hp p Hps) as [C T]. apply (sg_closed ps p e Hin C T). }
    assert (Hsub : forall l, incl l ps -> ForallOrdPairs (R g) l ->
              ForallOrdPairs (fun e1 e2 => forall v, In v (fst e1) -> In v (fst e2) -> False) (sg_cumulenes_of fs g l)).
    { intros l. induction l as [|p l IH]; intros Hi Hfl; [constructor|].
      inversion Hfl as [|? ? Ha Hl]; subst. unfold sg_cumulenes_of. cbn [flat_map]. fold (sg_cumulenes_of fs g l).
      assert (IHl : ForallOrdPairs (fun e1 e2 => forall v, In v (fst e1) -> In v (fst e2) -> False) (sg_cumulenes_of fs g l)).
      { apply IH; [intros x Hx; apply Hi; right; exact Hx | exact Hl]. }
      destruct (sg_cum_entry_shape p) as [->|[e Ee]]; [exact IHl|]. rewrite Ee. cbn [app]. constructor; [|exact IHl].
      apply Forall_forall. intros e2 He2 v Hv1 Hv2. cbn [fst] in Hv1.
      destruct (sg_cumulenes_of_len2 fs fd g l e2 He2) as [Hq _].
      rewrite Forall_forall in Ha. refine (Ha (fst e2) Hq _ v Hv1 Hv2).
      apply (Hcl p e). unfold sg_cumulenes_of. apply in_flat_map. exists p. split; [apply Hi; left; reflexivity|].
      rewrite Ee. left. reflexivity. }
    apply Hsub; [apply incl_refl | exact Hf].
  Qed.

  (* the ends of a registered path are terminals of the double-bond graph: with chain this makes the path a maximal chain *)
  Lemma end_is_terminal t k : In k (aget (dbl_adj fd g) t) -> end_more_double g t k = false -> In t (terminals_of (dbl_adj fd g)).
  Proof.
    intros Hk Hd. unfold aget in Hk. destruct (zget (dbl_adj fd g) t) as [l|] eqn:Ez; [|destruct Hk].
    pose proof (zget_In _ _ _ Ez) as Hin. unfold terminals_of. apply in_map_iff. exists (t, l). split; [reflexivity|].
    apply filter_In. split; [exact Hin|]. cbn [snd].
    assert (Hall : forall y, In y l -> y = k).
    { intros y Hy. destruct (adj0_bonds_real t y) as (b & Hb & Ho); [unfold aget; rewrite Ez; exact Hy|].
      apply (end_more_double_false t k y b Hd Hb Ho). }
    assert (Hnd : NoDup l).
    { unfold dbl_adj in Hin. apply in_flat_map in Hin. destruct Hin as ([n a] & _ & Hin). cbn [fst snd] in Hin.
      destruct (fd (a_num a)); [|destruct Hin]. destruct Hin as [E|[]]. injection E as -> <-.
      pose proof (wf_nbr_NoDup g t Hwf) as Hn. unfold nbr_ids, keys in Hn. clear -Hn.
      induction (nbrs g t) as [|[m b] r IH]; cbn [filter map fst snd] in *; [constructor|].
      inversion Hn as [|? ? Hm Hr]; subst.
      destruct ((b_ord b =? 2) && fd (anum g m)); cbn [map fst]; [|apply IH; exact Hr].
      constructor; [|apply IH; exact Hr]. intros H. apply Hm. clear -H.
      induction r as [|[m' b'] r IH]; cbn [filter map fst snd] in *; [destruct H|].
      destruct ((b_ord b' =? 2) && fd (anum g m')); cbn [map fst In] in H; [destruct H as [<-|H]; [left; reflexivity | right; apply IH; exact H] | right; apply IH; exact H]. }
    destruct l as [|y [|z l]].
    - destruct Hk.
    - reflexivity.
    - exfalso. inversion Hnd as [|? ? Hy _]; subst. apply Hy. left.
      rewrite (Hall y (or_introl eq_refl)), (Hall z (or_intror (or_introl eq_refl))). reflexivity.
  Qed.

  Theorem sg_ends_terminal ps p e : cumulenes fd g = Ok ps -> In (p, e) (sg_cumulenes_of fs g ps) ->
    In (first_z p) (terminals_of (dbl_adj fd g)) /\ In (last_z p) (terminals_of (dbl_adj fd g)).
  Proof.
    intros H Hin. destruct e as [[[n0 n1] n2] n3].
    destruct (sg_cum_spec fs g ps p n0 n1 n2 n3 Hin) as (Hps & t1 & x1 & r & t2 & y1 & r' & Ep & Er & _ & _ & D1 & D2 & _).
    destruct (cumulenes_chains fd g ps H p Hps) as (_ & C & _).
    split.
    - rewrite Ep. cbn [first_z hd]. apply (end_is_terminal t1 x1); [|exact D1]. apply C. rewrite Ep, pairs_cons2. left. reflexivity.
    - destruct (last_z_rev p t2 (y1 :: r') Er) as [-> _].
      apply (end_is_terminal t2 y1); [|exact D2].
      (* the last pair of p is [y1; t2]; the double-bond adjacency is symmetric in a well-formed molecule *)
      assert (Ep' : p = (rev r' ++ [y1]) ++ [t2]). { rewrite <- (rev_involutive p), Er. cbn [rev]. reflexivity. }
      assert (Hpair : In [y1; t2] (pairs p)). { rewrite Ep', pairs_snoc. apply in_or_app. right. left. reflexivity. }
      pose proof (C y1 t2 Hpair) as Hadj.
      destruct (dbl_adj_In fd g y1 t2 Hadj) as (Hfd2 & b & Hb & Ho).
      destruct (wf_sym g y1 t2 b Hwf Hb) as [_ (b' & Hb' & Ho')].
      (* y1 is a key of the adjacency (it has the neighbour t2), hence fd (anum g y1); t2 is an atom with fd *)
      unfold aget in Hadj. destruct (zget (dbl_adj fd g) y1) as [ly|] eqn:Ey; [|destruct Hadj].
      pose proof (zget_In _ _ _ Ey) as Hiny. unfold dbl_adj in Hiny. apply in_flat_map in Hiny.
      destruct Hiny as ([ny ay] & Hay & Hiny). cbn [fst snd] in Hiny. destruct (fd (a_num ay)) eqn:Fy; [|destruct Hiny].
      destruct Hiny as [E|[]]. injection E as -> _.
      destruct (wf_parts g Hwf) as [Hid _].
      assert (Hany : anum g y1 = a_num ay). { unfold anum, atom_of. rewrite (In_zget_NoDup (m_atoms g) y1 ay Hid Hay). reflexivity. }
      (* t2 is an atom: anum g t2 is the number of its entry *)
      assert (Ht2 : exists a2, In (t2, a2) (m_atoms g) /\ fd (a_num a2) = true).
      { unfold anum, atom_of in Hfd2. destruct (zget (m_atoms g) t2) as [a2|] eqn:E2.
        - exists a2. split; [apply zget_In; exact E2 | exact Hfd2].
        - (* not an atom: impossible in a well-formed molecule, t2 has neighbours *)
          exfalso. pose proof (nbrs_entry g t2 y1 b' Hb') as Hent.
          unfold wf_mol in Hwf. apply andb_prop in Hwf. destruct Hwf as [Hw _]. apply andb_prop in Hw. destruct Hw as [Hk _].
          assert (Hkeys : keys (m_atoms g) = keys (m_adj g)).
          { clear -Hk. revert Hk. generalize (keys (m_atoms g)) (keys (m_adj g)). intros l1. induction l1 as [|x l1 IH]; intros [|y l2]; cbn; try discriminate; [reflexivity|].
            intros H. apply andb_prop in H. destruct H as [H1 H2]. apply Z.eqb_eq in H1. subst. f_equal. apply IH. exact H2. }
          assert (Hin2 : In t2 (keys (m_atoms g))). { rewrite Hkeys. unfold keys. apply in_map_iff. exists (t2, nbrs g t2). split; [reflexivity | exact Hent]. }
          unfold keys in Hin2. apply in_map_iff in Hin2. destruct Hin2 as ([k a] & Ek & Hin2). cbn in Ek. subst k.
          rewrite (In_zget_NoDup (m_atoms g) t2 a Hid Hin2) in E2. discriminate. }
      destruct Ht2 as (a2 & Ha2 & F2).
      (* the entry of t2 in the adjacency *)
      assert (Hz : zget (dbl_adj fd g) t2 = Some (map fst (filter (fun mb => (b_ord (snd mb) =? 2) && fd (anum g (fst mb))) (nbrs g t2)))).
      { apply In_zget_NoDup.
        - pose proof terminals_NoDup as _. destruct (wf_parts g Hwf) as [Hid' _]. unfold ids, keys in Hid'. unfold dbl_adj, keys. clear -Hid'.
          induction (m_atoms g) as [|[n a] l IH]; cbn [flat_map map fst snd]; [constructor|].
          cbn [map fst] in Hid'. inversion Hid' as [|? ? Hn Hl]; subst.
          destruct (fd (a_num a)); cbn [app map fst]; [|apply IH; exact Hl].
          constructor; [|apply IH; exact Hl]. intros H. apply Hn. clear -H.
          induction l as [|[n' a'] l IH]; cbn [flat_map map fst snd] in *; [destruct H|].
          destruct (fd (a_num a')); cbn [app map fst In] in H; [destruct H as [<-|H]; [left; reflexivity | right; apply IH; exact H] | right; apply IH; exact H].
        - unfold dbl_adj. apply in_flat_map. exists (t2, a2). split; [exact Ha2|]. cbn [fst snd]. rewrite F2. left. reflexivity. }
      unfold aget. rewrite Hz. apply in_map_iff. exists (y1, b'). split; [reflexivity|]. apply filter_In. split; [exact Hb'|].
      cbn [fst snd]. rewrite Ho', Ho, Hany, Fy. reflexivity.
  Qed.
End Registered.

(* cis/trans terminals are the ends of a maximal even chain of double bonds -- IN FULL for well-formed molecules (after fix 2e29c31
   the cut pieces at hypervalent atoms are no longer registered: an end atom with a second double bond is skipped) *)
Theorem cis_trans_terminals_maximal fs fd g ps a b e : wf_mol g = true ->
  cumulenes fd g = Ok ps -> In ((a, b), e) (sg_cis_trans_of (sg_cumulenes_of fs g ps)) ->
  exists p, In p ps /\ odd_len p = false /\ chain (dbl_adj fd g) p /\ a = first_z p /\ b = last_z p /\
            In a (terminals_of (dbl_adj fd g)) /\ In b (terminals_of (dbl_adj fd g)).
Proof.
  intros Hwf Hc Hin. apply sg_cis_trans_sound in Hin. destruct Hin as (p & Hp & Ho & E). injection E as -> ->.
  destruct (sg_cumulenes_of_len2 fs fd g ps (p, e) Hp) as [Hps _]. cbn [fst] in Hps.
  destruct (cumulenes_chains fd g ps Hc p Hps) as (_ & C & _).
  destruct (sg_ends_terminal fs fd g Hwf ps p e Hc Hp) as [T1 T2].
  exists p. repeat split; assumption.
Qed.

(* non-vacuity: FC=CC=C=C(Cl)Br has two registered paths, a cis/trans bond (2,3) and an allene (4,5,6) *)
Definition ex_two : mol :=
  mkMol [(1, (mkAtom 9 None 0 false (Some 0) None)); (2, (mkAtom 6 None 0 false (Some 1) None)); (3, (mkAtom 6 None 0 false (Some 1) None));
         (4, (mkAtom 6 None 0 false (Some 1) None)); (5, (mkAtom 6 None 0 false (Some 0) None)); (6, (mkAtom 6 None 0 false (Some 0) None));
         (7, (mkAtom 17 None 0 false (Some 0) None)); (8, (mkAtom 35 None 0 false (Some 0) None))]
        [(1, [(2, (mkBond 1 None))]); (2, [(1, (mkBond 1 None)); (3, (mkBond 2 None))]); (3, [(2, (mkBond 2 None)); (4, (mkBond 1 None))]);
         (4, [(3, (mkBond 1 None)); (5, (mkBond 2 None))]); (5, [(4, (mkBond 2 None)); (6, (mkBond 2 None))]);
         (6, [(5, (mkBond 2 None)); (7, (mkBond 1 None)); (8, (mkBond 1 None))]); (7, [(6, (mkBond 1 None))]); (8, [(6, (mkBond 1 None))])].

Theorem disjoint_example :
  wf_mol ex_two = true /\ cumulenes el_double ex_two = Ok [[2; 3]; [4; 5; 6]] /\
  sg_cumulenes_of el_single ex_two [[2; 3]; [4; 5; 6]] = [([2; 3], (1, 4, None, None)); ([4; 5; 6], (3, 7, None, Some 8))] /\
  terminals_of (dbl_adj el_double ex_two) = [2; 3; 4; 6].
Proof. repeat split; vm_compute; reflexivity. Qed.
