(* C08 -- parser(tokens, False) on the tokens smarts_tokenize returns: the state invariant and totality proof of
   Proofs.ParserProofs (C03, which covers the tokens of smiles_tokenize only) redone for token lists that also hold query bond
   tokens: type 10 (list of orders) and type 12 (ring-marked QueryBond).  Every failure is IncorrectSmiles; the bonds of the
   result join atom positions and carry an int, an order list or a QueryBond. *)
From Coq Require Import ZArith List String Ascii Bool Lia.
From Model Require Import PyBase Tokenize Parser.
From Proofs Require Import TokenizeProofs.
Import ListNotations.
Open Scope Z_scope.

Definition GoodR {A} (P : A -> Prop) (r : pyres A) : Prop := match r with Ok a => P a | Err e => vee e = true end.

(* ------------------------------------------------------------------------------------------------ order (defaultdict(list)) *)
Definition olen (o : odict) (k : Z) : nat := List.length (od_get o k).

Lemma zget_od_upd o k f k' :
  zget (od_upd o k f) k' = if k' =? k then option_map f (zget o k) else zget o k'.
Proof.
  induction o as [|[k0 v] r IH]; cbn [od_upd zget].
  - destruct (k' =? k); reflexivity.
  - destruct (k =? k0) eqn:E.
    + apply Z.eqb_eq in E. subst k0. cbn [zget]. destruct (k' =? k) eqn:E2.
      * rewrite ?Z.eqb_refl. reflexivity.
      * reflexivity.
    + cbn [zget]. rewrite IH. destruct (k' =? k0) eqn:E2.
      * apply Z.eqb_eq in E2. subst k0. rewrite Z.eqb_sym in E. rewrite E. reflexivity.
      * destruct (k' =? k); reflexivity.
Qed.

Lemma zget_app {V} (a b : list (Z * V)) k :
  zget (a ++ b) k = match zget a k with Some v => Some v | None => zget b k end.
Proof.
  induction a as [|[k0 v] r IH]; cbn; [reflexivity|]. destruct (k =? k0); [reflexivity | exact IH].
Qed.

Lemma od_get_touch o k k' : od_get (od_touch o k) k' = od_get o k'.
Proof.
  unfold od_touch. destruct (zget o k) eqn:E; [reflexivity|].
  unfold od_get. rewrite zget_app. destruct (zget o k') eqn:E2; [reflexivity|].
  cbn. destruct (k' =? k); reflexivity.
Qed.

Lemma zget_touch_same o k : zget (od_touch o k) k = Some (od_get o k).
Proof.
  unfold od_touch, od_get. destruct (zget o k) eqn:E; [exact E|].
  rewrite zget_app, E. cbn. rewrite Z.eqb_refl. reflexivity.
Qed.

Lemma olen_touch o k k' : olen (od_touch o k) k' = olen o k'.
Proof. unfold olen. rewrite od_get_touch. reflexivity. Qed.

Lemma olen_append o k v k' : olen (od_append o k v) k' = if k' =? k then S (olen o k) else olen o k'.
Proof.
  unfold olen, od_append, od_get at 1. rewrite zget_od_upd. destruct (k' =? k) eqn:E.
  - apply Z.eqb_eq in E. subst k'. rewrite zget_touch_same. cbn. rewrite app_length. cbn. lia.
  - fold (od_get (od_touch o k) k'). rewrite od_get_touch. reflexivity.
Qed.

Lemma olen_append_le o k v k' : (olen o k' <= olen (od_append o k v) k')%nat.
Proof. rewrite olen_append. destruct (k' =? k) eqn:E; [apply Z.eqb_eq in E; subst; lia | lia]. Qed.

Lemma list_set_some {A} (l : list A) i v : (i < List.length l)%nat ->
  exists l', list_set l i v = Some l' /\ List.length l' = List.length l.
Proof.
  revert i. induction l as [|x r IH]; intros i H; cbn in H; [lia|].
  destruct i as [|i]; cbn.
  - eexists. split; reflexivity.
  - destruct (IH i) as [l' [H1 H2]]; [lia|]. rewrite H1. eexists. split; [reflexivity|]. cbn. rewrite H2. reflexivity.
Qed.

Lemma od_set_ok o k ind v : 0 <= ind < Z.of_nat (olen o k) ->
  exists o', od_set o k ind v = Ok o' /\ forall k', olen o' k' = olen o k'.
Proof.
  intros H. unfold od_set. destruct (ind <? 0) eqn:E; [apply Z.ltb_lt in E; lia|].
  destruct (list_set_some (od_get (od_touch o k) k) (Z.to_nat ind) v) as [l' [H1 H2]].
  { rewrite od_get_touch. unfold olen in H. lia. }
  rewrite H1. eexists. split; [reflexivity|]. intros k'.
  unfold olen, od_get at 1. rewrite zget_od_upd. destruct (k' =? k) eqn:E2.
  - apply Z.eqb_eq in E2. subst k'. rewrite zget_touch_same. cbn. rewrite H2, od_get_touch. reflexivity.
  - fold (od_get (od_touch o k) k'). rewrite od_get_touch. reflexivity.
Qed.

(* ------------------------------------------------------------------------------------------------ the invariant *)
(* the value of a bond token of smarts: an int (type 1), a list of orders (type 10), a QueryBond (type 12) *)
Definition is_int (p : payload) : Prop := (exists o, p = PInt o) \/ (exists l, p = PZs l) \/ (exists l r, p = PQB l r).
Definition bwf (n : Z) (b : Z * Z * payload) : Prop := let '(i, j, p) := b in 0 <= i < n /\ 0 <= j < n /\ is_int p.
(* `previous`: a bond token (1: int, 9: bool) or the dot *)
Definition prevwf (p : option token) : Prop :=
  match p with None => True | Some (ty, v) => (In ty [1; 10; 12] /\ is_int v) \/ (ty = 9 /\ exists b, v = PBool b) \/ ty = 4 end.
(* the bond stored with an open ring closure: never the dot *)
Definition obwf (p : option token) : Prop :=
  match p with None => True | Some (ty, v) => (In ty [1; 10; 12] /\ is_int v) \/ (ty = 9 /\ exists b, v = PBool b) end.
Definition cwf (n : Z) (o : odict) (c : Z * cyc) : Prop :=
  let '(_, (a, ob, ind)) := c in 0 <= a < n /\ 0 <= ind < Z.of_nat (olen o a) /\ obwf ob.

Record PI (s : pstate) : Prop := mkPI {
  pi_n : ps_n s = Z.of_nat (List.length (ps_atoms s));
  pi_t : List.length (ps_types s) = List.length (ps_atoms s);
  pi_pos : 0 < ps_n s;
  pi_last : 0 <= ps_last s < ps_n s;
  pi_bonds : Forall (bwf (ps_n s)) (ps_bonds s);
  pi_cyc : Forall (cwf (ps_n s) (ps_order s)) (ps_cycles s);
  pi_stack : Forall (fun x => 0 <= x < ps_n s) (ps_stack s);
  pi_prev : prevwf (ps_prev s) }.

Lemma bwf_mono n n' b : n <= n' -> bwf n b -> bwf n' b.
Proof. destruct b as [[i j] p]. unfold bwf. intros. intuition lia. Qed.

Lemma cwf_mono n n' o o' c : n <= n' -> (forall k, (olen o k <= olen o' k)%nat) -> cwf n o c -> cwf n' o' c.
Proof.
  destruct c as [k [[a ob] ind]]. unfold cwf. intros Hn Ho [H1 [H2 H3]]. specialize (Ho a). repeat split; try lia. exact H3.
Qed.

Lemma Forall_zdel {V} (P : Z * V -> Prop) d k : Forall P d -> Forall P (zdel d k).
Proof.
  induction d as [|[k0 v] r IH]; intros H; cbn; [constructor|]. inversion H; subst.
  destruct (k =? k0); [assumption | constructor; [assumption | apply IH; assumption]].
Qed.

Lemma zget_Forall {V} (P : Z * V -> Prop) d k v : Forall P d -> zget d k = Some v -> exists k0, P (k0, v).
Proof.
  induction d as [|[k0 v0] r IH]; intros H E; cbn in E; [discriminate|]. inversion H; subst.
  destruct (k =? k0); [inversion E; subst; eexists; eassumption | apply IH; assumption].
Qed.

Lemma type_at_ok s i : List.length (ps_types s) = List.length (ps_atoms s) -> ps_n s = Z.of_nat (List.length (ps_atoms s)) ->
  0 <= i < ps_n s -> exists t, type_at s i = Ok t.
Proof.
  intros Ht Hn Hi. unfold type_at. destruct (i <? 0) eqn:E; [apply Z.ltb_lt in E; lia|].
  destruct (nth_error (ps_types s) (Z.to_nat i)) eqn:E2; [eexists; reflexivity|].
  apply nth_error_None in E2. lia.
Qed.

Lemma arom_is_int x y : is_int (arom_or_single x y).
Proof. unfold arom_or_single. destruct (_ && _); left; eexists; reflexivity. Qed.

(* ------------------------------------------------------------------------------------------------ closing a ring closure *)
Lemma arom_at_ok s a : PI s -> 0 <= a < ps_n s -> exists tl ta, type_at s (ps_last s) = Ok tl /\ type_at s a = Ok ta /\
  arom_at s a = Ok (arom_or_single tl ta).
Proof.
  intros HP Ha. unfold arom_at.
  destruct (type_at_ok s (ps_last s) (pi_t s HP) (pi_n s HP) (pi_last s HP)) as [tl E1].
  destruct (type_at_ok s a (pi_t s HP) (pi_n s HP) Ha) as [ta E2]. exists tl, ta. rewrite E1, E2. repeat split.
Qed.

Lemma close_bond_good strong s a ob :
  PI s -> 0 <= a < ps_n s -> obwf ob ->
  (match ps_prev s with Some (pt, _) => pt <> 4 | None => True end) ->
  GoodR (fun r => is_int (fst (fst (fst r)))) (close_bond strong s a ob).
Proof.
  intros HP Ha Hob Hnd. pose proof (pi_prev s HP) as Hpv.
  destruct (arom_at_ok s a HP Ha) as [tl [ta [_ [_ EA]]]].
  unfold close_bond, ISm. rewrite EA.
  assert (N9 : forall t, In t [1; 10; 12] -> (t =? 9) = false) by (intros t [<-|[<-|[<-|[]]]]; reflexivity).
  Ltac cb_fin := cbn -[arom_or_single py_eq sb_set];
                 first [reflexivity | apply arom_is_int | assumption | (left; eexists; reflexivity)].
  destruct ob as [[obt obv]|]; destruct (ps_prev s) as [[bt b]|]; cbn [obwf prevwf] in *.
  - destruct Hob as [[Ho Hov] | [-> [ob' ->]]]; destruct Hpv as [[Hb Hbv] | [[-> [bb ->]] | ->]]; try contradiction;
      try rewrite (N9 _ Ho); try rewrite (N9 _ Hb); cbn -[py_eq sb_set arom_or_single];
      repeat match goal with
             | |- GoodR _ (if ?c then _ else _) => destruct c
             | |- GoodR _ (match (if ?c then _ else _) with _ => _ end) => destruct c
             end; cb_fin.
  - destruct Hob as [[Ho Hov] | [-> [ob' ->]]]; try rewrite (N9 _ Ho); cbn -[sb_set arom_or_single]; [destruct strong|]; cb_fin.
  - destruct Hpv as [[Hb Hbv] | [[-> [bb ->]] | ->]]; try contradiction; try rewrite (N9 _ Hb); cbn -[sb_set arom_or_single];
      [destruct strong|]; cb_fin.
  - cbn -[arom_or_single]. apply arom_is_int.
Qed.

(* ------------------------------------------------------------------------------------------------ one step *)
Lemma step_open strong s v : PI s -> GoodR PI (step strong s (2, v)).
Proof.
  intros HP. unfold step. cbn [Z.eqb Pos.eqb]. destruct HP as [h1 h2 h3 h4 h5 h6 h7 h8].
  destruct (ps_prev s) as [[pt pv]|] eqn:E.
  - destruct (pt =? 4); cbn; [|reflexivity]. constructor; cbn; try assumption; try exact I. constructor; assumption.
  - cbn. constructor; cbn; try assumption; try (rewrite E; exact I). constructor; assumption.
Qed.

Lemma step_close strong s v : PI s -> GoodR PI (step strong s (3, v)).
Proof.
  intros HP. unfold step. cbn [Z.eqb Pos.eqb]. destruct HP as [h1 h2 h3 h4 h5 h6 h7 h8].
  destruct (ps_prev s) as [[pt pv]|] eqn:E; [reflexivity|].
  destruct (ps_stack s) as [|x r] eqn:E2; [reflexivity|]. inversion h7; subst.
  cbn. constructor; cbn; try assumption. rewrite E. exact I.
Qed.

Lemma step_bond strong s ty v : In ty [1; 4; 9; 10; 12] -> prevwf (Some (ty, v)) -> PI s -> GoodR PI (step strong s (ty, v)).
Proof.
  intros Hty Hv HP. unfold step. destruct HP as [h1 h2 h3 h4 h5 h6 h7 h8].
  cbn in Hty. destruct Hty as [<- | [<- | [<- | [<- | [<- | []]]]]]; cbn -[prevwf];
    (destruct (ps_prev s); [reflexivity|]; destruct (ps_atoms s) eqn:Eat; [reflexivity|]; rewrite <- Eat in *; cbn -[prevwf];
     constructor; cbn -[prevwf]; assumption).
Qed.

Lemma step_closure strong s k : PI s -> GoodR PI (step strong s (6, PInt k)).
Proof.
  intros HP. unfold step. cbn [Z.eqb Pos.eqb zmem existsb orb].
  pose proof HP as HP'. destruct HP as [h1 h2 h3 h4 h5 h6 h7 h8].
  destruct (match ps_prev s with Some (pt, _) => pt =? 4 | None => false end) eqn:Edot; [reflexivity|].
  assert (Hnd : match ps_prev s with Some (pt, _) => pt <> 4 | None => True end).
  { destruct (ps_prev s) as [[pt pv]|]; [apply Z.eqb_neq; exact Edot | exact I]. }
  destruct (zget (ps_cycles s) k) as [[[a ob] ind]|] eqn:Ec.
  - (* closing *)
    destruct (zget_Forall _ _ _ _ h6 Ec) as [k0 [Ha [Hind Hob]]].
    pose proof (close_bond_good strong s a ob HP' Ha Hob Hnd) as G.
    destruct (close_bond strong s a ob) as [[[[b sb] lg] x]|e]; [|exact G]. cbn in G.
    destruct (od_set_ok (ps_order s) a ind (Some (ps_last s)) Hind) as [o1 [-> Ho1]].
    cbn. constructor; cbn; try assumption; try exact I.
    + apply Forall_app. split; [assumption|]. constructor; [|constructor]. unfold bwf. repeat split; try lia. exact G.
    + apply Forall_zdel. eapply Forall_impl; [|exact h6]. intros c Hc. eapply cwf_mono; [| |exact Hc]; [lia|].
      intros k'. rewrite <- Ho1. apply olen_append_le.
  - (* opening *)
    cbn. constructor; cbn; try assumption; try exact I.
    apply Forall_app. split.
    + eapply Forall_impl; [|exact h6]. intros c Hc. eapply cwf_mono; [| |exact Hc]; [lia|].
      intros k'. rewrite <- (olen_touch (ps_order s) (ps_last s) k') at 1. apply olen_append_le.
    + constructor; [|constructor]. unfold cwf. split; [exact h4|]. split.
      * rewrite olen_append, Z.eqb_refl. unfold olen. lia.
      * destruct (ps_prev s) as [[pt pv]|]; [|exact I]. cbn in h8 |- *.
        destruct h8 as [h8 | [h8 | h8]]; [left; exact h8 | right; exact h8 | subst pt; discriminate].
Qed.

(* the neighbour lists after linking the new atom *)
Lemma olen_link_le o last n k :
  (olen o k <= olen (od_append (od_append o last (Some n)) n (Some last)) k)%nat.
Proof. etransitivity; [apply (olen_append_le o last (Some n) k) | apply olen_append_le]. Qed.

Lemma step_atom strong s ty a : In ty [0; 8] -> PI s -> GoodR PI (step strong s (ty, PAtom a)).
Proof.
  intros Hty HP. pose proof HP as HP'. destruct HP as [h1 h2 h3 h4 h5 h6 h7 h8].
  assert (Hne : ps_atoms s <> []) by (intros E; rewrite E in h1; cbn in h1; lia).
  assert (Hbonds : forall bs, Forall (bwf (ps_n s + 1)) bs -> forall o, (forall k, (olen (ps_order s) k <= olen o k)%nat) ->
            forall sb pv,
            PI (mkP (ps_atoms s ++ [mkAt (at_el a) (at_iso a) (at_map a) (at_chg a) (at_h a) None]) (ps_types s ++ [ty]) bs o
                    (ps_n s + 1) (ps_n s) (ps_stack s) (ps_cycles s)
                    (match at_stereo a with Some x => ps_satoms s ++ [(ps_n s, x)] | None => ps_satoms s end) sb None pv)).
  { intros bs Hbs o Ho sb pv. constructor; cbn.
    - rewrite app_length. cbn. lia.
    - rewrite !app_length. cbn. lia.
    - lia.
    - lia.
    - exact Hbs.
    - eapply Forall_impl; [|exact h6]. intros c Hc. eapply cwf_mono; [| |exact Hc]; [lia | exact Ho].
    - eapply Forall_impl; [|exact h7]. cbn. intros; lia.
    - exact I. }
  assert (Hold : Forall (bwf (ps_n s + 1)) (ps_bonds s)).
  { eapply Forall_impl; [|exact h5]. intros b. apply bwf_mono. lia. }
  assert (Hnew : forall p, is_int p -> Forall (bwf (ps_n s + 1)) (ps_bonds s ++ [(ps_n s, ps_last s, p)])).
  { intros p Hp. apply Forall_app. split; [exact Hold|]. constructor; [|constructor]. unfold bwf. repeat split; try lia. exact Hp. }
  unfold step.
  assert (E1 : (ty =? 2) = false /\ (ty =? 3) = false /\ zmem ty [1; 4; 9; 10; 12] = false /\ (ty =? 6) = false).
  { cbn in Hty. destruct Hty as [<- | [<- | []]]; repeat split; reflexivity. }
  destruct E1 as [-> [-> [-> ->]]].
  destruct (ps_atoms s) as [|a0 ar] eqn:Eat; [contradiction|]. rewrite <- Eat in *.
  destruct (ps_prev s) as [[bt b]|] eqn:Epv.
  - cbn [prevwf] in h8. destruct h8 as [[Hbt Hbv] | [[-> [bb ->]] | ->]].
    + assert (Z9 : (bt =? 9) = false /\ zmem bt [1; 10; 12] = true) by (cbn in Hbt; destruct Hbt as [<-|[<-|[<-|[]]]]; split; reflexivity).
      destruct Z9 as [-> ->]. cbn. rewrite Eat. rewrite <- Eat. apply Hbonds; [apply Hnew; exact Hbv | intros k; apply olen_link_le].
    + cbn -[sb_set]. destruct (type_at_ok s (ps_last s) h2 h1 h4) as [tl ->]. cbn -[sb_set]. rewrite Eat. rewrite <- Eat.
      apply Hbonds; [apply Hnew; apply arom_is_int | intros k; apply olen_link_le].
    + cbn. rewrite Eat. rewrite <- Eat. apply Hbonds; [exact Hold | intros k; lia].
  - destruct (type_at_ok s (ps_last s) h2 h1 h4) as [tl ->]. cbn. rewrite Eat. rewrite <- Eat.
    apply Hbonds; [apply Hnew; apply arom_is_int | intros k; apply olen_link_le].
Qed.

(* shape of the tokens smarts_tokenize returns, with the atom dictionaries seen as PAtom: every atom has type 0; bonds (1) and
   closures (6) carry an int, order lists (10) a list, ring-marked bonds (12) a QueryBond, direction marks (9) a bool *)
Definition qwfb (t : token) : bool :=
  match snd t with
  | PAtom _ => fst t =? 0
  | PInt _ => zmem (fst t) [1; 6]
  | PBool _ => fst t =? 9
  | PNone => zmem (fst t) [2; 3; 4]
  | PZs _ => fst t =? 10
  | PQB _ _ => fst t =? 12
  | _ => false
  end.
Lemma qwfb_cases t : qwfb t = true ->
  (exists a, t = (0, PAtom a)) \/ (exists o, t = (1, PInt o)) \/ (exists k, t = (6, PInt k)) \/
  (exists b, t = (9, PBool b)) \/ t = (2, PNone) \/ t = (3, PNone) \/ t = (4, PNone) \/
  (exists l, t = (10, PZs l)) \/ (exists l r, t = (12, PQB l r)).
Proof.
  destruct t as [ty p]. destruct p; cbn [qwfb snd fst]; intros H; try discriminate.
  - zcontra; tauto.
  - zcontra; [right; left | right; right; left]; eexists; reflexivity.
  - zcontra. right; right; right; left. eexists; reflexivity.
  - zcontra. do 7 right. left. eexists; reflexivity.
  - zcontra. do 8 right. do 2 eexists; reflexivity.
  - left. zcontra. eexists; reflexivity.
Qed.

Lemma step_good strong s t : qwfb t = true -> PI s -> GoodR PI (step strong s t).
Proof.
  intros Ht HP. destruct (qwfb_cases t Ht) as [[a ->] | [[o ->] | [[k ->] | [[b ->] | [-> | [-> | [-> | [[l ->] | [l [r ->]]]]]]]]]].
  - apply step_atom; [cbn; tauto | exact HP].
  - apply step_bond; [cbn; tauto | left; split; [cbn; tauto | left; eexists; reflexivity] | exact HP].
  - apply step_closure; exact HP.
  - apply step_bond; [cbn; tauto | right; left; split; [reflexivity | eexists; reflexivity] | exact HP].
  - apply step_open; exact HP.
  - apply step_close; exact HP.
  - apply step_bond; [cbn; tauto | right; right; reflexivity | exact HP].
  - apply step_bond; [cbn; tauto | left; split; [cbn; tauto | right; left; eexists; reflexivity] | exact HP].
  - apply step_bond; [cbn; tauto | left; split; [cbn; tauto | right; right; do 2 eexists; reflexivity] | exact HP].
Qed.

Lemma loop_good strong ts : forall s, forallb qwfb ts = true -> PI s -> GoodR PI (loop strong s ts).
Proof.
  induction ts as [|t r IH]; intros s Hts HP; cbn [loop]; [exact HP|].
  cbn [forallb] in Hts. apply andb_prop in Hts. destruct Hts as [H1 H2].
  pose proof (step_good strong s t H1 HP) as G. destruct (step strong s t) as [s'|e]; [|exact G].
  apply IH; assumption.
Qed.

(* ------------------------------------------------------------------------------------------------ the whole parser *)
(* what the reader needs to know about a parsed record *)
Definition parsed_wf (p : parsed) : Prop :=
  p_atoms p <> [] /\ Forall (bwf (Z.of_nat (List.length (p_atoms p)))) (p_bonds p).

Lemma finish_good s : PI s -> GoodR parsed_wf (finish s).
Proof.
  intros HP. unfold finish, ISm. destruct (ps_stack s); [|reflexivity]. destruct (ps_cycles s); [|reflexivity].
  destruct (ps_prev s); [reflexivity|]. cbn. destruct HP as [h1 h2 h3 h4 h5 h6 h7 h8]. split; cbn.
  - intros E. rewrite E in h1. cbn in h1. lia.
  - rewrite <- h1. exact h5.
Qed.

(* the first atom: from the initial state, possibly after one '(' *)
Lemma first_atom strong ty a st : In ty [0; 8] -> st = [] \/ st = [0] ->
  GoodR PI (step strong (set_last_stack p_init 0 st) (ty, PAtom a)).
Proof.
  intros Hty Hst. unfold step.
  assert (E1 : (ty =? 2) = false /\ (ty =? 3) = false /\ zmem ty [1; 4; 9; 10; 12] = false /\ (ty =? 6) = false).
  { cbn in Hty. destruct Hty as [<- | [<- | []]]; repeat split; reflexivity. }
  destruct E1 as [-> [-> [-> ->]]]. cbn.
  constructor; cbn; try lia; try constructor.
  destruct Hst as [-> | ->]; [constructor | constructor; [lia | constructor]].
Qed.

(* parser(tokens, strong_cycle) on a NON-EMPTY list of smarts_tokenize tokens: a record or IncorrectSmiles *)
Theorem parse_good ts strong : forallb qwfb ts = true -> ts <> [] -> GoodR parsed_wf (parse ts strong).
Proof.
  intros Hts Hne. unfold parse, guard, ISm.
  destruct ts as [|[t1 v1] r]; [contradiction|].
  cbn [forallb] in Hts. apply andb_prop in Hts. destruct Hts as [H1 H2].
  assert (Loop : forall s, PI s -> forall r', forallb qwfb r' = true ->
            GoodR parsed_wf (match loop strong s r' with Err e => Err e | Ok s' => finish s' end)).
  { intros s HP r' Hr'. pose proof (loop_good strong r' s Hr' HP) as G.
    destruct (loop strong s r') as [s'|e]; [apply finish_good; exact G | exact G]. }
  destruct (qwfb_cases _ H1) as [[a E] | [[o E] | [[k E] | [[b E] | [E | [E | [E | [[l E] | [l [rr E]]]]]]]]]]; inversion E; subst; clear E;
    try (cbn [Z.eqb Pos.eqb zmem existsb orb]; reflexivity).
  - (* atom first *)
    assert (G : GoodR PI (step strong p_init (0, PAtom a))) by (apply (first_atom strong 0 a []); [cbn; tauto | left; reflexivity]).
    cbn [Z.eqb Pos.eqb zmem existsb orb]; cbn [loop].
    destruct (step strong p_init _) as [s1|e]; [apply Loop; assumption | exact G].
  - (* '(' first *)
    cbn [Z.eqb Pos.eqb].
    destruct r as [|[t2 v2] r2]; [reflexivity|].
    destruct (zmem t2 [0; 8]) eqn:Ez; [|reflexivity].
    cbn [forallb] in H2. apply andb_prop in H2. destruct H2 as [H2 H3].
    destruct (qwfb_cases _ H2) as [[a E] | [[o E] | [[k E] | [[b E] | [E | [E | [E | [[l E] | [l [rr E]]]]]]]]]]; inversion E; subst; clear E;
      try discriminate.
    cbn [loop]. change (step strong p_init (2, PNone)) with (Ok (set_last_stack p_init 0 [0])). cbn iota beta.
    pose proof (first_atom strong 0 a [0] ltac:(cbn; tauto) (or_intror eq_refl)) as G.
    destruct (step strong (set_last_stack p_init 0 [0]) (0, PAtom a)) as [s1|e]; [|exact G]. apply Loop; assumption.
Qed.
