(* C07 round 3: the control skeleton that coq/model/Iso.v copies by hand from chython/algorithms/isomorphism.py is REGENERATED from the
   source on every run (tools/gen_isoops.py -> Gen.IsoOps); here the hand-written model is shown to be the instance of a skeleton
   parametrised by the generated constants.  A source edit of an operator, a call direction, a filter argument, the scope test,
   the component split or a loop exit changes a generated constant and breaks the named theorem below. *)
From Coq Require Import ZArith List Bool Lia.
From Model Require Import PyBase Iso IsoStereo.
From Gen Require Import IsoOps.
Import ListNotations.
Local Open Scope Z_scope.

Definition cmp_eval (c : cmpop) (a b : nat) : bool :=
  match c with
  | CLt => (a <? b)%nat | CLe => (a <=? b)%nat | CGt => (b <? a)%nat | CGe => (b <=? a)%nat | CEq => (a =? b)%nat | CNe => negb (a =? b)%nat
  end.

(* `if searching_scope is not None:` (truthiness = false) versus `if searching_scope:` (truthiness = true) *)
Definition restrict_gen (truthiness : bool) (scope : option (list Z)) (cand : list Z) : option (list Z) :=
  match scope with
  | Some s => if truthiness && (match s with [] => true | _ => false end) then Some cand
              else match filter (fun x => zmem x s) cand with [] => None | c => Some c end
  | None => Some cand
  end.

Theorem restrict_generated : forall scope cand,
  restrict scope cand = restrict_gen (negb (gen_scope_truthiness_tests =? 0)%nat) scope cand.
Proof. intros [s|] cand; reflexivity. Qed.

Section Skeleton.
  Variables QA A QB B : Type.
  Variable amatch : QA -> A -> bool.
  Variable bmatch : QB -> B -> bool.

  (* `if not candidate: continue` / `break` in the two branches of Isomorphism._get_mapping *)
  Fixpoint single_gen (ex : loop_exit) (c : list (lentry QA QB)) (clo : closures_t QB) (o_atoms : list (Z * A)) (o_bonds : list (Z * list (Z * B)))
           (scope : option (list Z)) (tcomps : list (list Z)) : list mapping :=
    match tcomps with
    | [] => []
    | cand :: r =>
        match restrict scope cand with
        | None => match ex with LoopContinue => single_gen ex c clo o_atoms o_bonds scope r | LoopBreak => [] end
        | Some s => get_mapping amatch bmatch c clo o_atoms o_bonds s ++ single_gen ex c clo o_atoms o_bonds scope r
        end
    end.

  Fixpoint build_mappers_gen (ex : loop_exit) (clo : closures_t QB) (o_atoms : list (Z * A)) (o_bonds : list (Z * list (Z * B)))
           (scope : option (list Z)) (comps : list (list (lentry QA QB))) (cands : list (list Z)) : option (list (list mapping)) :=
    match comps, cands with
    | c :: cr, cand :: dr =>
        match restrict scope cand with
        | None => match ex with LoopBreak => None | LoopContinue => build_mappers_gen ex clo o_atoms o_bonds scope cr dr end
        | Some s => match build_mappers_gen ex clo o_atoms o_bonds scope cr dr with
                    | None => None
                    | Some ms => Some (get_mapping amatch bmatch c clo o_atoms o_bonds s :: ms)
                    end
        end
    | _, _ => Some []
    end.

  Definition iso_stream_gen (single_len : Z) (exits : list loop_exit) (comps : list (list (lentry QA QB))) (clo : closures_t QB)
             (o_atoms : list (Z * A)) (o_bonds : list (Z * list (Z * B))) (tcomps : list (list Z)) (scope : option (list Z)) : pyres (list mapping) :=
    match exits with
    | [e1; e2] =>
        if Z.of_nat (length comps) =? single_len then
          match comps with
          | c :: _ => Ok (single_gen e1 c clo o_atoms o_bonds scope tcomps)       (* components[0] *)
          | [] => Err IndexError
          end
        else Ok (flat_map (fun cands => match build_mappers_gen e2 clo o_atoms o_bonds scope comps cands with
                                        | None => []
                                        | Some mappers => map merge (lazy_product mappers)
                                        end) (permutations (length comps) tcomps))
    | _ => Err OtherError
    end.

  Lemma single_gen_continue c clo o_atoms o_bonds scope : forall tcomps,
    single_gen LoopContinue c clo o_atoms o_bonds scope tcomps =
    flat_map (fun cand => match restrict scope cand with None => [] | Some s => get_mapping amatch bmatch c clo o_atoms o_bonds s end) tcomps.
  Proof. induction tcomps as [|cand r IH]; [reflexivity|]. cbn. destruct (restrict scope cand); rewrite IH; reflexivity. Qed.

  Lemma build_mappers_gen_break clo o_atoms o_bonds scope : forall comps cands,
    build_mappers_gen LoopBreak clo o_atoms o_bonds scope comps cands = build_mappers QA A QB B amatch bmatch clo o_atoms o_bonds scope comps cands.
  Proof. induction comps as [|c cr IH]; intros [|cand dr]; try reflexivity. cbn. destruct (restrict scope cand); [rewrite IH|]; reflexivity. Qed.

  (* the component split and the two loop exits *)
  Theorem iso_stream_generated : forall comps clo o_atoms o_bonds tcomps scope,
    iso_stream amatch bmatch comps clo o_atoms o_bonds tcomps scope =
    iso_stream_gen gen_single_branch_len gen_empty_candidate_exits comps clo o_atoms o_bonds tcomps scope.
  Proof.
    intros comps clo o_atoms o_bonds tcomps scope. unfold iso_stream_gen, gen_single_branch_len, gen_empty_candidate_exits, iso_stream.
    destruct comps as [|c [|c2 r]].
    - cbn. f_equal.
    - cbn [length]. change (Z.of_nat 1 =? 1) with true. cbv iota. rewrite single_gen_continue. reflexivity.
    - destruct (Z.eqb_spec (Z.of_nat (length (c :: c2 :: r))) 1) as [E|_]; [cbn [length] in E; lia|].
      f_equal. apply flat_map_ext. intros cands. rewrite build_mappers_gen_break. reflexivity.
  Qed.

  (* operators *)
  Theorem is_substructure_generated : forall q_atoms q_bonds o_atoms o_bonds tcomps,
    is_substructure amatch bmatch q_atoms q_bonds o_atoms o_bonds tcomps =
    match mol_get_mapping amatch bmatch q_atoms q_bonds o_atoms o_bonds tcomps gen_sub_filter None with
    | Err e => Err e | Ok [] => Ok false | Ok (_ :: _) => Ok true
    end.
  Proof. reflexivity. Qed.

  Theorem is_equal_generated : forall q_atoms q_bonds o_atoms o_bonds tcomps,
    is_equal amatch bmatch q_atoms q_bonds o_atoms o_bonds tcomps =
    if cmp_eval gen_equal_guard (length q_atoms) (length o_atoms) then Ok false
    else match mol_get_mapping amatch bmatch q_atoms q_bonds o_atoms o_bonds tcomps gen_equal_filter None with
         | Err e => Err e | Ok [] => Ok false | Ok (_ :: _) => Ok true
         end.
  Proof. reflexivity. Qed.

  Theorem iso_lt_generated : forall q_atoms q_bonds o_atoms o_bonds tcomps,
    iso_lt amatch bmatch q_atoms q_bonds o_atoms o_bonds tcomps =
    if cmp_eval gen_lt_guard (length q_atoms) (length o_atoms) then Ok false
    else is_substructure amatch bmatch q_atoms q_bonds o_atoms o_bonds tcomps.
  Proof. reflexivity. Qed.
End Skeleton.

(* a > b is modelled (and run by the correspondence) as b < a, a >= b as b <= a: the generated guard of __gt__ is the mirror image of
   the one of __lt__ and the call directions are the ones the correspondence uses *)
Theorem gt_is_mirrored_lt : forall a b, cmp_eval gen_gt_guard a b = cmp_eval gen_lt_guard b a.
Proof. intros a b. reflexivity. Qed.
Theorem call_directions_generated :
  (gen_lt_swapped, gen_le_swapped, gen_gt_swapped, gen_ge_swapped) = (false, false, true, true) /\ (gen_scope_is_not_none_tests = 3)%nat.
Proof. split; reflexivity. Qed.

(* MoleculeIsomorphism.get_mapping(match_stereo=True): the search runs with `automorphism_filter or match_stereo` *)
Theorem match_stereo_search_filter_generated : forall (QA A QB B B' : Type) (amatch : QA -> A -> bool) (bmatch : QB -> B -> bool) (beq : B' -> B' -> bool)
    q_atoms q_bonds o_atoms o_bonds tcomps flt scope (oracle : list (mapping * ms_obs B')),
  get_mapping_match_stereo amatch bmatch beq q_atoms q_bonds o_atoms o_bonds tcomps flt scope oracle =
  match mol_get_mapping amatch bmatch q_atoms q_bonds o_atoms o_bonds tcomps (if gen_match_stereo_filter_or then flt || true else flt) scope with
  | Err e => Err e
  | Ok ms => match all_ok (map (oracle_get oracle) ms) with
             | Err e => Err e
             | Ok obs => match_stereo_stream beq flt obs
             end
  end.
Proof. intros. unfold gen_match_stereo_filter_or. rewrite orb_true_r. reflexivity. Qed.

(* _get_automorphism_mapping: `if len(atoms) == len(set(atoms.values())): return` and `if len(mappers) == 1:` *)
Theorem automorphism_guards_generated : forall (B : Type) (beq : B -> B -> bool) atoms (bonds : list (Z * list (Z * B))),
  get_automorphism_mapping beq atoms bonds =
  if cmp_eval gen_auto_unique_guard (length atoms) (length (zdedup (map snd atoms))) then Ok []
  else match compile_query atoms bonds with
       | Err e => Err e
       | Ok (comps, clo) =>
           let mappers := map (fun order => get_mapping Z.eqb beq order clo atoms bonds (map fst4 order)) comps in
           let nonid := filter (fun mp : mapping => existsb (fun kv => negb (fst kv =? snd kv)) mp) in
           if Z.of_nat (length mappers) =? gen_auto_single_len
           then match mappers with m :: _ => Ok (nonid m) | [] => Err IndexError end
           else Ok (nonid (map merge_copy (lazy_product mappers)))
       end.
Proof.
  intros B beq atoms bonds. unfold get_automorphism_mapping, gen_auto_unique_guard, gen_auto_single_len, cmp_eval.
  destruct (length atoms =? length (zdedup (map snd atoms)))%nat; [reflexivity|].
  destruct (compile_query atoms bonds) as [[comps clo]|]; [|reflexivity]. cbv zeta.
  destruct (map (fun order => get_mapping Z.eqb beq order clo atoms bonds (map fst4 order)) comps) as [|m [|m2 r]]; try reflexivity.
  destruct (Z.eqb_spec (Z.of_nat (length (m :: m2 :: r))) 1) as [E|_]; [cbn [length] in E; lia | reflexivity].
Qed.
