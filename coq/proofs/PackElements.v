(* C10: every element 1..118 with every tabulated isotope is within the atom limits of the pack format *)
From Coq Require Import ZArith List Bool Lia.
From Model Require Import PyBase Pack PackSpec.
From Gen Require Import Elements.
Import ListNotations.
Open Scope Z_scope.

Definition elem_iso_ok (e : elem) : bool :=
  (1 <=? e_num e) && (e_num e <=? 118) && iso_ok (e_num e) None && forallb (fun k => iso_ok (e_num e) (Some k)) (keys (e_dist e)).

Lemma elements_iso_sweep : forallb elem_iso_ok elements = true /\ length elements = 118%nat.
Proof. vm_compute. split; reflexivity. Qed.

Theorem tabulated_isotopes_ok e : In e elements ->
  1 <= e_num e <= 118 /\ iso_ok (e_num e) None = true /\ forall k, In k (keys (e_dist e)) -> iso_ok (e_num e) (Some k) = true.
Proof.
  intros H. destruct elements_iso_sweep as [S _]. rewrite forallb_forall in S. specialize (S e H). unfold elem_iso_ok in S.
  apply andb_true_iff in S. destruct S as [S S4]. apply andb_true_iff in S. destruct S as [S S3].
  apply andb_true_iff in S. destruct S as [S1 S2]. split; [lia|]. split; [exact S3|].
  rewrite forallb_forall in S4. exact S4.
Qed.
