(* C06 -- second proof file: the cycle-basis checker is COMPLETE (it rejects only sets that are not cycle bases), and the
   reference construction mcb_ref returns linearly independent simple cycles of the graph. *)
From Coq Require Import ZArith List Bool Lia Permutation.
From Model Require Import PyBase Graph Rings.
From Proofs Require Import RingsProofs.
Import ListNotations.
Open Scope Z_scope.

(* ---------- combinations ---------- *)
Lemma comb_bit_app2 a : forall u b w i, length a = length u ->
  comb_bit (a ++ b) (u ++ w) i = xorb (comb_bit a u i) (comb_bit b w i).
Proof.
  induction a as [|x a IH]; intros u b w i H.
  - destruct u; [|discriminate]. cbn. destruct (comb_bit b w i); reflexivity.
  - destruct u as [|y u]; [discriminate|]. cbn [app comb_bit]. rewrite IH by (cbn in H; lia).
    destruct (x && bit y i), (comb_bit a u i), (comb_bit b w i); reflexivity.
Qed.

Lemma comb_bit_falses n : forall vs i, comb_bit (repeat false n) vs i = false.
Proof. intros vs i. apply comb_bit_all_false. intros s H. apply repeat_spec in H. exact H. Qed.

(* w is a GF(2) combination of the vectors [done] *)
Definition span (done : list vec) (w : vec) : Prop :=
  exists sel, length sel = length done /\ forall i, bit w i = comb_bit sel done i.

Lemma span_xor done a b : span done a -> span done b -> span done (vxor a b).
Proof.
  intros [sa [La Ha]] [sb [Lb Hb]]. exists (xsel sa sb). split.
  - unfold xsel. rewrite map_length, combine_length. lia.
  - intros i. rewrite bit_vxor, comb_bit_xsel by assumption. rewrite Ha, Hb. reflexivity.
Qed.

Lemma span_snoc done v w : span done w -> span (done ++ [v]) w.
Proof.
  intros [s [L H]]. exists (s ++ [false]). split; [rewrite !app_length; cbn; lia|].
  intros i. rewrite comb_bit_app by exact L. rewrite andb_false_l, xorb_false_r. apply H.
Qed.

Lemma span_last done v : span (done ++ [v]) v.
Proof.
  exists (repeat false (length done) ++ [true]). split; [rewrite !app_length, repeat_length; reflexivity|].
  intros i. rewrite comb_bit_app by apply repeat_length. rewrite comb_bit_falses, andb_true_l, xorb_false_l. reflexivity.
Qed.

(* reduce B v = v + a combination of done, when every row of B is one *)
Lemma reduce_span done B : (forall p b, In (p, b) B -> span done b) ->
  forall v, exists sel, length sel = length done /\ forall i, bit (reduce B v) i = xorb (bit v i) (comb_bit sel done i).
Proof.
  induction B as [|[p b] B IH]; intros HB v.
  - exists (repeat false (length done)). split; [apply repeat_length|]. intros i. cbn. rewrite comb_bit_falses, xorb_false_r. reflexivity.
  - assert (HB' : forall q c, In (q, c) B -> span done c) by (intros q c H; apply (HB q c); right; exact H).
    unfold reduce. cbn [fold_left fst snd]. destruct (bit v p).
    + destruct (IH HB' (vxor v b)) as [s [L H]]. destruct (HB p b (or_introl eq_refl)) as [sb [Lb Hb]].
      exists (xsel s sb). split; [unfold xsel; rewrite map_length, combine_length; lia|].
      intros i. unfold reduce in H. rewrite H, bit_vxor, comb_bit_xsel by assumption. rewrite Hb.
      destruct (bit v i), (comb_bit sb done i), (comb_bit s done i); reflexivity.
    + apply (IH HB' v).
Qed.

Lemma existsb_id_app a b : existsb (fun s : bool => s) (a ++ b) = existsb (fun s => s) a || existsb (fun s => s) b.
Proof. apply existsb_app. Qed.

(* completeness of the elimination: a rejected list has a non-trivial vanishing combination *)
Lemma elim_complete rest : forall done B, (forall p b, In (p, b) B -> span done b) -> elim B rest = false ->
  exists sel, length sel = length (done ++ rest) /\ existsb (fun s => s) sel = true /\
              forall i, comb_bit sel (done ++ rest) i = false.
Proof.
  induction rest as [|v rest IH]; intros done B HB H; [discriminate|]. cbn [elim] in H.
  destruct (first_set (reduce B v)) as [p|] eqn:F.
  - replace (done ++ v :: rest) with ((done ++ [v]) ++ rest) by (rewrite <- app_assoc; reflexivity).
    apply (IH (done ++ [v]) (B ++ [(p, reduce B v)])); [|exact H].
    intros q c Hq. apply in_app_or in Hq. destruct Hq as [Hq|[Hq|[]]].
    + apply span_snoc. apply (HB q c Hq).
    + inversion Hq; subst q c. destruct (reduce_span done B HB v) as [s [L Hs]].
      exists (s ++ [true]). split; [rewrite !app_length; cbn; lia|]. intros i.
      rewrite comb_bit_app by exact L. rewrite andb_true_l, Hs. destruct (bit v i), (comb_bit s done i); reflexivity.
  - destruct (reduce_span done B HB v) as [s [L Hs]].
    exists (s ++ true :: repeat false (length rest)). split; [|split].
    + rewrite !app_length. cbn. rewrite repeat_length, L. reflexivity.
    + rewrite existsb_id_app. cbn. apply orb_true_r.
    + intros i. rewrite comb_bit_app2 by exact L. cbn [comb_bit]. rewrite comb_bit_falses, andb_true_l, xorb_false_r.
      pose proof (first_set_None _ F i) as Z. rewrite Hs in Z. destruct (bit v i), (comb_bit s done i); cbn in *; congruence.
Qed.

Theorem independent_b_complete vs : independent_b vs = false ->
  exists sel, length sel = length vs /\ existsb (fun s => s) sel = true /\ forall i, comb_bit sel vs i = false.
Proof.
  intros H. apply (elim_complete vs [] []) in H; [exact H | intros p b []].
Qed.

(* ---------- the checker is exact ---------- *)
Theorem basis_checker_complete g rs :
  gwf g -> Forall (is_cycle g) rs ->
  (forall sel, length sel = length rs -> existsb (fun s => s) sel = true ->
     exists e, In e (edges g) /\ sel_parity sel rs e = true) ->
  Z.of_nat (length rs) =
    Z.of_nat (length (edges g)) - Z.of_nat (length g) + Z.of_nat (length (components_order g (keys g))) ->
  is_cycle_basis g rs = true.
Proof.
  intros W C I N. unfold is_cycle_basis. rewrite !andb_true_iff. repeat split.
  - apply gwf_b_sound. exact W.
  - apply forallb_forall. intros r Hr. apply simple_cycle_b_sound. rewrite Forall_forall in C. apply C. exact Hr.
  - apply Z.eqb_eq. exact N.
  - destruct (independent_b (map (ring_vec g) rs)) eqn:E; [reflexivity|]. exfalso.
    destruct (independent_b_complete _ E) as [sel [L [Ex Z]]]. rewrite map_length in L.
    destruct (I sel L Ex) as [e [He Pe]]. destruct (In_nth _ _ (0, 0) He) as [i [Hi Ei]].
    specialize (Z i). rewrite (comb_bit_ring_vec g sel rs i (0, 0) Hi), Ei in Z. congruence.
Qed.

Definition cycle_basis_spec (g : graph) (rs : list ring) : Prop :=
  gwf g /\
  Forall (is_cycle g) rs /\
  (forall sel, length sel = length rs -> existsb (fun s => s) sel = true ->
     exists e, In e (edges g) /\ sel_parity sel rs e = true) /\
  Z.of_nat (length rs) =
    Z.of_nat (length (edges g)) - Z.of_nat (length g) + Z.of_nat (length (components_order g (keys g))).

Theorem basis_checker_exact g rs : is_cycle_basis g rs = true <-> cycle_basis_spec g rs.
Proof.
  split; [apply basis_checker_sound|]. intros [W [C [I N]]]. apply basis_checker_complete; assumption.
Qed.

(* ---------- the reference construction: BFS trees hold simple paths of the graph ---------- *)
Definition walk (g : graph) (p : list Z) : Prop := forall a b, In (a, b) (seq_pairs p) -> In b (gnbrs g a).

Lemma seq_pairs_app l1 : forall l2 a b, In (a, b) (seq_pairs (l1 ++ l2)) ->
  In (a, b) (seq_pairs l1) \/ In (a, b) (seq_pairs l2) \/ (l1 <> [] /\ l2 <> [] /\ a = last l1 0 /\ b = hd 0 l2).
Proof.
  induction l1 as [|x l1 IH]; intros l2 a b H.
  - right. left. exact H.
  - destruct l1 as [|y l1].
    + cbn [app] in H. destruct l2 as [|z l2]; [destruct H|]. cbn [seq_pairs] in H. destruct H as [H|H].
      * inversion H; subst. right. right. repeat split; discriminate.
      * right. left. exact H.
    + change ((x :: y :: l1) ++ l2) with (x :: y :: (l1 ++ l2)) in H. cbn [seq_pairs] in H. destruct H as [H|H].
      * inversion H; subst. left. left. reflexivity.
      * change (y :: l1 ++ l2) with ((y :: l1) ++ l2) in H. destruct (IH l2 a b H) as [H1|[H1|[N1 [N2 [E1 E2]]]]].
        -- left. right. exact H1.
        -- right. left. exact H1.
        -- right. right. repeat split; try assumption; discriminate.
Qed.

Lemma seq_pairs_snoc l : forall x a b, In (a, b) (seq_pairs (l ++ [x])) -> In (a, b) (seq_pairs l) \/ (l <> [] /\ a = last l 0 /\ b = x).
Proof.
  intros x a b H. destruct (seq_pairs_app l [x] a b H) as [H1|[H1|[N1 [_ [E1 E2]]]]]; [left; exact H1 | destruct H1 | right; tauto].
Qed.

Lemma seq_pairs_rev l : forall a b, In (a, b) (seq_pairs (rev l)) -> In (b, a) (seq_pairs l).
Proof.
  induction l as [|x l IH]; intros a b H; [destruct H|]. cbn [rev] in H. apply seq_pairs_snoc in H.
  destruct H as [H|[N [E1 E2]]].
  - apply IH in H. destruct l as [|y l]; [destruct H|]. right. exact H.
  - subst. rewrite last_rev. destruct l as [|y l]; [cbn in N; congruence|]. left. reflexivity.
Qed.

Record good (g : graph) (v : Z) (t : list (Z * list Z)) (e : Z * list Z) : Prop := {
  good_hd : hd 0 (snd e) = v;
  good_last : last (snd e) 0 = fst e;
  good_ne : snd e <> [];
  good_walk : walk g (snd e);
  good_nodup : NoDup (snd e);
  good_incl : incl (snd e) (keys t) }.

Lemma good_mono g v t t' e : incl (keys t) (keys t') -> good g v t e -> good g v t' e.
Proof. intros I [H1 H2 H3 H4 H5 H6]. constructor; try assumption. intros x Hx. apply I, H6, Hx. Qed.

Lemma keys_app {V} (a b : list (Z * V)) : keys (a ++ b) = keys a ++ keys b.
Proof. unfold keys. apply map_app. Qed.

Lemma last_snoc (l : list Z) x d : last (l ++ [x]) d = x.
Proof. apply last_last. Qed.

Lemma tvisit_fold g v cur path l : forall q sn,
  (forall i, In i l -> In i (gnbrs g cur)) -> good g v sn (cur, path) ->
  Forall (good g v sn) sn -> Forall (good g v sn) q ->
  let r := fold_left (tvisit path) l (q, sn) in
  incl (keys sn) (keys (snd r)) /\ Forall (good g v (snd r)) (snd r) /\ Forall (good g v (snd r)) (fst r).
Proof.
  induction l as [|i l IH]; intros q sn Hl Gc Gs Gq.
  - cbn. split; [intros x H; exact H | split; assumption].
  - cbn [fold_left]. destruct (zmem i (keys sn)) eqn:E.
    + replace (tvisit path (q, sn) i) with (q, sn) by (unfold tvisit; cbn [snd]; rewrite E; reflexivity).
      apply IH; try assumption. intros j Hj. apply Hl. right. exact Hj.
    + replace (tvisit path (q, sn) i) with (q ++ [(i, path ++ [i])], sn ++ [(i, path ++ [i])])
        by (unfold tvisit; cbn [fst snd]; rewrite E; reflexivity).
      assert (Ni : ~ In i (keys sn)) by (intros I; apply zmem_In in I; congruence).
      set (ne := (i, path ++ [i])). set (sn' := sn ++ [ne]).
      assert (Inc : incl (keys sn) (keys sn')) by (unfold sn'; rewrite keys_app; intros x Hx; apply in_or_app; left; exact Hx).
      assert (Gn : good g v sn' ne).
      { destruct Gc as [H1 H2 H3 H4 H5 H6]. cbn [fst snd] in *. constructor; cbn [fst snd].
        - destruct path; [congruence | exact H1].
        - apply last_snoc.
        - destruct path; discriminate.
        - intros a b Hab. apply seq_pairs_snoc in Hab. destruct Hab as [Hab|[_ [Ea Eb]]]; [apply H4; exact Hab|].
          subst a b. rewrite H2. apply Hl. left. reflexivity.
        - apply (Permutation_NoDup (l := i :: path)); [apply Permutation_cons_append|]. constructor; [|exact H5].
          intros I. apply Ni. apply H6. exact I.
        - intros x Hx. apply in_app_or in Hx. unfold sn'. rewrite keys_app. apply in_or_app.
          destruct Hx as [Hx|[Hx|[]]]; [left; apply H6; exact Hx | right; left; exact Hx]. }
      assert (Gs' : Forall (good g v sn') sn').
      { unfold sn'. apply Forall_app. split; [|constructor; [exact Gn | constructor]].
        eapply Forall_impl; [|exact Gs]. intros e He. apply (good_mono g v sn); assumption. }
      destruct (IH (q ++ [ne]) sn') as [A1 [A2 A3]].
      * intros j Hj. apply Hl. right. exact Hj.
      * apply (good_mono g v sn); assumption.
      * exact Gs'.
      * apply Forall_app. split; [|constructor; [exact Gn | constructor]].
        eapply Forall_impl; [|exact Gq]. intros e He. apply (good_mono g v sn); assumption.
      * split; [|split; assumption]. intros x Hx. apply A1. apply Inc. exact Hx.
Qed.

Lemma bfs_tree_good g v fuel : forall queue seen, Forall (good g v seen) seen -> Forall (good g v seen) queue ->
  let t := bfs_tree fuel g queue seen in Forall (good g v t) t.
Proof.
  induction fuel as [|f IH]; intros queue seen Gs Gq; [exact Gs|]. cbn [bfs_tree].
  destruct queue as [|[cur path] rest]; [exact Gs|].
  inversion Gq as [|? ? Gc Gr]; subst.
  destruct (tvisit_fold g v cur path (gnbrs g cur) rest seen (fun i H => H) Gc Gs Gr) as [A1 [A2 A3]].
  apply IH; assumption.
Qed.

Lemma sp_tree_good g v : Forall (good g v (sp_tree g v)) (sp_tree g v).
Proof.
  unfold sp_tree. assert (G0 : good g v [(v, [v])] (v, [v])).
  { constructor; cbn [fst snd]; try reflexivity; try discriminate.
    - intros a b [].
    - constructor; [intros [] | constructor].
    - intros x Hx. exact Hx. }
  apply bfs_tree_good; constructor; try exact G0; constructor.
Qed.

(* ---------- Horton candidates are simple cycles of the graph ---------- *)
Lemma disjoint_z_spec a b : disjoint_z a b = true <-> forall x, In x a -> ~ In x b.
Proof.
  unfold disjoint_z. rewrite forallb_forall. split.
  - intros H x Hx Hb. specialize (H x Hx). apply negb_true_iff in H. apply zmem_In in Hb. congruence.
  - intros H x Hx. apply negb_true_iff. destruct (zmem x b) eqn:E; [|reflexivity]. apply zmem_In in E. destruct (H x Hx E).
Qed.

Lemma hd_tl_eq (p : list Z) : p <> [] -> p = hd 0 p :: tl p.
Proof. destruct p; [congruence | reflexivity]. Qed.

Lemma horton_from_cycles g v c : gwf g -> In c (horton_from g v) -> is_cycle g c.
Proof.
  intros W H. unfold horton_from in H. apply in_flat_map in H. destruct H as [[x y] [He H]]. cbn [fst snd] in H.
  destruct (zget (sp_tree g v) x) as [px|] eqn:Ex; [|destruct H].
  destruct (zget (sp_tree g v) y) as [py|] eqn:Ey; [|destruct H].
  destruct (disjoint_z (tl px) (tl py) && Nat.leb 3 (length px + length (tl py))) eqn:C; [|destruct H].
  destruct H as [H|[]]. subst c. apply andb_prop in C. destruct C as [D L]. apply Nat.leb_le in L.
  pose proof (sp_tree_good g v) as G. rewrite Forall_forall in G.
  destruct (G _ (zget_Some_In _ _ _ Ex)) as [X1 X2 X3 X4 X5 _]. destruct (G _ (zget_Some_In _ _ _ Ey)) as [Y1 Y2 Y3 Y4 Y5 _].
  cbn [fst snd] in *.
  assert (Dj : forall z, In z (tl px) -> ~ In z (tl py)) by (apply disjoint_z_spec; exact D).
  assert (Epx : px = v :: tl px) by (rewrite <- X1; apply hd_tl_eq; exact X3).
  assert (Epy : py = v :: tl py) by (rewrite <- Y1; apply hd_tl_eq; exact Y3).
  assert (Adj : In y (gnbrs g x)).
  { apply In_edges in He. destruct He as [ms [I1 [I2 _]]]. destruct W as [Nk _]. unfold gnbrs. rewrite (zget_In_NoDup g x ms Nk I1). exact I2. }
  split; [rewrite app_length, rev_length; exact L|]. split.
  - (* NoDup *) apply NoDup_app_disjoint; [exact X5 | |].
    + apply (Permutation_NoDup (Permutation_rev (tl py))). rewrite Epy in Y5. inversion Y5; assumption.
    + intros z Hz Hr. apply in_rev in Hr. rewrite Epx in Hz. destruct Hz as [Hz|Hz].
      * subst z. rewrite Epy in Y5. inversion Y5; contradiction.
      * apply (Dj z Hz Hr).
  - intros a b Hab. unfold ring_pairs in Hab.
    assert (Hd : hd 0 (px ++ rev (tl py)) = v) by (rewrite Epx; reflexivity).
    assert (RP : In (a, b) (seq_pairs (px ++ rev py))).
    { destruct (px ++ rev (tl py)) as [|h t] eqn:Er; [destruct Hab|]. cbn [hd] in Hd. subst h. rewrite <- Er in Hab.
      rewrite <- app_assoc in Hab. replace (rev py) with (rev (tl py) ++ [v]) by (rewrite Epy at 2; reflexivity). exact Hab. }
    assert (One : In b (gnbrs g a)).
    { apply seq_pairs_app in RP. destruct RP as [H1|[H1|[_ [_ [E1 E2]]]]].
      - apply X4. exact H1.
      - apply seq_pairs_rev in H1. apply (gwf_sym g b a W). apply Y4. exact H1.
      - subst a b. rewrite X2, hd_rev, Y2. exact Adj. }
    split; [exact One | apply (gwf_sym g a b W One)].
Qed.

Lemma horton_candidates_cycles g c : gwf g -> In c (horton_candidates g) -> is_cycle g c.
Proof.
  intros W H. unfold horton_candidates in H. apply in_flat_map in H. destruct H as [v [_ H]]. apply (horton_from_cycles g v c W H).
Qed.

(* ---------- sorting and the greedy selection ---------- *)
Lemma insert_by_len_In r l x : In x (insert_by_len r l) <-> x = r \/ In x l.
Proof.
  induction l as [|y l IH]; cbn.
  - intuition.
  - destruct (Nat.leb (length r) (length y)); cbn; [intuition | rewrite IH; intuition].
Qed.

Lemma sort_by_len_In l x : In x (sort_by_len l) <-> In x l.
Proof.
  induction l as [|y l IH]; cbn; [tauto|]. rewrite insert_by_len_In, IH. intuition.
Qed.

Lemma greedy_incl g cands : forall B need c, In c (greedy g B cands need) -> In c cands.
Proof.
  induction cands as [|c0 cands IH]; intros B need c H.
  - destruct need; destruct H.
  - destruct need as [|k]; [destruct H|]. cbn [greedy] in H.
    destruct (first_set (reduce B (ring_vec g c0))) as [p|].
    + destruct H as [H|H]; [left; exact H | right; apply (IH _ _ _ H)].
    + right. apply (IH _ _ _ H).
Qed.

Lemma greedy_length g cands : forall B need, (length (greedy g B cands need) <= need)%nat.
Proof.
  induction cands as [|c0 cands IH]; intros B need.
  - destruct need; cbn; lia.
  - destruct need as [|k]; [cbn; lia|]. cbn [greedy].
    destruct (first_set (reduce B (ring_vec g c0))) as [p|].
    + cbn [length]. specialize (IH (B ++ [(p, reduce B (ring_vec g c0))]) k). lia.
    + apply IH.
Qed.

(* the selection replays the elimination of the checker: what it returns is accepted by it *)
Lemma greedy_elim g cands : forall B need, elim B (map (ring_vec g) (greedy g B cands need)) = true.
Proof.
  induction cands as [|c0 cands IH]; intros B need.
  - destruct need; reflexivity.
  - destruct need as [|k]; [reflexivity|]. cbn [greedy].
    destruct (first_set (reduce B (ring_vec g c0))) as [p|] eqn:F.
    + cbn [map elim]. rewrite F. apply IH.
    + apply IH.
Qed.

(* the greedy selection over ANY list of simple cycles: simple cycles, accepted by the elimination, at most [need] many *)
Theorem greedy_cycles_sound g cands need : (forall c, In c cands -> is_cycle g c) ->
  Forall (is_cycle g) (greedy g [] cands need) /\
  independent_b (map (ring_vec g) (greedy g [] cands need)) = true /\
  (length (greedy g [] cands need) <= need)%nat.
Proof.
  intros HC. split; [|split].
  - apply Forall_forall. intros c H. apply greedy_incl in H. apply HC. exact H.
  - apply greedy_elim.
  - apply greedy_length.
Qed.

(* ---------- _skin_graph only removes: every simple cycle of the pruned graph is one of the input ---------- *)
Lemma gnbrs_remove_key_incl n g v x : In x (gnbrs (remove_key n g) v) -> In x (gnbrs g v).
Proof.
  destruct (Z.eq_dec v n) as [E|E]; [|rewrite gnbrs_remove_key by exact E; tauto].
  subst v. unfold gnbrs. destruct (zget (remove_key n g) n) as [l|] eqn:Z; [|intros []].
  apply zget_Some_In in Z. unfold remove_key in Z. apply filter_In in Z. destruct Z as [_ Z]. cbn [fst] in Z.
  rewrite Z.eqb_refl in Z. discriminate.
Qed.

Lemma gnbrs_discard_in_incl n g m v x : In x (gnbrs (discard_in n g m) v) -> In x (gnbrs g v).
Proof.
  unfold gnbrs, discard_in. induction g as [|[k l] g IH]; [intros []|]. cbn [map fst snd].
  destruct (Z.eqb_spec k m) as [E|E]; cbn [zget fst snd]; destruct (v =? k); try exact IH; try tauto.
  unfold discard. intros H. apply filter_In in H. tauto.
Qed.

Lemma gnbrs_fold_discard_in_incl n ms : forall g v x, In x (gnbrs (fold_left (discard_in n) ms g) v) -> In x (gnbrs g v).
Proof.
  induction ms as [|m ms IH]; intros g v x H; [exact H|]. cbn [fold_left] in H. apply IH in H. apply gnbrs_discard_in_incl in H. exact H.
Qed.

Lemma skin_loop_incl fuel : forall g g' v x, skin_loop fuel g = Ok g' -> In x (gnbrs g' v) -> In x (gnbrs g v).
Proof.
  induction fuel as [|f IH]; intros g g' v x H I; [discriminate|]. cbn [skin_loop] in H.
  destruct (find is_terminal g) as [[n ms]|].
  - destruct (forallb (fun m => zmem m (keys (remove_key n g))) ms); [|discriminate].
    apply (IH _ _ v x H) in I. apply gnbrs_fold_discard_in_incl in I. apply gnbrs_remove_key_incl in I. exact I.
  - inversion H; subst. exact I.
Qed.

Theorem skin_only_removes g g' : NoDup (keys g) -> skin_graph g = Ok g' ->
  forall v x, In x (gnbrs g' v) -> In x (gnbrs g v).
Proof.
  intros N H v x I. unfold skin_graph in H. apply (skin_loop_incl _ _ _ v x H) in I.
  rewrite gnbrs_filter_nonempty in I by exact N. exact I.
Qed.

(* the pruned graph has exactly the simple cycles of the input *)
Theorem skin_same_cycles g g' c : NoDup (keys g) -> skin_graph g = Ok g' -> (is_cycle g c <-> is_cycle g' c).
Proof.
  intros N H. split.
  - intros C. apply (skin_keeps_cycles g g' c N H C).
  - intros [L [Nd A]]. split; [exact L|]. split; [exact Nd|]. intros a b Hab. destruct (A a b Hab) as [A1 A2].
    split; apply (skin_only_removes g g' N H); assumption.
Qed.

(* ---------- aromatic_rings ---------- *)
Definition is_arom (g : mol) (r : ring) : bool := match ring_aromatic g r with Ok true => true | _ => false end.

(* when nothing raises, aromatic_rings is the sub-list (same order) of the sssr rings that pass the test *)
Theorem aromatic_rings_spec g sssr : forall l, aromatic_rings g sssr = Ok l -> l = filter (is_arom g) sssr.
Proof.
  induction sssr as [|r rest IH]; intros l H; cbn [aromatic_rings] in H.
  - inversion H. reflexivity.
  - cbn [filter]. unfold is_arom at 1. destruct (ring_aromatic g r) as [keep|e]; [|discriminate].
    destruct (aromatic_rings g rest) as [l'|e]; [|discriminate]. inversion H; subst l. rewrite (IH l' eq_refl).
    destruct keep; reflexivity.
Qed.

Lemma all4_spec g ps : all4 g ps = Ok true <-> forall n m, In (n, m) ps -> bond_ord g n m = Ok 4.
Proof.
  induction ps as [|[a b] ps IH]; cbn [all4].
  - split; [intros _ n m [] | reflexivity].
  - destruct (bond_ord g a b) as [o|e] eqn:E.
    + destruct (Z.eqb_spec o 4) as [E4|E4].
      * subst o. rewrite IH. split.
        -- intros H n m [Hn|Hn]; [inversion Hn; subst; exact E | apply H; exact Hn].
        -- intros H n m Hn. apply H. right. exact Hn.
      * split; [discriminate|]. intros H. specialize (H a b (or_introl eq_refl)). rewrite E in H. inversion H. contradiction.
    + split; [discriminate|]. intros H. specialize (H a b (or_introl eq_refl)). rewrite E in H. discriminate.
Qed.

(* a ring passes exactly when the closing bond and every consecutive bond of its spelling is aromatic (order 4) *)
Theorem ring_aromatic_spec g r : ring_aromatic g r = Ok true <->
  r <> [] /\ bond_ord g (hd 0 r) (last r 0) = Ok 4 /\ forall n m, In (n, m) (combine r (tl r)) -> bond_ord g n m = Ok 4.
Proof.
  unfold ring_aromatic. destruct r as [|r0 t].
  - split; [discriminate | intros [H _]; congruence].
  - cbn [hd]. destruct (bond_ord g r0 (last (r0 :: t) 0)) as [o|e] eqn:E.
    + destruct (Z.eqb_spec o 4) as [E4|E4].
      * subst o. rewrite all4_spec. split; [intros H; repeat split; [discriminate | exact H] | intros [_ [_ H]]; exact H].
      * split; [discriminate|]. intros [_ [H _]]. inversion H. contradiction.
    + split; [discriminate|]. intros [_ [H _]]. discriminate.
Qed.

Theorem aromatic_rings_subset g sssr l r : aromatic_rings g sssr = Ok l -> In r l -> In r sssr /\ ring_aromatic g r = Ok true.
Proof.
  intros H I. rewrite (aromatic_rings_spec g sssr l H) in I. apply filter_In in I. destruct I as [I A]. split; [exact I|].
  unfold is_arom in A. destruct (ring_aromatic g r) as [[|]|]; try discriminate. reflexivity.
Qed.

(* ---------- the counts agree with an accepted ring list ---------- *)
Theorem rings_count_agrees g rs : is_cycle_basis g rs = true -> rings_count g = Ok (Z.of_nat (length rs)).
Proof.
  intros H. pose proof (basis_checker_sound g rs H) as [W [_ [_ N]]]. rewrite (rings_count_ok g W). unfold cyclomatic. rewrite N. reflexivity.
Qed.

(* every atom of an accepted ring list is an atom of the graph with at least two neighbours, and it is marked in_ring *)
Theorem accepted_ring_atoms g rs r v : is_cycle_basis g rs = true -> In r rs -> In v r ->
  In v (keys g) /\ (2 <= length (gnbrs g v))%nat /\ atom_in_ring rs v = true.
Proof.
  intros H Hr Hv. pose proof (basis_checker_sound g rs H) as [W [C _]]. rewrite Forall_forall in C. specialize (C r Hr).
  pose proof (cycle_degree g r v C Hv) as D. split; [|split; [exact D|]].
  - destruct (gnbrs g v) as [|x l] eqn:E; [cbn in D; lia|]. apply (adjacent_key g v x). rewrite E. left. reflexivity.
  - apply atom_in_ring_spec. exists r. tauto.
Qed.

(* ---------- _skin_graph on a well-formed graph: no KeyError, and the result is well formed ---------- *)
Lemma gnbrs_entry g n ms : NoDup (keys g) -> In (n, ms) g -> gnbrs g n = ms.
Proof. intros N I. unfold gnbrs. rewrite (zget_In_NoDup g n ms N I). reflexivity. Qed.

Lemma In_keys_entry {V} (g : list (Z * V)) n : In n (keys g) -> exists ms, In (n, ms) g.
Proof. unfold keys. intros H. apply in_map_iff in H. destruct H as [[k l] [E I]]. cbn in E. subst k. exists l. exact I. Qed.

Lemma entry_In_keys {V} (g : list (Z * V)) n ms : In (n, ms) g -> In n (keys g).
Proof. intros I. unfold keys. apply in_map_iff. exists (n, ms). split; [reflexivity | exact I]. Qed.

(* description of a graph by its keys and neighbour function: gwf in terms of gnbrs *)
Lemma gwf_gnbrs g : gwf g <->
  NoDup (keys g) /\ forall n, In n (keys g) -> NoDup (gnbrs g n) /\
     forall m, In m (gnbrs g n) -> m <> n /\ In m (keys g) /\ In n (gnbrs g m).
Proof.
  unfold gwf. split; intros [N W]; (split; [exact N|]).
  - intros n Hn. destruct (In_keys_entry g n Hn) as [ms I]. rewrite (gnbrs_entry g n ms N I). apply (W n ms I).
  - intros n ms I. rewrite <- (gnbrs_entry g n ms N I). apply W. apply (entry_In_keys g n ms I).
Qed.

Lemma keys_remove_key n g : keys (remove_key n g) = filter (fun k => negb (k =? n)) (keys g).
Proof. unfold remove_key, keys. induction g as [|[k l] g IH]; [reflexivity|]. cbn. destruct (negb (k =? n)); cbn; rewrite IH; reflexivity. Qed.

Lemma gnbrs_discard_in_eq n g m v : NoDup (keys g) ->
  gnbrs (discard_in n g m) v = if v =? m then discard n (gnbrs g v) else gnbrs g v.
Proof.
  unfold gnbrs, discard_in. induction g as [|[k l] g IH]; intros N.
  - cbn. destruct (v =? m); reflexivity.
  - cbn in N. inversion N as [|? ? Nk Ng]; subst. cbn [map fst snd]. destruct (Z.eqb_spec k m) as [E|E]; cbn [zget fst snd].
    + subst k. destruct (Z.eqb_spec v m) as [E2|E2]; [reflexivity|]. rewrite (IH Ng). destruct (Z.eqb_spec v m); [contradiction | reflexivity].
    + destruct (Z.eqb_spec v k) as [E2|E2].
      * subst v. destruct (Z.eqb_spec k m); [contradiction | reflexivity].
      * apply (IH Ng).
Qed.

Lemma discard_noop n l : ~ In n l -> discard n l = l.
Proof.
  intros H. unfold discard. induction l as [|x l IH]; [reflexivity|]. cbn.
  destruct (Z.eqb_spec x n) as [E|E]; [exfalso; apply H; left; exact E|]. cbn. f_equal. apply IH. intros I. apply H. right. exact I.
Qed.

Lemma discard_idem n l : discard n (discard n l) = discard n l.
Proof. apply discard_noop. unfold discard. intros I. apply filter_In in I. destruct I as [_ I]. rewrite Z.eqb_refl in I. discriminate. Qed.

Lemma gnbrs_fold_discard_in_eq n ms : forall g v, NoDup (keys g) ->
  gnbrs (fold_left (discard_in n) ms g) v = if zmem v ms then discard n (gnbrs g v) else gnbrs g v.
Proof.
  induction ms as [|m ms IH]; intros g v N; [reflexivity|]. cbn [fold_left]. rewrite IH by (rewrite keys_discard_in; exact N).
  rewrite (gnbrs_discard_in_eq n g m v N). cbn [zmem existsb]. destruct (Z.eqb_spec v m) as [E|E]; cbn [orb].
  - destruct (zmem v ms); [apply discard_idem | reflexivity].
  - reflexivity.
Qed.

Lemma In_discard n l x : In x (discard n l) <-> In x l /\ x <> n.
Proof. unfold discard. rewrite filter_In, negb_true_iff, Z.eqb_neq. tauto. Qed.

Lemma skin_step_wf g n ms : gwf g -> In (n, ms) g ->
  forallb (fun m => zmem m (keys (remove_key n g))) ms = true /\ gwf (fold_left (discard_in n) ms (remove_key n g)).
Proof.
  intros W I. pose proof W as [N Wm]. destruct (Wm n ms I) as [Nms Hms].
  assert (Nr : NoDup (keys (remove_key n g))) by (apply keys_filter_NoDup; exact N).
  split.
  - apply forallb_forall. intros m Hm. apply zmem_In. rewrite keys_remove_key. apply filter_In. destruct (Hms m Hm) as [Ne [K _]].
    split; [exact K | apply negb_true_iff, Z.eqb_neq; exact Ne].
  - apply gwf_gnbrs. rewrite keys_fold_discard_in. split; [exact Nr|].
    assert (NB : forall v, v <> n -> gnbrs (fold_left (discard_in n) ms (remove_key n g)) v = discard n (gnbrs g v)).
    { intros v Hv. rewrite gnbrs_fold_discard_in_eq by exact Nr. rewrite gnbrs_remove_key by exact Hv.
      destruct (zmem v ms) eqn:E; [reflexivity|]. symmetry. apply discard_noop. intros In_n.
      assert (Hs : In v (gnbrs g n)) by (apply (gwf_sym g v n W In_n)). rewrite (gnbrs_entry g n ms N I) in Hs. apply zmem_In in Hs. congruence. }
    intros v Kv. rewrite keys_remove_key in Kv. apply filter_In in Kv. destruct Kv as [Kv Nv]. apply negb_true_iff, Z.eqb_neq in Nv.
    rewrite (NB v Nv). apply (proj1 (gwf_gnbrs g)) in W. destruct W as [_ Wg]. destruct (Wg v Kv) as [Nd Hv]. split.
    + unfold discard. apply NoDup_filter. exact Nd.
    + intros m Hm. apply In_discard in Hm. destruct Hm as [Hm Nm]. destruct (Hv m Hm) as [A1 [A2 A3]]. split; [exact A1|]. split.
      * rewrite keys_remove_key. apply filter_In. split; [exact A2 | apply negb_true_iff, Z.eqb_neq; exact Nm].
      * rewrite (NB m Nm). apply In_discard. split; [exact A3 | exact Nv].
Qed.

Lemma skin_loop_wf fuel : forall g, gwf g -> (length g < fuel)%nat -> exists g', skin_loop fuel g = Ok g' /\ gwf g'.
Proof.
  induction fuel as [|f IH]; intros g W L; [lia|]. cbn [skin_loop].
  destruct (find is_terminal g) as [[n ms]|] eqn:F; [|exists g; split; [reflexivity | exact W]].
  apply find_some in F. destruct F as [I _]. destruct (skin_step_wf g n ms W I) as [C W'].
  rewrite C. apply IH; [exact W'|]. rewrite length_fold_discard_in. pose proof (remove_key_shorter n ms g I). lia.
Qed.

Lemma filter_nonempty_wf g : gwf g -> gwf (filter nonempty_entry g).
Proof.
  intros W. pose proof W as [N Wm]. split; [apply keys_filter_NoDup; exact N|].
  intros n ms I. apply filter_In in I. destruct I as [I _]. destruct (Wm n ms I) as [Nd H]. split; [exact Nd|].
  intros m Hm. destruct (H m Hm) as [A1 [A2 A3]]. split; [exact A1|].
  destruct (In_keys_entry g m A2) as [l Il].
  assert (El : gnbrs g m = l) by (apply gnbrs_entry; assumption). rewrite El in A3.
  assert (If : In (m, l) (filter nonempty_entry g)).
  { apply filter_In. split; [exact Il|]. unfold nonempty_entry. cbn [snd]. destruct l; [destruct A3 | reflexivity]. }
  split; [apply (entry_In_keys _ m l If)|].
  rewrite (gnbrs_entry (filter nonempty_entry g) m l (keys_filter_NoDup _ g N) If). exact A3.
Qed.

(* on a well-formed graph (every MoleculeContainer adjacency): the pruning raises nothing and returns a well-formed graph *)
Theorem skin_graph_wf g : gwf g -> exists g', skin_graph g = Ok g' /\ gwf g'.
Proof.
  intros W. unfold skin_graph. apply skin_loop_wf; [apply filter_nonempty_wf; exact W|].
  pose proof (filter_len_le nonempty_entry g). lia.
Qed.
