(* C10: the hand written model agrees with what tools/gen_packspec.py reads from the SOURCE on every run
   (coq/gen/PackSpecGen.v): the field widths of the published format specification (three copies of the text, required
   identical by the translator) are the widths of the fields of the declarative layout, and the constants / branch tables
   of the codecs and of the Python wrappers are those of the model.  A source edit changes the generated file and breaks
   the named lemma here. *)
From Coq Require Import ZArith List Bool Lia ZifyBool.
From Gen Require Import PackSpecGen.
From Model Require Import PyBase Pack PackSpec PackApi PackStereo.
From Proofs Require Import PackBits PackLayout.
Import ListNotations.
Open Scope Z_scope.

Definition widths (fields : list (list bool)) : list Z := map (fun f => Z.of_nat (length f)) fields.

(* ---------- field widths of the published specification ---------- *)
Definition header_fields (ac ct : Z) : list (list bool) := [bits_of 8 gen_version; bits_of 12 ac; bits_of 12 ct].
Definition atom_fields (a : patom) : list (list bool) :=
  let ngb := Z.of_nat (length (pa_nbrs a)) in
  [bits_of 12 (pa_n a); bits_of 4 ngb; tetra_bits (pa_stereo a) ngb; allene_bits (pa_stereo a) ngb;
   bits_of 5 (match pa_iso a with None => 0 | Some i => i - znth Gen.Elements.pack_common_isotopes (pa_an a) 0 end);
   bits_of 7 (pa_an a); flat_map (bits_of 8) (pa_xy a);
   bits_of 3 (match pa_h a with None => gen_h_none_value | Some v => v end); bits_of 4 (pa_chg a + 4); [pa_rad a]].
Definition ct_fields (t : Z * Z * bool) : list (list bool) :=
  let '(tn, tm, v) := t in [bits_of 12 tn ++ bits_of 12 tm; bits_of 7 0; [v]].

Lemma spec_header ac ct :
  bits_of 8 2 ++ bits_of 12 ac ++ bits_of 12 ct = concat (header_fields ac ct) /\ widths (header_fields ac ct) = spec_header_widths.
Proof. split; [cbn [header_fields concat]; rewrite app_nil_r; reflexivity | reflexivity]. Qed.

Lemma flat_map_bits8_length l : length (flat_map (bits_of 8) l) = (8 * length l)%nat.
Proof. induction l as [|x l IH]; [reflexivity|]. cbn [flat_map length]. rewrite app_length, bits_of_length, IH. lia. Qed.

Lemma spec_atom a : length (pa_xy a) = 4%nat ->
  atom_bits a = concat (atom_fields a) /\ widths (atom_fields a) = spec_atom_widths.
Proof.
  intros Hxy. split.
  - unfold atom_bits, atom_fields. cbv zeta. cbn [concat]. rewrite app_nil_r. reflexivity.
  - unfold atom_fields, widths. cbv zeta. cbn [map]. rewrite !bits_of_length, flat_map_bits8_length, Hxy.
    assert (T : length (tetra_bits (pa_stereo a) (Z.of_nat (length (pa_nbrs a)))) = 2%nat)
      by (unfold tetra_bits; destruct (pa_stereo a) as [[|]|]; destruct (Z.of_nat (length (pa_nbrs a)) =? 2); reflexivity).
    assert (A : length (allene_bits (pa_stereo a) (Z.of_nat (length (pa_nbrs a)))) = 2%nat)
      by (unfold allene_bits; destruct (pa_stereo a) as [[|]|]; destruct (Z.of_nat (length (pa_nbrs a)) =? 2); reflexivity).
    rewrite T, A. reflexivity.
Qed.

Lemma spec_conn m1 m2 : widths [bits_of 12 m1 ++ bits_of 12 m2] = spec_conn_widths.
Proof. unfold widths. cbn [map]. rewrite app_length, !bits_of_length. reflexivity. Qed.

Lemma spec_order o : widths [bits_of 3 o] = spec_order_widths.
Proof. reflexivity. Qed.

Lemma spec_cis_trans t : ct_bits t = concat (ct_fields t) /\ widths (ct_fields t) = spec_cis_trans_widths.
Proof.
  destruct t as [[tn tm] v]. split.
  - unfold ct_bits, ct_fields. cbn [concat]. rewrite app_nil_r, <- app_assoc. reflexivity.
  - unfold ct_fields, widths. cbn [map]. rewrite app_length, !bits_of_length. reflexivity.
Qed.

Theorem spec_widths :
  (forall ac ct, bits_of 8 2 ++ bits_of 12 ac ++ bits_of 12 ct = concat (header_fields ac ct) /\ widths (header_fields ac ct) = spec_header_widths) /\
  (forall a, length (pa_xy a) = 4%nat -> atom_bits a = concat (atom_fields a) /\ widths (atom_fields a) = spec_atom_widths) /\
  (forall m1 m2, widths [bits_of 12 m1 ++ bits_of 12 m2] = spec_conn_widths) /\
  (forall o, widths [bits_of 3 o] = spec_order_widths) /\
  (forall t, ct_bits t = concat (ct_fields t) /\ widths (ct_fields t) = spec_cis_trans_widths).
Proof. repeat split; try apply spec_header; try (apply spec_atom; assumption); try apply spec_conn; try apply spec_cis_trans. Qed.

(* ---------- constants and branch tables of the sources ---------- *)
Definition stereo_bits_gen (st : option bool) (ngb : Z) : Z :=
  match st with
  | None => gen_stereo_none
  | Some true => if ngb =? gen_allene_ngb then gen_stereo_true_allene else gen_stereo_true_tetra
  | Some false => if ngb =? gen_allene_ngb then gen_stereo_false_allene else gen_stereo_false_tetra
  end.
Definition eval_chain (chain : list (Z * option bool)) (dflt : option bool) (s : Z) : option bool :=
  match find (fun kv => s =? fst kv) chain with Some kv => snd kv | None => dflt end.
Definition mol_pack_check_gen (m : pmol) : pyres unit :=
  match pm_atoms m with
  | [] => Err ValueError
  | _ => if (py_min (map pa_n (pm_atoms m)) 1 <? gen_check_min) || (gen_check_max <? py_max (map pa_n (pm_atoms m)) 0) then Err ValueError
         else if existsb (fun a => (Z.to_nat gen_check_ngb <? length (pa_nbrs a))%nat) (pm_atoms m) then Err ValueError
         else Ok tt
  end.

Lemma h_decode_sweep :
  forallb (fun e => option_eqb Z.eqb (ua_h (decode_atom 0 0 0 0 0 0 0 0 e))
                                     (if Z.shiftr e 5 =? gen_h_none_value then None else Some (Z.shiftr e 5))) (zrange 0 256) = true.
Proof. vm_compute. reflexivity. Qed.

Theorem source_constants :
  (forall ac ct, hd 0 (header_bytes ac ct) = gen_version) /\
  hcr_field None (-4) false = gen_h_none_byte /\
  (forall st ngb, stereo_bits st ngb = stereo_bits_gen st ngb) /\
  (forall s, stereo_of_nibble s = eval_chain gen_unpack_stereo_chain gen_unpack_stereo_else s) /\
  (forall m, mol_pack_check m = mol_pack_check_gen m) /\
  (forall v, ((v =? 0) || (v =? 2)) = existsb (Z.eqb v) gen_accepted_versions) /\
  rxn_pack [] [] [] = Ok [gen_rxn_header; 0; 0; 0] /\
  (forall a, PackSpec.atom_ok a = true -> pa_n a < gen_seen_size).
Proof.
  split; [reflexivity|]. split; [reflexivity|]. split; [intros [[|]|] ngb; reflexivity|].
  split; [intros s; unfold stereo_of_nibble, eval_chain; cbn [gen_unpack_stereo_chain find fst snd];
          destruct (s =? 0), (s =? 2), (s =? 3), (s =? 8); reflexivity|].
  split; [reflexivity|]. split; [intros v; cbn [gen_accepted_versions existsb]; rewrite orb_false_r; reflexivity|].
  split; [reflexivity|].
  intros a H. unfold PackSpec.atom_ok in H. split_andb. unfold gen_seen_size. lia.
Qed.
