From Coq Require Import ZArith List Bool Lia.
From Model Require Import PyBase Graph Kekule Thiele.
From Proofs Require Import KekuleProofs.
Import ListNotations.
Open Scope Z_scope.

(* ------------------------------------------------------------------------------------------------
   3. the algorithm-level model of thiele(): whatever the ring search and the freak queries answer, it only writes bond orders:
      atoms, charges, radicals, hydrogens and connectivity are those of the input; a negative answer returns the input
   ------------------------------------------------------------------------------------------------ *)
Lemma set_bonds_same ring o : forall g, m_atoms (set_bonds g ring o) = m_atoms g /\ graph_of (set_bonds g ring o) = graph_of g.
Proof.
  unfold set_bonds. induction (ring_pairs ring) as [|[n m] r IH]; intros g; simpl; auto.
  destruct (IH (set_order g n m o)) as [A B]. rewrite A, B, set_order_graph. split; reflexivity.
Qed.

Lemma fold_same {T : Type} (f : mol -> T -> mol) :
  (forall g x, m_atoms (f g x) = m_atoms g /\ graph_of (f g x) = graph_of g) ->
  forall l g, m_atoms (fold_left f l g) = m_atoms g /\ graph_of (fold_left f l g) = graph_of g.
Proof.
  intros H l. induction l as [|x r IH]; intros g; simpl; auto.
  destruct (IH (f g x)) as [A B]. destruct (H g x) as [C D]. rewrite A, B, C, D. split; reflexivity.
Qed.

Theorem thiele_model_preserves : forall g sssr rings2 fok o,
  thiele_model g sssr rings2 fok = Ok o ->
  m_atoms (o_mol o) = m_atoms g /\ graph_of (o_mol o) = graph_of g /\ (o_result o = false -> o_mol o = g).
Proof.
  intros g sssr rings2 fok o E. unfold thiele_model in E.
  set (s := fold_left (ring_step g) sssr (mkTh1 [] [] [] [])) in *.
  destruct (t_rings s) as [|r0 rr]; [injection E as E; subst o; simpl; auto|].
  match type of E with match ?st with _ => _ end = _ => destruct st as [[d|]|] end; try discriminate;
    [|injection E as E; subst o; simpl; auto].
  match type of E with (if ?c then _ else _) = _ => destruct c end; [injection E as E; subst o; simpl; auto|].
  injection E as E. subst o. simpl. split; [|split; [|discriminate]].
  - match goal with |- m_atoms (fold_left ?f3 ?l3 (fold_left ?f2 ?l2 (fold_left ?f1 ?l1 g))) = _ =>
      destruct (fold_same f3 ltac:(intros g0 [r b]; simpl; destruct b; [apply set_bonds_same | split; reflexivity]) l3 (fold_left f2 l2 (fold_left f1 l1 g))) as [A3 _];
      destruct (fold_same f2 ltac:(intros g0 r; apply set_bonds_same) l2 (fold_left f1 l1 g)) as [A2 _];
      destruct (fold_same f1 ltac:(intros g0 r; simpl; match goal with |- context [if ?c then _ else _] => destruct c end; [apply set_bonds_same | split; reflexivity]) l1 g) as [A1 _]
    end. rewrite A3, A2, A1. reflexivity.
  - match goal with |- graph_of (fold_left ?f3 ?l3 (fold_left ?f2 ?l2 (fold_left ?f1 ?l1 g))) = _ =>
      destruct (fold_same f3 ltac:(intros g0 [r b]; simpl; destruct b; [apply set_bonds_same | split; reflexivity]) l3 (fold_left f2 l2 (fold_left f1 l1 g))) as [_ A3];
      destruct (fold_same f2 ltac:(intros g0 r; apply set_bonds_same) l2 (fold_left f1 l1 g)) as [_ A2];
      destruct (fold_same f1 ltac:(intros g0 r; simpl; match goal with |- context [if ?c then _ else _] => destruct c end; [apply set_bonds_same | split; reflexivity]) l1 g) as [_ A1]
    end. rewrite A3, A2, A1. reflexivity.
Qed.
