From Coq Require Import ZArith List Bool Lia.
From Model Require Import PyBase Graph Kekule Thiele.
From Proofs Require Import KekuleProofs.
Import ListNotations.
Open Scope Z_scope.

(* ------------------------------------------------------------------------------------------------
   3. the algorithm-level model of thiele(): whatever the ring search and the freak queries answer, it only writes bond orders:
      atoms, charges, radicals, hydrogens and connectivity are those of the input; a negative answer returns the input
   ------------------------------------------------------------------------------------------------ *)
Lemma set_bonds_same ring o : forall g, m_atoms (set_bonds g ring o) = m_atoms g /\ graph_of (set_bonds g ring o) = graph_of g.
Proof.
  unfold set_bonds. induction (ring_pairs ring) as [|[n m] r IH]; intros g; simpl; auto.
  destruct (IH (set_order g n m o)) as [A B]. rewrite A, B, set_order_graph. split; reflexivity.
Qed.

Lemma fold_same {T : Type} (f : mol -> T -> mol) :
  (forall g x, m_atoms (f g x) = m_atoms g /\ graph_of (f g x) = graph_of g) ->
  forall l g, m_atoms (fold_left f l g) = m_atoms g /\ graph_of (fold_left f l g) = graph_of g.
Proof.
  intros H l. induction l as [|x r IH]; intros g; simpl; auto.
  destruct (IH (f g x)) as [A B]. destruct (H g x) as [C D]. rewrite A, B, C, D. split; reflexivity.
Qed.

Theorem thiele_model_preserves : forall g sssr rings2 fok o,
  thiele_model g sssr rings2 fok = Ok o ->
  m_atoms (o_mol o) = m_atoms g /\ graph_of (o_mol o) = graph_of g /\ (o_result o = false -> o_mol o = g).
Proof.
  intros g sssr rings2 fok o E. unfold thiele_model in E.
  set (s := fold_left (ring_step g) sssr (mkTh1 [] [] [] [])) in *.
  destruct (t_rings s) as [|r0 rr]; [injection E as E; subst o; simpl; auto|].
  match type of E with match ?st with _ => _ end = _ => destruct st as [[d|]|] end; try discriminate;
    [|injection E as E; subst o; simpl; auto].
  match type of E with (if ?c then _ else _) = _ => destruct c end; [injection E as E; subst o; simpl; auto|].
  injection E as E. subst o. simpl. split; [|split; [|discriminate]].
  - match goal with |- m_atoms (fold_left ?f3 ?l3 (fold_left ?f2 ?l2 (fold_left ?f1 ?l1 g))) = _ =>
      destruct (fold_same f3 ltac:(intros g0 [r b]; simpl; destruct b; [apply set_bonds_same | split; reflexivity]) l3 (fold_left f2 l2 (fold_left f1 l1 g))) as [A3 _];
      destruct (fold_same f2 ltac:(intros g0 r; apply set_bonds_same) l2 (fold_left f1 l1 g)) as [A2 _];
      destruct (fold_same f1 ltac:(intros g0 r; simpl; match goal with |- context [if ?c then _ else _] => destruct c end; [apply set_bonds_same | split; reflexivity]) l1 g) as [A1 _]
    end. rewrite A3, A2, A1. reflexivity.
  - match goal with |- graph_of (fold_left ?f3 ?l3 (fold_left ?f2 ?l2 (fold_left ?f1 ?l1 g))) = _ =>
      destruct (fold_same f3 ltac:(intros g0 [r b]; simpl; destruct b; [apply set_bonds_same | split; reflexivity]) l3 (fold_left f2 l2 (fold_left f1 l1 g))) as [_ A3];
      destruct (fold_same f2 ltac:(intros g0 r; apply set_bonds_same) l2 (fold_left f1 l1 g)) as [_ A2];
      destruct (fold_same f1 ltac:(intros g0 r; simpl; match goal with |- context [if ?c then _ else _] => destruct c end; [apply set_bonds_same | split; reflexivity]) l1 g) as [_ A1]
    end. rewrite A3, A2, A1. reflexivity.
Qed.

(* thiele(fix_tautomers=True), model: atoms keep element / isotope / charge / radical state and the connectivity is unchanged,
   whatever the set orders, the ring search and the freak queries are (the hydrogen counts of two ring nitrogens may change:
   that is the recorded finding thiele-moves-H) *)
Definition cg_same (g g' : mol) : Prop := core_of g' = core_of g /\ graph_of g' = graph_of g.

Lemma cg_refl g : cg_same g g. Proof. split; reflexivity. Qed.
Lemma cg_trans g1 g2 g3 : cg_same g1 g2 -> cg_same g2 g3 -> cg_same g1 g3.
Proof. intros [A B] [C D]. split; congruence. Qed.

Lemma set_h_atom_cg g n h : cg_same g (set_h_atom g n h).
Proof.
  split; [|reflexivity]. unfold core_of, set_h_atom. simpl. rewrite map_map. apply map_ext. intros [k a]. simpl.
  destruct (k =? n); reflexivity.
Qed.

Lemma set_order_cg g n m o : cg_same g (set_order g n m o).
Proof. split; [reflexivity | apply set_order_graph]. Qed.

Lemma fold_cg {T : Type} (f : mol -> T -> mol) : (forall g x, cg_same g (f g x)) -> forall l g, cg_same g (fold_left f l g).
Proof.
  intros H l. induction l as [|x r IH]; intros g; simpl; [apply cg_refl|]. eapply cg_trans; [apply H | apply IH].
Qed.

Lemma set_bonds_cg g ring o : cg_same g (set_bonds g ring o).
Proof. unfold set_bonds. apply fold_cg. intros g0 [n m]. apply set_order_cg. Qed.

Lemma taut_donors_cg fuel ords dbl : forall donors g acc pyr g' acc' pyr',
  taut_donors fuel ords dbl donors g acc pyr = (g', acc', pyr') -> cg_same g g'.
Proof.
  induction donors as [|st rest IH]; intros g acc pyr g' acc' pyr' E; simpl in E.
  - injection E as E1 E2 E3. subst. apply cg_refl.
  - destruct (taut_dfs fuel g ords dbl acc _ [] [st]) as [[path cur]|]; [|eapply IH; exact E].
    set (g2 := fold_left (fun g0 e => let '(n, m, o) := e in set_order g0 n m o) path (set_h_atom (set_h_atom g cur 1) st 0)) in *.
    assert (C2 : cg_same g g2).
    { eapply cg_trans; [apply set_h_atom_cg|]. eapply cg_trans; [apply set_h_atom_cg|]. unfold g2. apply fold_cg. intros g0 [[n m] o]. apply set_order_cg. }
    destruct (filter (fun x => negb (x =? cur)) acc).
    + injection E as E1 E2 E3. subst. exact C2.
    + eapply cg_trans; [exact C2 | eapply IH; exact E].
Qed.

Lemma write_cg gt (tetra rings2 freaks : list (list Z)) (seen : list Z) (fok : list bool) :
  cg_same gt (fold_left (fun (g : mol) (rb : list Z * bool) => if snd rb then set_bonds g (fst rb) 4 else g) (combine freaks fok)
               (fold_left (fun g r => set_bonds g r 4) rings2
                  (fold_left (fun g r => if forallb (fun n => zmem n seen) r then set_bonds g r 1 else g) tetra gt))).
Proof.
  eapply cg_trans; [apply (fold_cg (fun g r => if forallb (fun n => zmem n seen) r then set_bonds g r 1 else g))|].
  { intros g0 r. destruct (forallb (fun n => zmem n seen) r); [apply set_bonds_cg | apply cg_refl]. }
  eapply cg_trans; [apply (fold_cg (fun g r => set_bonds g r 4))|].
  { intros g0 r. apply set_bonds_cg. }
  apply (fold_cg (fun (g : mol) (rb : list Z * bool) => if snd rb then set_bonds g (fst rb) 4 else g)).
  intros g0 [r b]. simpl. destruct b; [apply set_bonds_cg | apply cg_refl].
Qed.

Ltac tail_t E HX o :=
  cbv beta iota zeta in E;
  match type of E with match ?X with _ => _ end = _ => destruct X as [[?d|]|] end; try discriminate E;
    [|injection E as E; subst o; simpl; exact HX];
  match type of E with (if ?c then _ else _) = _ => destruct c end; [injection E as E; subst o; simpl; exact HX|];
  injection E as E; subst o; simpl; eapply cg_trans; [exact HX | apply write_cg].

Theorem thiele_model_t_preserves : forall g sssr ords rings2 fok o,
  thiele_model_t g sssr ords rings2 fok = Ok o -> core_of (o_mol o) = core_of g /\ graph_of (o_mol o) = graph_of g.
Proof.
  intros g sssr ords rings2 fok o E. change (cg_same g (o_mol o)). unfold thiele_model_t in E.
  set (st := fold_left (ring_step_t g) sssr (mkTh1t (mkTh1 [] [] [] []) [] [])) in *.
  destruct (t_rings (tt_base st)) as [|r0 rr]; [injection E as E; subst o; simpl; apply cg_refl|].
  destruct (tt_acc st) as [|a0 ar].
  - pose proof (cg_refl g) as HX. tail_t E HX o.
  - destruct (tt_don st) as [|d0 dr].
    + pose proof (cg_refl g) as HX. tail_t E HX o.
    + destruct (taut_donors _ ords _ (d0 :: dr) g (a0 :: ar) _) as [[gt a'] py] eqn:TD.
      pose proof (taut_donors_cg _ _ _ _ _ _ _ _ _ _ TD) as HX. tail_t E HX o.
Qed.
