(* Proofs about Model.Parser (parser.py): the state invariant of the token machine, totality on the tokens
   smiles_tokenize returns (every failure is IncorrectSmiles, never IndexError / KeyError / TypeError / AttributeError),
   the shape of the result (bond ends are atom indices, bond values are ints), one lemma per `raise` of the parser, the
   implicit aromatic/single bond choice, and the input-level rejection theorems (unbalanced brackets, dangling bond,
   two bonds in a row, unclosed ring closure). *)
From Coq Require Import ZArith List String Ascii Bool Lia.
From Model Require Import PyBase Tokenize Parser.
From Proofs Require Import TokenizeProofs.
Import ListNotations.
Open Scope Z_scope.

Definition GoodR {A} (P : A -> Prop) (r : pyres A) : Prop := match r with Ok a => P a | Err e => vee e = true end.

(* ------------------------------------------------------------------------------------------------ order (defaultdict(list)) *)
Definition olen (o : odict) (k : Z) : nat := List.length (od_get o k).

Lemma zget_od_upd o k f k' :
  zget (od_upd o k f) k' = if k' =? k then option_map f (zget o k) else zget o k'.
Proof.
  induction o as [|[k0 v] r IH]; cbn [od_upd zget].
  - destruct (k' =? k); reflexivity.
  - destruct (k =? k0) eqn:E.
    + apply Z.eqb_eq in E. subst k0. cbn [zget]. destruct (k' =? k) eqn:E2.
      * rewrite ?Z.eqb_refl. reflexivity.
      * reflexivity.
    + cbn [zget]. rewrite IH. destruct (k' =? k0) eqn:E2.
      * apply Z.eqb_eq in E2. subst k0. rewrite Z.eqb_sym in E. rewrite E. reflexivity.
      * destruct (k' =? k); reflexivity.
Qed.

Lemma zget_app {V} (a b : list (Z * V)) k :
  zget (a ++ b) k = match zget a k with Some v => Some v | None => zget b k end.
Proof.
  induction a as [|[k0 v] r IH]; cbn; [reflexivity|]. destruct (k =? k0); [reflexivity | exact IH].
Qed.

Lemma od_get_touch o k k' : od_get (od_touch o k) k' = od_get o k'.
Proof.
  unfold od_touch. destruct (zget o k) eqn:E; [reflexivity|].
  unfold od_get. rewrite zget_app. destruct (zget o k') eqn:E2; [reflexivity|].
  cbn. destruct (k' =? k); reflexivity.
Qed.

Lemma zget_touch_same o k : zget (od_touch o k) k = Some (od_get o k).
Proof.
  unfold od_touch, od_get. destruct (zget o k) eqn:E; [exact E|].
  rewrite zget_app, E. cbn. rewrite Z.eqb_refl. reflexivity.
Qed.

Lemma olen_touch o k k' : olen (od_touch o k) k' = olen o k'.
Proof. unfold olen. rewrite od_get_touch. reflexivity. Qed.

Lemma olen_append o k v k' : olen (od_append o k v) k' = if k' =? k then S (olen o k) else olen o k'.
Proof.
  unfold olen, od_append, od_get at 1. rewrite zget_od_upd. destruct (k' =? k) eqn:E.
  - apply Z.eqb_eq in E. subst k'. rewrite zget_touch_same. cbn. rewrite app_length. cbn. lia.
  - fold (od_get (od_touch o k) k'). rewrite od_get_touch. reflexivity.
Qed.

Lemma olen_append_le o k v k' : (olen o k' <= olen (od_append o k v) k')%nat.
Proof. rewrite olen_append. destruct (k' =? k) eqn:E; [apply Z.eqb_eq in E; subst; lia | lia]. Qed.

Lemma list_set_some {A} (l : list A) i v : (i < List.length l)%nat ->
  exists l', list_set l i v = Some l' /\ List.length l' = List.length l.
Proof.
  revert i. induction l as [|x r IH]; intros i H; cbn in H; [lia|].
  destruct i as [|i]; cbn.
  - eexists. split; reflexivity.
  - destruct (IH i) as [l' [H1 H2]]; [lia|]. rewrite H1. eexists. split; [reflexivity|]. cbn. rewrite H2. reflexivity.
Qed.

Lemma od_set_ok o k ind v : 0 <= ind < Z.of_nat (olen o k) ->
  exists o', od_set o k ind v = Ok o' /\ forall k', olen o' k' = olen o k'.
Proof.
  intros H. unfold od_set. destruct (ind <? 0) eqn:E; [apply Z.ltb_lt in E; lia|].
  destruct (list_set_some (od_get (od_touch o k) k) (Z.to_nat ind) v) as [l' [H1 H2]].
  { rewrite od_get_touch. unfold olen in H. lia. }
  rewrite H1. eexists. split; [reflexivity|]. intros k'.
  unfold olen, od_get at 1. rewrite zget_od_upd. destruct (k' =? k) eqn:E2.
  - apply Z.eqb_eq in E2. subst k'. rewrite zget_touch_same. cbn. rewrite H2, od_get_touch. reflexivity.
  - fold (od_get (od_touch o k) k'). rewrite od_get_touch. reflexivity.
Qed.

(* ------------------------------------------------------------------------------------------------ the invariant *)
Definition is_int (p : payload) : Prop := exists o, p = PInt o.
Definition bwf (n : Z) (b : Z * Z * payload) : Prop := let '(i, j, p) := b in 0 <= i < n /\ 0 <= j < n /\ is_int p.
(* `previous`: a bond token (1: int, 9: bool) or the dot *)
Definition prevwf (p : option token) : Prop :=
  match p with None => True | Some (ty, v) => (ty = 1 /\ is_int v) \/ (ty = 9 /\ exists b, v = PBool b) \/ ty = 4 end.
(* the bond stored with an open ring closure: never the dot *)
Definition obwf (p : option token) : Prop :=
  match p with None => True | Some (ty, v) => (ty = 1 /\ is_int v) \/ (ty = 9 /\ exists b, v = PBool b) end.
Definition cwf (n : Z) (o : odict) (c : Z * cyc) : Prop :=
  let '(_, (a, ob, ind)) := c in 0 <= a < n /\ 0 <= ind < Z.of_nat (olen o a) /\ obwf ob.

Record PI (s : pstate) : Prop := mkPI {
  pi_n : ps_n s = Z.of_nat (List.length (ps_atoms s));
  pi_t : List.length (ps_types s) = List.length (ps_atoms s);
  pi_pos : 0 < ps_n s;
  pi_last : 0 <= ps_last s < ps_n s;
  pi_bonds : Forall (bwf (ps_n s)) (ps_bonds s);
  pi_cyc : Forall (cwf (ps_n s) (ps_order s)) (ps_cycles s);
  pi_stack : Forall (fun x => 0 <= x < ps_n s) (ps_stack s);
  pi_prev : prevwf (ps_prev s) }.

Lemma bwf_mono n n' b : n <= n' -> bwf n b -> bwf n' b.
Proof. destruct b as [[i j] p]. unfold bwf. intros. intuition lia. Qed.

Lemma cwf_mono n n' o o' c : n <= n' -> (forall k, (olen o k <= olen o' k)%nat) -> cwf n o c -> cwf n' o' c.
Proof.
  destruct c as [k [[a ob] ind]]. unfold cwf. intros Hn Ho [H1 [H2 H3]]. specialize (Ho a). repeat split; try lia. exact H3.
Qed.

Lemma Forall_zdel {V} (P : Z * V -> Prop) d k : Forall P d -> Forall P (zdel d k).
Proof.
  induction d as [|[k0 v] r IH]; intros H; cbn; [constructor|]. inversion H; subst.
  destruct (k =? k0); [assumption | constructor; [assumption | apply IH; assumption]].
Qed.

Lemma zget_Forall {V} (P : Z * V -> Prop) d k v : Forall P d -> zget d k = Some v -> exists k0, P (k0, v).
Proof.
  induction d as [|[k0 v0] r IH]; intros H E; cbn in E; [discriminate|]. inversion H; subst.
  destruct (k =? k0); [inversion E; subst; eexists; eassumption | apply IH; assumption].
Qed.

Lemma type_at_ok s i : List.length (ps_types s) = List.length (ps_atoms s) -> ps_n s = Z.of_nat (List.length (ps_atoms s)) ->
  0 <= i < ps_n s -> exists t, type_at s i = Ok t.
Proof.
  intros Ht Hn Hi. unfold type_at. destruct (i <? 0) eqn:E; [apply Z.ltb_lt in E; lia|].
  destruct (nth_error (ps_types s) (Z.to_nat i)) eqn:E2; [eexists; reflexivity|].
  apply nth_error_None in E2. lia.
Qed.

Lemma arom_is_int x y : is_int (arom_or_single x y).
Proof. unfold arom_or_single. destruct (_ && _); eexists; reflexivity. Qed.

(* ------------------------------------------------------------------------------------------------ closing a ring closure *)
Lemma arom_at_ok s a : PI s -> 0 <= a < ps_n s -> exists tl ta, type_at s (ps_last s) = Ok tl /\ type_at s a = Ok ta /\
  arom_at s a = Ok (arom_or_single tl ta).
Proof.
  intros HP Ha. unfold arom_at.
  destruct (type_at_ok s (ps_last s) (pi_t s HP) (pi_n s HP) (pi_last s HP)) as [tl E1].
  destruct (type_at_ok s a (pi_t s HP) (pi_n s HP) Ha) as [ta E2]. exists tl, ta. rewrite E1, E2. repeat split.
Qed.

Lemma close_bond_good strong s a ob :
  PI s -> 0 <= a < ps_n s -> obwf ob ->
  (match ps_prev s with Some (pt, _) => pt <> 4 | None => True end) ->
  GoodR (fun r => is_int (fst (fst (fst r)))) (close_bond strong s a ob).
Proof.
  intros HP Ha Hob Hnd. pose proof (pi_prev s HP) as Hpv.
  destruct (arom_at_ok s a HP Ha) as [tl [ta [_ [_ EA]]]].
  unfold close_bond, ISm. rewrite EA.
  destruct ob as [[obt obv]|]; destruct (ps_prev s) as [[bt b]|]; cbn [obwf prevwf] in *.
  - (* both *)
    destruct Hob as [[-> [oo ->]] | [-> [ob' ->]]]; destruct Hpv as [[-> [bo ->]] | [[-> [bb ->]] | ->]]; try contradiction;
      cbn -[py_eq sb_set arom_or_single];
      repeat match goal with
             | |- GoodR _ (if ?c then _ else _) => destruct c
             | |- GoodR _ (match (if ?c then _ else _) with _ => _ end) => destruct c
             end; cbn -[arom_or_single]; try reflexivity; try (eexists; reflexivity); apply arom_is_int.
  - (* opened with a bond, closed without *)
    destruct Hob as [[-> [oo ->]] | [-> [ob' ->]]]; cbn -[sb_set arom_or_single]; [destruct strong|]; cbn -[arom_or_single];
      try reflexivity; try (eexists; reflexivity); apply arom_is_int.
  - (* closed with a bond *)
    destruct Hpv as [[-> [bo ->]] | [[-> [bb ->]] | ->]]; try contradiction; cbn -[sb_set arom_or_single]; [destruct strong|];
      cbn -[arom_or_single]; try reflexivity; try (eexists; reflexivity); apply arom_is_int.
  - (* no bond at all *)
    cbn -[arom_or_single]. apply arom_is_int.
Qed.

(* ------------------------------------------------------------------------------------------------ one step *)
Lemma step_open strong s v : PI s -> GoodR PI (step strong s (2, v)).
Proof.
  intros HP. unfold step. cbn [Z.eqb Pos.eqb]. destruct HP as [h1 h2 h3 h4 h5 h6 h7 h8].
  destruct (ps_prev s) as [[pt pv]|] eqn:E.
  - destruct (pt =? 4); cbn; [|reflexivity]. constructor; cbn; try assumption; try exact I. constructor; assumption.
  - cbn. constructor; cbn; try assumption; try (rewrite E; exact I). constructor; assumption.
Qed.

Lemma step_close strong s v : PI s -> GoodR PI (step strong s (3, v)).
Proof.
  intros HP. unfold step. cbn [Z.eqb Pos.eqb]. destruct HP as [h1 h2 h3 h4 h5 h6 h7 h8].
  destruct (ps_prev s) as [[pt pv]|] eqn:E; [reflexivity|].
  destruct (ps_stack s) as [|x r] eqn:E2; [reflexivity|]. inversion h7; subst.
  cbn. constructor; cbn; try assumption. rewrite E. exact I.
Qed.

Lemma step_bond strong s ty v : In ty [1; 4; 9] -> prevwf (Some (ty, v)) -> PI s -> GoodR PI (step strong s (ty, v)).
Proof.
  intros Hty Hv HP. unfold step. destruct HP as [h1 h2 h3 h4 h5 h6 h7 h8].
  cbn in Hty. destruct Hty as [<- | [<- | [<- | []]]]; cbn -[prevwf];
    (destruct (ps_prev s); [reflexivity|]; destruct (ps_atoms s) eqn:Eat; [reflexivity|]; rewrite <- Eat in *; cbn -[prevwf];
     constructor; cbn -[prevwf]; assumption).
Qed.

Lemma step_closure strong s k : PI s -> GoodR PI (step strong s (6, PInt k)).
Proof.
  intros HP. unfold step. cbn [Z.eqb Pos.eqb zmem existsb orb].
  pose proof HP as HP'. destruct HP as [h1 h2 h3 h4 h5 h6 h7 h8].
  destruct (match ps_prev s with Some (pt, _) => pt =? 4 | None => false end) eqn:Edot; [reflexivity|].
  assert (Hnd : match ps_prev s with Some (pt, _) => pt <> 4 | None => True end).
  { destruct (ps_prev s) as [[pt pv]|]; [apply Z.eqb_neq; exact Edot | exact I]. }
  destruct (zget (ps_cycles s) k) as [[[a ob] ind]|] eqn:Ec.
  - (* closing *)
    destruct (zget_Forall _ _ _ _ h6 Ec) as [k0 [Ha [Hind Hob]]].
    pose proof (close_bond_good strong s a ob HP' Ha Hob Hnd) as G.
    destruct (close_bond strong s a ob) as [[[[b sb] lg] x]|e]; [|exact G]. cbn in G.
    destruct (od_set_ok (ps_order s) a ind (Some (ps_last s)) Hind) as [o1 [-> Ho1]].
    cbn. constructor; cbn; try assumption; try exact I.
    + apply Forall_app. split; [assumption|]. constructor; [|constructor]. unfold bwf. repeat split; try lia. exact G.
    + apply Forall_zdel. eapply Forall_impl; [|exact h6]. intros c Hc. eapply cwf_mono; [| |exact Hc]; [lia|].
      intros k'. rewrite <- Ho1. apply olen_append_le.
  - (* opening *)
    cbn. constructor; cbn; try assumption; try exact I.
    apply Forall_app. split.
    + eapply Forall_impl; [|exact h6]. intros c Hc. eapply cwf_mono; [| |exact Hc]; [lia|].
      intros k'. rewrite <- (olen_touch (ps_order s) (ps_last s) k') at 1. apply olen_append_le.
    + constructor; [|constructor]. unfold cwf. split; [exact h4|]. split.
      * rewrite olen_append, Z.eqb_refl. unfold olen. lia.
      * destruct (ps_prev s) as [[pt pv]|]; [|exact I]. cbn in h8 |- *.
        destruct h8 as [h8 | [h8 | h8]]; [left; exact h8 | right; exact h8 | contradiction].
Qed.

(* the neighbour lists after linking the new atom *)
Lemma olen_link_le o last n k :
  (olen o k <= olen (od_append (od_append o last (Some n)) n (Some last)) k)%nat.
Proof. etransitivity; [apply (olen_append_le o last (Some n) k) | apply olen_append_le]. Qed.

Lemma step_atom strong s ty a : In ty [0; 8] -> PI s -> GoodR PI (step strong s (ty, PAtom a)).
Proof.
  intros Hty HP. pose proof HP as HP'. destruct HP as [h1 h2 h3 h4 h5 h6 h7 h8].
  assert (Hne : ps_atoms s <> []) by (intros E; rewrite E in h1; cbn in h1; lia).
  assert (Hbonds : forall bs, Forall (bwf (ps_n s + 1)) bs -> forall o, (forall k, (olen (ps_order s) k <= olen o k)%nat) ->
            forall sb pv,
            PI (mkP (ps_atoms s ++ [mkAt (at_el a) (at_iso a) (at_map a) (at_chg a) (at_h a) None]) (ps_types s ++ [ty]) bs o
                    (ps_n s + 1) (ps_n s) (ps_stack s) (ps_cycles s)
                    (match at_stereo a with Some x => ps_satoms s ++ [(ps_n s, x)] | None => ps_satoms s end) sb None pv)).
  { intros bs Hbs o Ho sb pv. constructor; cbn.
    - rewrite app_length. cbn. lia.
    - rewrite !app_length. cbn. lia.
    - lia.
    - lia.
    - exact Hbs.
    - eapply Forall_impl; [|exact h6]. intros c Hc. eapply cwf_mono; [| |exact Hc]; [lia | exact Ho].
    - eapply Forall_impl; [|exact h7]. cbn. intros; lia.
    - exact I. }
  assert (Hold : Forall (bwf (ps_n s + 1)) (ps_bonds s)).
  { eapply Forall_impl; [|exact h5]. intros b. apply bwf_mono. lia. }
  assert (Hnew : forall p, is_int p -> Forall (bwf (ps_n s + 1)) (ps_bonds s ++ [(ps_n s, ps_last s, p)])).
  { intros p Hp. apply Forall_app. split; [exact Hold|]. constructor; [|constructor]. unfold bwf. repeat split; try lia. exact Hp. }
  unfold step.
  assert (E1 : (ty =? 2) = false /\ (ty =? 3) = false /\ zmem ty [1; 4; 9; 10; 12] = false /\ (ty =? 6) = false).
  { cbn in Hty. destruct Hty as [<- | [<- | []]]; repeat split; reflexivity. }
  destruct E1 as [-> [-> [-> ->]]].
  destruct (ps_atoms s) as [|a0 ar] eqn:Eat; [contradiction|]. rewrite <- Eat in *.
  destruct (ps_prev s) as [[bt b]|] eqn:Epv.
  - cbn [prevwf] in h8. destruct h8 as [[-> [bo ->]] | [[-> [bb ->]] | ->]].
    + cbn. rewrite Eat. rewrite <- Eat. apply Hbonds; [apply Hnew; eexists; reflexivity | intros k; apply olen_link_le].
    + cbn -[sb_set]. destruct (type_at_ok s (ps_last s) h2 h1 h4) as [tl ->]. cbn -[sb_set]. rewrite Eat. rewrite <- Eat.
      apply Hbonds; [apply Hnew; apply arom_is_int | intros k; apply olen_link_le].
    + cbn. rewrite Eat. rewrite <- Eat. apply Hbonds; [exact Hold | intros k; lia].
  - destruct (type_at_ok s (ps_last s) h2 h1 h4) as [tl ->]. cbn. rewrite Eat. rewrite <- Eat.
    apply Hbonds; [apply Hnew; apply arom_is_int | intros k; apply olen_link_le].
Qed.

(* every token smiles_tokenize can return *)
Lemma swfb_cases t : swfb t = true ->
  (exists ty a, t = (ty, PAtom a) /\ In ty [0; 8]) \/ (exists o, t = (1, PInt o)) \/ (exists k, t = (6, PInt k)) \/
  (exists b, t = (9, PBool b)) \/ t = (2, PNone) \/ t = (3, PNone) \/ t = (4, PNone).
Proof.
  destruct t as [ty p]. destruct p; cbn [swfb snd fst]; intros H; try discriminate.
  - zcontra; tauto.
  - zcontra; [right; left | right; right; left]; eexists; reflexivity.
  - zcontra. right; right; right; left. eexists; reflexivity.
  - left. exists ty, a. split; [reflexivity|]. zcontra; tauto.
Qed.

Lemma step_good strong s t : swfb t = true -> PI s -> GoodR PI (step strong s t).
Proof.
  intros Ht HP. destruct (swfb_cases t Ht) as [[ty [a [-> Hty]]] | [[o ->] | [[k ->] | [[b ->] | [-> | [-> | ->]]]]]].
  - apply step_atom; assumption.
  - apply step_bond; [cbn; tauto | left; split; [reflexivity | eexists; reflexivity] | exact HP].
  - apply step_closure; exact HP.
  - apply step_bond; [cbn; tauto | right; left; split; [reflexivity | eexists; reflexivity] | exact HP].
  - apply step_open; exact HP.
  - apply step_close; exact HP.
  - apply step_bond; [cbn; tauto | right; right; reflexivity | exact HP].
Qed.

Lemma loop_good strong ts : forall s, forallb swfb ts = true -> PI s -> GoodR PI (loop strong s ts).
Proof.
  induction ts as [|t r IH]; intros s Hts HP; cbn [loop]; [exact HP|].
  cbn [forallb] in Hts. apply andb_prop in Hts. destruct Hts as [H1 H2].
  pose proof (step_good strong s t H1 HP) as G. destruct (step strong s t) as [s'|e]; [|exact G].
  apply IH; assumption.
Qed.

(* ------------------------------------------------------------------------------------------------ the whole parser *)
(* what the reader needs to know about a parsed record *)
Definition parsed_wf (p : parsed) : Prop :=
  p_atoms p <> [] /\ Forall (bwf (Z.of_nat (List.length (p_atoms p)))) (p_bonds p).

Lemma finish_good s : PI s -> GoodR parsed_wf (finish s).
Proof.
  intros HP. unfold finish, ISm. destruct (ps_stack s); [|reflexivity]. destruct (ps_cycles s); [|reflexivity].
  destruct (ps_prev s); [reflexivity|]. cbn. destruct HP as [h1 h2 h3 h4 h5 h6 h7 h8]. split; cbn.
  - intros E. rewrite E in h1. cbn in h1. lia.
  - rewrite <- h1. exact h5.
Qed.

(* the first atom: from the initial state, possibly after one '(' *)
Lemma first_atom strong ty a st : In ty [0; 8] -> st = [] \/ st = [0] ->
  GoodR PI (step strong (set_last_stack p_init 0 st) (ty, PAtom a)).
Proof.
  intros Hty Hst. unfold step.
  assert (E1 : (ty =? 2) = false /\ (ty =? 3) = false /\ zmem ty [1; 4; 9; 10; 12] = false /\ (ty =? 6) = false).
  { cbn in Hty. destruct Hty as [<- | [<- | []]]; repeat split; reflexivity. }
  destruct E1 as [-> [-> [-> ->]]]. cbn.
  constructor; cbn; try lia; try constructor.
  destruct Hst as [-> | ->]; [constructor | constructor; [lia | constructor]].
Qed.

(* parser(tokens, strong_cycle) on a NON-EMPTY list of smiles_tokenize tokens: a record or IncorrectSmiles.
   (parser([]) raises IndexError; tokenize_good shows smiles_tokenize never returns [] for a non-empty text) *)
Theorem parse_good ts strong : forallb swfb ts = true -> ts <> [] -> GoodR parsed_wf (parse ts strong).
Proof.
  intros Hts Hne. unfold parse, guard, ISm.
  destruct ts as [|[t1 v1] r]; [contradiction|].
  cbn [forallb] in Hts. apply andb_prop in Hts. destruct Hts as [H1 H2].
  assert (Loop : forall s, PI s -> forall r', forallb swfb r' = true ->
            GoodR parsed_wf (match loop strong s r' with Err e => Err e | Ok s' => finish s' end)).
  { intros s HP r' Hr'. pose proof (loop_good strong r' s Hr' HP) as G.
    destruct (loop strong s r') as [s'|e]; [apply finish_good; exact G | exact G]. }
  destruct (swfb_cases _ H1) as [[ty [a [E Hty]]] | [[o E] | [[k E] | [[b E] | [E | [E | E]]]]]]; inversion E; subst; clear E;
    try (cbn [Z.eqb Pos.eqb zmem existsb orb]; reflexivity).
  - (* atom first *)
    assert (G : GoodR PI (step strong p_init (ty, PAtom a))) by (apply (first_atom strong ty a [] Hty); left; reflexivity).
    cbn in Hty. destruct Hty as [<- | [<- | []]]; cbn [Z.eqb Pos.eqb zmem existsb orb]; cbn [loop];
      (destruct (step strong p_init _) as [s1|e]; [apply Loop; assumption | exact G]).
  - (* '(' first *)
    cbn [Z.eqb Pos.eqb].
    destruct r as [|[t2 v2] r2]; [reflexivity|].
    destruct (zmem t2 [0; 8]) eqn:Ez; [|reflexivity].
    cbn [forallb] in H2. apply andb_prop in H2. destruct H2 as [H2 H3].
    destruct (swfb_cases _ H2) as [[ty [a [E Hty]]] | [[o E] | [[k E] | [[b E] | [E | [E | E]]]]]]; inversion E; subst; clear E;
      try discriminate.
    cbn [loop]. change (step strong p_init (2, PNone)) with (Ok (set_last_stack p_init 0 [0])). cbn iota beta.
    pose proof (first_atom strong ty a [0] Hty (or_intror eq_refl)) as G.
    destruct (step strong (set_last_stack p_init 0 [0]) (ty, PAtom a)) as [s1|e]; [|exact G]. apply Loop; assumption.
Qed.

(* ================================================================================================ the raises of the parser *)
(* One lemma per `raise` of parser(): the guard fires exactly on the stated class of (state, token). *)

(* 'not atom started' (both occurrences): the text must begin with an atom, or with '(' followed by an atom *)
Lemma reject_not_atom_started ts :
  guard ts = Ok tt <->
  (exists t v r, ts = (t, v) :: r /\ t <> 2 /\ zmem t [0; 8] = true) \/
  (exists v t2 v2 r, ts = (2, v) :: (t2, v2) :: r /\ zmem t2 [0; 8] = true).
Proof.
  unfold guard, ISm. destruct ts as [|[t v] r]; [split; [discriminate | intros [[? [? [? [H _]]]] | [? [? [? [? [H _]]]]]]; discriminate]|].
  destruct (t =? 2) eqn:E.
  - apply Z.eqb_eq in E. subst t. destruct r as [|[t2 v2] r2].
    + split; [discriminate|]. intros [[? [? [? [H [N _]]]]] | [? [? [? [? [H _]]]]]]; inversion H; subst; contradiction.
    + destruct (zmem t2 [0; 8]) eqn:E2.
      * split; [intros _; right; exists v, t2, v2, r2; split; [reflexivity | exact E2] | reflexivity].
      * split; [discriminate|].
        intros [[? [? [? [H [N _]]]]] | [? [? [? [? [H Z2]]]]]]; inversion H; subst; [contradiction | rewrite Z2 in E2; discriminate].
  - apply Z.eqb_neq in E. destruct (zmem t [0; 8]) eqn:E2.
    + split; [intros _; left; exists t, v, r; repeat split; assumption | reflexivity].
    + split; [discriminate|].
      intros [[? [? [? [H [N Z2]]]]] | [? [? [? [? [H _]]]]]]; inversion H; subst; [rewrite Z2 in E2; discriminate | contradiction].
Qed.

(* 'bond before side chain': '(' after a pending bond that is not the dot *)
Lemma reject_bond_before_branch strong s v :
  step strong s (2, v) = Err IncorrectSmiles <-> exists pt pv, ps_prev s = Some (pt, pv) /\ pt <> 4.
Proof.
  unfold step, ISm. cbn [Z.eqb Pos.eqb]. destruct (ps_prev s) as [[pt pv]|].
  - destruct (pt =? 4) eqn:E; cbn.
    + split; [discriminate|]. intros [? [? [H N]]]. inversion H; subst. apply Z.eqb_eq in E. contradiction.
    + split; [|reflexivity]. intros _. exists pt, pv. split; [reflexivity | apply Z.eqb_neq; exact E].
  - split; [discriminate | intros [? [? [H _]]]; discriminate].
Qed.

(* 'bond before closure' and 'close chain more than open' *)
Lemma reject_close_branch strong s v :
  step strong s (3, v) = Err IncorrectSmiles <-> ps_prev s <> None \/ ps_stack s = [].
Proof.
  unfold step, ISm. cbn [Z.eqb Pos.eqb]. destruct (ps_prev s) as [p|].
  - split; [intros _; left; discriminate | reflexivity].
  - destruct (ps_stack s) as [|x r].
    + split; [intros _; right; reflexivity | reflexivity].
    + split; [discriminate | intros [H | H]; [contradiction | discriminate]].
Qed.

(* '2 bonds in a row' and 'started from bond' (bond tokens: 1 bond, 4 dot, 9 direction mark, 10 / 12 SMARTS bonds) *)
Lemma reject_bond_token strong s ty v : zmem ty [1; 4; 9; 10; 12] = true ->
  (step strong s (ty, v) = Err IncorrectSmiles <-> ps_prev s <> None \/ ps_atoms s = []) /\
  (forall s', step strong s (ty, v) = Ok s' -> ps_prev s' = Some (ty, v) /\ ps_stack s' = ps_stack s /\ ps_cycles s' = ps_cycles s).
Proof.
  intros Hty. unfold step, ISm.
  assert (E2 : (ty =? 2) = false /\ (ty =? 3) = false) by (zcontra; split; reflexivity).
  destruct E2 as [-> ->]. rewrite Hty.
  destruct (ps_prev s) as [p|]; [split; [split; [intros _; left; discriminate | reflexivity] | discriminate]|].
  destruct (ps_atoms s) as [|a r]; [split; [split; [intros _; right; reflexivity | reflexivity] | discriminate]|].
  split; [split; [discriminate | intros [H | H]; [contradiction | discriminate]]|].
  intros s' H. inversion H; subst. cbn. repeat split; reflexivity.
Qed.

(* 'dot-cycle pattern invalid' *)
Lemma reject_dot_closure strong s k pv : ps_prev s = Some (4, pv) -> step strong s (6, PInt k) = Err IncorrectSmiles.
Proof. intros H. unfold step. cbn [Z.eqb Pos.eqb zmem existsb orb]. rewrite H. reflexivity. Qed.

(* 'not equal cycle bonds', strong mode: the closure was opened with a bond symbol and is closed without one (C=1CC1), or
   opened without and closed with one (C1CC=1); direction marks excepted *)
Lemma reject_closure_bond_strong s a obt obv :
  ps_prev s = None -> obt <> 9 -> close_bond true s a (Some (obt, obv)) = Err IncorrectSmiles.
Proof. intros H N. unfold close_bond. rewrite H. apply Z.eqb_neq in N. rewrite N. reflexivity. Qed.
Lemma reject_closure_bond_strong' s a bt b :
  ps_prev s = Some (bt, b) -> bt <> 9 -> close_bond true s a None = Err IncorrectSmiles.
Proof. intros H N. unfold close_bond. rewrite H. apply Z.eqb_neq in N. rewrite N. reflexivity. Qed.
(* 'not equal cycle bonds', both modes: two different explicit bond symbols (C=1CC#1) *)
Lemma reject_closure_bond_mismatch strong s a o1 o2 :
  ps_prev s = Some (1, PInt o2) -> o1 <> o2 -> close_bond strong s a (Some (1, PInt o1)) = Err IncorrectSmiles.
Proof.
  intros H N. unfold close_bond. rewrite H. cbn. assert (E : (o2 =? o1) = false) by (apply Z.eqb_neq; congruence).
  rewrite E. reflexivity.
Qed.
(* ... and a direction mark against a bond symbol other than '-' (C=1CC/1, C/1CC=1) *)
Lemma reject_closure_direction_vs_bond strong s a o b : o <> 1 ->
  (ps_prev s = Some (9, PBool b) -> close_bond strong s a (Some (1, PInt o)) = Err IncorrectSmiles) /\
  (ps_prev s = Some (1, PInt o) -> close_bond strong s a (Some (9, PBool b)) = Err IncorrectSmiles).
Proof.
  intros N. assert (E : (o =? 1) = false) by (apply Z.eqb_neq; exact N).
  split; intros H; unfold close_bond; rewrite H; cbn; rewrite E; reflexivity.
Qed.

(* the three final checks: 'number of ( does not equal to number of )', 'cycle is not finished', 'bond on the end' *)
Lemma reject_at_end s :
  finish s = Err IncorrectSmiles <-> ps_stack s <> [] \/ ps_cycles s <> [] \/ ps_prev s <> None.
Proof.
  unfold finish, ISm. destruct (ps_stack s); [|split; [intros _; left; discriminate | reflexivity]].
  destruct (ps_cycles s); [|split; [intros _; right; left; discriminate | reflexivity]].
  destruct (ps_prev s); [split; [intros _; right; right; discriminate | reflexivity]|].
  split; [discriminate | intros [H | [H | H]]; contradiction].
Qed.

(* ================================================================================================ implicit bond choice *)
Lemma arom_or_single_spec x y : arom_or_single x y = if (x =? 8) && (y =? 8) then PInt 4 else PInt 1.
Proof.
  unfold arom_or_single. destruct (x =? 8) eqn:E1, (y =? 8) eqn:E2, (x =? y) eqn:E3; cbn; try reflexivity;
    try apply Z.eqb_eq in E1; try apply Z.eqb_eq in E2; try apply Z.eqb_eq in E3; try apply Z.eqb_neq in E1; try apply Z.eqb_neq in E2;
    try apply Z.eqb_neq in E3; subst; try lia; contradiction.
Qed.

(* an atom written directly after another atom (no bond symbol), or after a direction mark: the bond inserted is aromatic (4)
   iff both tokens are aromatic atoms (type 8), else single (1) *)
Theorem implicit_bond_chain strong s ty a s' :
  ps_atoms s <> [] -> (ps_prev s = None \/ exists b, ps_prev s = Some (9, PBool b)) ->
  In ty [0; 8] -> step strong s (ty, PAtom a) = Ok s' ->
  exists tl, type_at s (ps_last s) = Ok tl /\
             ps_bonds s' = ps_bonds s ++ [(ps_n s, ps_last s, if (ty =? 8) && (tl =? 8) then PInt 4 else PInt 1)].
Proof.
  intros Hne Hpv Hty H. unfold step in H.
  assert (E1 : (ty =? 2) = false /\ (ty =? 3) = false /\ zmem ty [1; 4; 9; 10; 12] = false /\ (ty =? 6) = false).
  { cbn in Hty. destruct Hty as [<- | [<- | []]]; repeat split; reflexivity. }
  destruct E1 as [E1 [E2 [E3 E4]]]. rewrite E1, E2, E3, E4 in H.
  destruct (ps_atoms s) as [|a0 ar] eqn:Eat; [contradiction|].
  destruct Hpv as [Hpv | [b Hpv]]; rewrite Hpv in H; cbn -[sb_set] in H;
    destruct (type_at s (ps_last s)) as [tl|e]; try discriminate; cbn -[sb_set] in H; inversion H; subst; cbn;
    exists tl; (split; [reflexivity|]); rewrite arom_or_single_spec; reflexivity.
Qed.

(* an unmarked ring closure, or one carrying only direction marks (at either or both ends): same choice between the two
   atoms it joins *)
Theorem implicit_bond_closure strong s a ob r :
  (ps_prev s = None \/ exists b, ps_prev s = Some (9, PBool b)) -> (ob = None \/ exists b, ob = Some (9, PBool b)) ->
  close_bond strong s a ob = Ok r ->
  exists tl ta, type_at s (ps_last s) = Ok tl /\ type_at s a = Ok ta /\
                fst (fst (fst r)) = if (tl =? 8) && (ta =? 8) then PInt 4 else PInt 1.
Proof.
  intros Hpv Hob H. unfold close_bond, arom_at in H.
  destruct (type_at s (ps_last s)) as [tl|e] eqn:E1.
  2:{ destruct Hpv as [Hpv | [b Hpv]]; destruct Hob as [-> | [b' ->]]; rewrite Hpv in H; cbn in H; discriminate. }
  destruct (type_at s a) as [ta|e] eqn:E2.
  2:{ destruct Hpv as [Hpv | [b Hpv]]; destruct Hob as [-> | [b' ->]]; rewrite Hpv in H; cbn in H; discriminate. }
  exists tl, ta. split; [reflexivity|]. split; [reflexivity|]. rewrite <- arom_or_single_spec.
  destruct Hpv as [Hpv | [b Hpv]]; destruct Hob as [-> | [b' ->]]; rewrite Hpv in H; cbn -[arom_or_single sb_set] in H;
    inversion H; subst; reflexivity.
Qed.

(* an explicit bond symbol is taken as written *)
Theorem explicit_bond_chain strong s ty a o s' :
  ps_atoms s <> [] -> ps_prev s = Some (1, PInt o) -> In ty [0; 8] -> step strong s (ty, PAtom a) = Ok s' ->
  ps_bonds s' = ps_bonds s ++ [(ps_n s, ps_last s, PInt o)].
Proof.
  intros Hne Hpv Hty H. unfold step in H.
  assert (E1 : (ty =? 2) = false /\ (ty =? 3) = false /\ zmem ty [1; 4; 9; 10; 12] = false /\ (ty =? 6) = false).
  { cbn in Hty. destruct Hty as [<- | [<- | []]]; repeat split; reflexivity. }
  destruct E1 as [E1 [E2 [E3 E4]]]. rewrite E1, E2, E3, E4 in H.
  destruct (ps_atoms s) as [|a0 ar] eqn:Eat; [contradiction|]. rewrite Hpv in H. cbn in H. inversion H; subst. reflexivity.
Qed.

(* the dot joins nothing *)
Theorem dot_no_bond strong s ty a pv s' :
  ps_atoms s <> [] -> ps_prev s = Some (4, pv) -> In ty [0; 8] -> step strong s (ty, PAtom a) = Ok s' -> ps_bonds s' = ps_bonds s.
Proof.
  intros Hne Hpv Hty H. unfold step in H.
  assert (E1 : (ty =? 2) = false /\ (ty =? 3) = false /\ zmem ty [1; 4; 9; 10; 12] = false /\ (ty =? 6) = false).
  { cbn in Hty. destruct Hty as [<- | [<- | []]]; repeat split; reflexivity. }
  destruct E1 as [E1 [E2 [E3 E4]]]. rewrite E1, E2, E3, E4 in H.
  destruct (ps_atoms s) as [|a0 ar] eqn:Eat; [contradiction|]. rewrite Hpv in H. cbn in H. inversion H; subst. reflexivity.
Qed.

(* ================================================================================================ input-level rejection *)
(* what one step does to the branch stack and to `previous` *)
Lemma step_stack strong s ty v s' : step strong s (ty, v) = Ok s' ->
  ps_stack s' = (if ty =? 2 then ps_last s :: ps_stack s else if ty =? 3 then tl (ps_stack s) else ps_stack s) /\
  (ty =? 3 = true -> ps_stack s <> []) /\
  (zmem ty [1; 4; 9; 10; 12] = true -> ps_prev s = None /\ ps_prev s' = Some (ty, v)).
Proof.
  unfold step, ISm. intros H.
  destruct (ty =? 2) eqn:E2.
  { apply Z.eqb_eq in E2. subst ty. cbn [Z.eqb Pos.eqb zmem existsb orb].
    destruct (ps_prev s) as [[pt pv]|]; [destruct (negb (pt =? 4)); [discriminate|]|]; inversion H; subst; cbn;
      (split; [reflexivity | split; [discriminate | discriminate]]). }
  destruct (ty =? 3) eqn:E3.
  { apply Z.eqb_eq in E3. subst ty. cbn [Z.eqb Pos.eqb zmem existsb orb].
    destruct (ps_prev s); [discriminate|]. destruct (ps_stack s) as [|x r]; [discriminate|]. inversion H; subst; cbn.
    split; [reflexivity | split; [discriminate | discriminate]]. }
  destruct (zmem ty [1; 4; 9; 10; 12]) eqn:Eb.
  { destruct (ps_prev s); [discriminate|]. destruct (ps_atoms s); [discriminate|]. inversion H; subst; cbn.
    split; [reflexivity | split; [discriminate | intros _; split; reflexivity]]. }
  assert (K : ps_stack s' = ps_stack s); [|split; [exact K | split; discriminate]].
  destruct (ty =? 6).
  - destruct (match ps_prev s with Some (pt, _) => pt =? 4 | None => false end); [discriminate|].
    destruct v; try discriminate. destruct (zget (ps_cycles s) z) as [[[a ob] ind]|].
    + destruct (close_bond strong s a ob) as [[[[b sb] lg] x]|]; [|discriminate].
      destruct (od_set (ps_order s) a ind (Some (ps_last s))); [|discriminate]. inversion H; subst. reflexivity.
    + inversion H; subst. reflexivity.
  - match type of H with match ?X with _ => _ end = _ => destruct X as [[[bonds order] sb]|]; [|discriminate] end.
    destruct v; try discriminate. inversion H; subst. reflexivity.
Qed.

Lemma loop_app strong a : forall s b,
  loop strong s (a ++ b) = match loop strong s a with Ok s1 => loop strong s1 b | Err e => Err e end.
Proof.
  induction a as [|t r IH]; intros s b; cbn [loop app]; [reflexivity|].
  destruct (step strong s t); [apply IH | reflexivity].
Qed.

(* nesting depth of '(' / ')' along the tokens: None as soon as a ')' has no partner *)
Fixpoint depth_run (d : nat) (ts : list token) : option nat :=
  match ts with
  | [] => Some d
  | (ty, _) :: r => if ty =? 2 then depth_run (S d) r
                    else if ty =? 3 then match d with O => None | S d' => depth_run d' r end
                    else depth_run d r
  end.

Lemma loop_depth strong ts : forall s s', loop strong s ts = Ok s' ->
  depth_run (List.length (ps_stack s)) ts = Some (List.length (ps_stack s')).
Proof.
  induction ts as [|[ty v] r IH]; intros s s' H; cbn [loop depth_run] in *; [inversion H; reflexivity|].
  destruct (step strong s (ty, v)) as [s1|e] eqn:E; [|discriminate].
  destruct (step_stack strong s ty v s1 E) as [K1 [K2 _]]. specialize (IH s1 s' H).
  destruct (ty =? 2); [rewrite K1 in IH; exact IH|].
  destruct (ty =? 3).
  - destruct (ps_stack s) as [|x st]; [exfalso; apply K2; reflexivity|]. rewrite K1 in IH. exact IH.
  - rewrite K1 in IH. exact IH.
Qed.

(* 'number of ( does not equal to number of )' / 'close chain more than open': an accepted token list is balanced *)
Theorem reject_unbalanced ts strong p : parse ts strong = Ok p -> depth_run 0 ts = Some 0%nat.
Proof.
  unfold parse. destruct (guard ts); [|discriminate]. destruct (loop strong p_init ts) as [s|e] eqn:E; [|discriminate].
  intros F. pose proof (loop_depth strong ts p_init s E) as D. cbn in D. rewrite D.
  unfold finish in F. destruct (ps_stack s); [reflexivity | discriminate].
Qed.

(* 'bond on the end': an accepted token list does not end with a bond symbol, a direction mark or a dot *)
Theorem reject_dangling_bond ts ty v strong p : parse (ts ++ [(ty, v)]) strong = Ok p -> zmem ty [1; 4; 9; 10; 12] = false.
Proof.
  unfold parse. destruct (guard _); [|discriminate]. rewrite loop_app.
  destruct (loop strong p_init ts) as [s|e]; [|discriminate]. cbn [loop].
  destruct (step strong s (ty, v)) as [s1|e] eqn:E; [|discriminate]. intros F.
  destruct (zmem ty [1; 4; 9; 10; 12]) eqn:Eb; [|reflexivity].
  destruct (step_stack strong s ty v s1 E) as [_ [_ K]]. destruct (K Eb) as [_ K2].
  unfold finish in F. rewrite K2 in F. destruct (ps_stack s1); [|discriminate]. destruct (ps_cycles s1); discriminate.
Qed.

(* '2 bonds in a row': no two adjacent bond symbols / direction marks / dots *)
Theorem reject_two_bonds a t1 v1 t2 v2 b strong p : parse (a ++ (t1, v1) :: (t2, v2) :: b) strong = Ok p ->
  zmem t1 [1; 4; 9; 10; 12] && zmem t2 [1; 4; 9; 10; 12] = false.
Proof.
  unfold parse. destruct (guard _); [|discriminate]. rewrite loop_app.
  destruct (loop strong p_init a) as [s|e]; [|discriminate]. cbn [loop].
  destruct (step strong s (t1, v1)) as [s1|e] eqn:E1; [|discriminate].
  destruct (step strong s1 (t2, v2)) as [s2|e] eqn:E2; [|discriminate]. intros _.
  destruct (zmem t1 [1; 4; 9; 10; 12]) eqn:B1; [|reflexivity]. destruct (zmem t2 [1; 4; 9; 10; 12]) eqn:B2; [|reflexivity].
  destruct (step_stack strong s t1 v1 s1 E1) as [_ [_ K]]. destruct (K B1) as [_ K1].
  destruct (step_stack strong s1 t2 v2 s2 E2) as [_ [_ K']]. destruct (K' B2) as [K2 _]. rewrite K1 in K2. discriminate.
Qed.

(* non-vacuity of the rejection theorems: texts that are balanced / well ended are accepted, the others are not *)
Example reject_examples :
  (exists p, parse [(0, PAtom (simple_atom "C")); (2, PNone); (1, PInt 2); (0, PAtom (simple_atom "O")); (3, PNone); (0, PAtom (simple_atom "C"))] true = Ok p) /\
  parse [(0, PAtom (simple_atom "C")); (2, PNone); (0, PAtom (simple_atom "O"))] true = Err IncorrectSmiles /\
  parse [(0, PAtom (simple_atom "C")); (3, PNone)] true = Err IncorrectSmiles /\
  parse [(0, PAtom (simple_atom "C")); (1, PInt 2)] true = Err IncorrectSmiles /\
  parse [(0, PAtom (simple_atom "C")); (1, PInt 2); (1, PInt 1); (0, PAtom (simple_atom "C"))] true = Err IncorrectSmiles /\
  parse [(0, PAtom (simple_atom "C")); (6, PInt 1)] true = Err IncorrectSmiles.
Proof. repeat split; try (eexists; vm_compute; reflexivity); vm_compute; reflexivity. Qed.

(* ---- 'cycle is not finished': every ring-closure number is used an even number of times *)
Definition is_open (s : pstate) (k : Z) : bool := match zget (ps_cycles s) k with Some _ => true | None => false end.
Definition is_closure (t : token) (k : Z) : bool := match t with (ty, PInt j) => (ty =? 6) && (j =? k) | _ => false end.
Fixpoint closure_parity (k : Z) (ts : list token) : bool :=
  match ts with [] => false | t :: r => if is_closure t k then negb (closure_parity k r) else closure_parity k r end.

Lemma zget_zdel_other {V} (d : list (Z * V)) k k' : k' <> k -> zget (zdel d k) k' = zget d k'.
Proof.
  intros N. induction d as [|[k0 v] r IH]; cbn; [reflexivity|]. destruct (k =? k0) eqn:E.
  - apply Z.eqb_eq in E. subst k0. destruct (k' =? k) eqn:E2; [apply Z.eqb_eq in E2; contradiction | reflexivity].
  - cbn. destruct (k' =? k0); [reflexivity | exact IH].
Qed.

Lemma zget_None_keys {V} (d : list (Z * V)) k : zget d k = None <-> ~ In k (keys d).
Proof.
  induction d as [|[k0 v] r IH]; cbn; [tauto|]. destruct (k =? k0) eqn:E.
  - apply Z.eqb_eq in E. subst. split; [discriminate | intros H; exfalso; apply H; left; reflexivity].
  - apply Z.eqb_neq in E. rewrite IH. split; [intros H [H1 | H1]; [congruence | contradiction] | tauto].
Qed.

Lemma zdel_keys {V} (d : list (Z * V)) k : NoDup (keys d) -> NoDup (keys (zdel d k)) /\ zget (zdel d k) k = None /\
  (forall x, In x (keys (zdel d k)) -> In x (keys d)).
Proof.
  induction d as [|[k0 v] r IH]; intros H; cbn; [split; [constructor | split; [reflexivity | tauto]]|].
  cbn in H. inversion H; subst. destruct (k =? k0) eqn:E.
  - apply Z.eqb_eq in E. subst k0. split; [assumption|]. split; [apply zget_None_keys; assumption | intros x Hx; right; exact Hx].
  - destruct (IH H3) as [I1 [I2 I3]]. cbn. rewrite E. split; [|split; [exact I2 | intros x [Hx | Hx]; [left; exact Hx | right; apply I3; exact Hx]]].
    constructor; [intros Hin; apply H2; apply I3; exact Hin | exact I1].
Qed.

Lemma NoDup_snoc {A} (l : list A) x : NoDup l -> ~ In x l -> NoDup (l ++ [x]).
Proof.
  induction l as [|y r IH]; intros H N; cbn; [constructor; [intros [] | constructor]|].
  inversion H; subst. constructor.
  - intros Hin. apply in_app_or in Hin. destruct Hin as [Hin | [<- | []]]; [contradiction | apply N; left; reflexivity].
  - apply IH; [assumption | intros Hin; apply N; right; exact Hin].
Qed.

Lemma step_cycles strong s t s' : step strong s t = Ok s' -> NoDup (keys (ps_cycles s)) ->
  NoDup (keys (ps_cycles s')) /\ forall k, is_open s' k = if is_closure t k then negb (is_open s k) else is_open s k.
Proof.
  destruct t as [ty v]. unfold step, ISm, is_open. intros H ND.
  assert (Same : ps_cycles s' = ps_cycles s -> (ty =? 6) = false ->
                 NoDup (keys (ps_cycles s')) /\ forall k, (match zget (ps_cycles s') k with Some _ => true | None => false end) =
                   if is_closure (ty, v) k then negb (match zget (ps_cycles s) k with Some _ => true | None => false end)
                   else (match zget (ps_cycles s) k with Some _ => true | None => false end)).
  { intros E E6. rewrite E. split; [exact ND|]. intros k. destruct v; cbn [is_closure]; try reflexivity. rewrite E6. reflexivity. }
  destruct (ty =? 2) eqn:E2.
  { apply Same; [|apply Z.eqb_eq in E2; subst; reflexivity].
    destruct (ps_prev s) as [[pt pv]|]; [destruct (negb (pt =? 4)); [discriminate|]|]; inversion H; reflexivity. }
  destruct (ty =? 3) eqn:E3.
  { apply Same; [|apply Z.eqb_eq in E3; subst; reflexivity].
    destruct (ps_prev s); [discriminate|]. destruct (ps_stack s); [discriminate|]. inversion H; reflexivity. }
  destruct (zmem ty [1; 4; 9; 10; 12]) eqn:Eb.
  { apply Same; [|destruct (ty =? 6) eqn:E6; [apply Z.eqb_eq in E6; subst; discriminate | reflexivity]].
    destruct (ps_prev s); [discriminate|]. destruct (ps_atoms s); [discriminate|]. inversion H; reflexivity. }
  destruct (ty =? 6) eqn:E6.
  - destruct (match ps_prev s with Some (pt, _) => pt =? 4 | None => false end); [discriminate|].
    destruct v; try discriminate. cbn [is_closure]. rewrite E6. cbn [andb].
    destruct (zget (ps_cycles s) z) as [[[a ob] ind]|] eqn:Ez.
    + destruct (close_bond strong s a ob) as [[[[b sb] lg] x]|]; [|discriminate].
      destruct (od_set (ps_order s) a ind (Some (ps_last s))); [|discriminate]. inversion H; subst. cbn.
      destruct (zdel_keys (ps_cycles s) z ND) as [D1 [D2 _]]. split; [exact D1|]. intros k.
      destruct (z =? k) eqn:Ek.
      * apply Z.eqb_eq in Ek. subst k. rewrite D2, Ez. reflexivity.
      * apply Z.eqb_neq in Ek. rewrite zget_zdel_other; [|congruence]. reflexivity.
    + inversion H; subst. cbn. split.
      * unfold keys. rewrite map_app. cbn. apply NoDup_snoc; [exact ND | apply zget_None_keys; exact Ez].
      * intros k. rewrite zget_app. destruct (z =? k) eqn:Ek.
        -- apply Z.eqb_eq in Ek. subst k. rewrite Ez. cbn. rewrite Z.eqb_refl. reflexivity.
        -- destruct (zget (ps_cycles s) k); [reflexivity|]. cbn. rewrite Z.eqb_sym, Ek. reflexivity.
  - apply Same; [|reflexivity].
    match type of H with match ?X with _ => _ end = _ => destruct X as [[[bonds order] sb]|]; [|discriminate] end.
    destruct v; try discriminate. inversion H; reflexivity.
Qed.

Lemma loop_cycles strong ts : forall s s', loop strong s ts = Ok s' -> NoDup (keys (ps_cycles s)) ->
  NoDup (keys (ps_cycles s')) /\ forall k, is_open s' k = if closure_parity k ts then negb (is_open s k) else is_open s k.
Proof.
  induction ts as [|t r IH]; intros s s' H ND; cbn [loop closure_parity] in *; [inversion H; subst; split; [exact ND | reflexivity]|].
  destruct (step strong s t) as [s1|e] eqn:E; [|discriminate].
  destruct (step_cycles strong s t s1 E ND) as [N1 O1]. destruct (IH s1 s' H N1) as [N2 O2]. split; [exact N2|].
  intros k. rewrite O2, O1. destruct (is_closure t k), (closure_parity k r), (is_open s k); reflexivity.
Qed.

(* an accepted token list uses every ring-closure number an even number of times (each opening has its closing) *)
Theorem reject_open_closure ts strong p : parse ts strong = Ok p -> forall k, closure_parity k ts = false.
Proof.
  unfold parse. destruct (guard ts); [|discriminate]. destruct (loop strong p_init ts) as [s|e] eqn:E; [|discriminate].
  intros F k. destruct (loop_cycles strong ts p_init s E) as [_ O]; [constructor|]. specialize (O k).
  unfold finish in F. destruct (ps_stack s); [|discriminate]. destruct (ps_cycles s) eqn:Ec; [|discriminate].
  unfold is_open in O. rewrite Ec in O. cbn in O. destruct (closure_parity k ts); [discriminate | reflexivity].
Qed.

Lemma reject_closure_bond_strong_both s a :
  (forall obt obv, ps_prev s = None -> obt <> 9 -> close_bond true s a (Some (obt, obv)) = Err IncorrectSmiles) /\
  (forall bt b, ps_prev s = Some (bt, b) -> bt <> 9 -> close_bond true s a None = Err IncorrectSmiles).
Proof. split; [exact (reject_closure_bond_strong s a) | exact (reject_closure_bond_strong' s a)]. Qed.
