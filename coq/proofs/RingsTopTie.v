(* C06 -- round 4: TIE BY TRANSLATION of the top of the perception: Rings.rings_count, Rings.sssr and the pipeline _sssr
   (_skin_graph -> _bfs -> _make_pid -> _c_set -> _rings_filter).  coq/gen/RingsTopBody.v is regenerated on every check run
   (tools/gen_ringstop.py); the end-to-end model sssr_model / rings_count, about which the acceptance and canonical-spelling theorems are
   stated and which the correspondence compares with the real perception, is equal to the translated composition. *)
From Coq Require Import ZArith List Bool.
From Model Require Import PyBase Graph Rings RingsFilter RingsGen.
From Gen Require Import RingsTopBody.
Import ListNotations.
Open Scope Z_scope.

(* sum(len(x) for x in bonds.values()) // 2 - len(bonds) + len(_connected_components(bonds)) *)
Theorem rings_count_translated : forall g, gen_rings_count g = rings_count g.
Proof. intro g. reflexivity. Qed.

Theorem sssr_fn_translated : forall g n o,
  gen_sssr_fn g n o = match candidates g o with Err x => Err x | Ok cs => rings_filter cs (Z.to_nat n) end.
Proof.
  intros g n o. unfold gen_sssr_fn, candidates. destruct (skin_graph g) as [sk|x]; [|reflexivity].
  destruct (bfs_paths sk o) as [paths|x]; [|reflexivity]. destruct (make_pid paths) as [[p1 p2] d]. reflexivity.
Qed.

Theorem sssr_translated : forall g o, gen_sssr g o = sssr_model g o.
Proof.
  intros g o. unfold gen_sssr, sssr_model. rewrite rings_count_translated. destruct (rings_count g) as [n|x]; [|reflexivity].
  destruct (n =? 0); cbn [negb]; [reflexivity | apply sssr_fn_translated].
Qed.

Example sssr_translated_example :
  gen_sssr [(1, [2; 3]); (2, [1; 3]); (3, [1; 2])] [[1]; [2; 3]] = Ok [[1; 2; 3]] /\ gen_rings_count [(1, [2]); (2, [1; 9])] = Err KeyError.
Proof. split; vm_compute; reflexivity. Qed.
