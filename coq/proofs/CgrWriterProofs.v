(* C15 -- str() of a condensed graph under renumbering: the renumbering lemmas of the writer model of C02
   (Proofs.WriterInvProofs: traverse_ren, flatten_ren, ring_positions_ren, number_atoms_ren, order_neighbours_ren,
   emit_ren -- all generic in the token functions) carried through the generic-token `gcomponent`, then instantiated
   with the skeleton molecule of a condensed graph, its Morgan ranks and CGRSmiles' token functions. *)
From Coq Require Import ZArith List String Bool Lia Permutation.
From Model Require Import PyBase PyHash Graph Morgan Writer Compose CgrMorgan CgrWriter.
From Proofs Require Import MorganProofs WriterInvProofs ComposeProofs RxnComposeProofs CgrMorganProofs.
Import ListNotations.
Open Scope Z_scope.

(* ==================================================================================================== *)
(* 1. gcomponent / gcomponents / gsmiles_text under renumbering (the proof of WriterInvProofs.component_ren with the
      token functions as parameters)                                                                                  *)
Section GComponentRen.
  Variable g : mol.
  Variable s w w' tb tb' : Z -> Z.
  Variable o : opts.
  Variable fat fat' : Z -> pyres string.
  Variable fa fa' : Z -> Z -> pyres string.
  Hypothesis Hwf : wf_mol g = true.
  Hypothesis s_inj : forall x y, s x = s y -> x = y.
  Hypothesis w_inj : Morgan.inj_on (ids g) w.
  Hypothesis w_ren : forall n, In n (ids g) -> w' (s n) = w n.
  Hypothesis Hfat : forall n, fat' (s n) = fat n.
  Hypothesis Hfa : forall n m, fa' (s n) (s m) = fa n m.

  Lemma gfilter_not_visited visited l :
    filter (fun n => negb (zhas (ren_vis s visited) n)) (map s l) = map s (filter (fun n => negb (zhas visited n)) l).
  Proof.
    induction l as [|x l IH]; cbn; [reflexivity|]. unfold ren_vis at 1. rewrite (zhas_renG s s_inj (map s)).
    destruct (zhas visited x); cbn; fold (ren_vis s visited); rewrite IH; reflexivity.
  Qed.

  Theorem gcomponent_ren st st' : incl (ws_atoms st) (ids g) -> wstate_rel s st st' ->
    wres_rel s (gcomponent g w tb o fat fa (ids g) st) (gcomponent (ren_mol s g) w' tb' o fat' fa' (map s (ids g)) st').
  Proof.
    intros Hi [Hp [Hse [Hcy [Hca [Hhe [Hout [Hord Hvb]]]]]]]. unfold gcomponent.
    rewrite (traverse_ren g s w w' tb tb' o Hwf s_inj w_inj w_ren st st' Hi Hp Hse Hcy).
    destruct (traverse g w tb o (ids g) st) as [t|e]; cbn [ren_tres wres_rel]; [|reflexivity].
    rewrite (flatten_ren s s_inj g t).
    destruct (flatten g t) as [smi|e]; cbn [ren_toks wres_rel]; [|reflexivity].
    unfold ren_traversal, ren_dfs. cbn [tr_dfs tr_seen tr_start ds_tokens ds_edges ds_visited ds_cycle].
    rewrite (ring_positions_ren s s_inj), Hca, Hhe, (number_atoms_ren s s_inj).
    destruct (number_atoms (ds_tokens (tr_dfs t)) _ _ (ws_casted st) (ws_heap st)) as [[casted heap]|e]; cbn [wres_rel]; [|reflexivity].
    rewrite (order_neighbours_ren s s_inj).
    destruct (order_neighbours smi casted (ds_edges (tr_dfs t)) (ds_tokens (tr_dfs t)) (ds_visited (tr_dfs t))) as [tokens visited] eqn:E.
    cbn [fst snd]. rewrite Hvb.
    rewrite (emit_ren s s_inj o fa fa' fat fat') by (intros; first [apply Hfat | apply Hfa]).
    destruct (Writer.emit o fat fa smi tokens casted (ws_vb st)) as [[[out ord] vb]|e]; cbn [ren_emit wres_rel]; [|reflexivity].
    assert (Permutation (map s (filter (fun n => negb (zhas visited n)) (ws_atoms st)))
                        (filter (fun n => negb (zhas (ren_vis s visited) n)) (ws_atoms st'))) as Hrest.
    { rewrite <- gfilter_not_visited. apply filter_perm. exact Hp. }
    unfold wstate_rel. cbn [ws_atoms ws_seen ws_cycle ws_casted ws_heap ws_out ws_order ws_vb].
    repeat split; try reflexivity.
    - exact Hrest.
    - rewrite Hout, !map_app. f_equal. f_equal.
      destruct (filter (fun n => negb (zhas visited n)) (ws_atoms st)) as [|r0 rr];
        destruct (filter (fun n => negb (zhas (ren_vis s visited) n)) (ws_atoms st')) as [|q0 qq]; try reflexivity.
      + apply Permutation_nil in Hrest. discriminate.
      + apply Permutation_sym, Permutation_nil in Hrest. discriminate.
    - rewrite Hord, map_app. reflexivity.
  Qed.

  Lemma gcomponent_atoms_incl st st2 : gcomponent g w tb o fat fa (ids g) st = Ok st2 -> incl (ws_atoms st2) (ws_atoms st).
  Proof.
    unfold gcomponent. destruct (traverse g w tb o (ids g) st) as [t|]; [|discriminate].
    destruct (flatten g t) as [smi|]; [|discriminate].
    destruct (number_atoms _ _ _ _ _) as [[casted heap]|]; [|discriminate].
    destruct (order_neighbours _ _ _ _ _) as [tokens visited].
    destruct (Writer.emit _ _ _ _ _ _ _) as [[[out ord] vb]|]; [|discriminate].
    intros [= <-]. cbn [ws_atoms]. intros x Hx. apply filter_In in Hx. apply Hx.
  Qed.

  Lemma gcomponents_ren fuel : forall st st', incl (ws_atoms st) (ids g) -> wstate_rel s st st' ->
    wres_rel s (gcomponents g w tb o fat fa fuel (ids g) st) (gcomponents (ren_mol s g) w' tb' o fat' fa' fuel (map s (ids g)) st').
  Proof.
    induction fuel as [|fuel IH]; intros st st' Hi Hrel; cbn [gcomponents]; [reflexivity|].
    pose proof (gcomponent_ren st st' Hi Hrel) as Hc.
    destruct (gcomponent g w tb o fat fa (ids g) st) as [a|e] eqn:Ea;
      destruct (gcomponent (ren_mol s g) w' tb' o fat' fa' (map s (ids g)) st') as [b|e'] eqn:Eb; cbn [wres_rel] in Hc; try contradiction.
    - pose proof Hc as [Hp _].
      destruct (ws_atoms a) as [|a0 ar] eqn:Eaa; destruct (ws_atoms b) as [|b0 br] eqn:Ebb.
      + exact Hc.
      + apply Permutation_nil in Hp. discriminate.
      + apply Permutation_sym, Permutation_nil in Hp. discriminate.
      + apply IH; [|exact Hc]. intros x Hx. apply Hi. apply (gcomponent_atoms_incl st a Ea). exact Hx.
    - exact Hc.
  Qed.

  (* the same text; the written order mapped by s *)
  Theorem gsmiles_text_ren : gsmiles_text (ren_mol s g) w' tb' o fat' fa' = map_order s (gsmiles_text g w tb o fat fa).
  Proof.
    assert (wstate_rel s (init_state g) (init_state (ren_mol s g))) as Hrel.
    { unfold init_state, wstate_rel. cbn [ws_atoms ws_seen ws_cycle ws_casted ws_heap ws_out ws_order ws_vb].
      rewrite ids_ren_mol. repeat split; reflexivity || apply Permutation_refl. }
    pose proof (gcomponents_ren (S (n_atoms g)) (init_state g) (init_state (ren_mol s g)) (incl_refl _) Hrel) as Hc.
    unfold gsmiles_text. rewrite ids_ren_mol, n_atoms_ren.
    destruct (gcomponents g w tb o fat fa (S (n_atoms g)) (ids g) (init_state g)) as [a|e];
      destruct (gcomponents (ren_mol s g) w' tb' o fat' fa' (S (n_atoms g)) (map s (ids g)) (init_state (ren_mol s g))) as [b|e'];
      cbn [wres_rel] in Hc; try contradiction.
    - destruct Hc as [_ [_ [_ [_ [_ [Hout [Hord _]]]]]]].
      destruct (ids g); [reflexivity|]. cbn [map map_order]. rewrite Hout, Hord, spell_ren. reflexivity.
    - subst e'. destruct (ids g); reflexivity.
  Qed.
End GComponentRen.

(* ==================================================================================================== *)
(* 2. the skeleton molecule of a condensed graph                                                          *)
Section Enc.
  Variable h : list Z -> Z.

  Lemma zget_map_snd {V W} (f : V -> W) (d : list (Z * V)) k : zget (map (fun kv => (fst kv, f (snd kv))) d) k = option_map f (zget d k).
  Proof. induction d as [|[k0 v0] d IH]; cbn [map zget fst snd]; [reflexivity|]. destruct (Z.eqb k k0); [reflexivity|exact IH]. Qed.
  Lemma keys_map_snd {V W} (f : V -> W) (d : list (Z * V)) : keys (map (fun kv => (fst kv, f (snd kv))) d) = keys d.
  Proof. unfold keys. rewrite map_map. reflexivity. Qed.

  Lemma ids_enc c : ids (enc h c) = keys (c_atoms c).
  Proof. unfold ids, enc, keys. cbn [m_atoms]. rewrite map_map. reflexivity. Qed.

  Lemma nbrs_enc c n : nbrs (enc h c) n = map (fun mb => (fst mb, mkBond (dbond_int h (snd mb)) None)) (cnbrs c n).
  Proof.
    unfold nbrs, cnbrs, enc. cbn [m_adj].
    rewrite (zget_map_snd (fun l : list (Z * dbond) => map (fun mb => (fst mb, mkBond (dbond_int h (snd mb)) None)) l)).
    destruct (zget (c_adj c) n); reflexivity.
  Qed.

  Lemma bond_of_enc c n m : bond_of (enc h c) n m = option_map (fun b => mkBond (dbond_int h b) None) (cbond c n m).
  Proof. unfold bond_of, cbond. rewrite nbrs_enc. apply (zget_map_snd (fun b => mkBond (dbond_int h b) None)). Qed.

  Lemma dbond_eqb_int a b : dbond_eqb a b = true -> dbond_int h a = dbond_int h b.
  Proof.
    unfold dbond_eqb, dbond_int, dbond_invariant. intros H. apply andb_prop in H. destruct H as [H1 H2].
    assert (E : forall x y : option Z, option_eqb Z.eqb x y = true -> oz x = oz y).
    { intros [x|] [y|] E; cbn in *; try discriminate; [apply Z.eqb_eq in E; exact E|reflexivity]. }
    rewrite (E _ _ H1), (E _ _ H2). reflexivity.
  Qed.

  (* a well-formed condensed graph gives a well-formed skeleton *)
  Lemma keys_adj_enc c : keys (m_adj (enc h c)) = keys (c_adj c).
  Proof. unfold enc, keys. cbn [m_adj]. rewrite map_map. reflexivity. Qed.
  Lemma keys_nb_enc (l : list (Z * dbond)) : keys (map (fun mb => (fst mb, mkBond (dbond_int h (snd mb)) None)) l) = keys l.
  Proof. unfold keys. rewrite map_map. reflexivity. Qed.

  Theorem wf_enc c : wf_cgr c = true -> wf_mol (enc h c) = true.
  Proof.
    unfold wf_cgr. intros H. apply andb_prop in H. destruct H as [H F]. apply andb_prop in H. destruct H as [E N].
    unfold wf_mol. change (keys (m_atoms (enc h c))) with (ids (enc h c)). rewrite ids_enc, keys_adj_enc, E, N. cbn [andb].
    rewrite forallb_forall in *. intros nl' Hin. unfold enc in Hin. cbn [m_adj] in Hin. apply in_map_iff in Hin. destruct Hin as [[n l] [E' Hin]]. subst nl'.
    specialize (F (n, l) Hin). cbn [fst snd] in *. apply andb_prop in F. destruct F as [F1 F2].
    rewrite keys_nb_enc, F1. cbn [andb]. rewrite forallb_forall in *. intros mb' Hm. apply in_map_iff in Hm. destruct Hm as [[m b] [E'' Hm]]. subst mb'.
    specialize (F2 (m, b) Hm). cbn [fst snd] in *. apply andb_prop in F2. destruct F2 as [F2 F3]. apply andb_prop in F2. destruct F2 as [F2 F4].
    rewrite F2, F4. cbn [andb]. rewrite bond_of_enc. destruct (cbond c m n) as [b'|]; [|discriminate]. cbn [option_map].
    unfold bond_eqb. cbn [b_ord b_stereo option_eqb]. rewrite (dbond_eqb_int b b' F3), Z.eqb_refl. reflexivity.
  Qed.

  Lemma enc_ren s c : enc h (rename_cgr s c) = ren_mol s (enc h c).
  Proof.
    unfold enc, rename_cgr, ren_mol, ren_adj. cbn [c_atoms c_adj m_atoms m_adj]. rewrite !map_map. f_equal.
    apply map_ext. intros [n l]. cbn [fst snd]. rewrite !map_map. reflexivity.
  Qed.

  Section Tokens.
    Variable s : Z -> Z.
    Hypothesis s_inj : forall x y, s x = s y -> x = y.

    Lemma catom_ren c n : catom (rename_cgr s c) (s n) = catom c n.
    Proof. unfold catom, rename_cgr. cbn [c_atoms]. rewrite (zget_renG s s_inj (fun a : datom => a)). destruct (zget (c_atoms c) n); reflexivity. Qed.

    Lemma cbond_ren c n m : cbond (rename_cgr s c) (s n) (s m) = cbond c n m.
    Proof.
      unfold cbond, cnbrs, rename_cgr. cbn [c_adj].
      rewrite (zget_renG s s_inj (fun l : list (Z * dbond) => map (fun mb => (s (fst mb), snd mb)) l)).
      destruct (zget (c_adj c) n) as [l|]; cbn [option_map]; [|reflexivity].
      rewrite (zget_renG s s_inj (fun b : dbond => b)). destruct (zget l m); reflexivity.
    Qed.

    Lemma cgr_fat_ren c n : cgr_fat (rename_cgr s c) (s n) = cgr_fat c n.
    Proof. unfold cgr_fat. rewrite catom_ren. reflexivity. Qed.
    Lemma cgr_fa_ren c n m : cgr_fa (rename_cgr s c) (s n) (s m) = cgr_fa c n m.
    Proof. unfold cgr_fa. rewrite cbond_ren. reflexivity. Qed.
  End Tokens.

  (* ==================================================================================================== *)
  (* 3. the text of a condensed graph under renumbering                                                     *)
  (* for ANY injective weights (and any tie-break priorities on the two sides): the same text, the written order mapped *)
  Theorem cgr_smiles_text_ren c s w w' tb tb' :
    wf_cgr c = true -> (forall x y, s x = s y -> x = y) -> Morgan.inj_on (keys (c_atoms c)) w ->
    (forall n, In n (keys (c_atoms c)) -> w' (s n) = w n) ->
    cgr_smiles_text h (rename_cgr s c) w' tb' = map_order s (cgr_smiles_text h c w tb).
  Proof.
    intros W Hs Hw Hr. unfold cgr_smiles_text. rewrite enc_ren.
    apply gsmiles_text_ren; try assumption.
    - apply wf_enc. exact W.
    - rewrite ids_enc. exact Hw.
    - rewrite ids_enc. exact Hr.
    - intros n. apply cgr_fat_ren. exact Hs.
    - intros n m. apply cgr_fa_ren. exact Hs.
  Qed.

  Lemma nodup_keys_order c l : wf_cgr c = true -> cgr_atoms_order h c = Ok l -> NoDup (keys l).
  Proof.
    intros W Hl. destruct (wf_cgr_nodup c W) as [Na [Nb _]]. unfold cgr_atoms_order in Hl.
    destruct (c_atoms c) as [|na [|nb r]] eqn:E.
    - injection Hl as <-. constructor.
    - injection Hl as <-. cbn. constructor; [intros []|constructor].
    - rewrite <- E in *. apply (morgan_keys_nodup h (cgr_atom_labels h c) (cgr_int_adjacency h c) l);
        [rewrite keys_cgr_atom_labels; exact Na|rewrite keys_cgr_int_adjacency; exact Nb|exact Hl].
  Qed.

  (* str(cgr) with the weights of Morgan.atoms_order: when the ranks are all different, renumbering the condensed graph
     (by remap(), i.e. keeping the dict orders) leaves the string unchanged and maps the written atom order *)
  Theorem cgr_str_invariant_discrete c s tb tb' l :
    wf_cgr c = true -> (forall x y, s x = s y -> x = y) -> cgr_atoms_order h c = Ok l -> NoDup (map snd l) ->
    cgr_str h (rename_cgr s c) tb' = map_order s (cgr_str h c tb).
  Proof.
    intros W Hs Hl Hd. unfold cgr_str.
    assert (Hs' : Morgan.inj_on (keys (c_atoms c)) s) by (intros x y _ _; apply Hs).
    rewrite (cgr_atoms_order_equivariant h c s W Hs'), Hl. cbn [ren_res].
    destruct (cgr_atoms_order_total h c W) as [l0 [E P]]. rewrite Hl in E. injection E as <-.
    pose proof (nodup_keys_order c l W Hl) as Nk.
    apply cgr_smiles_text_ren; try assumption.
    - intros x y Hx Hy. apply (lbl_inj_of_nodup l Nk Hd); eapply Permutation_in; try (apply Permutation_sym; exact P); assumption.
    - intros n Hn. apply (lbl_ren s l n (keys (c_atoms c)) Hs'); [|exact Hn].
      intros x Hx. eapply Permutation_in; [exact P|exact Hx].
  Qed.

  (* ... and through compose: renumber BOTH SIDES of a reaction consistently; if the Morgan ranks of the condensed graph are
     all different, str(r ^ p) is the same string *)
  Theorem compose_str_invariant_discrete s r p o1 o2 o3 c l tb tb' :
    wf_mol r = true -> wf_mol p = true -> orders_ok r p o1 o2 o3 -> (forall x y, s x = s y -> x = y) ->
    compose_ord o1 o2 o3 r p = Ok c -> cgr_atoms_order h c = Ok l -> NoDup (map snd l) ->
    exists c', compose_ord (map s o1) (map s o2) (map s o3) (rename s r) (rename s p) = Ok c' /\
               cgr_str h c' tb' = map_order s (cgr_str h c tb).
  Proof.
    intros Hr Hp Ho Hs E Hl Hd. exists (rename_cgr s c). split.
    - rewrite (compose_equivariant s r p o1 o2 o3 Hr Hp Ho) by (intros x y _ _; apply Hs). rewrite E. reflexivity.
    - destruct (compose_symmetric_wf r p o1 o2 o3 c Hr Hp Ho E) as [W _]. apply (cgr_str_invariant_discrete c s tb tb' l); assumption.
  Qed.
End Enc.

(* non-vacuity: the example reaction (C-C-O -> C=C O(-)); its three Morgan ranks are different; renumbered by n -> 10 - n *)
Example cgr_str_example :
  exists c l, compose example_r example_p = Ok c /\ cgr_atoms_order hash_ztuple c = Ok l /\ NoDup (map snd l) /\
    cgr_str hash_ztuple c (fun n => n) = Ok ("[O0>-]C[->=]C"%string, [3; 2; 1]) /\
    cgr_str hash_ztuple (rename_cgr (fun n => 10 - n) c) (fun n => - n) = Ok ("[O0>-]C[->=]C"%string, [7; 8; 9]).
Proof.
  eexists. eexists. split; [vm_compute; reflexivity|]. split; [vm_compute; reflexivity|].
  split; [repeat constructor; cbn; intuition discriminate|]. split; vm_compute; reflexivity.
Qed.
