(* C13 -- Graph.remap + MoleculeContainer.remap, translated from /repo's source (guard, the two dict comprehensions through
   mapping.get, flush, the _changed bookkeeping inside / outside a transaction), equal the hand-written remap of Model.Cache on every
   well-formed molecule (dict keys unique, neighbours are atoms: there a dict comprehension under an injective renaming is a map). *)
From Coq Require Import ZArith List Bool Lia.
From Model Require Import PyBase Cache.
From Gen Require Import CacheOps.
From Proofs Require Import CacheProofs CacheWf CacheCopy CacheCoh CacheWorld CacheUnion CacheOpsTie.
Import ListNotations.
Open Scope Z_scope.

Lemma dict_of_nodup {V} (l : list (Z * V)) : NoDup (keys l) -> dict_of l = l.
Proof. intros H. unfold dict_of. change (zupdate [] l = l). rewrite (zupdate_app l []); [reflexivity | exact H | intros k _ []]. Qed.
Lemma inj_on_sub f a b : inj_on f b -> incl a b -> inj_on f a.
Proof. intros I S x y Hx Hy. apply I; apply S; assumption. Qed.
Lemma keys_rn {V U} (f : Z -> Z) (g : V -> U) (l : list (Z * V)) : keys (map (fun kv => (f (fst kv), g (snd kv))) l) = map f (keys l).
Proof. unfold keys. rewrite !map_map. reflexivity. Qed.
Lemma dict_rn {V U} (f : Z -> Z) (g : V -> U) (l : list (Z * V)) : inj_on f (keys l) -> NoDup (keys l) ->
  dict_of (map (fun kv => (f (fst kv), g (snd kv))) l) = map (fun kv => (f (fst kv), g (snd kv))) l.
Proof. intros I N. apply dict_of_nodup. rewrite keys_rn. apply NoDup_map_inj; assumption. Qed.

Theorem gen_remap_eq : forall mp h o, wf h o -> gen_remap mp h o = remap mp h o.
Proof.
  intros mp h o Wf. unfold gen_remap, remap, ite. rewrite negb_involutive.
  destruct (nodup_z (map snd mp)) eqn:E1; cbn [negb orb]; [|reflexivity].
  destruct (existsb _ (keys (o_atoms o))) eqn:E2; [reflexivity|].
  pose proof (mg_inj mp _ E1 E2) as I. pose proof Wf as [Wk Wnd Wsym Wloop Wval Wlt]. destruct Wnd as [Nk Nr].
  assert (NoDup (keys (o_atoms o))) as Na by (rewrite <- Wk; exact Nk).
  assert (A : dict_of (map (fun kv_ : Z * acell => let n := fst kv_ in (dget mp n n, snd kv_)) (o_atoms o))
              = map (fun na => (mg mp (fst na), snd na)) (o_atoms o)).
  { apply (dict_rn (mg mp) (fun x => x)); assumption. }
  assert (B : dict_of (map (fun kv_ : Z * list (Z * ref) => let n := fst kv_ in
                 (dget mp n n, dict_of (map (fun kv2_ : Z * ref => let m := fst kv2_ in (dget mp m m, snd kv2_)) (snd kv_)))) (o_adj o))
              = map (fun nr => (mg mp (fst nr), map (fun mr => (mg mp (fst mr), snd mr)) (snd nr))) (o_adj o)).
  { transitivity (dict_of (map (fun nr : Z * list (Z * ref) => (mg mp (fst nr), map (fun mr : Z * ref => (mg mp (fst mr), snd mr)) (snd nr))) (o_adj o))).
    - f_equal. apply map_ext_in. intros [n r] Hin. cbn [fst snd]. f_equal.
      assert (zget (o_adj o) n = Some r) as Hz by (apply In_zget_nodup; assumption).
      apply (dict_rn (mg mp) (fun x => x)); [|exact (Nr n r Hz)].
      apply (inj_on_sub _ _ _ I). intros m Hm. apply keys_In_zget in Hm. destruct Hm as [rf Hm].
      apply (wfa_nbr_atom h _ _ n m rf Wf). unfold aslot. rewrite Hz. exact Hm.
    - apply (dict_rn (mg mp) (fun r => map (fun mr : Z * ref => (mg mp (fst mr), snd mr)) r) (o_adj o)); [rewrite Wk; exact I | exact Nk]. }
  clear Wf Wk Nk Nr Wsym Wloop Wval Wlt Na I E2.
  destruct o as [at0 ad0 ca0 ch0 bk0 nm0 mt0].
  unfold seq, assign_state, flush, ok, set_atoms, set_adj, set_cache, set_changed in *.
  cbn [o_atoms o_adj o_cache o_changed o_backup o_name o_meta] in *.
  cbv zeta in A, B. cbv zeta. rewrite A, B. unfold ite, changed_map, set_of, set_changed.
  cbn [o_atoms o_adj o_cache o_changed o_backup o_name o_meta].
  destruct bk0; cbn [is_none negb].
  - rewrite (keys_rn (mg mp) (fun x => x)). reflexivity.
  - destruct ch0; cbn [is_none negb]; reflexivity.
Qed.

Theorem remap_is_translated : forall s mp, W s -> step s (ORemap mp) = lift (gen_remap mp) s.
Proof.
  intros s mp HW. pose proof (W_cur s HW) as [[Hwf _] _]. simpl. apply lift_ext. symmetry. apply gen_remap_eq. exact Hwf.
Qed.

Example gen_remap_example :
  let s := init [(1, mkCore 6 None 0 false); (2, mkCore 6 None 0 false); (3, mkCore 8 None 0 false)]
                [(1, [(2, 1)]); (2, [(1, 1); (3, 1)]); (3, [(2, 1)])] [] [] in
  keys (o_atoms (snd (fst (gen_remap [(1, 3); (3, 1)] (s_heap s) (s_cur s))))) = [3; 2; 1] /\
  snd (gen_remap [(1, 3); (3, 1)] (s_heap s) (s_cur s)) = None /\
  snd (gen_remap [(1, 2)] (s_heap s) (s_cur s)) = Some ValueError.
Proof. vm_compute. repeat split; reflexivity. Qed.
